#!/usr/bin/env python3
"""Regenerates MANIFEST.json from props/*.meta.json (one per claimed property) — keeps the
not_applicable list current for every property without a check."""
import json, os, subprocess
HERE = os.path.dirname(os.path.abspath(__file__))
props = [json.loads(l)["id"] for l in open(os.path.join(HERE, "properties.jsonl"))]
checks, na = [], []
for p in props:
    mp = os.path.join(HERE, "props", p + ".meta.json")
    if os.path.exists(mp) and os.path.exists(os.path.join(HERE, "props", p + ".py")):
        m = json.load(open(mp))
        checks.append({
            "property_id": p,
            "quick_cmd": "./check %s --tier quick" % p,
            "thorough_cmd": "./check %s --tier thorough" % p,
            "evidence_file": "/verif/evidence/%s.json" % p,
            "replay_cmd_template": "./check %s --replay {path}" % p,
            "engine": m.get("engine", "lean+seq-diff"),
            "level_claimed": {"category": "proof", "text": m["text"], "design_ref": m.get("design_ref", "DESIGN.md §6 " + p)},
            "level_note": m["note"],
            "technique": m.get("technique", "Lean 4 theorems about a hand-written executable model + checked differential correspondence with the Rust implementation"),
        })
    else:
        na.append({"property_id": p, "reason": "check not built yet in this round (planned, DESIGN.md §6 %s); the technique applies" % p})
hooks = json.load(open(os.path.join(HERE, "hooks.json")))
man = {
    "version": 1,
    "setup_cmd": "./check setup",
    "hooks": hooks,
    "engines": json.load(open(os.path.join(HERE, "engines.json"))),
    "checks": checks,
    "notes": "All checks: Lean 4 proof obligations (lake build + #print axioms audit) + correspondence run of the Lean model against /repo's working tree + implementation-side monitors; see DESIGN.md.",
    "not_applicable": na,
}
json.dump(man, open(os.path.join(HERE, "MANIFEST.json"), "w"), indent=1)
print("checks:", [c["property_id"] for c in checks], "unclaimed:", len(na))
