#!/usr/bin/env python3
"""Merges findings/*.entries.json (written by the per-property builders) into known_findings.json.
Run by hand by the lead; never at check time."""
import json, glob, os
HERE = os.path.dirname(os.path.abspath(__file__))
kf = json.load(open(os.path.join(HERE, "known_findings.json")))
have = {(f["property"], f["signature"]) for f in kf["open"]}
for p in sorted(glob.glob(os.path.join(HERE, "findings", "*.entries.json"))):
    try:
        es = json.load(open(p))
    except Exception as e:
        print("skip", p, e); continue
    if isinstance(es, dict):
        es = es.get("open", es.get("entries", []))
    for e in es:
        key = (e["property"], e["signature"])
        if key not in have:
            kf["open"].append(e); have.add(key); print("added", key)
json.dump(kf, open(os.path.join(HERE, "known_findings.json"), "w"), indent=1)
