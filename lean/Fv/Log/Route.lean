/-
C19 — routing model of `fibre_logging` (import-free, executable).

Two independent things live here:

* `RouteSpec` — the property text made formal (a decidable proposition per appender).
* `route`     — a transliteration of what the code builds at `init_from_file` and evaluates per
                event: `build_filter_for_appender` (init.rs), `PerAppenderFilter::{find_most_
                specific_rule, max_level, enabled}` and `target_matches_prefix` (subscriber/
                actor.rs), `EventProcessor::{new, max_level, event_enabled, process_event}`
                (subscriber/processor.rs), the `log` bridge (`LogHandler::log`, subscriber/
                log_handler.rs) and the `tracing` layer (`DispatchLayer::{enabled, max_level_hint,
                on_event}`, subscriber/dispatch.rs).

Representation.
* Names / targets are `List Char`. Rust compares `prefix.len()` in bytes; among prefixes of one
  target the byte order and the char-count order coincide (a shorter prefix of the same string is
  a prefix of the longer one), so `List.length` is used.
* `std::collections::HashMap`s (`ConfigInternal.appenders`, `ConfigInternal.loggers`, the
  per-appender `rules`) are lists in *iteration order*; theorems quantify over every list, i.e.
  over every iteration order. Distinctness of keys is the well-formedness predicate `Config.WF`.
* The logger called `root` is not an entry of `loggers` here: `process_raw_config` guarantees it
  exists (default `info`, no appenders), `build_filter_for_appender` reads only its level and
  appender list (its `additive` flag is ignored by the code) and skips it when building rules.
* Levels: `tracing_core::LevelFilter` order, OFF=0 < ERROR=1 < WARN=2 < INFO=3 < DEBUG=4 < TRACE=5.
  An event of level `n` passes filter `f` iff `n ≤ f`.
* Appenders are numbered (the driver keeps the name table).
-/
namespace Fv.Log

abbrev Name := List Char
abbrev Appender := Nat

/-- `LoggerInternal` (config/processed.rs) for a logger other than `root`. -/
structure Logger where
  name : Name
  level : Nat
  appenders : List Appender
  additive : Bool
deriving DecidableEq, Repr

/-- `ConfigInternal` as far as routing reads it. -/
structure Config where
  /-- keys of `ConfigInternal.appenders`, in HashMap iteration order (= order of `actors`) -/
  appenders : List Appender
  /-- the non-root entries of `ConfigInternal.loggers`, in HashMap iteration order -/
  loggers : List Logger
  rootLevel : Nat
  rootAppenders : List Appender
deriving Repr

structure Event where
  target : Name
  level : Nat
deriving DecidableEq, Repr

/-- What the HashMaps and `process_raw_config`'s validation guarantee: distinct appender keys,
distinct logger keys, every appender a logger names is defined. -/
structure Config.WF (cfg : Config) : Prop where
  appenders_nodup : cfg.appenders.Nodup
  names_nodup : (cfg.loggers.map (·.name)).Nodup
  named_defined : ∀ l ∈ cfg.loggers, ∀ a ∈ l.appenders, a ∈ cfg.appenders

/-! ## The code -/

/-- `str::strip_prefix`. -/
def stripPrefix : Name → Name → Option Name
  | t, [] => some t
  | [], _ :: _ => none
  | c :: t, d :: p => if c = d then stripPrefix t p else none

/-- `rest.starts_with("::")`. -/
def startsWithColons : Name → Bool
  | ':' :: ':' :: _ => true
  | _ => false

/-- actor.rs `target_matches_prefix`. -/
def targetMatchesPrefix (target pfx : Name) : Bool :=
  match stripPrefix target pfx with
  | some rest => rest.isEmpty || startsWithColons rest
  | none => false

/-- one entry of `PerAppenderFilter.rules`: prefix ↦ (level, additive). -/
abbrev Rule := Name × Nat × Bool

/-- `PerAppenderFilter`. -/
structure Filter where
  rules : List Rule
  defaultLevel : Nat
deriving Repr

/-- init.rs `build_filter_for_appender`. -/
def buildFilter (cfg : Config) (a : Appender) : Filter :=
  { rules := (cfg.loggers.filter (fun l => l.appenders.contains a)).map
      (fun l => (l.name, l.level, l.additive))
    defaultLevel := if cfg.rootAppenders.contains a then cfg.rootLevel else 0 }

/-- `Iterator::max_by_key(|(p, _)| p.len())`: the *last* element among those of maximal key. -/
def maxByLen : List Rule → Option Rule
  | [] => none
  | r :: rs =>
    match maxByLen rs with
    | none => some r
    | some m => if r.1.length ≤ m.1.length then some m else some r

/-- `PerAppenderFilter::find_most_specific_rule`. -/
def findMostSpecificRule (f : Filter) (target : Name) : Option Rule :=
  maxByLen (f.rules.filter (fun r => targetMatchesPrefix target r.1))

/-- `PerAppenderFilter::max_level`. -/
def Filter.maxLevel (f : Filter) : Nat :=
  (f.rules.map (fun r => r.2.1)).foldl max f.defaultLevel

/-- `PerAppenderFilter::enabled`. -/
def Filter.enabled (f : Filter) (ev : Event) : Bool :=
  match findMostSpecificRule f ev.target with
  | some r => decide (ev.level ≤ r.2.1)
  | none => decide (ev.level ≤ f.defaultLevel)

/-- the `actors` vector of `EventProcessor` (name + filter; formatter/channel are in `Pipeline`). -/
def actors (cfg : Config) : List (Appender × Filter) :=
  cfg.appenders.map (fun a => (a, buildFilter cfg a))

/-- `EventProcessor::new`: `max_level` = max over actors, `OFF` if there are none. -/
def maxLevel (cfg : Config) : Nat :=
  ((actors cfg).map (fun a => a.2.maxLevel)).foldl max 0

/-- `EventProcessor::event_enabled`. -/
def eventEnabled (cfg : Config) (ev : Event) : Bool :=
  (actors cfg).any (fun a => a.2.enabled ev)

/-- one iteration of the "globally most specific matching logger" loop of `process_event`
(strictly longer replaces: the first of maximal length wins). -/
def winnerStep (w : Option (Name × Bool)) (r : Option Rule) : Option (Name × Bool) :=
  match r with
  | none => w
  | some (p, _, add) =>
    match w with
    | none => some (p, add)
    | some (wp, _) => if wp.length < p.length then some (p, add) else w

def pickWinner (rules : List (Option Rule)) : Option (Name × Bool) :=
  rules.foldl winnerStep none

/-- `non_additive_gate`. -/
def gateOf (w : Option (Name × Bool)) : Option Name :=
  match w with
  | some (p, false) => some p
  | _ => none

/-- body of the delivery loop of `process_event` for one `(actor, rule)` pair. -/
def deliverTo (gate : Option Name) (ev : Event) (actor : Appender × Filter) (rule : Option Rule) : Bool :=
  let wiredToGate :=
    match gate with
    | some g => (match rule with | some r => r.1 == g | none => false)
    | none => true
  let enabled :=
    match rule with
    | some r => decide (ev.level ≤ r.2.1)
    | none => decide (ev.level ≤ actor.2.defaultLevel)
  wiredToGate && enabled

/-- `EventProcessor::process_event`: the names of the actors whose channel gets the event, in
actor order (byte appenders are sent to inside the loop, event-stream appenders right after it,
each in actor order; both are "one send per selected actor"). -/
def processEvent (acts : List (Appender × Filter)) (ev : Event) : List Appender :=
  let rules := acts.map (fun a => findMostSpecificRule a.2 ev.target)
  let gate := gateOf (pickWinner rules)
  ((acts.zip rules).filter (fun ar => deliverTo gate ev ar.1 ar.2)).map (fun ar => ar.1.1)

/-- The routing decision of the code for configuration `cfg`. -/
def route (cfg : Config) (ev : Event) : List Appender :=
  processEvent (actors cfg) ev

/-! ### Entry points -/

/-- `log::Level`. -/
inductive LogLevel | error | warn | info | debug | trace
deriving DecidableEq, Repr

/-- `log::LevelFilter` as a number: Off=0 … Trace=5. -/
def LogLevel.toNat : LogLevel → Nat
  | .error => 1 | .warn => 2 | .info => 3 | .debug => 4 | .trace => 5

/-- the `match record.level()` in `LogHandler::build_log_event`. -/
def logLevelToTracing : LogLevel → Nat
  | .error => 1 | .warn => 2 | .info => 3 | .debug => 4 | .trace => 5

/-- init.rs `tracing_filter_to_log_filter` (result as `log::LevelFilter` number). -/
def tracingFilterToLogFilter (f : Nat) : Nat :=
  if f = 0 then 0 else if f = 1 then 1 else if f = 2 then 2 else if f = 3 then 3
  else if f = 4 then 4 else 5

/-- `log::max_level()` after `init_from_file`. -/
def logMaxLevel (cfg : Config) : Nat := tracingFilterToLogFilter (maxLevel cfg)

/-- A `log::Record` reaching `LogHandler::log` (the `log!` macro has already compared the level
with `log::max_level()`; `LogHandler::log` does it again). -/
def emitLog (cfg : Config) (target : Name) (lvl : LogLevel) : List Appender :=
  if logMaxLevel cfg < lvl.toNat then []
  else route cfg { target := target, level := logLevelToTracing lvl }

/-- A `tracing` event: the macro checks the global max-level hint (`max_level_hint`), the callsite
interest / `enabled` (`DispatchLayer::enabled` = `event_enabled` for events), then `on_event`
calls `process_event` with the callsite's metadata. -/
def emitTracing (cfg : Config) (target : Name) (lvl : Nat) : List Appender :=
  let ev : Event := { target := target, level := lvl }
  if maxLevel cfg < lvl then []
  else if !eventEnabled cfg ev then []
  else route cfg ev

/-! ## The property -/

/-- logger `l`'s name is a module-path prefix of the event target: equal, or followed by `::`. -/
def Matches (l : Logger) (ev : Event) : Prop :=
  l.name = ev.target ∨ ∃ rest, ev.target = l.name ++ ':' :: ':' :: rest

/-- executable form of `Matches` for the spec side (independent of `stripPrefix`). -/
def matchesB (l : Logger) (ev : Event) : Bool :=
  l.name == ev.target || (l.name ++ [':', ':']).isPrefixOf ev.target

/-- The level of the most specific logger that names `a` and matches the target admits the
event; the root logger is the fallback when no such logger exists. -/
def Admits (cfg : Config) (ev : Event) (a : Appender) : Prop :=
  (∃ l ∈ cfg.loggers, matchesB l ev = true ∧ a ∈ l.appenders ∧
      (∀ l' ∈ cfg.loggers, matchesB l' ev = true → a ∈ l'.appenders → l'.name.length ≤ l.name.length) ∧
      ev.level ≤ l.level)
  ∨ ((∀ l ∈ cfg.loggers, matchesB l ev = true → a ∉ l.appenders) ∧
      a ∈ cfg.rootAppenders ∧ ev.level ≤ cfg.rootLevel)

/-- `w` is the most specific matching logger overall. -/
def MostSpecificOverall (cfg : Config) (ev : Event) (w : Logger) : Prop :=
  w ∈ cfg.loggers ∧ matchesB w ev = true ∧
    ∀ l' ∈ cfg.loggers, matchesB l' ev = true → l'.name.length ≤ w.name.length

/-- When the most specific matching logger overall is non-additive only its own appenders can
receive the event. -/
def GateOk (cfg : Config) (ev : Event) (a : Appender) : Prop :=
  ∀ w ∈ cfg.loggers, matchesB w ev = true →
    (∀ l' ∈ cfg.loggers, matchesB l' ev = true → l'.name.length ≤ w.name.length) →
    w.additive = false → a ∈ w.appenders

/-- **C19, routing clause**: appender `a` receives event `ev` under configuration `cfg`. -/
def RouteSpec (cfg : Config) (ev : Event) (a : Appender) : Prop :=
  a ∈ cfg.appenders ∧ Admits cfg ev a ∧ GateOk cfg ev a

instance (cfg : Config) (ev : Event) (a : Appender) : Decidable (Admits cfg ev a) := by
  unfold Admits; infer_instance
instance (cfg : Config) (ev : Event) (a : Appender) : Decidable (GateOk cfg ev a) := by
  unfold GateOk; infer_instance
instance (cfg : Config) (ev : Event) (a : Appender) : Decidable (RouteSpec cfg ev a) := by
  unfold RouteSpec; infer_instance

/-- the specification as a list (used by the driver to tag cases where code and spec differ). -/
def routeSpecList (cfg : Config) (ev : Event) : List Appender :=
  cfg.appenders.filter (fun a => decide (RouteSpec cfg ev a))

/-- The hypothesis excluding F12a: the most specific matching logger overall (if there is one)
names at least one appender — otherwise it is in no per-appender rule map and the code cannot
see it. -/
def WinnerWired (cfg : Config) (ev : Event) : Prop :=
  ∀ w ∈ cfg.loggers, matchesB w ev = true →
    (∀ l' ∈ cfg.loggers, matchesB l' ev = true → l'.name.length ≤ w.name.length) →
    w.appenders ≠ []

/-- configuration-wide form: every (non-root) logger names at least one appender. -/
def AllWired (cfg : Config) : Prop := ∀ l ∈ cfg.loggers, l.appenders ≠ []

/-- the form in the finding's wording: every non-additive logger names at least one appender.
(Not sufficient on its own, see `C19_fails_F12a_additive`.) -/
def NonAdditiveWired (cfg : Config) : Prop := ∀ l ∈ cfg.loggers, l.additive = false → l.appenders ≠ []

instance (cfg : Config) (ev : Event) : Decidable (WinnerWired cfg ev) := by
  unfold WinnerWired; infer_instance
instance (cfg : Config) : Decidable (AllWired cfg) := by unfold AllWired; infer_instance
instance (cfg : Config) : Decidable (NonAdditiveWired cfg) := by unfold NonAdditiveWired; infer_instance

end Fv.Log
