import Fv.Log.Text
/-
Model of `logging/src/roller.rs` (`CustomRoller`) and of the naming helpers of
`RollingPolicyInternal` in `logging/src/config/processed.rs`.

* File system: a finite map from names (inside the policy's directory) to files; a file is the list of
  records appended to it (`(id, length in bytes)`) plus a tag saying whether it is stored gzip-compressed.
  `rename`, `remove`, `append` are atomic; I/O errors, partial writes and crashes are not modelled (DESIGN §3).
  The `BufWriter` in front of the active file is transparent: it is flushed (dropped) before every rename.
* Time: seconds since the Unix epoch (`Nat`; the injected `now`); a `Stamp` is a broken-down UTC date-time,
  ordered lexicographically — that is how `DateTime<Utc>` values parsed back from file names compare.
  The proleptic Gregorian calendar (`civilOfDays`) stands for chrono; years 1970 ..= 9999 (chrono prints
  `+10000` for later years and the roller's regex then no longer recognises its own files).
* Discovery is the code's: `starts_with(prefix)`, optional strip of the compressed suffix, leftmost match
  of `\.((?:\d{4}-\d{2}-\d{2})|(?:\d{4}-\d{2}-\d{2}_\d{2}-\d{2}-\d{2}))\.(\d+)` (`\d` = Unicode Nd), chrono
  parse of the stamp (ASCII digits, calendar-valid), `u32` parse of the sequence.
-/
namespace Fv.Log.Roller
open Fv.Log

/-! ## time -/

inductive Gran | minutely | hourly | daily | never
  deriving DecidableEq, Repr

structure Stamp where
  y : Nat
  m : Nat
  d : Nat
  hh : Nat
  mm : Nat
  ss : Nat
  deriving DecidableEq, Repr

def Stamp.key (s : Stamp) : List Nat := [s.y, s.m, s.d, s.hh, s.mm, s.ss]

def ltNats : List Nat → List Nat → Bool
  | [], [] => false
  | [], _ :: _ => true
  | _ :: _, [] => false
  | a :: as, b :: bs => if a < b then true else if b < a then false else ltNats as bs

/-- chronological order of two date-times -/
def Stamp.lt (a b : Stamp) : Bool := ltNats a.key b.key

def isLeap (y : Nat) : Bool := (y % 4 = 0 && y % 100 ≠ 0) || y % 400 = 0
def yearLen (y : Nat) : Nat := if isLeap y then 366 else 365
def daysInMonth (y m : Nat) : Nat :=
  if m = 2 then (if isLeap y then 29 else 28)
  else if m = 4 ∨ m = 6 ∨ m = 9 ∨ m = 11 then 30
  else 31

/-- (year, day of year) of day `n` counted from 1 January of year `y` -/
def splitYear : Nat → Nat → Nat → Nat × Nat
  | 0, y, n => (y, n)
  | fuel + 1, y, n => if n < yearLen y then (y, n) else splitYear fuel (y + 1) (n - yearLen y)

/-- (month, day of month - 1) of day-of-year `n` counted from the first of month `m` -/
def splitMonth : Nat → Nat → Nat → Nat → Nat × Nat
  | 0, _, m, n => (m, n)
  | fuel + 1, y, m, n => if n < daysInMonth y m then (m, n) else splitMonth fuel y (m + 1) (n - daysInMonth y m)

/-- civil date of day `n` since 1970-01-01 -/
def civilOfDays (n : Nat) : Nat × Nat × Nat :=
  let (y, doy) := splitYear n 1970 n
  let (m, d0) := splitMonth 11 y 1 doy
  (y, m, d0 + 1)

def stampOfSecs (t : Nat) : Stamp :=
  let c := civilOfDays (t / 86400)
  let s := t % 86400
  { y := c.1, m := c.2.1, d := c.2.2, hh := s / 3600, mm := s % 3600 / 60, ss := s % 60 }

/-- `calculate_period_start` (seconds) -/
def periodStart (g : Gran) (t : Nat) : Nat :=
  match g with
  | .minutely => t - t % 60
  | .hourly => t - t % 3600
  | .daily => t - t % 86400
  | .never => 0

/-! ## policy and names -/

structure Compression where
  suffix : Text
  keep : Nat
  deriving DecidableEq, Repr

structure Policy where
  pfx : Text
  sfx : Text
  gran : Gran
  maxSize : Option Nat := none
  maxRetained : Option Nat := none
  compression : Option Compression := none
  deriving Repr

def dch (n : Nat) : Char := Nat.digitChar (n % 10)
def pad2 (n : Nat) : Text := [dch (n / 10), dch n]
def pad4 (n : Nat) : Text := [dch (n / 1000), dch (n / 100), dch (n / 10), dch n]

def fmtDate (s : Stamp) : Text := pad4 s.y ++ '-' :: (pad2 s.m ++ '-' :: pad2 s.d)

/-- `RollingPolicyInternal::format_period` -/
def fmtPeriod (g : Gran) (s : Stamp) : Text :=
  match g with
  | .minutely => fmtDate s ++ '_' :: (pad2 s.hh ++ '-' :: (pad2 s.mm ++ "-00".toList))
  | .hourly => fmtDate s ++ '_' :: (pad2 s.hh ++ "-00-00".toList)
  | .daily => fmtDate s
  | .never => fmtDate s

def baseName (p : Policy) : Text := p.pfx ++ p.sfx

/-- `RollingPolicyInternal::rolled_path` (file name part) -/
def rolledName (p : Policy) (s : Stamp) (seq : Nat) : Text :=
  p.pfx ++ '.' :: (fmtPeriod p.gran s ++ '.' :: (dec seq ++ p.sfx))

def defaultGz : Text := ".gz".toList

/-- `compressed_suffix()` -/
def gzSuffix (p : Policy) : Text :=
  match p.compression with
  | some c => c.suffix
  | none => defaultGz

/-! ## `ROLLED_FILE_REGEX` -/

def takeNd : Nat → Text → Option (Text × Text)
  | 0, t => some ([], t)
  | _ + 1, [] => none
  | n + 1, c :: rest =>
    if isNd c then
      match takeNd n rest with
      | some (a, r) => some (c :: a, r)
      | none => none
    else none

def expectChar (ch : Char) (t : Text) : Option Text :=
  match t with
  | [] => none
  | c :: rest => if c = ch then some rest else none

/-- `\d{4}-\d{2}-\d{2}` -/
def matchDate (t : Text) : Option (Text × Text) :=
  match takeNd 4 t with
  | none => none
  | some (y, r1) =>
    match expectChar '-' r1 with
    | none => none
    | some r2 =>
      match takeNd 2 r2 with
      | none => none
      | some (m, r3) =>
        match expectChar '-' r3 with
        | none => none
        | some r4 =>
          match takeNd 2 r4 with
          | none => none
          | some (d, r5) => some (y ++ '-' :: (m ++ '-' :: d), r5)

/-- `\d{2}-\d{2}-\d{2}` -/
def matchTime (t : Text) : Option (Text × Text) :=
  match takeNd 2 t with
  | none => none
  | some (h, r1) =>
    match expectChar '-' r1 with
    | none => none
    | some r2 =>
      match takeNd 2 r2 with
      | none => none
      | some (m, r3) =>
        match expectChar '-' r3 with
        | none => none
        | some r4 =>
          match takeNd 2 r4 with
          | none => none
          | some (s, r5) => some (h ++ '-' :: (m ++ '-' :: s), r5)

/-- `\.(\d+)` -/
def seqAfterDot (t : Text) : Option Text :=
  match expectChar '.' t with
  | none => none
  | some r => let ds := r.takeWhile isNd; if ds = [] then none else some ds

/-- the regex anchored right after a `.`: captures (timestamp, sequence). The date-only alternative
is tried first; if the `\.(\d+)` tail fails after it, the date-time alternative is tried. -/
def matchAt (t : Text) : Option (Text × Text) :=
  match matchDate t with
  | none => none
  | some (d, r) =>
    match seqAfterDot r with
    | some q => some (d, q)
    | none =>
      match expectChar '_' r with
      | none => none
      | some r1 =>
        match matchTime r1 with
        | none => none
        | some (tm, r2) =>
          match seqAfterDot r2 with
          | some q => some (d ++ '_' :: tm, q)
          | none => none

/-- `ROLLED_FILE_REGEX.captures(name)`: leftmost match -/
def search : Text → Option (Text × Text)
  | [] => none
  | c :: rest =>
    if c = '.' then
      match matchAt rest with
      | some r => some r
      | none => search rest
    else search rest

/-! ## `parse_datetime_from_str`, `parse::<u32>` -/

def num? (s : Text) : Option Nat := if s ≠ [] ∧ s.all isDigit then some (digitsVal s) else none

def validDate (y m d : Nat) : Bool := 1 ≤ m && m ≤ 12 && 1 ≤ d && d ≤ daysInMonth y m

/-- chrono: `%Y-%m-%d_%H-%M-%S`, else `%Y-%m-%d` at midnight; the input already has one of the two
shapes (it was captured by the regex), possibly with non-ASCII digits, which chrono rejects. -/
def parseStamp (ts : Text) : Option Stamp :=
  let f (a b : Nat) : Option Nat := num? ((ts.drop a).take b)
  match f 0 4, f 5 2, f 8 2 with
  | some y, some m, some d =>
    if !validDate y m d then none
    else if ts.length = 10 then some { y := y, m := m, d := d, hh := 0, mm := 0, ss := 0 }
    else
      match f 11 2, f 14 2, f 17 2 with
      | some hh, some mm, some ss =>
        if hh < 24 && mm < 60 && ss ≤ 60 then some { y := y, m := m, d := d, hh := hh, mm := mm, ss := ss } else none
      | _, _, _ => none
  | _, _, _ => none

def parseU32 (s : Text) : Option Nat :=
  match num? s with
  | some n => if n < 4294967296 then some n else none
  | none => none

/-! ## file system -/

structure File where
  recs : List (Nat × Nat) := []
  gz : Bool := false
  deriving DecidableEq, Repr

abbrev FS := List (Text × File)

def fileSize (f : File) : Nat := (f.recs.map (·.2)).foldl (· + ·) 0

def fsGet (fs : FS) (n : Text) : Option File :=
  match fs with
  | [] => none
  | (k, f) :: rest => if k = n then some f else fsGet rest n

def fsRemove (fs : FS) (n : Text) : FS := fs.filter (fun e => e.1 ≠ n)

/-- create or replace (the position of an entry in the list is irrelevant: `read_dir` order is arbitrary) -/
def fsSet (fs : FS) (n : Text) (f : File) : FS := (n, f) :: fsRemove fs n

/-- `fs::rename`: replaces an existing destination -/
def fsRename (fs : FS) (src dst : Text) : FS :=
  match fsGet fs src with
  | none => fs
  | some f => fsSet (fsRemove fs src) dst f

/-- `OpenOptions::new().create(true).append(true).open` followed by appending one record -/
def fsAppend (fs : FS) (n : Text) (r : Nat × Nat) : FS :=
  match fsGet fs n with
  | none => fsSet fs n { recs := [r] }
  | some f => fsSet fs n { f with recs := f.recs ++ [r] }

/-- `open_file`: creates the file if missing; returns its size -/
def fsOpen (fs : FS) (n : Text) : FS × Nat :=
  match fsGet fs n with
  | none => (fsSet fs n {}, 0)
  | some f => (fs, fileSize f)

/-! ## the roller -/

structure RolledFile where
  stamp : Stamp
  seq : Nat
  name : Text
  compressed : Bool
  deriving DecidableEq, Repr

/-- `Ord for RolledFile`: `a` sorts strictly before `b` (newest first, then highest sequence first) -/
def RolledFile.before (a b : RolledFile) : Bool :=
  b.stamp.lt a.stamp || (a.stamp = b.stamp && b.seq < a.seq)

/-- stable insertion (what `Vec::sort` yields when the rest is already sorted) -/
def insertSorted (x : RolledFile) : List RolledFile → List RolledFile
  | [] => [x]
  | y :: ys => if x.before y then x :: y :: ys else y :: insertSorted x ys

def sortRolled (l : List RolledFile) : List RolledFile := l.foldl (fun acc x => insertSorted x acc) []

/-- one directory entry as `find_rolled_files` sees it -/
def parseRolledName (p : Policy) (name : Text) : Option RolledFile :=
  if !startsWith name p.pfx then none
  else
    let cs := gzSuffix p
    let isC := endsWith name cs
    let toParse := if isC then stripSuffix name cs else name
    match search toParse with
    | none => none
    | some (ts, sq) =>
      match parseStamp ts, parseU32 sq with
      | some st, some n => some { stamp := st, seq := n, name := name, compressed := isC }
      | _, _ => none

/-- `find_rolled_files` -/
def findRolled (p : Policy) (fs : FS) : List RolledFile :=
  sortRolled (fs.filterMap (fun e => parseRolledName p e.1))

/-- `compress_file`: create `src ++ suffix` (truncating), stream, remove `src`. With an empty suffix the
source is truncated by the `create` before it is read and then removed. -/
def compressFile (fs : FS) (src suffix : Text) : FS :=
  match fsGet fs src with
  | none => fs
  | some f =>
    if suffix = [] then fsRemove fs src
    else fsSet (fsRemove fs src) (src ++ suffix) { recs := f.recs, gz := true }

def removeAll (fs : FS) : List RolledFile → FS
  | [] => fs
  | rf :: rest => removeAll (fsRemove fs rf.name) rest

def compressAll (p : Policy) (suffix : Text) (fs : FS) : List RolledFile → FS
  | [] => fs
  | rf :: rest =>
    compressAll p suffix (if !rf.compressed && endsWith rf.name p.sfx then compressFile fs rf.name suffix else fs) rest

/-- `cleanup` (input sorted newest first) -/
def cleanup (p : Policy) (fs : FS) (sorted : List RolledFile) : FS :=
  let fs1 := match p.maxRetained with
    | some n => removeAll fs (sorted.drop n)
    | none => fs
  let kept := match p.maxRetained with
    | some n => sorted.take n
    | none => sorted
  match p.compression with
  | none => fs1
  | some c => compressAll p c.suffix fs1 (kept.drop c.keep)

structure RState where
  size : Nat
  pstart : Nat
  deriving DecidableEq, Repr

def maxSeq (p : Policy) (cur : Stamp) : List RolledFile → Nat
  | [] => 0
  | rf :: rest =>
    if fmtPeriod p.gran rf.stamp = fmtPeriod p.gran cur then max rf.seq (maxSeq p cur rest) else maxSeq p cur rest

/-- the sequence number the next roll will use -/
def nextSeq (p : Policy) (fs : FS) (pstart : Nat) : Nat :=
  maxSeq p (stampOfSecs pstart) (findRolled p fs) + 1

/-- `roll` -/
def roll (p : Policy) (fs : FS) (st : RState) (now : Nat) : FS × RState :=
  let rolled := findRolled p fs
  let cur := stampOfSecs st.pstart
  let next := maxSeq p cur rolled + 1
  let rpath := rolledName p cur next
  let fs1 := fsRename fs (baseName p) rpath
  let (fs2, sz) := fsOpen fs1 (baseName p)
  let all := sortRolled (rolled ++ [{ stamp := cur, seq := next, name := rpath, compressed := false }])
  (cleanup p fs2 all, { size := sz, pstart := periodStart p.gran now })

/-- `new_at_time` -/
def openRoller (p : Policy) (fs : FS) (now : Nat) : FS × RState :=
  let (fs1, sz) := fsOpen fs (baseName p)
  (fs1, { size := sz, pstart := periodStart p.gran now })

/-- first half of `write_internal`: roll if `now` lies in a later period than the current one -/
def writePhase1 (p : Policy) (fs : FS) (st : RState) (now : Nat) : FS × RState :=
  if periodStart p.gran now > st.pstart then roll p fs st now else (fs, st)

/-- second half: append the record (written in one piece), add its length, roll if the size limit is reached;
an empty buffer (`bytes_written == 0`) does nothing -/
def writePhase2 (p : Policy) (s : FS × RState) (r : Nat × Nat) (now : Nat) : FS × RState :=
  if r.2 = 0 then s
  else
    match p.maxSize with
    | some m =>
      if s.2.size + r.2 ≥ m then roll p (fsAppend s.1 (baseName p) r) { s.2 with size := s.2.size + r.2 } now
      else (fsAppend s.1 (baseName p) r, { s.2 with size := s.2.size + r.2 })
    | none => (fsAppend s.1 (baseName p) r, { s.2 with size := s.2.size + r.2 })

/-- `write_internal` -/
def write (p : Policy) (fs : FS) (st : RState) (r : Nat × Nat) (now : Nat) : FS × RState :=
  writePhase2 p (writePhase1 p fs st now) r now

end Fv.Log.Roller
