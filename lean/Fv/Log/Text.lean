/-
Text representation shared by every C20 model: `Text = List Char`, i.e. a sequence of Unicode
scalar values — exactly what a Rust `String` is. Rust's `String: Ord` (UTF-8 byte order) coincides
with the lexicographic order on scalar values (`ltText`), `str::len()` is `utf8Len`.
-/
namespace Fv.Log

abbrev Text := List Char

/-- `regex-syntax 0.8.11` `unicode_tables/perl_decimal.rs` `DECIMAL_NUMBER` — what `\\d` matches in the
two regexes of the logging crate (the `regex` crate is built with its default `unicode` feature). -/
def ndRanges : List (Nat × Nat) :=
  [
   (48, 57), (1632, 1641), (1776, 1785), (1984, 1993), (2406, 2415), (2534, 2543), (2662, 2671), (2790,
   2799), (2918, 2927), (3046, 3055), (3174, 3183), (3302, 3311), (3430, 3439), (3558, 3567), (3664,
   3673), (3792, 3801), (3872, 3881), (4160, 4169), (4240, 4249), (6112, 6121), (6160, 6169), (6470,
   6479), (6608, 6617), (6784, 6793), (6800, 6809), (6992, 7001), (7088, 7097), (7232, 7241), (7248,
   7257), (42528, 42537), (43216, 43225), (43264, 43273), (43472, 43481), (43504, 43513), (43600,
   43609), (44016, 44025), (65296, 65305), (66720, 66729), (68912, 68921), (68928, 68937), (69734,
   69743), (69872, 69881), (69942, 69951), (70096, 70105), (70384, 70393), (70736, 70745), (70864,
   70873), (71248, 71257), (71360, 71369), (71376, 71395), (71472, 71481), (71904, 71913), (72016,
   72025), (72688, 72697), (72784, 72793), (73040, 73049), (73120, 73129), (73552, 73561), (90416,
   90425), (92768, 92777), (92864, 92873), (93008, 93017), (93552, 93561), (118000, 118009), (120782,
   120831), (123200, 123209), (123632, 123641), (124144, 124153), (124401, 124410), (125264, 125273),
   (130032, 130041)
  ]

/-- `\\d` of the `regex` crate: Unicode general category Nd. -/
def isNd (c : Char) : Bool := ndRanges.any (fun r => r.1 ≤ c.toNat && c.toNat ≤ r.2)

/-- ASCII `0..9` (what `str::parse::<i32/u32>` and chrono's numeric items accept). -/
def isDigit (c : Char) : Bool := 48 ≤ c.toNat && c.toNat ≤ 57

/-- `[a-zA-Z]`. -/
def isLetter (c : Char) : Bool := (65 ≤ c.toNat && c.toNat ≤ 90) || (97 ≤ c.toNat && c.toNat ≤ 122)

/-- Decimal rendering of a `u32`/`u64`/`usize` (`Display`). -/
def dec (n : Nat) : Text := Nat.toDigits 10 n

/-- Decimal rendering of an `i64` (`Display`, also what `itoa`/serde_json writes). -/
def decInt : Int → Text
  | .ofNat n => dec n
  | .negSucc n => '-' :: dec (n + 1)

/-- value of a run of ASCII digits -/
def digitsVal (s : Text) : Nat := Nat.ofDigitChars 10 s 0

/-- Strict lexicographic order on scalar values = Rust's `str`/`String` `Ord`. -/
def ltText : Text → Text → Bool
  | [], [] => false
  | [], _ :: _ => true
  | _ :: _, [] => false
  | a :: as, b :: bs => if a.toNat < b.toNat then true else if b.toNat < a.toNat then false else ltText as bs

def startsWith (s p : Text) : Bool := p.isPrefixOf s
def endsWith (s p : Text) : Bool := p.isSuffixOf s
/-- `str::strip_suffix(p).unwrap_or(s)` -/
def stripSuffix (s p : Text) : Text := if endsWith s p then s.take (s.length - p.length) else s

/-- `str::len()`: length in UTF-8 bytes. -/
def utf8Len : Text → Nat
  | [] => 0
  | c :: cs => c.utf8Size + utf8Len cs

def spaces (n : Nat) : Text := List.replicate n ' '

end Fv.Log
