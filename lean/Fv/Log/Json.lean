import Fv.Log.Event
/-
Model of `logging/src/encoders/json.rs` (`JsonLinesFormatter::format_event`) together with the part
of `serde_json 1.0.150` it relies on (`ser.rs`: `format_escaped_str`, `ESCAPE`, compact formatter,
`BTreeMap` key order) and a decoder for the compact output (used to state the round trip).

serde_json string escaping: `"` → `\"`, `\` → `\\`, 0x08/09/0A/0C/0D → `\b \t \n \f \r`, every other
byte < 0x20 → `\u00XX` (lower-case hex), everything else (including 0x7F, U+2028, non-BMP) verbatim.
-/
namespace Fv.Log.Json
open Fv.Log

/-! ## strings -/

def escapeChar (c : Char) : Text :=
  if c = '"' then ['\\', '"']
  else if c = '\\' then ['\\', '\\']
  else if c.toNat < 0x20 then
    if c.toNat = 8 then ['\\', 'b']
    else if c.toNat = 9 then ['\\', 't']
    else if c.toNat = 10 then ['\\', 'n']
    else if c.toNat = 12 then ['\\', 'f']
    else if c.toNat = 13 then ['\\', 'r']
    else ['\\', 'u', '0', '0', Nat.digitChar (c.toNat / 16), Nat.digitChar (c.toNat % 16)]
  else [c]

def escape : Text → Text
  | [] => []
  | c :: cs => escapeChar c ++ escape cs

/-- `serde_json::to_string(&str)` -/
def encodeString (s : Text) : Text := '"' :: (escape s ++ ['"'])

def hexVal (c : Char) : Option Nat :=
  if 48 ≤ c.toNat ∧ c.toNat ≤ 57 then some (c.toNat - 48)
  else if 97 ≤ c.toNat ∧ c.toNat ≤ 102 then some (c.toNat - 87)
  else if 65 ≤ c.toNat ∧ c.toNat ≤ 70 then some (c.toNat - 55)
  else none

/-- the character a two-character escape `\e` stands for -/
def unescapeSimple (e : Char) : Option Char :=
  if e = '"' then some '"'
  else if e = '\\' then some '\\'
  else if e = '/' then some '/'
  else if e = 'b' then some (Char.ofNat 8)
  else if e = 't' then some (Char.ofNat 9)
  else if e = 'n' then some (Char.ofNat 10)
  else if e = 'f' then some (Char.ofNat 12)
  else if e = 'r' then some (Char.ofNat 13)
  else none

/-- Decoder: reads the body of a JSON string (after the opening quote) up to and including the
closing quote; returns the decoded text and the remaining input. Raw characters below 0x20 are
rejected (RFC 8259); `\uXXXX` is decoded for non-surrogate code units (the encoder never emits
surrogate escapes). -/
def parseStrBody : Text → Option (Text × Text)
  | [] => none
  | c :: rest =>
    if c = '"' then some ([], rest)
    else if c = '\\' then
      match rest with
      | [] => none
      | e :: rest1 =>
        if e = 'u' then
          match rest1 with
          | h1 :: h2 :: h3 :: h4 :: rest2 =>
            match hexVal h1, hexVal h2, hexVal h3, hexVal h4 with
            | some a, some b, some c', some d =>
              let n := ((a * 16 + b) * 16 + c') * 16 + d
              if 0xD800 ≤ n ∧ n ≤ 0xDFFF then none
              else
                match parseStrBody rest2 with
                | some (s, r) => some (Char.ofNat n :: s, r)
                | none => none
            | _, _, _, _ => none
          | _ => none
        else
          match unescapeSimple e with
          | some ch =>
            match parseStrBody rest1 with
            | some (s, r) => some (ch :: s, r)
            | none => none
          | none => none
    else if c.toNat < 0x20 then none
    else
      match parseStrBody rest with
      | some (s, r) => some (c :: s, r)
      | none => none

/-- Decoder for one complete JSON string token. -/
def decodeString (t : Text) : Option Text :=
  match t with
  | [] => none
  | c :: rest =>
    if c = '"' then
      match parseStrBody rest with
      | some (s, []) => some s
      | _ => none
    else none

/-! ## values -/

/-- `serde_json::Value` restricted to what `format_event` builds: scalars, and one level of object
nesting (`"fields"`). `num` is a finite float in serde_json's own rendering (ryu; trusted). -/
inductive Scalar
  | str (s : Text)
  | int (i : Int)
  | bool (b : Bool)
  | null
  | num (repr : Text)
  deriving DecidableEq, Repr

inductive Value
  | scalar (s : Scalar)
  | obj (kvs : List (Text × Scalar))
  deriving DecidableEq, Repr

def serScalar : Scalar → Text
  | .str s => encodeString s
  | .int i => decInt i
  | .bool b => boolText b
  | .null => "null".toList
  | .num r => r

/-- `"k":v,"k2":v2` (compact formatter: no whitespace) -/
def serMembersWith {α} (sv : α → Text) : List (Text × α) → Text
  | [] => []
  | (k, v) :: rest =>
    encodeString k ++ (':' :: sv v) ++
      (match rest with
       | [] => []
       | _ :: _ => ',' :: serMembersWith sv rest)

def serObjWith {α} (sv : α → Text) (kvs : List (Text × α)) : Text :=
  '{' :: (serMembersWith sv kvs ++ ['}'])

def serValue : Value → Text
  | .scalar s => serScalar s
  | .obj kvs => serObjWith serScalar kvs

/-- `serde_json::to_string(&BTreeMap<String, Value>)` -/
def serObj (kvs : List (Text × Value)) : Text := serObjWith serValue kvs

/-! ## decoder for values -/

def numChar (c : Char) : Bool :=
  isDigit c || c = '-' || c = '+' || c = '.' || c = 'e' || c = 'E'

/-- `-?[0-9]+` → the integer; anything else → `none` -/
def parseIntTok (run : Text) : Option Int :=
  match run with
  | [] => none
  | c :: rest =>
    if c = '-' then
      if rest ≠ [] ∧ rest.all isDigit then some (- (digitsVal rest : Int)) else none
    else if (c :: rest).all isDigit then some (digitsVal (c :: rest) : Int) else none

def parseLit (lit : Text) (v : Scalar) (t : Text) : Option (Scalar × Text) :=
  if lit.isPrefixOf t then some (v, t.drop lit.length) else none

def parseScalar (t : Text) : Option (Scalar × Text) :=
  match t with
  | [] => none
  | c :: rest =>
    if c = '"' then
      match parseStrBody rest with
      | some (s, r) => some (.str s, r)
      | none => none
    else if c = 't' then parseLit "true".toList (.bool true) t
    else if c = 'f' then parseLit "false".toList (.bool false) t
    else if c = 'n' then parseLit "null".toList .null t
    else if numChar c then
      let run := t.takeWhile numChar
      let r := t.dropWhile numChar
      match parseIntTok run with
      | some i => some (.int i, r)
      | none => some (.num run, r)
    else none

/-- members of an object up to and including the closing `}`; `fuel` ≥ number of members. -/
def parseMembersWith {α} (pv : Text → Option (α × Text)) : Nat → Text → Option (List (Text × α) × Text)
  | 0, _ => none
  | fuel + 1, t =>
    match t with
    | [] => none
    | q :: t1 =>
      if q = '"' then
        match parseStrBody t1 with
        | some (k, t2) =>
          match t2 with
          | [] => none
          | colon :: t3 =>
            if colon = ':' then
              match pv t3 with
              | some (v, t4) =>
                match t4 with
                | [] => none
                | sep :: t5 =>
                  if sep = ',' then
                    match parseMembersWith pv fuel t5 with
                    | some (kvs, r) => some ((k, v) :: kvs, r)
                    | none => none
                  else if sep = '}' then some ([(k, v)], t5)
                  else none
              | none => none
            else none
        | none => none
      else none

/-- object body after the opening `{` -/
def parseObjWith {α} (pv : Text → Option (α × Text)) (t : Text) : Option (List (Text × α) × Text) :=
  match t with
  | [] => none
  | c :: rest => if c = '}' then some ([], rest) else parseMembersWith pv t.length t

def parseValue (t : Text) : Option (Value × Text) :=
  match t with
  | [] => none
  | c :: rest =>
    if c = '{' then
      match parseObjWith parseScalar rest with
      | some (kvs, r) => some (.obj kvs, r)
      | none => none
    else
      match parseScalar t with
      | some (s, r) => some (.scalar s, r)
      | none => none

/-- Decoder for one JSON-lines record: `{...}\n`. -/
def parseLine (t : Text) : Option (List (Text × Value)) :=
  match t with
  | [] => none
  | c :: rest =>
    if c = '{' then
      match parseObjWith parseValue rest with
      | some (kvs, ['\n']) => some kvs
      | _ => none
    else none

/-! ## `BTreeMap<String, _>` as a key-sorted association list -/

def containsKey {α} (k : Text) : List (Text × α) → Bool
  | [] => false
  | (k', _) :: rest => k = k' || containsKey k rest

/-- `BTreeMap::insert` (replaces the value of an existing key) -/
def insertKV {α} (k : Text) (v : α) : List (Text × α) → List (Text × α)
  | [] => [(k, v)]
  | (k', v') :: rest =>
    if ltText k k' then (k, v) :: (k', v') :: rest
    else if k = k' then (k, v) :: rest
    else (k', v') :: insertKV k v rest

/-! ## `format_event` -/

/-- `log_value_to_json_value`: a non-finite float becomes `null` (F13a). -/
def toJson : LogValue → Scalar
  | .str s => .str s
  | .int i => .int i
  | .float (some r) _ => .num r
  | .float none _ => .null
  | .bool b => .bool b
  | .debug s => .str s

def kTimestamp : Text := "timestamp".toList
def kLevel : Text := "level".toList
def kTarget : Text := "target".toList
def kMessage : Text := "message".toList
def kName : Text := "name".toList
def kSpanId : Text := "span_id".toList
def kParentId : Text := "parent_id".toList
def kThreadId : Text := "thread_id".toList
def kThreadName : Text := "thread_name".toList
def kFields : Text := "fields".toList

def insertOpt (k : Text) (v : Option Text) (m : List (Text × Value)) : List (Text × Value) :=
  match v with
  | some s => insertKV k (.scalar (.str s)) m
  | none => m

/-- the core keys, inserted in the order of the source -/
def coreMap (ev : Event) : List (Text × Value) :=
  let m := insertKV kTimestamp (.scalar (.str ev.timestamp)) []
  let m := insertKV kLevel (.scalar (.str ev.level.text)) m
  let m := insertKV kTarget (.scalar (.str ev.target)) m
  let m := insertOpt kMessage ev.message m
  let m := insertKV kName (.scalar (.str ev.name)) m
  let m := insertOpt kSpanId ev.spanId m
  let m := insertOpt kParentId ev.parentId m
  let m := insertOpt kThreadId ev.threadId m
  insertOpt kThreadName ev.threadName m

/-- flattening: a custom field whose key is already in the map is skipped (F13b) -/
def flattenInto (m : List (Text × Value)) : List (Text × LogValue) → List (Text × Value)
  | [] => m
  | (k, v) :: rest =>
    flattenInto (if containsKey k m then m else insertKV k (.scalar (toJson v)) m) rest

def nestedFields : List (Text × LogValue) → List (Text × Scalar) → List (Text × Scalar)
  | [], acc => acc
  | (k, v) :: rest, acc => nestedFields rest (insertKV k (toJson v) acc)

/-- the `BTreeMap` that `format_event` serialises -/
def record (flatten : Bool) (ev : Event) : List (Text × Value) :=
  let m := coreMap ev
  if ev.fields.isEmpty then m
  else if flatten then flattenInto m ev.fields
  else insertKV kFields (.obj (nestedFields ev.fields [])) m

/-- `JsonLinesFormatter::format_event` (never fails: all keys are strings) -/
def formatEvent (flatten : Bool) (ev : Event) : Text :=
  serObj (record flatten ev) ++ ['\n']

/-! ## reading an event back out of a decoded record -/

def coreKeys : List Text :=
  [kTimestamp, kLevel, kTarget, kMessage, kName, kSpanId, kParentId, kThreadId, kThreadName]

structure View where
  level : Text
  target : Text
  message : Option Text
  fields : List (Text × Scalar)
  deriving DecidableEq, Repr

def strOf : Option Value → Option Text
  | some (.scalar (.str s)) => some s
  | _ => none

def flatFields : List (Text × Value) → List (Text × Scalar)
  | [] => []
  | (k, .scalar s) :: rest => if coreKeys.contains k then flatFields rest else (k, s) :: flatFields rest
  | (_, .obj _) :: rest => flatFields rest

/-- what a consumer reads back: level, target, message and the custom fields -/
def viewOf (flatten : Bool) (rec : List (Text × Value)) : Option View :=
  match strOf (lookup kLevel rec), strOf (lookup kTarget rec) with
  | some l, some t =>
    let fields :=
      if flatten then flatFields rec
      else match lookup kFields rec with
        | some (.obj kvs) => kvs
        | _ => []
    some { level := l, target := t, message := strOf (lookup kMessage rec), fields := fields }
  | _, _ => none

def decodeEvent (flatten : Bool) (line : Text) : Option View :=
  match parseLine line with
  | some rec => viewOf flatten rec
  | none => none

end Fv.Log.Json
