import Fv.Log.Event
/-
Model of `logging/src/encoders/pattern.rs` (`PatternFormatter::{new, parse, format_event}`).

Grammar = leftmost-first matches of the regex
  `(?P<specifier>%(?P<padding>-?\d+)?(?P<converter>[a-zA-Z])(?:\{(?P<options>[^}]+)\})?)|(?P<escaped>%%)`
(`\d` is Unicode `Nd`, see `Fv.Log.isNd`; `[^}]` also matches newlines). The padding text is then
parsed with `str::parse::<i32>()` (ASCII digits only, range checked; failure ⇒ no padding).

`apply_padding` computes `width = min(padding.unsigned_abs(), u16::MAX)` (`unsigned_abs` cannot overflow,
also not on `i32::MIN`) and, when the content is shorter (in bytes) than `width`, pads with
`{:>width$}` / `{:<width$}`. `core::fmt` widths are `u16` since Rust 1.87: a runtime width above 65 535 panics
("Formatting argument out of range"); that precondition of the formatting primitive is kept explicit in
`fmtPad` (`none` = panic) and shown to be discharged by the clamp (`Fv.Props.C20.pattern_total`).
-/
namespace Fv.Log.Pattern
open Fv.Log

inductive Segment
  | lit (s : Text)
  | spec (conv : Char) (padding : Option Int) (options : Option Text)
  deriving DecidableEq, Repr

/-- `str::parse::<i32>()` on a text matching `-?\d+` -/
def parsePadding (p : Text) : Option Int :=
  match p with
  | [] => none
  | c :: rest =>
    if c = '-' then
      if rest ≠ [] ∧ rest.all isDigit ∧ digitsVal rest ≤ 2147483648 then some (- (digitsVal rest : Int)) else none
    else if (c :: rest).all isDigit ∧ digitsVal (c :: rest) ≤ 2147483647 then some (digitsVal (c :: rest) : Int)
    else none

/-- `(-?\d+)` at the head of `t` (greedy): the matched text and the rest. -/
def takePadding (t : Text) : Option (Text × Text) :=
  match t with
  | [] => none
  | c :: rest =>
    if c = '-' then
      let ds := rest.takeWhile isNd
      if ds = [] then none else some (c :: ds, rest.dropWhile isNd)
    else
      let ds := t.takeWhile isNd
      if ds = [] then none else some (ds, t.dropWhile isNd)

/-- `(?:\{([^}]+)\})?` at the head of `t` -/
def takeOptions (t : Text) : Option Text × Text :=
  match t with
  | [] => (none, t)
  | c :: body =>
    if c = '{' then
      let opts := body.takeWhile (· ≠ '}')
      match body.dropWhile (· ≠ '}') with
      | [] => (none, t)
      | _ :: after => if opts = [] then (none, t) else (some opts, after)
    else (none, t)

/-- the `specifier` alternative, `t` = text after the `%` -/
def matchSpec (t : Text) : Option (Segment × Text) :=
  match takePadding t with
  | some (p, r) =>
    match r with
    | [] => none
    | c :: r' =>
      if isLetter c then
        let (o, r'') := takeOptions r'
        some (.spec c (parsePadding p) o, r'')
      else none
  | none =>
    match t with
    | [] => none
    | c :: r' =>
      if isLetter c then
        let (o, r'') := takeOptions r'
        some (.spec c none o, r'')
      else none

def flushLit (acc : Text) : List Segment := if acc = [] then [] else [.lit acc.reverse]

/-- `PatternFormatter::parse`; `acc` is the pending literal (reversed); `fuel ≥ t.length`. -/
def parseGo : Nat → Text → Text → List Segment
  | 0, _, acc => flushLit acc
  | _ + 1, [], acc => flushLit acc
  | fuel + 1, c :: rest, acc =>
    if c = '%' then
      match matchSpec rest with
      | some (seg, rest') => flushLit acc ++ seg :: parseGo fuel rest' []
      | none =>
        match rest with
        | [] => parseGo fuel rest (c :: acc)
        | c2 :: rest' =>
          if c2 = '%' then flushLit acc ++ .lit ['%'] :: parseGo fuel rest' []
          else parseGo fuel rest (c :: acc)
    else parseGo fuel rest (c :: acc)

def parse (pattern : Text) : List Segment := parseGo pattern.length pattern []

/-! ## rendering -/

def insertKey (k : Text) : List Text → List Text
  | [] => [k]
  | k' :: rest => if ltText k k' then k :: k' :: rest else k' :: insertKey k rest

def sortKeys (ks : List Text) : List Text := ks.foldl (fun acc k => insertKey k acc) []

def kMessage : Text := "message".toList

def joinFields (ev : Event) : List Text → Text
  | [] => []
  | k :: rest =>
    (k ++ '=' :: (match lookup k ev.fields with | some v => v.display | none => [])) ++
      (match rest with
       | [] => []
       | _ :: _ => ',' :: ' ' :: joinFields ev rest)

/-- what a converter writes before padding -/
def specContent (conv : Char) (opts : Option Text) (ev : Event) : Text :=
  if conv = 'd' then
    match opts with
    | some f => (lookup f ev.dateFmt).getD []
    | none => ev.timestamp
  else if conv = 'p' ∨ conv = 'l' then ev.level.text
  else if conv = 't' then ev.target
  else if conv = 'm' then ev.message.getD []
  else if conv = 'T' then ev.threadName.getD []
  else if conv = 'X' then
    match opts with
    | some k => (match lookup k ev.fields with | some v => v.display | none => [])
    | none =>
      if ev.fields.isEmpty then []
      else '{' :: (joinFields ev (sortKeys ((ev.fields.map (·.1)).filter (· ≠ kMessage))) ++ ['}'])
  else []

/-- `write!(buf, "{:>width$}", content)` (`right = true`) / `{:<width$}`: pads to `width` *characters*;
`none` = the panic of `core::fmt` on a width that does not fit `u16` -/
def fmtPad (content : Text) (width : Nat) (right : Bool) : Option Text :=
  if 65535 < width then none
  else if right then some (spaces (width - content.length) ++ content)
  else some (content ++ spaces (width - content.length))

/-- `(padding.unsigned_abs() as usize).min(u16::MAX as usize)` -/
def padWidth (p : Int) : Nat := min p.natAbs 65535

/-- `apply_padding`; `none` = panic -/
def applyPadding (content : Text) (p : Int) : Option Text :=
  if padWidth p ≤ utf8Len content then some content
  else fmtPad content (padWidth p) (decide (0 < p))

def renderSeg (ev : Event) : Segment → Option Text
  | .lit s => some s
  | .spec c p o =>
    if c = 'n' then some ['\n']
    else
      match p with
      | none => some (specContent c o ev)
      | some p => applyPadding (specContent c o ev) p

def renderSegs (ev : Event) : List Segment → Option Text
  | [] => some []
  | s :: rest =>
    match renderSeg ev s, renderSegs ev rest with
    | some a, some b => some (a ++ b)
    | _, _ => none

def ensureNewline (out : Text) : Text := if out.getLast? = some '\n' then out else out ++ ['\n']

/-- `PatternFormatter::new(pattern).format_event(ev)`; `none` = panic -/
def formatEvent (pattern : Text) (ev : Event) : Option Text :=
  (renderSegs ev (parse pattern)).map ensureNewline

end Fv.Log.Pattern
