import Fv.Log.Text
/-
Model of `logging/src/model.rs`: `LogEvent`, `LogValue`, `tracing::Level`.

What chrono / float formatting produce is *input* to the model (trusted crates, DESIGN §3):
* `timestamp` is the RFC 3339 (millisecond, `Z`) rendering of `event.timestamp`
  (`util::write_timestamp`); `dateFmt` lists, for each `%d{..}` option string used, what
  `util::write_timestamp_with_format` wrote for it.
* a `LogValue::Float` carries its two renderings: `json` = what serde_json prints for a finite
  value (`none` when the value is NaN/±inf — `Number::from_f64` fails) and `display` = Rust's
  `Display for f64`.
`fields` is a `HashMap`: distinct keys, arbitrary iteration order (the list order here).
-/
namespace Fv.Log

inductive Level | trace | debug | info | warn | error
  deriving DecidableEq, Repr

/-- `Display for tracing::Level` -/
def Level.text : Level → Text
  | .trace => "TRACE".toList
  | .debug => "DEBUG".toList
  | .info => "INFO".toList
  | .warn => "WARN".toList
  | .error => "ERROR".toList

inductive LogValue
  | str (s : Text)
  | int (i : Int)
  | float (json : Option Text) (display : Text)
  | bool (b : Bool)
  | debug (s : Text)
  deriving DecidableEq, Repr

def boolText (b : Bool) : Text := if b then "true".toList else "false".toList

/-- `Display for LogValue` -/
def LogValue.display : LogValue → Text
  | .str s => s
  | .int i => decInt i
  | .float _ d => d
  | .bool b => boolText b
  | .debug s => s

structure Event where
  timestamp : Text
  dateFmt : List (Text × Text) := []
  level : Level
  target : Text
  name : Text
  message : Option Text
  fields : List (Text × LogValue) := []
  spanId : Option Text := none
  parentId : Option Text := none
  threadId : Option Text := none
  threadName : Option Text := none
  deriving Repr

def lookup {α} (k : Text) : List (Text × α) → Option α
  | [] => none
  | (k', v) :: rest => if k = k' then some v else lookup k rest

end Fv.Log
