/-
C19 — delivery pipeline of one appender (import-free, executable).

What is modelled (init.rs `init_from_file` / `run_byte_appender_writer`, processor.rs
`send_bytes` / `send_event` / `close_channels`, lib.rs `InitResult::shutdown_impl`):

* one bounded `fibre::mpsc` channel per appender (`channel_capacity` / `buffer_size`), a FIFO.
  A send is two atomic steps, as in the channel: `sendBegin` = the sender's `closed` check plus the
  slot claim, `sendEnd` = the slot becomes visible to the consumer and `send` returns `Ok`
  (the event is *accepted*). Between the two the message is *in flight*. A thread has at most one
  send in flight (it is sequential).
* overflow `Block`: `sendBegin` is not enabled while the channel is full (the caller waits);
  `DropNewest`: a full channel drops the message (`try_send` → `Full`, counted by `DropCounter`).
  A send on a closed channel returns `Err` and the event is discarded silently by the processor.
* the consumer is either the appender's writer thread (console/file/rolling_file) or the
  application holding a custom stream receiver:
    writer:  loop { if flag {break}; recv_timeout → Ok: write | Disconnected: break }
             then the final drain
               loop { try_recv → Ok: write | Disconnected: break
                                | Empty: if now ≥ start + FINAL_DRAIN_GRACE {break} else retry }
             and exit;
    stream:  the user calls `try_recv`/`recv` until `Disconnected`.
  `consume` takes the head of the visible queue; `seeFlag` is the writer reading `shutdown = true`
  at the top of its loop. The channel answers `Disconnected` only when every sender handle is
  closed, nothing is visible AND no send is in flight (`deq_once` answers `InFlight`, reported as
  `Empty` / keep waiting, while a claimed slot is unwritten): `seeDisconnected` is such a receive in
  the consumer's main loop, `drainDisconnected` is the writer's final drain ending on it.
  An `Empty` answer before the deadline is a retry and changes nothing (no step).
  `graceExpired` is the ENVIRONMENT step "the writer's final `try_recv` answered `Empty` and
  `FINAL_DRAIN_GRACE` (200 ms since the final drain began) is over" → the thread exits. Real time
  is not modelled, so the step is enabled whenever that `try_recv` can answer `Empty` (nothing
  visible, or a send in flight whose unwritten slot hides what is queued behind it); the ghost
  `graceEarly` records that it fired before the senders were closed and the in-flight sends had
  landed. The no-loss theorem assumes `graceEarly = false`; `C19_residual_graceExpired_early_loses`
  shows the assumption is needed.
* shutdown: `setFlag` (store `shutdown_signal`), then `close` (`close_channels`).

Ghost fields (`accepted`, `dropped`, `refused`, `claimed`, `graceEarly`) record what happened to each message.
The channel internals (tickets, credit window, parking) are the subject of C01–C05, not of this
model; here the channel is its sequential specification plus the visible/in-flight distinction.
-/
namespace Fv.Log.Pipeline

structure Msg where
  thread : Nat
  seq : Nat
deriving DecidableEq, Repr

inductive Overflow | block | dropNewest
deriving DecidableEq, Repr

inductive Consumer | writer | stream
deriving DecidableEq, Repr

inductive Phase | running | draining | exited
deriving DecidableEq, Repr

structure State where
  cap : Nat
  policy : Overflow
  consumer : Consumer
  flag : Bool := false
  closed : Bool := false
  inflight : List Msg := []
  buf : List Msg := []
  out : List Msg := []
  phase : Phase := .running
  accepted : List Msg := []
  dropped : List Msg := []
  refused : List Msg := []
  claimed : List Msg := []
  graceEarly : Bool := false
deriving Repr

def init (cap : Nat) (policy : Overflow) (consumer : Consumer) : State :=
  { cap := cap, policy := policy, consumer := consumer }

inductive Step
  | sendBegin (m : Msg)
  | sendEnd (m : Msg)
  | consume
  | seeFlag
  | seeDisconnected
  | drainDisconnected
  | graceExpired
  | setFlag
  | close
deriving DecidableEq, Repr

def threadBusy (s : State) (t : Nat) : Bool := s.inflight.any (fun m => m.thread == t)

def full (s : State) : Bool := decide (s.cap ≤ s.buf.length + s.inflight.length)

/-- emitter: `closed` check, then slot claim / overflow policy. -/
def sendBegin (s : State) (m : Msg) : Option State :=
  if threadBusy s m.thread then none
  else if s.closed then some { s with refused := s.refused ++ [m] }
  else if full s then
    match s.policy with
    | .block => none
    | .dropNewest => some { s with dropped := s.dropped ++ [m] }
  else some { s with inflight := s.inflight ++ [m], claimed := s.claimed ++ [m] }

/-- emitter: the claimed slot is published; `send` returns `Ok`. -/
def sendEnd (s : State) (m : Msg) : Option State :=
  if m ∈ s.inflight then
    some { s with inflight := s.inflight.filter (fun x => x != m), buf := s.buf ++ [m], accepted := s.accepted ++ [m] }
  else none

/-- consumer: a receive that returns the head of the visible queue. -/
def consume (s : State) : Option State :=
  match s.phase, s.buf with
  | .exited, _ => none
  | _, [] => none
  | _, m :: rest => some { s with buf := rest, out := s.out ++ [m] }

/-- writer: `if shutdown.load() { break }`. -/
def seeFlag (s : State) : Option State :=
  if s.consumer = .writer ∧ s.phase = .running ∧ s.flag then some { s with phase := .draining } else none

/-- the channel's `Disconnected` condition: every sender handle closed, nothing visible, and no
claimed-but-unwritten slot (`Deq::Empty`, not `Deq::InFlight`, with `sender_count == 0`). -/
def Disconnected (s : State) : Prop := s.closed = true ∧ s.buf = [] ∧ s.inflight = []

instance (s : State) : Decidable (Disconnected s) := by unfold Disconnected; infer_instance

/-- consumer, main loop: the receive answers `Disconnected`. -/
def seeDisconnected (s : State) : Option State :=
  if s.phase = .running ∧ Disconnected s then
    some { s with phase := (match s.consumer with | .writer => .draining | .stream => .exited) }
  else none

/-- writer, final drain: `try_recv` answers `Disconnected` → thread exits. -/
def drainDisconnected (s : State) : Option State :=
  if s.consumer = .writer ∧ s.phase = .draining ∧ Disconnected s then some { s with phase := .exited } else none

/-- environment + writer, final drain: `try_recv` answers `Empty` — nothing visible, or a send in
flight (in the channel a claimed-but-unwritten slot at the head hides completed sends queued behind
it, the shape of the observed F12b history) — and the grace deadline is over → thread exits.
`graceEarly` := the channel was not yet `Disconnected`. -/
def graceExpired (s : State) : Option State :=
  if s.consumer = .writer ∧ s.phase = .draining ∧ (s.buf = [] ∨ s.inflight ≠ []) then
    some { s with phase := .exited, graceEarly := s.graceEarly || !decide (Disconnected s) }
  else none

def step (s : State) : Step → Option State
  | .sendBegin m => sendBegin s m
  | .sendEnd m => sendEnd s m
  | .consume => consume s
  | .seeFlag => seeFlag s
  | .seeDisconnected => seeDisconnected s
  | .drainDisconnected => drainDisconnected s
  | .graceExpired => graceExpired s
  | .setFlag => some { s with flag := true }
  | .close => some { s with closed := true }

def run (s : State) : List Step → Option State
  | [] => some s
  | st :: rest => (step s st).bind (fun s' => run s' rest)

/-- How the application ends the life of the guard (`InitResult`, lib.rs): an explicit
`shutdown(timeout)`, or any drop of the value — on the init thread or another one, at the end of a
scope, or while the owning thread is unwinding from a panic. -/
inductive GuardEnd
  | shutdownCall (otherThread : Bool)
  | drop (otherThread : Bool) (unwinding : Bool)
deriving DecidableEq, Repr

/-- lib.rs: `shutdown` calls `shutdown_impl`; `impl Drop for InitResult` calls `shutdown_impl`
unconditionally (it does not look at `std::thread::panicking()` nor at the current thread).
`shutdown_impl` = store the flag, then `close_channels`, then join the writers with a deadline
(the join deadline is not modelled: a writer that is still draining when it passes is simply not
waited for any longer — it keeps running and writing until the process ends). -/
def shutdownSteps : GuardEnd → List Step
  | .shutdownCall _ => [.setFlag, .close]
  | .drop _ _ => [.setFlag, .close]

/-- projection of a message list on one emitting thread. -/
def ofThread (t : Nat) (ms : List Msg) : List Msg := ms.filter (fun m => m.thread == t)

end Fv.Log.Pipeline
