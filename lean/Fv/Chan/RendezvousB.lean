/-
B-model (critical-section granularity, all interleavings) of the queued rendezvous core
  /repo/channels/src/internal/rendezvous.rs   (RendezvousShared: try_send / try_recv / send_blocking /
      recv_blocking / recv_timeout / poll_send / poll_recv / cancel_sender / cancel_receiver /
      drop_sender / drop_receiver, fulfill_receiver / fulfill_sender, park_until_terminal)
as used by spsc / mpsc / mpmc rendezvous handles and their futures
  (/repo/channels/src/{spsc,mpsc}/rendezvous.rs, /repo/channels/src/mpmc_v2/rendezvous.rs).

One step = one locked section of the core mutex (the hand-off through the waiter record happens
inside it), OR one out-of-lock visible action: the wake issued after the guard is dropped
(`wake.wake()`), a state-byte load, `park`, the cancel CAS `WAITING→CANCELLED` of
`cancel_receiver` / `cancel_sender` (which the code performs BEFORE taking the lock), a poll
boundary, a future drop.

Waiter records are fresh ids `r`; `st r` is the state byte, `slot r` the sender's payload slot
(`src`) resp. the receiver's destination (`dest`), `owner r` whom the wake handle reaches.
`fulfill_*` never looks at the record's state (it stores DONE over whatever is there) — the model
does the same; that is finding F1.

The receiver store is a FIFO list; the MPSC/SPSC single-slot `Option` store coincides with it as long
as at most one receiver is parked at a time (single consumer).

Ghost: `offered handed recvd returned dropped` token histories (`handed` = tokens moved from a
sender's slot into a receiver's hands or destination, i.e. sends that are / will be reported Ok),
`destOf v` = the receiver record a token was written into, `wakeBy r` = who owes the wake of `r`.
-/
namespace Fv.Chan.RendezvousB

/-- WAITING=0, DONE=1, CANCELLED=2, DISCONNECTED=3 -/
inductive RS where
  | waiting | done | cancelled | disconnected
deriving Repr, DecidableEq

inductive Res where
  | sendOk (v : Nat)
  | sendFull (v : Nat)          -- try_send: no receiver parked, token handed back
  | sendClosed (v : Nat)        -- try_send: Closed(v), token handed back
  | sendClosedDrop (v : Nat)    -- send / SendFuture: Err(Closed), token dropped by the callee
  | recvOk (v : Nat)
  | recvEmpty
  | recvDisc
  | recvTimeout
  | unit
  | futDropped
  | panicked                    -- `expect("DONE implies the sender wrote the item")` / `expect("a parked sender always holds an item")`
deriving Repr, DecidableEq

inductive Op where
  | send (v : Nat) | trySend (v : Nat) | recv | tryRecv | recvTimeout0
  | sendFut (v : Nat) | recvFut
  | cloneS | cloneR | closeS | closeR
deriving Repr, DecidableEq

inductive PC where
  | idle
  | done (r : Res)
  | wakeThen (a : Nat) (res : Res)   -- guard dropped: about to `wake.wake()` the matched peer, then return `res`
  -- send_blocking
  | sLock (v r : Nat)
  | sWait (v r : Nat)                -- park_until_terminal: about to load the state byte
  | sPark (v r : Nat)
  | tsLock (v : Nat)                 -- try_send
  -- recv_blocking
  | rLock (r : Nat)
  | rWait (r : Nat)
  | rPark (r : Nat)
  | trLock                           -- try_recv
  -- recv_timeout(0)
  | toLock (r : Nat)
  | toLoad (r : Nat)                 -- loop head: load state
  | toCas (r : Nat)                  -- deadline passed: cancel_receiver's CAS (outside the lock)
  | toUnl (r : Nat)                  -- CAS won: lock, remove_receiver, return Timeout
  | toFin (r : Nat)                  -- final load of the state byte
  -- SendFuture (poll_send)
  | asNew (v r : Nat)
  | asLock (v r : Nat)
  | asPend (v r : Nat)
  | asRef (v r : Nat)                -- re-polled while WAITING: lock, refresh the waker in place
  | asFin (v r : Nat)                -- record left the queue meanwhile: re-read the state
  | fdUnlS (v r : Nat)               -- Drop: cancel CAS won, about to lock and unlink
  -- RecvFuture (poll_recv)
  | arNew (r : Nat)
  | arLock (r : Nat)
  | arPend (r : Nat)
  | arRef (r : Nat)
  | arFin (r : Nat)
  | fdUnlR (r : Nat)
  -- handles
  | hCloneS | hCloneR | hCloseS | hCloseR
  | hWake (ws : List Nat)
deriving Repr, DecidableEq

 /-- ghost: where a token currently is -/
inductive Loc where
  | nowhere | fresh (t : Nat) | slot (r : Nat) | received | returned | dropped
deriving Repr, DecidableEq

structure State where
  sq : List Nat                 -- sender_waiters (front first)
  rq : List Nat                 -- receivers
  senders : Nat
  receivers : Nat
  st : Nat → RS
  slot : Nat → Option Nat
  owner : Nat → Nat
  wakes : Nat → Nat
  pc : Nat → PC
  nextRec : Nat
  offered : List Nat
  handed : List Nat
  recvd : List Nat
  returned : List Nat
  dropped : List Nat
  destOf : Nat → Nat
  wakeBy : Nat → Nat
  loc : Nat → Loc               -- ghost: location of every token
  hand : Nat → Bool             -- ghost: the token was handed over (∈ handed)

def init : State :=
  { sq := [], rq := [], senders := 1, receivers := 1, st := fun _ => .waiting, slot := fun _ => none,
    owner := fun _ => 0, wakes := fun _ => 0, pc := fun _ => .idle, nextRec := 0,
    offered := [], handed := [], recvd := [], returned := [], dropped := [], destOf := fun _ => 0,
    wakeBy := fun _ => 0, loc := fun _ => .nowhere, hand := fun _ => false }

def upd {α} (f : Nat → α) (i : Nat) (a : α) : Nat → α := fun j => if j = i then a else f j
def bump (w : Nat → Nat) (a : Nat) : Nat → Nat := fun j => if j = a then w a + 1 else w j
def optL (o : Option Nat) : List Nat := match o with | some v => [v] | none => []
/-- ghost: the token (if any) in a slot that is being destroyed becomes `dropped` -/
def dropLoc (loc : Nat → Loc) (o : Option Nat) : Nat → Loc :=
  match o with | some v => upd loc v .dropped | none => loc

/-- `fulfill_receiver(rec, item)` on the popped front `rr`, by agent `t`: writes the destination, stores DONE,
whatever the record's state was. -/
def giveTo (s : State) (t rr v : Nat) (rest : List Nat) (res : Res) : State :=
  { s with rq := rest, slot := upd s.slot rr (some v), st := upd s.st rr .done, handed := s.handed ++ [v],
           destOf := upd s.destOf v rr, wakeBy := upd s.wakeBy rr t, loc := upd s.loc v (.slot rr), hand := upd s.hand v true,
           pc := upd s.pc t (.wakeThen (s.owner rr) res) }

/-- `fulfill_sender(rec)` on the popped front `rs`, by agent `t` -/
def takeFrom (s : State) (t rs : Nat) (rest : List Nat) : State :=
  match s.slot rs with
  | some v =>
    { s with sq := rest, slot := upd s.slot rs none, st := upd s.st rs .done, handed := s.handed ++ [v],
             recvd := s.recvd ++ [v], wakeBy := upd s.wakeBy rs t, loc := upd s.loc v .received, hand := upd s.hand v true,
             pc := upd s.pc t (.wakeThen (s.owner rs) (.recvOk v)) }
  | none => { s with sq := rest, pc := upd s.pc t (.done .panicked) }

/-! ### senders -/

def stepSLock (s : State) (t v r : Nat) : State :=
  if s.receivers = 0 then { s with dropped := s.dropped ++ [v], loc := upd s.loc v .dropped, pc := upd s.pc t (.done (.sendClosedDrop v)) }
  else
    match s.rq with
    | rr :: rest => giveTo s t rr v rest (.sendOk v)
    | [] => { s with sq := s.sq ++ [r], slot := upd s.slot r (some v), loc := upd s.loc v (.slot r), pc := upd s.pc t (.sWait v r) }

def stepSWait (s : State) (t v r : Nat) : State :=
  match s.st r with
  | .waiting => { s with pc := upd s.pc t (.sPark v r) }
  | .done => { s with pc := upd s.pc t (.done (.sendOk v)) }
  | .cancelled => { s with slot := upd s.slot r none, dropped := s.dropped ++ optL (s.slot r), loc := dropLoc s.loc (s.slot r),
                           pc := upd s.pc t (.done (.sendClosedDrop v)) }
  | .disconnected => { s with slot := upd s.slot r none, dropped := s.dropped ++ optL (s.slot r), loc := dropLoc s.loc (s.slot r),
                              pc := upd s.pc t (.done (.sendClosedDrop v)) }

def stepSPark (s : State) (t v r : Nat) : Option State :=
  if 0 < s.wakes t then some { s with wakes := upd s.wakes t 0, pc := upd s.pc t (.sWait v r) } else none

def stepTsLock (s : State) (t v : Nat) : State :=
  if s.receivers = 0 then { s with returned := s.returned ++ [v], loc := upd s.loc v .returned, pc := upd s.pc t (.done (.sendClosed v)) }
  else
    match s.rq with
    | rr :: rest => giveTo s t rr v rest (.sendOk v)
    | [] => { s with returned := s.returned ++ [v], loc := upd s.loc v .returned, pc := upd s.pc t (.done (.sendFull v)) }

def stepAsLock (s : State) (t v r : Nat) : State :=
  if s.receivers = 0 then { s with dropped := s.dropped ++ [v], loc := upd s.loc v .dropped, pc := upd s.pc t (.done (.sendClosedDrop v)) }
  else
    match s.rq with
    | rr :: rest => giveTo s t rr v rest (.sendOk v)
    | [] => { s with sq := s.sq ++ [r], st := upd s.st r .waiting, slot := upd s.slot r (some v), loc := upd s.loc v (.slot r),
                     pc := upd s.pc t (.asPend v r) }

def stepAsRef (s : State) (t v r : Nat) : State :=
  if r ∈ s.sq then { s with pc := upd s.pc t (.asPend v r) } else { s with pc := upd s.pc t (.asFin v r) }

def stepAsFin (s : State) (t v r : Nat) : State :=
  match s.st r with
  | .done => { s with pc := upd s.pc t (.done (.sendOk v)) }
  | .waiting => { s with slot := upd s.slot r none, dropped := s.dropped ++ optL (s.slot r), loc := dropLoc s.loc (s.slot r),
                         pc := upd s.pc t (.done (.sendClosedDrop v)) }
  | .cancelled => { s with slot := upd s.slot r none, dropped := s.dropped ++ optL (s.slot r), loc := dropLoc s.loc (s.slot r),
                           pc := upd s.pc t (.done (.sendClosedDrop v)) }
  | .disconnected => { s with slot := upd s.slot r none, dropped := s.dropped ++ optL (s.slot r), loc := dropLoc s.loc (s.slot r),
                              pc := upd s.pc t (.done (.sendClosedDrop v)) }

def stepFdUnlS (s : State) (t v r : Nat) : State :=
  { s with sq := s.sq.erase r, slot := upd s.slot r none, dropped := s.dropped ++ optL (s.slot r), loc := dropLoc s.loc (s.slot r),
           pc := upd s.pc t (.done .futDropped) }

/-! ### receivers -/

def stepRLock (s : State) (t r : Nat) : State :=
  match s.sq with
  | rs :: rest => takeFrom s t rs rest
  | [] =>
    if s.senders = 0 then { s with pc := upd s.pc t (.done .recvDisc) }
    else { s with rq := s.rq ++ [r], pc := upd s.pc t (.rWait r) }

/-- final read of a receiver's record: DONE ⇒ take the destination -/
def finishRecv (s : State) (t r : Nat) : State :=
  match s.slot r with
  | some v => { s with slot := upd s.slot r none, recvd := s.recvd ++ [v], loc := upd s.loc v .received,
                       pc := upd s.pc t (.done (.recvOk v)) }
  | none => { s with pc := upd s.pc t (.done .panicked) }

def stepRWait (s : State) (t r : Nat) : State :=
  match s.st r with
  | .waiting => { s with pc := upd s.pc t (.rPark r) }
  | .done => finishRecv s t r
  | .cancelled => { s with pc := upd s.pc t (.done .recvDisc) }
  | .disconnected => { s with pc := upd s.pc t (.done .recvDisc) }

def stepRPark (s : State) (t r : Nat) : Option State :=
  if 0 < s.wakes t then some { s with wakes := upd s.wakes t 0, pc := upd s.pc t (.rWait r) } else none

def stepTrLock (s : State) (t : Nat) : State :=
  match s.sq with
  | rs :: rest => takeFrom s t rs rest
  | [] =>
    if s.senders = 0 then { s with pc := upd s.pc t (.done .recvDisc) }
    else { s with pc := upd s.pc t (.done .recvEmpty) }

def stepToLock (s : State) (t r : Nat) : State :=
  match s.sq with
  | rs :: rest => takeFrom s t rs rest
  | [] =>
    if s.senders = 0 then { s with pc := upd s.pc t (.done .recvDisc) }
    else { s with rq := s.rq ++ [r], pc := upd s.pc t (.toLoad r) }

def stepToLoad (s : State) (t r : Nat) : State :=
  match s.st r with
  | .waiting => { s with pc := upd s.pc t (.toCas r) }
  | .done => { s with pc := upd s.pc t (.toFin r) }
  | .cancelled => { s with pc := upd s.pc t (.toFin r) }
  | .disconnected => { s with pc := upd s.pc t (.toFin r) }

/-- `cancel_receiver`: the CAS happens before the lock is taken -/
def stepToCas (s : State) (t r : Nat) : State :=
  match s.st r with
  | .waiting => { s with st := upd s.st r .cancelled, pc := upd s.pc t (.toUnl r) }
  | .done => { s with pc := upd s.pc t (.toFin r) }
  | .cancelled => { s with pc := upd s.pc t (.toFin r) }
  | .disconnected => { s with pc := upd s.pc t (.toFin r) }

/-- `remove_receiver` under the lock, then `return Err(Timeout)` — whatever a sender wrote into `dest`
in the meantime is dropped with the stack frame. -/
def stepToUnl (s : State) (t r : Nat) : State :=
  { s with rq := s.rq.erase r, slot := upd s.slot r none, dropped := s.dropped ++ optL (s.slot r), loc := dropLoc s.loc (s.slot r),
           pc := upd s.pc t (.done .recvTimeout) }

def stepToFin (s : State) (t r : Nat) : State :=
  match s.st r with
  | .done => finishRecv s t r
  | .cancelled => { s with slot := upd s.slot r none, dropped := s.dropped ++ optL (s.slot r), loc := dropLoc s.loc (s.slot r),
                           pc := upd s.pc t (.done .recvTimeout) }
  | .waiting => { s with pc := upd s.pc t (.done .recvDisc) }
  | .disconnected => { s with pc := upd s.pc t (.done .recvDisc) }

def stepArLock (s : State) (t r : Nat) : State :=
  match s.sq with
  | rs :: rest => takeFrom s t rs rest
  | [] =>
    if s.senders = 0 then { s with pc := upd s.pc t (.done .recvDisc) }
    else { s with rq := s.rq ++ [r], st := upd s.st r .waiting, pc := upd s.pc t (.arPend r) }

def stepArRef (s : State) (t r : Nat) : State :=
  if r ∈ s.rq then { s with pc := upd s.pc t (.arPend r) } else { s with pc := upd s.pc t (.arFin r) }

def stepArFin (s : State) (t r : Nat) : State :=
  match s.st r with
  | .done => finishRecv s t r
  | .waiting => { s with pc := upd s.pc t (.done .recvDisc) }
  | .cancelled => { s with pc := upd s.pc t (.done .recvDisc) }
  | .disconnected => { s with pc := upd s.pc t (.done .recvDisc) }

def stepFdUnlR (s : State) (t r : Nat) : State :=
  { s with rq := s.rq.erase r, slot := upd s.slot r none, dropped := s.dropped ++ optL (s.slot r), loc := dropLoc s.loc (s.slot r),
           pc := upd s.pc t (.done .futDropped) }

/-! ### wakes and handles -/

def stepWakeThen (s : State) (t a : Nat) (res : Res) : State :=
  { s with wakes := bump s.wakes a, pc := upd s.pc t (.done res) }

def stepCloseS (s : State) (t : Nat) : Option State :=
  if s.senders = 0 then none
  else if s.senders = 1 then
    some { s with senders := 0, rq := [],
                  st := fun r => if r ∈ s.rq then .disconnected else s.st r,
                  wakeBy := fun r => if r ∈ s.rq then t else s.wakeBy r,
                  pc := upd s.pc t (.hWake (s.rq.map s.owner)) }
  else some { s with senders := s.senders - 1, pc := upd s.pc t (.hWake []) }

def stepCloseR (s : State) (t : Nat) : Option State :=
  if s.receivers = 0 then none
  else if s.receivers = 1 then
    some { s with receivers := 0, sq := [],
                  st := fun r => if r ∈ s.sq then .disconnected else s.st r,
                  wakeBy := fun r => if r ∈ s.sq then t else s.wakeBy r,
                  pc := upd s.pc t (.hWake (s.sq.map s.owner)) }
  else some { s with receivers := s.receivers - 1, pc := upd s.pc t (.hWake []) }

def stepHWake (s : State) (t : Nat) (ws : List Nat) : State :=
  match ws with
  | [] => { s with pc := upd s.pc t (.done .unit) }
  | a :: rest => { s with wakes := bump s.wakes a, pc := upd s.pc t (.hWake rest) }

inductive Label where
  | call (op : Op)
  | adv
  | poll
  | dropFut
  | spurious
deriving Repr, DecidableEq

def PC.atRest : PC → Bool
  | .idle => true
  | .done _ => true
  | _ => false

def stepCall (s : State) (t : Nat) (op : Op) : Option State :=
  if (s.pc t).atRest then
    let r := s.nextRec
    match op with
    | .send v =>
      if v ∈ s.offered then none else
      some { s with offered := s.offered ++ [v], loc := upd s.loc v (.fresh t), nextRec := r + 1, st := upd s.st r .waiting, slot := upd s.slot r none,
                    owner := upd s.owner r t, pc := upd s.pc t (.sLock v r) }
    | .trySend v =>
      if v ∈ s.offered then none else some { s with offered := s.offered ++ [v], loc := upd s.loc v (.fresh t), pc := upd s.pc t (.tsLock v) }
    | .recv =>
      some { s with nextRec := r + 1, st := upd s.st r .waiting, slot := upd s.slot r none, owner := upd s.owner r t,
                    pc := upd s.pc t (.rLock r) }
    | .tryRecv => some { s with pc := upd s.pc t .trLock }
    | .recvTimeout0 =>
      some { s with nextRec := r + 1, st := upd s.st r .waiting, slot := upd s.slot r none, owner := upd s.owner r t,
                    pc := upd s.pc t (.toLock r) }
    | .sendFut v =>
      if v ∈ s.offered then none else
      some { s with offered := s.offered ++ [v], loc := upd s.loc v (.fresh t), nextRec := r + 1, st := upd s.st r .waiting, slot := upd s.slot r none,
                    owner := upd s.owner r t, pc := upd s.pc t (.asNew v r) }
    | .recvFut =>
      some { s with nextRec := r + 1, st := upd s.st r .waiting, slot := upd s.slot r none, owner := upd s.owner r t,
                    pc := upd s.pc t (.arNew r) }
    | .cloneS => if s.senders = 0 then none else some { s with pc := upd s.pc t .hCloneS }
    | .cloneR => if s.receivers = 0 then none else some { s with pc := upd s.pc t .hCloneR }
    | .closeS => some { s with pc := upd s.pc t .hCloseS }
    | .closeR => some { s with pc := upd s.pc t .hCloseR }
  else none

def stepAdv (s : State) (t : Nat) : Option State :=
  match s.pc t with
  | .wakeThen a res => some (stepWakeThen s t a res)
  | .sLock v r => some (stepSLock s t v r)
  | .sWait v r => some (stepSWait s t v r)
  | .sPark v r => stepSPark s t v r
  | .tsLock v => some (stepTsLock s t v)
  | .rLock r => some (stepRLock s t r)
  | .rWait r => some (stepRWait s t r)
  | .rPark r => stepRPark s t r
  | .trLock => some (stepTrLock s t)
  | .toLock r => some (stepToLock s t r)
  | .toLoad r => some (stepToLoad s t r)
  | .toCas r => some (stepToCas s t r)
  | .toUnl r => some (stepToUnl s t r)
  | .toFin r => some (stepToFin s t r)
  | .asLock v r => some (stepAsLock s t v r)
  | .asRef v r => some (stepAsRef s t v r)
  | .asFin v r => some (stepAsFin s t v r)
  | .fdUnlS v r => some (stepFdUnlS s t v r)
  | .arLock r => some (stepArLock s t r)
  | .arRef r => some (stepArRef s t r)
  | .arFin r => some (stepArFin s t r)
  | .fdUnlR r => some (stepFdUnlR s t r)
  | .hCloneS => some { s with senders := s.senders + 1, pc := upd s.pc t (.done .unit) }
  | .hCloneR => some { s with receivers := s.receivers + 1, pc := upd s.pc t (.done .unit) }
  | .hCloseS => stepCloseS s t
  | .hCloseR => stepCloseR s t
  | .hWake ws => some (stepHWake s t ws)
  | _ => none

/-- `poll`: a registered future first loads its state byte -/
def stepPoll (s : State) (t : Nat) : Option State :=
  match s.pc t with
  | .asNew v r => some { s with wakes := upd s.wakes t 0, pc := upd s.pc t (.asLock v r) }
  | .asPend v r =>
    match s.st r with
    | .waiting => some { s with wakes := upd s.wakes t 0, pc := upd s.pc t (.asRef v r) }
    | .done => some { s with wakes := upd s.wakes t 0, pc := upd s.pc t (.done (.sendOk v)) }
    | .cancelled => some { s with wakes := upd s.wakes t 0, slot := upd s.slot r none, dropped := s.dropped ++ optL (s.slot r), loc := dropLoc s.loc (s.slot r),
                                  pc := upd s.pc t (.done (.sendClosedDrop v)) }
    | .disconnected => some { s with wakes := upd s.wakes t 0, slot := upd s.slot r none, dropped := s.dropped ++ optL (s.slot r), loc := dropLoc s.loc (s.slot r),
                                     pc := upd s.pc t (.done (.sendClosedDrop v)) }
  | .arNew r => some { s with wakes := upd s.wakes t 0, pc := upd s.pc t (.arLock r) }
  | .arPend r =>
    match s.st r with
    | .waiting => some { s with wakes := upd s.wakes t 0, pc := upd s.pc t (.arRef r) }
    | .done => some (finishRecv { s with wakes := upd s.wakes t 0 } t r)
    | .cancelled => some { s with wakes := upd s.wakes t 0, pc := upd s.pc t (.done .recvDisc) }
    | .disconnected => some { s with wakes := upd s.wakes t 0, pc := upd s.pc t (.done .recvDisc) }
  | _ => none

/-- `Drop` of an unfinished future: `if registered { cancel_*() }`; `cancel_*` CASes first and takes the
lock only if the CAS won. Whatever the inline slot holds afterwards is dropped with the future. -/
def stepDropFut (s : State) (t : Nat) : Option State :=
  match s.pc t with
  | .asNew v _ => some { s with dropped := s.dropped ++ [v], loc := upd s.loc v .dropped, pc := upd s.pc t (.done .futDropped) }
  | .asPend v r =>
    match s.st r with
    | .waiting => some { s with st := upd s.st r .cancelled, pc := upd s.pc t (.fdUnlS v r) }
    | .done => some { s with slot := upd s.slot r none, dropped := s.dropped ++ optL (s.slot r), loc := dropLoc s.loc (s.slot r), pc := upd s.pc t (.done .futDropped) }
    | .cancelled => some { s with slot := upd s.slot r none, dropped := s.dropped ++ optL (s.slot r), loc := dropLoc s.loc (s.slot r), pc := upd s.pc t (.done .futDropped) }
    | .disconnected => some { s with slot := upd s.slot r none, dropped := s.dropped ++ optL (s.slot r), loc := dropLoc s.loc (s.slot r), pc := upd s.pc t (.done .futDropped) }
  | .arNew _ => some { s with pc := upd s.pc t (.done .futDropped) }
  | .arPend r =>
    match s.st r with
    | .waiting => some { s with st := upd s.st r .cancelled, pc := upd s.pc t (.fdUnlR r) }
    | .done => some { s with slot := upd s.slot r none, dropped := s.dropped ++ optL (s.slot r), loc := dropLoc s.loc (s.slot r), pc := upd s.pc t (.done .futDropped) }
    | .cancelled => some { s with slot := upd s.slot r none, dropped := s.dropped ++ optL (s.slot r), loc := dropLoc s.loc (s.slot r), pc := upd s.pc t (.done .futDropped) }
    | .disconnected => some { s with slot := upd s.slot r none, dropped := s.dropped ++ optL (s.slot r), loc := dropLoc s.loc (s.slot r), pc := upd s.pc t (.done .futDropped) }
  | _ => none

def stepSpurious (s : State) (t : Nat) : Option State :=
  match s.pc t with
  | .sPark v r => some { s with pc := upd s.pc t (.sWait v r) }
  | .rPark r => some { s with pc := upd s.pc t (.rWait r) }
  | _ => none

def step (s : State) (t : Nat) : Label → Option State
  | .call op => stepCall s t op
  | .adv => stepAdv s t
  | .poll => stepPoll s t
  | .dropFut => stepDropFut s t
  | .spurious => stepSpurious s t

def run (s : State) : List (Nat × Label) → Option State
  | [] => some s
  | (t, l) :: rest => (step s t l).bind (fun s' => run s' rest)

inductive Reach : State → Prop where
  | init : Reach init
  | step {s s' t l} : Reach s → step s t l = some s' → Reach s'

/-- the record a lock section of agent `t` is about to pop from the opposite queue (if any) -/
def popTarget (s : State) (t : Nat) : Option Nat :=
  match s.pc t with
  | .sLock _ _ => if s.receivers = 0 then none else s.rq.head?
  | .tsLock _ => if s.receivers = 0 then none else s.rq.head?
  | .asLock _ _ => if s.receivers = 0 then none else s.rq.head?
  | .rLock _ => s.sq.head?
  | .trLock => s.sq.head?
  | .toLock _ => s.sq.head?
  | .arLock _ => s.sq.head?
  | _ => none

/-- The hypothesis of the `_partial` theorems, per step — exactly the F1 window and its future shape:
* no lock section pops a record whose state byte is no longer WAITING (a canceller has CASed it to
  CANCELLED and has not yet unlinked it);
* no `RecvFuture` is dropped after the hand-off into it committed (state DONE) and before it was polled. -/
def Benign (s : State) (t : Nat) (l : Label) : Prop :=
  match l with
  | .adv => ∀ r, popTarget s t = some r → s.st r = .waiting
  | .dropFut => ∀ r, s.pc t = .arPend r → s.st r ≠ .done
  | _ => True

inductive ReachB : State → Prop where
  | init : ReachB init
  | step {s s' t l} : ReachB s → Benign s t l → step s t l = some s' → ReachB s'

theorem ReachB.reach {s} (h : ReachB s) : Reach s := by
  induction h with
  | init => exact .init
  | step _ _ hs ih => exact .step ih hs

end Fv.Chan.RendezvousB
