/-
B-level (one visible action per step) model of the slab-backed Vyukov chain
`channels/src/internal/slab_chain.rs`, shared by the unbounded mpsc (`mpsc/unbounded_v3`) and
unbounded mpmc (`mpmc_v2/unbounded`) channels.  The channel models `Fv.Chan.MpscUB` /
`Fv.Chan.MpmcUB` embed this state and drive it: every step of those models is at most one step
of this one on the chain component, so every invariant proved here holds there.

Agents.  Producer-private state (`ProducerSlab { slab, pos }`, the run being built by
`bump_batch`, the `old`/`first` pair between the swap and the link store of `publish`) is indexed by
SENDER HANDLE `h` (the send methods take `&mut self`: one operation at a time per handle).  The
consumer side (cursor `tail`, `pop_node` / `pop_locked`, `retire_node`, the `Drop` walk of the
shared state) is exclusive (mpsc: the one `!Sync` receiver; mpmc: the consumer mutex), so there is
ONE consumer program counter `cpc`; the embedding models say which thread drives it.

Code ↔ label map (slab_chain.rs unless noted):
  ProducerSlab::bump, slab has room          pBump            (no visible action: node = base+pos, value written)
  bump, slab exhausted: seal_slab(slab, N)   pSealDec (fetch_sub(1, Release)) → [pRelFence → pRelLock → pRelUnlock]
  ProducerSlab::seal (close/drop)            pClose → pSealDec (fetch_sub(N-pos+1, Release)) → [release …] → pDropDec
  SlabPool::acquire                          pAcqLock → pAcqUnlock (pop under the lock, unlock)
     recycled                                pRearmRem (remaining.store(N+1, Relaxed)) → pRearmNode × N (next.store(null, Relaxed); val = None)
     fresh (alloc_slab)                      pAlloc           (only atomic constructions)
  bump_batch pre-link                        pPrelink         ((*prev).next.store(node, Relaxed))
  ChainHead::publish                         pSwap (head.swap(last, AcqRel)) → pLink ((*old).next.store(first, Release))
  drop_sender (mpsc/mpmc shared.rs)          pDropDec         (sender_count.fetch_sub(1, AcqRel))
  add_sender                                 pClone           (sender_count.fetch_add(1, Relaxed))
  pop_node / pop_locked                      cPopLoad ((*tail).next.load(Acquire); take value; tail = next)
  retire_node                                cRetDec (fetch_sub(1, Release)) → [cRelFence (fence(Acquire)) → cRelLock → cRelUnlock]
  release_slab                               *RelLock (pool.slabs.lock()) → *RelUnlock (push if len < SLAB_POOL_CAP else free; unlock)
  Drop for MpscShared / UnboundedShared      cFinStart → (cFinLoad ((*tail).next.load(Relaxed)) → retire …)* → finished

Deviations from the text of the code, all on never-read private data: after the exhausted-slab seal
inside `bump` the handle's `slab` pointer dangles until `acquire` returns; the model clears it at the
seal (`pslab h = none`).  `SLAB_NODES` (128) and `SLAB_POOL_CAP` (8) are the parameters `Cfg.N`,
`Cfg.poolCap`.  Memory is sequentially consistent; the ordering of each access is `Label.ord`.

Ghost state: `sent` (values in swap order), `recvd` (values handed to receivers, in order),
`dropped` (values destroyed by the final walk), logical positions (`at`, `k`, `len`), per-node and
per-slab life-cycle states (`nst`, `sst`), `pend` (position ↦ publisher between swap and link).
-/
namespace Fv.Chan.ChainB

inductive NodeId where
  | stub
  | nd (slab idx : Nat)
deriving DecidableEq, Repr

inductive Agent where
  | prod (h : Nat)
  | cons
deriving DecidableEq, Repr

structure Cfg where
  N : Nat := 128        -- SLAB_NODES
  poolCap : Nat := 8    -- SLAB_POOL_CAP
deriving Repr

/-- continuation of a producer-side seal -/
inductive PCont where
  | bump      -- exhausted slab sealed inside `bump`: continue with `acquire`
  | close     -- `seal()` from close/drop: continue with `drop_sender`
deriving DecidableEq, Repr

/-- continuation of a consumer-side retire -/
inductive CCont where
  | pop (v : Nat)   -- `pop_node` returns `Some v`
  | walk            -- `Drop` walk: next iteration
  | last            -- `Drop` walk: the final `retire_node(tail)`
deriving DecidableEq, Repr

inductive PPC where
  | idle
  | build                              -- in `send`/`bump_batch`; slab present; next: bump, exhausted seal, or swap
  | sealing                            -- `seal()`: about to fetch_sub
  | relFence (b : Nat) (c : PCont)     -- count hit zero: fence(Acquire)
  | relLock (b : Nat) (c : PCont)      -- release_slab: lock the pool
  | relUnlock (b : Nat) (c : PCont)    -- push / free, unlock
  | acqLock                            -- acquire: lock the pool
  | acqUnlock                          -- pop, unlock
  | rearmRem (b : Nat)                 -- recycled: remaining.store(N+1)
  | rearmNode (b i : Nat)              -- recycled: node i: next.store(null); val = None
  | alloc                              -- alloc_slab
  | prelink                            -- (*prev).next.store(node, Relaxed)
  | link (i : Nat) (old first : NodeId) -- swap done (old at ghost position i); about to store old.next
  | dropDec                            -- sender_count.fetch_sub
deriving DecidableEq, Repr

inductive CPC where
  | idle
  | retDec (n : NodeId) (c : CCont)    -- retire_node(n): about to fetch_sub on n's slab
  | relFence (b : Nat) (c : CCont)
  | relLock (b : Nat) (c : CCont)
  | relUnlock (b : Nat) (c : CCont)
  | done (r : Option Nat)              -- pop returned `r`
  | finLoad                            -- Drop walk: about to load tail.next
  | finished                           -- shared state destroyed
deriving DecidableEq, Repr

/-- ghost life cycle of a physical node -/
inductive NodeSt where
  | free                    -- not handed out in this incarnation of its slab
  | held (h j : Nat)        -- bumped by handle `h` as element `j` of the run it is building
  | inchain (i : Nat)       -- published; logical position `i` (≥ the cursor)
  | limbo                   -- the cursor moved past it; its `retire_node` fetch_sub is pending
  | retired
deriving DecidableEq, Repr

/-- ghost life cycle of a slab -/
inductive SlabSt where
  | unalloc
  | owned (h : Nat)         -- handle `h` bump-allocates from it (producer hold present)
  | sealed                  -- hold released; nodes outstanding
  | releasing (a : Agent)   -- count reached zero; `a` is inside release_slab
  | pooled
  | freed
  | popped (h : Nat)        -- taken from the pool by `h`, not yet re-armed
  | arming (h : Nat)        -- `remaining` re-armed, node re-arm walk in progress
deriving DecidableEq, Repr

inductive HSt where
  | unborn | live | dead
deriving DecidableEq, Repr

def upd {κ α} [DecidableEq κ] (f : κ → α) (i : κ) (a : α) : κ → α := fun j => if j = i then a else f j
def upd2 {α} (f : Nat → Nat → α) (i j : Nat) (a : α) : Nat → Nat → α :=
  fun i' j' => if i' = i ∧ j' = j then a else f i' j'

structure State where
  -- shared memory
  next : NodeId → Option NodeId
  val : NodeId → Option Nat
  head : NodeId
  rem : Nat → Nat                       -- Slab.remaining
  pool : List Nat                       -- SlabPool.slabs (push/pop at the end)
  poolLock : Option Agent
  senders : Nat                         -- sender_count
  -- consumer-exclusive
  tail : NodeId
  cpc : CPC
  -- producer-private, per sender handle
  pslab : Nat → Option Nat
  ppos : Nat → Nat
  pvals : Nat → List Nat                -- the values of the send / batch in progress
  rlen : Nat → Nat                      -- how many of them have been placed in nodes
  run : Nat → Nat → NodeId              -- those nodes
  ppc : Nat → PPC
  -- allocator
  nextSlab : Nat
  -- ghost
  sst : Nat → SlabSt
  nst : NodeId → NodeSt
  armed : Nat → Nat                     -- nodes of the slab re-armed so far (N when not arming)
  at_ : Nat → NodeId                    -- logical position ↦ physical node
  len : Nat
  k : Nat
  pend : Nat → Option Nat               -- position i ↦ handle between its swap and its link of at i
  sent : List Nat
  recvd : List Nat
  dropped : List Nat
  hst : Nat → HSt
  liveS : List Nat                      -- handles counted in `senders`
  fin : Bool                            -- Drop walk started
  tailGone : Bool                       -- Drop walk retired the last node

def init : State :=
  { next := fun _ => none, val := fun _ => none, head := .stub, rem := fun _ => 0, pool := [],
    poolLock := none, senders := 1, tail := .stub, cpc := .idle,
    pslab := fun _ => none, ppos := fun _ => 0, pvals := fun _ => [], rlen := fun _ => 0,
    run := fun _ _ => .stub, ppc := fun _ => .idle, nextSlab := 0,
    sst := fun _ => .unalloc, nst := fun n => match n with | .stub => .inchain 0 | _ => .free,
    armed := fun _ => 0, at_ := fun _ => .stub, len := 0, k := 0, pend := fun _ => none,
    sent := [], recvd := [], dropped := [],
    hst := fun h => if h = 0 then .live else .unborn, liveS := [0], fin := false, tailGone := false }

inductive Label where
  | pStart (vals : List Nat) | pBump | pSealDec | pRelFence | pRelLock | pRelUnlock
  | pAcqLock | pAcqUnlock | pRearmRem | pRearmNode | pAlloc | pPrelink | pSwap | pLink
  | pClose | pDropDec | pClone (h' : Nat)
  | cPopLoad | cRetDec | cRelFence | cRelLock | cRelUnlock | cRet | cFinStart | cFinLoad
deriving DecidableEq, Repr

inductive Ord where | none | relaxed | acquire | release | acqrel | seqcst
deriving DecidableEq, Repr

/-- the memory ordering the code uses at each visible action -/
def Label.ord : Label → Ord
  | .pSealDec => .release | .pRelFence => .acquire | .pRearmRem => .relaxed | .pRearmNode => .relaxed
  | .pPrelink => .relaxed | .pSwap => .acqrel | .pLink => .release | .pDropDec => .acqrel
  | .pClone _ => .relaxed | .cPopLoad => .acquire | .cRetDec => .release | .cRelFence => .acquire
  | .cFinLoad => .relaxed | _ => .none

/-! ### producer steps (agent = sender handle `h`) -/

def stepPStart (s : State) (h : Nat) (vals : List Nat) : Option State :=
  if s.hst h = .live ∧ s.ppc h = .idle ∧ 0 < vals.length then
    some { s with pvals := upd s.pvals h vals, rlen := upd s.rlen h 0,
                  ppc := upd s.ppc h (if s.pslab h = none then .acqLock else .build) }
  else none

def stepPBump (cfg : Cfg) (s : State) (h : Nat) : Option State :=
  match s.ppc h, s.pslab h with
  | .build, some b =>
    if s.rlen h < (s.pvals h).length ∧ s.ppos h < cfg.N then
      let n := NodeId.nd b (s.ppos h)
      some { s with val := upd s.val n ((s.pvals h)[s.rlen h]?),
                    nst := upd s.nst n (.held h (s.rlen h)),
                    run := upd2 s.run h (s.rlen h) n,
                    ppos := upd s.ppos h (s.ppos h + 1),
                    rlen := upd s.rlen h (s.rlen h + 1),
                    ppc := upd s.ppc h (if s.rlen h = 0 then .build else .prelink) }
    else none
  | _, _ => none

/-- ghost effect of a seal with `used` nodes handed out: the never-used nodes are written off. -/
def sealNodes (cfg : Cfg) (nst : NodeId → NodeSt) (b used : Nat) : NodeId → NodeSt :=
  fun n => match n with
    | .nd b' i => if b' = b ∧ used ≤ i ∧ i < cfg.N then .retired else nst n
    | .stub => nst n

def pAfter (c : PCont) : PPC := match c with | .bump => .acqLock | .close => .dropDec

/-- `seal_slab(slab, used)`: `remaining.fetch_sub(N - used + 1, Release)`. -/
def sealDec (cfg : Cfg) (s : State) (h b : Nat) (c : PCont) : State :=
  let used := s.ppos h
  let release := cfg.N - used + 1
  let old := s.rem b
  { s with rem := upd s.rem b (old - release),
           nst := sealNodes cfg s.nst b used,
           pslab := upd s.pslab h none, ppos := upd s.ppos h 0,
           sst := upd s.sst b (if old = release then .releasing (.prod h) else .sealed),
           ppc := upd s.ppc h (if old = release then .relFence b c else pAfter c) }

def stepPSealDec (cfg : Cfg) (s : State) (h : Nat) : Option State :=
  match s.ppc h, s.pslab h with
  | .build, some b =>
    if s.rlen h < (s.pvals h).length ∧ s.ppos h = cfg.N then some (sealDec cfg s h b .bump) else none
  | .sealing, some b => some (sealDec cfg s h b .close)
  | _, _ => none

def stepPRelFence (s : State) (h : Nat) : Option State :=
  match s.ppc h with
  | .relFence b c => some { s with ppc := upd s.ppc h (.relLock b c) }
  | _ => none

def stepPRelLock (s : State) (h : Nat) : Option State :=
  match s.ppc h, s.poolLock with
  | .relLock b c, none => some { s with poolLock := some (.prod h), ppc := upd s.ppc h (.relUnlock b c) }
  | _, _ => none

def stepPRelUnlock (cfg : Cfg) (s : State) (h : Nat) : Option State :=
  match s.ppc h with
  | .relUnlock b c =>
    if s.pool.length < cfg.poolCap then
      some { s with pool := s.pool ++ [b], sst := upd s.sst b .pooled, poolLock := none,
                    ppc := upd s.ppc h (pAfter c) }
    else
      some { s with sst := upd s.sst b .freed, poolLock := none, ppc := upd s.ppc h (pAfter c) }
  | _ => none

def stepPAcqLock (s : State) (h : Nat) : Option State :=
  match s.ppc h, s.poolLock with
  | .acqLock, none => some { s with poolLock := some (.prod h), ppc := upd s.ppc h .acqUnlock }
  | _, _ => none

def stepPAcqUnlock (s : State) (h : Nat) : Option State :=
  match s.ppc h with
  | .acqUnlock =>
    match s.pool.getLast? with
    | some b => some { s with pool := s.pool.dropLast, sst := upd s.sst b (.popped h), poolLock := none,
                              ppc := upd s.ppc h (.rearmRem b) }
    | none => some { s with poolLock := none, ppc := upd s.ppc h .alloc }
  | _ => none

/-- ghost effect of re-arming `remaining`: a new incarnation, every node is free again. -/
def freeNodes (cfg : Cfg) (nst : NodeId → NodeSt) (b : Nat) : NodeId → NodeSt :=
  fun n => match n with
    | .nd b' i => if b' = b ∧ i < cfg.N then .free else nst n
    | .stub => nst n

def stepPRearmRem (cfg : Cfg) (s : State) (h : Nat) : Option State :=
  match s.ppc h with
  | .rearmRem b =>
    some { s with rem := upd s.rem b (cfg.N + 1), nst := freeNodes cfg s.nst b, armed := upd s.armed b 0,
                  sst := upd s.sst b (.arming h), ppc := upd s.ppc h (.rearmNode b 0) }
  | _ => none

def stepPRearmNode (cfg : Cfg) (s : State) (h : Nat) : Option State :=
  match s.ppc h with
  | .rearmNode b i =>
    let n := NodeId.nd b i
    if i + 1 < cfg.N then
      some { s with next := upd s.next n none, val := upd s.val n none, armed := upd s.armed b (i + 1),
                    ppc := upd s.ppc h (.rearmNode b (i + 1)) }
    else
      some { s with next := upd s.next n none, val := upd s.val n none, armed := upd s.armed b (i + 1),
                    sst := upd s.sst b (.owned h), pslab := upd s.pslab h (some b), ppos := upd s.ppos h 0,
                    ppc := upd s.ppc h .build }
  | _ => none

def stepPAlloc (cfg : Cfg) (s : State) (h : Nat) : Option State :=
  match s.ppc h with
  | .alloc =>
    let b := s.nextSlab
    some { s with nextSlab := b + 1, rem := upd s.rem b (cfg.N + 1), armed := upd s.armed b cfg.N,
                  sst := upd s.sst b (.owned h), pslab := upd s.pslab h (some b), ppos := upd s.ppos h 0,
                  ppc := upd s.ppc h .build }
  | _ => none

def stepPPrelink (s : State) (h : Nat) : Option State :=
  match s.ppc h with
  | .prelink =>
    some { s with next := upd s.next (s.run h (s.rlen h - 2)) (some (s.run h (s.rlen h - 1))),
                  ppc := upd s.ppc h .build }
  | _ => none

/-- ghost effect of the swap on node states: the run of `h` enters the chain at positions `len+1 …`. -/
def publishNodes (nst : NodeId → NodeSt) (h len : Nat) : NodeId → NodeSt :=
  fun n => match nst n with
    | .held h' j => if h' = h then .inchain (len + 1 + j) else .held h' j
    | x => x

def stepPSwap (s : State) (h : Nat) : Option State :=
  match s.ppc h with
  | .build =>
    if s.rlen h = (s.pvals h).length then
      let m := s.rlen h
      some { s with head := s.run h (m - 1),
                    at_ := fun i => if s.len < i ∧ i ≤ s.len + m then s.run h (i - s.len - 1) else s.at_ i,
                    nst := publishNodes s.nst h s.len,
                    sent := s.sent ++ s.pvals h, len := s.len + m,
                    pend := upd s.pend s.len (some h),
                    rlen := upd s.rlen h 0,
                    ppc := upd s.ppc h (.link s.len s.head (s.run h 0)) }
    else none
  | _ => none

def stepPLink (s : State) (h : Nat) : Option State :=
  match s.ppc h with
  | .link i old first =>
    some { s with next := upd s.next old (some first), pend := upd s.pend i none, ppc := upd s.ppc h .idle }
  | _ => none

def stepPClose (s : State) (h : Nat) : Option State :=
  if s.hst h = .live ∧ s.ppc h = .idle then
    some { s with ppc := upd s.ppc h (if s.pslab h = none then .dropDec else .sealing) }
  else none

def stepPDropDec (s : State) (h : Nat) : Option State :=
  match s.ppc h with
  | .dropDec =>
    some { s with senders := s.senders - 1, hst := upd s.hst h .dead, liveS := s.liveS.erase h,
                  ppc := upd s.ppc h .idle }
  | _ => none

/-- `Sender::clone` does not look at the handle's `closed` flag: a closed (but not yet dropped)
handle can be cloned, which brings `sender_count` back up - even from 0 (known finding F3, closed
handle accepted).  `fin = false`: a handle exists, so the shared state has not been dropped. -/
def stepPClone (s : State) (h h' : Nat) : Option State :=
  if s.hst h ≠ .unborn ∧ s.hst h' = .unborn ∧ s.fin = false then
    some { s with senders := s.senders + 1, hst := upd s.hst h' .live, liveS := s.liveS ++ [h'] }
  else none

/-! ### consumer steps -/

def cAfter (c : CCont) : CPC :=
  match c with | .pop v => .done (some v) | .walk => .finLoad | .last => .finished

/-- the cursor leaves `old`: the stub is freed on the spot, a slab node awaits its fetch_sub. -/
def leaveNode (s : State) (old : NodeId) (c : CCont) : State :=
  match old with
  | .stub => { s with nst := upd s.nst old .retired, cpc := cAfter c }
  | .nd _ _ => { s with nst := upd s.nst old .limbo, cpc := .retDec old c }

def stepCPopLoad (s : State) : Option State :=
  match s.cpc, s.fin with
  | .idle, false =>
    match s.next s.tail with
    | none => some { s with cpc := .done none }
    | some nx =>
      let v := (s.val nx).getD 0
      some (leaveNode { s with val := upd s.val nx none, tail := nx, k := s.k + 1,
                               recvd := s.recvd ++ [v] } s.tail (.pop v))
  | _, _ => none

def stepCRetDec (s : State) : Option State :=
  match s.cpc with
  | .retDec (.nd b i) c =>
    let old := s.rem b
    some { s with rem := upd s.rem b (old - 1), nst := upd s.nst (.nd b i) .retired,
                  sst := upd s.sst b (if old = 1 then .releasing .cons else s.sst b),
                  cpc := if old = 1 then .relFence b c else cAfter c }
  | _ => none

def stepCRelFence (s : State) : Option State :=
  match s.cpc with
  | .relFence b c => some { s with cpc := .relLock b c }
  | _ => none

def stepCRelLock (s : State) : Option State :=
  match s.cpc, s.poolLock with
  | .relLock b c, none => some { s with poolLock := some .cons, cpc := .relUnlock b c }
  | _, _ => none

def stepCRelUnlock (cfg : Cfg) (s : State) : Option State :=
  match s.cpc with
  | .relUnlock b c =>
    if s.pool.length < cfg.poolCap then
      some { s with pool := s.pool ++ [b], sst := upd s.sst b .pooled, poolLock := none, cpc := cAfter c }
    else
      some { s with sst := upd s.sst b .freed, poolLock := none, cpc := cAfter c }
  | _ => none

def stepCRet (s : State) : Option State :=
  match s.cpc with
  | .done _ => some { s with cpc := .idle }
  | _ => none

def stepCFinStart (s : State) : Option State :=
  match s.cpc, s.fin, s.liveS with
  | .idle, false, [] => some { s with fin := true, cpc := .finLoad }
  | _, _, _ => none

def stepCFinLoad (s : State) : Option State :=
  match s.cpc with
  | .finLoad =>
    match s.next s.tail with
    | none => some (leaveNode { s with tailGone := true } s.tail .last)
    | some nx =>
      let v := (s.val nx).getD 0
      some (leaveNode { s with val := upd s.val nx none, tail := nx, k := s.k + 1,
                               dropped := s.dropped ++ [v] } s.tail .walk)
  | _ => none

/-- `a` is the sender handle for `p*` labels and ignored for `c*` labels. -/
def step (cfg : Cfg) (s : State) (a : Nat) : Label → Option State
  | .pStart vals => stepPStart s a vals
  | .pBump => stepPBump cfg s a
  | .pSealDec => stepPSealDec cfg s a
  | .pRelFence => stepPRelFence s a
  | .pRelLock => stepPRelLock s a
  | .pRelUnlock => stepPRelUnlock cfg s a
  | .pAcqLock => stepPAcqLock s a
  | .pAcqUnlock => stepPAcqUnlock s a
  | .pRearmRem => stepPRearmRem cfg s a
  | .pRearmNode => stepPRearmNode cfg s a
  | .pAlloc => stepPAlloc cfg s a
  | .pPrelink => stepPPrelink s a
  | .pSwap => stepPSwap s a
  | .pLink => stepPLink s a
  | .pClose => stepPClose s a
  | .pDropDec => stepPDropDec s a
  | .pClone h' => stepPClone s a h'
  | .cPopLoad => stepCPopLoad s
  | .cRetDec => stepCRetDec s
  | .cRelFence => stepCRelFence s
  | .cRelLock => stepCRelLock s
  | .cRelUnlock => stepCRelUnlock cfg s
  | .cRet => stepCRet s
  | .cFinStart => stepCFinStart s
  | .cFinLoad => stepCFinLoad s

def run (cfg : Cfg) (s : State) : List (Nat × Label) → Option State
  | [] => some s
  | (a, l) :: rest => (step cfg s a l).bind (fun s' => run cfg s' rest)

inductive Reach (cfg : Cfg) : State → Prop where
  | init : Reach cfg init
  | step {s s' a l} : Reach cfg s → step cfg s a l = some s' → Reach cfg s'

end Fv.Chan.ChainB
