/-
Generic linearizability search over a *micro-step* operational semantics.

An API call is a small state machine `P` (pending-operation state): created by `fresh op` at
its call event, advanced by one of `micro s p` (the atomic effects it can have on the shared
abstract state `σ` now; `[]` = it cannot move in this state, e.g. a blocking send on a full
channel), and `fin p = some out` once its result is determined.  Single-effect operations
take one micro-step; blocking batch operations and rendezvous hand-offs take several, which is
exactly why they are not atomic in the implementation either.

`search` decides whether a concurrent history (call / return events in real-time order) can be
explained: micro-steps of pending operations are interleaved arbitrarily, each operation's
steps lie between its call and its return, and the returned result must be the computed one.
Operations that never return may have taken any number of their steps (including none).
Steps are taken "just in time", immediately before a return event that needs them (steps commute
to the right over call events), so the search branches only there.  Over the return event of an
already finished operation a step commutes only if `retire` does not disable it: that event is
tried as it stands first, and only if this fails are the other pending operations' steps tried
before it.

With `quiesce = true` (the run ended in a deadlock: every thread that has not finished is
blocked) the search additionally demands a final state in which every operation that never
returned is *disabled*: not finished and without a possible step.  A blocked `recv` with an item
buffered is therefore a lost wakeup, not an accepted history.

Failed search states are memoised (`Memo`); memoisation can only turn `some` into `none`, so it
is irrelevant for soundness: `search … = (some s', _) → Lin …` (Fv/Lemmas/ChanLin.lean).
Import-free (linked into `fvdrv_chan`).
-/
namespace Fv.Chan.LinCore

inductive Event (Op Out : Type) where
  | call (t : Nat) (op : Op)
  | ret (t : Nat) (out : Out)
  deriving Repr

abbrev Pend (P : Type) := List (Nat × P)

structure Sem (σ Op Out P K : Type) where
  fresh : Nat → Op → P
  /-- the possible atomic steps of a pending operation (empty = it cannot move now) -/
  micro : σ → P → List (σ × P)
  fin : P → Option Out
  /-- bookkeeping at the return event (e.g. "one fewer send in flight") -/
  retire : σ → P → σ
  /-- memo key: everything future behaviour depends on -/
  key : σ → Pend P → K

def lookup {P} (t : Nat) : Pend P → Option P
  | [] => none
  | (u, p) :: r => if u = t then some p else lookup t r

def erase {P} (t : Nat) : Pend P → Pend P
  | [] => []
  | (u, p) :: r => if u = t then r else (u, p) :: erase t r

def setP {P} (t : Nat) (q : P) : Pend P → Pend P
  | [] => []
  | (u, p) :: r => if u = t then (u, q) :: r else (u, p) :: setP t q r

/-- first return event of thread `t` in the rest of the history (look-ahead used for pruning only) -/
def nextRet {Op Out} (t : Nat) : List (Event Op Out) → Option Out
  | [] => none
  | .ret u o :: r => if u = t then some o else nextRet t r
  | .call u _ :: r => if u = t then none else nextRet t r

/-! ### memo of failed states -/
structure Memo (K : Type) where
  buckets : Array (List (Nat × K)) := Array.replicate 257 []

def Memo.slot {K} [Hashable K] (n : Nat) (k : K) : Nat := ((hash (n, hash k)).toNat) % 257

def Memo.contains {K} [BEq K] [Hashable K] (m : Memo K) (n : Nat) (k : K) : Bool :=
  (m.buckets.getD (Memo.slot n k) []).any (fun x => x.1 == n && x.2 == k)

def Memo.insert {K} [Hashable K] (m : Memo K) (n : Nat) (k : K) : Memo K :=
  let i := Memo.slot n k
  { buckets := m.buckets.setIfInBounds i ((n, k) :: m.buckets.getD i []) }

/-- first success of a memo-threading function over a list of candidates -/
def firstSomeM {α β M} (f : α → M → Option β × M) : List α → M → Option β × M
  | [], m => (none, m)
  | a :: r, m =>
    match f a m with
    | (some b, m') => (some b, m')
    | (none, m') => firstSomeM f r m'

section
variable {σ Op Out P K : Type} [BEq Out] [BEq K] [Hashable K] (sem : Sem σ Op Out P K)

/-- admissible w.r.t. the look-ahead: a finished operation must show the result it will return -/
def pruneOk (u : Nat) (p : P) (evs : List (Event Op Out)) : Bool :=
  match sem.fin p, nextRet u evs with
  | some o, some o' => o == o'
  | _, _ => true

/-- every pending operation is unfinished and cannot move -/
def quiescent (s : σ) (pend : Pend P) : Bool :=
  pend.all fun x => (sem.fin x.2).isNone && (sem.micro s x.2).isEmpty

/-- all (thread, step) candidates in state `s` -/
def candidates (s : σ) (pend : Pend P) : List (Nat × σ × P) :=
  pend.flatMap fun x => (sem.micro s x.2).map fun r => (x.1, r.1, r.2)

/-- Returns the final abstract state (and the operations still pending) of some explaining interleaving. -/
def search (quiesce : Bool) : Nat → Memo K → σ → Pend P → List (Event Op Out) → Option (σ × Pend P) × Memo K
  | 0, m, _, _, _ => (none, m)
  | fuel + 1, m, s, pend, [] =>
    if !quiesce || quiescent sem s pend then (some (s, pend), m)
    else if m.contains 0 (sem.key s pend) then (none, m)
    else
      match firstSomeM (fun (c : Nat × σ × P) m => search quiesce fuel m c.2.1 (setP c.1 c.2.2 pend) [])
              (candidates sem s pend) m with
      | (some r, m') => (some r, m')
      | (none, m') => (none, m'.insert 0 (sem.key s pend))
  | fuel + 1, m, s, pend, .call t op :: rest =>
    match lookup t pend with
    | some _ => (none, m)     -- malformed: the thread already has an operation in flight
    | none => search quiesce fuel m s ((t, sem.fresh t op) :: pend) rest
  | fuel + 1, m, s, pend, .ret t out :: rest =>
    match lookup t pend with
    | none => (none, m)
    | some p =>
      match sem.fin p with
      | some o =>
        if o == out then
          match search quiesce fuel m (sem.retire s p) (erase t pend) rest with
          | (some r, m') => (some r, m')
          | (none, m') =>
            -- The return event itself changes the state (`retire`: "one fewer send in flight"), so steps of the
            -- OTHER pending operations that are enabled only before it (a receive that stops at the hole of an
            -- in-flight send) do not commute to the right over it: before giving up, try them first.
            let n := rest.length + 1
            if m'.contains n (sem.key s pend) then (none, m')
            else
              match firstSomeM (fun (c : Nat × σ × P) m =>
                      if pruneOk sem c.1 c.2.2 (.ret t out :: rest)
                      then search quiesce fuel m c.2.1 (setP c.1 c.2.2 pend) (.ret t out :: rest) else (none, m))
                    (candidates sem s pend) m' with
              | (some r, m'') => (some r, m'')
              | (none, m'') => (none, m''.insert n (sem.key s pend))
        else (none, m)
      | none =>
        let n := rest.length + 1
        if m.contains n (sem.key s pend) then (none, m)
        else
          match firstSomeM (fun (c : Nat × σ × P) m =>
                  if pruneOk sem c.1 c.2.2 (.ret t out :: rest)
                  then search quiesce fuel m c.2.1 (setP c.1 c.2.2 pend) (.ret t out :: rest) else (none, m))
                (candidates sem s pend) m with
          | (some r, m') => (some r, m')
          | (none, m') => (none, m'.insert n (sem.key s pend))

/-- Declarative linearizability: an interleaving of micro-steps explaining the history, ending in
state `sf` with the operations `pf` still pending. -/
inductive Lin : σ → Pend P → List (Event Op Out) → σ → Pend P → Prop where
  | nil (s pend) : Lin s pend [] s pend
  | call {s pend t op rest sf pf} : lookup t pend = none → Lin s ((t, sem.fresh t op) :: pend) rest sf pf →
      Lin s pend (.call t op :: rest) sf pf
  | ret {s pend t p out rest sf pf} : lookup t pend = some p → sem.fin p = some out →
      Lin (sem.retire s p) (erase t pend) rest sf pf → Lin s pend (.ret t out :: rest) sf pf
  | step {s pend u pu s' pu' evs sf pf} : lookup u pend = some pu → (s', pu') ∈ sem.micro s pu →
      Lin s' (setP u pu' pend) evs sf pf → Lin s pend evs sf pf

end

end Fv.Chan.LinCore
