/-
Generic linearizability search over a *micro-step* operational semantics.

An API call is a small state machine `P` (pending-operation state): created by `fresh op` at
its call event, advanced by `micro s p = some (s', p')` (one atomic effect on the shared
abstract state `σ`; `none` = cannot move in this state, e.g. a blocking send on a full
channel), and `fin p = some out` once its result is determined.  Single-effect operations
take one micro-step; blocking batch operations and rendezvous hand-offs take several, which is
exactly why they are not atomic in the implementation either.

`search` decides whether a concurrent history (call / return events in real-time order) can be
explained: micro-steps of pending operations are interleaved arbitrarily, each operation's
steps lie between its call and its return, and the returned result must be the computed one.
Operations that never return may have taken any number of their steps (including none).
W.l.o.g. steps are taken "just in time", immediately before a return event that needs them
(steps commute to the right over call events and over return events of already finished
operations), so the search branches only there.

`Lin` is the declarative version; soundness `search … = some s' → Lin …` is in Fv/Lemmas/ChanLin.lean.
Import-free (linked into `fvdrv_chan`).
-/
namespace Fv.Chan.LinCore

inductive Event (Op Out : Type) where
  | call (t : Nat) (op : Op)
  | ret (t : Nat) (out : Out)
  deriving Repr

structure Sem (σ Op Out P : Type) where
  fresh : Nat → Op → P
  /-- the possible atomic steps of a pending operation (empty = it cannot move now) -/
  micro : σ → P → List (σ × P)
  fin : P → Option Out
  /-- bookkeeping at the return event (e.g. "one fewer send in flight") -/
  retire : σ → P → σ

abbrev Pend (P : Type) := List (Nat × P)

def lookup {P} (t : Nat) : Pend P → Option P
  | [] => none
  | (u, p) :: r => if u = t then some p else lookup t r

def erase {P} (t : Nat) : Pend P → Pend P
  | [] => []
  | (u, p) :: r => if u = t then r else (u, p) :: erase t r

def setP {P} (t : Nat) (q : P) : Pend P → Pend P
  | [] => []
  | (u, p) :: r => if u = t then (u, q) :: r else (u, p) :: setP t q r

/-- first return event of thread `t` in the rest of the history (look-ahead used for pruning only) -/
def nextRet {Op Out} (t : Nat) : List (Event Op Out) → Option Out
  | [] => none
  | .ret u o :: r => if u = t then some o else nextRet t r
  | .call u _ :: r => if u = t then none else nextRet t r

section
variable {σ Op Out P : Type} [BEq Out] (sem : Sem σ Op Out P)

/-- admissible w.r.t. the look-ahead: a finished operation must show the result it will return -/
def pruneOk (u : Nat) (p : P) (evs : List (Event Op Out)) : Bool :=
  match sem.fin p, nextRet u evs with
  | some o, some o' => o == o'
  | _, _ => true

def firstSome {α β} (f : α → Option β) : List α → Option β
  | [] => none
  | a :: r => match f a with
    | some b => some b
    | none => firstSome f r

/-- Returns the final abstract state of some explaining interleaving. -/
def search : Nat → σ → Pend P → List (Event Op Out) → Option σ
  | 0, _, _, _ => none
  | _ + 1, s, _, [] => some s
  | fuel + 1, s, pend, .call t op :: rest => search fuel s ((t, sem.fresh t op) :: pend) rest
  | fuel + 1, s, pend, .ret t out :: rest =>
    match lookup t pend with
    | none => none
    | some p =>
      match sem.fin p with
      | some o => if o == out then search fuel (sem.retire s p) (erase t pend) rest else none
      | none =>
        firstSome (fun (x : Nat × P) =>
          firstSome (fun (r : σ × P) =>
            if pruneOk sem x.1 r.2 (.ret t out :: rest) then search fuel r.1 (setP x.1 r.2 pend) (.ret t out :: rest) else none)
            (sem.micro s x.2)) pend

/-- Declarative linearizability (existence of an interleaving of micro-steps). -/
inductive Lin : σ → Pend P → List (Event Op Out) → Prop where
  | nil (s pend) : Lin s pend []
  | call {s pend t op rest} : Lin s ((t, sem.fresh t op) :: pend) rest → Lin s pend (.call t op :: rest)
  | ret {s pend t p out rest} : lookup t pend = some p → sem.fin p = some out →
      Lin (sem.retire s p) (erase t pend) rest → Lin s pend (.ret t out :: rest)
  | step {s pend u pu s' pu' evs} : lookup u pend = some pu → (s', pu') ∈ sem.micro s pu →
      Lin s' (setP u pu' pend) evs → Lin s pend evs

theorem lookup_of_mem {pend : Pend P} {u : Nat} {pu : P} (h : (u, pu) ∈ pend) :
    ∃ q, lookup u pend = some q := by
  induction pend with
  | nil => cases h
  | cons a r ih =>
    obtain ⟨v, pv⟩ := a
    simp only [lookup]
    by_cases hv : v = u
    · simp [hv]
    · simp only [hv, if_false]
      rcases List.mem_cons.mp h with h | h
      · cases h; exact absurd rfl hv
      · exact ih h

end

end Fv.Chan.LinCore
