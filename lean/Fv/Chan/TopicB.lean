import Fv.Chan.Topic
/-
Topic pub/sub — model B: `send` at mailbox-lock granularity, everything else atomic.

`TopicSender::send` is not one atomic action: it (1) checks its own `closed` flag and
`receiver_count`, pins the map, enters the left-right read side and CLONES the subscriber list of
the topic (the snapshot), then (2) for every entry of the snapshot, one after the other, upgrades
the weak pointer, takes that mailbox's mutex and runs `deliver`. Between two such visits any
other thread may subscribe, unsubscribe, receive, clone, close, drop, or publish.
B has one step for (1) (`begin`) and one step per visited mailbox (`deliver`); a publisher
thread is in at most one `send` at a time (program order). Every other API call is one atomic
step (`api`): subscribe/unsubscribe publish their change to readers at one instant (the
left-right `live_idx` store, under the writer lock), the receive forms run under one mailbox
mutex, the handle counters are single atomic updates, and a sender's `close_internal` only sets
monotone per-mailbox flags. A receiver that finds its mailbox empty inside a blocking receive form
registers itself as the waiter, RELEASES the mailbox mutex and only then parks (`park`); it comes
back by `wake` (unpark, timeout) and re-runs the receive form. B also has a step the code does
NOT have, `parkHolding`: parking with the mutex still held (what `recv_sync`/`recv_timeout_sync`
would do without their `drop(guard)`); it exists so that "publishing never blocks" can be seen
to DEPEND on the release: `deliver` needs the mutex of the mailbox it visits. That granularity is an assumption of B (tied to the code by the
real-thread stress monitors only, not by the differential run).

History variables (they never influence the run): the log of accepted publishes with the
snapshot each one took and the subscription facts at that instant, per mailbox the list of
publish ids that entered it, per receiver what it obtained.
-/
namespace Fv.Chan.TopicB
open Fv.Chan.Topic

/-- a `send` in progress -/
structure Flight where
  tid : Nat          -- publishing thread
  pid : Nat          -- index of this publish in the log
  t : Topic
  v : Val
  rem : List Nat     -- entries of the snapshot not visited yet
  deriving DecidableEq, Repr

/-- one accepted publish, with the facts at its snapshot instant -/
structure BPub where
  tid : Nat
  t : Topic
  v : Val
  snapshot : List Nat            -- the cloned subscriber list
  subscribed : Nat → Bool        -- receiver subscribed to `t` per the API contract at that instant

inductive BOp where
  | api (op : Op)                                   -- any call other than `send`, atomic
  | begin (tid h : Nat) (t : Topic) (v : Val)       -- `send`: checks + snapshot
  | deliver (tid : Nat)                             -- `send`: visit the next mailbox / return Ok
  | park (r : Nat)                                  -- blocking receive on an empty mailbox: register, unlock, park
  | wake (r : Nat)                                  -- unpark / timeout: the receiver runs again
  | parkHolding (r : Nat)                           -- NOT a step of the code: park without releasing the mutex
  deriving DecidableEq, Repr

structure BSt where
  q : St
  flights : List Flight
  pubs : List BPub                -- ghost
  acc : Nat → List Nat            -- ghost: publish ids that entered mailbox m, in arrival order
  got : Nat → List Msg            -- ghost: what receiver r obtained, in order
  parked : List Nat               -- receivers parked inside a blocking receive form
  held : List Nat                 -- mailboxes whose mutex is held across steps (always [] for the code's steps)

def binit (cap : Nat) (k : Kind) : BSt :=
  { q := init cap k, flights := [], pubs := [], acc := fun _ => [], got := fun _ => [], parked := [], held := [] }

def flightOf (fs : List Flight) (tid : Nat) : Option Flight := fs.find? (fun f => f.tid == tid)

def isSend : Op → Bool
  | .send .. => true
  | _ => false

def recordGot (got : Nat → List Msg) : Option Nat → Res → (Nat → List Msg)
  | some r, .msg t v => fun x => if x = r then got x ++ [(t, v)] else got x
  | _, _ => got

/-- an atomic non-send API call -/
def bapi (b : BSt) (op : Op) : BSt :=
  if isSend op then b
  else { b with q := (step b.q op).1, got := recordGot b.got (recvTarget op) (step b.q op).2 }

def bbegin (b : BSt) (tid h : Nat) (t : Topic) (v : Val) : BSt :=
  match flightOf b.flights tid with
  | some _ => b                                   -- that thread is still inside a send
  | none =>
    match txLive b.q h with
    | none => b
    | some x =>
      if x.closed || b.q.rcount == 0 then b        -- Err(Closed)
      else
        let snap := subsOf b.q t
        { b with flights := b.flights ++ [{ tid := tid, pid := b.pubs.length, t := t, v := v, rem := snap }],
                 pubs := b.pubs ++ [{ tid := tid, t := t, v := v, snapshot := snap,
                                      subscribed := fun r => subscribedTo b.q r t }] }

/-- one visit of `send`'s loop: upgrade the weak pointer, lock that mailbox, `deliver` -/
def visitQ (q : St) (m : Nat) (msg : Msg) : St :=
  { q with rxs := modAt q.rxs m (fun x => if x.live then deliver msg x else x) }

/-- did mailbox `m` take the message in that visit -/
def grewAt (q q' : St) (m : Nat) : Bool := decide ((bufOf q' m).length = (bufOf q m).length + 1)

def bumpAcc (acc : Nat → List Nat) (m pid : Nat) (grew : Bool) : Nat → List Nat :=
  fun x => if x = m ∧ grew = true then acc x ++ [pid] else acc x

def bdeliver (b : BSt) (tid : Nat) : BSt :=
  match flightOf b.flights tid with
  | none => b
  | some f =>
    match f.rem with
    | [] => { b with flights := b.flights.filter (fun g => g.tid != tid) }     -- Ok(())
    | m :: rest =>
      if b.held.contains m then b       -- the mailbox mutex is not available: the send waits
      else
      { b with q := visitQ b.q m (f.t, f.v),
               flights := b.flights.map (fun g => if g.tid == tid then { g with rem := rest } else g),
               acc := bumpAcc b.acc m f.pid (grewAt b.q (visitQ b.q m (f.t, f.v)) m) }

/-- a blocking receive form found the mailbox empty and not disconnected -/
def bpark (b : BSt) (r : Nat) (holding : Bool) : BSt :=
  match rxLive b.q r with
  | none => b
  | some x =>
    if x.buf.isEmpty && !x.disc then
      { b with parked := r :: b.parked, held := if holding then r :: b.held else b.held }
    else b

def bwake (b : BSt) (r : Nat) : BSt :=
  { b with parked := b.parked.filter (fun x => x != r), held := b.held.filter (fun x => x != r) }

def bstep (b : BSt) : BOp → BSt
  | .api op => bapi b op
  | .begin tid h t v => bbegin b tid h t v
  | .deliver tid => bdeliver b tid
  | .park r => bpark b r false
  | .wake r => bwake b r
  | .parkHolding r => bpark b r true

/-- the steps the code can take -/
def BOp.isCode : BOp → Bool
  | .parkHolding _ => false
  | _ => true

def brun (b : BSt) : List BOp → BSt
  | [] => b
  | o :: os => brun (bstep b o) os

def tidAt (pubs : List BPub) (i : Nat) : Nat :=
  match pubs[i]? with
  | some p => p.tid
  | none => 0

def msgAtB (pubs : List BPub) (i : Nat) : Msg :=
  match pubs[i]? with
  | some p => (p.t, p.v)
  | none => (0, 0)

end Fv.Chan.TopicB
