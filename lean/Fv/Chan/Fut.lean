import Fv.Chan.Lin
/-
Manual-poll futures (C06) on top of the channel model.

A future `f<i> = send_fut h v | send_batch_fut h vs | recv_fut h | recv_batch_fut h n` is the same
operation state machine `P` as the blocking form it comes from, but it only moves while it is being
polled: `poll f` runs its steps until it finishes (`ready:<result>`) or cannot move (`pending`).
`dropfut f` cancels it: what it still holds is dropped with it, its rendezvous waiter record is
unlinked (with the same cancel-CAS-outside-the-lock window as the timed receive, F1).
`wakes f => n:0` / `dropfut f => ok` (not woken) on a future that was polled and is still pending
says: no wake-up was delivered since that poll — the model then requires the future to be *disabled*
(no possible step), which is the property; a pending, enabled, unwoken future is a lost wakeup
(F2, F14 in the code as it stands).  Two refinements keep this from being stricter than the code's
wake-ONE protocol (`noWakeOk`): the one wake-up per freed slot / new item may sit with another
registered future of the same direction (`wakeHeld`), and nothing is demanded while an operation of
another thread is still in flight (`busy`; the notification is the last step of a send / receive).
The wrapper state keeps the futures next to the channel state `St`; ordinary operations are delegated
to `Fv.Chan.micro` untouched.
-/
namespace Fv.Chan

inductive OpF where
  | base (op : Op)
  | fut (f : Nat) (inner : Op)
  | poll (f : Nat)
  | wakes (f : Nat)
  | dropfut (f : Nat)
  deriving DecidableEq, Repr, Inhabited, Hashable

structure FutE where
  id : Nat
  op : Op
  p : P
  polled : Bool := false      -- returned `pending` at least once (its waker is registered)
  done : Bool := false        -- resolved (`ready:`) — the name stays known
  deriving DecidableEq, Repr, Inhabited, Hashable

structure StF where
  s : St
  futs : List FutE := []
  /-- ordinary (non-future) operations of other threads that have started and not yet returned -/
  busy : Nat := 0
  deriving DecidableEq, Repr, Inhabited

inductive PF where
  | base (p : P)
  | start (t : Nat)
  | polling (t : Nat) (f : Nat)
  | dropping (t : Nat) (f : Nat)
  | fin (r : Res)
  deriving DecidableEq, Repr, Inhabited, Hashable

abbrev PLF := OpF × PF

def Op.handle? : Op → Option HName
  | .snd _ h _ | .rcv _ h _ | .clone h _ | .close h | .drop h | .probe _ h | .toAsync h | .toSync h => some h

def findF (fs : List FutE) (f : Nat) : Option FutE := fs.find? (fun e => e.id = f)
def setF (fs : List FutE) (f : Nat) (g : FutE → FutE) : List FutE := fs.map (fun e => if e.id = f then g e else e)

/-- live (unresolved) futures borrowing handle `h` -/
def busyH (x : StF) (h : HName) : Bool :=
  x.futs.any (fun e => !e.done && e.op.handle? == some h)

/-- handle types whose API takes `&mut self`: one live future, no other operation meanwhile -/
def mutApi (fl : Flavour) (hd : Handle) : Bool :=
  hd.isAsync && (fl.fam == .sb || fl.fam == .mu || fl.fam == .pu)

/-- harness-level refusal of an ordinary operation on a handle that a live future borrows -/
def busyRefusal (fl : Flavour) (x : StF) (op : Op) : Bool :=
  match op.handle? with
  | none => false
  | some h =>
    match findH x.s.hs h with
    | none => false
    | some hd =>
      busyH x h &&
        (mutApi fl hd ||
          match op with
          | .drop _ | .toAsync _ | .toSync _ => true
          | .snd .send _ _ => fl.fam == .os
          | _ => false)

def futSupported (fl : Flavour) (hd : Handle) (inner : Op) : Bool :=
  match inner with
  | .snd f _ _ => hd.name.side == .tx && hd.isAsync && fl.fam != .os && (f == .send || (f == .sendBatch && fl.fam != .rv))
  | .rcv f _ _ => hd.name.side == .rx && hd.isAsync && (f == .recv || (f == .recvBatch && fl.fam != .rv && fl.fam != .os))
  | _ => false

/-- is the future unable to move in this state? -/
def stuckFut (fl : Flavour) (cfg : Cfg) (s : St) (e : FutE) : Bool :=
  -- judged with the exact window: "enabled" is the property's notion, not the stale one of F14
  e.p.out?.isNone && (micro fl { cfg with hot := false } s e.p).isEmpty

def FutE.isSend (e : FutE) : Bool :=
  match e.op with
  | .snd _ _ _ => true
  | _ => false

/-- Wake-one: the other live futures of the same direction that were polled (their waker is registered),
are unresolved and could move now — a wake-up that was issued for a freed slot / a new item may be
sitting with one of them (woken, not polled again yet). -/
def wakeHolders (fl : Flavour) (cfg : Cfg) (x : StF) (e : FutE) : Nat :=
  (x.futs.filter fun e' =>
    e'.id != e.id && !e'.done && e'.polled && (e'.isSend == e.isSend) && !stuckFut fl cfg x.s e').length

/-- Every unit this future could take (free slots for a send, buffered items for a receive) may have
had its one wake-up delivered to another registered future of the same direction: the channels wake
ONE waiter per freed slot / per item (mpmc `try_recv_core` / `try_send_core` signal the first WAITING
record, the chains pop one waiter), and a registered mpmc send future that is polled again without
having been signalled stays Pending without looking at the queue (mpmc_v2/async_impl.rs:69-101).
Only the buffered families can have several live futures of one direction. -/
def wakeHeld (fl : Flavour) (cfg : Cfg) (x : StF) (e : FutE) : Bool :=
  decide (wakeHolders fl cfg x e > 0) &&
    (match fl.fam with
     | .sb | .mb | .mu | .pb | .pu =>
       decide ((if e.isSend then (match room fl x.s with | some r => r | none => wakeHolders fl cfg x e + 1)
                else x.s.buf.length) ≤ wakeHolders fl cfg x e)
     | _ => false)

/-- "No wake-up since the last poll" (`wakes f => n:0`, `dropfut f => ok`) is admissible for a future that
is not owed one: resolved, never polled, disabled; or whose wake-up may sit with another registered
future (`wakeHeld`); or while an operation of another thread is still in flight (the notification is
the last thing a send / receive does: the item is visible before the waiter is woken). -/
def noWakeOk (fl : Flavour) (cfg : Cfg) (x : StF) (e : FutE) : Bool :=
  !cfg.wakeRule || e.done || !e.polled || stuckFut fl cfg x.s e || wakeHeld fl cfg x e || decide (x.busy > 0)

/-- what dropping a future does to the channel state: its in-hand values are dropped with it; a parked
rendezvous sender record is unlinked (its item dropped), a receiver record is unlinked -/
def dropFutState (s : St) (e : FutE) (t : Nat) : St :=
  match e.p with
  | .fresh _ op => (s.create op.vals).lose op.vals
  | .bsend _ _ _ _ rest _ => s.lose rest
  | .bsendEnd _ _ _ rest => s.lose rest
  | .rvSend u v =>
    if s.sw.any (fun x => x.1 == u) then
      { (s.lose [v]) with sw := s.sw.filter (fun x => x.1 != u) }
    else if (u, v) ∈ s.sdisc then { (s.lose [v]) with sdisc := s.sdisc.erase (u, v) }
    else { s with sdone := s.sdone.erase (u, v) }
  | .rvRecv u => { s with rw := s.rw.filter (fun x => x.1 != u), rcanc := s.rcanc.erase u, rdisc := s.rdisc.erase u }
  | _ => s
  where _t := t

/-- thread id under which a future's own waiter records are filed -/
def futTid (f : Nat) : Nat := 1000 + f

def microF (fl : Flavour) (cfg : Cfg) (x : StF) : PLF → List (StF × PF)
  | (.base op, .start t) =>
    if busyRefusal fl x op then [({ x with busy := x.busy + 1 }, .fin { tag := .busy })]
    else
      -- harness: a form the handle type does not have falls through to the consuming forms, which are
      -- refused while a future borrows the handle
      let viaCall := match op with
        | .snd _ _ _ | .rcv _ _ _ | .probe _ _ | .close _ => true
        | _ => false
      (micro fl cfg x.s (.fresh t op)).map (fun r =>
        match r.2 with
        | .fin o =>
          if o.tag == .unsupported && viaCall && (op.handle?.map (busyH x)).getD false then ({ x with busy := x.busy + 1 }, PF.fin { tag := .busy })
          else ({ x with s := r.1, busy := x.busy + 1 }, .base r.2)
        | _ => ({ x with s := r.1, busy := x.busy + 1 }, .base r.2))
  | (.base _, .base p) => (micro fl cfg x.s p).map (fun r => ({ x with s := r.1 }, .base r.2))
  | (.fut f inner, .start _) =>
    if (findF x.futs f).isSome then [(x, .fin { tag := .nameExists })]
    else match inner.handle? with
      | none => [(x, .fin { tag := .unsupported })]
      | some h =>
        match findH x.s.hs h with
        | none => [(x, .fin { tag := .noHandle })]
        | some hd =>
          if mutApi fl hd && busyH x h then [(x, .fin { tag := .busy })]
          else if !futSupported fl hd inner then [(x, .fin { tag := .unsupported })]
          else [({ x with futs := x.futs ++ [{ id := f, op := inner, p := .fresh (futTid f) inner }] }, .fin { tag := .ok })]
  | (.poll f, .start t) =>
    match findF x.futs f with
    | none => [(x, .fin { tag := .noFut })]
    | some e => if e.done then [(x, .fin { tag := .futDone })] else [(x, .polling t f)]
  | (.poll _, .polling t f) =>
    match findF x.futs f with
    | none => []
    | some e =>
      match e.p.out? with
      | some o => [({ x with futs := setF x.futs f (fun e => { e with done := true }) }, .fin (observe e.op o))]
      | none =>
        let steps := (micro fl cfg x.s e.p).map (fun r => ({ x with s := r.1, futs := setF x.futs f (fun e => { e with p := r.2 }) }, PF.polling t f))
        if steps.isEmpty then [({ x with futs := setF x.futs f (fun e => { e with polled := true }) }, .fin { tag := .pending })]
        else
          -- a registered future polled again (spuriously): it may stay Pending although it could move if the
          -- wake-ups for everything it could take may sit with other registered futures (wake-one)
          steps ++ (if e.polled && wakeHeld fl cfg x e then [(x, .fin { tag := .pending })] else [])
  | (.wakes f, .start _) =>
    match findF x.futs f with
    | none => [(x, .fin { tag := .noFut })]
    | some e =>
      -- `val = .b false`: "no wake since the last poll" — admissible only for a future that is not owed one
      [(x, .fin { tag := .ok })] ++
        (if noWakeOk fl cfg x e then [(x, .fin { tag := .ok, val := .b false })] else [])
  | (.dropfut f, .start t) =>
    match findF x.futs f with
    | none => [(x, .fin { tag := .noFut })]
    | some e =>
      if e.done then [({ x with futs := x.futs.filter (fun e => e.id != f) }, .fin { tag := .ok }),
                      ({ x with futs := x.futs.filter (fun e => e.id != f) }, .fin { tag := .ok, val := .b false })]
      else
        match e.p with
        | .rvRecv u =>
          -- cancel CAS first (outside the lock), unlink in a second step (F1 window)
          if (x.s.rdone.any (fun y => y.1 == u)) || x.s.rdisc.contains u then
            [({ x with s := dropFutState x.s e t, futs := x.futs.filter (fun e => e.id != f) }, .fin { tag := .ok })]
          else [({ x with s := { x.s with rcanc := x.s.rcanc ++ [u] } }, .dropping t f)]
        | _ =>
          let x' : StF := { x with s := dropFutState x.s e t, futs := x.futs.filter (fun e => e.id != f) }
          [(x', .fin { tag := .ok })] ++
            (if noWakeOk fl cfg x e then [(x', .fin { tag := .ok, val := .b false })] else [])
  | (.dropfut _, .dropping t f) =>
    match findF x.futs f with
    | none => []
    | some e =>
      let x' : StF := { x with s := dropFutState x.s e t, futs := x.futs.filter (fun e => e.id != f) }
      [(x', .fin { tag := .ok })] ++
        (if noWakeOk fl cfg x e then [(x', .fin { tag := .ok, val := .b false })] else [])
  | _ => []

def finF : PLF → Option Res
  | (.base op, .base p) => p.out?.map (fun o => observe op o)
  | (_, .fin r) => some r
  | _ => none

abbrev KeyF := Core × List FutE × List (Nat × PLF)

instance : BEq KeyF := ⟨fun a b => decide (a = b)⟩

def semF (fl : Flavour) (cfg : Cfg) : LinCore.Sem StF OpF Res PLF KeyF where
  fresh t op := (op, .start t)
  micro x p := (microF fl cfg x p).map (fun r => (r.1, (p.1, r.2)))
  fin p := (finF p).map (fun r => match p.1 with
    | .base op => normRes fl op r
    | _ => r)
  retire x p := match p.1 with
    | .base op => { x with s := retire fl cfg x.s op, busy := x.busy - 1 }
    | _ => x
  key x pend := (x.s.core, x.futs, pend)

abbrev EvF := LinCore.Event OpF Res
abbrev HistoryF := List EvF

def HistoryF.fuel (h : HistoryF) : Nat :=
  h.foldl (fun acc e => acc + match e with
    | .call _ (.base op) => op.size + 6
    | .call _ (.fut _ op) => op.size + 6
    | .call _ _ => 12
    | .ret _ _ => 1) 8

def linearizeF (fl : Flavour) (cfg : Cfg) (h : HistoryF) (quiesce : Bool := false) :
    Option (StF × LinCore.Pend PLF) :=
  (LinCore.search (semF fl cfg) quiesce (h.fuel * 4) {} { s := init fl } [] h).1

end Fv.Chan
