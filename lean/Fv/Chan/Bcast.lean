import Fv.Chan.Seq
/-
Q for the broadcast channel (`fibre::spmc`, spmc/ring_buffer.rs): one API call run to completion
with nobody else running.  Each receiver has a cursor into the sequence of sent values; the sender is
held back by the slowest *registered* cursor.  What the code does not get right is modelled as it is:
`to_async`/`to_sync` reset the own `closed` flag; `clone` of a closed (unregistered) receiver registers
a cursor cell holding the parent's stale cursor (finding SpmcB-N1: `len > capacity`, lapped reads).
-/
namespace Fv.Chan

abbrev BSt := BroadcastSpec

def binit (cap : Nat) (isAsync : Bool) : BSt :=
  { cap := cap, rxs := [⟨0, 0, false, true, isAsync⟩], txAsync := isAsync, born := [(0, 0)] }

def bfind (b : BSt) (i : Nat) : Option BHandle := b.rxs.find? (fun r => r.idx = i)
def bset (b : BSt) (i : Nat) (f : BHandle → BHandle) : BSt :=
  { b with rxs := b.rxs.map (fun r => if r.idx = i then f r else r) }

def BSt.noReceivers (b : BSt) : Bool := b.cursors.isEmpty

/-- `head − min_tail ≥ cap` -/
def BSt.isFullB (b : BSt) : Bool := decide (b.head - b.minCursor ≥ b.cap)

def BSt.write (b : BSt) (vs : List Val) : BSt := { b with sent := b.sent ++ vs }

def bFailSend (b : BSt) (f : Form) (tag : Tag) (sent rest : List Val) : BSt × Out :=
  if f = .send then ({ b with lost := b.lost ++ rest }, { tag := tag, sent := sent, lost := rest })
  else ({ b with returned := b.returned ++ rest }, { tag := tag, sent := sent, back := rest })

/-- order of the early checks of a batch send form (ring_buffer.rs): empty first everywhere except
that the async futures test `sent == total` first as well -/
def bSend (b : BSt) (f : Form) (vs : List Val) : BSt × Out :=
  let b1 := { b with created := b.created ++ vs }
  if f.isBatch ∧ vs.isEmpty then (b1, { tag := .ok })
  else if b.txClosed then bFailSend b1 f .closed [] vs
  else if b.noReceivers then bFailSend b1 f .closed [] vs
  else
    let k := min b.room vs.length
    if k = vs.length then (b1.write vs, { tag := .ok, sent := vs })
    else if f.blocking then ((b1.write (vs.take k)), blocksOut)
    else match f with
      | .trySendBatchMut =>
        ({ (b1.write (vs.take k)) with returned := b.returned ++ vs.drop k }, { tag := .ok, sent := vs.take k, back := vs.drop k })
      | _ => bFailSend (b1.write (vs.take k)) f .full (vs.take k) (vs.drop k)

/-- can the receiver with cursor `c` read index `c`?  (`slot.seq == 2c+1`: written and not overwritten) -/
def BSt.readable (b : BSt) (c : Nat) : Bool := decide (c < b.head) && decide (b.head - c ≤ b.cap)

def bRecvOne (b : BSt) (r : BHandle) (f : Form) : BSt × Out :=
  if b.readable r.cursor then
    let v := b.sent.getD r.cursor 0
    ({ (bset b r.idx (fun x => { x with cursor := x.cursor + 1 })) with recvd := b.recvd ++ [(r.idx, v)] },
     { tag := .ok, got := [v] })
  else if b.producerGone ∧ r.cursor ≥ b.head then (b, { tag := .disconnected })
  else match f with
    | .tryRecv => (b, { tag := .empty })
    | .recvTimeout0 => (b, { tag := .timeout })
    | _ => (b, blocksOut)

/-- batch receive tests `head`, not the slot sequence (ring_buffer.rs:587-629): a lapped (stale) cursor
reads whatever the slots hold now -/
def bRecvBatch (b : BSt) (r : BHandle) (f : Form) (n : Nat) : BSt × Out :=
  if b.head ≤ r.cursor then
    if b.producerGone then (b, { tag := .disconnected })
    else if f.blocking then (b, blocksOut) else (b, { tag := .empty })
  else
    let k := min (b.head - r.cursor) n
    let got := (List.range k).map (fun i => b.sent.getD (b.slotIdx (r.cursor + i)) 0)
    ({ (bset b r.idx (fun x => { x with cursor := x.cursor + k })) with recvd := b.recvd ++ got.map (fun v => (r.idx, v)) },
     { tag := .ok, got := got })

def bRecv (b : BSt) (r : BHandle) (f : Form) (n : Nat) : BSt × Out :=
  if !f.isBatch then
    if r.closed then (b, { tag := .disconnected }) else bRecvOne b r f
  else
    -- sync and try forms: `n == 0` before the own flag; async futures: own flag first (ring_buffer.rs:1922,1956)
    let asyncFut := r.isAsync && f.blocking
    if asyncFut ∧ r.closed then (b, { tag := .disconnected })
    else if n = 0 then (b, { tag := .ok })
    else if r.closed then (b, { tag := .disconnected })
    else bRecvBatch b r f n

def bSupports (isAsync : Bool) (f : Form) : Bool := !(f == .recvTimeout0 && isAsync)

/-- Q for the broadcast channel -/
def stepB (b : BSt) : Op → BSt × Out
  | .snd f h vs =>
    if h ≠ ⟨.tx, 0⟩ ∨ !b.txAlive then (b, { tag := .noHandle })
    else if !f.isSend ∨ (!f.isBatch ∧ vs.length ≠ 1) then (b, { tag := .unsupported })
    else bSend b f vs
  | .rcv f h n =>
    if h.side ≠ .rx then (if h = ⟨.tx, 0⟩ ∧ b.txAlive then (b, { tag := .unsupported }) else (b, { tag := .noHandle }))
    else match bfind b h.idx with
      | none => (b, { tag := .noHandle })
      | some r => if f.isSend ∨ !bSupports r.isAsync f then (b, { tag := .unsupported }) else bRecv b r f n
  | .clone h h' =>
    match h.side, h'.side with
    | .rx, .rx =>
      match bfind b h'.idx, bfind b h.idx with
      | some _, _ => (b, { tag := .nameExists })
      | none, none => (b, { tag := .noHandle })
      | none, some r =>
        -- no look at `closed` / registration of the source: the new cell is registered with the source's cursor
        ({ b with rxs := b.rxs ++ [⟨h'.idx, r.cursor, false, true, r.isAsync⟩], born := b.born ++ [(h'.idx, r.cursor)] },
         { tag := .ok })
    | _, _ =>
      if (h'.side = .tx ∧ h'.idx = 0 ∧ b.txAlive) ∨ (h'.side = .rx ∧ (bfind b h'.idx).isSome) then (b, { tag := .nameExists })
      else if h = ⟨.tx, 0⟩ ∧ b.txAlive then (b, { tag := .unsupported })
      else if h.side = .rx ∧ (bfind b h.idx).isSome then (b, { tag := .unsupported })
      else (b, { tag := .noHandle })
  | .close h =>
    match h.side with
    | .tx =>
      if h.idx ≠ 0 ∨ !b.txAlive then (b, { tag := .noHandle })
      else if b.txClosed then (b, { tag := .closeErr })
      else ({ b with txClosed := true, producerGone := true }, { tag := .ok })
    | .rx =>
      match bfind b h.idx with
      | none => (b, { tag := .noHandle })
      | some r =>
        if r.closed then (b, { tag := .closeErr })
        else (bset b h.idx (fun x => { x with closed := true, registered := false }), { tag := .ok })
  | .drop h =>
    match h.side with
    | .tx =>
      if h.idx ≠ 0 ∨ !b.txAlive then (b, { tag := .noHandle })
      else ({ b with txAlive := false, producerGone := b.producerGone || !b.txClosed, txClosed := true }, { tag := .ok })
    | .rx =>
      match bfind b h.idx with
      | none => (b, { tag := .noHandle })
      | some r =>
        -- Drop: `if !closed.swap(true) { drop_receiver_internal }` — a converted closed handle unregisters nothing
        ({ b with rxs := b.rxs.filter (fun x => x.idx ≠ h.idx) }, { tag := .ok })
  | .toAsync h | .toSync h => (b, { tag := .unsupported })   -- refined below (`stepB'`)
  | .probe p h =>
    match h.side with
    | .tx =>
      if h.idx ≠ 0 ∨ !b.txAlive then (b, { tag := .noHandle })
      else match p with
        | .isClosed => (b, { tag := .ok, val := .b b.noReceivers })
        | .len => (b, { tag := .ok, val := .n (if b.noReceivers then 0 else b.head - b.minCursor) })
        | .isEmpty => (b, { tag := .ok, val := .b (b.noReceivers || b.head - b.minCursor == 0) })
        | .isFull => (b, { tag := .ok, val := .b (!b.noReceivers && b.head - b.minCursor == b.cap) })
        | .capacity => (b, { tag := .ok, val := .n b.cap })
        | _ => (b, { tag := .unsupported })
    | .rx =>
      match bfind b h.idx with
      | none => (b, { tag := .noHandle })
      | some r =>
        match p with
        | .isClosed => (b, { tag := .ok, val := .b (b.producerGone && decide (r.cursor ≥ b.head)) })
        | .len => (b, { tag := .ok, val := .n (b.head - r.cursor) })
        | .isEmpty => (b, { tag := .ok, val := .b (decide (r.cursor ≥ b.head)) })
        | .isFull => (b, { tag := .ok, val := .b (b.head - r.cursor == b.cap) })
        | .capacity => (b, { tag := .ok, val := .n b.cap })
        | _ => (b, { tag := .unsupported })

def bConvert (b : BSt) (h : HName) (toAsync : Bool) : BSt × Out :=
  match h.side with
  | .tx =>
    if h.idx ≠ 0 ∨ !b.txAlive then (b, { tag := .noHandle })
    else if b.txAsync = toAsync then (b, { tag := .unsupported })
    else ({ b with txAsync := toAsync, txClosed := false }, { tag := .ok })     -- mod.rs:131,147: closed = false
  | .rx =>
    match bfind b h.idx with
    | none => (b, { tag := .noHandle })
    | some r =>
      if r.isAsync = toAsync then (b, { tag := .unsupported })
      else (bset b h.idx (fun x => { x with isAsync := toAsync, closed := false }), { tag := .ok })   -- mod.rs:164,181

def stepB' (b : BSt) (op : Op) : BSt × Out :=
  match op with
  | .toAsync h => bConvert b h true
  | .toSync h => bConvert b h false
  | _ => stepB b op

def runB (b : BSt) : List Op → BSt
  | [] => b
  | op :: r => runB (stepB' b op).1 r

end Fv.Chan
