/-
STEP-LEVEL (layer B) model of fibre's oneshot channel:
  /repo/channels/src/oneshot/core.rs  `OneShotShared` (send, try_recv, poll_recv, decrement_senders,
                                      mark_receiver_dropped, Drop)
  /repo/channels/src/oneshot/mod.rs   `Sender` (send, close, is_closed, is_sent, Clone, Drop),
                                      `Receiver` (recv → `ReceiveFuture::poll`, try_recv, close, is_closed, Drop)

One step = ONE action of ONE handle: an atomic load / store / swap / CAS / fetch_add / fetch_sub on the
state word, `receiver_dropped`, `sender_count` or a handle's own `closed` flag, the `value_slot` mutex
lock / unlock, `thread::park` / `unpark` of the executor that drives `recv()`, or one of the three
actions that are NOT visible to the scheduler shim but are steps of their own here (so the model
explores more interleavings than the harness can produce):
  * `pReg`   `AtomicWaker::register`              (waker := the polling task's waker)
  * `wake`   `AtomicWaker::wake` = take + invoke  (waker := none; an executor waker then unparks its
                                                   thread — a visible `unpark` step —, a manual-poll
                                                   waker only counts)
  * `arcRel` release of the handle's `Arc` reference (the last one runs `OneShotShared::drop`).
`futures_util::AtomicWaker` is not fibre code: it is modelled by its contract (register / wake are
atomic). The slot write `*guard = Some(value)` and the `guard.take()` are folded into the `lock` step
that precedes them (they happen under the mutex).

AGENTS are HANDLES (`Ag`): the sender handles `S 0, S 1, …` (clones get the next free index; unbounded)
and the single receiver `R`. A handle is used by one thread at a time (Rust ownership for `send(self)`,
`Receiver: !Sync`; for `&self` methods of `Sender` it is the harness discipline — ASSUMPTION). Programs
are parameters: `progS i` is the op list run on sender handle `i` once it exists, `progR` the
receiver's. `recv t` is `block_on(rx.recv())` on executor thread `t` (poll, park while Pending);
`poll f` is one manual poll of future `f` with its own counting waker.

Memory is sequentially consistent; the ordering the code passes at each position is recorded by
`ordAt` / `ordFail` (compared with the implementation's on every replayed trace).

Ghost history: `sval i` value offered by handle `i`'s send, `sres i` its result once determined,
`mover` the handle whose value went into the slot, `moved received dropped` token sequences.
-/
namespace Fv.Chan.OneshotB

inductive Ag where
  | S (i : Nat)
  | R
deriving Repr, DecidableEq, Inhabited

/-- the 5-state word -/
inductive W where
  | empty | writing | sent | taken | closed
deriving Repr, DecidableEq, Inhabited

def W.toNat : W → Nat
  | .empty => 0 | .writing => 1 | .sent => 2 | .taken => 3 | .closed => 4

/-- `state >= STATE_SENT` -/
def W.geSent : W → Bool
  | .empty | .writing => false
  | _ => true

/-- registered waker: executor task of thread `t`, or the counting waker of manual future `f` -/
inductive Wk where
  | task (t : Nat)
  | fut (f : Nat)
deriving Repr, DecidableEq

inductive Op where
  -- sender handles
  | send (v : Nat)
  | clone
  | isSent
  -- both
  | close
  | drop
  | isClosed
  -- receiver
  | tryRecv
  | recv (t : Nat)
  | mkfut (f : Nat)
  | poll (f : Nat)
  | dropfut (f : Nat)
  | wakes (f : Nat)
deriving Repr, DecidableEq

inductive Res where
  | ok
  | okV (v : Nat)
  | closedV (v : Nat)      -- Err(TrySendError::Closed(v))
  | sentV (v : Nat)        -- Err(TrySendError::Sent(v))
  | empty
  | disc
  | closeErr
  | b (x : Bool)
  | n (k : Nat)
  | pending
  | woken                  -- `dropfut` of an unresolved future that had been woken
deriving Repr, DecidableEq

/-- which API call the handle is in -/
inductive K where
  | idle
  | send | clone | isSent | close | drop | isClosed
  | tryRecv | recv (t : Nat) | poll (f : Nat) | aux
deriving Repr, DecidableEq

/-- micro position = the NEXT action of the handle -/
inductive Mic where
  | idle
  -- Sender::send + OneShotShared::send
  | sLdOwn | sLdRdrop | sLdState | sCasEW | sLdRdrop2 | sStEmpty | sLock | sSwapSent | sUnlock
  -- AtomicWaker::wake (+ the executor waker's unpark)
  | wake | wkUnpark (t : Nat)
  -- close / Drop of a handle
  | cCasOwn | dSwapOwn
  -- OneShotShared::decrement_senders
  | dcFsub | dcCasEC | dcLdState | dcLdRdrop | dcCasST | dcLdState3 | dcLdState4
  -- claim-and-drop of an orphaned value (decrement_senders / Receiver::close_internal)
  | xLock | xUnlock
  -- Receiver::close_internal
  | ciStRdrop | ciCasEC | ciCasST
  -- Arc release, OneShotShared::drop
  | arcRel | fLdState
  -- probes / clone
  | clFadd | pbLdRdrop | pbLdState | icLdState | icLdCount
  -- Receiver::try_recv / ReceiveFuture::poll own-closed check
  | rLdOwn
  -- OneShotShared::try_recv
  | tLdState | tCasST | tLock | tStClosed | tUnlock | tLdState2 | tLdCount2 | tLdCount | tCasEC
  -- OneShotShared::poll_recv
  | pLdState | pLdCountA | pLdCountB | pCasEC | pReg
  | park
  | ret (r : Res)
deriving Repr, DecidableEq

structure Loc where
  k : K := .idle
  m : Mic := .idle
  v : Nat := 0            -- send: value in hand; try_recv: value taken
  ph : Bool := false      -- send: the body is over, `Drop for Sender` is running
  stage : Nat := 0        -- receiver: 0 = plain try_recv, 1 / 2 = first / second try_recv of a poll
  cur : W := .empty       -- last loaded state word
  res : Res := .ok        -- result to return once the trailing Drop is done
  q : Bool := false       -- ghost: when this receive was called the state was CLOSED, or EMPTY with sender_count 0
deriving Repr, DecidableEq

structure State where
  st : W
  slot : Option Nat
  locked : Bool
  waker : Option Wk
  rdrop : Bool
  scount : Nat
  closed : Ag → Bool           -- the handle's own `closed` flag
  tok : Nat → Bool             -- park token per executor thread
  fwakes : Nat → Nat           -- wakes of manual future f since its last poll
  fpend : Nat → Bool           -- manual future f exists and is unresolved
  freed : Bool                 -- OneShotShared::drop has run
  nextH : Nat                  -- sender handles created so far
  gone : Ag → Bool             -- handle consumed / dropped
  loc : Ag → Loc
  prog : Ag → List Op
  progS : Nat → List Op        -- parameter: program of sender handle i (installed at creation)
  -- ghost
  dec : Nat → Bool             -- sender handle i has done its `sender_count.fetch_sub`
  writer : Option Nat          -- sender between its successful CAS EMPTY→WRITING and the swap / backtrack
  taker : Option Ag            -- handle between its successful CAS SENT→TAKEN and its `guard.take()`
  closer : Option Nat          -- sender that took sender_count to 0 and has not yet tried EMPTY→CLOSED
  armed : Bool                 -- the registered waker belongs to a poll that has answered Pending
  reopened : Bool              -- some clone was made from a sender handle that had already been closed
  rClosedIt : Bool             -- the receiver itself moved the state word EMPTY→CLOSED
  sval : Nat → Option Nat
  sres : Nat → Option Res
  mover : Option Nat
  moved : List Nat
  received : List Nat
  dropped : List Nat
  results : Ag → List Res

def upd {α} (f : Ag → α) (a : Ag) (x : α) : Ag → α := fun q => if q = a then x else f q
def updN {α} (f : Nat → α) (i : Nat) (x : α) : Nat → α := fun j => if j = i then x else f j

def init (progS : Nat → List Op) (progR : List Op) : State :=
  { st := .empty, slot := none, locked := false, waker := none, rdrop := false, scount := 1,
    closed := fun _ => false, tok := fun _ => false, fwakes := fun _ => 0, fpend := fun _ => false,
    freed := false, nextH := 1, gone := fun _ => false, loc := fun _ => {},
    prog := fun a => match a with | .S 0 => progS 0 | .S _ => [] | .R => progR,
    progS := progS, dec := fun _ => false, writer := none, taker := none, closer := none, armed := false, reopened := false, rClosedIt := false,
    sval := fun _ => none, sres := fun _ => none, mover := none, moved := [], received := [], dropped := [],
    results := fun _ => [] }

/-- every handle created so far has released its `Arc` reference (`Arc` is modelled by its contract:
`OneShotShared::drop` runs when the last owner lets go) -/
def allGone (gone : Ag → Bool) (n : Nat) : Bool := gone .R && (List.range n).all (fun i => gone (.S i))

def setLoc (s : State) (a : Ag) (l : Loc) : State := { s with loc := upd s.loc a l }

/-- the sender handle index of an agent (0 for the receiver; only used on sender paths) -/
def Ag.idx : Ag → Nat
  | .S i => i
  | .R => 0

def Ag.isS : Ag → Bool
  | .S _ => true
  | .R => false

/-- nothing was sent and nothing can be: CLOSED, or EMPTY with every sender handle closed / dropped -/
def quiet (s : State) : Bool := decide (s.st = .closed ∨ (s.scount = 0 ∧ s.st = .empty))

/-! ### continuations -/

/-- the body of `send` has produced its result: `self` is dropped now -/
def sendDone (s : State) (a : Ag) (l : Loc) (r : Res) : State :=
  { s with sres := updN s.sres a.idx (some r), loc := upd s.loc a { l with ph := true, res := r, m := .dSwapOwn } }

/-- end of `close_internal` / of the `closed` test that skips it -/
def afterClose (l : Loc) : Loc :=
  match l.k with
  | .close => { l with m := .ret .ok }
  | _ => { l with m := .arcRel }

/-- after `receiver_waker.wake()` -/
def afterWake (l : Loc) : Loc :=
  if l.k = .send ∧ l.ph = false then { l with m := .sUnlock } else afterClose l

/-- result of `OneShotShared::try_recv` at its three call sites (`r` ∈ okV v | empty | disc). The second
try of a poll answering Empty is `Poll::Pending`: the registration made by this poll is now `armed`. -/
def afterTry (s : State) (a : Ag) (l : Loc) (r : Res) : State :=
  match l.stage, r with
  | 0, _ => setLoc s a { l with m := .ret r }
  | 1, .empty => setLoc s a { l with m := .pLdState }
  | _, .empty =>
    (match l.k with
     | .recv _ => { s with armed := true, loc := upd s.loc a { l with m := .park } }
     | _ => { s with armed := true, loc := upd s.loc a { l with m := .ret .pending } })
  | _, _ => setLoc s a { l with m := .ret r }

/-! ### steps -/

def stepCall (s : State) (a : Ag) : Option State :=
  match (s.loc a).m, s.prog a with
  | .idle, op :: rest =>
    if s.gone a then none else
    let s1 := { s with prog := upd s.prog a rest }
    match op, a with
    | .send v, .S i =>
      -- `send(self)` consumes the handle: one send per handle
      if s.sval i ≠ none then none else
      some { s1 with sval := updN s.sval i (some v), loc := upd s.loc a { k := .send, m := .sLdOwn, v := v } }
    | .clone, .S _ => some { s1 with loc := upd s.loc a { k := .clone, m := .clFadd } }
    | .isSent, .S _ => some { s1 with loc := upd s.loc a { k := .isSent, m := .pbLdState } }
    | .isClosed, .S _ => some { s1 with loc := upd s.loc a { k := .isClosed, m := .pbLdRdrop } }
    | .isClosed, .R => some { s1 with loc := upd s.loc a { k := .isClosed, m := .icLdState } }
    | .close, _ => some { s1 with loc := upd s.loc a { k := .close, m := .cCasOwn } }
    | .drop, _ => some { s1 with loc := upd s.loc a { k := .drop, m := .dSwapOwn } }
    | .tryRecv, .R => some { s1 with loc := upd s.loc a { k := .tryRecv, m := .rLdOwn, stage := 0, q := quiet s } }
    | .recv t, .R => some { s1 with loc := upd s.loc a { k := .recv t, m := .rLdOwn, stage := 1, q := quiet s } }
    | .poll f, .R =>
      if s.fpend f then some { s1 with fwakes := updN s.fwakes f 0, loc := upd s.loc a { k := .poll f, m := .rLdOwn, stage := 1, q := quiet s } }
      else none
    | .mkfut f, .R =>
      if s.fpend f then none
      else some { s1 with fpend := updN s.fpend f true, fwakes := updN s.fwakes f 0, loc := upd s.loc a { k := .aux, m := .ret .ok } }
    | .dropfut f, .R =>
      some { s1 with fpend := updN s.fpend f false,
                     loc := upd s.loc a { k := .aux, m := .ret (if s.fpend f ∧ s.fwakes f > 0 then .woken else .ok) } }
    | .wakes f, .R => some { s1 with loc := upd s.loc a { k := .aux, m := .ret (.n (s.fwakes f)) } }
    | _, _ => none
  | _, _ => none

def stepRet (s : State) (a : Ag) : Option State :=
  match (s.loc a).m with
  | .ret r =>
    let l := s.loc a
    let s1 := { s with results := upd s.results a (s.results a ++ [r]), loc := upd s.loc a {} }
    match l.k, r with
    | .poll _, .pending => some s1
    | .poll f, _ => some { s1 with fpend := updN s.fpend f false }
    | _, _ => some s1
  | _ => none

/-- `Sender::send` + `OneShotShared::send` -/
def stepSend (s : State) (a : Ag) : Option State :=
  let l := s.loc a
  match l.m with
  | .sLdOwn =>                                    -- self.closed.load(Relaxed)
    if s.closed a then some (sendDone s a l (.closedV l.v)) else some (setLoc s a { l with m := .sLdRdrop })
  | .sLdRdrop =>                                  -- receiver_dropped.load(Acquire)
    if s.rdrop then some (sendDone s a l (.closedV l.v)) else some (setLoc s a { l with m := .sLdState })
  | .sLdState =>                                  -- state.load(Acquire)
    if s.st.geSent then some (sendDone s a l (.sentV l.v)) else some (setLoc s a { l with m := .sCasEW })
  | .sCasEW =>                                    -- CAS EMPTY → WRITING (AcqRel / Acquire)
    if s.st = .empty then some { s with st := .writing, writer := some a.idx, loc := upd s.loc a { l with m := .sLdRdrop2 } }
    else some (sendDone s a l (.sentV l.v))
  | .sLdRdrop2 =>                                 -- receiver_dropped.load(Acquire) after the CAS
    if s.rdrop then some (setLoc s a { l with m := .sStEmpty }) else some (setLoc s a { l with m := .sLock })
  | .sStEmpty =>                                  -- state.store(EMPTY, Release): backtrack
    some (sendDone { s with st := .empty, writer := none } a l (.closedV l.v))
  | .sLock =>                                     -- value_slot.lock(); *guard = Some(value)
    if s.locked then none
    else some { s with locked := true, slot := some l.v, mover := some a.idx, moved := s.moved ++ [l.v],
                       loc := upd s.loc a { l with m := .sSwapSent } }
  | .sSwapSent =>                                 -- state.swap(SENT, AcqRel)
    some { s with st := .sent, writer := none, sres := updN s.sres a.idx (some .ok),
                  loc := upd s.loc a { l with res := .ok, m := .wake } }
  | .sUnlock =>                                   -- guard dropped at the end of the Ok arm
    some { s with locked := false, loc := upd s.loc a { l with ph := true, m := .dSwapOwn } }
  | _ => none

/-- `AtomicWaker::wake` (+ the executor waker's unpark) -/
def stepWk (s : State) (a : Ag) : Option State :=
  let l := s.loc a
  match l.m with
  | .wake =>
    match s.waker with
    | none => some (setLoc s a (afterWake l))
    | some (.task t) => some { s with waker := none, armed := false, loc := upd s.loc a { l with m := .wkUnpark t } }
    | some (.fut f) => some { s with waker := none, armed := false, fwakes := updN s.fwakes f (s.fwakes f + 1), loc := upd s.loc a (afterWake l) }
  | .wkUnpark t => some { s with tok := updN s.tok t true, loc := upd s.loc a (afterWake l) }
  | _ => none

/-- `close` / `Drop` of a handle, `decrement_senders` -/
def stepCl (s : State) (a : Ag) : Option State :=
  let l := s.loc a
  match l.m with
  | .cCasOwn =>                                   -- closed.compare_exchange(false, true, AcqRel, Relaxed)
    if s.closed a then some (setLoc s a { l with m := .ret .closeErr })
    else some { s with closed := upd s.closed a true, loc := upd s.loc a { l with m := if a.isS then .dcFsub else .ciStRdrop } }
  | .dSwapOwn =>                                  -- closed.swap(true, AcqRel)
    if s.closed a then some (setLoc s a { l with m := .arcRel })
    else some { s with closed := upd s.closed a true, loc := upd s.loc a { l with m := if a.isS then .dcFsub else .ciStRdrop } }
  | .dcFsub =>                                    -- sender_count.fetch_sub(1, AcqRel)
    if s.scount = 1 then
      some { s with scount := 0, dec := updN s.dec a.idx true, closer := some a.idx, loc := upd s.loc a { l with m := .dcCasEC } }
    else some { s with scount := s.scount - 1, dec := updN s.dec a.idx true, loc := upd s.loc a (afterClose l) }
  | .dcCasEC =>                                   -- CAS EMPTY → CLOSED (AcqRel / Relaxed)
    if s.st = .empty then some { s with st := .closed, closer := none, loc := upd s.loc a { l with m := .wake } }
    else some { s with closer := none, loc := upd s.loc a { l with m := .dcLdState } }
  | .dcLdState =>                                 -- state.load(Acquire) == SENT && …
    if s.st = .sent then some (setLoc s a { l with m := .dcLdRdrop }) else some (setLoc s a { l with m := .dcLdState3 })
  | .dcLdRdrop =>                                 -- … receiver_dropped.load(Acquire)
    if s.rdrop then some (setLoc s a { l with m := .dcCasST }) else some (setLoc s a { l with m := .dcLdState3 })
  | .dcCasST =>                                   -- CAS SENT → TAKEN (AcqRel / Relaxed)
    if s.st = .sent then some { s with st := .taken, taker := some a, loc := upd s.loc a { l with m := .xLock } }
    else some (setLoc s a (afterClose l))
  | .dcLdState3 =>                                -- state.load(Relaxed) != TAKEN && …
    if s.st = .taken then some (setLoc s a (afterClose l)) else some (setLoc s a { l with m := .dcLdState4 })
  | .dcLdState4 =>                                -- … state.load(Relaxed) != SENT
    if s.st = .sent then some (setLoc s a (afterClose l)) else some (setLoc s a { l with m := .wake })
  | _ => none

/-- claim-and-drop of an orphaned value, `Receiver::close_internal`, `Arc` release, `OneShotShared::drop` -/
def stepX (s : State) (a : Ag) : Option State :=
  let l := s.loc a
  match l.m with
  | .xLock =>                                     -- value_slot.lock(); guard.take() → assume_init_drop
    if s.locked then none
    else some { s with locked := true, slot := none, taker := none, dropped := s.dropped ++ s.slot.toList,
                       loc := upd s.loc a { l with m := .xUnlock } }
  | .xUnlock => some { s with locked := false, loc := upd s.loc a (afterClose l) }
  | .ciStRdrop => if a ≠ .R then none else some { s with rdrop := true, loc := upd s.loc a { l with m := .ciCasEC } }     -- store(true, Release)
  | .ciCasEC =>                                   -- CAS EMPTY → CLOSED (AcqRel / Relaxed)
    if a ≠ .R then none else
    if s.st = .empty then some { s with st := .closed, rClosedIt := true, loc := upd s.loc a { l with m := .ciCasST } }
    else some (setLoc s a { l with m := .ciCasST })
  | .ciCasST =>                                   -- CAS SENT → TAKEN (AcqRel / Relaxed)
    if a ≠ .R then none else
    if s.st = .sent then some { s with st := .taken, taker := some a, loc := upd s.loc a { l with m := .xLock } }
    else some (setLoc s a (afterClose l))
  | .arcRel =>                                    -- Arc::drop: the last owner runs OneShotShared::drop
    let g := upd s.gone a true
    if allGone g s.nextH then some { s with gone := g, loc := upd s.loc a { l with m := .fLdState } }
    else some { s with gone := g, loc := upd s.loc a { l with m := .ret (if l.k = .send then l.res else .ok) } }
  | .fLdState =>                                  -- state.load(Relaxed) == SENT → get_mut().take() → drop
    if s.st = .sent then
      some { s with freed := true, slot := none, dropped := s.dropped ++ s.slot.toList,
                    loc := upd s.loc a { l with m := .ret (if l.k = .send then l.res else .ok) } }
    else some { s with freed := true, loc := upd s.loc a { l with m := .ret (if l.k = .send then l.res else .ok) } }
  | _ => none

/-- `clone` and the probes -/
def stepPb (s : State) (a : Ag) : Option State :=
  let l := s.loc a
  match l.m with
  | .clFadd =>                                    -- sender_count.fetch_add(1, Relaxed); Arc::clone; new handle
    some { s with scount := s.scount + 1, nextH := s.nextH + 1, reopened := s.reopened || s.dec a.idx,
                  prog := upd s.prog (.S s.nextH) (s.progS s.nextH),
                  loc := upd s.loc a { l with m := .ret .ok } }
  | .pbLdRdrop => some (setLoc s a { l with m := .ret (.b s.rdrop) })
  | .pbLdState => some (setLoc s a { l with m := .ret (.b (s.st = .sent ∨ s.st = .taken)) })
  | .icLdState =>
    if s.st = .taken ∨ s.st = .closed then some (setLoc s a { l with m := .ret (.b true) })
    else some (setLoc s a { l with cur := s.st, m := .icLdCount })
  | .icLdCount =>
    if s.scount = 0 then some (setLoc s a { l with m := .ret (.b (l.cur = .empty ∨ l.cur = .writing)) })
    else some (setLoc s a { l with m := .ret (.b false) })
  | _ => none

/-- `Receiver::try_recv` / `OneShotShared::try_recv` (also the two tries inside a poll) -/
def stepTry (s : State) (a : Ag) : Option State :=
  let l := s.loc a
  if a ≠ .R then none else          -- receiver code runs on the receiver handle
  match l.m with
  | .rLdOwn =>                                    -- closed.load(Relaxed)
    if s.closed a then some (setLoc s a { l with m := .ret .disc }) else some (setLoc s a { l with m := .tLdState })
  | .tLdState =>                                  -- state.load(Acquire)
    match s.st with
    | .sent => some (setLoc s a { l with m := .tCasST })
    | .taken => some (afterTry s a l .empty)
    | .closed => some (afterTry s a l .disc)
    | .empty => some (setLoc s a { l with m := .tLdCount })
    | .writing => some (afterTry s a l .empty)
  | .tCasST =>                                    -- CAS SENT → TAKEN (AcqRel / Acquire)
    if s.st = .sent then some { s with st := .taken, taker := some a, loc := upd s.loc a { l with m := .tLock } }
    else some (setLoc s a { l with m := .tLdState2 })
  | .tLock =>                                     -- value_slot.lock(); guard.take()
    if s.locked then none
    else match s.slot with
      | some v => some { s with locked := true, slot := none, taker := none, received := s.received ++ [v],
                                loc := upd s.loc a { l with v := v, res := .okV v, m := .tUnlock } }
      | none => some { s with locked := true, taker := none, loc := upd s.loc a { l with m := .tStClosed } }
  | .tStClosed => some { s with st := .closed, loc := upd s.loc a { l with res := .disc, m := .tUnlock } }   -- store(CLOSED, Relaxed)
  | .tUnlock => some (afterTry { s with locked := false } a l l.res)
  | _ => none

/-- `OneShotShared::try_recv`: the arms after the failed CAS / after state EMPTY -/
def stepTry2 (s : State) (a : Ag) : Option State :=
  let l := s.loc a
  if a ≠ .R then none else          -- receiver code runs on the receiver handle
  match l.m with
  | .tLdState2 =>                                 -- state.load(Acquire) after the failed CAS
    match s.st with
    | .taken => some (afterTry s a l .empty)
    | .closed => some (afterTry s a l .disc)
    | _ => some (setLoc s a { l with m := .tLdCount2 })
  | .tLdCount2 =>                                 -- sender_count.load(Relaxed) == 0
    if s.scount = 0 then some (afterTry s a l .disc) else some (afterTry s a l .empty)
  | .tLdCount =>                                  -- EMPTY: sender_count.load(Acquire) == 0
    if s.scount = 0 then some (setLoc s a { l with m := .tCasEC }) else some (afterTry s a l .empty)
  | .tCasEC =>                                    -- CAS EMPTY → CLOSED (Relaxed / Acquire)
    if s.st = .empty then some (afterTry { s with st := .closed, rClosedIt := true } a l .disc)
    -- Err(SENT) | Err(WRITING): a send completed between the two loads → `self.try_recv()` again (fix a886a91)
    else if s.st = .sent ∨ s.st = .writing then some (setLoc s a { l with m := .tLdState })
    else some (afterTry s a l .disc)
  | _ => none

/-- `OneShotShared::poll_recv` around its two tries; `park` of the executor -/
def stepPoll (s : State) (a : Ag) : Option State :=
  let l := s.loc a
  if a ≠ .R then none else          -- receiver code runs on the receiver handle
  match l.m with
  | .pLdState =>                                  -- poll_recv: state.load(Acquire)
    match s.st with
    | .taken | .closed => some (setLoc s a { l with cur := s.st, m := .pLdCountA })
    | .empty => some (setLoc s a { l with cur := s.st, m := .pLdCountB })
    | _ => some (setLoc s a { l with cur := s.st, m := .pReg })
  | .pLdCountA =>                                 -- sender_count.load(Acquire) == 0 (cur is TAKEN or CLOSED)
    if s.scount = 0 then some (setLoc s a { l with m := .ret .disc }) else some (setLoc s a { l with m := .pReg })
  | .pLdCountB =>                                 -- cur == EMPTY && sender_count.load(Acquire) == 0
    if s.scount = 0 then some (setLoc s a { l with m := .pCasEC }) else some (setLoc s a { l with m := .pReg })
  | .pCasEC =>                                    -- CAS EMPTY → CLOSED (Relaxed / Acquire)
    if s.st = .empty then some { s with st := .closed, rClosedIt := true, loc := upd s.loc a { l with m := .ret .disc } }
    -- Err(SENT) | Err(WRITING) → `continue`: the poll loop calls try_recv again (fix a886a91)
    else if s.st = .sent ∨ s.st = .writing then some (setLoc s a { l with stage := 1, m := .tLdState })
    else some (setLoc s a { l with m := .ret .disc })
  | .pReg =>                                      -- receiver_waker.register(cx.waker())
    match l.k with
    | .recv t => some { s with waker := some (.task t), armed := false, loc := upd s.loc a { l with stage := 2, m := .tLdState } }
    | .poll f => some { s with waker := some (.fut f), armed := false, loc := upd s.loc a { l with stage := 2, m := .tLdState } }
    | _ => none
  | .park =>                                      -- thread::park() returns: token consumed; poll again
    match l.k with
    | .recv t => if s.tok t then some { s with tok := updN s.tok t false, loc := upd s.loc a { l with stage := 1, m := .rLdOwn } } else none
    | _ => none
  | _ => none

def orE {α} : Option α → Option α → Option α
  | some x, _ => some x
  | none, y => y

/-- every other action: determined by the handle's micro position -/
def stepAct (s : State) (a : Ag) : Option State :=
  orE (stepSend s a) (orE (stepWk s a) (orE (stepCl s a) (orE (stepX s a) (orE (stepPb s a) (orE (stepTry s a) (orE (stepTry2 s a) (stepPoll s a)))))))

/-- `thread::park()` returns without a token (std permits it; the harness scheduler never does it) -/
def stepSpurious (s : State) (a : Ag) : Option State :=
  let l := s.loc a
  match l.m with
  | .park => some (setLoc s a { l with stage := 1, m := .rLdOwn })
  | _ => none

inductive Label where
  | call | ret | act | spurious
deriving Repr, DecidableEq

def step (s : State) (a : Ag) : Label → Option State
  | .call => stepCall s a
  | .ret => stepRet s a
  | .act => stepAct s a
  | .spurious => stepSpurious s a

def run (s : State) : List (Ag × Label) → Option State
  | [] => some s
  | (a, l) :: rest => (step s a l).bind (fun s' => run s' rest)

inductive Reach (progS : Nat → List Op) (progR : List Op) : State → Prop where
  | init : Reach progS progR (init progS progR)
  | step {s s' a l} : Reach progS progR s → step s a l = some s' → Reach progS progR s'

/-! ### data for the trace replayer (no semantics in the theorems) -/

inductive Ord where
  | relaxed | acquire | release | acqrel | seqcst
deriving Repr, DecidableEq

/-- `a` is at least as strong as `b` -/
def Ord.ge : Ord → Ord → Bool
  | _, .relaxed => true
  | .seqcst, _ => true
  | .acqrel, .acquire => true
  | .acqrel, .release => true
  | .acqrel, .acqrel => true
  | .acquire, .acquire => true
  | .release, .release => true
  | _, _ => false

/-- the atomic objects -/
inductive Obj where
  | state | rdrop | scount | closed (a : Ag)
deriving Repr, DecidableEq

/-- kind of action at a micro position, as the scheduler shim names it -/
inductive Kind where
  | load | store | swap | cas | fadd | fsub | lock | unlock | park | unpark
  | silent          -- not a visible action of the shim (register, wake with no / a counting waker, Arc release)
  | none
deriving Repr, DecidableEq

def kindAt : Mic → Kind
  | .sLdOwn | .sLdRdrop | .sLdState | .sLdRdrop2 | .dcLdState | .dcLdRdrop | .dcLdState3 | .dcLdState4
  | .fLdState | .pbLdRdrop | .pbLdState | .icLdState | .icLdCount | .rLdOwn | .tLdState | .tLdState2
  | .tLdCount2 | .tLdCount | .pLdState | .pLdCountA | .pLdCountB => .load
  | .sStEmpty | .ciStRdrop | .tStClosed => .store
  | .sSwapSent | .dSwapOwn => .swap
  | .sCasEW | .cCasOwn | .dcCasEC | .dcCasST | .ciCasEC | .ciCasST | .tCasST | .tCasEC | .pCasEC => .cas
  | .clFadd => .fadd
  | .dcFsub => .fsub
  | .sLock | .xLock | .tLock => .lock
  | .sUnlock | .xUnlock | .tUnlock => .unlock
  | .park => .park
  | .wkUnpark _ => .unpark
  | .wake | .arcRel | .pReg => .silent
  | .idle | .ret _ => .none

/-- the object an action at `m` by handle `a` touches -/
def objAt (a : Ag) : Mic → Option Obj
  | .sLdOwn | .cCasOwn | .dSwapOwn | .rLdOwn => some (.closed a)
  | .sLdRdrop | .sLdRdrop2 | .dcLdRdrop | .ciStRdrop | .pbLdRdrop => some .rdrop
  | .sLdState | .sCasEW | .sStEmpty | .sSwapSent | .dcCasEC | .dcLdState | .dcCasST | .dcLdState3 | .dcLdState4
  | .ciCasEC | .ciCasST | .fLdState | .pbLdState | .icLdState | .tLdState | .tCasST | .tStClosed | .tLdState2
  | .tCasEC | .pLdState | .pCasEC => some .state
  | .dcFsub | .clFadd | .icLdCount | .tLdCount2 | .tLdCount | .pLdCountA | .pLdCountB => some .scount
  | _ => none

/-- the ordering the code passes (CAS: success ordering) -/
def ordAt : Mic → Ord
  | .sLdOwn | .rLdOwn => .relaxed
  | .sLdRdrop | .sLdState | .sLdRdrop2 => .acquire
  | .sCasEW => .acqrel
  | .sStEmpty => .release
  | .sSwapSent => .acqrel
  | .cCasOwn | .dSwapOwn => .acqrel
  | .dcFsub | .dcCasEC | .dcCasST => .acqrel
  | .dcLdState | .dcLdRdrop => .acquire
  | .dcLdState3 | .dcLdState4 => .relaxed
  | .ciStRdrop => .release
  | .ciCasEC | .ciCasST => .acqrel
  | .fLdState => .relaxed
  | .clFadd => .relaxed
  | .pbLdRdrop | .pbLdState | .icLdState | .icLdCount => .acquire
  | .tLdState | .tLdState2 | .tLdCount | .pLdState | .pLdCountA | .pLdCountB => .acquire
  | .tCasST => .acqrel
  | .tStClosed | .tLdCount2 | .tCasEC | .pCasEC => .relaxed      -- (CAS: success ordering)
  | _ => .relaxed

/-- CAS failure ordering -/
def ordFail : Mic → Ord
  | .sCasEW | .tCasST | .tCasEC | .pCasEC => .acquire
  | _ => .relaxed

/-- current value of an atomic object (Bool as 0/1) -/
def valOf (s : State) : Obj → Nat
  | .state => s.st.toNat
  | .rdrop => if s.rdrop then 1 else 0
  | .scount => s.scount
  | .closed a => if s.closed a then 1 else 0

end Fv.Chan.OneshotB
