import Fv.Chan.ChainB
/-
B-level model of the unbounded mpmc channel `channels/src/mpmc_v2/unbounded/{shared,producer,consumer}.rs`
on top of the slab chain (`Fv.Chan.ChainB`): one visible action per step.

Producers are those of the mpsc channel (bump, publish, record_sent) followed by `notify_receivers`.
The consumer side - chain cursor, waiter queue, `recv_waiter_count` stores - runs under the consumer
mutex (`HybridMutex`; modelled as a primitive lock `cl`: its own atomics are validated by the C10
models and projected to acquire/release by the engine).  Receivers are `Clone`: receiver-side program
counters and locals are indexed by RECEIVER HANDLE `r` (`&mut self` on the waiting methods), and each
handle owns one waiter cell (`cst r`: WAITING 0 / FULFILLED 1 / NOTIFIED 2) and, for async handles,
the registration id `reg r` of its `stream_ctx`, which survives across polls and futures.

`EAGER_HANDOFF` is the compile-time constant `false` in the tree: the handoff session, `fulfill`,
`reclaim` and the `reclaimed` queue are dead code (no waiter cell ever becomes FULFILLED, the queue is
always empty) and are not modelled; the classic wake-one path (`NOTIFIED`) is.

Code ↔ pc map (shared.rs):
  notify_receivers            nFence (SeqCst) → nLoad (recv_waiter_count Relaxed) → [nLock → (nState: cell.state.store(NOTIFIED, Release))?
                              → nCnt (store_waiter_count Release) → nUnlock → fire (unpark / waker.wake)]
  drop_sender, last           wLock → wState × waiters → wCnt → wUnlock → fire × waiters
  pop_locked                  pop (next.load Acquire) → inPop (retire …) → cons (consumed.fetch_add Relaxed)
  try_recv(_batch)_internal   lock → pop … → senders (sender_count.load Acquire) → pop → unlock
  recv_sync_internal          lock → pop → senders → rearm (state.store(WAITING, Relaxed)) → regCnt (push; count store) → fence (SeqCst)
                              → pop → [rmCnt] → unlock → park → stLoad (state.load Acquire) → …
  timeout_finish              tfLock → [tfCnt] → tfUnlock → [tfLoad]
  poll_recv_internal          termLoad (take_terminal) → [termRearm] → lock → pop → senders → (rearm → regCnt | update_waker) → fence
                              → pop → senders → [termLoad2 → termRearm2 → selfWake (wake_by_ref)] → unlock
  cancel_wait                 cwLock → [cwCnt | cwLoad] → cwUnlock
  close / Drop (consumer.rs)  closeCas / closeSwap → rcntDec (receiver_count.fetch_sub AcqRel) → [dropStore (receiver_dropped.store Release)]
  Clone                       cloneCnt (receiver_count.fetch_add Relaxed)
-/
namespace Fv.Chan.MpmcUB
open Fv.Chan

structure Cfg where
  chain : ChainB.Cfg := {}
  shards : Nat := 16
deriving Repr

inductive Waker where
  | thread (t : Nat)    -- WakeHandle::Thread (sync waiter): unpark
  | task (t : Nat)      -- harness executor task of thread t
  | fut (f : Nat)       -- counting waker of manual future f
deriving DecidableEq, Repr

structure WEntry where
  id : Nat
  wake : Waker
  cell : Nat            -- receiver handle owning the cell
deriving DecidableEq, Repr

inductive TRes where
  | ok (vs : List Nat) | empty | disc
deriving DecidableEq, Repr

inductive Res where
  | unit | sent (n : Nat) | closed | got (r : TRes) | timeout | pending | bool (b : Bool) | nat (n : Nat) | closeErr
deriving DecidableEq, Repr

inductive SOp where
  | send (vals : List Nat) | close | drop | clone (h' : Nat) | len | isClosed | senderCount | convert
deriving DecidableEq, Repr

inductive ROp where
  | tryRecv (max : Nat)
  | recv (max : Nat)
  | timeout0
  | recvAsync (max : Nat)
  | mkFut (f : Nat) (max : Nat)
  | poll
  | dropFut
  | close
  | drop
  | clone (r' : Nat)
  | len
  | isClosed
  | senderCount
  | convert (toAsync : Bool)
deriving DecidableEq, Repr

inductive SPC where
  | idle
  | chk | chain | rec_
  | nFence | nLoad | nLock | nState | nCnt | nUnlock
  | fire | fireUnpark
  | closeChain
  | wLock | wState | wCnt | wUnlock
  | cloneCnt | cloneShard
  | lenShard (i : Nat) | lenCons
  | closedLoad | scLoad
  | afterClose
  | fin
  | done
deriving DecidableEq, Repr

inductive RForm where
  | try_      -- try_recv / try_recv_batch
  | blk       -- recv
  | tmo       -- recv_timeout(0)
  | poll      -- poll_recv_internal
  | tail      -- the `try_recv_batch_internal(max - 1)` after the first item of a batch receive
deriving DecidableEq, Repr

inductive RPC where
  | idle
  | closedLoad
  | lock
  | pop | inPop | cons | senders
  | rmCnt                 -- remove_waiter succeeded: store_waiter_count
  | rearm | regCnt | fence
  | unlock
  | park | stLoad
  | tfLock | tfCnt | tfUnlock | tfLoad
  | termLoad | termRearm | termLoad2 | termRearm2 | selfWake | selfUnpark
  | execPark
  | cwLock | cwCnt | cwLoad | cwUnlock
  | closeCas | closeSwap | rcntDec | dropStore
  | cloneCnt
  | lenShard (i : Nat) | lenCons | iscClosed | iscSenders | scLoad
  | convLoad | convRearm
  | release
  | fin
  | done
deriving DecidableEq, Repr

inductive TPC where
  | idle | onS (h : Nat) | onR (r : Nat)
deriving DecidableEq, Repr

/-- what follows the `unlock` of a receiver-side critical section -/
inductive After where
  | ret            -- return `rres`
  | park           -- blocking receive: park
  | tmoFinish      -- recv_timeout: deadline passed → timeout_finish
  | pend           -- async: Pending (executor parks, manual poll returns)
  | tail           -- batch receive: first item obtained, now `try_recv_batch_internal(max - 1)`
  | cancelDone     -- cancel_wait finished
deriving DecidableEq, Repr

structure FutSt where
  id : Nat
  max : Nat
deriving DecidableEq, Repr

abbrev upd := @ChainB.upd

structure State where
  ch : ChainB.State
  cl : Option Nat := none                 -- consumer mutex holder (thread)
  waiters : List WEntry := []
  nextId : Nat := 0
  wcnt : Nat := 0                         -- recv_waiter_count
  rcount : Nat := 1                       -- receiver_count
  rdrop : Bool := false
  shard : Nat → Nat := fun _ => 0
  shardCur : Nat := 0
  consumed : Nat := 0
  token : Nat → Bool := fun _ => false
  wakes : Nat → Nat := fun _ => 0
  tpc : Nat → TPC := fun _ => .idle
  -- sender handles
  spc : Nat → SPC := fun _ => .idle
  sthr : Nat → Nat := fun _ => 0
  sop : Nat → SOp := fun _ => .convert
  sclosed : Nat → Bool := fun _ => false
  sgone : Nat → Bool := fun _ => false
  sshard : Nat → Nat := fun _ => 0
  sres : Nat → Res := fun _ => .unit
  sn : Nat → Nat := fun _ => 0
  sfire : Nat → List Waker := fun _ => []   -- WakeList collected under the lock
  sstate : Nat → List Nat := fun _ => []    -- cells still to be marked NOTIFIED (drop_sender)
  safter : Nat → SPC := fun _ => .done
  sacc : Nat → Nat := fun _ => 0
  -- receiver handles
  rborn : Nat → Bool := fun r => r == 0
  rpc : Nat → RPC := fun _ => .idle
  rthr : Nat → Nat := fun _ => 0
  rop : Nat → ROp := fun _ => .len
  rclosed : Nat → Bool := fun _ => false
  rgone : Nat → Bool := fun _ => false
  cst : Nat → Nat := fun _ => 0           -- waiter cell state
  reg : Nat → Option Nat := fun _ => none  -- registration id (sync: local of the call; async: ctx.registered)
  rform : Nat → RForm := fun _ => .try_
  rmax : Nat → Nat := fun _ => 1
  rround : Nat → Nat := fun _ => 0
  rout : Nat → List Nat := fun _ => []
  rhead : Nat → List Nat := fun _ => []   -- first item of a batch receive
  rres : Nat → Res := fun _ => .unit
  rafter : Nat → After := fun _ => .ret
  rexec : Nat → Bool := fun _ => false
  rwaker : Nat → Waker := fun _ => .thread 0
  rbatch : Nat → Nat := fun _ => 1         -- max of the batch form in progress (1 = single)
  racc : Nat → Nat := fun _ => 0
  rfut : Nat → Option FutSt := fun _ => none
  arcs : Nat := 2
  taken : List Nat := []

def init : State := { ch := ChainB.init, shardCur := 1 }

inductive Label where
  | callS (h : Nat) (op : SOp)
  | callR (r : Nat) (op : ROp)
  | adv
  | ret
  | envToken (b : Bool)   -- the HybridMutex implementation parks / unparks the thread (see `stepEnv`)
deriving DecidableEq, Repr

/-! ### chain delegation (as in MpscUB) -/

def pNext (cfg : Cfg) (c : ChainB.State) (h : Nat) : Option ChainB.Label :=
  match c.ppc h with
  | .idle => none
  | .build =>
    if c.rlen h = (c.pvals h).length then some .pSwap
    else if c.ppos h < cfg.chain.N then some .pBump else some .pSealDec
  | .sealing => some .pSealDec
  | .relFence _ _ => some .pRelFence
  | .relLock _ _ => some .pRelLock
  | .relUnlock _ _ => some .pRelUnlock
  | .acqLock => some .pAcqLock
  | .acqUnlock => some .pAcqUnlock
  | .rearmRem _ => some .pRearmRem
  | .rearmNode _ _ => some .pRearmNode
  | .alloc => some .pAlloc
  | .prelink => some .pPrelink
  | .link _ _ _ => some .pLink
  | .dropDec => some .pDropDec

def cNext (c : ChainB.State) : Option ChainB.Label :=
  match c.cpc with
  | .retDec _ _ => some .cRetDec
  | .relFence _ _ => some .cRelFence
  | .relLock _ _ => some .cRelLock
  | .relUnlock _ _ => some .cRelUnlock
  | .finLoad => some .cFinLoad
  | _ => none

def sArcRelease (cfg : Cfg) (s : State) (h : Nat) : Option State :=
  let s1 := { s with arcs := s.arcs - 1, sgone := upd s.sgone h true }
  if s.arcs = 1 then
    (ChainB.step cfg.chain s1.ch 0 .cFinStart).map (fun c => { s1 with ch := c, spc := upd s1.spc h .fin })
  else some { s1 with sres := upd s1.sres h .unit, spc := upd s1.spc h .done }

def rArcRelease (cfg : Cfg) (s : State) (r : Nat) : Option State :=
  let s1 := { s with arcs := s.arcs - 1, rgone := upd s.rgone r true }
  if s.arcs = 1 then
    (ChainB.step cfg.chain s1.ch 0 .cFinStart).map (fun c => { s1 with ch := c, rpc := upd s1.rpc r .fin })
  else some { s1 with rres := upd s1.rres r .unit, rpc := upd s1.rpc r .done }

/-! ### calls and returns -/

def stepCallS (cfg : Cfg) (s : State) (t h : Nat) (op : SOp) : Option State :=
  if s.tpc t = .idle ∧ s.spc h = .idle ∧ s.sgone h = false ∧ s.ch.hst h ≠ .unborn then
    let s0 := { s with tpc := upd s.tpc t (.onS h), sthr := upd s.sthr h t, sop := upd s.sop h op }
    match op with
    | .send vals =>
      if vals = [] then some { s0 with sres := upd s.sres h (.sent 0), spc := upd s.spc h .done }
      else if s.sclosed h then some { s0 with sres := upd s.sres h .closed, spc := upd s.spc h .done }
      else some { s0 with sn := upd s.sn h vals.length, spc := upd s.spc h .chk }
    | .close =>
      if s.sclosed h then some { s0 with sres := upd s.sres h .closeErr, spc := upd s.spc h .done }
      else
        (ChainB.step cfg.chain s.ch h .pClose).map (fun c =>
          { s0 with ch := c, sclosed := upd s.sclosed h true, spc := upd s.spc h .closeChain })
    | .drop =>
      if s.sclosed h then sArcRelease cfg s0 h
      else
        (ChainB.step cfg.chain s.ch h .pClose).map (fun c =>
          { s0 with ch := c, sclosed := upd s.sclosed h true, spc := upd s.spc h .closeChain })
    | .clone h' =>
      if s.ch.hst h' = .unborn then some { s0 with spc := upd s.spc h .cloneCnt } else none
    | .len => some { s0 with sacc := upd s.sacc h 0, spc := upd s.spc h (.lenShard 0) }
    | .isClosed =>
      if s.sclosed h then some { s0 with sres := upd s.sres h (.bool true), spc := upd s.spc h .done }
      else some { s0 with spc := upd s.spc h .closedLoad }
    | .senderCount => some { s0 with spc := upd s.spc h .scLoad }
    | .convert => some { s0 with sres := upd s.sres h .unit, spc := upd s.spc h .done }
  else none

/-- `cancel_wait`: nothing to do unless a registration is recorded -/
def startCancel (s : State) (r : Nat) (thenPc : RPC) : State :=
  match s.reg r with
  | some _ => { s with rafter := upd s.rafter r .cancelDone, rpc := upd s.rpc r .cwLock }
  | none => { s with rpc := upd s.rpc r thenPc }

def stepCallR (s : State) (t r : Nat) (op : ROp) : Option State :=
  if s.tpc t = .idle ∧ s.rpc r = .idle ∧ s.rgone r = false ∧ s.rborn r = true then
    let s0 := { s with tpc := upd s.tpc t (.onR r), rthr := upd s.rthr r t, rop := upd s.rop r op,
                       rout := upd s.rout r [], rround := upd s.rround r 0, rhead := upd s.rhead r [],
                       rafter := upd s.rafter r .ret }
    match op with
    | .tryRecv max =>
      if max = 0 then some { s0 with rres := upd s.rres r (.got (.ok [])), rpc := upd s.rpc r .done }
      else some { s0 with rform := upd s.rform r .try_, rmax := upd s.rmax r max, rbatch := upd s.rbatch r 1,
                          rpc := upd s.rpc r .closedLoad }
    | .recv max =>
      if max = 0 then some { s0 with rres := upd s.rres r (.got (.ok [])), rpc := upd s.rpc r .done }
      else some { s0 with rform := upd s.rform r .blk, rmax := upd s.rmax r 1, rbatch := upd s.rbatch r max,
                          reg := upd s.reg r none, rwaker := upd s.rwaker r (.thread t), rexec := upd s.rexec r true,
                          rpc := upd s.rpc r .closedLoad }
    | .timeout0 =>
      some { s0 with rform := upd s.rform r .tmo, rmax := upd s.rmax r 1, rbatch := upd s.rbatch r 1,
                     reg := upd s.reg r none, rwaker := upd s.rwaker r (.thread t), rexec := upd s.rexec r true,
                     rpc := upd s.rpc r .closedLoad }
    | .recvAsync max =>
      if s.rfut r = none then
        if max = 0 then some { s0 with rres := upd s.rres r (.got (.ok [])), rpc := upd s.rpc r .done }
        else some { s0 with rform := upd s.rform r .poll, rmax := upd s.rmax r 1, rbatch := upd s.rbatch r max,
                            rexec := upd s.rexec r true, rwaker := upd s.rwaker r (.task t), rpc := upd s.rpc r .closedLoad }
      else none
    | .mkFut f max =>
      if s.rfut r = none then
        some { s0 with rfut := upd s.rfut r (some { id := f, max := max }), wakes := upd s.wakes f 0,
                       rres := upd s.rres r .unit, rpc := upd s.rpc r .done }
      else none
    | .poll =>
      match s.rfut r with
      | some fu =>
        if fu.max = 0 then
          some { s0 with rfut := upd s.rfut r none, rres := upd s.rres r (.got (.ok [])), rpc := upd s.rpc r .done }
        else
          some { s0 with rform := upd s.rform r .poll, rmax := upd s.rmax r 1, rbatch := upd s.rbatch r fu.max,
                         rexec := upd s.rexec r false, rwaker := upd s.rwaker r (.fut fu.id),
                         rpc := upd s.rpc r .closedLoad }
      | none => none
    | .dropFut =>
      match s.rfut r with
      | some _ => some (startCancel { s0 with rfut := upd s.rfut r none, rres := upd s.rres r .unit } r .done)
      | none => none
    | .close => if s.rfut r = none then some { s0 with rpc := upd s.rpc r .closeCas } else none
    | .drop => if s.rfut r = none then some (startCancel s0 r .closeSwap) else none
    | .clone r' =>
      if s.rborn r' = false then some { s0 with rpc := upd s.rpc r .cloneCnt } else none
    | .len => some { s0 with racc := upd s.racc r 0, rpc := upd s.rpc r (.lenShard 0) }
    | .isClosed => some { s0 with rpc := upd s.rpc r .iscClosed }
    | .senderCount => some { s0 with rpc := upd s.rpc r .scLoad }
    | .convert toA =>
      if s.rfut r = none then
        if toA then some { s0 with rpc := upd s.rpc r .convLoad }
        else some (startCancel s0 r .convLoad)
      else none
  else none

def stepRet (s : State) (t : Nat) : Option State :=
  match s.tpc t with
  | .onS h => if s.spc h = .done then some { s with tpc := upd s.tpc t .idle, spc := upd s.spc h .idle } else none
  | .onR r => if s.rpc r = .done then some { s with tpc := upd s.tpc t .idle, rpc := upd s.rpc r .idle } else none
  | .idle => none

/-! ### sender side -/

def stepS_chk (cfg : Cfg) (s : State) (h : Nat) : Option State :=
  if s.rdrop then some { s with sres := upd s.sres h .closed, spc := upd s.spc h .done }
  else
    match s.sop h with
    | .send vals => (ChainB.step cfg.chain s.ch h (.pStart vals)).map (fun c => { s with ch := c, spc := upd s.spc h .chain })
    | _ => none

def stepS_chain (cfg : Cfg) (s : State) (h : Nat) : Option State :=
  match pNext cfg s.ch h with
  | some l =>
    (ChainB.step cfg.chain s.ch h l).map (fun c =>
      { s with ch := c, spc := upd s.spc h (if c.ppc h = .idle then .rec_ else .chain) })
  | none => none

def stepS_rec (cfg : Cfg) (s : State) (h : Nat) : Option State :=
  some { s with shard := upd s.shard (s.sshard h % cfg.shards) (s.shard (s.sshard h % cfg.shards) + s.sn h),
                sres := upd s.sres h (.sent (s.sn h)), spc := upd s.spc h .nFence }

/-- `notify_receivers`, under the lock: `waiters.pop_front()` -/
def stepS_nLock (s : State) (h t : Nat) : Option State :=
  match s.cl with
  | none =>
    match s.waiters with
    | e :: rest =>
      some { s with cl := some t, waiters := rest, sstate := upd s.sstate h [e.cell], sfire := upd s.sfire h [e.wake],
                    safter := upd s.safter h .done, spc := upd s.spc h .nState }
    | [] => some { s with cl := some t, sstate := upd s.sstate h [], sfire := upd s.sfire h [],
                          safter := upd s.safter h .done, spc := upd s.spc h .nCnt }
  | some _ => none

/-- `drop_sender` (last): `while let Some(e) = waiters.pop_front()` -/
def stepS_wLock (s : State) (h t : Nat) : Option State :=
  match s.cl with
  | none =>
    some { s with cl := some t, waiters := [], sstate := upd s.sstate h (s.waiters.map (·.cell)),
                  sfire := upd s.sfire h (s.waiters.map (·.wake)), safter := upd s.safter h .afterClose,
                  spc := upd s.spc h (if s.waiters = [] then .wCnt else .wState) }
  | some _ => none

/-- `e.cell.state.store(WAITER_NOTIFIED, Release)` for the next cell of the list -/
def stepS_state (s : State) (h : Nat) (again cnt : SPC) : Option State :=
  match s.sstate h with
  | c :: rest => some { s with cst := upd s.cst c 2, sstate := upd s.sstate h rest,
                               spc := upd s.spc h (if rest = [] then cnt else again) }
  | [] => none

def stepS_cnt (s : State) (h : Nat) (next : SPC) : Option State :=
  some { s with wcnt := s.waiters.length, spc := upd s.spc h next }

def stepS_unlock (s : State) (h : Nat) : Option State :=
  some { s with cl := none, spc := upd s.spc h (if s.sfire h = [] then s.safter h else .fire) }

/-- `wakes.fire()`: next handle of the list -/
def stepS_fire (s : State) (h : Nat) : Option State :=
  match s.sfire h with
  | .thread w :: rest =>
    some { s with token := upd s.token w true, sfire := upd s.sfire h rest,
                  spc := upd s.spc h (if rest = [] then s.safter h else .fire) }
  | .fut f :: rest =>
    some { s with wakes := upd s.wakes f (s.wakes f + 1), sfire := upd s.sfire h rest,
                  spc := upd s.spc h (if rest = [] then s.safter h else .fire) }
  | .task _ :: _ => some { s with spc := upd s.spc h .fireUnpark }
  | [] => none

def stepS_fireUnpark (s : State) (h : Nat) : Option State :=
  match s.sfire h with
  | .task w :: rest =>
    some { s with token := upd s.token w true, sfire := upd s.sfire h rest,
                  spc := upd s.spc h (if rest = [] then s.safter h else .fire) }
  | _ => none

def sAfterClose (cfg : Cfg) (s : State) (h : Nat) : Option State :=
  match s.sop h with
  | .drop => sArcRelease cfg s h
  | _ => some { s with sres := upd s.sres h .unit, spc := upd s.spc h .done }

def stepS_closeChain (cfg : Cfg) (s : State) (h : Nat) : Option State :=
  match pNext cfg s.ch h with
  | some l =>
    (ChainB.step cfg.chain s.ch h l).bind (fun c =>
      let s1 := { s with ch := c }
      if c.ppc h = .idle then
        some { s1 with spc := upd s.spc h (if s.ch.senders = 1 then .wLock else .afterClose) }
      else some s1)
  | none => none

def stepS_fin (cfg : Cfg) (s : State) (h : Nat) : Option State :=
  match cNext s.ch with
  | some l =>
    (ChainB.step cfg.chain s.ch 0 l).map (fun c =>
      if c.cpc = .finished then { s with ch := c, sres := upd s.sres h .unit, spc := upd s.spc h .done }
      else { s with ch := c })
  | none => none

def stepS (cfg : Cfg) (s : State) (t h : Nat) : Option State :=
  match s.spc h with
  | .idle => none
  | .done => none
  | .chk => stepS_chk cfg s h
  | .chain => stepS_chain cfg s h
  | .rec_ => stepS_rec cfg s h
  | .nFence => some { s with spc := upd s.spc h .nLoad }
  | .nLoad => some { s with spc := upd s.spc h (if s.wcnt = 0 then .done else .nLock) }
  | .nLock => stepS_nLock s h t
  | .nState => stepS_state s h .nState .nCnt
  | .nCnt => stepS_cnt s h .nUnlock
  | .nUnlock => stepS_unlock s h
  | .fire => stepS_fire s h
  | .fireUnpark => stepS_fireUnpark s h
  | .closeChain => stepS_closeChain cfg s h
  | .wLock => stepS_wLock s h t
  | .wState => stepS_state s h .wState .wCnt
  | .wCnt => stepS_cnt s h .wUnlock
  | .wUnlock => stepS_unlock s h
  | .cloneCnt =>
    match s.sop h with
    | .clone h' => (ChainB.step cfg.chain s.ch h (.pClone h')).map (fun c => { s with ch := c, spc := upd s.spc h .cloneShard })
    | _ => none
  | .cloneShard =>
    match s.sop h with
    | .clone h' => some { s with shardCur := s.shardCur + 1, sshard := upd s.sshard h' s.shardCur, arcs := s.arcs + 1,
                                 sres := upd s.sres h .unit, spc := upd s.spc h .done }
    | _ => none
  | .lenShard i =>
    some { s with sacc := upd s.sacc h (s.sacc h + s.shard i),
                  spc := upd s.spc h (if i + 1 < cfg.shards then .lenShard (i + 1) else .lenCons) }
  | .lenCons => some { s with sres := upd s.sres h (.nat (s.sacc h - s.consumed)), spc := upd s.spc h .done }
  | .closedLoad => some { s with sres := upd s.sres h (.bool s.rdrop), spc := upd s.spc h .done }
  | .scLoad => some { s with sres := upd s.sres h (.nat s.ch.senders), spc := upd s.spc h .done }
  | .afterClose => sAfterClose cfg s h
  | .fin => stepS_fin cfg s h

/-! ### receiver side -/

def hasEntry (ws : List WEntry) (id : Nat) : Bool := ws.any (fun e => e.id == id)

/-- leave the critical section with result `res` -/
def unlockWith (s : State) (r : Nat) (res : Res) (a : After) : State :=
  { s with rres := upd s.rres r res, rafter := upd s.rafter r a, rpc := upd s.rpc r .unlock }

/-- a locked receive attempt delivered `vs` -/
def gotItems (s : State) (r : Nat) (vs : List Nat) : State :=
  let s1 := { s with taken := s.taken ++ vs, rout := upd s.rout r [] }
  match s.rform r with
  | .tail => unlockWith s1 r (.got (.ok (s.rhead r ++ vs))) .ret
  | .try_ => unlockWith s1 r (.got (.ok vs)) .ret
  | _ =>
    -- blk / tmo / poll deliver one item; a batch form continues with the tail
    if s.rbatch r > 1 then unlockWith { s1 with rhead := upd s.rhead r vs } r (.got (.ok vs)) .tail
    else unlockWith s1 r (.got (.ok vs)) .ret

/-- the locked attempt found nothing and no sender is alive -/
def gotDisc (s : State) (r : Nat) : State :=
  match s.rform r with
  | .tail => unlockWith s r (.got (.ok (s.rhead r))) .ret
  | _ => unlockWith s r (.got .disc) .ret

/-- continuation after `remove_waiter` (+ count store): a waiting form that holds an item returns it,
otherwise (senders gone) the final pop follows -/
def afterRemove (s : State) (r : Nat) : State :=
  if s.rout r ≠ [] then gotItems s r (s.rout r) else { s with rpc := upd s.rpc r .pop }

/-- `if let Some(id) = registered.take() { remove_waiter(id) }`; the count store follows when an
entry was removed -/
def removeReg (s : State) (r : Nat) : State :=
  match s.reg r with
  | some id =>
    if hasEntry s.waiters id then
      { s with waiters := s.waiters.filter (fun e => e.id != id), reg := upd s.reg r none, rpc := upd s.rpc r .rmCnt }
    else afterRemove { s with reg := upd s.reg r none } r
  | none => afterRemove s r

def stepR_closedLoad (s : State) (r : Nat) : Option State :=
  if s.rclosed r then
    some { s with rres := upd s.rres r (.got .disc), rpc := upd s.rpc r .done,
                  rfut := if s.rform r = .poll then upd s.rfut r none else s.rfut }
  else if s.rform r = .poll then some { s with rpc := upd s.rpc r .termLoad }
  else some { s with rpc := upd s.rpc r .lock }

def stepR_lock (s : State) (r t : Nat) : Option State :=
  match s.cl with
  | none => some { s with cl := some t, rround := upd s.rround r 0, rout := upd s.rout r [], rpc := upd s.rpc r .pop }
  | some _ => none

def stepR_pop (cfg : Cfg) (s : State) (r : Nat) : Option State :=
  (ChainB.step cfg.chain s.ch 0 .cPopLoad).map (fun c => { s with ch := c, rpc := upd s.rpc r .inPop })

/-- after the senders-alive check succeeded (senders present): register (or refresh the waker) -/
def toRegister (s : State) (r : Nat) : State :=
  match s.rform r, s.reg r with
  | .poll, some id =>
    -- update_waker: the entry may have vanished
    if hasEntry s.waiters id then
      { s with waiters := s.waiters.map (fun e => if e.id == id then { e with wake := s.rwaker r } else e),
               rpc := upd s.rpc r .fence }
    else { s with reg := upd s.reg r none, rpc := upd s.rpc r .fence }
  | _, _ => { s with rpc := upd s.rpc r .rearm }

/-- dispatch after a pop that found nothing -/
def popNone (s : State) (r : Nat) : State :=
  if s.rout r ≠ [] then gotItems s r (s.rout r)
  else
    match s.rround r with
    | 0 => { s with rpc := upd s.rpc r .senders }
    | 1 => gotDisc s r
    | 2 =>
      -- after register + fence
      match s.rform r with
      | .poll => { s with rpc := upd s.rpc r .senders }
      | .tmo => unlockWith s r .timeout .tmoFinish
      | _ => unlockWith s r .unit .park
    | _ => gotDisc s r

def stepR_inPop (cfg : Cfg) (s : State) (r : Nat) : Option State :=
  match s.ch.cpc with
  | .done res =>
    (ChainB.step cfg.chain s.ch 0 .cRet).map (fun c =>
      let s1 := { s with ch := c }
      match res with
      | some v => { s1 with rout := upd s.rout r (s.rout r ++ [v]), rpc := upd s.rpc r .cons }
      | none => popNone s1 r)
  | _ =>
    match cNext s.ch with
    | some l => (ChainB.step cfg.chain s.ch 0 l).map (fun c => { s with ch := c })
    | none => none

/-- after `consumed.fetch_add`: `try` forms keep popping in round 0, every other pop is single -/
def stepR_cons (s : State) (r : Nat) : Option State :=
  let s1 := { s with consumed := s.consumed + 1 }
  let more := (s.rform r = .try_ ∨ s.rform r = .tail) ∧ s.rround r = 0 ∧ (s.rout r).length < s.rmax r
  if more then some { s1 with rpc := upd s.rpc r .pop }
  else
    -- a waiting form that obtained an item drops its registration first
    match s.rform r with
    | .try_ => some (gotItems s1 r (s.rout r))
    | .tail => some (gotItems s1 r (s.rout r))
    | _ => some (removeReg s1 r)

def stepR_senders (s : State) (r : Nat) : Option State :=
  if s.ch.senders ≠ 0 then
    match s.rform r, s.rround r with
    | .try_, _ => some (unlockWith s r (.got .empty) .ret)
    | .tail, _ => some (unlockWith s r (.got (.ok (s.rhead r))) .ret)
    | .poll, 2 =>
      -- second senders check of a poll: Pending (after resolving a vanished entry)
      if s.reg r = none then some { s with rpc := upd s.rpc r .termLoad2 }
      else some (unlockWith s r .pending .pend)
    | _, _ => some (toRegister s r)
  else
    -- all senders gone: drop the registration, pop once more
    some (removeReg { s with rround := upd s.rround r (if s.rround r = 2 then 3 else 1) } r)

def stepR_rmCnt (s : State) (r : Nat) : Option State :=
  some (afterRemove { s with wcnt := s.waiters.length } r)

def stepR_regCnt (s : State) (r : Nat) : Option State :=
  let id := s.nextId
  some { s with waiters := s.waiters ++ [{ id := id, wake := s.rwaker r, cell := r }], nextId := id + 1,
                wcnt := s.waiters.length + 1, reg := upd s.reg r (some id), rpc := upd s.rpc r .fence }

def stepR_unlock (s : State) (r : Nat) : Option State :=
  let s1 := { s with cl := none }
  match s.rafter r with
  | .ret =>
    some { s1 with rpc := upd s.rpc r .done,
                   rfut := if s.rform r = .poll ∨ (s.rform r = .tail ∧ s.rexec r = false) then upd s.rfut r none else s.rfut }
  | .park => some { s1 with rpc := upd s.rpc r .park }
  | .tmoFinish =>
    match s.reg r with
    | some _ => some { s1 with rpc := upd s.rpc r .tfLock }
    | none => some { s1 with rres := upd s.rres r .timeout, rpc := upd s.rpc r .done }
  | .pend =>
    if s.rexec r then some { s1 with rpc := upd s.rpc r .execPark }
    else some { s1 with rres := upd s.rres r .pending, rpc := upd s.rpc r .done }
  | .tail =>
    some { s1 with rform := upd s.rform r .tail, rmax := upd s.rmax r (s.rbatch r - 1), rpc := upd s.rpc r .lock }
  | .cancelDone =>
    match s.rop r with
    | .drop => some { s1 with rpc := upd s.rpc r .closeSwap }
    | .convert _ => some { s1 with rpc := upd s.rpc r .convLoad }
    | _ => some { s1 with rpc := upd s.rpc r .done }

def stepR_park (s : State) (r : Nat) (next : RPC) : Option State :=
  if s.token (s.rthr r) then some { s with token := upd s.token (s.rthr r) false, rpc := upd s.rpc r next } else none

/-- `cell.state.load(Acquire)` after a park: NOTIFIED → retry from the top; WAITING → park again -/
def stepR_stLoad (s : State) (r : Nat) : Option State :=
  if s.cst r = 2 then some { s with reg := upd s.reg r none, rpc := upd s.rpc r .lock }
  else some { s with rpc := upd s.rpc r .park }

/-- `take_terminal` -/
def stepR_termLoad (s : State) (r : Nat) (rearmPc wait : RPC) : Option State :=
  if s.cst r = 2 then some { s with reg := upd s.reg r none, rpc := upd s.rpc r rearmPc }
  else some { s with rpc := upd s.rpc r wait }

def stepR_tfLock (s : State) (r t : Nat) : Option State :=
  match s.cl with
  | none =>
    match s.reg r with
    | some id =>
      if hasEntry s.waiters id then
        some { s with cl := some t, waiters := s.waiters.filter (fun e => e.id != id), reg := upd s.reg r none,
                      rpc := upd s.rpc r .tfCnt }
      else some { s with cl := some t, reg := upd s.reg r none, rpc := upd s.rpc r .tfUnlock }
    | none => none
  | some _ => none

def stepR_cwLock (s : State) (r t : Nat) : Option State :=
  match s.cl with
  | none =>
    match s.reg r with
    | some id =>
      if hasEntry s.waiters id then
        some { s with cl := some t, waiters := s.waiters.filter (fun e => e.id != id), reg := upd s.reg r none,
                      rpc := upd s.rpc r .cwCnt }
      else some { s with cl := some t, reg := upd s.reg r none, rpc := upd s.rpc r .cwLoad }
    | none => none
  | some _ => none

def stepR_selfWake (s : State) (r : Nat) : Option State :=
  match s.rwaker r with
  | .fut f => some (unlockWith { s with wakes := upd s.wakes f (s.wakes f + 1) } r .pending .pend)
  | .task _ => some { s with rpc := upd s.rpc r .selfUnpark }
  | .thread _ => none

def stepR_selfUnpark (s : State) (r : Nat) : Option State :=
  match s.rwaker r with
  | .task w => some (unlockWith { s with token := upd s.token w true } r .pending .pend)
  | _ => none

def stepR_rcntDec (s : State) (r : Nat) : Option State :=
  let s1 := { s with rcount := s.rcount - 1 }
  if s.rcount = 1 then some { s1 with rpc := upd s.rpc r .dropStore }
  else
    match s.rop r with
    | .drop => some { s1 with rpc := upd s.rpc r .release }
    | _ => some { s1 with rres := upd s.rres r .unit, rpc := upd s.rpc r .done }

def stepR_fin (cfg : Cfg) (s : State) (r : Nat) : Option State :=
  match cNext s.ch with
  | some l =>
    (ChainB.step cfg.chain s.ch 0 l).map (fun c =>
      if c.cpc = .finished then { s with ch := c, rres := upd s.rres r .unit, rpc := upd s.rpc r .done }
      else { s with ch := c })
  | none => none

def stepR (cfg : Cfg) (s : State) (t r : Nat) : Option State :=
  match s.rpc r with
  | .idle => none
  | .done => none
  | .closedLoad => stepR_closedLoad s r
  | .lock => stepR_lock s r t
  | .pop => stepR_pop cfg s r
  | .inPop => stepR_inPop cfg s r
  | .cons => stepR_cons s r
  | .senders => stepR_senders s r
  | .rmCnt => stepR_rmCnt s r
  | .rearm => some { s with cst := upd s.cst r 0, rpc := upd s.rpc r .regCnt }
  | .regCnt => stepR_regCnt s r
  | .fence => some { s with rround := upd s.rround r 2, rout := upd s.rout r [], rpc := upd s.rpc r .pop }
  | .unlock => stepR_unlock s r
  | .park => stepR_park s r .stLoad
  | .stLoad => stepR_stLoad s r
  | .tfLock => stepR_tfLock s r t
  | .tfCnt => some { s with wcnt := s.waiters.length, rpc := upd s.rpc r .tfUnlock, rres := upd s.rres r .timeout,
                            rafter := upd s.rafter r .ret }
  | .tfUnlock =>
    -- entry removed by us: Timeout; entry gone: look at the cell
    if s.rafter r = .ret then some { s with cl := none, rpc := upd s.rpc r .done }
    else some { s with cl := none, rpc := upd s.rpc r .tfLoad }
  | .tfLoad => some { s with rres := upd s.rres r .timeout, rpc := upd s.rpc r .done }
  | .termLoad => stepR_termLoad s r .termRearm .lock
  | .termRearm => some { s with cst := upd s.cst r 0, rpc := upd s.rpc r .lock }
  | .termLoad2 => stepR_termLoad s r .termRearm2 .selfWake
  | .termRearm2 => some { s with cst := upd s.cst r 0, rpc := upd s.rpc r .selfWake }
  | .selfWake => stepR_selfWake s r
  | .selfUnpark => stepR_selfUnpark s r
  | .execPark => stepR_park s r .closedLoad
  | .cwLock => stepR_cwLock s r t
  | .cwCnt => some { s with wcnt := s.waiters.length, rpc := upd s.rpc r .cwUnlock }
  | .cwLoad => some { s with rpc := upd s.rpc r .cwUnlock }
  | .cwUnlock => stepR_unlock s r
  | .closeCas =>
    if s.rclosed r then some { s with rres := upd s.rres r .closeErr, rpc := upd s.rpc r .done }
    else some { s with rclosed := upd s.rclosed r true, rpc := upd s.rpc r .rcntDec }
  | .closeSwap =>
    if s.rclosed r then some { s with rpc := upd s.rpc r .release }
    else some { s with rclosed := upd s.rclosed r true, rpc := upd s.rpc r .rcntDec }
  | .rcntDec => stepR_rcntDec s r
  | .dropStore =>
    match s.rop r with
    | .drop => some { s with rdrop := true, rpc := upd s.rpc r .release }
    | _ => some { s with rdrop := true, rres := upd s.rres r .unit, rpc := upd s.rpc r .done }
  | .cloneCnt =>
    match s.rop r with
    | .clone r' => some { s with rcount := s.rcount + 1, rborn := upd s.rborn r' true, arcs := s.arcs + 1,
                                 rres := upd s.rres r .unit, rpc := upd s.rpc r .done }
    | _ => none
  | .lenShard i =>
    some { s with racc := upd s.racc r (s.racc r + s.shard i),
                  rpc := upd s.rpc r (if i + 1 < cfg.shards then .lenShard (i + 1) else .lenCons) }
  | .lenCons =>
    match s.rop r with
    | .isClosed => some { s with rres := upd s.rres r (.bool (s.racc r - s.consumed == 0)), rpc := upd s.rpc r .done }
    | _ => some { s with rres := upd s.rres r (.nat (s.racc r - s.consumed)), rpc := upd s.rpc r .done }
  | .iscClosed =>
    if s.rclosed r then some { s with rres := upd s.rres r (.bool true), rpc := upd s.rpc r .done }
    else some { s with rpc := upd s.rpc r .iscSenders }
  | .iscSenders =>
    if s.ch.senders ≠ 0 then some { s with rres := upd s.rres r (.bool false), rpc := upd s.rpc r .done }
    else some { s with racc := upd s.racc r 0, rpc := upd s.rpc r (.lenShard 0) }
  | .scLoad => some { s with rres := upd s.rres r (.nat s.ch.senders), rpc := upd s.rpc r .done }
  | .convLoad =>
    match s.rop r with
    | .convert true => some { s with rpc := upd s.rpc r .convRearm }
    | _ => some { s with rres := upd s.rres r .unit, rpc := upd s.rpc r .done }
  | .convRearm => some { s with cst := upd s.cst r 0, rres := upd s.rres r .unit, rpc := upd s.rpc r .done }
  | .release => rArcRelease cfg s r
  | .fin => stepR_fin cfg s r

def stepAdv (cfg : Cfg) (s : State) (t : Nat) : Option State :=
  match s.tpc t with
  | .idle => none
  | .onS h => if s.sthr h = t then stepS cfg s t h else none
  | .onR r => if s.rthr r = t then stepR cfg s t r else none

/-- is thread `t` inside `consumer.lock()`? -/
def atLock (s : State) (t : Nat) : Bool :=
  match s.tpc t with
  | .onS h => s.spc h == .nLock || s.spc h == .wLock
  | .onR r => s.rpc r == .lock || s.rpc r == .tfLock || s.rpc r == .cwLock
  | .idle => false

/-- Environment: the consumer mutex is a `HybridMutex`, whose slow path parks the calling thread and
whose `unlock` unparks a queued one - through the same per-thread park token the channel uses.  `true`:
some unlocker unparks `t` (at any time: also covers spurious unparks).  `false`: `t`, blocked inside
`consumer.lock()`, consumes its token. -/
def stepEnv (s : State) (t : Nat) (b : Bool) : Option State :=
  if b then some { s with token := upd s.token t true }
  else if atLock s t ∧ s.token t = true then some { s with token := upd s.token t false } else none

def step (cfg : Cfg) (s : State) (t : Nat) : Label → Option State
  | .callS h op => stepCallS cfg s t h op
  | .callR r op => stepCallR s t r op
  | .adv => stepAdv cfg s t
  | .ret => stepRet s t
  | .envToken b => stepEnv s t b

def run (cfg : Cfg) (s : State) : List (Nat × Label) → Option State
  | [] => some s
  | (t, l) :: rest => (step cfg s t l).bind (fun s' => run cfg s' rest)

inductive Reach (cfg : Cfg) : State → Prop where
  | init : Reach cfg init
  | step {s s' t l} : Reach cfg s → step cfg s t l = some s' → Reach cfg s'

end Fv.Chan.MpmcUB
