import Fv.Chan.ChainB
/-
B-level model of the unbounded mpsc channel `channels/src/mpsc/unbounded_v3/{shared,producer,consumer}.rs`
on top of the slab chain (`Fv.Chan.ChainB`): one visible action per step.

Structure.  A thread runs one API call at a time on one handle.  Sender-side program counters and
locals are indexed by SENDER HANDLE (`spc h`, `&mut self`), the receiver side has one program
counter `rpc` (the receiver is unique and `!Sync`); `tpc t` says which handle thread `t` is
operating.  Every step is `call` (environment: a thread starts an API call), `adv` (the thread
executes its next action: the action is determined by the program counter) or `ret`.
Chain actions are delegated: while `spc h = .chain` / `.closeChain` the handle executes the
producer labels of `ChainB`, while `rpc = .inPop` / `.fin` the consumer labels; each such step is
exactly one `ChainB.step` on the component `ch`.  Steps marked τ have no visible action
(`ChainB.pBump`, `pStart`, `pClose`, `cRet`, `cFinStart` and the result dispatch).

Code ↔ pc map (shared.rs unless noted):
  send_internal / send_batch_internal (producer.rs)   chk (receiver_dropped.load(Acquire)) → chain (bump … publish)
                                                      → rec_ (sent_shards[shard].fetch_add(n, Relaxed)) → notify
  notify_receiver                                     nFence (fence(SeqCst)) → nLoadS (sync count load Relaxed)
     sync slot                                        → [nLockS → (nCntS (store 0 Release) → nFlagS (notified.store(true, Release)))? → nUnlockS → nUnparkS?]
     async slot                                       → nLoadA → [nLockA → nCntA? → nUnlockA → nWakeA? (→ nUnparkA for an executor task)]
  Sender::close / Drop (producer.rs)                  closeChain (seal … ; sender_count.fetch_sub(1, AcqRel)) → if last: wake_all_receivers
  wake_all_receivers                                  wLockS → (wCntS → wFlagS → wUnparkS)? → wUnlockS → wLockA → (wCntA → wWakeA (→ wUnparkA))? → wUnlockA
                                                      (the guard temporary of `if let … = lock().take()` lives to the end of the statement)
  try_recv_internal / try_recv_batch_internal         pop (pop_node) → inPop (retire …) → cons (consumed.fetch_add(1, Relaxed)) …
                                                      → senders (sender_count.load(Acquire)) → pop … ; a single receive is a batch of max 1
  Receiver::recv / recv_batch_mut (consumer.rs)       closedLoad → [try] → register: gLockS → gUnlockS → gCntS (store 1 Release) → gFence (SeqCst)
                                                      → [try] → park → swapFlag (notified.swap(false, Acquire)) → …; on exit unregister: uLockS → uUnlockS → uCntS
  recv_timeout(0)                                     closedLoad → [try] → Timeout (the deadline has passed before the first wait)
  poll_recv_internal / poll_recv_batch_internal       [try] → gLockA → gUnlockA → gCntA → gFenceA → [try] → Pending; unregister uLockA → uUnlockA → uCntA
  harness executor (block_on)                         execPark (park) → next poll
  Receiver::close / Drop                              closeCas / closeSwap → dropStore (receiver_dropped.store(true, Release)) → drain ([try] until not Ok)
  Drop for MpscShared (last handle)                   fin (ChainB final walk)
  len                                                 lenShard 0 … 15 → lenCons;  is_empty (receiver): emptyLoad;  is_closed: iscSenders → emptyLoad
Parameters: `ChainB.Cfg` (SLAB_NODES, SLAB_POOL_CAP) and `shards` (LEN_SHARDS = 16).
Ghost: `taken` = values handed out of the chain to receive calls (returned or destroyed by the
close drain), in order; `ch.recvd = taken ++ rout` is an invariant.
-/
namespace Fv.Chan.MpscUB
open Fv.Chan

structure Cfg where
  chain : ChainB.Cfg := {}
  shards : Nat := 16
deriving Repr

inductive Waker where
  | task (t : Nat)      -- harness executor task of thread t (wake = unpark t)
  | fut (f : Nat)       -- counting waker of manual future f
deriving DecidableEq, Repr

/-- outcome of `try_recv_internal` / `try_recv_batch_internal` -/
inductive TRes where
  | ok (vs : List Nat)
  | empty
  | disc
deriving DecidableEq, Repr

inductive Res where
  | unit                     -- `ok`
  | sent (n : Nat)           -- send forms: n items sent
  | closed                   -- send forms: Closed (the input is handed back)
  | got (r : TRes)           -- receive forms
  | timeout
  | pending
  | bool (b : Bool)
  | nat (n : Nat)
  | closeErr
deriving DecidableEq, Repr

inductive SOp where
  | send (vals : List Nat)   -- every send form (single = one value); empty batch returns at once
  | close
  | drop
  | clone (h' : Nat)
  | len
  | isClosed
  | senderCount
  | convert                  -- to_async / to_sync: no visible action
deriving DecidableEq, Repr

inductive ROp where
  | tryRecv (max : Nat)                        -- try_recv (max 1) / try_recv_batch(_mut)
  | recv (max : Nat)                           -- sync recv (max 1) / recv_batch(_mut)
  | timeout0
  | recvAsync (max : Nat) (single : Bool)      -- async recv / recv_batch driven by the harness executor
  | mkFut (f : Nat) (max : Nat) (single : Bool) -- `fut f = recv_fut` / `recv_batch_fut`
  | poll                                       -- one manual poll of the live future
  | dropFut
  | close
  | drop
  | len
  | isEmpty
  | isClosed
  | senderCount
  | convert                                    -- to_async / to_sync: closed.load + a new flag
deriving DecidableEq, Repr

inductive SPC where
  | idle
  | chk | chain | rec_
  | nFence | nLoadS | nLockS | nCntS | nFlagS | nUnlockS | nUnparkS
  | nLoadA | nLockA | nCntA | nUnlockA | nWakeA | nUnparkA
  | closeChain
  | wLockS | wCntS | wFlagS | wUnparkS | wUnlockS | wLockA | wCntA | wWakeA | wUnparkA | wUnlockA
  | cloneCnt | cloneShard
  | lenShard (i : Nat) | lenCons
  | closedLoad | scLoad
  | afterClose                         -- τ: `close` returns / `drop` releases the handle
  | fin
  | done
deriving DecidableEq, Repr

inductive RForm where
  | try_ | blk | tmo | pollPre | pollPost | drainClose | drainDrop
deriving DecidableEq, Repr

inductive RPC where
  | idle
  | closedLoad
  | pop | inPop | cons | senders
  | gLockS | gUnlockS | gCntS | gFence
  | uLockS | uUnlockS | uCntS
  | park | swapFlag
  | gLockA | gUnlockA | gCntA | gFenceA
  | uLockA | uUnlockA | uCntA
  | execPark
  | closeCas | closeSwap | dropStore
  | lenShard (i : Nat) | lenCons
  | emptyLoad | iscSenders | scLoad | convLoad
  | release                            -- τ: the receiver handle is released
  | fin
  | done
deriving DecidableEq, Repr

inductive TPC where
  | idle
  | onS (h : Nat)
  | onR
deriving DecidableEq, Repr

structure FutSt where
  id : Nat
  max : Nat
  single : Bool
deriving DecidableEq, Repr

structure State where
  ch : ChainB.State
  -- shared atomics and mutex-protected cells
  rdrop : Bool := false               -- receiver_dropped
  swSlot : Option Nat := none         -- sync_recv_waiter (thread; its flag is `notif`)
  swLock : Option (Option Nat) := none  -- holder: `some (some h)` sender handle h, `some none` the receiver
  swCnt : Nat := 0
  awSlot : Option Waker := none       -- async_recv_waiter
  awLock : Option (Option Nat) := none
  awCnt : Nat := 0
  shard : Nat → Nat := fun _ => 0     -- sent_shards
  shardCur : Nat := 0
  consumed : Nat := 0
  token : Nat → Bool := fun _ => false  -- park tokens
  notif : Bool := false               -- the `notified` flag on the stack of the running `recv`
  wakes : Nat → Nat := fun _ => 0     -- manual futures: waker invocations
  -- threads
  tpc : Nat → TPC := fun _ => .idle
  -- sender handles
  spc : Nat → SPC := fun _ => .idle
  sthr : Nat → Nat := fun _ => 0
  sop : Nat → SOp := fun _ => .convert
  sclosed : Nat → Bool := fun _ => false
  sgone : Nat → Bool := fun _ => false    -- handle dropped
  sshard : Nat → Nat := fun _ => 0
  sres : Nat → Res := fun _ => .unit
  sn : Nat → Nat := fun _ => 0            -- number of items of the send in progress
  swk : Nat → Option Nat := fun _ => none     -- sync waiter taken by this notifier
  sawk : Nat → Option Waker := fun _ => none  -- async waiter taken by this notifier
  sacc : Nat → Nat := fun _ => 0          -- `len` accumulator
  slast : Nat → Bool := fun _ => false    -- this close saw sender_count == 1
  -- the receiver
  rpc : RPC := .idle
  rthr : Nat := 0
  rop : ROp := .convert
  rclosed : Bool := false
  rgone : Bool := false
  rform : RForm := .try_
  rmax : Nat := 1
  rsingle : Bool := true
  rexec : Bool := false
  rwaker : Waker := .task 0
  rround : Nat := 0
  rout : List Nat := []
  rreg : Bool := false                -- is_registered of the running recv / live future
  rres : Res := .unit
  racc : Nat := 0
  fut : Option FutSt := none
  -- Arc<MpscShared> strong count = live handles
  arcs : Nat := 2
  -- ghost
  taken : List Nat := []
  drained : List Nat := []
  gLinker : Nat := 0                  -- last handle that executed the link store of `publish`
  gCloser : Nat := 0                  -- last handle whose `drop_sender` took `sender_count` to 0
  gTaker : Nat := 0                   -- last handle that took the sync waiter out of its slot
  gTakerA : Nat := 0                  -- … the async waiter

def init : State :=
  { ch := ChainB.init, shardCur := 1, sshard := fun _ => 0 }

inductive Label where
  | callS (h : Nat) (op : SOp)
  | callR (op : ROp)
  | adv
  | ret
deriving DecidableEq, Repr

abbrev upd := @ChainB.upd

/-! ### helpers -/

def chainP (cfg : Cfg) (s : State) (h : Nat) (l : ChainB.Label) : Option State :=
  (ChainB.step cfg.chain s.ch h l).map (fun c => { s with ch := c })

/-- the producer label the chain pc of handle `h` dictates (deterministic) -/
def pNext (cfg : Cfg) (c : ChainB.State) (h : Nat) : Option ChainB.Label :=
  match c.ppc h with
  | .idle => none
  | .build =>
    if c.rlen h = (c.pvals h).length then some .pSwap
    else if c.ppos h < cfg.chain.N then some .pBump else some .pSealDec
  | .sealing => some .pSealDec
  | .relFence _ _ => some .pRelFence
  | .relLock _ _ => some .pRelLock
  | .relUnlock _ _ => some .pRelUnlock
  | .acqLock => some .pAcqLock
  | .acqUnlock => some .pAcqUnlock
  | .rearmRem _ => some .pRearmRem
  | .rearmNode _ _ => some .pRearmNode
  | .alloc => some .pAlloc
  | .prelink => some .pPrelink
  | .link _ _ _ => some .pLink
  | .dropDec => some .pDropDec

/-- the consumer label the chain pc dictates, while a pop / the final walk is running -/
def cNext (c : ChainB.State) : Option ChainB.Label :=
  match c.cpc with
  | .retDec _ _ => some .cRetDec
  | .relFence _ _ => some .cRelFence
  | .relLock _ _ => some .cRelLock
  | .relUnlock _ _ => some .cRelUnlock
  | .finLoad => some .cFinLoad
  | _ => none

/-- a handle is released: the last one runs `Drop for MpscShared` -/
def sArcRelease (cfg : Cfg) (s : State) (h : Nat) : Option State :=
  let s1 := { s with arcs := s.arcs - 1, sgone := upd s.sgone h true }
  if s.arcs = 1 then
    (ChainB.step cfg.chain s1.ch 0 .cFinStart).map (fun c => { s1 with ch := c, spc := upd s1.spc h .fin })
  else some { s1 with sres := upd s1.sres h .unit, spc := upd s1.spc h .done }

def rArcRelease (cfg : Cfg) (s : State) : Option State :=
  let s1 := { s with arcs := s.arcs - 1, rgone := true }
  if s.arcs = 1 then
    (ChainB.step cfg.chain s1.ch 0 .cFinStart).map (fun c => { s1 with ch := c, rpc := .fin })
  else some { s1 with rres := .unit, rpc := .done }

/-! ### environment: calls and returns -/

def stepCallS (cfg : Cfg) (s : State) (t h : Nat) (op : SOp) : Option State :=
  if s.tpc t = .idle ∧ s.spc h = .idle ∧ s.sgone h = false ∧ s.ch.hst h ≠ .unborn then
    let s0 := { s with tpc := upd s.tpc t (.onS h), sthr := upd s.sthr h t, sop := upd s.sop h op }
    match op with
    | .send vals =>
      if vals = [] then some { s0 with sres := upd s.sres h (.sent 0), spc := upd s.spc h .done }
      else if s.sclosed h then some { s0 with sres := upd s.sres h .closed, spc := upd s.spc h .done }
      else some { s0 with sn := upd s.sn h vals.length, spc := upd s.spc h .chk }
    | .close =>
      if s.sclosed h then some { s0 with sres := upd s.sres h .closeErr, spc := upd s.spc h .done }
      else
        (ChainB.step cfg.chain s.ch h .pClose).map (fun c =>
          { s0 with ch := c, sclosed := upd s.sclosed h true, spc := upd s.spc h .closeChain })
    | .drop =>
      if s.sclosed h then sArcRelease cfg s0 h
      else
        (ChainB.step cfg.chain s.ch h .pClose).map (fun c =>
          { s0 with ch := c, sclosed := upd s.sclosed h true, spc := upd s.spc h .closeChain })
    | .clone h' =>
      if s.ch.hst h' = .unborn then some { s0 with spc := upd s.spc h .cloneCnt } else none
    | .len => some { s0 with sacc := upd s.sacc h 0, spc := upd s.spc h (.lenShard 0) }
    | .isClosed =>
      if s.sclosed h then some { s0 with sres := upd s.sres h (.bool true), spc := upd s.spc h .done }
      else some { s0 with spc := upd s.spc h .closedLoad }
    | .senderCount => some { s0 with spc := upd s.spc h .scLoad }
    | .convert => some { s0 with sres := upd s.sres h .unit, spc := upd s.spc h .done }
  else none

def stepCallR (s : State) (t : Nat) (op : ROp) : Option State :=
  if s.tpc t = .idle ∧ s.rpc = .idle ∧ s.rgone = false then
    let s0 := { s with tpc := upd s.tpc t .onR, rthr := t, rop := op, rout := [], rround := 0 }
    match op with
    | .tryRecv max =>
      if max = 0 then some { s0 with rres := .got (.ok []), rpc := .done }
      else some { s0 with rform := .try_, rmax := max, rpc := .closedLoad }
    | .recv max =>
      if max = 0 then some { s0 with rres := .got (.ok []), rpc := .done }
      else some { s0 with rform := .blk, rmax := max, rpc := .closedLoad }
    | .timeout0 => some { s0 with rform := .tmo, rmax := 1, rpc := .closedLoad }
    | .recvAsync max single =>
      if s.fut = none then
        some { s0 with rform := .pollPre, rmax := max, rsingle := single, rexec := true, rwaker := .task t,
                       rreg := false, rpc := .closedLoad }
      else none
    | .mkFut f max single =>
      if s.fut = none then
        some { s0 with fut := some { id := f, max := max, single := single }, rreg := false,
                       wakes := upd s.wakes f 0, rres := .unit, rpc := .done }
      else none
    | .poll =>
      match s.fut with
      | some fu =>
        some { s0 with rform := .pollPre, rmax := fu.max, rsingle := fu.single, rexec := false,
                       rwaker := .fut fu.id, rpc := .closedLoad }
      | none => none
    | .dropFut =>
      match s.fut with
      | some _ =>
        if s.rreg then some { s0 with fut := none, rres := .unit, rpc := .uLockA }
        else some { s0 with fut := none, rres := .unit, rpc := .done }
      | none => none
    | .close => if s.fut = none then some { s0 with rpc := .closeCas } else none
    | .drop => if s.fut = none then some { s0 with rpc := .closeSwap } else none
    | .len => some { s0 with racc := 0, rpc := .lenShard 0 }
    | .isEmpty => some { s0 with rpc := .emptyLoad }
    | .isClosed => some { s0 with rpc := .iscSenders }
    | .senderCount => some { s0 with rpc := .scLoad }
    | .convert => if s.fut = none then some { s0 with rpc := .convLoad } else none
  else none

def stepRet (s : State) (t : Nat) : Option State :=
  match s.tpc t with
  | .onS h => if s.spc h = .done then some { s with tpc := upd s.tpc t .idle, spc := upd s.spc h .idle } else none
  | .onR => if s.rpc = .done then some { s with tpc := upd s.tpc t .idle, rpc := .idle } else none
  | .idle => none

/-! ### sender side -/

/-- after `publish` returned -/
def sAfterChain (s : State) (h : Nat) : State := { s with spc := upd s.spc h .rec_ }

def stepS_chk (cfg : Cfg) (s : State) (h : Nat) : Option State :=
  if s.rdrop then some { s with sres := upd s.sres h .closed, spc := upd s.spc h .done }
  else
    match s.sop h with
    | .send vals => (ChainB.step cfg.chain s.ch h (.pStart vals)).map (fun c => { s with ch := c, spc := upd s.spc h .chain })
    | _ => none

def stepS_chain (cfg : Cfg) (s : State) (h : Nat) : Option State :=
  match pNext cfg s.ch h with
  | some l =>
    (ChainB.step cfg.chain s.ch h l).map (fun c =>
      { s with ch := c, gLinker := if c.ppc h = .idle then h else s.gLinker,
               spc := upd s.spc h (if c.ppc h = .idle then .rec_ else .chain) })
  | none => none

def stepS_rec (cfg : Cfg) (s : State) (h : Nat) : Option State :=
  some { s with shard := upd s.shard (s.sshard h % cfg.shards) (s.shard (s.sshard h % cfg.shards) + s.sn h),
                sres := upd s.sres h (.sent (s.sn h)), spc := upd s.spc h .nFence }

def stepS_nLoadS (s : State) (h : Nat) : Option State :=
  some { s with spc := upd s.spc h (if s.swCnt ≠ 0 then .nLockS else .nLoadA) }

def stepS_nLockS (s : State) (h : Nat) : Option State :=
  match s.swLock with
  | none =>
    -- `g.take()` is folded into the lock step
    some { s with swLock := some (some h), swSlot := none, swk := upd s.swk h s.swSlot,
                  gTaker := if s.swSlot.isSome then h else s.gTaker,
                  spc := upd s.spc h (if s.swSlot.isSome then .nCntS else .nUnlockS) }
  | some _ => none

def stepS_nUnlockS (s : State) (h : Nat) : Option State :=
  some { s with swLock := none, spc := upd s.spc h (if (s.swk h).isSome then .nUnparkS else .nLoadA) }

def stepS_nUnparkS (s : State) (h : Nat) : Option State :=
  match s.swk h with
  | some w => some { s with token := upd s.token w true, swk := upd s.swk h none, spc := upd s.spc h .nLoadA }
  | none => none

def stepS_nLoadA (s : State) (h : Nat) : Option State :=
  some { s with spc := upd s.spc h (if s.awCnt ≠ 0 then .nLockA else .done) }

def stepS_nLockA (s : State) (h : Nat) : Option State :=
  match s.awLock with
  | none =>
    some { s with awLock := some (some h), awSlot := none, sawk := upd s.sawk h s.awSlot,
                  gTakerA := if s.awSlot.isSome then h else s.gTakerA,
                  spc := upd s.spc h (if s.awSlot.isSome then .nCntA else .nUnlockA) }
  | some _ => none

def stepS_nUnlockA (s : State) (h : Nat) : Option State :=
  some { s with awLock := none, spc := upd s.spc h (if (s.sawk h).isSome then .nWakeA else .done) }

/-- `waker.wake()`: a manual future's waker counts; an executor task's waker then unparks its thread -/
def stepS_wakeA (s : State) (h : Nat) (thenUnpark thenDone : SPC) : Option State :=
  match s.sawk h with
  | some (.fut f) => some { s with wakes := upd s.wakes f (s.wakes f + 1), sawk := upd s.sawk h none,
                                   spc := upd s.spc h thenDone }
  | some (.task _) => some { s with spc := upd s.spc h thenUnpark }
  | none => none

def stepS_unparkA (s : State) (h : Nat) (thenDone : SPC) : Option State :=
  match s.sawk h with
  | some (.task w) => some { s with token := upd s.token w true, sawk := upd s.sawk h none, spc := upd s.spc h thenDone }
  | _ => none

/-- what follows `close_internal`: `close` returns, `drop` releases the handle -/
def sAfterClose (cfg : Cfg) (s : State) (h : Nat) : Option State :=
  match s.sop h with
  | .drop => sArcRelease cfg s h
  | _ => some { s with sres := upd s.sres h .unit, spc := upd s.spc h .done }

def stepS_closeChain (cfg : Cfg) (s : State) (h : Nat) : Option State :=
  match pNext cfg s.ch h with
  | some l =>
    (ChainB.step cfg.chain s.ch h l).bind (fun c =>
      let s1 := { s with ch := c }
      if c.ppc h = .idle then
        -- that was `sender_count.fetch_sub`; `== 1` ⇒ wake_all_receivers
        some { s1 with gCloser := if s.ch.senders = 1 then h else s.gCloser,
                       spc := upd s.spc h (if s.ch.senders = 1 then .wLockS else .afterClose) }
      else some s1)
  | none => none

def stepS_wLockS (s : State) (h : Nat) : Option State :=
  match s.swLock with
  | none =>
    some { s with swLock := some (some h), swSlot := none, swk := upd s.swk h s.swSlot,
                  gTaker := if s.swSlot.isSome then h else s.gTaker,
                  spc := upd s.spc h (if s.swSlot.isSome then .wCntS else .wUnlockS) }
  | some _ => none

def stepS_wUnparkS (s : State) (h : Nat) : Option State :=
  match s.swk h with
  | some w => some { s with token := upd s.token w true, swk := upd s.swk h none, spc := upd s.spc h .wUnlockS }
  | none => none

def stepS_wLockA (s : State) (h : Nat) : Option State :=
  match s.awLock with
  | none =>
    some { s with awLock := some (some h), awSlot := none, sawk := upd s.sawk h s.awSlot,
                  gTakerA := if s.awSlot.isSome then h else s.gTakerA,
                  spc := upd s.spc h (if s.awSlot.isSome then .wCntA else .wUnlockA) }
  | some _ => none

def stepS_fin (cfg : Cfg) (s : State) (h : Nat) : Option State :=
  match cNext s.ch with
  | some l =>
    (ChainB.step cfg.chain s.ch 0 l).map (fun c =>
      if c.cpc = .finished then { s with ch := c, sres := upd s.sres h .unit, spc := upd s.spc h .done }
      else { s with ch := c })
  | none => none

def stepS (cfg : Cfg) (s : State) (h : Nat) : Option State :=
  match s.spc h with
  | .idle => none
  | .done => none
  | .chk => stepS_chk cfg s h
  | .chain => stepS_chain cfg s h
  | .rec_ => stepS_rec cfg s h
  | .nFence => some { s with spc := upd s.spc h .nLoadS }
  | .nLoadS => stepS_nLoadS s h
  | .nLockS => stepS_nLockS s h
  | .nCntS => some { s with swCnt := 0, spc := upd s.spc h .nFlagS }
  | .nFlagS => some { s with notif := true, spc := upd s.spc h .nUnlockS }
  | .nUnlockS => stepS_nUnlockS s h
  | .nUnparkS => stepS_nUnparkS s h
  | .nLoadA => stepS_nLoadA s h
  | .nLockA => stepS_nLockA s h
  | .nCntA => some { s with awCnt := 0, spc := upd s.spc h .nUnlockA }
  | .nUnlockA => stepS_nUnlockA s h
  | .nWakeA => stepS_wakeA s h .nUnparkA .done
  | .nUnparkA => stepS_unparkA s h .done
  | .closeChain => stepS_closeChain cfg s h
  | .wLockS => stepS_wLockS s h
  | .wCntS => some { s with swCnt := 0, spc := upd s.spc h .wFlagS }
  | .wFlagS => some { s with notif := true, spc := upd s.spc h .wUnparkS }
  | .wUnparkS => stepS_wUnparkS s h
  | .wUnlockS => some { s with swLock := none, spc := upd s.spc h .wLockA }
  | .wLockA => stepS_wLockA s h
  | .wCntA => some { s with awCnt := 0, spc := upd s.spc h .wWakeA }
  | .wWakeA => stepS_wakeA s h .wUnparkA .wUnlockA
  | .wUnparkA => stepS_unparkA s h .wUnlockA
  | .wUnlockA => some { s with awLock := none, spc := upd s.spc h .afterClose }
  | .afterClose => sAfterClose cfg s h
  | .cloneCnt =>
    match s.sop h with
    | .clone h' => (ChainB.step cfg.chain s.ch h (.pClone h')).map (fun c => { s with ch := c, spc := upd s.spc h .cloneShard })
    | _ => none
  | .cloneShard =>
    match s.sop h with
    | .clone h' => some { s with shardCur := s.shardCur + 1, sshard := upd s.sshard h' s.shardCur, arcs := s.arcs + 1,
                                 sres := upd s.sres h .unit, spc := upd s.spc h .done }
    | _ => none
  | .lenShard i =>
    some { s with sacc := upd s.sacc h (s.sacc h + s.shard i),
                  spc := upd s.spc h (if i + 1 < cfg.shards then .lenShard (i + 1) else .lenCons) }
  | .lenCons => some { s with sres := upd s.sres h (.nat (s.sacc h - s.consumed)), spc := upd s.spc h .done }
  | .closedLoad => some { s with sres := upd s.sres h (.bool s.rdrop), spc := upd s.spc h .done }
  | .scLoad => some { s with sres := upd s.sres h (.nat s.ch.senders), spc := upd s.spc h .done }
  | .fin => stepS_fin cfg s h

/-! ### receiver side -/

/-- start (or restart) `try_recv_internal` / `try_recv_batch_internal` -/
def rTry (s : State) (form : RForm) (round : Nat) : State :=
  { s with rform := form, rround := round, rout := [], rpc := .pop }

/-- dispatch on the outcome of the try-level receive, per calling form -/
def triDone (s : State) (res : TRes) : Option State :=
  let s := match res with | .ok vs => { s with taken := s.taken ++ vs, rout := [] } | _ => s
  match s.rform with
  | .try_ => some { s with rres := .got res, rpc := .done }
  | .tmo => some { s with rres := (match res with | .empty => .timeout | r => .got r), rpc := .done }
  | .blk =>
    match res with
    | .empty => some { s with rpc := if s.rreg then .park else .gLockS }
    | r => some { s with rres := .got r, rpc := if s.rreg then .uLockS else .done }
  | .pollPre =>
    match res with
    | .empty => some { s with rpc := .gLockA }
    | r => some { s with rres := .got r, rpc := if s.rreg then .uLockA else .done, fut := none }
  | .pollPost =>
    match res with
    | .empty => if s.rexec then some { s with rpc := .execPark } else some { s with rres := .pending, rpc := .done }
    | r => some { s with rres := .got r, rpc := .uLockA, fut := none }
  | .drainClose =>
    match res with
    | .ok vs => some (rTry { s with drained := s.drained ++ vs } .drainClose 0)
    | _ => some { s with rres := .unit, rpc := .done }
  | .drainDrop =>
    match res with
    | .ok vs => some (rTry { s with drained := s.drained ++ vs } .drainDrop 0)
    | _ => some { s with rpc := .release }

def stepR_closedLoad (s : State) : Option State :=
  if s.rclosed then
    some { s with rres := .got .disc, rpc := .done, fut := (if s.rform = .pollPre then none else s.fut) }
  else if s.rform = .pollPre ∧ s.rmax = 0 then some { s with rres := .got (.ok []), rpc := .done, fut := none }
  else if s.rform = .blk then some (rTry { s with rreg := false, notif := false } .blk 0)
  else some (rTry s s.rform 0)

def stepR_pop (cfg : Cfg) (s : State) : Option State :=
  (ChainB.step cfg.chain s.ch 0 .cPopLoad).map (fun c => { s with ch := c, rpc := .inPop })

/-- `inPop`: retire actions of the chain, then (τ) take the result of `pop_node` -/
def stepR_inPop (cfg : Cfg) (s : State) : Option State :=
  match s.ch.cpc with
  | .done r =>
    (ChainB.step cfg.chain s.ch 0 .cRet).bind (fun c =>
      let s1 := { s with ch := c }
      match r with
      | some v => some { s1 with rout := s.rout ++ [v], rpc := .cons }
      | none =>
        if s.rout ≠ [] then triDone s1 (.ok s.rout)
        else if s.rround = 1 then triDone s1 .disc
        else some { s1 with rpc := .senders })
  | _ =>
    match cNext s.ch with
    | some l => (ChainB.step cfg.chain s.ch 0 l).map (fun c => { s with ch := c })
    | none => none

def stepR_cons (s : State) : Option State :=
  let s1 := { s with consumed := s.consumed + 1 }
  if s.rout.length < s.rmax then some { s1 with rpc := .pop } else triDone s1 (.ok s.rout)

def stepR_senders (s : State) : Option State :=
  if s.ch.senders ≠ 0 then triDone s .empty
  else if s.rround = 2 then some { s with rform := .pollPre, rround := 0, rpc := .pop }
  else some { s with rround := 1, rpc := .pop }

def stepR_park (s : State) (next : RPC) : Option State :=
  if s.token s.rthr then some { s with token := upd s.token s.rthr false, rpc := next } else none

def stepR_swapFlag (s : State) : Option State :=
  some (rTry { s with notif := false, rreg := if s.notif then false else s.rreg } .blk 0)

/-- after an async unregister: the poll returns, or `dropfut` is done -/
def stepR_uCntA (s : State) : Option State :=
  some { s with awCnt := 0, rreg := false, rpc := .done }

def stepR_closeCas (s : State) : Option State :=
  if s.rclosed then some { s with rres := .closeErr, rpc := .done }
  else some { s with rclosed := true, rpc := .dropStore }

def stepR_closeSwap (cfg : Cfg) (s : State) : Option State :=
  if s.rclosed then rArcRelease cfg s
  else some { s with rclosed := true, rpc := .dropStore }

def stepR_dropStore (s : State) : Option State :=
  match s.rop with
  | .drop => some (rTry { s with rdrop := true, rmax := 1 } .drainDrop 0)
  | _ => some (rTry { s with rdrop := true, rmax := 1 } .drainClose 0)

def stepR_emptyLoad (s : State) : Option State :=
  some { s with rres := .bool (s.ch.next s.ch.tail).isNone, rpc := .done }

def stepR_fin (cfg : Cfg) (s : State) : Option State :=
  match cNext s.ch with
  | some l =>
    (ChainB.step cfg.chain s.ch 0 l).map (fun c =>
      if c.cpc = .finished then { s with ch := c, rres := .unit, rpc := .done } else { s with ch := c })
  | none => none

def stepR (cfg : Cfg) (s : State) : Option State :=
  match s.rpc with
  | .idle => none
  | .done => none
  | .closedLoad => stepR_closedLoad s
  | .pop => stepR_pop cfg s
  | .inPop => stepR_inPop cfg s
  | .cons => stepR_cons s
  | .senders => stepR_senders s
  | .gLockS => match s.swLock with | none => some { s with swLock := some none, rpc := .gUnlockS } | some _ => none
  | .gUnlockS => some { s with swLock := none, swSlot := some s.rthr, rpc := .gCntS }
  | .gCntS => some { s with swCnt := 1, rpc := .gFence }
  | .gFence => some (rTry { s with rreg := true } .blk 0)
  | .uLockS => match s.swLock with | none => some { s with swLock := some none, rpc := .uUnlockS } | some _ => none
  | .uUnlockS => some { s with swLock := none, swSlot := none, rpc := .uCntS }
  | .uCntS => some { s with swCnt := 0, rreg := false, rpc := .done }
  | .park => stepR_park s .swapFlag
  | .swapFlag => stepR_swapFlag s
  | .gLockA => match s.awLock with | none => some { s with awLock := some none, rpc := .gUnlockA } | some _ => none
  | .gUnlockA => some { s with awLock := none, awSlot := some s.rwaker, rpc := .gCntA }
  | .gCntA => some { s with awCnt := 1, rpc := .gFenceA }
  | .gFenceA => some (rTry { s with rreg := true } .pollPost (if s.rsingle then 2 else 0))
  | .uLockA => match s.awLock with | none => some { s with awLock := some none, rpc := .uUnlockA } | some _ => none
  | .uUnlockA => some { s with awLock := none, awSlot := none, rpc := .uCntA }
  | .uCntA => stepR_uCntA s
  | .execPark => stepR_park { s with rform := .pollPre } .closedLoad
  | .closeCas => stepR_closeCas s
  | .closeSwap => stepR_closeSwap cfg s
  | .dropStore => stepR_dropStore s
  | .lenShard i =>
    some { s with racc := s.racc + s.shard i, rpc := if i + 1 < cfg.shards then .lenShard (i + 1) else .lenCons }
  | .lenCons => some { s with rres := .nat (s.racc - s.consumed), rpc := .done }
  | .emptyLoad => stepR_emptyLoad s
  | .iscSenders =>
    if s.ch.senders ≠ 0 then some { s with rres := .bool false, rpc := .done } else some { s with rpc := .emptyLoad }
  | .scLoad => some { s with rres := .nat s.ch.senders, rpc := .done }
  | .convLoad => some { s with rres := .unit, rpc := .done }
  | .release => rArcRelease cfg s
  | .fin => stepR_fin cfg s

def stepAdv (cfg : Cfg) (s : State) (t : Nat) : Option State :=
  match s.tpc t with
  | .idle => none
  | .onS h => if s.sthr h = t then stepS cfg s h else none
  | .onR => if s.rthr = t then stepR cfg s else none

def step (cfg : Cfg) (s : State) (t : Nat) : Label → Option State
  | .callS h op => stepCallS cfg s t h op
  | .callR op => stepCallR s t op
  | .adv => stepAdv cfg s t
  | .ret => stepRet s t

def run (cfg : Cfg) (s : State) : List (Nat × Label) → Option State
  | [] => some s
  | (t, l) :: rest => (step cfg s t l).bind (fun s' => run cfg s' rest)

inductive Reach (cfg : Cfg) : State → Prop where
  | init : Reach cfg init
  | step {s s' t l} : Reach cfg s → step cfg s t l = some s' → Reach cfg s'

end Fv.Chan.MpscUB
