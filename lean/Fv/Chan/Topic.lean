/-
Topic pub/sub (`/repo/channels/src/spmc/topic/{mod,core,mailbox,sync_impl,async_impl}.rs`) —
sequential model Q: one function per public operation, transliterating what the code does
when the call runs alone (API granularity).  Defects of the code are reproduced on purpose
(see `Fv/Props/C08.lean` for the witness theorems).

Abstractions (validated only by the differential run against the real code):
* `dispatcher.subscriptions : papaya::HashMap<K, Arc<SubscriberList>>` with one
  `left_right` `Vec<Weak<MailboxProducer>>` per topic is represented by ONE list of pairs
  `regs : List (Topic × mailbox id)` in push order.  The `Vec` of topic `t` is
  `subsOf s t` (the pairs of `t`, in order).  Every code path touches one topic's `Vec`
  (`filter` on the pairs of that topic) or iterates over all of them (sender close).
  papaya and left-right are used through their sequential contracts (get / get_or_insert /
  iterate; `modify f` = apply `f`, readers see the result afterwards).
* `Weak::upgrade` of a mailbox succeeds iff the receiver handle owning the
  `Arc<MailboxProducer>` has not been dropped (`Rx.live`).
* `Weak<SpmcTopicDispatcher>::upgrade` in a receiver succeeds iff the receiver has a real
  weak pointer (`hasDisp`; "dead" clones are built with `Weak::new()`) and some sender
  handle has not been dropped (`dispAlive`): the `Arc` is held by sender handles only.
* Every receiver handle owns exactly one mailbox, so receiver id = mailbox id; ids are
  creation order (0 = the handle returned by `channel`, clones get the next index).
* `HashSet<K>` of a receiver = duplicate-free list; iteration order is irrelevant (each
  topic has its own `Vec`).
* `receiver_count` is a `usize` changed by wrapping `fetch_add/fetch_sub` (64-bit).
* waiter registration (`consumer_waiter`) is not modelled: sequentially unobservable.
  A blocking `recv` that would park is reported as `wouldBlock` and is never executed on
  the implementation by the harness.
-/
namespace Fv.Chan.Topic

abbrev Topic := Nat
abbrev Val := Nat
abbrev Msg := Topic × Val

inductive Kind where
  | sync | async
  deriving DecidableEq, Repr

def Kind.flip : Kind → Kind
  | .sync => .async
  | .async => .sync

/-- receiver handle + its private mailbox (`MailboxInternal`) -/
structure Rx where
  kind : Kind
  cap : Nat                 -- MailboxInternal.capacity
  buf : List Msg            -- MailboxInternal.buffer (front = head)
  disc : Bool               -- MailboxInternal.is_disconnected
  droppedCnt : Nat          -- MailboxInternal.dropped_count
  subs : List Topic         -- TopicReceiver.subscriptions (local HashSet)
  closed : Bool             -- TopicReceiver.closed
  hasDisp : Bool            -- dispatcher field is a real Weak (false: `Weak::new()` of a dead clone)
  live : Bool               -- handle not dropped yet (Arc<MailboxProducer> alive)
  deriving DecidableEq, Repr

/-- sender handle -/
structure Tx where
  kind : Kind
  closed : Bool
  live : Bool               -- handle not dropped yet (holds one strong ref on the dispatcher)
  deriving DecidableEq, Repr

structure St where
  regs : List (Topic × Nat)   -- all topic Vecs of the dispatcher, as (topic, mailbox) pairs in push order
  rcount : Nat                -- dispatcher.receiver_count
  rxs : List Rx
  txs : List Tx
  deriving DecidableEq, Repr

inductive Res where
  | unit
  | ok                        -- Ok(()) of send / close
  | closed                    -- Err(SendError::Closed)
  | closeErr                  -- Err(CloseError)
  | msg (t : Topic) (v : Val) -- Ok((t, v)) / Poll::Ready(Ok) / Ready(Some)
  | empty                     -- TryRecvError::Empty
  | disc                      -- Disconnected of the respective error type
  | timeout                   -- RecvErrorTimeout::Timeout
  | wouldBlock                -- sync recv() would park (not executed on the implementation)
  | pending                   -- Poll::Pending
  | none                      -- Stream: Ready(None)
  | bool (b : Bool)
  | nat (n : Nat)
  | handle (n : Nat)          -- index of the handle created by a clone
  | invalid                   -- handle does not exist / was dropped / wrong flavour: nothing executed
  deriving DecidableEq, Repr

inductive Op where
  | send (h : Nat) (t : Topic) (v : Val)
  | sClone (h : Nat)
  | sClose (h : Nat)
  | sDrop (h : Nat)
  | sConv (h : Nat)           -- to_async / to_sync
  | sIsClosed (h : Nat)
  | subscribe (r : Nat) (t : Topic)
  | unsubscribe (r : Nat) (t : Topic)
  | rClone (r : Nat)
  | rClose (r : Nat)
  | rDrop (r : Nat)
  | rConv (r : Nat)           -- to_async / to_sync
  | tryRecv (r : Nat)
  | recv (r : Nat)            -- sync: blocking recv(); async: one poll of recv()
  | recvTimeout0 (r : Nat)    -- sync only: recv_timeout(Duration::ZERO)
  | pollNext (r : Nat)        -- async only: Stream::poll_next
  | rIsClosed (r : Nat)
  | isEmpty (r : Nat)
  | capacity (r : Nat)
  deriving DecidableEq, Repr

/-! ### small list helpers (own definitions so that the lemmas are under our control) -/

def modAt {α} : List α → Nat → (α → α) → List α
  | [], _, _ => []
  | a :: l, 0, f => f a :: l
  | a :: l, n + 1, f => a :: modAt l n f

def usizeMax : Nat := 18446744073709551615

def wrapInc (c : Nat) : Nat := if c = usizeMax then 0 else c + 1
def wrapDec (c : Nat) : Nat := if c = 0 then usizeMax else c - 1

/-! ### observers -/

def dispAlive (s : St) : Bool := s.txs.any (fun x => x.live)

/-- `self.dispatcher.upgrade().is_some()` for a receiver -/
def upgradable (s : St) (x : Rx) : Bool := x.hasDisp && dispAlive s

def isLive (rxs : List Rx) (m : Nat) : Bool :=
  match rxs[m]? with
  | some x => x.live
  | none => false

/-- the `Vec<Weak<MailboxProducer>>` of topic `t` -/
def subsOf (s : St) (t : Topic) : List Nat :=
  (s.regs.filter (fun p => p.1 == t)).map (fun p => p.2)

def rxLive (s : St) (r : Nat) : Option Rx :=
  match s.rxs[r]? with
  | some x => if x.live then some x else none
  | none => none

def txLive (s : St) (h : Nat) : Option Tx :=
  match s.txs[h]? with
  | some x => if x.live then some x else none
  | none => none

/-! ### mailbox -/

/-- `MailboxProducer::deliver` -/
def deliver (m : Msg) (x : Rx) : Rx :=
  if x.buf.length ≥ x.cap then { x with droppedCnt := x.droppedCnt + 1 }
  else { x with buf := x.buf ++ [m] }

/-- `MailboxProducer::disconnect` -/
def disconnect (x : Rx) : Rx := { x with disc := true }

/-- `for w in list { if let Some(mb) = w.upgrade() { mb.deliver(..) } }` -/
def deliverTo (m : Msg) : List Rx → List Nat → List Rx
  | rxs, [] => rxs
  | rxs, i :: is => deliverTo m (modAt rxs i (fun x => if x.live then deliver m x else x)) is

def disconnectTo : List Rx → List Nat → List Rx
  | rxs, [] => rxs
  | rxs, i :: is => disconnectTo (modAt rxs i (fun x => if x.live then disconnect x else x)) is

/-! ### sender operations (`TopicSender` and `AsyncTopicSender` run the same code) -/

def send (s : St) (h : Nat) (t : Topic) (v : Val) : St × Res :=
  match txLive s h with
  | none => (s, .invalid)
  | some x =>
    if x.closed || s.rcount == 0 then (s, .closed)
    else ({ s with rxs := deliverTo (t, v) s.rxs (subsOf s t) }, .ok)

/-- `close_internal` of a sender: no sender count — every mailbox reachable through any
topic list is disconnected -/
def senderCloseInternal (s : St) : St :=
  { s with rxs := disconnectTo s.rxs (s.regs.map (fun p => p.2)) }

def sClose (s : St) (h : Nat) : St × Res :=
  match txLive s h with
  | none => (s, .invalid)
  | some x =>
    if x.closed then (s, .closeErr)
    else
      let s1 := { s with txs := modAt s.txs h (fun x => { x with closed := true }) }
      (senderCloseInternal s1, .ok)

/-- `Drop`: `let _ = self.close();` then the fields (the dispatcher `Arc`) are released -/
def sDrop (s : St) (h : Nat) : St × Res :=
  match txLive s h with
  | none => (s, .invalid)
  | some _ =>
    let s1 := (sClose s h).1
    ({ s1 with txs := modAt s1.txs h (fun x => { x with live := false }) }, .unit)

/-- only `TopicSender` implements `Clone`; the clone is open whatever the original's flag -/
def sClone (s : St) (h : Nat) : St × Res :=
  match txLive s h with
  | none => (s, .invalid)
  | some x =>
    match x.kind with
    | .async => (s, .invalid)
    | .sync => ({ s with txs := s.txs ++ [{ kind := .sync, closed := false, live := true }] }, .handle s.txs.length)

/-- `to_async` / `to_sync` of a sender move the `closed` flag unchanged -/
def sConv (s : St) (h : Nat) : St × Res :=
  match txLive s h with
  | none => (s, .invalid)
  | some _ => ({ s with txs := modAt s.txs h (fun x => { x with kind := x.kind.flip }) }, .unit)

def sIsClosed (s : St) (h : Nat) : St × Res :=
  match txLive s h with
  | none => (s, .invalid)
  | some _ => (s, .bool (s.rcount == 0))

/-! ### receiver operations -/

/-- body of `subscribe` for an existing receiver `r` (state `x`) -/
def subscribeCore (s : St) (r : Nat) (t : Topic) : St :=
  match s.rxs[r]? with
  | none => s
  | some x =>
    if x.subs.contains t then s            -- `!subs.insert(topic)` ⇒ return
    else
      let rxs1 := modAt s.rxs r (fun x => { x with subs := x.subs ++ [t] })
      if upgradable s x then
        -- list.retain(|w| w.upgrade().is_some()) on the Vec of `t`
        let regs1 := s.regs.filter (fun p => p.1 != t || isLive rxs1 p.2)
        -- push unless already present (ptr_eq)
        let regs2 := if regs1.contains (t, r) then regs1 else regs1 ++ [(t, r)]
        { s with rxs := rxs1, regs := regs2 }
      else { s with rxs := rxs1 }

/-- body of `unsubscribe` -/
def unsubscribeCore (s : St) (r : Nat) (t : Topic) : St :=
  match s.rxs[r]? with
  | none => s
  | some x =>
    if !x.subs.contains t then s           -- `!subs.remove(topic)` ⇒ return
    else
      let rxs1 := modAt s.rxs r (fun x => { x with subs := x.subs.filter (fun u => u != t) })
      if upgradable s x then
        { s with rxs := rxs1,
                 regs := s.regs.filter (fun p => p.1 != t || (isLive rxs1 p.2 && p.2 != r)) }
      else { s with rxs := rxs1 }

def subscribe (s : St) (r : Nat) (t : Topic) : St × Res :=
  match rxLive s r with
  | none => (s, .invalid)
  | some _ => (subscribeCore s r t, .unit)

def unsubscribe (s : St) (r : Nat) (t : Topic) : St × Res :=
  match rxLive s r with
  | none => (s, .invalid)
  | some _ => (unsubscribeCore s r t, .unit)

/-- `close_internal` of a receiver: the topics of the local set are CLONED, then `unsubscribe` is
called for each of them (which removes the topic from the local set and the mailbox from that
topic's list), then the receiver count is given up. Nothing happens when the dispatcher is gone. -/
def rxCloseInternal (s : St) (r : Nat) : St :=
  match s.rxs[r]? with
  | none => s
  | some x =>
    if upgradable s x then
      let s2 := x.subs.foldl (fun s t => unsubscribeCore s r t) s
      { s2 with rcount := wrapDec s2.rcount }
    else s

def rClose (s : St) (r : Nat) : St × Res :=
  match rxLive s r with
  | none => (s, .invalid)
  | some x =>
    if x.closed then (s, .closeErr)
    else
      let s1 := { s with rxs := modAt s.rxs r (fun x => { x with closed := true }) }
      (rxCloseInternal s1 r, .ok)

/-- `Drop`, both flavours: `if !closed.swap(true) { close_internal() }`. Afterwards the fields are
released: the `Arc<MailboxProducer>` dies (its `Drop` marks the mailbox disconnected, nobody can
observe that). -/
def rDrop (s : St) (r : Nat) : St × Res :=
  match rxLive s r with
  | none => (s, .invalid)
  | some x =>
    let s1 :=
      if x.closed then s
      else rxCloseInternal { s with rxs := modAt s.rxs r (fun x => { x with closed := true }) } r
    ({ s1 with rxs := modAt s1.rxs r (fun x => { x with live := false, disc := true }) }, .unit)

/-- the receiver built by `Clone` when the dispatcher is reachable -/
def freshRx (x : Rx) : Rx :=
  { kind := x.kind, cap := x.cap, buf := [], disc := false, droppedCnt := 0,
    subs := [], closed := false, hasDisp := true, live := true }

/-- the "dead receiver" built by `Clone` when the dispatcher is gone -/
def deadRx (x : Rx) : Rx :=
  { kind := x.kind, cap := 0, buf := [], disc := false, droppedCnt := 0,
    subs := [], closed := true, hasDisp := false, live := true }

/-- `Clone`: a fresh mailbox of the same capacity, empty local set, then `subscribe` for every
topic of the original; if the dispatcher is gone a "dead" receiver (capacity 0, closed, no
dispatcher, mailbox NOT disconnected) -/
def rClone (s : St) (r : Nat) : St × Res :=
  match rxLive s r with
  | none => (s, .invalid)
  | some x =>
    let n := s.rxs.length
    if upgradable s x then
      let s1 := { s with rcount := wrapInc s.rcount, rxs := s.rxs ++ [freshRx x] }
      (x.subs.foldl (fun s t => subscribeCore s n t) s1, .handle n)
    else
      ({ s with rxs := s.rxs ++ [deadRx x] }, .handle n)

/-- `to_async` / `to_sync` of a receiver build the new handle with `closed: false` -/
def rConv (s : St) (r : Nat) : St × Res :=
  match rxLive s r with
  | none => (s, .invalid)
  | some _ =>
    ({ s with rxs := modAt s.rxs r (fun x => { x with kind := x.kind.flip, closed := false }) }, .unit)

/-- `MailboxConsumer::try_recv` and the common prefix of the other receive forms:
`whenEmpty` is what the form returns for "empty and not disconnected" -/
def recvWith (s : St) (r : Nat) (x : Rx) (whenDisc whenEmpty : Res) : St × Res :=
  match x.buf with
  | (t, v) :: rest => ({ s with rxs := modAt s.rxs r (fun x => { x with buf := rest }) }, .msg t v)
  | [] => if x.disc then (s, whenDisc) else (s, whenEmpty)

/-- neither flavour looks at the receiver's own `closed` flag -/
def tryRecv (s : St) (r : Nat) : St × Res :=
  match rxLive s r with
  | none => (s, .invalid)
  | some x => recvWith s r x .disc .empty

def recv (s : St) (r : Nat) : St × Res :=
  match rxLive s r with
  | none => (s, .invalid)
  | some x =>
    match x.kind with
    | .sync => recvWith s r x .disc .wouldBlock
    | .async => recvWith s r x .disc .pending

/-- `recv_timeout(0)`: a closed handle maps every `try_recv` error to Disconnected -/
def recvTimeout0 (s : St) (r : Nat) : St × Res :=
  match rxLive s r with
  | none => (s, .invalid)
  | some x =>
    match x.kind with
    | .async => (s, .invalid)
    | .sync =>
      if x.closed then recvWith s r x .disc .disc
      else recvWith s r x .disc .timeout

def pollNext (s : St) (r : Nat) : St × Res :=
  match rxLive s r with
  | none => (s, .invalid)
  | some x =>
    match x.kind with
    | .sync => (s, .invalid)
    | .async => recvWith s r x .none .pending

def rIsClosed (s : St) (r : Nat) : St × Res :=
  match rxLive s r with
  | none => (s, .invalid)
  | some x => (s, .bool (x.closed || (!upgradable s x && x.buf.isEmpty)))

def isEmpty (s : St) (r : Nat) : St × Res :=
  match rxLive s r with
  | none => (s, .invalid)
  | some x => (s, .bool x.buf.isEmpty)

def capacity (s : St) (r : Nat) : St × Res :=
  match rxLive s r with
  | none => (s, .invalid)
  | some x => (s, .nat x.cap)

/-! ### the machine -/

/-- `channel(cap)` / `channel_async(cap)` -/
def init (cap : Nat) (k : Kind) : St :=
  { regs := [], rcount := 1,
    rxs := [{ kind := k, cap := cap, buf := [], disc := false, droppedCnt := 0, subs := [],
              closed := false, hasDisp := true, live := true }],
    txs := [{ kind := k, closed := false, live := true }] }

def step (s : St) : Op → St × Res
  | .send h t v => send s h t v
  | .sClone h => sClone s h
  | .sClose h => sClose s h
  | .sDrop h => sDrop s h
  | .sConv h => sConv s h
  | .sIsClosed h => sIsClosed s h
  | .subscribe r t => subscribe s r t
  | .unsubscribe r t => unsubscribe s r t
  | .rClone r => rClone s r
  | .rClose r => rClose s r
  | .rDrop r => rDrop s r
  | .rConv r => rConv s r
  | .tryRecv r => tryRecv s r
  | .recv r => recv s r
  | .recvTimeout0 r => recvTimeout0 s r
  | .pollNext r => pollNext s r
  | .rIsClosed r => rIsClosed s r
  | .isEmpty r => isEmpty s r
  | .capacity r => capacity s r

/-- run a program, collecting the results -/
def run (s : St) : List Op → St × List Res
  | [] => (s, [])
  | op :: ops =>
    let (s1, r) := step s op
    let (s2, rs) := run s1 ops
    (s2, r :: rs)

def exec (s : St) (ops : List Op) : St := (run s ops).1
def results (s : St) (ops : List Op) : List Res := (run s ops).2

/-! ### TopicSpec — the property text made formal (history variables over Q)

The statement speaks about "messages published to topics it is subscribed to at publish
time", "found its mailbox full", "publish order", "at most once", "every sender handle is
gone". These are history notions; `TopicSpec` carries them next to the model state without
influencing it (`gstep` runs `step` and only records). -/

/-- is receiver `r` subscribed to `t` in the sense of the API contract: an open live handle
whose subscription set (subscribe adds, unsubscribe removes, clone copies, close clears)
contains `t` -/
def subscribedTo (s : St) (r : Nat) (t : Topic) : Bool :=
  match s.rxs[r]? with
  | some x => x.live && !x.closed && x.subs.contains t
  | none => false

def mailboxFull (s : St) (r : Nat) : Bool :=
  match s.rxs[r]? with
  | some x => decide (x.buf.length ≥ x.cap)
  | none => false

def bufOf (s : St) (r : Nat) : List Msg :=
  match s.rxs[r]? with
  | some x => x.buf
  | none => []

/-- every sender handle is gone (closed or dropped) -/
def sendersGone (s : St) : Bool := s.txs.all (fun x => x.closed || !x.live)

/-- one accepted publish (a `send` that returned `Ok`) with the facts "at publish time" -/
structure Pub where
  t : Topic
  v : Val
  subscribed : Nat → Bool     -- receiver was subscribed to `t` at publish time
  full : Nat → Bool           -- receiver's mailbox was full at publish time

structure TopicSpec where
  st : St
  pubs : List Pub             -- accepted publishes in publish order
  acc : Nat → List Nat        -- per receiver: indices (into `pubs`) of the publishes whose message entered its mailbox
  got : Nat → List Msg        -- per receiver: what its receive forms returned, in order

def recvTarget : Op → Option Nat
  | .tryRecv r | .recv r | .recvTimeout0 r | .pollNext r => some r
  | _ => none

/-- bookkeeping for one executed step: `s'`/`res` are the model's new state and result -/
def gnext (g : TopicSpec) (op : Op) (s' : St) (res : Res) : TopicSpec :=
  match op, res with
  | .send _ t v, .ok =>
    let i := g.pubs.length
    { st := s',
      pubs := g.pubs ++ [{ t := t, v := v, subscribed := fun r => subscribedTo g.st r t,
                           full := fun r => mailboxFull g.st r }],
      acc := fun r => if (bufOf s' r).length = (bufOf g.st r).length + 1 then g.acc r ++ [i] else g.acc r,
      got := g.got }
  | op, .msg t v =>
    match recvTarget op with
    | some r => { g with st := s', got := fun q => if q = r then g.got q ++ [(t, v)] else g.got q }
    | none => { g with st := s' }
  | _, _ => { g with st := s' }

def gstep (g : TopicSpec) (op : Op) : TopicSpec × Res :=
  (gnext g op (step g.st op).1 (step g.st op).2, (step g.st op).2)

def ginit (cap : Nat) (k : Kind) : TopicSpec :=
  { st := init cap k, pubs := [], acc := fun _ => [], got := fun _ => [] }

def grun (g : TopicSpec) : List Op → TopicSpec
  | [] => g
  | op :: ops => grun (gstep g op).1 ops

def msgAt (pubs : List Pub) (i : Nat) : Msg :=
  match pubs[i]? with
  | some p => (p.t, p.v)
  | none => (0, 0)

end Fv.Chan.Topic
