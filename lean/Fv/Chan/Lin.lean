import Fv.Chan.Seq
import Fv.Chan.LinCore
/-
Concurrent histories of channel operations and the linearizability checker.

A history is the totally ordered list of `C tid op` / `R tid result` events the harness logs.
Results are *observable* results (`Res`): what the caller can see of the model's structured
`Out` (`observe`).  `linearizable fl cfg h` searches for an interleaving of the operations'
atomic steps (`Fv.Chan.micro`) that explains every returned result; blocking operations can
only step in a state where they can make progress, pending operations may or may not have
taken effect.  Handles cloned / closed / dropped mid-history are part of the state `St`.
-/
namespace Fv.Chan

/-- what the caller observes of an `Out` -/
structure Res where
  tag : Tag
  vals : List Val := []   -- receive forms: the values received; send forms: the values handed back
  cnt : Nat := 0          -- send forms: how many input items were accepted; receive forms: how many were received
  val : PVal := .none
  deriving DecidableEq, Repr, Inhabited

instance : BEq Res := ⟨fun a b => decide (a = b)⟩

def Op.form? : Op → Option Form
  | .snd f _ _ => some f
  | .rcv f _ _ => some f
  | _ => none

/-- `send_batch_mut` / `try_send_batch_mut` errors are a bare `SendError::Closed`: the count is lost -/
def hidesCount (f : Form) (t : Tag) : Bool :=
  (f == .sendBatchMut || f == .trySendBatchMut) && t != .ok

def observe (op : Op) (o : Out) : Res :=
  match op with
  | .snd f _ _ => { tag := o.tag, vals := o.back, cnt := if hidesCount f o.tag then 0 else o.sent.length, val := o.val }
  | .rcv _ _ _ => { tag := o.tag, vals := o.got, cnt := o.got.length, val := o.val }
  | _ => { tag := o.tag, val := o.val }

/-- Probes that are not linearizable observers in the lock-free families (sharded / two-word
counters read without a lock: `len`, and everything computed from it); their values are not
compared in concurrent histories. -/
def weakProbe (fl : Flavour) : Op → Bool
  | .probe p _ =>
    (fl.fam == .sb || fl.fam == .mb || fl.fam == .mu || fl.fam == .pu) &&
    (p == .len || p == .isEmpty || p == .isFull || p == .isClosed)
  | _ => false

def normRes (fl : Flavour) (op : Op) (r : Res) : Res :=
  if weakProbe fl op ∧ r.tag = .ok then { r with val := .none } else r

abbrev Ev := LinCore.Event Op Res
abbrev History := List Ev

/-- pending-operation state of the checker: the operation and its progress -/
abbrev PL := Op × P

def linCfg : Cfg := { hot := false, granular := true }

def sem (fl : Flavour) (cfg : Cfg) : LinCore.Sem St Op Res PL where
  fresh t op := (op, .fresh t op)
  micro s p := (micro fl cfg s p.2).map (fun r => (r.1, (p.1, r.2)))
  retire s p := retire fl cfg s p.1
  fin p := p.2.out?.map (fun o => normRes fl p.1 (observe p.1 o))

def History.fuel (h : History) : Nat :=
  h.foldl (fun acc e => acc + match e with
    | .call _ op => op.size + 6
    | .ret _ _ => 1) 8

/-- final model state of some linearization of `h`, if there is one -/
def linearize (fl : Flavour) (cfg : Cfg) (h : History) : Option St :=
  LinCore.search (sem fl cfg) h.fuel (init fl) [] h

def linearizable (fl : Flavour) (cfg : Cfg) (h : History) : Bool :=
  (linearize fl cfg h).isSome

/-- length of the shortest non-linearizable prefix (histories are prefix-closed w.r.t. linearizability) -/
def shortestBadPrefix (fl : Flavour) (cfg : Cfg) (h : History) : Nat :=
  go h.length 0
where
  go : Nat → Nat → Nat
    | 0, k => k
    | fuel + 1, k => if linearizable fl cfg (h.take k) then go fuel (k + 1) else k

end Fv.Chan
