import Fv.Chan.Seq
import Fv.Chan.LinCore
/-
Concurrent histories of channel operations and the linearizability checker.

A history is the totally ordered list of `C tid op` / `R tid result` events the harness logs.
Results are *observable* results (`Res`): what the caller can see of the model's structured
`Out` (`observe`).  `linearizable fl cfg h` searches for an interleaving of the operations'
atomic steps (`Fv.Chan.micro`) that explains every returned result; blocking operations can
only step in a state where they can make progress, pending operations may or may not have
taken effect.  Handles cloned / closed / dropped mid-history are part of the state `St`.
-/
namespace Fv.Chan

/-- what the caller observes of an `Out` -/
structure Res where
  tag : Tag
  vals : List Val := []   -- receive forms: the values received; send forms: the values handed back
  cnt : Nat := 0          -- send forms: how many input items were accepted; receive forms: how many were received
  val : PVal := .none
  deriving DecidableEq, Repr, Inhabited, Hashable

instance : BEq Res := ⟨fun a b => decide (a = b)⟩

instance : LawfulBEq Res where
  eq_of_beq h := of_decide_eq_true h
  rfl := decide_eq_true rfl

def Op.form? : Op → Option Form
  | .snd f _ _ => some f
  | .rcv f _ _ => some f
  | _ => none

/-- `send_batch_mut` / `try_send_batch_mut` errors are a bare `SendError::Closed`: the count is lost -/
def hidesCount (f : Form) (t : Tag) : Bool :=
  (f == .sendBatchMut || f == .trySendBatchMut) && t != .ok

def observe (op : Op) (o : Out) : Res :=
  match op with
  | .snd f _ _ => { tag := o.tag, vals := o.back, cnt := if hidesCount f o.tag then 0 else o.sent.length, val := o.val }
  | .rcv _ _ _ => { tag := o.tag, vals := o.got, cnt := o.got.length, val := o.val }
  | _ => { tag := o.tag, val := o.val }

/-- Probes that are not linearizable observers in the lock-free families (sharded / two-word
counters read without a lock: `len`, and everything computed from it); their values are not
compared in concurrent histories. -/
def weakProbe (fl : Flavour) : Op → Bool
  | .probe p h =>
    ((fl.fam == .sb || fl.fam == .mb || fl.fam == .mu || fl.fam == .pu) &&
     (p == .len || p == .isEmpty || p == .isFull || p == .isClosed)) ||
    -- oneshot `Receiver::is_closed` reads the state word and then `sender_count` (two loads, no lock):
    -- with oneshot on the scheduler seam the two reads interleave with sends, and it can answer `true`
    -- from a stale EMPTY/WRITING and a fresh count 0 while a value is SENT and pending
    -- (step-level witness: `Fv.Props.OneshotB.receiver_is_closed_stale_true`). The sender-side probes
    -- (`is_closed`, `is_sent`) are single loads and stay compared.
    (fl.fam == .os && p == .isClosed && h.side == .rx)
  | _ => false

/-- oneshot `send` decides WHICH error a failed send reports from two separate loads (`receiver_dropped`,
then the state word, then the CAS and a second look at `receiver_dropped`): when it overlaps the
receiver's close / drop, or another sender's backtrack, the real code answers `Sent` where every atomic
placement of the call would answer `Closed` (and vice versa). The value handed back IS compared; the
kind of the error is not, in concurrent histories (sequential cases compare it exactly, and the
step-level tie `fvdrv_oneshotb` checks the exact kind, load by load, on every interleaving). -/
def osFailedSend (fl : Flavour) (op : Op) (r : Res) : Bool :=
  match op with
  | .snd .send _ _ => fl.fam == .os && r.tag == .sentAlready
  | _ => false

def normRes (fl : Flavour) (op : Op) (r : Res) : Res :=
  if weakProbe fl op ∧ r.tag = .ok then { r with val := .none }
  else if osFailedSend fl op r then { r with tag := .closed }
  else r

abbrev Ev := LinCore.Event Op Res
abbrev History := List Ev

/-- pending-operation state of the checker: the operation and its progress -/
abbrev PL := Op × P

def linCfg : Cfg := { hot := false, granular := true }

/-- the part of the state future behaviour depends on (no ghost history) — memo key of the search -/
structure Core where
  buf : List Val
  hs : List Handle
  cnt : List Nat            -- sc, rc, unpub, kpub, inflight, tomb
  flags : List Bool         -- rd, pd, osw
  os : OsState
  sw : List (Nat × Nat × Val)
  rw : List (Nat × Nat)
  ws : List (List Nat)      -- rcanc, rdisc
  sdone : List (Nat × Val)
  sdisc : List (Nat × Val)
  rdone : List (Nat × Val)
  deriving DecidableEq, Hashable

def St.core (s : St) : Core :=
  ⟨s.buf, s.hs, [s.sc, s.rc, s.unpub, s.kpub, s.inflight, s.tomb], [s.rd, s.pd, s.osw], s.os, s.sw, s.rw,
   [s.rcanc, s.rdisc], s.sdone, s.sdisc, s.rdone⟩

abbrev Key := Core × List (Nat × PL)

instance : BEq Key := ⟨fun a b => decide (a = b)⟩

def sem (fl : Flavour) (cfg : Cfg) : LinCore.Sem St Op Res PL Key where
  key s pend := (s.core, pend)
  fresh t op := (op, .fresh t op)
  micro s p := (micro fl cfg s p.2).map (fun r => (r.1, (p.1, r.2)))
  retire s p := retire fl cfg s p.1
  fin p := p.2.out?.map (fun o => normRes fl p.1 (observe p.1 o))

def History.fuel (h : History) : Nat :=
  h.foldl (fun acc e => acc + match e with
    | .call _ op => op.size + 6
    | .ret _ _ => 1) 8

/-- Final model state of some linearization of `h`, if there is one.  `quiesce`: the run ended with
every unfinished thread blocked, so every operation that never returned must be disabled at the end. -/
def linearizeP (fl : Flavour) (cfg : Cfg) (h : History) (quiesce : Bool := false) :
    Option (St × LinCore.Pend PL) :=
  (LinCore.search (sem fl cfg) quiesce h.fuel {} (init fl) [] h).1

def linearize (fl : Flavour) (cfg : Cfg) (h : History) (quiesce : Bool := false) : Option St :=
  (linearizeP fl cfg h quiesce).map (·.1)

def linearizable (fl : Flavour) (cfg : Cfg) (h : History) (quiesce : Bool := false) : Bool :=
  (linearize fl cfg h quiesce).isSome

/-- length of the shortest non-linearizable prefix (histories are prefix-closed w.r.t. linearizability) -/
def shortestBadPrefix (fl : Flavour) (cfg : Cfg) (h : History) : Nat :=
  go h.length 0
where
  go : Nat → Nat → Nat
    | 0, k => k
    | fuel + 1, k => if linearizable fl cfg (h.take k) then go fuel (k + 1) else k

end Fv.Chan
