/-
B-level (one visible action per step) model of fibre's bounded MPSC v3
(`channels/src/mpsc/bounded_v3/{shared,producer,consumer,mod}.rs`).

Granularity: every shim-visible action (atomic load/store/RMW/CAS, `fence`, shim `Mutex`
lock/unlock, `park`, `unpark`, `hint::spin_loop`, `thread::yield_now`) is one step of `next`;
the non-atomic work between two visible actions (slot payload write / `take()`, `VecDeque`
push/pop/retain under a waiter lock, `Head` field updates under the head lock, counting-waker
bumps) is folded into an adjacent visible action of the same thread.  `pc` names the NEXT visible
action of the thread.

Slots are indexed BY TICKET (`slot : Nat → Slot`); the chunk table (`tblId`, `retired`, the
consumer's `cid/idx`) is modelled as the code has it and decides which `ensure_resident` /
`deq_once` branches are taken; the physical slot touched by an access is reported in the action
label (`Obj.slotSt (cid % n) idx`) so that the trace tie checks the ticket→physical mapping.

Parameters (`Cfg`): capacity, initial publish cadence K (`min(cap,64)` sync / `cap` async),
chunk size and table size (`MODEL_CHECK` shrinks them), spin budget (`SYNC_SPIN_LIMIT`).
Programs (`prog : Tid → List Op`) and the number of threads are arbitrary.

Modelled API forms: sync `send`, `try_send`, async `send` (manual `poll`/drop and `block_on`),
sync `recv`, `try_recv`, `recv_timeout(0)`, async `recv` (manual and `block_on`), `clone`,
sender `close`/drop, receiver `close`/drop, `len`/`is_empty`/`is_full`/`capacity`/`is_closed`.
Not modelled (the tie skips cases that use them): batch forms, `to_sync`/`to_async`, `Stream`.

Code ↔ pc map: see the `Pc` constructors (grouped by function, in source order).
-/
namespace Fv.Chan.Mpsc3B
set_option linter.unusedVariables false

abbrev Tid := Nat
abbrev Hid := Nat
abbrev Fid := Nat

structure Cfg where
  cap : Nat := 1
  k0 : Nat := 1            -- initial `publish_chunk` (already clamped to [1, cap])
  chunkCap : Nat := 4
  nChunks : Nat := 5
  spinLimit : Nat := 1     -- SYNC_SPIN_LIMIT
  deriving Repr, DecidableEq

/-- value token: producer thread, per-producer sequence number (ghost identity), payload id -/
structure Tok where
  p : Nat
  k : Nat
  v : Nat
  deriving DecidableEq, Repr

inductive Slot
  | empty
  | set (x : Tok)
  | skip
  deriving DecidableEq, Repr

def Slot.code : Slot → Nat
  | .empty => 0
  | .set _ => 1
  | .skip => 2

/-- a `Waker`: the harness executor's task waker (counts, then unparks the thread) or a manual
future's counting waker (counts only; invoking it is not a visible action) -/
inductive Wk
  | task (t : Tid)
  | cnt (f : Fid)
  deriving DecidableEq, Repr

inductive Op
  | send (h : Hid) (v : Nat)           -- sync `Sender::send`
  | trySend (h : Hid) (v : Nat)        -- `try_send` (sync and async handles: same code)
  | sendA (h : Hid) (v : Nat)          -- `block_on(AsyncSender::send)`
  | futSend (f : Fid) (h : Hid) (v : Nat)
  | futRecv (f : Fid)
  | poll (f : Fid)
  | dropFut (f : Fid)
  | wakes (f : Fid)
  | recv                               -- sync `Receiver::recv`
  | tryRecv
  | recvT0                             -- `recv_timeout(Duration::ZERO)`
  | recvA                              -- `block_on(AsyncReceiver::recv)`
  | clone (h h2 : Hid)
  | closeS (h : Hid)
  | dropS (h : Hid)
  | closeR
  | dropR
  | len
  | isEmpty
  | isFull
  | capacity
  | isClosedS (h : Hid)
  | isClosedR
  | nop
  deriving DecidableEq, Repr

inductive Res
  | none
  | ok
  | okv (v : Nat)
  | errClosed
  | errClosedV (v : Nat)
  | errFull (v : Nat)
  | errEmpty
  | errDisc
  | errTimeout
  | errClose
  | pending
  | okWoken
  | n (k : Nat)
  | b (x : Bool)
  deriving DecidableEq, Repr

/-- who called `try_send_now` / `window_open` -/
inductive TsSite
  | sendFirst | sendSpin | sendLoop | tryHot | tryCold | poll | recheck
  deriving DecidableEq, Repr

/-- who runs the `closed || !receivers_alive()` check -/
inductive ChkSite
  | sendEntry | sendLoop | trySend | pollS | recheck | isClosed
  deriving DecidableEq, Repr

/-- who called `deq_once` (and the `senders_alive` test that follows an `Empty`) -/
inductive DqSite
  | recv | recvStrag | tryRecv | tryStrag | rt0 | rt0Strag | pr1 | pr1Strag | pr2 | pr2Strag | probe
  deriving DecidableEq, Repr

/-- who called `publish_progress` -/
inductive PbSite
  | dqSet | dqSkip | flush
  deriving DecidableEq, Repr

/-- who called `flush_progress` -/
inductive FlSite
  | recvWait | recvDisc | tryEmpty | tryDisc | rt0 | rt0Disc | pr1 | pr1Disc
  deriving DecidableEq, Repr

/-- what follows `finish_sync_*` / `unregister_async_*` -/
inductive FinSite
  | retOk | retClosed | retGot | retDisc | recvLoop | dropFut
  deriving DecidableEq, Repr

/-- what follows `wake_all_receivers` / a probe's loads -/
inductive PrSite
  | len | isEmpty | isFull | isClosedR
  deriving DecidableEq, Repr

/-- program counters: each names the next visible action.  Source order, per function. -/
inductive Pc
  | idle
  | ret                                  -- harness: the op returns `th.res`
  -- `closed.load(Relaxed) || !receivers_alive()`                       (producer.rs, all send forms)
  | cClosed | cRx
  -- `try_send_now` / `try_send_now_cold` / `window_open`                (shared.rs 630 / 304 / 270)
  | tG | tP | tFadd | tCred
  -- `write_slot` + `ensure_resident`                                   (shared.rs 608 / 587)
  | eId | eRet | eSpin | eCas | wSt
  -- `notify_receiver`                                                  (shared.rs 539)
  | nFence | nSC | nSLock | nSCnt | nSFlag | nSUnlock | nSUnpark
  | nAC | nALock | nACnt | nAUnlock | nAWake
  -- `send_inner` small-cap spin loop                                   (producer.rs 76)
  | sYield
  -- `register_sync_send` + `fence(SeqCst)`                             (shared.rs 382, producer.rs 121)
  | rgLock | rgCnt | rgUnlock | rgFence
  -- `spin_before_park_cap1`, `notified.load`, `park`, `notified.swap`  (producer.rs 109)
  | pkSpinLd | pkSpin | pkFlagLd | pkPark | pkSwap
  -- `finish_sync_send`                                                 (shared.rs 411)
  | fnLock | fnCnt | fnUnlock | fnFlagLd | fnSpin
  -- `unregister_async_send`                                            (shared.rs 433)
  | uaLock | uaCnt | uaUnlock
  -- `register_async_send` + `fence(SeqCst)`                            (shared.rs 419, producer.rs 558)
  | raLock | raCnt | raUnlock | raFence
  -- harness `block_on`: Pending → park
  | boPark
  -- `Sender::clone` / `close` / `drop_sender` / `wake_all_receivers`    (producer.rs 311, shared.rs 339 / 562)
  | cnAdd | clCas | clSub
  | waSLock | waSCnt | waSFlag | waSUnpark | waSUnlock
  | waALock | waACnt | waAWake | waAUnlock
  -- `Receiver::close` / `drop_receiver` / `wake_all_senders`            (consumer.rs 295, shared.rs 345 / 480)
  | rcCas | rdStore
  | wsSLock | wsSFlag | wsSCnt | wsSUnlock | wsALock | wsACnt | wsAUnlock | wsUnpark | wsWake
  -- receiver `closed.load`
  | rClosed
  -- `deq_once`                                                         (shared.rs 708)
  | dLock | dId | dRetire | dSlot | dEmpty | dDr | dG | dUnlock
  -- `publish_progress`                                                 (shared.rs 830)
  | pDr | pPr
  -- `notify_senders`                                                   (shared.rs 446)
  | sFence | sSC | sSLock | sSFlag | sSCnt | sSUnlock | sUnpark
  | sAC | sALock | sACnt | sAUnlock | sAWake
  -- `senders_alive`
  | rSc
  -- `flush_progress`                                                   (shared.rs 839)
  | fLock | fUnlock
  -- `register_sync_recv` + fence                                       (shared.rs 510, consumer.rs 122)
  | rrLock | rrUnlock | rrCnt | rrFence
  -- receiver park sequence                                             (consumer.rs 97)
  | rpSpinLd | rpSpin | rpFlagLd | rpPark
  -- `finish_sync_recv` + `notified.store(false)`                       (shared.rs 521, consumer.rs 108)
  | frLock | frUnlock | frCnt | frFlagLd | frSpin | rFlagReset
  -- `thread::yield_now()` in the pre-register spin (cap > 4)           (consumer.rs 118)
  | rYield
  -- `register_async_recv` + fence / `unregister_async_recv`            (shared.rs 529 / 534)
  | arLock | arUnlock | arCnt | arFence
  | auLock | auUnlock | auCnt
  -- probes: `len` = `g_tail.load(Acquire)`, `drained.load(Acquire)`    (shared.rs 366)
  | lG | lD
  deriving DecidableEq, Repr

structure Th where
  pc : Pc := .idle
  op : Op := .nop
  h : Hid := 0                      -- sender handle of the current op
  v : Nat := 0                      -- payload id of the current send
  ts : TsSite := .tryHot
  chk : ChkSite := .trySend
  dq : DqSite := .tryRecv
  pb : PbSite := .flush
  fl : FlSite := .tryEmpty
  fin : FinSite := .retOk
  pr : PrSite := .len
  cold : Bool := false              -- `try_send_now_cold`
  g : Nat := 0                      -- last `g_tail` loaded
  tk : Nat := 0                     -- claimed ticket
  okc : Bool := false               -- `credit_ok` result
  cur : Nat := 0                    -- `ensure_resident`'s `cur`
  reg : Bool := false               -- `is_registered`
  myId : Option Nat := none
  spins : Nat := 0
  sp2 : Nat := 0                    -- `spin_before_park_cap1` loop counter
  rm : Bool := false                -- `unregister_*`: an entry was removed
  fg : Nat := 0                     -- generation of this call's stack-local `notified`
  nfl : Nat := 0                    -- stack flags created so far by this thread
  w1 : Option (Tid × Nat) := none   -- recv waiter taken by a notifier
  aw1 : Option Wk := none           -- async waker taken by a notifier
  wl : List (Tid × Nat) := []       -- `to_wake`
  awl : List Wk := []               -- `async_to_wake`
  freed : Nat := 0
  got : Option Tok := none          -- value taken by `deq_once`
  dres : Nat := 0                   -- deq result when `got = none`: 0 = Empty, 1 = InFlight
  skipd : Bool := false             -- `dEmpty` resets a SKIP (not a SET)
  item : Option Nat := none         -- `SendFuture::item`
  blockOn : Bool := false
  curF : Fid := 0
  res : Res := .none
  seq0 : Nat := 0                   -- ghost: `seq t` when the current op was called
  z0 : Bool := false                -- ghost: this call has read `sender_count == 0`
  ze : Bool := false                -- ghost: the current/last `deq_once` stopped at an EMPTY slot / absent chunk
  hb : Bool := false                -- this call keeps sender handle `h` busy
  rb : Bool := false                -- this call keeps the receiver handle busy
  deriving Repr

inductive FK | absent | send | recv
  deriving DecidableEq, Repr

structure Fut where
  kind : FK := .absent
  h : Hid := 0
  item : Option Nat := none
  myId : Option Nat := none
  reg : Bool := false
  deriving Repr, DecidableEq

structure State where
  -- atomics of `Shared`
  gtail : Nat := 0
  progress : Nat := 0
  drained : Nat := 0
  retired : Nat := 0
  senderCount : Nat := 1
  rxDropped : Bool := false
  ssCount : Nat := 0
  asCount : Nat := 0
  srCount : Nat := 0
  arCount : Nat := 0
  tblId : Nat → Nat := fun e => e
  slot : Nat → Slot := fun _ => .empty          -- BY TICKET
  sClosed : Hid → Bool := fun _ => false
  rClosed : Bool := false
  flag : Tid → Nat → Bool := fun _ _ => false   -- stack-local `notified` (thread, generation)
  -- shim mutexes (holder)
  mHead : Option Tid := none
  mSS : Option Tid := none
  mAS : Option Tid := none
  mSR : Option Tid := none
  mAR : Option Tid := none
  -- data guarded by them
  hCid : Nat := 0
  hIdx : Nat := 0
  hPos : Nat := 0
  hUnpub : Nat := 0
  hK : Nat := 1
  ssq : List (Nat × Tid × Nat) := []            -- (id, thread, flag generation)
  ssNext : Nat := 0
  asq : List (Nat × Wk) := []
  asNext : Nat := 0
  srw : Option (Tid × Nat) := none
  arw : Option Wk := none
  -- scheduler
  token : Tid → Bool := fun _ => false
  -- threads, programs, futures
  th : Tid → Th := fun _ => {}
  prog : Tid → List Op := fun _ => []
  fut : Fid → Fut := fun _ => {}
  wakes : Fid → Nat := fun _ => 0               -- counting wakers of manual futures
  twakes : Tid → Nat := fun _ => 0              -- executor task wake counters
  -- handle bookkeeping (a handle is used by one call at a time; Rust ownership / the harness)
  hLive : Hid → Bool := fun h => h == 0         -- handle exists and has not been dropped
  hUsed : Hid → Bool := fun h => h == 0         -- handle id was ever created (ids are never reused)
  sBusy : Hid → Option Tid := fun _ => none
  rLive : Bool := true
  rBusy : Option Tid := none
  -- ghost history
  log : Nat → Option Tok := fun _ => none       -- ticket ↦ token written SET (never cleared)
  recvd : List Tok := []                        -- tokens drained, in drain order
  seq : Tid → Nat := fun _ => 0                 -- SETs written so far by the thread
  acked : Tid → Nat := fun _ => 0               -- send forms that returned Ok
  counted : List Hid := []                      -- handles contributing to `sender_count`
  resurrect : Bool := false                     -- `clone` raised `sender_count` from 0

def init (c : Cfg) (prog : Tid → List Op) : State :=
  { hK := c.k0, prog := prog, counted := [0] }

def upd {α} (f : Nat → α) (i : Nat) (a : α) : Nat → α := fun j => if j = i then a else f j
def upd2 {α} (f : Nat → Nat → α) (i j : Nat) (a : α) : Nat → Nat → α :=
  fun i' j' => if i' = i ∧ j' = j then a else f i' j'

/-! ## Action labels -/

inductive Kind
  | load | store | swap | fadd | fsub | cas | fence | lock | unlock | park | unpark | spin | yield
  | call | ret | spurious
  deriving DecidableEq, Repr

inductive Ord | na | relaxed | acquire | release | acqrel | seqcst
  deriving DecidableEq, Repr

inductive Obj
  | none
  | gtail | progress | drained | retired | senderCount | rxDropped
  | ssCount | asCount | srCount | arCount
  | tblId (e : Nat)
  | slotSt (e i : Nat)                   -- PHYSICAL slot: table entry, index in chunk
  | sClosed (h : Hid) | rClosed
  | flag (t : Tid) (g : Nat)
  | mHead | mSS | mAS | mSR | mAR
  | thread (t : Tid)
  deriving DecidableEq, Repr

structure Act where
  kind : Kind
  obj : Obj := .none
  ord : Ord := .na
  ord2 : Ord := .na          -- CAS failure ordering
  old : Nat := 0             -- value found
  new : Nat := 0             -- value in the cell afterwards
  ok : Bool := true          -- CAS outcome
  deriving DecidableEq, Repr

def b2n (b : Bool) : Nat := if b then 1 else 0

def aLoad (o : Obj) (r : Ord) (v : Nat) : Act := { kind := .load, obj := o, ord := r, old := v, new := v }
def aStore (o : Obj) (r : Ord) (old new : Nat) : Act := { kind := .store, obj := o, ord := r, old := old, new := new }
def aLock (o : Obj) : Act := { kind := .lock, obj := o }
def aUnlock (o : Obj) : Act := { kind := .unlock, obj := o }
def aFence : Act := { kind := .fence, ord := .seqcst }
def aUnpark (t : Tid) : Act := { kind := .unpark, obj := .thread t }

/-! ## Continuations (pure functions of the thread-local state) -/

/-- `Poll::Pending`: a manual poll returns it, `block_on` parks. -/
def retPending (x : Th) : Th :=
  if x.blockOn then { x with pc := .boPark } else { x with pc := .ret, res := .pending }

def retWith (x : Th) (r : Res) : Th := { x with pc := .ret, res := r }

/-- `spin_before_park_cap1(cap, &notified)` then `if !notified.load(Relaxed)` (sender) -/
def parkSeqS (c : Cfg) (x : Th) : Th :=
  if c.cap = 1 ∧ 0 < c.spinLimit then { x with pc := .pkSpinLd, sp2 := 0 } else { x with pc := .pkFlagLd }

def parkSeqR (c : Cfg) (x : Th) : Th :=
  if c.cap = 1 ∧ 0 < c.spinLimit then { x with pc := .rpSpinLd, sp2 := 0 } else { x with pc := .rpFlagLd }

/-- `send_inner`: `let notified = AtomicBool::new(false)`, then the register/park loop -/
def enterLoop (x : Th) : Th :=
  { x with pc := .cClosed, chk := .sendLoop, reg := false, myId := none, fg := x.nfl, nfl := x.nfl + 1 }

/-- call `try_send_now` from `site` -/
def tsCall (x : Th) (site : TsSite) : Th := { x with pc := .tG, ts := site, cold := false }

/-- `try_send_now` returned `Ok(())` -/
def tsOk (x : Th) : Th :=
  match x.ts with
  | .sendLoop => if x.myId.isSome then { x with pc := .fnLock, fin := .retOk } else retWith x .ok
  | .poll => if x.myId.isSome then { x with pc := .uaLock, fin := .retOk } else retWith x .ok
  | _ => retWith x .ok

/-- `try_send_now` returned `Err(v)` / `window_open()` returned false -/
def tsErr (c : Cfg) (x : Th) : Th :=
  match x.ts with
  | .sendFirst => if c.cap ≤ 4 ∧ 0 < c.spinLimit then { x with pc := .sYield, spins := 0 } else enterLoop x
  | .sendSpin => if x.spins + 1 < c.spinLimit then { x with pc := .sYield, spins := x.spins + 1 } else enterLoop x
  | .sendLoop => if x.reg then parkSeqS c x else { x with pc := .rgLock }
  | .tryHot => { x with pc := .tG, ts := .tryCold, cold := true }
  | .tryCold => retWith x (.errFull x.v)
  | .poll => { x with pc := .raLock }
  | .recheck => { x with pc := .cRx, chk := .recheck }

/-- the `closed || !receivers_alive()` test said "closed" -/
def chkClosed (x : Th) : Th :=
  match x.chk with
  | .sendEntry => retWith x .errClosed
  | .sendLoop => if x.myId.isSome then { x with pc := .fnLock, fin := .retClosed } else retWith x .errClosed
  | .trySend => retWith x (.errClosedV x.v)
  | .pollS => if x.myId.isSome then { x with pc := .uaLock, fin := .retClosed } else retWith x .errClosed
  | .recheck => { x with pc := .cClosed, chk := .pollS }
  | .isClosed => retWith x (.b true)

/-- ... said "open" -/
def chkOpen (x : Th) : Th :=
  match x.chk with
  | .sendEntry => tsCall x .sendFirst
  | .sendLoop => tsCall x .sendLoop
  | .trySend => tsCall x .tryHot
  | .pollS => if x.item.isSome then tsCall x .poll else retWith x .ok
  | .recheck => retPending x
  | .isClosed => retWith x (.b false)

/-- `notify_receiver` finished (end of `write_slot`): back in `try_send_now` -/
def nrDone (x : Th) : Th := if x.okc then tsOk x else { x with pc := .tG }

/-- `finish_sync_send` / `unregister_async_send` done -/
def finDoneS (x : Th) : Th :=
  match x.fin with
  | .retClosed => retWith x .errClosed
  | .dropFut => { x with pc := .ret }
  | _ => retWith x .ok

/-- `finish_sync_recv` / `unregister_async_recv` done -/
def finDoneR (x : Th) : Th :=
  match x.fin with
  | .retGot => retWith x (match x.got with | some y => .okv y.v | none => .none)
  | .retDisc => retWith x .errDisc
  | .recvLoop => { x with pc := .rFlagReset }
  | .dropFut => { x with pc := .ret }
  | _ => retWith x .none

def deqCall (x : Th) (site : DqSite) : Th := { x with pc := .dLock, dq := site, got := none, dres := 0, ze := false }
def flushCall (x : Th) (site : FlSite) : Th := { x with pc := .fLock, fl := site }

def gotRes (x : Th) : Res := match x.got with | some y => .okv y.v | none => .none

/-- `deq_once` returned (head lock released) -/
def deqDone (x : Th) : Th :=
  match x.dq with
  | .recv =>
    if x.got.isSome then (if x.reg then { x with pc := .frLock, fin := .retGot } else retWith x (gotRes x))
    else if x.dres = 0 then { x with pc := .rSc } else flushCall x .recvWait
  | .recvStrag =>
    if x.got.isSome then (if x.reg then { x with pc := .frLock, fin := .retGot } else retWith x (gotRes x))
    else flushCall x .recvDisc
  | .tryRecv =>
    if x.got.isSome then retWith x (gotRes x)
    else if x.dres = 0 then { x with pc := .rSc } else flushCall x .tryEmpty
  | .tryStrag => if x.got.isSome then retWith x (gotRes x) else flushCall x .tryDisc
  | .rt0 =>
    if x.got.isSome then retWith x (gotRes x)
    else if x.dres = 0 then { x with pc := .rSc } else flushCall x .rt0
  | .rt0Strag => if x.got.isSome then retWith x (gotRes x) else flushCall x .rt0Disc
  | .pr1 =>
    if x.got.isSome then (if x.reg then { x with pc := .auLock, fin := .retGot } else retWith x (gotRes x))
    else if x.dres = 0 then { x with pc := .rSc } else flushCall x .pr1
  | .pr1Strag =>
    if x.got.isSome then (if x.reg then { x with pc := .auLock, fin := .retGot } else retWith x (gotRes x))
    else flushCall x .pr1Disc
  | .pr2 =>
    if x.got.isSome then { x with pc := .auLock, fin := .retGot }
    else if x.dres = 0 then { x with pc := .rSc } else retPending x
  | .pr2Strag =>
    if x.got.isSome then { x with pc := .auLock, fin := .retGot } else { x with pc := .auLock, fin := .retDisc }
  | .probe => retWith x .none

/-- `senders_alive()` evaluated after an `Empty` (`n` = the count read) -/
def scDone (x : Th) (n : Nat) : Th :=
  match x.dq with
  | .recv => if n = 0 then deqCall { x with z0 := true } .recvStrag else flushCall x .recvWait
  | .tryRecv => if n = 0 then deqCall { x with z0 := true } .tryStrag else flushCall x .tryEmpty
  | .rt0 => if n = 0 then deqCall { x with z0 := true } .rt0Strag else flushCall x .rt0
  | .pr1 => if n = 0 then deqCall { x with z0 := true } .pr1Strag else flushCall x .pr1
  | .pr2 => if n = 0 then deqCall { x with z0 := true } .pr2Strag else retPending x
  | .probe => if n = 0 then { x with pc := .lG, pr := .isClosedR } else retWith x (.b false)
  | _ => retWith x .none

/-- `flush_progress` returned -/
def flushDone (c : Cfg) (x : Th) : Th :=
  match x.fl with
  | .recvWait =>
    if x.reg then parkSeqR c x
    else if x.spins < c.spinLimit then
      (if c.cap ≤ 4 then deqCall { x with spins := x.spins + 1 } .recv      -- `std::hint::spin_loop()`: not visible
       else { x with pc := .rYield, spins := x.spins + 1 })
    else { x with pc := .rrLock }
  | .recvDisc => if x.reg then { x with pc := .frLock, fin := .retDisc } else retWith x .errDisc
  | .tryEmpty => retWith x .errEmpty
  | .tryDisc => retWith x .errDisc
  | .rt0 => retWith x .errTimeout
  | .rt0Disc => retWith x .errDisc
  | .pr1 => { x with pc := .arLock }
  | .pr1Disc => if x.reg then { x with pc := .auLock, fin := .retDisc } else retWith x .errDisc

/-- `publish_progress` returned -/
def pubDone (x : Th) : Th :=
  match x.pb with
  | .dqSet => { x with pc := .dDr }
  | .dqSkip => { x with pc := .dId }
  | .flush => { x with pc := .fUnlock }

/-- `len()` from the two loads -/
def lenOf (c : Cfg) (g d : Nat) : Nat := if d ≤ g then min (g - d) c.cap else c.cap

def probeDone (c : Cfg) (x : Th) (d : Nat) : Th :=
  let n := lenOf c x.g d
  match x.pr with
  | .len => retWith x (.n n)
  | .isEmpty => retWith x (.b (n == 0))
  | .isFull => retWith x (.b (decide (c.cap ≤ n)))
  | .isClosedR => retWith x (.b (n == 0))

/-- wrapping `a - b < cap` on `usize` (for `b ≤ a + cap`) -/
def wlt (a b cap : Nat) : Bool := decide (b ≤ a ∧ a - b < cap)

/-- invoke the counting wakers at the front of a wake list (not visible actions) -/
def bumpCnts (wakes : Fid → Nat) : List Wk → (Fid → Nat) × List Wk
  | [] => (wakes, [])
  | .cnt f :: rest => bumpCnts (upd wakes f (wakes f + 1)) rest
  | .task t :: rest => (wakes, .task t :: rest)

def ids (q : List (Nat × Tid × Nat)) : List Nat := q.map (·.1)

/-! ## The step function: `next c s t` = the visible action thread `t` performs next and the
resulting state (`none`: idle/blocked on a mutex/parked without token). -/

def phys (c : Cfg) (tk : Nat) : Obj := .slotSt ((tk / c.chunkCap) % c.nChunks) (tk % c.chunkCap)

def wkOf (t : Tid) (x : Th) : Wk := if x.blockOn then .task t else .cnt x.curF

/-- entry of a (re-)poll of the current future -/
def pollEntry (x : Th) : Th :=
  if x.hb then { x with pc := .cClosed, chk := .pollS }
  else if x.rb then { x with pc := .rClosed }
  else retWith x .none

/-! One definition per program counter (`nx<Pc>`), dispatched by `next`. -/
def nxIdle (c : Cfg) (s : State) (t : Tid) : Option (Act × State) :=
  none

def nxRet (c : Cfg) (s : State) (t : Tid) : Option (Act × State) :=
  none          -- handled by `stepRet`

-- closed checks
def nxCClosed (c : Cfg) (s : State) (t : Tid) : Option (Act × State) :=
  let x := s.th t
  let W : State → Th → State := fun s' x' => { s' with th := upd s'.th t x' }
  let b := s.sClosed x.h
  some (aLoad (.sClosed x.h) .relaxed (b2n b), W s (if b then chkClosed x else { x with pc := .cRx }))

def nxCRx (c : Cfg) (s : State) (t : Tid) : Option (Act × State) :=
  let x := s.th t
  let W : State → Th → State := fun s' x' => { s' with th := upd s'.th t x' }
  let b := s.rxDropped
  some (aLoad .rxDropped .acquire (b2n b), W s (if b then chkClosed x else chkOpen x))

-- try_send_now
def nxTG (c : Cfg) (s : State) (t : Tid) : Option (Act × State) :=
  let x := s.th t
  let W : State → Th → State := fun s' x' => { s' with th := upd s'.th t x' }
  some (aLoad .gtail .relaxed s.gtail, W s { x with pc := .tP, g := s.gtail })

def nxTP (c : Cfg) (s : State) (t : Tid) : Option (Act × State) :=
  let x := s.th t
  let W : State → Th → State := fun s' x' => { s' with th := upd s'.th t x' }
  let p := if x.cold then s.drained else s.progress
  let o : Obj := if x.cold then .drained else .progress
  let x' := if wlt x.g p c.cap then
              (match x.ts with
               | .recheck => { x with pc := .cClosed, chk := .pollS }
               | _ => { x with pc := .tFadd })
            else tsErr c x
  some (aLoad o .acquire p, W s x')

def nxTFadd (c : Cfg) (s : State) (t : Tid) : Option (Act × State) :=
  let x := s.th t
  let W : State → Th → State := fun s' x' => { s' with th := upd s'.th t x' }
  some ({ kind := .fadd, obj := .gtail, ord := .relaxed, old := s.gtail, new := s.gtail + 1 },
        W { s with gtail := s.gtail + 1 } { x with pc := .tCred, tk := s.gtail })

def nxTCred (c : Cfg) (s : State) (t : Tid) : Option (Act × State) :=
  let x := s.th t
  let W : State → Th → State := fun s' x' => { s' with th := upd s'.th t x' }
  let p := if x.cold then s.drained else s.progress
  let o : Obj := if x.cold then .drained else .progress
  some (aLoad o .acquire p, W s { x with pc := .eId, okc := wlt x.tk p c.cap })

-- ensure_resident + slot store
def nxEId (c : Cfg) (s : State) (t : Tid) : Option (Act × State) :=
  let x := s.th t
  let W : State → Th → State := fun s' x' => { s' with th := upd s'.th t x' }
  let e := (x.tk / c.chunkCap) % c.nChunks
  let cur := s.tblId e
  some (aLoad (.tblId e) .acquire cur,
        W s (if cur = x.tk / c.chunkCap then { x with pc := .wSt } else { x with pc := .eRet, cur := cur }))

def nxERet (c : Cfg) (s : State) (t : Tid) : Option (Act × State) :=
  let x := s.th t
  let W : State → Th → State := fun s' x' => { s' with th := upd s'.th t x' }
  some (aLoad .retired .acquire s.retired,
        W s (if s.retired < x.cur + 1 then { x with pc := .eSpin } else { x with pc := .eCas }))

def nxESpin (c : Cfg) (s : State) (t : Tid) : Option (Act × State) :=
  let x := s.th t
  let W : State → Th → State := fun s' x' => { s' with th := upd s'.th t x' }
  some ({ kind := .spin }, W s { x with pc := .eRet })

def nxECas (c : Cfg) (s : State) (t : Tid) : Option (Act × State) :=
  let x := s.th t
  let W : State → Th → State := fun s' x' => { s' with th := upd s'.th t x' }
  let e := (x.tk / c.chunkCap) % c.nChunks
  let cid := x.tk / c.chunkCap
  if s.tblId e = x.cur then
    some ({ kind := .cas, obj := .tblId e, ord := .acqrel, ord2 := .acquire, old := x.cur, new := cid, ok := true },
          W { s with tblId := upd s.tblId e cid } { x with pc := .wSt })
  else
    some ({ kind := .cas, obj := .tblId e, ord := .acqrel, ord2 := .acquire, old := s.tblId e, new := s.tblId e, ok := false },
          W s { x with pc := .eId })

def nxWSt (c : Cfg) (s : State) (t : Tid) : Option (Act × State) :=
  let x := s.th t
  let W : State → Th → State := fun s' x' => { s' with th := upd s'.th t x' }
  let old := (s.slot x.tk).code
  if x.okc then
    let tok : Tok := { p := t, k := s.seq t, v := x.v }
    some (aStore (phys c x.tk) .release old 1,
          W { s with slot := upd s.slot x.tk (.set tok), log := upd s.log x.tk (some tok),
                     seq := upd s.seq t (s.seq t + 1) } { x with pc := .nFence })
  else
    some (aStore (phys c x.tk) .release old 2,
          W { s with slot := upd s.slot x.tk .skip } { x with pc := .nFence })

-- notify_receiver
def nxNFence (c : Cfg) (s : State) (t : Tid) : Option (Act × State) :=
  let x := s.th t
  let W : State → Th → State := fun s' x' => { s' with th := upd s'.th t x' }
  some (aFence, W s { x with pc := .nSC })

def nxNSC (c : Cfg) (s : State) (t : Tid) : Option (Act × State) :=
  let x := s.th t
  let W : State → Th → State := fun s' x' => { s' with th := upd s'.th t x' }
  some (aLoad .srCount .relaxed s.srCount, W s (if s.srCount ≠ 0 then { x with pc := .nSLock } else { x with pc := .nAC }))

def nxNSLock (c : Cfg) (s : State) (t : Tid) : Option (Act × State) :=
  let x := s.th t
  let W : State → Th → State := fun s' x' => { s' with th := upd s'.th t x' }
  if s.mSR = none then
    some (aLock .mSR, W { s with mSR := some t, srw := none }
            (if s.srw.isSome then { x with pc := .nSCnt, w1 := s.srw } else { x with pc := .nSUnlock, w1 := none }))
  else none

def nxNSCnt (c : Cfg) (s : State) (t : Tid) : Option (Act × State) :=
  let x := s.th t
  let W : State → Th → State := fun s' x' => { s' with th := upd s'.th t x' }
  some (aStore .srCount .release s.srCount 0, W { s with srCount := 0 } { x with pc := .nSFlag })

def nxNSFlag (c : Cfg) (s : State) (t : Tid) : Option (Act × State) :=
  let x := s.th t
  let W : State → Th → State := fun s' x' => { s' with th := upd s'.th t x' }
  match x.w1 with
  | some (u, g) =>
    some (aStore (.flag u g) .release (b2n (s.flag u g)) 1, W { s with flag := upd2 s.flag u g true } { x with pc := .nSUnlock })
  | none => none

def nxNSUnlock (c : Cfg) (s : State) (t : Tid) : Option (Act × State) :=
  let x := s.th t
  let W : State → Th → State := fun s' x' => { s' with th := upd s'.th t x' }
  some (aUnlock .mSR, W { s with mSR := none } (if x.w1.isSome then { x with pc := .nSUnpark } else { x with pc := .nAC }))

def nxNSUnpark (c : Cfg) (s : State) (t : Tid) : Option (Act × State) :=
  let x := s.th t
  let W : State → Th → State := fun s' x' => { s' with th := upd s'.th t x' }
  match x.w1 with
  | some (u, _) => some (aUnpark u, W { s with token := upd s.token u true } { x with pc := .nAC, w1 := none })
  | none => none

def nxNAC (c : Cfg) (s : State) (t : Tid) : Option (Act × State) :=
  let x := s.th t
  let W : State → Th → State := fun s' x' => { s' with th := upd s'.th t x' }
  some (aLoad .arCount .relaxed s.arCount, W s (if s.arCount ≠ 0 then { x with pc := .nALock } else nrDone x))

def nxNALock (c : Cfg) (s : State) (t : Tid) : Option (Act × State) :=
  let x := s.th t
  let W : State → Th → State := fun s' x' => { s' with th := upd s'.th t x' }
  if s.mAR = none then
    some (aLock .mAR, W { s with mAR := some t, arw := none }
            (if s.arw.isSome then { x with pc := .nACnt, aw1 := s.arw } else { x with pc := .nAUnlock, aw1 := none }))
  else none

def nxNACnt (c : Cfg) (s : State) (t : Tid) : Option (Act × State) :=
  let x := s.th t
  let W : State → Th → State := fun s' x' => { s' with th := upd s'.th t x' }
  some (aStore .arCount .release s.arCount 0, W { s with arCount := 0 } { x with pc := .nAUnlock })

def nxNAUnlock (c : Cfg) (s : State) (t : Tid) : Option (Act × State) :=
  let x := s.th t
  let W : State → Th → State := fun s' x' => { s' with th := upd s'.th t x' }
  match x.aw1 with
  | none => some (aUnlock .mAR, W { s with mAR := none } (nrDone x))
  | some (.cnt f) =>
    some (aUnlock .mAR, W { s with mAR := none, wakes := upd s.wakes f (s.wakes f + 1) } (nrDone { x with aw1 := none }))
  | some (.task _) => some (aUnlock .mAR, W { s with mAR := none } { x with pc := .nAWake })

def nxNAWake (c : Cfg) (s : State) (t : Tid) : Option (Act × State) :=
  let x := s.th t
  let W : State → Th → State := fun s' x' => { s' with th := upd s'.th t x' }
  match x.aw1 with
  | some (.task u) =>
    some (aUnpark u, W { s with token := upd s.token u true, twakes := upd s.twakes u (s.twakes u + 1) } (nrDone { x with aw1 := none }))
  | _ => none

-- send_inner spin loop
def nxSYield (c : Cfg) (s : State) (t : Tid) : Option (Act × State) :=
  let x := s.th t
  let W : State → Th → State := fun s' x' => { s' with th := upd s'.th t x' }
  some ({ kind := .yield }, W s (tsCall x .sendSpin))

-- register_sync_send
def nxRgLock (c : Cfg) (s : State) (t : Tid) : Option (Act × State) :=
  let x := s.th t
  let W : State → Th → State := fun s' x' => { s' with th := upd s'.th t x' }
  if s.mSS = none then
    some (aLock .mSS, W { s with mSS := some t, ssq := s.ssq ++ [(s.ssNext, t, x.fg)], ssNext := s.ssNext + 1 }
            { x with pc := .rgCnt, myId := some s.ssNext })
  else none

def nxRgCnt (c : Cfg) (s : State) (t : Tid) : Option (Act × State) :=
  let x := s.th t
  let W : State → Th → State := fun s' x' => { s' with th := upd s'.th t x' }
  some (aStore .ssCount .release s.ssCount s.ssq.length, W { s with ssCount := s.ssq.length } { x with pc := .rgUnlock })

def nxRgUnlock (c : Cfg) (s : State) (t : Tid) : Option (Act × State) :=
  let x := s.th t
  let W : State → Th → State := fun s' x' => { s' with th := upd s'.th t x' }
  some (aUnlock .mSS, W { s with mSS := none } { x with pc := .rgFence })

def nxRgFence (c : Cfg) (s : State) (t : Tid) : Option (Act × State) :=
  let x := s.th t
  let W : State → Th → State := fun s' x' => { s' with th := upd s'.th t x' }
  some (aFence, W s { x with pc := .cClosed, chk := .sendLoop, reg := true })

-- park sequence (sender)
def nxPkSpinLd (c : Cfg) (s : State) (t : Tid) : Option (Act × State) :=
  let x := s.th t
  let W : State → Th → State := fun s' x' => { s' with th := upd s'.th t x' }
  let b := s.flag t x.fg
  some (aLoad (.flag t x.fg) .relaxed (b2n b), W s (if b then { x with pc := .pkFlagLd } else { x with pc := .pkSpin }))

def nxPkSpin (c : Cfg) (s : State) (t : Tid) : Option (Act × State) :=
  let x := s.th t
  let W : State → Th → State := fun s' x' => { s' with th := upd s'.th t x' }
  some ({ kind := .spin }, W s (if x.sp2 + 1 < c.spinLimit then { x with pc := .pkSpinLd, sp2 := x.sp2 + 1 } else { x with pc := .pkFlagLd }))

def nxPkFlagLd (c : Cfg) (s : State) (t : Tid) : Option (Act × State) :=
  let x := s.th t
  let W : State → Th → State := fun s' x' => { s' with th := upd s'.th t x' }
  let b := s.flag t x.fg
  some (aLoad (.flag t x.fg) .relaxed (b2n b), W s (if b then { x with pc := .pkSwap } else { x with pc := .pkPark }))

def nxPkPark (c : Cfg) (s : State) (t : Tid) : Option (Act × State) :=
  let x := s.th t
  let W : State → Th → State := fun s' x' => { s' with th := upd s'.th t x' }
  if s.token t then some ({ kind := .park }, W { s with token := upd s.token t false } { x with pc := .pkSwap }) else none

def nxPkSwap (c : Cfg) (s : State) (t : Tid) : Option (Act × State) :=
  let x := s.th t
  let W : State → Th → State := fun s' x' => { s' with th := upd s'.th t x' }
  let b := s.flag t x.fg
  some ({ kind := .swap, obj := .flag t x.fg, ord := .acquire, old := b2n b, new := 0 },
        W { s with flag := upd2 s.flag t x.fg false }
          (if b then { x with pc := .cClosed, chk := .sendLoop, reg := false, myId := none }
           else { x with pc := .cClosed, chk := .sendLoop }))

-- finish_sync_send
def nxFnLock (c : Cfg) (s : State) (t : Tid) : Option (Act × State) :=
  let x := s.th t
  let W : State → Th → State := fun s' x' => { s' with th := upd s'.th t x' }
  if s.mSS = none then
    let id := x.myId.getD 0
    let q := s.ssq.filter (fun e => e.1 ≠ id)
    let rm := decide (q.length ≠ s.ssq.length)
    some (aLock .mSS, W { s with mSS := some t, ssq := q } (if rm then { x with pc := .fnCnt, rm := true } else { x with pc := .fnUnlock, rm := false }))
  else none

def nxFnCnt (c : Cfg) (s : State) (t : Tid) : Option (Act × State) :=
  let x := s.th t
  let W : State → Th → State := fun s' x' => { s' with th := upd s'.th t x' }
  some (aStore .ssCount .release s.ssCount s.ssq.length, W { s with ssCount := s.ssq.length } { x with pc := .fnUnlock })

def nxFnUnlock (c : Cfg) (s : State) (t : Tid) : Option (Act × State) :=
  let x := s.th t
  let W : State → Th → State := fun s' x' => { s' with th := upd s'.th t x' }
  some (aUnlock .mSS, W { s with mSS := none } (if x.rm then finDoneS x else { x with pc := .fnFlagLd }))

def nxFnFlagLd (c : Cfg) (s : State) (t : Tid) : Option (Act × State) :=
  let x := s.th t
  let W : State → Th → State := fun s' x' => { s' with th := upd s'.th t x' }
  let b := s.flag t x.fg
  some (aLoad (.flag t x.fg) .acquire (b2n b), W s (if b then finDoneS x else { x with pc := .fnSpin }))

def nxFnSpin (c : Cfg) (s : State) (t : Tid) : Option (Act × State) :=
  let x := s.th t
  let W : State → Th → State := fun s' x' => { s' with th := upd s'.th t x' }
  some ({ kind := .spin }, W s { x with pc := .fnFlagLd })

-- unregister_async_send
def nxUaLock (c : Cfg) (s : State) (t : Tid) : Option (Act × State) :=
  let x := s.th t
  let W : State → Th → State := fun s' x' => { s' with th := upd s'.th t x' }
  if s.mAS = none then
    let id := x.myId.getD 0
    let q := s.asq.filter (fun e => e.1 ≠ id)
    let rm := decide (q.length ≠ s.asq.length)
    some (aLock .mAS, W { s with mAS := some t, asq := q } (if rm then { x with pc := .uaCnt } else { x with pc := .uaUnlock }))
  else none

def nxUaCnt (c : Cfg) (s : State) (t : Tid) : Option (Act × State) :=
  let x := s.th t
  let W : State → Th → State := fun s' x' => { s' with th := upd s'.th t x' }
  some (aStore .asCount .release s.asCount s.asq.length, W { s with asCount := s.asq.length } { x with pc := .uaUnlock })

def nxUaUnlock (c : Cfg) (s : State) (t : Tid) : Option (Act × State) :=
  let x := s.th t
  let W : State → Th → State := fun s' x' => { s' with th := upd s'.th t x' }
  some (aUnlock .mAS, W { s with mAS := none } (finDoneS { x with myId := none }))

-- register_async_send
def nxRaLock (c : Cfg) (s : State) (t : Tid) : Option (Act × State) :=
  let x := s.th t
  let W : State → Th → State := fun s' x' => { s' with th := upd s'.th t x' }
  if s.mAS = none then
    let q := match x.myId with
             | some id => s.asq.filter (fun e => e.1 ≠ id)
             | none => s.asq
    some (aLock .mAS, W { s with mAS := some t, asq := q ++ [(s.asNext, wkOf t x)], asNext := s.asNext + 1 }
            { x with pc := .raCnt, myId := some s.asNext })
  else none

def nxRaCnt (c : Cfg) (s : State) (t : Tid) : Option (Act × State) :=
  let x := s.th t
  let W : State → Th → State := fun s' x' => { s' with th := upd s'.th t x' }
  some (aStore .asCount .release s.asCount s.asq.length, W { s with asCount := s.asq.length } { x with pc := .raUnlock })

def nxRaUnlock (c : Cfg) (s : State) (t : Tid) : Option (Act × State) :=
  let x := s.th t
  let W : State → Th → State := fun s' x' => { s' with th := upd s'.th t x' }
  some (aUnlock .mAS, W { s with mAS := none } { x with pc := .raFence })

def nxRaFence (c : Cfg) (s : State) (t : Tid) : Option (Act × State) :=
  let x := s.th t
  let W : State → Th → State := fun s' x' => { s' with th := upd s'.th t x' }
  some (aFence, W s { x with pc := .tG, ts := .recheck, cold := false })

def nxBoPark (c : Cfg) (s : State) (t : Tid) : Option (Act × State) :=
  let x := s.th t
  let W : State → Th → State := fun s' x' => { s' with th := upd s'.th t x' }
  if s.token t then some ({ kind := .park }, W { s with token := upd s.token t false } (pollEntry x)) else none

-- clone / close sender
def nxCnAdd (c : Cfg) (s : State) (t : Tid) : Option (Act × State) :=
  let x := s.th t
  let W : State → Th → State := fun s' x' => { s' with th := upd s'.th t x' }
  let h2 := x.h
  some ({ kind := .fadd, obj := .senderCount, ord := .relaxed, old := s.senderCount, new := s.senderCount + 1 },
        W { s with senderCount := s.senderCount + 1, counted := h2 :: s.counted, hLive := upd s.hLive h2 true, hUsed := upd s.hUsed h2 true,
                   sClosed := upd s.sClosed h2 false,
                   resurrect := s.resurrect || (s.senderCount == 0) } (retWith x .ok))

def nxClCas (c : Cfg) (s : State) (t : Tid) : Option (Act × State) :=
  let x := s.th t
  let W : State → Th → State := fun s' x' => { s' with th := upd s'.th t x' }
  if s.sClosed x.h then
    some ({ kind := .cas, obj := .sClosed x.h, ord := .acqrel, ord2 := .relaxed, old := 1, new := 1, ok := false },
          W s (retWith x (match x.op with | .closeS _ => .errClose | _ => .ok)))
  else
    some ({ kind := .cas, obj := .sClosed x.h, ord := .acqrel, ord2 := .relaxed, old := 0, new := 1, ok := true },
          W { s with sClosed := upd s.sClosed x.h true } { x with pc := .clSub })

def nxClSub (c : Cfg) (s : State) (t : Tid) : Option (Act × State) :=
  let x := s.th t
  let W : State → Th → State := fun s' x' => { s' with th := upd s'.th t x' }
  some ({ kind := .fsub, obj := .senderCount, ord := .acqrel, old := s.senderCount, new := s.senderCount - 1 },
        W { s with senderCount := s.senderCount - 1, counted := s.counted.erase x.h }
          (if s.senderCount = 1 then { x with pc := .waSLock } else retWith x .ok))

-- wake_all_receivers
def nxWaSLock (c : Cfg) (s : State) (t : Tid) : Option (Act × State) :=
  let x := s.th t
  let W : State → Th → State := fun s' x' => { s' with th := upd s'.th t x' }
  if s.mSR = none then
    some (aLock .mSR, W { s with mSR := some t, srw := none }
            (if s.srw.isSome then { x with pc := .waSCnt, w1 := s.srw } else { x with pc := .waSUnlock, w1 := none }))
  else none

def nxWaSCnt (c : Cfg) (s : State) (t : Tid) : Option (Act × State) :=
  let x := s.th t
  let W : State → Th → State := fun s' x' => { s' with th := upd s'.th t x' }
  some (aStore .srCount .release s.srCount 0, W { s with srCount := 0 } { x with pc := .waSFlag })

def nxWaSFlag (c : Cfg) (s : State) (t : Tid) : Option (Act × State) :=
  let x := s.th t
  let W : State → Th → State := fun s' x' => { s' with th := upd s'.th t x' }
  match x.w1 with
  | some (u, g) =>
    some (aStore (.flag u g) .release (b2n (s.flag u g)) 1, W { s with flag := upd2 s.flag u g true } { x with pc := .waSUnpark })
  | none => none

def nxWaSUnpark (c : Cfg) (s : State) (t : Tid) : Option (Act × State) :=
  let x := s.th t
  let W : State → Th → State := fun s' x' => { s' with th := upd s'.th t x' }
  match x.w1 with
  | some (u, _) => some (aUnpark u, W { s with token := upd s.token u true } { x with pc := .waSUnlock, w1 := none })
  | none => none

def nxWaSUnlock (c : Cfg) (s : State) (t : Tid) : Option (Act × State) :=
  let x := s.th t
  let W : State → Th → State := fun s' x' => { s' with th := upd s'.th t x' }
  some (aUnlock .mSR, W { s with mSR := none } { x with pc := .waALock })

def nxWaALock (c : Cfg) (s : State) (t : Tid) : Option (Act × State) :=
  let x := s.th t
  let W : State → Th → State := fun s' x' => { s' with th := upd s'.th t x' }
  if s.mAR = none then
    some (aLock .mAR, W { s with mAR := some t, arw := none }
            (if s.arw.isSome then { x with pc := .waACnt, aw1 := s.arw } else { x with pc := .waAUnlock, aw1 := none }))
  else none

def nxWaACnt (c : Cfg) (s : State) (t : Tid) : Option (Act × State) :=
  let x := s.th t
  let W : State → Th → State := fun s' x' => { s' with th := upd s'.th t x' }
  match x.aw1 with
  | some (.cnt f) =>
    some (aStore .arCount .release s.arCount 0,
          W { s with arCount := 0, wakes := upd s.wakes f (s.wakes f + 1) } { x with pc := .waAUnlock, aw1 := none })
  | _ => some (aStore .arCount .release s.arCount 0, W { s with arCount := 0 } { x with pc := .waAWake })

def nxWaAWake (c : Cfg) (s : State) (t : Tid) : Option (Act × State) :=
  let x := s.th t
  let W : State → Th → State := fun s' x' => { s' with th := upd s'.th t x' }
  match x.aw1 with
  | some (.task u) =>
    some (aUnpark u, W { s with token := upd s.token u true, twakes := upd s.twakes u (s.twakes u + 1) } { x with pc := .waAUnlock, aw1 := none })
  | _ => none

def nxWaAUnlock (c : Cfg) (s : State) (t : Tid) : Option (Act × State) :=
  let x := s.th t
  let W : State → Th → State := fun s' x' => { s' with th := upd s'.th t x' }
  some (aUnlock .mAR, W { s with mAR := none } (retWith x .ok))

-- close receiver
def nxRcCas (c : Cfg) (s : State) (t : Tid) : Option (Act × State) :=
  let x := s.th t
  let W : State → Th → State := fun s' x' => { s' with th := upd s'.th t x' }
  if s.rClosed then
    some ({ kind := .cas, obj := .rClosed, ord := .acqrel, ord2 := .relaxed, old := 1, new := 1, ok := false },
          W s (retWith x (match x.op with | .closeR => .errClose | _ => .ok)))
  else
    some ({ kind := .cas, obj := .rClosed, ord := .acqrel, ord2 := .relaxed, old := 0, new := 1, ok := true },
          W { s with rClosed := true } { x with pc := .rdStore })

def nxRdStore (c : Cfg) (s : State) (t : Tid) : Option (Act × State) :=
  let x := s.th t
  let W : State → Th → State := fun s' x' => { s' with th := upd s'.th t x' }
  some (aStore .rxDropped .release (b2n s.rxDropped) 1, W { s with rxDropped := true } { x with pc := .wsSLock })

-- wake_all_senders
def nxWsSLock (c : Cfg) (s : State) (t : Tid) : Option (Act × State) :=
  let x := s.th t
  let W : State → Th → State := fun s' x' => { s' with th := upd s'.th t x' }
  if s.mSS = none then
    some (aLock .mSS, W { s with mSS := some t } (if s.ssq ≠ [] then { x with pc := .wsSFlag, wl := [] } else { x with pc := .wsSCnt, wl := [] }))
  else none

def nxWsSFlag (c : Cfg) (s : State) (t : Tid) : Option (Act × State) :=
  let x := s.th t
  let W : State → Th → State := fun s' x' => { s' with th := upd s'.th t x' }
  match s.ssq with
  | (_, u, g) :: rest =>
    some (aStore (.flag u g) .release (b2n (s.flag u g)) 1,
          W { s with flag := upd2 s.flag u g true, ssq := rest }
            (if rest ≠ [] then { x with wl := x.wl ++ [(u, g)] } else { x with pc := .wsSCnt, wl := x.wl ++ [(u, g)] }))
  | [] => none

def nxWsSCnt (c : Cfg) (s : State) (t : Tid) : Option (Act × State) :=
  let x := s.th t
  let W : State → Th → State := fun s' x' => { s' with th := upd s'.th t x' }
  some (aStore .ssCount .release s.ssCount 0, W { s with ssCount := 0 } { x with pc := .wsSUnlock })

def nxWsSUnlock (c : Cfg) (s : State) (t : Tid) : Option (Act × State) :=
  let x := s.th t
  let W : State → Th → State := fun s' x' => { s' with th := upd s'.th t x' }
  some (aUnlock .mSS, W { s with mSS := none } { x with pc := .wsALock })

def nxWsALock (c : Cfg) (s : State) (t : Tid) : Option (Act × State) :=
  let x := s.th t
  let W : State → Th → State := fun s' x' => { s' with th := upd s'.th t x' }
  if s.mAS = none then
    some (aLock .mAS, W { s with mAS := some t, asq := [] } { x with pc := .wsACnt, awl := s.asq.map (·.2) })
  else none

def nxWsACnt (c : Cfg) (s : State) (t : Tid) : Option (Act × State) :=
  let x := s.th t
  let W : State → Th → State := fun s' x' => { s' with th := upd s'.th t x' }
  some (aStore .asCount .release s.asCount 0, W { s with asCount := 0 } { x with pc := .wsAUnlock })

def nxWsAUnlock (c : Cfg) (s : State) (t : Tid) : Option (Act × State) :=
  let x := s.th t
  let W : State → Th → State := fun s' x' => { s' with th := upd s'.th t x' }
  if x.wl ≠ [] then some (aUnlock .mAS, W { s with mAS := none } { x with pc := .wsUnpark })
  else
    let r := bumpCnts s.wakes x.awl
    some (aUnlock .mAS, W { s with mAS := none, wakes := r.1 }
            (if r.2 ≠ [] then { x with pc := .wsWake, awl := r.2 } else retWith { x with awl := [] } .ok))

def nxWsUnpark (c : Cfg) (s : State) (t : Tid) : Option (Act × State) :=
  let x := s.th t
  let W : State → Th → State := fun s' x' => { s' with th := upd s'.th t x' }
  match x.wl with
  | (u, _) :: rest =>
    if rest ≠ [] then some (aUnpark u, W { s with token := upd s.token u true } { x with wl := rest })
    else
      let r := bumpCnts s.wakes x.awl
      some (aUnpark u, W { s with token := upd s.token u true, wakes := r.1 }
              (if r.2 ≠ [] then { x with pc := .wsWake, wl := [], awl := r.2 } else retWith { x with wl := [], awl := [] } .ok))
  | [] => none

def nxWsWake (c : Cfg) (s : State) (t : Tid) : Option (Act × State) :=
  let x := s.th t
  let W : State → Th → State := fun s' x' => { s' with th := upd s'.th t x' }
  match x.awl with
  | .task u :: rest =>
    let r := bumpCnts s.wakes rest
    some (aUnpark u, W { s with token := upd s.token u true, twakes := upd s.twakes u (s.twakes u + 1), wakes := r.1 }
            (if r.2 ≠ [] then { x with awl := r.2 } else retWith { x with awl := [] } .ok))
  | _ => none

-- receiver closed flag
def nxRClosed (c : Cfg) (s : State) (t : Tid) : Option (Act × State) :=
  let x := s.th t
  let W : State → Th → State := fun s' x' => { s' with th := upd s'.th t x' }
  let b := s.rClosed
  let x' :=
    if b then (match x.op with
               | .isClosedR => retWith x (.b true)
               | _ => retWith x .errDisc)
    else (match x.op with
          | .recv => deqCall { x with spins := 0, reg := false, fg := x.nfl, nfl := x.nfl + 1 } .recv
          | .tryRecv => deqCall x .tryRecv
          | .recvT0 => deqCall { x with reg := false, fg := x.nfl, nfl := x.nfl + 1 } .rt0
          | .isClosedR => { x with pc := .rSc, dq := .probe }
          | _ => deqCall x .pr1)
  some (aLoad .rClosed .relaxed (b2n b), W s x')

-- deq_once
def nxDLock (c : Cfg) (s : State) (t : Tid) : Option (Act × State) :=
  let x := s.th t
  let W : State → Th → State := fun s' x' => { s' with th := upd s'.th t x' }
  if s.mHead = none then some (aLock .mHead, W { s with mHead := some t } { x with pc := .dId }) else none

def nxDId (c : Cfg) (s : State) (t : Tid) : Option (Act × State) :=
  let x := s.th t
  let W : State → Th → State := fun s' x' => { s' with th := upd s'.th t x' }
  let e := s.hCid % c.nChunks
  let cur := s.tblId e
  some (aLoad (.tblId e) .acquire cur,
        W s (if cur ≠ s.hCid then { x with pc := .dDr, ze := true }
             else if s.hIdx = c.chunkCap then { x with pc := .dRetire } else { x with pc := .dSlot }))

def nxDRetire (c : Cfg) (s : State) (t : Tid) : Option (Act × State) :=
  let x := s.th t
  let W : State → Th → State := fun s' x' => { s' with th := upd s'.th t x' }
  some (aStore .retired .release s.retired (s.hCid + 1),
        W { s with retired := s.hCid + 1, hCid := s.hCid + 1, hIdx := 0 } { x with pc := .dId })

def nxDSlot (c : Cfg) (s : State) (t : Tid) : Option (Act × State) :=
  let x := s.th t
  let W : State → Th → State := fun s' x' => { s' with th := upd s'.th t x' }
  let tk := s.hCid * c.chunkCap + s.hIdx
  let o : Obj := .slotSt (s.hCid % c.nChunks) s.hIdx
  match s.slot tk with
  | .set y => some (aLoad o .acquire 1, W s { x with pc := .dEmpty, got := some y, skipd := false })
  | .skip => some (aLoad o .acquire 2, W s { x with pc := .dEmpty, skipd := true })
  | .empty => some (aLoad o .acquire 0, W s { x with pc := .dDr, ze := true })

def nxDEmpty (c : Cfg) (s : State) (t : Tid) : Option (Act × State) :=
  let x := s.th t
  let W : State → Th → State := fun s' x' => { s' with th := upd s'.th t x' }
  let tk := s.hCid * c.chunkCap + s.hIdx
  let o : Obj := .slotSt (s.hCid % c.nChunks) s.hIdx
  let pub := decide (s.hK ≤ s.hUnpub + 1)
  let s1 : State := { s with slot := upd s.slot tk .empty, hIdx := s.hIdx + 1, hPos := s.hPos + 1,
                             hUnpub := if pub then 0 else s.hUnpub + 1,
                             recvd := match x.skipd, x.got with
                                      | false, some y => s.recvd ++ [y]
                                      | _, _ => s.recvd }
  let x' : Th :=
    if pub then { x with pc := .pDr, pb := if x.skipd then .dqSkip else .dqSet, freed := s.hUnpub + 1 }
    else if x.skipd then { x with pc := .dId } else { x with pc := .dDr }
  some (aStore o .relaxed (s.slot tk).code 0, W s1 x')

def nxDDr (c : Cfg) (s : State) (t : Tid) : Option (Act × State) :=
  let x := s.th t
  let W : State → Th → State := fun s' x' => { s' with th := upd s'.th t x' }
  some (aStore .drained .release s.drained s.hPos,
        W { s with drained := s.hPos } (if x.got.isSome then { x with pc := .dUnlock } else { x with pc := .dG }))

def nxDG (c : Cfg) (s : State) (t : Tid) : Option (Act × State) :=
  let x := s.th t
  let W : State → Th → State := fun s' x' => { s' with th := upd s'.th t x' }
  some (aLoad .gtail .acquire s.gtail, W s { x with pc := .dUnlock, dres := if s.hPos < s.gtail then 1 else 0 })

def nxDUnlock (c : Cfg) (s : State) (t : Tid) : Option (Act × State) :=
  let x := s.th t
  let W : State → Th → State := fun s' x' => { s' with th := upd s'.th t x' }
  some (aUnlock .mHead, W { s with mHead := none } (deqDone x))

-- publish_progress
def nxPDr (c : Cfg) (s : State) (t : Tid) : Option (Act × State) :=
  let x := s.th t
  let W : State → Th → State := fun s' x' => { s' with th := upd s'.th t x' }
  some (aStore .drained .release s.drained s.hPos, W { s with drained := s.hPos } { x with pc := .pPr })

def nxPPr (c : Cfg) (s : State) (t : Tid) : Option (Act × State) :=
  let x := s.th t
  let W : State → Th → State := fun s' x' => { s' with th := upd s'.th t x' }
  some (aStore .progress .release s.progress s.hPos, W { s with progress := s.hPos } { x with pc := .sFence })

-- notify_senders
def nxSFence (c : Cfg) (s : State) (t : Tid) : Option (Act × State) :=
  let x := s.th t
  let W : State → Th → State := fun s' x' => { s' with th := upd s'.th t x' }
  some (aFence, W s { x with pc := .sSC })

def nxSSC (c : Cfg) (s : State) (t : Tid) : Option (Act × State) :=
  let x := s.th t
  let W : State → Th → State := fun s' x' => { s' with th := upd s'.th t x' }
  some (aLoad .ssCount .relaxed s.ssCount, W s (if s.ssCount ≠ 0 then { x with pc := .sSLock } else { x with pc := .sAC }))

def nxSSLock (c : Cfg) (s : State) (t : Tid) : Option (Act × State) :=
  let x := s.th t
  let W : State → Th → State := fun s' x' => { s' with th := upd s'.th t x' }
  if s.mSS = none then
    some (aLock .mSS, W { s with mSS := some t }
            (if 0 < x.freed ∧ s.ssq ≠ [] then { x with pc := .sSFlag, wl := [] } else { x with pc := .sSCnt, wl := [] }))
  else none

def nxSSFlag (c : Cfg) (s : State) (t : Tid) : Option (Act × State) :=
  let x := s.th t
  let W : State → Th → State := fun s' x' => { s' with th := upd s'.th t x' }
  match s.ssq with
  | (_, u, g) :: rest =>
    let wl := x.wl ++ [(u, g)]
    some (aStore (.flag u g) .release (b2n (s.flag u g)) 1,
          W { s with flag := upd2 s.flag u g true, ssq := rest }
            (if wl.length < x.freed ∧ rest ≠ [] then { x with wl := wl } else { x with pc := .sSCnt, wl := wl }))
  | [] => none

def nxSSCnt (c : Cfg) (s : State) (t : Tid) : Option (Act × State) :=
  let x := s.th t
  let W : State → Th → State := fun s' x' => { s' with th := upd s'.th t x' }
  some (aStore .ssCount .release s.ssCount s.ssq.length, W { s with ssCount := s.ssq.length } { x with pc := .sSUnlock })

def nxSSUnlock (c : Cfg) (s : State) (t : Tid) : Option (Act × State) :=
  let x := s.th t
  let W : State → Th → State := fun s' x' => { s' with th := upd s'.th t x' }
  some (aUnlock .mSS, W { s with mSS := none } (if x.wl ≠ [] then { x with pc := .sUnpark } else { x with pc := .sAC }))

def nxSUnpark (c : Cfg) (s : State) (t : Tid) : Option (Act × State) :=
  let x := s.th t
  let W : State → Th → State := fun s' x' => { s' with th := upd s'.th t x' }
  match x.wl with
  | (u, _) :: rest =>
    some (aUnpark u, W { s with token := upd s.token u true } (if rest ≠ [] then { x with wl := rest } else { x with pc := .sAC, wl := [] }))
  | [] => none

def nxSAC (c : Cfg) (s : State) (t : Tid) : Option (Act × State) :=
  let x := s.th t
  let W : State → Th → State := fun s' x' => { s' with th := upd s'.th t x' }
  some (aLoad .asCount .relaxed s.asCount, W s (if s.asCount ≠ 0 then { x with pc := .sALock } else pubDone x))

def nxSALock (c : Cfg) (s : State) (t : Tid) : Option (Act × State) :=
  let x := s.th t
  let W : State → Th → State := fun s' x' => { s' with th := upd s'.th t x' }
  if s.mAS = none then
    match s.asq with
    | (_, w) :: rest => some (aLock .mAS, W { s with mAS := some t, asq := rest } { x with pc := .sACnt, aw1 := some w })
    | [] => some (aLock .mAS, W { s with mAS := some t } { x with pc := .sAUnlock, aw1 := none })
  else none

def nxSACnt (c : Cfg) (s : State) (t : Tid) : Option (Act × State) :=
  let x := s.th t
  let W : State → Th → State := fun s' x' => { s' with th := upd s'.th t x' }
  some (aStore .asCount .release s.asCount s.asq.length, W { s with asCount := s.asq.length } { x with pc := .sAUnlock })

def nxSAUnlock (c : Cfg) (s : State) (t : Tid) : Option (Act × State) :=
  let x := s.th t
  let W : State → Th → State := fun s' x' => { s' with th := upd s'.th t x' }
  match x.aw1 with
  | none => some (aUnlock .mAS, W { s with mAS := none } (pubDone x))
  | some (.cnt f) =>
    some (aUnlock .mAS, W { s with mAS := none, wakes := upd s.wakes f (s.wakes f + 1) } (pubDone { x with aw1 := none }))
  | some (.task _) => some (aUnlock .mAS, W { s with mAS := none } { x with pc := .sAWake })

def nxSAWake (c : Cfg) (s : State) (t : Tid) : Option (Act × State) :=
  let x := s.th t
  let W : State → Th → State := fun s' x' => { s' with th := upd s'.th t x' }
  match x.aw1 with
  | some (.task u) =>
    some (aUnpark u, W { s with token := upd s.token u true, twakes := upd s.twakes u (s.twakes u + 1) } (pubDone { x with aw1 := none }))
  | _ => none

-- senders_alive
def nxRSc (c : Cfg) (s : State) (t : Tid) : Option (Act × State) :=
  let x := s.th t
  let W : State → Th → State := fun s' x' => { s' with th := upd s'.th t x' }
  some (aLoad .senderCount .acquire s.senderCount, W s (scDone x s.senderCount))

-- flush_progress
def nxFLock (c : Cfg) (s : State) (t : Tid) : Option (Act × State) :=
  let x := s.th t
  let W : State → Th → State := fun s' x' => { s' with th := upd s'.th t x' }
  if s.mHead = none then
    if 0 < s.hUnpub then
      some (aLock .mHead, W { s with mHead := some t, hUnpub := 0 } { x with pc := .pDr, pb := .flush, freed := s.hUnpub })
    else some (aLock .mHead, W { s with mHead := some t } { x with pc := .fUnlock })
  else none

def nxFUnlock (c : Cfg) (s : State) (t : Tid) : Option (Act × State) :=
  let x := s.th t
  let W : State → Th → State := fun s' x' => { s' with th := upd s'.th t x' }
  some (aUnlock .mHead, W { s with mHead := none } (flushDone c x))

-- register_sync_recv
def nxRrLock (c : Cfg) (s : State) (t : Tid) : Option (Act × State) :=
  let x := s.th t
  let W : State → Th → State := fun s' x' => { s' with th := upd s'.th t x' }
  if s.mSR = none then some (aLock .mSR, W { s with mSR := some t, srw := some (t, x.fg) } { x with pc := .rrUnlock }) else none

def nxRrUnlock (c : Cfg) (s : State) (t : Tid) : Option (Act × State) :=
  let x := s.th t
  let W : State → Th → State := fun s' x' => { s' with th := upd s'.th t x' }
  some (aUnlock .mSR, W { s with mSR := none } { x with pc := .rrCnt })

def nxRrCnt (c : Cfg) (s : State) (t : Tid) : Option (Act × State) :=
  let x := s.th t
  let W : State → Th → State := fun s' x' => { s' with th := upd s'.th t x' }
  some (aStore .srCount .release s.srCount 1, W { s with srCount := 1 } { x with pc := .rrFence })

def nxRrFence (c : Cfg) (s : State) (t : Tid) : Option (Act × State) :=
  let x := s.th t
  let W : State → Th → State := fun s' x' => { s' with th := upd s'.th t x' }
  some (aFence, W s (deqCall { x with reg := true } .recv))

-- receiver park sequence
def nxRpSpinLd (c : Cfg) (s : State) (t : Tid) : Option (Act × State) :=
  let x := s.th t
  let W : State → Th → State := fun s' x' => { s' with th := upd s'.th t x' }
  let b := s.flag t x.fg
  some (aLoad (.flag t x.fg) .relaxed (b2n b), W s (if b then { x with pc := .rpFlagLd } else { x with pc := .rpSpin }))

def nxRpSpin (c : Cfg) (s : State) (t : Tid) : Option (Act × State) :=
  let x := s.th t
  let W : State → Th → State := fun s' x' => { s' with th := upd s'.th t x' }
  some ({ kind := .spin }, W s (if x.sp2 + 1 < c.spinLimit then { x with pc := .rpSpinLd, sp2 := x.sp2 + 1 } else { x with pc := .rpFlagLd }))

def nxRpFlagLd (c : Cfg) (s : State) (t : Tid) : Option (Act × State) :=
  let x := s.th t
  let W : State → Th → State := fun s' x' => { s' with th := upd s'.th t x' }
  let b := s.flag t x.fg
  some (aLoad (.flag t x.fg) .relaxed (b2n b),
        W s (if b then { x with pc := .frLock, fin := .recvLoop } else { x with pc := .rpPark }))

def nxRpPark (c : Cfg) (s : State) (t : Tid) : Option (Act × State) :=
  let x := s.th t
  let W : State → Th → State := fun s' x' => { s' with th := upd s'.th t x' }
  if s.token t then
    some ({ kind := .park }, W { s with token := upd s.token t false } { x with pc := .frLock, fin := .recvLoop })
  else none

-- finish_sync_recv
def nxFrLock (c : Cfg) (s : State) (t : Tid) : Option (Act × State) :=
  let x := s.th t
  let W : State → Th → State := fun s' x' => { s' with th := upd s'.th t x' }
  if s.mSR = none then
    some (aLock .mSR, W { s with mSR := some t, srw := none } { x with pc := .frUnlock, rm := s.srw.isSome })
  else none

def nxFrUnlock (c : Cfg) (s : State) (t : Tid) : Option (Act × State) :=
  let x := s.th t
  let W : State → Th → State := fun s' x' => { s' with th := upd s'.th t x' }
  some (aUnlock .mSR, W { s with mSR := none } { x with pc := .frCnt })

def nxFrCnt (c : Cfg) (s : State) (t : Tid) : Option (Act × State) :=
  let x := s.th t
  let W : State → Th → State := fun s' x' => { s' with th := upd s'.th t x' }
  some (aStore .srCount .release s.srCount 0, W { s with srCount := 0 } (if x.rm then finDoneR x else { x with pc := .frFlagLd }))

def nxFrFlagLd (c : Cfg) (s : State) (t : Tid) : Option (Act × State) :=
  let x := s.th t
  let W : State → Th → State := fun s' x' => { s' with th := upd s'.th t x' }
  let b := s.flag t x.fg
  some (aLoad (.flag t x.fg) .acquire (b2n b), W s (if b then finDoneR x else { x with pc := .frSpin }))

def nxFrSpin (c : Cfg) (s : State) (t : Tid) : Option (Act × State) :=
  let x := s.th t
  let W : State → Th → State := fun s' x' => { s' with th := upd s'.th t x' }
  some ({ kind := .spin }, W s { x with pc := .frFlagLd })

def nxRFlagReset (c : Cfg) (s : State) (t : Tid) : Option (Act × State) :=
  let x := s.th t
  let W : State → Th → State := fun s' x' => { s' with th := upd s'.th t x' }
  some (aStore (.flag t x.fg) .relaxed (b2n (s.flag t x.fg)) 0,
        W { s with flag := upd2 s.flag t x.fg false } (deqCall { x with reg := false } .recv))

def nxRYield (c : Cfg) (s : State) (t : Tid) : Option (Act × State) :=
  let x := s.th t
  let W : State → Th → State := fun s' x' => { s' with th := upd s'.th t x' }
  some ({ kind := .yield }, W s (deqCall x .recv))

-- register / unregister async recv
def nxArLock (c : Cfg) (s : State) (t : Tid) : Option (Act × State) :=
  let x := s.th t
  let W : State → Th → State := fun s' x' => { s' with th := upd s'.th t x' }
  if s.mAR = none then some (aLock .mAR, W { s with mAR := some t, arw := some (wkOf t x) } { x with pc := .arUnlock }) else none

def nxArUnlock (c : Cfg) (s : State) (t : Tid) : Option (Act × State) :=
  let x := s.th t
  let W : State → Th → State := fun s' x' => { s' with th := upd s'.th t x' }
  some (aUnlock .mAR, W { s with mAR := none } { x with pc := .arCnt })

def nxArCnt (c : Cfg) (s : State) (t : Tid) : Option (Act × State) :=
  let x := s.th t
  let W : State → Th → State := fun s' x' => { s' with th := upd s'.th t x' }
  some (aStore .arCount .release s.arCount 1, W { s with arCount := 1 } { x with pc := .arFence })

def nxArFence (c : Cfg) (s : State) (t : Tid) : Option (Act × State) :=
  let x := s.th t
  let W : State → Th → State := fun s' x' => { s' with th := upd s'.th t x' }
  some (aFence, W s (deqCall { x with reg := true } .pr2))

def nxAuLock (c : Cfg) (s : State) (t : Tid) : Option (Act × State) :=
  let x := s.th t
  let W : State → Th → State := fun s' x' => { s' with th := upd s'.th t x' }
  if s.mAR = none then some (aLock .mAR, W { s with mAR := some t, arw := none } { x with pc := .auUnlock }) else none

def nxAuUnlock (c : Cfg) (s : State) (t : Tid) : Option (Act × State) :=
  let x := s.th t
  let W : State → Th → State := fun s' x' => { s' with th := upd s'.th t x' }
  some (aUnlock .mAR, W { s with mAR := none } { x with pc := .auCnt })

def nxAuCnt (c : Cfg) (s : State) (t : Tid) : Option (Act × State) :=
  let x := s.th t
  let W : State → Th → State := fun s' x' => { s' with th := upd s'.th t x' }
  some (aStore .arCount .release s.arCount 0, W { s with arCount := 0 } (finDoneR { x with reg := false }))

-- probes
def nxLG (c : Cfg) (s : State) (t : Tid) : Option (Act × State) :=
  let x := s.th t
  let W : State → Th → State := fun s' x' => { s' with th := upd s'.th t x' }
  some (aLoad .gtail .acquire s.gtail, W s { x with pc := .lD, g := s.gtail })

def nxLD (c : Cfg) (s : State) (t : Tid) : Option (Act × State) :=
  let x := s.th t
  let W : State → Th → State := fun s' x' => { s' with th := upd s'.th t x' }
  some (aLoad .drained .acquire s.drained, W s (probeDone c x s.drained))

def next (c : Cfg) (s : State) (t : Tid) : Option (Act × State) :=
  match (s.th t).pc with
  | .idle => nxIdle c s t
  | .ret => nxRet c s t
  | .cClosed => nxCClosed c s t
  | .cRx => nxCRx c s t
  | .tG => nxTG c s t
  | .tP => nxTP c s t
  | .tFadd => nxTFadd c s t
  | .tCred => nxTCred c s t
  | .eId => nxEId c s t
  | .eRet => nxERet c s t
  | .eSpin => nxESpin c s t
  | .eCas => nxECas c s t
  | .wSt => nxWSt c s t
  | .nFence => nxNFence c s t
  | .nSC => nxNSC c s t
  | .nSLock => nxNSLock c s t
  | .nSCnt => nxNSCnt c s t
  | .nSFlag => nxNSFlag c s t
  | .nSUnlock => nxNSUnlock c s t
  | .nSUnpark => nxNSUnpark c s t
  | .nAC => nxNAC c s t
  | .nALock => nxNALock c s t
  | .nACnt => nxNACnt c s t
  | .nAUnlock => nxNAUnlock c s t
  | .nAWake => nxNAWake c s t
  | .sYield => nxSYield c s t
  | .rgLock => nxRgLock c s t
  | .rgCnt => nxRgCnt c s t
  | .rgUnlock => nxRgUnlock c s t
  | .rgFence => nxRgFence c s t
  | .pkSpinLd => nxPkSpinLd c s t
  | .pkSpin => nxPkSpin c s t
  | .pkFlagLd => nxPkFlagLd c s t
  | .pkPark => nxPkPark c s t
  | .pkSwap => nxPkSwap c s t
  | .fnLock => nxFnLock c s t
  | .fnCnt => nxFnCnt c s t
  | .fnUnlock => nxFnUnlock c s t
  | .fnFlagLd => nxFnFlagLd c s t
  | .fnSpin => nxFnSpin c s t
  | .uaLock => nxUaLock c s t
  | .uaCnt => nxUaCnt c s t
  | .uaUnlock => nxUaUnlock c s t
  | .raLock => nxRaLock c s t
  | .raCnt => nxRaCnt c s t
  | .raUnlock => nxRaUnlock c s t
  | .raFence => nxRaFence c s t
  | .boPark => nxBoPark c s t
  | .cnAdd => nxCnAdd c s t
  | .clCas => nxClCas c s t
  | .clSub => nxClSub c s t
  | .waSLock => nxWaSLock c s t
  | .waSCnt => nxWaSCnt c s t
  | .waSFlag => nxWaSFlag c s t
  | .waSUnpark => nxWaSUnpark c s t
  | .waSUnlock => nxWaSUnlock c s t
  | .waALock => nxWaALock c s t
  | .waACnt => nxWaACnt c s t
  | .waAWake => nxWaAWake c s t
  | .waAUnlock => nxWaAUnlock c s t
  | .rcCas => nxRcCas c s t
  | .rdStore => nxRdStore c s t
  | .wsSLock => nxWsSLock c s t
  | .wsSFlag => nxWsSFlag c s t
  | .wsSCnt => nxWsSCnt c s t
  | .wsSUnlock => nxWsSUnlock c s t
  | .wsALock => nxWsALock c s t
  | .wsACnt => nxWsACnt c s t
  | .wsAUnlock => nxWsAUnlock c s t
  | .wsUnpark => nxWsUnpark c s t
  | .wsWake => nxWsWake c s t
  | .rClosed => nxRClosed c s t
  | .dLock => nxDLock c s t
  | .dId => nxDId c s t
  | .dRetire => nxDRetire c s t
  | .dSlot => nxDSlot c s t
  | .dEmpty => nxDEmpty c s t
  | .dDr => nxDDr c s t
  | .dG => nxDG c s t
  | .dUnlock => nxDUnlock c s t
  | .pDr => nxPDr c s t
  | .pPr => nxPPr c s t
  | .sFence => nxSFence c s t
  | .sSC => nxSSC c s t
  | .sSLock => nxSSLock c s t
  | .sSFlag => nxSSFlag c s t
  | .sSCnt => nxSSCnt c s t
  | .sSUnlock => nxSSUnlock c s t
  | .sUnpark => nxSUnpark c s t
  | .sAC => nxSAC c s t
  | .sALock => nxSALock c s t
  | .sACnt => nxSACnt c s t
  | .sAUnlock => nxSAUnlock c s t
  | .sAWake => nxSAWake c s t
  | .rSc => nxRSc c s t
  | .fLock => nxFLock c s t
  | .fUnlock => nxFUnlock c s t
  | .rrLock => nxRrLock c s t
  | .rrUnlock => nxRrUnlock c s t
  | .rrCnt => nxRrCnt c s t
  | .rrFence => nxRrFence c s t
  | .rpSpinLd => nxRpSpinLd c s t
  | .rpSpin => nxRpSpin c s t
  | .rpFlagLd => nxRpFlagLd c s t
  | .rpPark => nxRpPark c s t
  | .frLock => nxFrLock c s t
  | .frUnlock => nxFrUnlock c s t
  | .frCnt => nxFrCnt c s t
  | .frFlagLd => nxFrFlagLd c s t
  | .frSpin => nxFrSpin c s t
  | .rFlagReset => nxRFlagReset c s t
  | .rYield => nxRYield c s t
  | .arLock => nxArLock c s t
  | .arUnlock => nxArUnlock c s t
  | .arCnt => nxArCnt c s t
  | .arFence => nxArFence c s t
  | .auLock => nxAuLock c s t
  | .auUnlock => nxAuUnlock c s t
  | .auCnt => nxAuCnt c s t
  | .lG => nxLG c s t
  | .lD => nxLD c s t

/-! ## Call / return (harness `C` / `R` lines) -/

def isSendOp : Op → Bool
  | .send _ _ | .trySend _ _ | .sendA _ _ => true
  | _ => false

/-- sender handle used (and kept busy) by an op -/
def opHandle (s : State) : Op → Option Hid
  | .send h _ | .trySend h _ | .sendA h _ | .closeS h | .dropS h | .isClosedS h => some h
  | .clone _ h2 => some h2        -- the NEW handle's name is reserved for the duration of the call
  | .poll f => if (s.fut f).kind = .send then some (s.fut f).h else none
  | _ => none

/-- the op uses the receiver handle -/
def opRecv (s : State) : Op → Bool
  | .recv | .tryRecv | .recvT0 | .recvA | .closeR | .dropR | .isClosedR => true
  | .poll f => (s.fut f).kind = .recv
  | .dropFut f => (s.fut f).kind = .recv
  | _ => false

/-- harness/ownership guard of a call -/
def callOk (s : State) (op : Op) : Bool :=
  (match op with
   | .clone h h2 => s.hLive h && !s.hUsed h2 && (s.sBusy h2).isNone
   | _ =>
     match opHandle s op with
     | some h => s.hLive h && (s.sBusy h).isNone
     | none => true) &&
  (if opRecv s op then s.rLive && s.rBusy.isNone else true) &&
  (match op with
   | .futSend f h _ => (s.fut f).kind = .absent && s.hLive h
   | .futRecv f => (s.fut f).kind = .absent && s.rLive
   | .poll f => (s.fut f).kind ≠ .absent
   | .nop => false
   | _ => true)

/-- thread-local part of a call -/
def callTh (c : Cfg) (s : State) (x : Th) (x0 : Th) (op : Op) : Th :=
  match op with
  | .send h v => { x0 with pc := .cClosed, chk := .sendEntry, h := h, v := v, reg := false, myId := none }
  | .trySend h v => { x0 with pc := .cClosed, chk := .trySend, h := h, v := v }
  | .sendA h v => { x0 with pc := .cClosed, chk := .pollS, h := h, v := v, item := some v, myId := none, blockOn := true }
  | .futSend _ _ _ => retWith x0 .ok
  | .futRecv _ => retWith x0 .ok
  | .poll f =>
    let fu := s.fut f
    let x1 : Th := { x0 with v := fu.item.getD 0, item := fu.item, myId := fu.myId, reg := fu.reg, curF := f }
    (match fu.kind with
     | .send => { x1 with pc := .cClosed, chk := .pollS }
     | .recv => { x1 with pc := .rClosed }
     | .absent => retWith x1 .none)
  | .dropFut f =>
    let fu := s.fut f
    let x1 : Th := { x0 with myId := fu.myId, reg := fu.reg, curF := f, fin := .dropFut,
                             res := if fu.kind ≠ .absent ∧ 0 < s.wakes f then .okWoken else .ok }
    (match fu.kind with
     | .send => if fu.myId.isSome then { x1 with pc := .uaLock } else { x1 with pc := .ret }
     | .recv => if fu.reg then { x1 with pc := .auLock } else { x1 with pc := .ret }
     | .absent => { x1 with pc := .ret })
  | .wakes f => retWith x0 (.n (s.wakes f))
  | .recv => { x0 with pc := .rClosed }
  | .tryRecv => { x0 with pc := .rClosed }
  | .recvT0 => { x0 with pc := .rClosed }
  | .recvA => { x0 with pc := .rClosed, reg := false, blockOn := true }
  | .clone _ h2 => { x0 with pc := .cnAdd, h := h2 }
  | .closeS h => { x0 with pc := .clCas, h := h }
  | .dropS h => { x0 with pc := .clCas, h := h }
  | .closeR => { x0 with pc := .rcCas }
  | .dropR => { x0 with pc := .rcCas }
  | .len => { x0 with pc := .lG, pr := .len }
  | .isEmpty => { x0 with pc := .lG, pr := .isEmpty }
  | .isFull => { x0 with pc := .lG, pr := .isFull }
  | .capacity => retWith x0 (.n c.cap)
  | .isClosedS h => { x0 with pc := .cClosed, chk := .isClosed, h := h }
  | .isClosedR => { x0 with pc := .rClosed }
  | .nop => retWith x0 .none

/-- future table / counting-waker part of a call -/
def callFut (s : State) (op : Op) : Fid → Fut :=
  match op with
  | .futSend f h v => upd s.fut f { kind := .send, h := h, item := some v }
  | .futRecv f => upd s.fut f { kind := .recv }
  | .dropFut f => upd s.fut f {}
  | _ => s.fut

def callWakes (s : State) (op : Op) : Fid → Nat :=
  match op with
  | .poll f => upd s.wakes f 0
  | _ => s.wakes

/-- the thread record at the start of a call -/
def callX0 (s : State) (t : Tid) (op : Op) : Th :=
  { s.th t with op := op, res := .none, seq0 := s.seq t, blockOn := false, got := none, z0 := false, ze := false,
                hb := (opHandle s op).isSome, h := (opHandle s op).getD 0, rb := opRecv s op }

def stepCall (c : Cfg) (s : State) (t : Tid) : Option (Act × State) :=
  let x := s.th t
  match x.pc, s.prog t with
  | .idle, op :: rest =>
    if callOk s op then
      some ({ kind := .call },
            { s with prog := upd s.prog t rest,
                     sBusy := (match opHandle s op with | some h => upd s.sBusy h (some t) | none => s.sBusy),
                     rBusy := if opRecv s op then some t else s.rBusy,
                     fut := callFut s op, wakes := callWakes s op,
                     th := upd s.th t (callTh c s x (callX0 s t op) op) })
    else none
  | _, _ => none

/-- `drop h` consumes the handle -/
def retHLive (x : Th) (hl : Hid → Bool) : Hid → Bool :=
  match x.op with
  | .dropS _ => if x.hb then upd hl x.h false else hl
  | _ => hl

def stepRet (s : State) (t : Tid) : Option (Act × State) :=
  let x := s.th t
  match x.pc with
  | .ret =>
    let s1 : State :=
      { s with th := upd s.th t { x with pc := .idle },
               sBusy := if x.hb then upd s.sBusy x.h none else s.sBusy,
               rBusy := if x.rb then none else s.rBusy,
               acked := if (isSendOp x.op || (match x.op with | .poll f => (s.fut f).kind = .send | _ => false)) && x.res = .ok
                        then upd s.acked t (s.acked t + 1) else s.acked,
               hLive := retHLive x s.hLive,
               rLive := (match x.op with | .dropR => false | _ => s.rLive),
               fut := (match x.op with
                       | .poll f =>
                         if x.res = .pending then upd s.fut f { (s.fut f) with item := x.item, myId := x.myId, reg := x.reg }
                         else upd s.fut f {}
                       | _ => s.fut) }
    some ({ kind := .ret }, s1)
  | _ => none

/-- `park` returning without a token (std permits it; the shim never does it) -/
def stepSpurious (s : State) (t : Tid) : Option (Act × State) :=
  let x := s.th t
  let W : Th → State := fun x' => { s with th := upd s.th t x' }
  match x.pc with
  | .pkPark => some ({ kind := .spurious }, W { x with pc := .pkSwap })
  | .rpPark => some ({ kind := .spurious }, W { x with pc := .frLock, fin := .recvLoop })
  | .boPark => some ({ kind := .spurious }, W (pollEntry x))
  | _ => none

inductive Label
  | act        -- the thread's next visible action
  | call
  | ret
  | spurious
  deriving DecidableEq, Repr

def stepA (c : Cfg) (s : State) (t : Tid) : Label → Option (Act × State)
  | .act => next c s t
  | .call => stepCall c s t
  | .ret => stepRet s t
  | .spurious => stepSpurious s t

def step (c : Cfg) (s : State) (t : Tid) (l : Label) : Option State := (stepA c s t l).map (·.2)

/-- Run a schedule; `none` if some step is not enabled. -/
def run (c : Cfg) (s : State) : List (Tid × Label) → Option State
  | [] => some s
  | (t, l) :: rest => (step c s t l).bind (fun s' => run c s' rest)

/-- the label a thread can take next (for schedules written as thread ids only) -/
def autoLabel (s : State) (t : Tid) : Label :=
  match (s.th t).pc with
  | .idle => .call
  | .ret => .ret
  | _ => .act

def runT (c : Cfg) (s : State) : List Tid → Option State
  | [] => some s
  | t :: rest => (step c s t (autoLabel s t)).bind (fun s' => runT c s' rest)

inductive Reach (c : Cfg) (p : Tid → List Op) : State → Prop where
  | init : Reach c p (init c p)
  | step {s s' t l} : Reach c p s → step c s t l = some s' → Reach c p s'

end Fv.Chan.Mpsc3B
