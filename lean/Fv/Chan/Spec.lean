/-
S — abstract channel state for the point-to-point flavours of `fibre`
(spsc / mpsc / mpmc × bounded / unbounded / rendezvous, and oneshot), plus the
broadcast (spmc) state.  Import-free (linked into `fvdrv_chan`).

The state has three layers:
* what the code keeps and what decides results: the FIFO `buf`, the handle table
  (`hs`: name ↦ side, own `closed` flag, sync/async), the shared counters exactly as the code
  keeps them (`sc`/`rc` wrap at 2^64 because the code's decrements wrap in the release build the
  harness uses), the sticky flags (`rd` = consumer_dropped / receiver_dropped, `pd` =
  producer_dropped), the mpsc-bounded unpublished-progress counter (`unpub`, finding F14), the
  oneshot state word, and the rendezvous waiter queues;
* ghost history: `created` (every value ever passed to a send form), `sentOk` (accepted by the channel, in
  linearization order), `consumed` (removed from the front of the buffer, in order), `recvOk`
  (delivered to a receiver), `returned` (handed back inside an error), `lost` (dropped by a failing
  `send`, whose error type carries no value), `chanDropped` (destroyed by the channel itself),
  and per-handle tags `sentBy` / `recvBy`;
* token locations (C09) are *derived* from the ghost lists (`loc`), so "every token is in exactly
  one location" is a theorem (`Fv.Props.C09`), not a by-construction fact.
-/
namespace Fv.Chan

abbrev Val := Nat

inductive Side where
  | tx | rx
  deriving DecidableEq, Repr, Inhabited, Hashable

structure HName where
  side : Side
  idx : Nat
  deriving DecidableEq, Repr, Inhabited, Hashable

/-- implementation family (which Rust module implements the handle) -/
inductive Fam where
  | sb   -- spsc bounded            spsc/{shared,bounded_sync,bounded_async}.rs
  | mb   -- mpsc bounded v3         mpsc/bounded_v3
  | mu   -- mpsc unbounded v3       mpsc/unbounded_v3
  | pb   -- mpmc bounded v2         mpmc_v2/{mod,core,sync_impl,async_impl}.rs
  | pu   -- mpmc unbounded          mpmc_v2/unbounded
  | rv   -- rendezvous              internal/rendezvous.rs + the three wrappers
  | os   -- oneshot                 oneshot/{mod,core}.rs
  deriving DecidableEq, Repr, Inhabited

/-- which sides can be cloned -/
inductive Kind where
  | spsc | mpsc | mpmc | oneshot
  deriving DecidableEq, Repr, Inhabited

structure Flavour where
  fam : Fam
  kind : Kind
  cap : Nat          -- requested capacity (bounded families only)
  async0 : Bool      -- constructor returned async handles
  deriving DecidableEq, Repr, Inhabited

/-- optional capacity of the abstract FIFO -/
inductive Cap where
  | bounded (n : Nat) | unbounded | rendezvous | oneshot
  deriving DecidableEq, Repr

def Flavour.capOf (fl : Flavour) : Cap :=
  match fl.fam with
  | .sb | .mb | .pb => .bounded fl.cap
  | .mu | .pu => .unbounded
  | .rv => .rendezvous
  | .os => .oneshot

/-- token location (C09) -/
inductive Loc where
  | inHand | buffered | delivered | returned | dropped | unknown
  deriving DecidableEq, Repr

structure Handle where
  name : HName
  closed : Bool
  isAsync : Bool
  deriving DecidableEq, Repr, Inhabited, Hashable

inductive OsState where
  | empty | sent | taken | closed
  deriving DecidableEq, Repr, Inhabited, Hashable

structure St where
  buf : List Val := []
  hs : List Handle := []
  sc : Nat := 1
  rc : Nat := 1
  rd : Bool := false
  pd : Bool := false
  unpub : Nat := 0
  kpub : Nat := 1
  os : OsState := .empty
  -- rendezvous waiter records (keyed by the thread that parked them)
  sw : List (Nat × Nat × Val) := []  -- parked senders (thread, handle idx, item), FIFO
  rw : List (Nat × Nat) := []      -- parked / registered receivers (thread, handle idx), FIFO; records of cancelled-but-not-yet-unlinked timed receivers stay here (F1)
  rcanc : List Nat := []           -- timed receivers past their CAS WAITING→CANCELLED, not yet unlinked
  sdone : List (Nat × Val) := []   -- senders whose item was taken
  sdisc : List (Nat × Val) := []   -- senders disconnected by the last receiver (item still theirs)
  rdone : List (Nat × Val) := []   -- receivers that were handed an item
  rdisc : List Nat := []           -- receivers disconnected by the last sender
  -- concurrent specification only: send operations called and not yet returned (lock-free families)
  inflight : Nat := 0
  -- concurrent specification only: SKIP tombstones may sit in the mpsc-bounded ticket window (number of send overlaps
  -- since the consumer last walked to the end of the ring with no send in flight; see `retire`, `mbFlush`, `microSpur`)
  tomb : Nat := 0
  -- concurrent specification only: a oneshot sender is between its CAS EMPTY→WRITING and its swap →SENT (`STATE_WRITING`;
  -- receivers and `is_sent` still see "nothing sent", competing senders see "already sent")
  osw : Bool := false
  -- ghost
  created : List Val := []
  sentOk : List Val := []
  consumed : List Val := []
  recvOk : List Val := []
  returned : List Val := []
  lost : List Val := []
  chanDropped : List Val := []
  sentBy : List (Nat × Val) := []
  recvBy : List (Nat × Val) := []
  deriving DecidableEq, Repr, Inhabited

/-! ## wrapping counters (`usize` in a release build) -/
def WORD : Nat := 18446744073709551616
def wdec (n : Nat) : Nat := if n = 0 then WORD - 1 else n - 1
def winc (n : Nat) : Nat := if n + 1 = WORD then 0 else n + 1

/-! ## handle table -/
def findH (hs : List Handle) (n : HName) : Option Handle := hs.find? (fun h => h.name = n)

def setH (hs : List Handle) (n : HName) (f : Handle → Handle) : List Handle :=
  hs.map (fun h => if h.name = n then f h else h)

def eraseH (hs : List Handle) (n : HName) : List Handle := hs.filter (fun h => h.name ≠ n)

def St.liveCount (s : St) (side : Side) : Nat :=
  (s.hs.filter (fun h => h.name.side = side ∧ h.closed = false)).length

/-! ## the abstract part of the state (what C01 calls "no effect on the channel") -/
structure Abs where
  buf : List Val
  hs : List Handle
  sc : Nat
  rc : Nat
  rd : Bool
  pd : Bool
  os : OsState
  deriving DecidableEq, Repr

def St.abs (s : St) : Abs := ⟨s.buf, s.hs, s.sc, s.rc, s.rd, s.pd, s.os⟩

/-! ## capacity -/
def Flavour.bounded (fl : Flavour) : Bool :=
  match fl.fam with
  | .sb | .mb | .pb => true
  | _ => false

/-- exact free space in the FIFO (`none` = unbounded) -/
def room (fl : Flavour) (s : St) : Option Nat :=
  match fl.fam with
  | .sb | .mb | .pb => some (fl.cap - s.buf.length)
  | .mu | .pu => none
  | .rv | .os => some 0

/-- the window a *blocking* mpsc-bounded send consults: stale by the unpublished drains (F14) -/
def hotRoom (fl : Flavour) (s : St) : Option Nat :=
  match fl.fam with
  | .mb => some (fl.cap - (s.buf.length + s.unpub))
  | _ => room fl s

def full (fl : Flavour) (s : St) : Bool :=
  match room fl s with
  | some 0 => true
  | _ => false

/-- peer-gone as each family's send path tests it -/
def receiversGone (fl : Flavour) (s : St) : Bool :=
  match fl.fam with
  | .sb | .mb | .mu | .pu | .os => s.rd
  | .pb | .rv => s.rc == 0

/-- peer-gone as the receive paths test it -/
def sendersGone (s : St) : Bool := s.sc == 0

/-! ## primitive transformers; every operation is a composition of these -/

/-- a send form takes the values out of the caller's hands (they are "in hand" of the operation in
progress until it places them somewhere) -/
def St.create (s : St) (vs : List Val) : St :=
  { s with created := s.created ++ vs }

/-- move `vs` (in hand) into the buffer, tagged with the sending handle -/
def St.push (s : St) (p : Nat) (vs : List Val) : St :=
  { s with buf := s.buf ++ vs, sentOk := s.sentOk ++ vs,
           sentBy := s.sentBy ++ vs.map (fun v => (p, v)) }

/-- deliver the first `k` buffered values to receiver handle `r` -/
def St.pop (s : St) (r : Nat) (k : Nat) : St :=
  { s with buf := s.buf.drop k, consumed := s.consumed ++ s.buf.take k, recvOk := s.recvOk ++ s.buf.take k,
           recvBy := s.recvBy ++ (s.buf.take k).map (fun v => (r, v)) }

/-- hand `vs` (in hand) back to the caller -/
def St.giveBack (s : St) (vs : List Val) : St :=
  { s with returned := s.returned ++ vs }

/-- `vs` (in hand) are dropped by a failing operation whose error carries no value -/
def St.lose (s : St) (vs : List Val) : St :=
  { s with lost := s.lost ++ vs }

/-- the channel destroys everything it still buffers (receiver close in mpsc-unbounded / oneshot, teardown) -/
def St.drainBuf (s : St) : St :=
  { s with buf := [], consumed := s.consumed ++ s.buf, chanDropped := s.chanDropped ++ s.buf }

/-- rendezvous hand-off: the value goes from the sender's hands straight to a receiver -/
def St.handOff (s : St) (p r : Nat) (v : Val) : St :=
  { s with sentOk := s.sentOk ++ [v], consumed := s.consumed ++ [v],
           recvOk := s.recvOk ++ [v], sentBy := s.sentBy ++ [(p, v)], recvBy := s.recvBy ++ [(r, v)] }

/-- rendezvous F1: the value goes to a receiver record that was already cancelled; the sender is told Ok,
the receiver drops it -/
def St.handOffLost (s : St) (p : Nat) (v : Val) : St :=
  { s with sentOk := s.sentOk ++ [v], consumed := s.consumed ++ [v],
           chanDropped := s.chanDropped ++ [v], sentBy := s.sentBy ++ [(p, v)] }

/-! ## token locations (C09), derived -/

/-- values parked in rendezvous sender records (still owned by their sender) -/
def St.parked (s : St) : List Val := s.sw.map (·.2.2) ++ s.sdisc.map (·.2)

/-- every place a token can be once it left the hands of the operation that offered it -/
def St.placed (s : St) : List Val :=
  s.buf ++ s.recvOk ++ s.returned ++ s.lost ++ s.chanDropped ++ s.parked

def St.loc (s : St) (v : Val) : Loc :=
  if s.buf.contains v then .buffered
  else if s.recvOk.contains v then .delivered
  else if s.returned.contains v then .returned
  else if s.lost.contains v || s.chanDropped.contains v then .dropped
  else if s.created.contains v then .inHand
  else .unknown

/-- how many times the payload's `Drop` has run for `v` once every handle is gone: delivered values
are dropped by the receiving side of the harness, returned values by the sending side, the rest by
the channel. -/
def St.dropCount (s : St) (v : Val) : Nat :=
  s.recvOk.count v + s.returned.count v + s.lost.count v + s.chanDropped.count v

/-! ## initial state -/
def pubChunk (cap : Nat) (isAsync : Bool) : Nat := if isAsync then cap else min cap 64

def init (fl : Flavour) : St :=
  { hs := [⟨⟨.tx, 0⟩, false, fl.async0 && fl.fam != .os⟩, ⟨⟨.rx, 0⟩, false, fl.async0 || fl.fam == .os⟩],
    kpub := pubChunk fl.cap fl.async0 }

/-! ## Broadcast (spmc): per-receiver cursor into the sent sequence -/
structure BHandle where
  idx : Nat
  cursor : Nat
  closed : Bool        -- the handle's own flag (reset by `to_async` / `to_sync`)
  registered : Bool    -- its cursor cell is in the producer's cursor list (cleared by close / drop, never set again)
  isAsync : Bool
  deriving DecidableEq, Repr, Inhabited

structure BroadcastSpec where
  cap : Nat
  sent : List Val := []             -- every value written so far; `head = sent.length`
  rxs : List BHandle := []          -- receiver handle objects (closed ones stay until dropped)
  txAlive : Bool := true            -- the sender handle object exists
  txClosed : Bool := false          -- sender's own closed flag
  txAsync : Bool := false
  producerGone : Bool := false      -- `producer_dropped`: what receivers test; never reset
  recvd : List (Nat × Val) := []    -- ghost: (receiver idx, value) in delivery order
  born : List (Nat × Nat) := []     -- ghost: receiver idx ↦ cursor at creation
  created : List Val := []
  returned : List Val := []
  lost : List Val := []
  deriving DecidableEq, Repr, Inhabited

def BroadcastSpec.head (b : BroadcastSpec) : Nat := b.sent.length

/-- registered cursors -/
def BroadcastSpec.cursors (b : BroadcastSpec) : List Nat :=
  (b.rxs.filter (fun r => r.registered)).map (·.cursor)

def minList : List Nat → Nat → Nat
  | [], d => d
  | x :: r, d => min x (minList r d)

/-- slowest registered receiver (the head itself when there is none) -/
def BroadcastSpec.minCursor (b : BroadcastSpec) : Nat := minList b.cursors b.head

/-- `producer_space`: `cap − min(head − min_tail, cap)` -/
def BroadcastSpec.room (b : BroadcastSpec) : Nat := b.cap - (b.head - b.minCursor)

/-- what the ring slot of logical index `i < head` holds now: the value of the latest index written
to that slot (`i` itself unless the slot was overwritten — only a stale, unregistered-then-cloned
cursor can be lapped) -/
def BroadcastSpec.slotIdx (b : BroadcastSpec) (i : Nat) : Nat :=
  if b.cap = 0 then i else i + b.cap * ((b.head - 1 - i) / b.cap)

end Fv.Chan
