/-
STEP-LEVEL (layer B) model of fibre's bounded SPSC channel:
  /repo/channels/src/spsc/shared.rs       `Ring` (push/pop/len, Drop), `SpscShared` (register,
                                          unregister, wake_one, notify_*, drop_sender/receiver)
  /repo/channels/src/spsc/bounded_sync.rs `send`, `try_send`, `recv`, `try_recv`,
                                          `recv_timeout(0)`, `recv_timeout(d)`, `len`, `close`, `Drop`

The TIMED receive `recv_timeout(d)`, d > 0 (`Op.recvTimeout`): its wait loop is the code of `recv`'s wait loop without
the spin phase, with `park_timeout` for `park` and a deadline test (`Instant::now()`, not a visible action) between
`senders_alive()` and the wait. It is modelled on the SAME call sites as `recv` (`rA`, `rL`, `rL2`, `rOk`, `rDisc`)
with the local `Loc.tm = true`: `waitStep` skips the spin, `park_timeout` returning because the timeout fired is the
existing token-less park return (`stepSpurious`), and the deadline exit is the environment step `Label.deadline`
(`stepDeadline`: from the point where the thread would wait — `park` when registered, `rgLock` when not — to
`rTo`: `[unregister] → Err(Timeout)`). Every invariant of `Fv.Lemmas.SpscB*` (control, ring, waiter protocol, no lost
wake-up) is proved for these steps too.

One step = ONE visible action of the scheduler shim (atomic load/store/swap/cas/fetch_sub, fence,
Mutex lock/unlock, park, unpark, spin_loop) or the call / return of an API operation. Non-atomic
work (slot write/read, `*guard = Some(..)`, `guard.take()`, the private index caches) is folded
into the visible action that PRECEDES it (the shim's scheduling point is before each action).

Two threads, named by their role: `P` owns the sender handle, `C` the receiver handle. Programs
(`List Op` per role), capacity and therefore the physical ring size are parameters. Memory is
sequentially consistent; the ordering the code uses at each position is recorded by `ordAt`
(compared with the implementation's on every replayed trace, given no semantics here).

Thread-local state `Loc`: `k` = which call site of the API the thread is in (continuation),
`m` = micro position inside the shared sub-procedures (push / pop / notify / wake_one / register /
unregister / park), plus the locals the code keeps across actions (`reg` = `is_registered`,
`spun` = `backoff ≥ spin_limit` with spin_limit = 1 under the harness build, `v` item in hand,
`t`/`h` the index read at the start of push/pop).
-/
namespace Fv.Chan.SpscB

inductive Role where
  | P | C
deriving Repr, DecidableEq, Inhabited

def other : Role → Role
  | .P => .C
  | .C => .P

inductive Op where
  | send (v : Nat)
  | trySend (v : Nat)
  | recv
  | tryRecv
  | recvTimeout0
  | recvTimeout     -- `recv_timeout(d)` with a real timeout: the wait loop of `recv` without the spin phase, `park_timeout`, deadline exit
  | len
  | close
  | drop
deriving Repr, DecidableEq

inductive Res where
  | ok
  | okV (v : Nat)
  | full (v : Nat)
  | closedV (v : Nat)
  | closed
  | disc
  | empty
  | timeout
  | closeErr
  | n (k : Nat)
deriving Repr, DecidableEq

/-- Call site / continuation. -/
inductive K where
  | idle
  | sA        -- send: closed checks + first push (fast path)
  | sL        -- send: wait loop (top: consumer_dropped check, push, park / spin / register)
  | sOk       -- send: loop push succeeded: [unregister] → notify_receivers → Ok
  | sClosed   -- send: loop saw consumer_dropped: [unregister] → Err(Closed)
  | tS        -- try_send
  | rA        -- recv: closed check + first pop
  | rL        -- recv: wait loop, first pop of an iteration
  | rL2       -- recv: loop, second pop after `!senders_alive()`
  | rOk       -- recv: loop pop succeeded: [unregister] → notify_senders → Ok
  | rDisc     -- recv: loop: [unregister] → Err(Disconnected)
  | rTo       -- recv_timeout: loop: deadline passed: [unregister] → Err(Timeout)
  | tR        -- try_recv: first pop
  | tR2       -- try_recv: second pop after `!senders_alive()`
  | toA       -- recv_timeout(0): closed check + first pop
  | toL       -- recv_timeout(0): loop pop
  | toL2      -- recv_timeout(0): pop after `!senders_alive()`
  | pr        -- len
  | cl        -- close
  | dr        -- drop (handle Drop)
  | drn       -- Ring::drop drain by the last handle dropped
deriving Repr, DecidableEq

/-- Micro position = the NEXT visible action of the thread. -/
inductive Mic where
  | idle
  | pushLdTail | pushLdHead | pushStTail
  | popLdHead | popLdTail | popStHead
  | nfFence | nfLdGate
  | wkLock | wkStGate (hasFlag : Bool) | wkStFlag | wkUnlock (took : Bool) | wkUnpark
  | rgLock | rgStGate | rgUnlock | rgFence
  | urLock | urStGate | urUnlock
  | park | swapFlag | spin
  | ldClosed | ldDropped | ldCount
  | casClosed | swapClosed | stDropped | subCount
  | lenLdHead | lenLdTail
  | ret (r : Res)
deriving Repr, DecidableEq

structure Loc where
  k : K := .idle
  m : Mic := .idle
  reg : Bool := false
  spun : Bool := false
  v : Nat := 0
  t : Nat := 0
  h : Nat := 0
  /-- the call is the TIMED receive (`recv_timeout(d)`, d > 0): same call sites as `recv` (`rA`, `rL`, `rL2`, `rOk`,
  `rDisc`) — the two loops are the same code — but no spin phase, `park_timeout` for `park`, and the deadline exit -/
  tm : Bool := false
deriving Repr, DecidableEq

structure State where
  cap : Nat
  phys : Nat
  tail : Nat
  head : Nat
  cachedHead : Nat
  cachedTail : Nat
  slots : Nat → Option Nat
  count : Role → Nat            -- P: sender_count, C: receiver_count
  dropped : Role → Bool         -- P: producer_dropped, C: consumer_dropped
  closed : Role → Bool          -- the handle's own `closed` flag
  gate : Role → Nat             -- P: send_waiters, C: recv_waiters
  slot : Role → Option Bool     -- P: producer_waiter, C: consumer_waiter; payload = "has a notified flag"
  locked : Role → Bool          -- the waiter mutexes
  tok : Role → Bool             -- park token of the thread playing the role
  flag : Role → Bool            -- the call's stack-local `notified`
  gone : Role → Bool            -- handle dropped (its Arc reference released)
  loc : Role → Loc
  prog : Role → List Op
  -- ghost history
  pushed : List Nat
  popped : List Nat
  drained : List Nat
  results : Role → List Res

def upd {α} (f : Role → α) (r : Role) (a : α) : Role → α := fun q => if q = r then a else f q
def updN {α} (f : Nat → α) (i : Nat) (a : α) : Nat → α := fun j => if j = i then a else f j

/-- `capacity.next_power_of_two().max(2)` -/
def pow2ge (n : Nat) : Nat → Nat
  | 0 => 1
  | fuel + 1 => if n ≤ 1 then 1 else 2 * pow2ge ((n + 1) / 2) fuel
def physOf (cap : Nat) : Nat := max 2 (pow2ge cap cap)

def init (cap : Nat) (pp pc : List Op) : State :=
  { cap := cap, phys := physOf cap, tail := 0, head := 0, cachedHead := 0, cachedTail := 0,
    slots := fun _ => none, count := fun _ => 1, dropped := fun _ => false, closed := fun _ => false,
    gate := fun _ => 0, slot := fun _ => none, locked := fun _ => false, tok := fun _ => false,
    flag := fun _ => false, gone := fun _ => false, loc := fun _ => {},
    prog := fun r => match r with | .P => pp | .C => pc,
    pushed := [], popped := [], drained := [], results := fun _ => [] }

/-- The published window of the ring, oldest first. -/
def window (slots : Nat → Option Nat) (phys lo : Nat) : Nat → List (Option Nat)
  | 0 => []
  | n + 1 => slots (lo % phys) :: window slots phys (lo + 1) n

inductive Obj where
  | tail | head
  | count (r : Role) | dropped (r : Role) | closed (r : Role) | gate (r : Role) | flag (r : Role)
deriving Repr, DecidableEq

inductive Label where
  | call | ret
  | load (o : Obj) | store (o : Obj) | swap (o : Obj) | cas (o : Obj) | fsub (o : Obj)
  | fence | lock (r : Role) | unlock (r : Role)
  | park | spurious | unpark (r : Role) | spin
  | deadline
deriving Repr, DecidableEq

def setLoc (s : State) (r : Role) (l : Loc) : State := { s with loc := upd s.loc r l }

/-! ### continuations -/

/-- top of the wait loop -/
def loopTop (l : Loc) : Loc :=
  match l.k with
  | .sL => { l with m := .ldDropped }
  | .rL => { l with m := .popLdHead }
  | _ => { l with m := .ret .closeErr }     -- unreachable

/-- what a loop iteration does once its condition check failed -/
def waitStep (l : Loc) : Loc :=
  if l.reg then { l with m := .park }
  else if !l.spun && !l.tm then { l with m := .spin }
  else { l with m := .rgLock }

def afterPush (l : Loc) (ok : Bool) : Loc :=
  match l.k, ok with
  | .sA, true => { l with m := .nfFence }
  | .sA, false => { l with k := .sL, m := .ldDropped }
  | .sL, true => { l with k := .sOk, m := if l.reg then .urLock else .nfFence }
  | .sL, false => waitStep l
  | .tS, true => { l with m := .nfFence }
  | .tS, false => { l with m := .ret (.full l.v) }
  | _, _ => { l with m := .ret .closeErr }  -- unreachable

def afterPop (l : Loc) (r : Option Nat) : Loc :=
  match l.k, r with
  | .rA, some v => { l with v := v, m := .nfFence }
  | .rA, none => { l with k := .rL, m := .popLdHead }
  | .rL, some v => { l with v := v, k := .rOk, m := if l.reg then .urLock else .nfFence }
  | .rL, none => { l with m := .ldCount }
  | .rL2, some v => { l with v := v, k := .rOk, m := if l.reg then .urLock else .nfFence }
  | .rL2, none => { l with k := .rDisc, m := if l.reg then .urLock else .ret .disc }
  | .tR, some v => { l with v := v, m := .nfFence }
  | .tR, none => { l with m := .ldCount }
  | .tR2, some v => { l with v := v, m := .nfFence }
  | .tR2, none => { l with m := .ret .disc }
  | .toA, some v => { l with v := v, m := .nfFence }
  | .toA, none => { l with k := .toL, m := .popLdHead }
  | .toL, some v => { l with v := v, m := .nfFence }
  | .toL, none => { l with m := .ldCount }
  | .toL2, some v => { l with v := v, m := .nfFence }
  | .toL2, none => { l with m := .ret .disc }
  | .drn, some _ => { l with m := .popLdHead }
  | .drn, none => { l with m := .ret .ok }
  | _, _ => { l with m := .ret .closeErr }  -- unreachable

/-- after `notify_*` (with or without a wake) -/
def afterNotify (l : Loc) : Loc :=
  match l.k with
  | .sA | .sOk | .tS => { l with m := .ret .ok }
  | .rA | .rOk | .tR | .tR2 | .toA | .toL | .toL2 => { l with m := .ret (.okV l.v) }
  | _ => { l with m := .ret .closeErr }     -- unreachable

def afterUnreg (l : Loc) : Loc :=
  match l.k with
  | .sOk | .rOk => { l with reg := false, m := .nfFence }
  | .sClosed => { l with reg := false, m := .ret .closed }
  | .rDisc => { l with reg := false, m := .ret .disc }
  | .rTo => { l with reg := false, m := .ret .timeout }
  | _ => { l with m := .ret .closeErr }     -- unreachable

/-- End of `close_internal` (or of the `closed` test that skips it). For `drop` the handle's Arc
reference is released in the same atomic block; the last one out drains the ring. -/
def afterClose (s : State) (r : Role) (l : Loc) : State :=
  if l.k = .dr then
    { s with gone := upd s.gone r true,
             loc := upd s.loc r (if s.gone (other r) then { l with k := .drn, m := .popLdHead } else { l with m := .ret .ok }) }
  else setLoc s r { l with m := .ret .ok }

/-- after `wake_one` -/
def afterWake (s : State) (r : Role) (l : Loc) : State :=
  if l.k = .cl ∨ l.k = .dr then afterClose s r l else setLoc s r (afterNotify l)

/-! ### steps: one `def` per visible action -/

def stepCall (s : State) (r : Role) : Option State :=
  match (s.loc r).m, s.prog r with
  | .idle, op :: rest =>
    if s.gone r then none else
    let s1 := { s with prog := upd s.prog r rest }
    match op, r with
    | .send v, .P => some { s1 with flag := upd s.flag r false, loc := upd s.loc r { k := .sA, m := .ldClosed, v := v } }
    | .trySend v, .P => some { s1 with loc := upd s.loc r { k := .tS, m := .ldClosed, v := v } }
    | .recv, .C => some { s1 with flag := upd s.flag r false, loc := upd s.loc r { k := .rA, m := .ldClosed } }
    | .tryRecv, .C => some { s1 with loc := upd s.loc r { k := .tR, m := .ldClosed } }
    | .recvTimeout0, .C => some { s1 with loc := upd s.loc r { k := .toA, m := .ldClosed } }
    | .recvTimeout, .C => some { s1 with flag := upd s.flag r false, loc := upd s.loc r { k := .rA, m := .ldClosed, tm := true } }
    | .len, _ => some { s1 with loc := upd s.loc r { k := .pr, m := .lenLdHead } }
    | .close, _ => some { s1 with loc := upd s.loc r { k := .cl, m := .casClosed } }
    | .drop, _ => some { s1 with loc := upd s.loc r { k := .dr, m := .swapClosed } }
    | _, _ => none
  | _, _ => none

def stepRet (s : State) (r : Role) : Option State :=
  match (s.loc r).m with
  | .ret res => some { s with results := upd s.results r (s.results r ++ [res]), flag := upd s.flag r false,
                              loc := upd s.loc r {} }
  | _ => none

/-- `tail.load`: Relaxed by the producer in `push`, Acquire by the consumer's refresh in `pop`, Acquire in `len`. -/
def stepLdTail (s : State) (r : Role) : Option State :=
  let l := s.loc r
  match l.m with
  | .pushLdTail =>
    if s.tail - s.cachedHead ≥ s.cap then some (setLoc s r { l with t := s.tail, m := .pushLdHead })
    else some { s with slots := updN s.slots (s.tail % s.phys) (some l.v),
                       loc := upd s.loc r { l with t := s.tail, m := .pushStTail } }
  | .popLdTail =>
    if l.h = s.tail then some { s with cachedTail := s.tail, loc := upd s.loc r (afterPop l none) }
    else some { s with cachedTail := s.tail,
                       loc := upd s.loc r { l with v := (s.slots (l.h % s.phys)).getD 0, m := .popStHead } }
  | .lenLdTail => some (setLoc s r { l with m := .ret (.n (min (s.tail - l.h) s.cap)) })
  | _ => none

def stepLdHead (s : State) (r : Role) : Option State :=
  let l := s.loc r
  match l.m with
  | .pushLdHead =>
    if l.t - s.head ≥ s.cap then some { s with cachedHead := s.head, loc := upd s.loc r (afterPush l false) }
    else some { s with cachedHead := s.head, slots := updN s.slots (l.t % s.phys) (some l.v),
                       loc := upd s.loc r { l with m := .pushStTail } }
  | .popLdHead =>
    if s.head = s.cachedTail then some (setLoc s r { l with h := s.head, m := .popLdTail })
    else some (setLoc s r { l with h := s.head, v := (s.slots (s.head % s.phys)).getD 0, m := .popStHead })
  | .lenLdHead => some (setLoc s r { l with h := s.head, m := .lenLdTail })
  | _ => none

/-- `tail.store(tail + 1, Release)`: the publication (linearisation point of a successful send). -/
def stepStTail (s : State) (r : Role) : Option State :=
  let l := s.loc r
  match l.m with
  | .pushStTail => some { s with tail := l.t + 1, pushed := s.pushed ++ [l.v], loc := upd s.loc r (afterPush l true) }
  | _ => none

/-- `head.store(head + 1, Release)`: the slot is handed back to the producer. -/
def stepStHead (s : State) (r : Role) : Option State :=
  let l := s.loc r
  match l.m with
  | .popStHead =>
    if l.k = .drn then
      some { s with head := l.h + 1, drained := s.drained ++ [l.v], slots := updN s.slots (l.h % s.phys) none,
                    loc := upd s.loc r (afterPop l (some l.v)) }
    else
      some { s with head := l.h + 1, popped := s.popped ++ [l.v], slots := updN s.slots (l.h % s.phys) none,
                    loc := upd s.loc r (afterPop l (some l.v)) }
  | _ => none

def stepFence (s : State) (r : Role) : Option State :=
  let l := s.loc r
  match l.m with
  | .nfFence => some (setLoc s r { l with m := .nfLdGate })
  | .rgFence => some (setLoc s r (loopTop l))
  | _ => none

/-- `notify_*`: read the other side's gate -/
def stepLdGate (s : State) (r : Role) : Option State :=
  let l := s.loc r
  match l.m with
  | .nfLdGate =>
    if s.gate (other r) ≠ 0 then some (setLoc s r { l with m := .wkLock })
    else some (setLoc s r (afterNotify l))
  | _ => none

/-- the role whose waiter slot / gate / flag / token the action at `m` by thread `r` touches -/
def targetOf (m : Mic) (r : Role) : Role :=
  match m with
  | .nfLdGate | .wkLock | .wkStGate _ | .wkStFlag | .wkUnlock _ | .wkUnpark => other r
  | _ => r

/-- `Mutex::lock` on a waiter slot (only the successful acquisition is a step). `wake_one` takes the
slot's content, `register` fills it, `unregister` clears it — in the same atomic block. -/
def stepLock (s : State) (r : Role) : Option State :=
  let l := s.loc r
  match l.m with
  | .wkLock =>
    if s.locked (other r) then none else
    match s.slot (other r) with
    | some f => some { s with locked := upd s.locked (other r) true, slot := upd s.slot (other r) none,
                              loc := upd s.loc r { l with m := .wkStGate f } }
    | none => some { s with locked := upd s.locked (other r) true, loc := upd s.loc r { l with m := .wkUnlock false } }
  | .rgLock =>
    if s.locked r then none else
    some { s with locked := upd s.locked r true, slot := upd s.slot r (some true),
                  loc := upd s.loc r { l with m := .rgStGate } }
  | .urLock =>
    if s.locked r then none else
    some { s with locked := upd s.locked r true, slot := upd s.slot r none,
                  loc := upd s.loc r { l with m := .urStGate } }
  | _ => none

def stepStGate (s : State) (r : Role) : Option State :=
  let l := s.loc r
  match l.m with
  | .wkStGate f =>
    some { s with gate := upd s.gate (other r) 0, loc := upd s.loc r { l with m := if f then .wkStFlag else .wkUnlock true } }
  | .rgStGate => some { s with gate := upd s.gate r 1, loc := upd s.loc r { l with m := .rgUnlock } }
  | .urStGate => some { s with gate := upd s.gate r 0, loc := upd s.loc r { l with m := .urUnlock } }
  | _ => none

/-- `(*notified).store(true, Release)` under the slot lock -/
def stepStFlag (s : State) (r : Role) : Option State :=
  let l := s.loc r
  match l.m with
  | .wkStFlag => some { s with flag := upd s.flag (other r) true, loc := upd s.loc r { l with m := .wkUnlock true } }
  | _ => none

def stepUnlock (s : State) (r : Role) : Option State :=
  let l := s.loc r
  match l.m with
  | .wkUnlock took =>
    if took then some { s with locked := upd s.locked (other r) false, loc := upd s.loc r { l with m := .wkUnpark } }
    else some (afterWake { s with locked := upd s.locked (other r) false } r l)
  | .rgUnlock => some { s with locked := upd s.locked r false, loc := upd s.loc r { l with reg := true, m := .rgFence } }
  | .urUnlock => some { s with locked := upd s.locked r false, loc := upd s.loc r (afterUnreg l) }
  | _ => none

def stepUnpark (s : State) (r : Role) : Option State :=
  let l := s.loc r
  match l.m with
  | .wkUnpark => some (afterWake { s with tok := upd s.tok (other r) true } r l)
  | _ => none

/-- `thread::park()` returns: the token is consumed -/
def stepPark (s : State) (r : Role) : Option State :=
  let l := s.loc r
  match l.m with
  | .park => if s.tok r then some { s with tok := upd s.tok r false, loc := upd s.loc r { l with m := .swapFlag } } else none
  | _ => none

/-- `thread::park()` returns without a token (std permits it; the harness scheduler never does it), or — timed
receive — `thread::park_timeout()` returns because the timeout fired -/
def stepSpurious (s : State) (r : Role) : Option State :=
  let l := s.loc r
  match l.m with
  | .park => some (setLoc s r { l with m := .swapFlag })
  | _ => none

/-- `notified.swap(false, Acquire)` after park -/
def stepSwapFlag (s : State) (r : Role) : Option State :=
  let l := s.loc r
  match l.m with
  | .swapFlag =>
    if s.flag r then some { s with flag := upd s.flag r false, loc := upd s.loc r (loopTop { l with reg := false, spun := false }) }
    else some (setLoc s r (loopTop l))
  | _ => none

/-- The deadline test of the timed receive (`Instant::now()` against the deadline: no visible action). It sits
between `senders_alive()` and `park_timeout` / `register`, i.e. exactly where the thread is about to wait; when the
deadline has passed the call leaves through `[unregister] → Err(Timeout)` instead. Whether it has passed is the
environment's choice (real time). -/
def stepDeadline (s : State) (r : Role) : Option State :=
  let l := s.loc r
  match l.m with
  | .park => if l.tm ∧ l.k = .rL then some (setLoc s r { l with k := .rTo, m := .urLock }) else none       -- registered: unregister first
  | .rgLock => if l.tm ∧ l.k = .rL then some (setLoc s r { l with k := .rTo, m := .ret .timeout }) else none  -- not registered yet
  | _ => none

def stepSpin (s : State) (r : Role) : Option State :=
  let l := s.loc r
  match l.m with
  | .spin => some (setLoc s r (loopTop { l with spun := true }))
  | _ => none

/-- the handle's own `closed.load(Relaxed)` -/
def stepLdClosed (s : State) (r : Role) : Option State :=
  let l := s.loc r
  match l.m with
  | .ldClosed =>
    if s.closed r then
      match l.k with
      | .sA => some (setLoc s r { l with m := .ret .closed })
      | .tS => some (setLoc s r { l with m := .ret (.closedV l.v) })
      | _ => some (setLoc s r { l with m := .ret .disc })
    else
      match l.k with
      | .sA | .tS => some (setLoc s r { l with m := .ldDropped })
      | _ => some (setLoc s r { l with m := .popLdHead })
  | _ => none

/-- `consumer_dropped.load(Acquire)` by the sender -/
def stepLdDropped (s : State) (r : Role) : Option State :=
  let l := s.loc r
  match l.m with
  | .ldDropped =>
    if s.dropped (other r) then
      match l.k with
      | .sA => some (setLoc s r { l with m := .ret .closed })
      | .tS => some (setLoc s r { l with m := .ret (.closedV l.v) })
      | _ => some (setLoc s r { l with k := .sClosed, m := if l.reg then .urLock else .ret .closed })
    else some (setLoc s r { l with m := .pushLdTail })
  | _ => none

/-- `sender_count.load(Acquire)` (`senders_alive`) by the receiver -/
def stepLdCount (s : State) (r : Role) : Option State :=
  let l := s.loc r
  match l.m with
  | .ldCount =>
    if s.count (other r) = 0 then
      match l.k with
      | .rL => some (setLoc s r { l with k := .rL2, m := .popLdHead })
      | .tR => some (setLoc s r { l with k := .tR2, m := .popLdHead })
      | _ => some (setLoc s r { l with k := .toL2, m := .popLdHead })
    else
      match l.k with
      | .rL => some (setLoc s r (waitStep l))
      | .tR => some (setLoc s r { l with m := .ret .empty })
      | _ => some (setLoc s r { l with m := .ret .timeout })
  | _ => none

/-- `closed.compare_exchange(false, true, AcqRel, Relaxed)` in `close` -/
def stepCasClosed (s : State) (r : Role) : Option State :=
  let l := s.loc r
  match l.m with
  | .casClosed =>
    if s.closed r then some (setLoc s r { l with m := .ret .closeErr })
    else some { s with closed := upd s.closed r true, loc := upd s.loc r { l with m := .stDropped } }
  | _ => none

/-- `closed.swap(true, AcqRel)` in `Drop` -/
def stepSwapClosed (s : State) (r : Role) : Option State :=
  let l := s.loc r
  match l.m with
  | .swapClosed =>
    if s.closed r then some (afterClose s r l)
    else some { s with closed := upd s.closed r true, loc := upd s.loc r { l with m := .stDropped } }
  | _ => none

/-- `producer_dropped / consumer_dropped .store(true, Release)` -/
def stepStDropped (s : State) (r : Role) : Option State :=
  let l := s.loc r
  match l.m with
  | .stDropped => some { s with dropped := upd s.dropped r true, loc := upd s.loc r { l with m := .subCount } }
  | _ => none

/-- `sender_count / receiver_count .fetch_sub(1, AcqRel)`; the last one wakes the other side -/
def stepSubCount (s : State) (r : Role) : Option State :=
  let l := s.loc r
  match l.m with
  | .subCount =>
    if s.count r = 1 then some { s with count := upd s.count r 0, loc := upd s.loc r { l with m := .wkLock } }
    else some (afterClose { s with count := upd s.count r (s.count r - 1) } r l)
  | _ => none

def step (s : State) (r : Role) : Label → Option State
  | .call => stepCall s r
  | .ret => stepRet s r
  | .load .tail => stepLdTail s r
  | .load .head => stepLdHead s r
  | .store .tail => stepStTail s r
  | .store .head => stepStHead s r
  | .fence => stepFence s r
  | .load (.gate q) => if q = targetOf (s.loc r).m r then stepLdGate s r else none
  | .lock q => if q = targetOf (s.loc r).m r then stepLock s r else none
  | .store (.gate q) => if q = targetOf (s.loc r).m r then stepStGate s r else none
  | .store (.flag q) => if q = targetOf (s.loc r).m r then stepStFlag s r else none
  | .unlock q => if q = targetOf (s.loc r).m r then stepUnlock s r else none
  | .unpark q => if q = targetOf (s.loc r).m r then stepUnpark s r else none
  | .park => stepPark s r
  | .spurious => stepSpurious s r
  | .swap (.flag q) => if q = r then stepSwapFlag s r else none
  | .spin => stepSpin s r
  | .deadline => stepDeadline s r
  | .load (.closed q) => if q = r then stepLdClosed s r else none
  | .load (.dropped q) => if q = other r then stepLdDropped s r else none
  | .load (.count q) => if q = other r then stepLdCount s r else none
  | .cas (.closed q) => if q = r then stepCasClosed s r else none
  | .swap (.closed q) => if q = r then stepSwapClosed s r else none
  | .store (.dropped q) => if q = r then stepStDropped s r else none
  | .fsub (.count q) => if q = r then stepSubCount s r else none
  | _ => none

def run (s : State) : List (Role × Label) → Option State
  | [] => some s
  | (r, l) :: rest => (step s r l).bind (fun s' => run s' rest)

inductive Reach (cap : Nat) (pp pc : List Op) : State → Prop where
  | init : Reach cap pp pc (init cap pp pc)
  | step {s s' r l} : Reach cap pp pc s → step s r l = some s' → Reach cap pp pc s'

/-! ### data for the trace replayer (no semantics in the theorems) -/

inductive Ord where
  | relaxed | acquire | release | acqrel | seqcst
deriving Repr, DecidableEq

/-- `a` is at least as strong as `b` -/
def Ord.ge : Ord → Ord → Bool
  | _, .relaxed => true
  | .seqcst, _ => true
  | .acqrel, .acquire => true
  | .acqrel, .release => true
  | .acqrel, .acqrel => true
  | .acquire, .acquire => true
  | .release, .release => true
  | _, _ => false

/-- the memory ordering the code uses for the action at position `m` (for `cas`: the success ordering) -/
def ordAt : Mic → Ord
  | .pushLdTail => .relaxed | .pushLdHead => .acquire | .pushStTail => .release
  | .popLdHead => .relaxed | .popLdTail => .acquire | .popStHead => .release
  | .nfFence => .seqcst | .rgFence => .seqcst
  | .nfLdGate => .relaxed | .wkStGate _ => .relaxed | .rgStGate => .relaxed | .urStGate => .relaxed
  | .wkStFlag => .release | .swapFlag => .acquire
  | .ldClosed => .relaxed | .ldDropped => .acquire | .ldCount => .acquire
  | .casClosed => .acqrel | .swapClosed => .acqrel | .stDropped => .release | .subCount => .acqrel
  | .lenLdHead => .acquire | .lenLdTail => .acquire
  | _ => .relaxed

/-- current value of an atomic object (Bool as 0/1) -/
def valOf (s : State) : Obj → Nat
  | .tail => s.tail
  | .head => s.head
  | .count r => s.count r
  | .dropped r => if s.dropped r then 1 else 0
  | .closed r => if s.closed r then 1 else 0
  | .gate r => s.gate r
  | .flag r => if s.flag r then 1 else 0

end Fv.Chan.SpscB
