/-
B-model (critical-section granularity, all interleavings) of the bounded MPMC channel v2:
  /repo/channels/src/mpmc_v2/core.rs      try_send_core / try_recv_core(_for) / poll_recv_internal
  /repo/channels/src/mpmc_v2/sync_impl.rs send_sync / recv_sync / recv_timeout_sync, backoff.rs adaptive_wait
  /repo/channels/src/mpmc_v2/async_impl.rs SendFuture / RecvFuture (poll, Drop = cancellation)
  /repo/channels/src/mpmc_v2/mod.rs       clone / close / drop of the four handle types

One step = one locked section of the channel's `HybridMutex` (everything the code does between
`internal.lock()` and the guard's drop, including the waiter-state CAS and the `unpark`/`wake`
calls that the code issues while still holding the guard), OR one out-of-lock visible action:
the state-byte load of a wait loop, `park`, the cancel CAS of `recv_timeout` / future `Drop`,
one `wake()` of a close path's `to_wake` vector, a poll boundary, a future drop.

Agents (`Nat`) are threads (sync ops, handle ops) or tasks (one future each). A waiter record
is a fresh id `r` (the address of the stack `done_flag` / the future's inline `state`);
`st r` is the state byte, `owner r` the thread/task that `unpark`/`wake` reaches.
`wakes a` is the park token (consumed by `park`) resp. the number of waker invocations since
the last poll (reset by `poll`), exactly the harness' `wakes f` observation.

Ghost (written, never read by a transition): `sent recvd returned dropped offered` token
histories, `ar` / `asg` = records CASed to SUCCESS whose owner has not yet re-entered
`try_recv_core` / `try_send_core` (A_r / A_s of DESIGN Appendix A.5), `wakeBy` = which closing
agent holds the deferred wake of a record, `kind` = send-side / receive-side record.

The model is for capacity ≥ 1 (`bounded(0)` panics in the constructor); batch forms and the
`Stream` impl are not modelled.
-/
namespace Fv.Chan.Mpmc2B

/-- waiter state byte: WAITING=0, SUCCESS_SPACE=3, CLOSED_BUFFERED=1, CANCELLED=8 -/
inductive WS where
  | waiting | success | closed | cancelled
deriving Repr, DecidableEq

/-- `(st & 0x01) != 0` -/
def WS.finished : WS → Bool
  | .success => true
  | .closed => true
  | _ => false

inductive Res where
  | sendOk (v : Nat)            -- Ok(())
  | sendFull (v : Nat)          -- try_send: Err(Full(v)), token handed back
  | sendClosed (v : Nat)        -- try_send: Err(Closed(v)), token handed back
  | sendClosedDrop (v : Nat)    -- send / SendFuture: Err(Closed), the token is dropped by the callee
  | recvOk (v : Nat)
  | recvEmpty
  | recvDisc
  | recvTimeout
  | unit                        -- clone / close / drop returned
  | num (n : Nat)               -- len()
  | futDropped                  -- the future was dropped before completion
  | panicked                    -- `unreachable!("state was finished but channel empty")`
deriving Repr, DecidableEq

inductive Op where
  | send (v : Nat) | trySend (v : Nat) | recv | tryRecv | recvTimeout0
  | sendFut (v : Nat) | recvFut
  | cloneS | cloneR | closeS | closeR | probe
deriving Repr, DecidableEq

inductive PC where
  | idle
  | done (r : Res)
  -- send_sync
  | sTry (v r : Nat)            -- loop head: about to run try_send_core
  | sReg (v r : Nat)            -- got Full: about to lock, re-check, enqueue a fresh waiter
  | sWait (v r : Nat)           -- enqueued: about to load the state byte (adaptive_wait cond)
  | sPark (v r : Nat)           -- cond was false: about to park / parked
  | sUnl (v r : Nat) (closed : Bool)  -- finished: about to lock and unlink
  | tsTry (v : Nat)             -- try_send
  -- recv_sync
  | rTry (r : Nat)
  | rReg (r : Nat)
  | rWait (r : Nat)
  | rPark (r : Nat)
  | rUnl (r : Nat)              -- state CLOSED: about to lock, unlink, return Disconnected
  | trTry                       -- try_recv
  -- recv_timeout(0)
  | toTry (r : Nat)
  | toReg (r : Nat)
  | toRetry (r : Nat)           -- pre-park re-check saw an item: second try_recv_core (not enqueued)
  | toCas (r : Nat)             -- deadline passed: about to CAS WAITING→CANCELLED (outside the lock)
  | toUnl (r : Nat)             -- CAS won: about to lock and unlink, then Timeout
  | toFin (r : Nat)             -- CAS lost: final try_recv_core (Empty ⇒ unreachable!)
  -- SendFuture
  | asNew (v r : Nat)           -- created, never polled (poll boundary)
  | asTry (v r : Nat)
  | asReg (v r : Nat)
  | asPend (v r : Nat)          -- returned Pending, registered (poll boundary)
  | asUnl (v r : Nat) (closed : Bool)
  | asRef (v r : Nat)           -- re-polled while WAITING: about to lock and refresh the waker
  | fdUnlS (v r : Nat)          -- Drop: cancel CAS done, about to lock and unlink
  -- RecvFuture
  | arNew (r : Nat)
  | arTry (r : Nat)
  | arReg (r : Nat)
  | arPend (r : Nat)
  | arUnl (r : Nat)
  | fdUnlR (r : Nat)
  -- handles
  | hCloneS | hCloneR | hCloseS | hCloseR | hProbe
  | hWake (ws : List Nat)       -- close path after unlocking: `for w in to_wake { w.wake() }`
deriving Repr, DecidableEq

structure State where
  cap : Nat
  queue : List Nat
  senders : Nat
  receivers : Nat
  wss : List Nat                -- waiting_sync_senders   (record ids, front first)
  was : List Nat                -- waiting_async_senders
  wsr : List Nat                -- waiting_sync_receivers
  war : List Nat                -- waiting_async_receivers
  st : Nat → WS
  owner : Nat → Nat
  wakes : Nat → Nat
  pc : Nat → PC
  nextRec : Nat
  sent : List Nat
  recvd : List Nat
  returned : List Nat
  dropped : List Nat
  offered : List Nat
  ar : List Nat
  asg : List Nat
  wakeBy : Nat → Nat
  kind : Nat → Bool             -- ghost: the record was created by a send-side operation

def init (cap : Nat) : State :=
  { cap := cap, queue := [], senders := 1, receivers := 1, wss := [], was := [], wsr := [], war := [],
    st := fun _ => .waiting, owner := fun _ => 0, wakes := fun _ => 0, pc := fun _ => .idle, nextRec := 0,
    sent := [], recvd := [], returned := [], dropped := [], offered := [], ar := [], asg := [],
    wakeBy := fun _ => 0, kind := fun _ => false }

def upd {α} (f : Nat → α) (i : Nat) (a : α) : Nat → α := fun j => if j = i then a else f j
def bump (w : Nat → Nat) (a : Nat) : Nat → Nat := fun j => if j = a then w a + 1 else w j

/-- the first record of a waiter queue whose state byte is still WAITING (the only one a
`compare_exchange(WAITING, …)` scan succeeds on) -/
def firstW (st : Nat → WS) (q : List Nat) : Option Nat := q.find? (fun r => decide (st r = .waiting))

/-- `front()` of a queue if its CAS from WAITING succeeds -/
def frontW (st : Nat → WS) (q : List Nat) : Option Nat :=
  match q with
  | r :: _ => if st r = .waiting then some r else none
  | [] => none

/-- locked body of `try_send_core` after the `receiver_count == 0` check. `none` = Full. -/
def sendCore (s : State) (v : Nat) : Option State :=
  if s.queue.length ≠ s.cap then
    match firstW s.st s.war with
    | some r =>
      some { s with st := upd s.st r .success, war := s.war.erase r, queue := s.queue ++ [v],
                    sent := s.sent ++ [v], wakes := bump s.wakes (s.owner r), ar := s.ar ++ [r] }
    | none =>
      match firstW s.st s.wsr with
      | some r =>
        some { s with st := upd s.st r .success, wsr := s.wsr.erase r, queue := s.queue ++ [v],
                      sent := s.sent ++ [v], wakes := bump s.wakes (s.owner r), ar := s.ar ++ [r] }
      | none =>
        if s.queue.length < s.cap then some { s with queue := s.queue ++ [v], sent := s.sent ++ [v] }
        else none
  else none

/-- locked body of `try_recv_core` when the buffer is non-empty: pop the front, wake one sender
(async queue first). `none` = buffer empty. -/
def recvCore (s : State) : Option (Nat × State) :=
  match s.queue with
  | [] => none
  | v :: q =>
    match firstW s.st s.was with
    | some r =>
      some (v, { s with queue := q, recvd := s.recvd ++ [v], st := upd s.st r .success, was := s.was.erase r,
                        wakes := bump s.wakes (s.owner r), asg := s.asg ++ [r] })
    | none =>
      match firstW s.st s.wss with
      | some r =>
        some (v, { s with queue := q, recvd := s.recvd ++ [v], st := upd s.st r .success, wss := s.wss.erase r,
                          wakes := bump s.wakes (s.owner r), asg := s.asg ++ [r] })
      | none => some (v, { s with queue := q, recvd := s.recvd ++ [v] })

/-! ### blocking send (`send_sync`) -/

def stepSTry (s : State) (t v r : Nat) : State :=
  if s.receivers = 0 then
    { s with asg := s.asg.erase r, dropped := s.dropped ++ [v], pc := upd s.pc t (.done (.sendClosedDrop v)) }
  else
    match sendCore { s with asg := s.asg.erase r } v with
    | some s1 => { s1 with pc := upd s1.pc t (.done (.sendOk v)) }
    | none => { s with asg := s.asg.erase r, pc := upd s.pc t (.sReg v r) }

def stepSReg (s : State) (t v r : Nat) : State :=
  if s.queue.length ≠ s.cap ∧ (s.war ≠ [] ∨ s.wsr ≠ [] ∨ s.queue.length < s.cap) then
    { s with pc := upd s.pc t (.sTry v r) }
  else if s.receivers = 0 then
    { s with dropped := s.dropped ++ [v], pc := upd s.pc t (.done (.sendClosedDrop v)) }
  else
    let r' := s.nextRec
    { s with nextRec := r' + 1, st := upd s.st r' .waiting, owner := upd s.owner r' t, kind := upd s.kind r' true,
             wss := s.wss ++ [r'], pc := upd s.pc t (.sWait v r') }

def stepSWait (s : State) (t v r : Nat) : State :=
  match s.st r with
  | .success => { s with pc := upd s.pc t (.sUnl v r false) }
  | .closed => { s with pc := upd s.pc t (.sUnl v r true) }
  | .waiting => { s with pc := upd s.pc t (.sPark v r) }
  | .cancelled => { s with pc := upd s.pc t (.sPark v r) }

def stepSPark (s : State) (t v r : Nat) : Option State :=
  if 0 < s.wakes t then some { s with wakes := upd s.wakes t 0, pc := upd s.pc t (.sWait v r) } else none

def stepSUnl (s : State) (t v r : Nat) (closed : Bool) : State :=
  if closed then
    { s with wss := s.wss.erase r, dropped := s.dropped ++ [v], pc := upd s.pc t (.done (.sendClosedDrop v)) }
  else
    { s with wss := s.wss.erase r, pc := upd s.pc t (.sTry v r) }

def stepTsTry (s : State) (t v : Nat) : State :=
  if s.receivers = 0 then
    { s with returned := s.returned ++ [v], pc := upd s.pc t (.done (.sendClosed v)) }
  else
    match sendCore s v with
    | some s1 => { s1 with pc := upd s1.pc t (.done (.sendOk v)) }
    | none => { s with returned := s.returned ++ [v], pc := upd s.pc t (.done (.sendFull v)) }

/-! ### blocking receive (`recv_sync`), `try_recv`, `recv_timeout(0)` -/

def stepRTry (s : State) (t r : Nat) : State :=
  match recvCore { s with ar := s.ar.erase r } with
  | some (v, s1) => { s1 with pc := upd s1.pc t (.done (.recvOk v)) }
  | none =>
    if s.senders = 0 then { s with ar := s.ar.erase r, pc := upd s.pc t (.done .recvDisc) }
    else { s with ar := s.ar.erase r, pc := upd s.pc t (.rReg r) }

def stepRReg (s : State) (t r : Nat) : State :=
  if s.queue ≠ [] then { s with pc := upd s.pc t (.rTry r) }
  else if s.senders = 0 then { s with pc := upd s.pc t (.done .recvDisc) }
  else
    let r' := s.nextRec
    { s with nextRec := r' + 1, st := upd s.st r' .waiting, owner := upd s.owner r' t, kind := upd s.kind r' false,
             wsr := s.wsr ++ [r'], pc := upd s.pc t (.rWait r') }

def stepRWait (s : State) (t r : Nat) : State :=
  match s.st r with
  | .success => { s with pc := upd s.pc t (.rTry r) }
  | .closed => { s with pc := upd s.pc t (.rUnl r) }
  | .waiting => { s with pc := upd s.pc t (.rPark r) }
  | .cancelled => { s with pc := upd s.pc t (.rPark r) }

def stepRPark (s : State) (t r : Nat) : Option State :=
  if 0 < s.wakes t then some { s with wakes := upd s.wakes t 0, pc := upd s.pc t (.rWait r) } else none

def stepRUnl (s : State) (t r : Nat) : State :=
  { s with wsr := s.wsr.filter (· ≠ r), pc := upd s.pc t (.done .recvDisc) }

def stepTrTry (s : State) (t : Nat) : State :=
  match recvCore s with
  | some (v, s1) => { s1 with pc := upd s1.pc t (.done (.recvOk v)) }
  | none =>
    if s.senders = 0 then { s with pc := upd s.pc t (.done .recvDisc) }
    else { s with pc := upd s.pc t (.done .recvEmpty) }

def stepToTry (s : State) (t r : Nat) : State :=
  match recvCore s with
  | some (v, s1) => { s1 with pc := upd s1.pc t (.done (.recvOk v)) }
  | none =>
    if s.senders = 0 then { s with pc := upd s.pc t (.done .recvDisc) }
    else { s with pc := upd s.pc t (.toReg r) }

def stepToReg (s : State) (t r : Nat) : State :=
  if s.queue ≠ [] then { s with pc := upd s.pc t (.toRetry r) }
  else if s.senders = 0 then { s with pc := upd s.pc t (.done .recvDisc) }
  else { s with wsr := s.wsr ++ [r], pc := upd s.pc t (.toCas r) }

def stepToRetry (s : State) (t r : Nat) : State :=
  match recvCore s with
  | some (v, s1) => { s1 with pc := upd s1.pc t (.done (.recvOk v)) }
  | none =>
    if s.senders = 0 then { s with pc := upd s.pc t (.done .recvDisc) }
    else { s with pc := upd s.pc t (.toCas r) }

def stepToCas (s : State) (t r : Nat) : State :=
  match s.st r with
  | .waiting => { s with st := upd s.st r .cancelled, pc := upd s.pc t (.toUnl r) }
  | .success => { s with pc := upd s.pc t (.toFin r) }
  | .closed => { s with pc := upd s.pc t (.toFin r) }
  | .cancelled => { s with pc := upd s.pc t (.toFin r) }

def stepToUnl (s : State) (t r : Nat) : State :=
  { s with wsr := s.wsr.filter (· ≠ r), pc := upd s.pc t (.done .recvTimeout) }

def stepToFin (s : State) (t r : Nat) : State :=
  match recvCore { s with ar := s.ar.erase r } with
  | some (v, s1) => { s1 with pc := upd s1.pc t (.done (.recvOk v)) }
  | none =>
    if s.senders = 0 then { s with ar := s.ar.erase r, pc := upd s.pc t (.done .recvDisc) }
    else { s with ar := s.ar.erase r, pc := upd s.pc t (.done .panicked) }

/-! ### `SendFuture` -/

def stepAsTry (s : State) (t v r : Nat) : State :=
  if s.receivers = 0 then
    { s with asg := s.asg.erase r, dropped := s.dropped ++ [v], pc := upd s.pc t (.done (.sendClosedDrop v)) }
  else
    match sendCore { s with asg := s.asg.erase r } v with
    | some s1 => { s1 with pc := upd s1.pc t (.done (.sendOk v)) }
    | none => { s with asg := s.asg.erase r, pc := upd s.pc t (.asReg v r) }

def stepAsReg (s : State) (t v r : Nat) : State :=
  if s.queue.length ≠ s.cap ∧ (s.war ≠ [] ∨ s.wsr ≠ [] ∨ s.queue.length < s.cap) then
    { s with pc := upd s.pc t (.asTry v r) }
  else if s.receivers = 0 then
    { s with dropped := s.dropped ++ [v], pc := upd s.pc t (.done (.sendClosedDrop v)) }
  else
    { s with st := upd s.st r .waiting, was := s.was ++ [r], pc := upd s.pc t (.asPend v r) }

def stepAsUnl (s : State) (t v r : Nat) (closed : Bool) : State :=
  if closed then
    { s with was := s.was.erase r, dropped := s.dropped ++ [v], pc := upd s.pc t (.done (.sendClosedDrop v)) }
  else
    { s with was := s.was.erase r, pc := upd s.pc t (.asTry v r) }

def stepAsRef (s : State) (t v r : Nat) : State :=
  if r ∈ s.was then { s with pc := upd s.pc t (.asPend v r) }
  else { s with wakes := bump s.wakes t, pc := upd s.pc t (.asPend v r) }

def stepFdUnlS (s : State) (t v r : Nat) : State :=
  { s with was := s.was.filter (· ≠ r), dropped := s.dropped ++ [v], pc := upd s.pc t (.done .futDropped) }

/-! ### `RecvFuture` (`poll_recv_internal`) -/

/-- `try_recv_core_for(state_ptr)`: whenever the locked section resolves the future (an item, or Disconnected)
the future's own record is unlinked in the same section (`unlink_async_receiver`, fix cd494c8 of finding F17:
a still-registered future that was polled again used to return Ready leaving its WAITING record queued). -/
def stepArTry (s : State) (t r : Nat) : State :=
  match recvCore { s with ar := s.ar.erase r } with
  | some (v, s1) => { s1 with war := s1.war.filter (· ≠ r), pc := upd s1.pc t (.done (.recvOk v)) }
  | none =>
    if s.senders = 0 then
      { s with ar := s.ar.erase r, war := s.war.filter (· ≠ r), pc := upd s.pc t (.done .recvDisc) }
    else { s with ar := s.ar.erase r, pc := upd s.pc t (.arReg r) }

/-- second locked section of `poll_recv_internal`. The future may still be registered here (it was polled again
while WAITING): a sender can then CAS its record in between, so `ar` (ghost) is cleared of `r` when the record is
re-armed or the future resolves. -/
def stepArReg (s : State) (t r : Nat) : State :=
  if s.queue ≠ [] then { s with pc := upd s.pc t (.arTry r) }
  else if s.senders = 0 then
    { s with ar := s.ar.erase r, war := s.war.filter (· ≠ r), pc := upd s.pc t (.done .recvDisc) }
  else if r ∈ s.war then { s with pc := upd s.pc t (.arPend r) }
  else { s with ar := s.ar.erase r, st := upd s.st r .waiting, war := s.war ++ [r], pc := upd s.pc t (.arPend r) }

def stepArUnl (s : State) (t r : Nat) : State :=
  { s with war := s.war.filter (· ≠ r), pc := upd s.pc t (.done .recvDisc) }

def stepFdUnlR (s : State) (t r : Nat) : State :=
  { s with war := s.war.filter (· ≠ r), pc := upd s.pc t (.done .futDropped) }

/-! ### handles -/

/-- last sender gone: every WAITING receiver record is CASed to CLOSED (not removed);
wakes are deferred to after the unlock. -/
def stepCloseS (s : State) (t : Nat) : Option State :=
  if s.senders = 0 then none      -- `sender_count -= 1` underflow (F3 only); not a behaviour of the model
  else if s.senders = 1 then
    some { s with senders := 0,
                  st := fun r => if (r ∈ s.wsr ∨ r ∈ s.war) ∧ s.st r = .waiting then .closed else s.st r,
                  wakeBy := fun r => if (r ∈ s.wsr ∨ r ∈ s.war) ∧ s.st r = .waiting then t else s.wakeBy r,
                  pc := upd s.pc t (.hWake (((s.wsr.filter (fun r => decide (s.st r = .waiting))).map s.owner)
                                          ++ ((s.war.filter (fun r => decide (s.st r = .waiting))).map s.owner))) }
  else some { s with senders := s.senders - 1, pc := upd s.pc t (.hWake []) }

/-- receiver close: last one CASes every WAITING sender record to CLOSED; otherwise the front of
each sender queue is CASed to SUCCESS (a retry hint) without being removed. -/
def stepCloseR (s : State) (t : Nat) : Option State :=
  if s.receivers = 0 then none
  else if s.receivers = 1 then
    some { s with receivers := 0,
                  st := fun r => if (r ∈ s.wss ∨ r ∈ s.was) ∧ s.st r = .waiting then .closed else s.st r,
                  wakeBy := fun r => if (r ∈ s.wss ∨ r ∈ s.was) ∧ s.st r = .waiting then t else s.wakeBy r,
                  pc := upd s.pc t (.hWake (((s.wss.filter (fun r => decide (s.st r = .waiting))).map s.owner)
                                          ++ ((s.was.filter (fun r => decide (s.st r = .waiting))).map s.owner))) }
  else
    match frontW s.st s.wss with
    | some r1 =>
      match frontW (upd s.st r1 .success) s.was with
      | some r2 =>
        some { s with receivers := s.receivers - 1, st := upd (upd s.st r1 .success) r2 .success,
                      asg := s.asg ++ [r1, r2], wakeBy := upd (upd s.wakeBy r1 t) r2 t,
                      pc := upd s.pc t (.hWake [s.owner r1, s.owner r2]) }
      | none =>
        some { s with receivers := s.receivers - 1, st := upd s.st r1 .success, asg := s.asg ++ [r1],
                      wakeBy := upd s.wakeBy r1 t, pc := upd s.pc t (.hWake [s.owner r1]) }
    | none =>
      match frontW s.st s.was with
      | some r2 =>
        some { s with receivers := s.receivers - 1, st := upd s.st r2 .success, asg := s.asg ++ [r2],
                      wakeBy := upd s.wakeBy r2 t, pc := upd s.pc t (.hWake [s.owner r2]) }
      | none => some { s with receivers := s.receivers - 1, pc := upd s.pc t (.hWake []) }

def stepHWake (s : State) (t : Nat) (ws : List Nat) : State :=
  match ws with
  | [] => { s with pc := upd s.pc t (.done .unit) }
  | a :: rest => { s with wakes := bump s.wakes a, pc := upd s.pc t (.hWake rest) }

/-! ### labels -/

inductive Label where
  | call (op : Op)    -- the environment (the program of agent t) starts an operation / creates a future
  | adv               -- the agent executes its next locked section / visible action
  | poll              -- a task is polled (first poll or re-poll of a Pending future)
  | dropFut           -- a not-yet-completed future is dropped (first action of Drop: the cancel CAS)
  | spurious          -- `park` returns without a token
deriving Repr, DecidableEq

def PC.atRest : PC → Bool
  | .idle => true
  | .done _ => true
  | _ => false

def stepCall (s : State) (t : Nat) (op : Op) : Option State :=
  if (s.pc t).atRest then
    let r := s.nextRec
    match op with
    | .send v =>
      if v ∈ s.offered then none else
      some { s with offered := s.offered ++ [v], nextRec := r + 1, st := upd s.st r .waiting, owner := upd s.owner r t,
                    kind := upd s.kind r true, pc := upd s.pc t (.sTry v r) }
    | .trySend v =>
      if v ∈ s.offered then none else
      some { s with offered := s.offered ++ [v], pc := upd s.pc t (.tsTry v) }
    | .recv =>
      some { s with nextRec := r + 1, st := upd s.st r .waiting, owner := upd s.owner r t, kind := upd s.kind r false,
                    pc := upd s.pc t (.rTry r) }
    | .tryRecv => some { s with pc := upd s.pc t .trTry }
    | .recvTimeout0 =>
      some { s with nextRec := r + 1, st := upd s.st r .waiting, owner := upd s.owner r t, kind := upd s.kind r false,
                    pc := upd s.pc t (.toTry r) }
    | .sendFut v =>
      if v ∈ s.offered then none else
      some { s with offered := s.offered ++ [v], nextRec := r + 1, st := upd s.st r .waiting, owner := upd s.owner r t,
                    kind := upd s.kind r true, pc := upd s.pc t (.asNew v r) }
    | .recvFut =>
      some { s with nextRec := r + 1, st := upd s.st r .waiting, owner := upd s.owner r t, kind := upd s.kind r false,
                    pc := upd s.pc t (.arNew r) }
    | .cloneS => if s.senders = 0 then none else some { s with pc := upd s.pc t .hCloneS }
    | .cloneR => if s.receivers = 0 then none else some { s with pc := upd s.pc t .hCloneR }
    | .closeS => some { s with pc := upd s.pc t .hCloseS }
    | .closeR => some { s with pc := upd s.pc t .hCloseR }
    | .probe => some { s with pc := upd s.pc t .hProbe }
  else none

def stepAdv (s : State) (t : Nat) : Option State :=
  match s.pc t with
  | .sTry v r => some (stepSTry s t v r)
  | .sReg v r => some (stepSReg s t v r)
  | .sWait v r => some (stepSWait s t v r)
  | .sPark v r => stepSPark s t v r
  | .sUnl v r c => some (stepSUnl s t v r c)
  | .tsTry v => some (stepTsTry s t v)
  | .rTry r => some (stepRTry s t r)
  | .rReg r => some (stepRReg s t r)
  | .rWait r => some (stepRWait s t r)
  | .rPark r => stepRPark s t r
  | .rUnl r => some (stepRUnl s t r)
  | .trTry => some (stepTrTry s t)
  | .toTry r => some (stepToTry s t r)
  | .toReg r => some (stepToReg s t r)
  | .toRetry r => some (stepToRetry s t r)
  | .toCas r => some (stepToCas s t r)
  | .toUnl r => some (stepToUnl s t r)
  | .toFin r => some (stepToFin s t r)
  | .asTry v r => some (stepAsTry s t v r)
  | .asReg v r => some (stepAsReg s t v r)
  | .asUnl v r c => some (stepAsUnl s t v r c)
  | .asRef v r => some (stepAsRef s t v r)
  | .fdUnlS v r => some (stepFdUnlS s t v r)
  | .arTry r => some (stepArTry s t r)
  | .arReg r => some (stepArReg s t r)
  | .arUnl r => some (stepArUnl s t r)
  | .fdUnlR r => some (stepFdUnlR s t r)
  | .hCloneS => some { s with senders := s.senders + 1, pc := upd s.pc t (.done .unit) }
  | .hCloneR => some { s with receivers := s.receivers + 1, pc := upd s.pc t (.done .unit) }
  | .hCloseS => stepCloseS s t
  | .hCloseR => stepCloseR s t
  | .hProbe => some { s with pc := upd s.pc t (.done (.num s.queue.length)) }
  | .hWake ws => some (stepHWake s t ws)
  | _ => none       -- idle, done, asNew, asPend, arNew, arPend: poll boundaries / at rest

/-- `poll`: resets the task's wake counter; a registered future first loads its state byte. -/
def stepPoll (s : State) (t : Nat) : Option State :=
  match s.pc t with
  | .asNew v r => some { s with wakes := upd s.wakes t 0, pc := upd s.pc t (.asTry v r) }
  | .asPend v r =>
    match s.st r with
    | .success => some { s with wakes := upd s.wakes t 0, pc := upd s.pc t (.asUnl v r false) }
    | .closed => some { s with wakes := upd s.wakes t 0, pc := upd s.pc t (.asUnl v r true) }
    | .waiting => some { s with wakes := upd s.wakes t 0, pc := upd s.pc t (.asRef v r) }
    | .cancelled => some { s with wakes := upd s.wakes t 0, pc := upd s.pc t (.asRef v r) }
  | .arNew r => some { s with wakes := upd s.wakes t 0, pc := upd s.pc t (.arTry r) }
  | .arPend r =>
    match s.st r with
    | .closed => some { s with wakes := upd s.wakes t 0, pc := upd s.pc t (.arUnl r) }
    | .success => some { s with wakes := upd s.wakes t 0, pc := upd s.pc t (.arTry r) }
    | .waiting => some { s with wakes := upd s.wakes t 0, pc := upd s.pc t (.arTry r) }
    | .cancelled => some { s with wakes := upd s.wakes t 0, pc := upd s.pc t (.arTry r) }
  | _ => none

/-- `Drop` of an unfinished future: `if is_registered { CAS(WAITING→CANCELLED); lock; unlink }`. -/
def stepDropFut (s : State) (t : Nat) : Option State :=
  match s.pc t with
  | .asNew v _ => some { s with dropped := s.dropped ++ [v], pc := upd s.pc t (.done .futDropped) }
  | .asPend v r =>
    match s.st r with
    | .waiting => some { s with st := upd s.st r .cancelled, pc := upd s.pc t (.fdUnlS v r) }
    | .success => some { s with pc := upd s.pc t (.fdUnlS v r) }
    | .closed => some { s with pc := upd s.pc t (.fdUnlS v r) }
    | .cancelled => some { s with pc := upd s.pc t (.fdUnlS v r) }
  | .arNew _ => some { s with pc := upd s.pc t (.done .futDropped) }
  | .arPend r =>
    match s.st r with
    | .waiting => some { s with st := upd s.st r .cancelled, pc := upd s.pc t (.fdUnlR r) }
    | .success => some { s with pc := upd s.pc t (.fdUnlR r) }
    | .closed => some { s with pc := upd s.pc t (.fdUnlR r) }
    | .cancelled => some { s with pc := upd s.pc t (.fdUnlR r) }
  | _ => none

def stepSpurious (s : State) (t : Nat) : Option State :=
  match s.pc t with
  | .sPark v r => some { s with pc := upd s.pc t (.sWait v r) }
  | .rPark r => some { s with pc := upd s.pc t (.rWait r) }
  | _ => none

def step (s : State) (t : Nat) : Label → Option State
  | .call op => stepCall s t op
  | .adv => stepAdv s t
  | .poll => stepPoll s t
  | .dropFut => stepDropFut s t
  | .spurious => stepSpurious s t

def run (s : State) : List (Nat × Label) → Option State
  | [] => some s
  | (t, l) :: rest => (step s t l).bind (fun s' => run s' rest)

inductive Reach (cap : Nat) : State → Prop where
  | init : Reach cap (init cap)
  | step {s s' t l} : Reach cap s → step s t l = some s' → Reach cap s'

/-- The hypothesis of the C06 partial theorems, per step:
* no future is dropped between being woken (state byte SUCCESS) and its next poll  (F2).
(Until fix cd494c8 a second clause excluded re-polling a `RecvFuture` whose state byte was still WAITING —
finding F17: the stolen item left a dangling WAITING record. Spurious polls are unrestricted now.) -/
def Benign (s : State) (t : Nat) (l : Label) : Prop :=
  match l, s.pc t with
  | .dropFut, .asPend _ r => s.st r ≠ .success
  | .dropFut, .arPend r => s.st r ≠ .success
  | _, _ => True

inductive ReachB (cap : Nat) : State → Prop where
  | init : ReachB cap (init cap)
  | step {s s' t l} : ReachB cap s → Benign s t l → step s t l = some s' → ReachB cap s'

theorem ReachB.reach {cap s} (h : ReachB cap s) : Reach cap s := by
  induction h with
  | init => exact .init
  | step _ _ hs ih => exact .step ih hs

end Fv.Chan.Mpmc2B
