import Fv.Chan.Spec
/-
Q — operational model of every API form of the point-to-point channels.

`micro` is one atomic effect of an operation in progress (`P`); `stepOp` (the sequential
big-step model Q) is its run-to-completion closure for one thread with nobody else running:
an operation that cannot finish has outcome `blocks`.  The linearizability checker
(`Fv/Chan/Lin.lean`) interleaves the same `micro` steps of several threads, so Q and the
concurrent specification are one definition.

Everything the real code does differently per call site is an explicit table below
(`checksOwn`, `sendPrelude`, `recvPrelude`, `carriesClosed`, `closeEffect`, `isClosedProbe` …);
the line references are to /repo/channels/src.  Nothing is "fixed": see DESIGN §11 F3/F14/F1.
-/
namespace Fv.Chan

inductive Form where
  | send | trySend | sendBatch | trySendBatch | sendBatchMut | trySendBatchMut
  | recv | tryRecv | recvTimeout0 | recvBatch | tryRecvBatch | recvBatchMut | tryRecvBatchMut
  deriving DecidableEq, Repr, Inhabited, Hashable

inductive Probe where
  | len | isEmpty | isFull | capacity | isClosed | senderCount | isSent
  deriving DecidableEq, Repr, Inhabited, Hashable

inductive Op where
  | snd (f : Form) (h : HName) (vs : List Val)
  | rcv (f : Form) (h : HName) (n : Nat)
  | clone (h h' : HName)
  | close (h : HName)
  | drop (h : HName)
  | probe (p : Probe) (h : HName)
  | toAsync (h : HName)
  | toSync (h : HName)
  deriving DecidableEq, Repr, Inhabited, Hashable

inductive Tag where
  | ok | full | closed | sentAlready | empty | disconnected | timeout | closeErr
  | blocks | unsupported | noHandle | nameExists | pending | busy | noFut | futDone
  deriving DecidableEq, Repr, Inhabited, Hashable

inductive PVal where
  | none | n (k : Nat) | b (x : Bool) | capOpt (o : Option Nat)
  deriving DecidableEq, Repr, Inhabited, Hashable

/-- structured result; the driver renders it per form (`err:full:5`, `n:2:left=[3]`, …) -/
structure Out where
  tag : Tag
  sent : List Val := []   -- accepted by the channel (a prefix of the input)
  back : List Val := []   -- handed back to the caller (error payload / `unsent` / what is left in the caller's vector)
  lost : List Val := []   -- dropped by a failing `send` (its error type carries no value)
  got : List Val := []    -- received
  val : PVal := .none     -- probes
  deriving DecidableEq, Repr, Inhabited, Hashable

instance : BEq Out := ⟨fun a b => decide (a = b)⟩

/-- checker / model configuration -/
structure Cfg where
  /-- mpsc-bounded blocking sends consult the stale hot window (exact prediction of F14; sequential mode) -/
  hot : Bool := true
  /-- lock-free batch forms (spsc, mpsc bounded) move one item per atomic step -/
  granular : Bool := false
  /-- manual-poll futures: `wakes f => n:0` / `dropfut f => ok` on a polled pending future require it to be disabled -/
  wakeRule : Bool := true
  deriving Repr, Inhabited

/-- an operation in progress -/
inductive P where
  | fresh (t : Nat) (op : Op)
  | bsend (t : Nat) (f : Form) (h : HName) (sent rest : List Val) (q : Nat := 0)   -- q: items left in the current spsc `write_batch` chunk (0 = take a new snapshot)
  | brecv (t : Nat) (f : Form) (h : HName) (n : Nat) (got : List Val)
  | bsendEnd (t : Nat) (f : Form) (sent rest : List Val)   -- spsc `try_send_batch` after a partial chunk: reads `consumer_dropped` to pick the reason
  | rvSend (t : Nat) (v : Val)                -- parked rendezvous sender (record in `sw`)
  | rvRecv (t : Nat)                          -- parked rendezvous receiver (record in `rw`)
  | rvTo (t : Nat) (stage : Nat)              -- timed rendezvous receive: 1 = registered, 2 = CAS WAITING→CANCELLED done, not yet unlinked
  | osRecv (t : Nat) (h : HName)              -- oneshot `recv` future pending
  | stg (t : Nat) (k : Nat) (h : HName) (sent rest : List Val)   -- concurrent specification only: between two atomic steps of a oneshot `send` (k = 1, 2, 3) / an spsc sender `close` (10) or `drop` (11), see `stgStep`
  | fin (out : Out)
  deriving DecidableEq, Repr, Inhabited, Hashable

def P.out? : P → Option Out
  | .fin o => some o
  | _ => none

/-! ## per-call-site tables -/

def Form.isSend : Form → Bool
  | .send | .trySend | .sendBatch | .trySendBatch | .sendBatchMut | .trySendBatchMut => true
  | _ => false

def Form.isBatch : Form → Bool
  | .send | .trySend | .recv | .tryRecv | .recvTimeout0 => false
  | _ => true

def Form.blocking : Form → Bool
  | .send | .sendBatch | .sendBatchMut | .recv | .recvBatch | .recvBatchMut => true
  | _ => false

/-- Does this call site test the handle's own `closed` flag?  (`false` = finding F3.)
* mpmc async futures never read `closed` — async_impl.rs (send, send_batch, send_batch_mut, recv, recv_batch, recv_batch_mut)
* rendezvous async `send` / `recv` — {spsc,mpsc,mpmc_v2}/rendezvous.rs
(The three sync sites of F3 — spsc `send_batch`, mpsc v3 and mpmc `recv_timeout` — were repaired in
/repo by a `fix:` commit and are ordinary checked sites here.) -/
def checksOwn (fam : Fam) (isAsync : Bool) (f : Form) : Bool :=
  match fam, isAsync, f with
  | .pb, true, .send | .pb, true, .sendBatch | .pb, true, .sendBatchMut => false
  | .pb, true, .recv | .pb, true, .recvBatch | .pb, true, .recvBatchMut => false
  | .rv, true, .send | .rv, true, .recv => false
  | _, _, _ => true

inductive Chk where
  | E   -- empty input / n = 0  → Ok(0)
  | O   -- own closed flag      → closed / disconnected
  | G   -- peer gone            → closed            (send forms only; receive forms test it after the buffer)
  deriving DecidableEq, Repr

/-- order of the early checks of a batch send form -/
def sendPrelude (fam : Fam) (isAsync : Bool) (f : Form) : List Chk :=
  if !f.isBatch then (if checksOwn fam isAsync f then [.O, .G] else [.G])
  else
    match fam, isAsync, f with
    | .sb, false, .sendBatch => [.O, .G, .E]      -- bounded_sync.rs: own flag, then consumer_dropped (loop top) before the `sent == total` test
    | .pb, false, .sendBatch => [.O, .E, .G]      -- mpmc_v2/mod.rs:289 before sync_impl.rs:208
    | _, _, _ => if checksOwn fam isAsync f then [.E, .O, .G] else [.E, .G]

/-- order of the early checks of a receive form -/
def recvPrelude (fam : Fam) (isAsync : Bool) (f : Form) : List Chk :=
  if !f.isBatch then (if checksOwn fam isAsync f then [.O] else [])
  else
    match fam, isAsync, f with
    | .mu, true, .recvBatch | .mu, true, .recvBatchMut => [.O, .E]   -- unbounded_v3/consumer.rs:489,529
    | .pb, false, .recvBatch | .pb, false, .recvBatchMut => [.O, .E] -- mpmc_v2/mod.rs:503
    | _, _, _ => if checksOwn fam isAsync f then [.E, .O] else [.E]

/-- first failing / short-circuiting check -/
def firstHit : List Chk → (isEmpty own gone : Bool) → Option Chk
  | [], _, _, _ => none
  | .E :: r, e, o, g => if e then some .E else firstHit r e o g
  | .O :: r, e, o, g => if o then some .O else firstHit r e o g
  | .G :: r, e, o, g => if g then some .G else firstHit r e o g

/-- Is this form offered by the handle type at all (else the harness prints `unsupported`)? -/
def supportsForm (fam : Fam) (isAsync : Bool) (f : Form) : Bool :=
  match fam with
  | .rv => !f.isBatch && !(f == .recvTimeout0 && isAsync)
  | .os => f == .send || f == .recv || f == .tryRecv
  | _ => !(f == .recvTimeout0 && isAsync)

def supportsProbe (fam : Fam) (side : Side) (p : Probe) : Bool :=
  match fam, p with
  | .os, .isClosed => true
  | .os, .isSent => side == .tx
  | .os, _ => false
  | _, .isSent => false
  | _, .senderCount => fam == .mu || fam == .pu
  | .mu, .capacity | .mu, .isFull => false
  | _, _ => true

def canClone (k : Kind) (side : Side) : Bool :=
  match k, side with
  | .spsc, _ => false
  | .mpsc, .tx | .mpmc, _ | .oneshot, .tx => true
  | _, _ => false

/-- Do `to_async` / `to_sync` carry the own `closed` flag over?  spsc, mpmc bounded and all
rendezvous wrappers construct the new handle with `closed: false` (F3). -/
def carriesClosed (fam : Fam) : Bool :=
  match fam with
  | .mb | .mu | .pu => true
  | _ => false

/-- A batch send is atomic in the bounded mpmc (one critical section) and the unbounded chains (one
publish); spsc `write_batch` pushes item by item and bounded-mpsc ticket runs become visible slot
by slot: there the concurrent spec moves one item per step. -/
def granularSend (fam : Fam) : Bool := fam == .mb || fam == .sb

/-- A batch receive is one critical section in the bounded mpmc; everywhere else it is several chunks
(spsc: `recv` then `read_batch`; ticket / chain walks while producers keep publishing), which the
concurrent spec over-approximates by one item per step. -/
def granularRecv (fam : Fam) : Bool := fam != .pb

/-! ## shared-count effects of closing / dropping the last use of a handle -/

def osDecSenders (s : St) : St :=
  let s1 := { s with sc := wdec s.sc }
  if s.sc = 1 then
    (if s.os = .empty then { s1 with os := .closed }
     else if s.os = .sent ∧ s.rd = true then { s1.drainBuf with os := .taken }
     else s1)
  else s1

def closeEffect (fl : Flavour) (s : St) (side : Side) : St :=
  match side, fl.fam with
  | .tx, .sb => { s with pd := true, sc := wdec s.sc }
  | .tx, .rv =>
    let s1 := { s with sc := wdec s.sc }
    if s1.sc = 0 then { s1 with rdisc := s1.rdisc ++ s1.rw.map (·.1), rw := [] } else s1
  | .tx, .os => osDecSenders s
  | .tx, _ => { s with sc := wdec s.sc }
  | .rx, .sb => { s with rd := true, rc := wdec s.rc }
  | .rx, .mb => { s with rd := true }
  | .rx, .mu => { s.drainBuf with rd := true }
  | .rx, .pb => { s with rc := wdec s.rc }
  | .rx, .pu => { s with rc := wdec s.rc, rd := s.rd || s.rc == 1 }
  | .rx, .rv =>
    let s1 := { s with rc := wdec s.rc }
    if s1.rc = 0 then { s1 with sdisc := s1.sdisc ++ s1.sw.map (fun x => (x.1, x.2.2)), sw := [] } else s1
  | .rx, .os =>
    let s1 := { s with rd := true }
    -- `mark_receiver_dropped`: CAS EMPTY→CLOSED; it fails while a sender holds WRITING (`osw`, concurrent spec only)
    if s1.os = .empty ∧ s1.osw = false then { s1 with os := .closed }
    else if s1.os = .sent then { s1.drainBuf with os := .taken }
    else s1

/-- the last handle object is gone: the shared state is dropped and drains what is left -/
def teardownIfLast (s : St) : St := if s.hs.isEmpty then s.drainBuf else s

def isClosedProbe (fl : Flavour) (s : St) (hd : Handle) : Bool :=
  match fl.fam, hd.name.side with
  | .sb, .tx => hd.closed || s.rd
  | .sb, .rx => hd.closed || (s.sc == 0 && s.buf.isEmpty)
  | .mb, .tx => hd.closed || s.rd
  | .mb, .rx => hd.closed || (s.sc == 0 && s.buf.isEmpty)
  | .mu, .tx => hd.closed || s.rd
  | .mu, .rx => s.sc == 0 && s.buf.isEmpty
  | .pb, .tx => s.rc == 0
  | .pb, .rx => s.sc == 0 && s.buf.isEmpty
  | .pu, .tx => hd.closed || s.rd
  | .pu, .rx => hd.closed || (s.sc == 0 && s.buf.isEmpty)
  | .rv, .tx => s.rc == 0
  | .rv, .rx => s.sc == 0
  | .os, .tx => s.rd
  | .os, .rx => s.os == .taken || s.os == .closed || (s.sc == 0 && s.os == .empty)

def probeVal (fl : Flavour) (s : St) (hd : Handle) (p : Probe) : PVal :=
  match p with
  | .len => .n (if fl.fam == .rv then 0 else s.buf.length)
  | .isEmpty => .b (fl.fam == .rv || s.buf.isEmpty)
  | .isFull =>
    match fl.fam with
    | .sb | .mb => .b (decide (s.buf.length ≥ fl.cap))
    | .pb => .b (s.buf.length == fl.cap)
    | .rv => .b true
    | _ => .b false
  | .capacity =>
    match fl.fam with
    | .rv => .capOpt (some 0)
    | .pu => .n (WORD - 1)
    | _ => .n fl.cap
  | .isClosed => .b (isClosedProbe fl s hd)
  | .senderCount => .n s.sc
  | .isSent => .b (s.os == .sent || s.os == .taken)

/-! ## mpsc bounded: unpublished-progress counter (F14) -/

/-- `deq_once` / `deq_run`: per drained item `unpublished += 1; if unpublished ≥ K { publish }` -/
def bumpUnpub (k : Nat) : Nat → Nat → Nat
  | 0, u => u
  | n + 1, u => bumpUnpub k n (if u + 1 ≥ k then 0 else u + 1)

def mbGot (fl : Flavour) (s : St) (k : Nat) (flush : Bool) : St :=
  if fl.fam = .mb then { s with unpub := if flush then 0 else bumpUnpub s.kpub k s.unpub } else s

/-- Flush of the unpublished progress at a point where the consumer walked to the END of the written
tickets (it reported Empty / Timeout / Disconnected, ended a batch early, or is about to wait).
`deq_once` / `deq_run` skip SKIP tombstones on the way (shared.rs:745-754, 802-810): with no send in
flight every claimed ticket is written, so that walk passed every tombstone and the window is exact
again — the tombstone flag `tomb` is cleared (concurrent specification only; `inflight` and `tomb`
stay 0 in a sequential run). -/
def mbFlush (fl : Flavour) (s : St) : St :=
  if fl.fam = .mb then { s with unpub := 0, tomb := if s.inflight = 0 then 0 else s.tomb } else s

/-- Flush after a batch receive that was filled completely: the consumer stopped at `max`, it did not
walk to the end — tombstones behind the last item taken stay in the window. -/
def mbFlushMid (fl : Flavour) (s : St) : St :=
  if fl.fam = .mb then { s with unpub := 0 } else s

/-! ## send forms -/

/-- error return of a send form: `send` drops the value (its error carries nothing) except on
oneshot, whose `send` returns `TrySendError`; every other form hands it back. -/
def failSend (fl : Flavour) (s : St) (f : Form) (tag : Tag) (sent rest : List Val) : St × P :=
  if f = .send ∧ fl.fam ≠ .os then (s.lose rest, .fin { tag := tag, sent := sent, lost := rest })
  else (s.giveBack rest, .fin { tag := tag, sent := sent, back := rest })

/-- families whose send is one critical section (check and push cannot be separated by another thread) -/
def atomicSend (fam : Fam) : Bool :=
  match fam with
  | .pb | .rv | .os => true
  | _ => false

/-- what a non-blocking send form returns when it stops short -/
def trySendEnd (fl : Flavour) (cfg : Cfg) (s : St) (t : Nat) (f : Form) (sent rest : List Val) : St × P :=
  match f with
  | .trySendBatchMut => (s.giveBack rest, .fin { tag := .ok, sent := sent, back := rest })
  | _ =>
    if cfg.granular ∧ fl.fam = .sb ∧ f = .trySendBatch ∧ !sent.isEmpty then (s, .bsendEnd t f sent rest)
    else failSend fl s f .full sent rest

/-- how many of `rest` fit right now (blocking mpsc-bounded sends look at the stale hot window in
sequential mode, F14) -/
def sendAvail (fl : Flavour) (cfg : Cfg) (s : St) (f : Form) (rest : List Val) : Nat :=
  match (if f.blocking ∧ cfg.hot then hotRoom fl s else room fl s) with
  | none => rest.length
  | some r => min r rest.length

def sendGran (fl : Flavour) (cfg : Cfg) : Bool := cfg.granular && granularSend fl.fam

/-- quota of the current chunk: an spsc `write_batch` call moves at most the free space it saw when
it started (`q`, 0 = no snapshot yet) -/
def sendQuota (fl : Flavour) (cfg : Cfg) (s : St) (f : Form) (rest : List Val) (q : Nat) (spur : Bool) : Nat :=
  if spur then 0
  else if sendGran fl cfg ∧ fl.fam = .sb ∧ q > 0 then min q (sendAvail fl cfg s f rest)
  else sendAvail fl cfg s f rest

/-- items moved by this step -/
def sendK (fl : Flavour) (cfg : Cfg) (s : St) (f : Form) (rest : List Val) (q : Nat) (spur : Bool) : Nat :=
  if sendGran fl cfg then min 1 (sendQuota fl cfg s f rest q spur) else sendQuota fl cfg s f rest q spur

/-- One atomic step of the push loop of a (batch) send on a buffered channel.  `sent = []` means
the early checks were passed and nothing was pushed yet: the lock-free families then publish
without looking at the receiver flag again (check-then-publish is not atomic there), later
iterations re-check it.  In the concurrent spec (`cfg.granular`) spsc and mpsc-bounded batches
become visible one item at a time. -/
def sendStep (fl : Flavour) (cfg : Cfg) (s : St) (t : Nat) (f : Form) (h : HName) (sent rest : List Val)
    (q : Nat := 0) (spur : Bool := false) : Option (St × P) :=
  if !spur ∧ receiversGone fl s ∧
      (!sent.isEmpty ∨ (sendK fl cfg s f rest q spur = 0 ∧ (f.blocking ∨ fl.fam = .sb))) then
    -- `try_send_batch_mut` maps a partial `Closed` to `Ok(sent)` (producer.rs:302-306, bounded_sync.rs:241)
    if f = .trySendBatchMut ∧ !sent.isEmpty then
      some (s.giveBack rest, .fin { tag := .ok, sent := sent, back := rest })
    else some (failSend fl s f .closed sent rest)
  else if sendGran fl cfg ∧ fl.fam = .sb ∧ q = 0 ∧ sendQuota fl cfg s f rest q spur > 0 then
    -- `write_batch` reads the free space first (shared.rs:356-372), the pushes follow
    some (s, .bsend t f h sent rest (sendQuota fl cfg s f rest q spur))
  else if sendK fl cfg s f rest q spur = rest.length then
    some (s.push h.idx rest, .fin { tag := .ok, sent := sent ++ rest })
  else if sendK fl cfg s f rest q spur = 0 then
    if f.blocking then none else some (trySendEnd fl cfg s t f sent rest)
  else
    let k := sendK fl cfg s f rest q spur
    let q1 := sendQuota fl cfg s f rest q spur - k
    if f.blocking ∨ (sendGran fl cfg ∧ (fl.fam ≠ .sb ∨ q1 > 0)) then
      some (s.push h.idx (rest.take k), .bsend t f h (sent ++ rest.take k) (rest.drop k) (if fl.fam = .sb then q1 else 0))
    else some (trySendEnd fl cfg (s.push h.idx (rest.take k)) t f (sent ++ rest.take k) (rest.drop k))

/-- rendezvous send: hand the item to a parked receiver, else park (blocking) or report Full -/
def rvSendStep (fl : Flavour) (s : St) (t : Nat) (f : Form) (h : HName) (v : Val) : St × P :=
  if s.rc == 0 then failSend fl s f .closed [] [v]
  else
    match s.rw with
    | (r, ridx) :: rest =>
      -- `fulfill_receiver` never looks at the record's state (F1): a cancelled record is served too
      if s.rcanc.contains r then
        ({ (s.handOffLost h.idx v) with rw := rest }, .fin { tag := .ok, sent := [v] })
      else
        ({ (s.handOff h.idx ridx v) with rw := rest, rdone := s.rdone ++ [(r, v)] }, .fin { tag := .ok, sent := [v] })
    | [] =>
      if f = .send then ({ s with sw := s.sw ++ [(t, h.idx, v)] }, .rvSend t v)
      else failSend fl s f .full [] [v]

/-- the oneshot sender handle is consumed by `send`; its Drop decrements the sender count unless it
was closed before -/
def osSendFinish (hd : Handle) (s : St) : St :=
  teardownIfLast (if hd.closed then s else osDecSenders s)

def St.eraseHandle (s : St) (h : HName) : St := { s with hs := eraseH s.hs h }

def osSendStep (s : St) (h : HName) (hd : Handle) (v : Val) : St × P :=
  if hd.closed ∨ s.rd then (osSendFinish hd ((s.eraseHandle h).giveBack [v]), .fin { tag := .closed, back := [v] })
  else if s.os ≠ .empty then (osSendFinish hd ((s.eraseHandle h).giveBack [v]), .fin { tag := .sentAlready, back := [v] })
  else (osSendFinish hd { ((s.eraseHandle h).push h.idx [v]) with os := .sent }, .fin { tag := .ok, sent := [v] })

/-- a oneshot `send` that fails: the value goes back to the caller, the consumed handle is dropped -/
def osSendFail (s : St) (h : HName) (hd : Handle) (v : Val) (tag : Tag) : St × P :=
  (osSendFinish hd ((s.eraseHandle h).giveBack [v]), .fin { tag := tag, back := [v] })

/-- Start of a oneshot `send`.  In the concurrent specification it is NOT one atomic step (core.rs:140-205,
mod.rs:151-160): the sender first claims the channel (CAS EMPTY→WRITING) — from then on competing senders
are told `Sent` although receivers and `is_sent` still see nothing — then looks at `receiver_dropped` a
second time (backtrack: store EMPTY, `Closed`), then writes the value and swaps →SENT, and only after
`shared.send` has returned is the consumed `Sender` dropped (`decrement_senders`).  `osw` is the WRITING
claim; the later steps are `stgStep` 1–3.  Sequentially (nobody else running) the four steps are the one
step `osSendStep`. -/
def osSendStart (cfg : Cfg) (s : St) (t : Nat) (h : HName) (hd : Handle) (v : Val) : St × P :=
  if cfg.granular ∧ hd.closed = false ∧ s.rd = false ∧ s.os = .empty then
    if s.osw then osSendFail s h hd v .sentAlready
    else ({ (s.eraseHandle h) with osw := true }, .stg t 1 h [] [v])
  else osSendStep s h hd v

/-- The later atomic steps of operations that are several steps in the concurrent specification.
* oneshot `send` — 1: WRITING is held, second look at `receiver_dropped` (backtrack → `Closed`, or commit);
  2: committed — write the value, swap →SENT; 3: `shared.send` returned — the consumed `Sender` is dropped;
* spsc sender `close` (10) / `drop` (11): `close_internal` stores `producer_dropped` first (done at the
  start step) and decrements `sender_count` in a second step (bounded_sync.rs:51-54, bounded_async.rs:37-40);
  every receive form tests the count (the async batch receives tested the flag until fix 23f212c, finding N6),
  so the state between the two steps is indistinguishable from "sender alive" for the receiver. -/
def stgStep (fl : Flavour) (s : St) (t k : Nat) (h : HName) (sent rest : List Val) : Option (St × P) :=
  if k = 1 ∧ fl.fam = .os then
    if s.rd then some (teardownIfLast (osDecSenders (({ s with osw := false } : St).giveBack rest)), .fin { tag := .closed, sent := sent, back := rest })
    else some (s, .stg t 2 h sent rest)
  else if k = 2 ∧ fl.fam = .os then
    match rest with
    | [v] => if s.os = .empty then some ({ (s.push h.idx [v]) with os := .sent, osw := false }, .stg t 3 h (sent ++ [v]) []) else none
    | _ => none
  else if k = 3 ∧ fl.fam = .os ∧ rest = [] then some (teardownIfLast (osDecSenders s), .fin { tag := .ok, sent := sent })
  else if k = 10 ∧ sent = [] ∧ rest = [] then some ({ s with sc := wdec s.sc }, .fin { tag := .ok })
  else if k = 11 ∧ sent = [] ∧ rest = [] then some (teardownIfLast { s with sc := wdec s.sc }, .fin { tag := .ok })
  else none

/-- start of a send form on a buffered family (everything but rendezvous / oneshot); `s1` = `s` after
the values were taken from the caller -/
def startSendBuf (fl : Flavour) (cfg : Cfg) (s s1 : St) (t : Nat) (f : Form) (h : HName) (hd : Handle)
    (vs : List Val) : St × P :=
  match firstHit (sendPrelude fl.fam hd.isAsync f) vs.isEmpty hd.closed (receiversGone fl s) with
  | some .E => (s1, .fin { tag := .ok })
  | some _ => failSend fl s1 f .closed [] vs
  | none =>
    if vs.isEmpty then (s1, .fin { tag := .ok })
    else if cfg.granular ∧ !atomicSend fl.fam then (s1, .bsend t f h [] vs)
    else
      match sendStep fl cfg s1 t f h [] vs with
      | some r => r
      | none => (s1, .bsend t f h [] vs)

def startSend (fl : Flavour) (cfg : Cfg) (s : St) (t : Nat) (f : Form) (h : HName) (vs : List Val) : St × P :=
  match findH s.hs h with
  | none => (s, .fin { tag := .noHandle })
  | some hd =>
    if hd.name.side ≠ .tx ∨ !f.isSend ∨ !supportsForm fl.fam hd.isAsync f then (s, .fin { tag := .unsupported })
    else
      match fl.fam with
      | .os =>
        match vs with
        | [v] => osSendStart cfg (s.create vs) t h hd v
        | _ => (s, .fin { tag := .unsupported })
      | .rv =>
        match vs with
        | [v] =>
          if checksOwn .rv hd.isAsync f ∧ hd.closed then failSend fl (s.create vs) f .closed [] [v]
          else rvSendStep fl (s.create vs) t f h v
        | _ => (s, .fin { tag := .unsupported })
      | _ => startSendBuf fl cfg s (s.create vs) t f h hd vs

/-! ## receive forms -/

def emptyOutcome (fl : Flavour) (s : St) (f : Form) (_hd : Handle) : Option (St × P) :=
  -- every receive form tests the sender COUNT (`!senders_alive()`); since fix 23f212c this includes the spsc async
  -- batch receives (bounded_async.rs:728 used to test `producer_dropped`, finding N6): no receive observes `pd`
  let gone := sendersGone s
  if gone then some (mbFlush fl s, .fin { tag := .disconnected })
  else match f with
    | .tryRecv | .tryRecvBatch | .tryRecvBatchMut => some (mbFlush fl s, .fin { tag := .empty })
    | .recvTimeout0 => some (mbFlush fl s, .fin { tag := .timeout })
    | _ => none

def recvWant (f : Form) (n : Nat) (got : List Val) : Nat := if f.isBatch then n - got.length else 1

def recvUnit (fl : Flavour) (cfg : Cfg) (f : Form) (n : Nat) (got : List Val) : Nat :=
  if cfg.granular ∧ granularRecv fl.fam then 1 else recvWant f n got

/-- items taken by this step -/
def recvK (fl : Flavour) (cfg : Cfg) (s : St) (f : Form) (n : Nat) (got : List Val) : Nat :=
  min (min (recvUnit fl cfg f n got) (recvWant f n got)) s.buf.length

/-- one atomic step of a receive on a buffered channel (`got` = items already taken by this call) -/
def recvStep (fl : Flavour) (cfg : Cfg) (s : St) (t : Nat) (f : Form) (hd : Handle) (n : Nat) (got : List Val) :
    Option (St × P) :=
  if recvK fl cfg s f n got = 0 then
    if got.isEmpty then emptyOutcome fl s f hd
    else some (mbFlush fl s, .fin { tag := .ok, got := got })
  else if recvK fl cfg s f n got ≥ recvWant f n got ∨ recvUnit fl cfg f n got ≥ recvWant f n got then
    some (if f.isBatch then mbFlushMid fl (mbGot fl (s.pop hd.name.idx (recvK fl cfg s f n got)) (recvK fl cfg s f n got) false)
          else mbGot fl (s.pop hd.name.idx (recvK fl cfg s f n got)) (recvK fl cfg s f n got) false,
          .fin { tag := .ok, got := got ++ s.buf.take (recvK fl cfg s f n got) })
  else some (mbGot fl (s.pop hd.name.idx (recvK fl cfg s f n got)) (recvK fl cfg s f n got) false,
             .brecv t f hd.name n (got ++ s.buf.take (recvK fl cfg s f n got)))

def rvRecvStart (s : St) (t : Nat) (f : Form) (hd : Handle) : St × P :=
  match s.sw with
  | (ts, p, v) :: rest =>
    ({ (s.handOff p hd.name.idx v) with sw := rest, sdone := s.sdone ++ [(ts, v)] }, .fin { tag := .ok, got := [v] })
  | [] =>
    if s.sc == 0 then (s, .fin { tag := .disconnected })
    else match f with
      | .tryRecv => (s, .fin { tag := .empty })
      | .recvTimeout0 => ({ s with rw := s.rw ++ [(t, hd.name.idx)] }, .rvTo t 1)
      | _ => ({ s with rw := s.rw ++ [(t, hd.name.idx)] }, .rvRecv t)

def osTryRecv (s : St) (hd : Handle) : St × Out :=
  match s.os with
  | .sent => ({ (s.pop hd.name.idx 1) with os := .taken }, { tag := .ok, got := s.buf.take 1 })
  | .taken => (s, { tag := .empty })
  | .closed => (s, { tag := .disconnected })
  | .empty => if s.sc == 0 then ({ s with os := .closed }, { tag := .disconnected }) else (s, { tag := .empty })

/-- oneshot `recv` future polled by a parking executor (core.rs:269-330) -/
def osRecvStep (s : St) (hd : Handle) : Option (St × P) :=
  if (osTryRecv s hd).2.tag ≠ .empty then some ((osTryRecv s hd).1, .fin (osTryRecv s hd).2)
  else if (osTryRecv s hd).1.sc == 0 then
    some ({ (osTryRecv s hd).1 with os := if (osTryRecv s hd).1.os = .empty then .closed else (osTryRecv s hd).1.os },
          .fin { tag := .disconnected })
  else none

def startRecv (fl : Flavour) (cfg : Cfg) (s : St) (t : Nat) (f : Form) (h : HName) (n : Nat) : St × P :=
  match findH s.hs h with
  | none => (s, .fin { tag := .noHandle })
  | some hd =>
    if hd.name.side ≠ .rx ∨ f.isSend ∨ !supportsForm fl.fam hd.isAsync f then (s, .fin { tag := .unsupported })
    else
      match firstHit (recvPrelude fl.fam hd.isAsync f) (n == 0) hd.closed false with
      | some .E => (s, .fin { tag := .ok })
      | some _ => (s, .fin { tag := .disconnected })
      | none =>
        match fl.fam with
        | .os =>
          if f = .tryRecv then ((osTryRecv s hd).1, .fin (osTryRecv s hd).2)
          else match osRecvStep s hd with
            | some r => r
            | none => (s, .osRecv t h)
        | .rv => rvRecvStart s t f hd
        | _ =>
          match recvStep fl cfg s t f hd n [] with
          | some r => r
          | none => (mbFlush fl s, .brecv t f h n [])   -- mpsc bounded: progress is flushed before the consumer waits

/-! ## handle operations -/

def startClose (fl : Flavour) (s : St) (h : HName) : St × P :=
  match findH s.hs h with
  | none => (s, .fin { tag := .noHandle })
  | some hd =>
    if hd.closed then (s, .fin { tag := .closeErr })
    else (closeEffect fl { s with hs := setH s.hs h (fun x => { x with closed := true }) } h.side, .fin { tag := .ok })

def startDrop (fl : Flavour) (s : St) (h : HName) : St × P :=
  match findH s.hs h with
  | none => (s, .fin { tag := .noHandle })
  | some hd =>
    (teardownIfLast (if hd.closed then s.eraseHandle h else closeEffect fl (s.eraseHandle h) h.side), .fin { tag := .ok })

/-- spsc sender `close` / `drop` in the concurrent specification: first half (`producer_dropped := true`, own flag /
handle gone); the count is decremented by `stgStep` 10 / 11 -/
def startCloseSb (s : St) (t : Nat) (h : HName) : St × P :=
  match findH s.hs h with
  | none => (s, .fin { tag := .noHandle })
  | some hd =>
    if hd.closed then (s, .fin { tag := .closeErr })
    else ({ s with hs := setH s.hs h (fun x => { x with closed := true }), pd := true }, .stg t 10 h [] [])

def startDropSb (s : St) (t : Nat) (h : HName) : St × P :=
  match findH s.hs h with
  | none => (s, .fin { tag := .noHandle })
  | some hd =>
    if hd.closed then (teardownIfLast (s.eraseHandle h), .fin { tag := .ok })
    else ({ (s.eraseHandle h) with pd := true }, .stg t 11 h [] [])

def startClone (fl : Flavour) (s : St) (h h' : HName) : St × P :=
  match findH s.hs h', findH s.hs h with
  | some _, _ => (s, .fin { tag := .nameExists })
  | none, none => (s, .fin { tag := .noHandle })
  | none, some hd =>
    if !canClone fl.kind hd.name.side ∨ h'.side ≠ h.side then (s, .fin { tag := .unsupported })
    else
      let s1 := { s with hs := s.hs ++ [Handle.mk h' false hd.isAsync] }
      (match h.side with
       | .tx => { s1 with sc := winc s1.sc }
       | .rx => { s1 with rc := winc s1.rc }, .fin { tag := .ok })

def startConvert (fl : Flavour) (s : St) (h : HName) (toAsync : Bool) : St × P :=
  match findH s.hs h with
  | none => (s, .fin { tag := .noHandle })
  | some hd =>
    if fl.fam = .os ∨ hd.isAsync = toAsync then (s, .fin { tag := .unsupported })
    else
      let s1 := { s with hs := setH s.hs h (fun x => { x with isAsync := toAsync, closed := carriesClosed fl.fam && x.closed }) }
      -- mpsc bounded receiver conversions change the publish cadence K (consumer.rs:330, 414)
      let s2 := if fl.fam = .mb ∧ h.side = .rx then { s1 with kpub := pubChunk fl.cap toAsync } else s1
      (s2, .fin { tag := .ok })

def startProbe (fl : Flavour) (s : St) (p : Probe) (h : HName) : St × P :=
  match findH s.hs h with
  | none => (s, .fin { tag := .noHandle })
  | some hd =>
    if !supportsProbe fl.fam hd.name.side p then (s, .fin { tag := .unsupported })
    else (s, .fin { tag := .ok, val := probeVal fl s hd p })

def start (fl : Flavour) (cfg : Cfg) (s : St) (t : Nat) : Op → St × P
  | .snd f h vs => startSend fl cfg s t f h vs
  | .rcv f h n => startRecv fl cfg s t f h n
  | .clone h h' => startClone fl s h h'
  | .close h => if cfg.granular ∧ fl.fam = .sb ∧ h.side = .tx then startCloseSb s t h else startClose fl s h
  | .drop h => if cfg.granular ∧ fl.fam = .sb ∧ h.side = .tx then startDropSb s t h else startDrop fl s h
  | .probe p h => startProbe fl s p h
  | .toAsync h => startConvert fl s h true
  | .toSync h => startConvert fl s h false

/-- take the first record of thread `t` out of a waiter-result list -/
def extract (t : Nat) : List (Nat × Val) → Option (Val × List (Nat × Val))
  | [] => none
  | (u, v) :: r =>
    if u = t then some (v, r)
    else match extract t r with
      | some (w, r') => some (w, (u, v) :: r')
      | none => none

/-- families in which a claimed-but-unwritten slot / unlinked node of an in-flight send hides what is
behind it from the consumer (ticket order, swap-then-link) -/
def hidesBehindInflight (fam : Fam) : Bool :=
  match fam with
  | .mb | .mu | .pu => true
  | _ => false

def emptyTag (f : Form) : Tag := if f = .recvTimeout0 then .timeout else .empty

/-- The deterministic step of a pending operation; `none` = it cannot move in this state. -/
def microDet (fl : Flavour) (cfg : Cfg) (s : St) : P → Option (St × P)
  | .fresh t op =>
    let s0 := match op with
      | .snd _ _ _ => if cfg.granular ∧ hidesBehindInflight fl.fam then { s with inflight := s.inflight + 1 } else s
      | _ => s
    some (start fl cfg s0 t op)
  | .bsend t f h sent rest q => sendStep fl cfg s t f h sent rest q
  | .bsendEnd _ f sent rest =>
    -- bounded_sync.rs:169-178: `reason = if consumer_dropped { Closed } else { Full }`
    some (failSend fl s f (if receiversGone fl s then .closed else .full) sent rest)
  | .brecv t f h n got =>
    match findH s.hs h with
    | none => none
    | some hd =>
      match recvStep fl cfg s t f hd n got with
      | some r => some r
      | none =>
        -- still nothing to take: a re-polled mpsc-bounded consumer flushes its unpublished progress again
        if fl.fam = .mb ∧ s.unpub > 0 then some (mbFlush fl s, .brecv t f h n got) else none
  | .rvSend t v =>
    if (t, v) ∈ s.sdone then some ({ s with sdone := s.sdone.erase (t, v) }, .fin { tag := .ok, sent := [v] })
    else if (t, v) ∈ s.sdisc then
      some ({ (s.lose [v]) with sdisc := s.sdisc.erase (t, v) }, .fin { tag := .closed, lost := [v] })
    else none
  | .rvRecv t =>
    match extract t s.rdone with
    | some (v, rest) => some ({ s with rdone := rest }, .fin { tag := .ok, got := [v] })
    | none =>
      if s.rdisc.contains t then some ({ s with rdisc := s.rdisc.erase t }, .fin { tag := .disconnected })
      else none
  | .rvTo t stage =>
    if stage = 1 then
      -- deadline already passed: `cancel_receiver` CAS WAITING→CANCELLED *without the lock* (rendezvous.rs:627-633)
      match extract t s.rdone with
      | some (v, rest) => some ({ s with rdone := rest }, .fin { tag := .ok, got := [v] })
      | none =>
        if s.rdisc.contains t then some ({ s with rdisc := s.rdisc.erase t }, .fin { tag := .disconnected })
        else some ({ s with rcanc := s.rcanc ++ [t] }, .rvTo t 2)
    else
      -- now take the lock and unlink; whatever a sender wrote meanwhile is dropped, result Timeout (:451-452)
      some ({ s with rw := s.rw.filter (fun x => x.1 != t), rcanc := s.rcanc.erase t, rdisc := s.rdisc.erase t },
            .fin { tag := .timeout })
  | .osRecv _ h =>
    match findH s.hs h with
    | none => none
    | some hd => osRecvStep s hd
  | .stg t k h sent rest => stgStep fl s t k h sent rest
  | .fin _ => none

/-- Additional behaviours that exist only under concurrency (never in a sequential run, where
`inflight = 0` and nobody else can drop the last sender while we are parked):
* a receive that finds the head slot claimed-but-unwritten by an in-flight send reports
  Empty / Timeout (or ends its batch early) although completed sends are buffered behind it;
* a `try_send*` on the bounded mpsc reports Full because in-flight sends hold tickets, or because
  SKIP tombstones of an earlier overshoot still occupy the window.  Tombstones are written by ANY send
  form whose claim raced another producer's (`try_send_now` / `try_send_now_cold` / `claim_run` /
  `claim_run_cold`: check the window, `fetch_add`, re-verify, SKIP on overshoot — shared.rs:304-331,
  630-661), also by a send that then succeeds or blocks; they count as occupancy
  (`g_tail - drained`) until the consumer walks over them, also after the race is over.  `tomb > 0` =
  "two sends on this channel overlapped (`retire`) and the consumer has not walked to the end of the
  ring with no send in flight since (`mbFlush`)": only then may a non-overlapping `try_send*` answer
  Full below capacity (witness: corpus/chan/chanq_thorough.case, conc-1-10776);
* a parked blocking send (re-polled send future) finds the receivers gone before it looks at the space;
* mpmc bounded: a *parked* sync receiver woken by the last sender's close returns Disconnected
  without looking at the buffer again (sync_impl.rs:304-311, 352-357; async_impl.rs:733-745) — finding F17. -/
def microSpur (fl : Flavour) (cfg : Cfg) (s : St) : P → List (St × P)
  | .fresh t (.rcv f h n) =>
    if hidesBehindInflight fl.fam ∧ s.inflight > 0 ∧ !f.blocking then
      match start fl cfg s t (.rcv f h n) with
      | (_, .fin o) => if o.tag = .ok ∧ !o.got.isEmpty then [(mbFlush fl s, .fin { tag := emptyTag f })] else []
      | (_, .brecv _ _ _ _ got) => if !got.isEmpty then [(mbFlush fl s, .fin { tag := emptyTag f })] else []
      | _ => []
    else []
  | .bsend t f h sent rest _ =>
    (if fl.fam = .mb ∧ !f.blocking ∧ (s.inflight > 1 ∨ s.tomb > 0) then
      (sendStep fl cfg s t f h sent rest 0 true).toList
    else []) ++
    -- a blocking send that was parked (or a re-polled send future) re-checks the closed flags before it
    -- tries again: with the receivers gone it may fail Closed even though there is room now
    (if f.blocking ∧ receiversGone fl s then [failSend fl s f .closed sent rest] else [])
  | .brecv _ f h _ got =>
    (if hidesBehindInflight fl.fam ∧ s.inflight > 0 ∧ !got.isEmpty then
      [(mbFlush fl s, .fin { tag := .ok, got := got })] else []) ++
    (match findH s.hs h with
     | some hd =>
       if fl.fam = .pb ∧ hd.name.side = .rx ∧ f.blocking ∧ got.isEmpty ∧ s.sc == 0 ∧ !s.buf.isEmpty then
         [(s, .fin { tag := .disconnected })] else []
     | none => [])
  | _ => []

/-- All atomic steps a pending operation can take in this state. -/
def micro (fl : Flavour) (cfg : Cfg) (s : St) (p : P) : List (St × P) :=
  (microDet fl cfg s p).toList ++ (if cfg.granular then microSpur fl cfg s p else [])

/-- bookkeeping at the return event: one fewer send in flight.  Bounded mpsc: a send that returns while
another send is still in flight overlapped it — either of the two may have overshot its claim and left
a SKIP tombstone in the ticket window (see `microSpur`); `tomb` counts these overlaps until the
consumer's walk clears it (`mbFlush`). -/
def retire (fl : Flavour) (cfg : Cfg) (s : St) (op : Op) : St :=
  match op with
  | .snd _ _ _ =>
    if cfg.granular ∧ hidesBehindInflight fl.fam then
      { s with inflight := s.inflight - 1, tomb := if fl.fam = .mb ∧ s.inflight > 1 then s.tomb + 1 else s.tomb }
    else s
  | _ => s

/-! ## Q: run to completion -/

def blocksOut : Out := { tag := .blocks }

/-- values still in the hands of an operation in progress -/
def P.inHand : P → List Val
  | .bsend _ _ _ _ rest _ => rest
  | .bsendEnd _ _ _ rest => rest
  | .stg _ _ _ _ rest => rest
  | _ => []

def P.outOrBlocks : P → Out
  | .fin o => o
  | _ => blocksOut

/-- run one operation's deterministic steps until it finishes or cannot move -/
def runPS (fl : Flavour) (cfg : Cfg) : Nat → St → P → St × P
  | 0, s, p => (s, p)
  | fuel + 1, s, p =>
    match p with
    | .fin _ => (s, p)
    | _ =>
      match microDet fl cfg s p with
      | none => (s, p)
      | some (s', p') => runPS fl cfg fuel s' p'

def runP (fl : Flavour) (cfg : Cfg) (fuel : Nat) (s : St) (p : P) : St × Out :=
  ((runPS fl cfg fuel s p).1, (runPS fl cfg fuel s p).2.outOrBlocks)

/-- the values a send form offers -/
def Op.vals : Op → List Val
  | .snd _ _ vs => vs
  | _ => []

def Op.size : Op → Nat
  | .snd _ _ vs => vs.length
  | .rcv _ _ n => n
  | _ => 0

def seqCfg : Cfg := { hot := true, granular := false }

/-- Q with the final operation state (finished, or where it is stuck) -/
def stepOpS (fl : Flavour) (s : St) (op : Op) : St × P :=
  runPS fl seqCfg (op.size + 4) s (.fresh 0 op)

/-- Q: one API call run to completion with nobody else running (`blocks` if it cannot complete). -/
def stepOp (fl : Flavour) (s : St) (op : Op) : St × Out :=
  ((stepOpS fl s op).1, (stepOpS fl s op).2.outOrBlocks)

def runOps (fl : Flavour) (s : St) : List Op → St
  | [] => s
  | op :: r => runOps fl (stepOp fl s op).1 r

/-- values left in the hands of operations of the program that blocked for good -/
def stranded (fl : Flavour) (s : St) : List Op → List Val
  | [] => []
  | op :: r => (stepOpS fl s op).2.inHand ++ stranded fl (stepOp fl s op).1 r

end Fv.Chan
