/-
STEP-LEVEL (layer B) model of `/repo/channels/src/internal/left_right.rs`:
`ReadHandle::enter`, `ReadGuard::drop`, `WriteHandle::modify`.

One step = one visible action (every atomic access of `live_idx` / `active_readers[i]` is SeqCst in
the code; the writer mutex lock/unlock; `hint::spin_loop`) or one of the two NON-atomic mutations
`f(stale)`, `f(old)` of `modify`, which are separate (silent) steps so that "a copy is mutated only
while no guard is on it" is a statement about the step at which the mutation happens.

The component is generic in the protected data `α` and in the set of deterministic mutations `Op`
(`ap : Op → α → α` is the closure applied twice by `modify`). Per-thread control state is a `PC`;
the embedding model owns the map `tid ↦ PC` (see `Sys` below for the stand-alone system).
-/
namespace Fv.Chan.LeftRightB

def upd {β : Type} (f : Nat → β) (i : Nat) (a : β) : Nat → β := fun j => if j = i then a else f j

inductive PC (α Op : Type) where
  | idle
  | rLoad                       -- enter: about to load live_idx                     (SeqCst)
  | rInc (i : Nat)              -- loaded i; about to fetch_add active_readers[i]    (SeqCst)
  | rChk (i : Nat)              -- about to re-load live_idx                         (SeqCst)
  | rBack (i : Nat)             -- live_idx moved: about to fetch_sub readers[i]     (SeqCst), then retry
  | rHold (i : Nat) (v : α)     -- guard held on copy i; v = what the guard dereferences to
  | wLock (o : Op)              -- modify: about to lock writer_lock
  | wLoad (o : Op)              -- about to load live_idx                            (SeqCst)
  | wMut1 (o : Op) (l : Nat)    -- about to apply f to the stale copy 1-l            [non-atomic]
  | wPub (o : Op) (l : Nat)     -- about to store live_idx := 1-l                    (SeqCst)
  | wWait (o : Op) (l : Nat)    -- about to load active_readers[l]                   (SeqCst)
  | wSpin (o : Op) (l : Nat)    -- readers[l] > 0: spin_loop
  | wMut2 (o : Op) (l : Nat)    -- about to apply f to the old live copy l           [non-atomic]
  | wUnlock                     -- about to unlock writer_lock
deriving DecidableEq, Repr

structure Sh (α : Type) where
  live : Nat
  readers : Nat → Nat
  data : Nat → α
  wlock : Option Nat
  /-- ghost: the threads that incremented `readers i` and have not yet decremented it -/
  rset : Nat → List Nat

def Sh.init {α : Type} (a : α) : Sh α :=
  { live := 0, readers := fun _ => 0, data := fun _ => a, wlock := none, rset := fun _ => [] }

inductive Label (Op : Type) where
  | rBegin | rLoad | rInc | rChk | rBack | rExit
  | wBegin (o : Op) | wLock | wLoad | wMut1 | wPub | wWait | wSpin | wMut2 | wUnlock
deriving DecidableEq, Repr

section
variable {α Op : Type} (ap : Op → α → α)

/-- One step of thread `t` whose left-right control state is `p`. -/
def step (sh : Sh α) (t : Nat) (p : PC α Op) : Label Op → Option (Sh α × PC α Op)
  | .rBegin => match p with
    | .idle => some (sh, .rLoad)
    | _ => none
  | .rLoad => match p with
    | .rLoad => some (sh, .rInc sh.live)
    | _ => none
  | .rInc => match p with
    | .rInc i => some ({ sh with readers := upd sh.readers i (sh.readers i + 1),
                                 rset := upd sh.rset i (t :: sh.rset i) }, .rChk i)
    | _ => none
  | .rChk => match p with
    | .rChk i => if sh.live = i then some (sh, .rHold i (sh.data i)) else some (sh, .rBack i)
    | _ => none
  | .rBack => match p with
    | .rBack i => some ({ sh with readers := upd sh.readers i (sh.readers i - 1),
                                  rset := upd sh.rset i ((sh.rset i).erase t) }, .rLoad)
    | _ => none
  | .rExit => match p with
    | .rHold i _ => some ({ sh with readers := upd sh.readers i (sh.readers i - 1),
                                    rset := upd sh.rset i ((sh.rset i).erase t) }, .idle)
    | _ => none
  | .wBegin o => match p with
    | .idle => some (sh, .wLock o)
    | _ => none
  | .wLock => match p with
    | .wLock o => if sh.wlock = none then some ({ sh with wlock := some t }, .wLoad o) else none
    | _ => none
  | .wLoad => match p with
    | .wLoad o => some (sh, .wMut1 o sh.live)
    | _ => none
  | .wMut1 => match p with
    | .wMut1 o l => some ({ sh with data := upd sh.data (1 - l) (ap o (sh.data (1 - l))) }, .wPub o l)
    | _ => none
  | .wPub => match p with
    | .wPub o l => some ({ sh with live := 1 - l }, .wWait o l)
    | _ => none
  | .wWait => match p with
    | .wWait o l => if sh.readers l = 0 then some (sh, .wMut2 o l) else some (sh, .wSpin o l)
    | _ => none
  | .wSpin => match p with
    | .wSpin o l => some (sh, .wWait o l)
    | _ => none
  | .wMut2 => match p with
    | .wMut2 o l => some ({ sh with data := upd sh.data l (ap o (sh.data l)) }, .wUnlock)
    | _ => none
  | .wUnlock => match p with
    | .wUnlock => some ({ sh with wlock := none }, .idle)
    | _ => none

/-- The stand-alone system: shared cells + a control state per thread. -/
structure Sys (α Op : Type) where
  sh : Sh α
  pcs : Nat → PC α Op

def Sys.init (a : α) : Sys α Op := { sh := Sh.init a, pcs := fun _ => .idle }

def Sys.step (s : Sys α Op) (t : Nat) (l : Label Op) : Option (Sys α Op) :=
  match LeftRightB.step ap s.sh t (s.pcs t) l with
  | some (sh', p') => some { sh := sh', pcs := upd s.pcs t p' }
  | none => none

def Sys.run (s : Sys α Op) : List (Nat × Label Op) → Option (Sys α Op)
  | [] => some s
  | (t, l) :: rest => (Sys.step ap s t l).bind (fun s' => Sys.run s' rest)

inductive Reach (a : α) : Sys α Op → Prop where
  | init : Reach a (Sys.init a)
  | step {s s' t l} : Reach a s → Sys.step ap s t l = some s' → Reach a s'

end

end Fv.Chan.LeftRightB
