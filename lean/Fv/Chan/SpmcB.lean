import Fv.Chan.LeftRightB
/-
STEP-LEVEL (layer B) model of fibre's broadcast SPMC channel (sync flavour):
  /repo/channels/src/spmc/ring_buffer.rs   `SpmcShared` (`try_send_internal`, `producer_space`,
        `write_batch_unchecked`, `try_send_batch(_mut)_internal`, `wake_producer`,
        `wake_all_consumers_from_slots`), `try_recv_internal`, `try_recv_batch_internal`,
        `BoundedSyncSender::{try_send, send, try_send_batch, send_batch, *_mut, park_until_not_full,
        close, Drop, len, is_empty, is_full, is_closed}`, `BoundedSyncReceiver::{try_recv, recv,
        recv_timeout(0), try_recv_batch(_mut), recv_batch(_mut), Clone, close, Drop, len, is_empty,
        is_full, is_closed}`, `drop_receiver_internal`, `Slot::drop`
  /repo/channels/src/spmc/mod.rs           `to_async` / `to_sync` (reset the handle's `closed` flag)
  /repo/channels/src/internal/left_right.rs  embedded through `Fv.Chan.LeftRightB`

One `act` step of a thread = ONE visible action of the scheduler shim (atomic load / store / swap /
CAS / fetch_add / fetch_sub, fence, Mutex lock / unlock, park, unpark, spin_loop), or one of the
NON-atomic accesses that the code performs between two visible actions and that race-freedom is
about: the producer's slot write (`assume_init_drop` of the previous lap + `write`), the consumer's
`assume_init_ref().clone()`, and the two list mutations of `left_right::modify`. `actInfo` gives,
for every control state, the kind / object / memory ordering / values of that action (SC semantics
only; orderings are recorded and compared by the driver, not given semantics).

Threads, receiver cells (cursor `Arc<AtomicUsize>`s), capacity, programs (`call` labels are
environment choices: any operation on any existing handle that no thread is currently using) and
schedules are unbounded parameters. Waker = the id of the thread it unparks (`sync_waker`).

Ghost state: `lim`/`dirty` (proof bookkeeping, see the fields), `sent` (payload of index i, appended when its sequence number is published), `got r`
(what the handle on cell r has returned), `c0 r` (cursor at creation), `dropped` (indices whose
payload the channel dropped), `sOwner`/`rOwner` (which thread is inside an operation on a handle:
the API gives every handle to one thread at a time), `taint` (set when a closed handle is revived
by `to_async`/`to_sync` or a closed receiver is cloned — the two places where the code forgets the
`closed` flag; theorems are stated for untainted runs and refuted by witnesses for tainted ones).
-/
namespace Fv.Chan.SpmcB
open Fv.Chan.LeftRightB (upd)

/-- the two mutations of the cursor list -/
inductive LOp where
  | push (n : Nat)
  | remove (n : Nat)
deriving DecidableEq, Repr

def apL : LOp → List Nat → List Nat
  | .push n, l => l ++ [n]
  | .remove n, l => l.filter (fun x => x != n)

abbrev LPC := LeftRightB.PC (List Nat) LOp
abbrev LSh := LeftRightB.Sh (List Nat)

inductive Res where
  | unit | closeErr
  | sOk | sFull | sClosed
  | sBatch (k : Nat) (closed : Bool)   -- k items written by this call; closed: it ended because no receiver is left
  | rOk (vs : List Nat) | rEmpty | rDisc | rTimeout
  | num (n : Nat) | bool (b : Bool)
deriving DecidableEq, Repr

inductive SProbe where
  | len | isEmpty | isFull | isClosed
deriving DecidableEq, Repr

inductive RProbe where
  | len | isEmpty | isFull | isClosed
deriving DecidableEq, Repr

/-- a send call in progress -/
structure SCtx where
  items : List Nat     -- not yet written (single send: `[v]`)
  done : Nat           -- written so far by this call
  batch : Bool         -- batch path (`producer_space` / `write_batch_unchecked` / `park_until_not_full`)
  blk : Bool           -- blocking form
deriving DecidableEq, Repr

/-- who asked for the minimum over the cursor list -/
inductive ScanK where
  | trySend (x : SCtx)    -- `try_send_internal`            (head loaded before `enter`)
  | recheck (x : SCtx)    -- `send`, after arming            (head loaded after the minimum)
  | space (x : SCtx)      -- `producer_space`                (head before)
  | recheckB (x : SCtx)   -- `park_until_not_full`           (head after)
  | probe (p : SProbe)    -- `len`/`is_empty`/`is_full` (head before), `is_closed` (no head load)
deriving DecidableEq, Repr

/-- continuation of the de-arm loop -/
inductive DK where
  | closed (x : SCtx) | retry (x : SCtx) | bClosed (x : SCtx) | bRetry (x : SCtx)
deriving DecidableEq, Repr

inductive RKind where
  | try | blk | tmo
deriving DecidableEq, Repr

/-- a receive call in progress -/
structure RCtx where
  kind : RKind
  max : Option Nat     -- `none`: single item; `some n`: batch of at most n (n > 0)
  reg : Bool           -- waker already registered in this loop iteration
deriving DecidableEq, Repr

/-- what `wake_producer` returns to -/
inductive WK where
  | recv (vs : List Nat) | unreg
deriving DecidableEq, Repr

inductive MK where
  | clone (n : Nat) | unreg
deriving DecidableEq, Repr

/-- control states of an operation on the sender handle -/
inductive SPC where
  -- sender entry
  | sFlag (x : SCtx)                                   -- load self.closed                    relaxed
  -- minimum over the cursor list under a left-right read guard
  | sHead (k : ScanK)                                  -- load head                           relaxed
  | sEnter (k : ScanK) (h : Nat) (p : LPC)             -- inside `enter()`
  | sScan (k : ScanK) (h i : Nat) (done todo : List Nat) (m : Option Nat)  -- load cursor todo.head  acquire
  | sHead2 (k : ScanK) (i : Nat) (L : List Nat) (m : Nat)                  -- load head           relaxed
  | sExit (k : ScanK) (h i : Nat) (L : List Nat) (m : Option Nat)          -- guard drop: fetch_sub seqcst
  -- slot writes
  | bHead (x : SCtx) (k : Nat)                         -- write_batch_unchecked: load head    relaxed
  | wSeqLd (x : SCtx) (h j k : Nat)                    -- load seq of slot (h+j)%cap          relaxed
  | wVal (x : SCtx) (h j k q : Nat)                    -- drop previous lap if q odd; write   [non-atomic]
  | wSeqSt (x : SCtx) (h j k : Nat)                    -- store seq := 2(h+j)+1               release
  | wHeadSt (x : SCtx) (h k : Nat)                     -- store head := h+k                   release
  | wLockW (x : SCtx) (h j k : Nat) (acc : List Nat)   -- lock wakers of slot (h+j)%cap, drain
  | wUnlockW (x : SCtx) (h j k : Nat) (acc : List Nat) -- unlock
  | wWake (x : SCtx) (k : Nat) (acc : List Nat)        -- unpark acc.head
  -- producer park protocol
  | slHead (x : SCtx)                                  -- send: load head (diagnostic local)  relaxed
  | aStore (x : SCtx)                                  -- thread handle := me; store flag := PARKED  release
  | aFence (x : SCtx)                                  -- fence                               seqcst
  | dCas (d : DK)                                      -- CAS flag PARKED→IDLE                acqrel/acquire
  | dSpin (d : DK)                                     -- spin_loop
  | dLoad (x : SCtx)                                   -- load flag (wait for IDLE)           acquire
  | dSpin2 (x : SCtx)                                  -- spin_loop
  | pPark (x : SCtx)                                   -- park
  | pHead (x : SCtx)                                   -- send: load head (diagnostic)        relaxed
  | pLoad (x : SCtx)                                   -- load flag                           acquire
  | pCas (x : SCtx)                                    -- CAS flag PARKED→IDLE                acqrel/acquire
  | pSpin (x : SCtx)                                   -- spin_loop
  -- sender close / drop
  | cFlag (isDrop : Bool)                              -- close: CAS closed false→true acqrel/relaxed; drop: swap acqrel
  | cStore                                             -- store producer_dropped := true      release
  | cLock (j : Nat)                                    -- lock wakers of slot j, drain
  | cWake (j : Nat) (ws : List Nat)                    -- unpark ws.head (lock held)
  | cUnlock (j : Nat)
deriving DecidableEq, Repr

/-- control states of an operation on a receiver handle -/
inductive RPC where
  -- receive
  | rFlag (x : RCtx)                                   -- load self.closed                    relaxed
  | rCur (x : RCtx)                                    -- load own cursor                     relaxed
  | rSeq (x : RCtx) (c : Nat)                          -- load seq of slot c%cap              acquire
  | rVal (x : RCtx) (c : Nat)                          -- clone the payload out               [non-atomic]
  | rSt (x : RCtx) (c : Nat) (vs : List Nat)           -- store cursor := c+|vs|              release
  | rDrop (x : RCtx) (c : Nat)                         -- load producer_dropped               acquire
  | rHead (x : RCtx) (c : Nat)                         -- load head                           acquire
  | bHd (x : RCtx) (c : Nat)                           -- batch: load head                    acquire
  | bDrop (x : RCtx) (c : Nat)                         -- batch: load producer_dropped        acquire
  | bHd2 (x : RCtx) (c : Nat)                          -- batch: re-load head                 acquire
  | bVals (x : RCtx) (c k : Nat)                       -- clone k payloads out                [non-atomic]
  | gCur (x : RCtx)                                    -- load own cursor (slot choice)       relaxed
  | gLock (x : RCtx) (c : Nat)                         -- lock wakers of slot c%cap, push
  | gUnlock (x : RCtx) (c : Nat)
  | eDrop (x : RCtx)                                   -- after re-check: load producer_dropped  acquire
  | eHead (x : RCtx)                                   -- load head                           acquire
  | eCur (x : RCtx) (h : Nat)                          -- load own cursor                     relaxed
  | eLock (x : RCtx) (c : Nat)                         -- recv: lock wakers (`retain`, removes nothing)
  | eUnlock (x : RCtx) (c : Nat)
  | kPark (x : RCtx)                                   -- park
  | kCur (x : RCtx)                                    -- recv: load own cursor (telemetry arg) relaxed
  -- wake_producer
  | wpFence (k : WK)                         -- fence                               seqcst
  | wpLoad (k : WK)                          -- load flag                           acquire
  | wpCas (k : WK)                           -- CAS flag PARKED→CONSUMING, take()   acqrel/acquire
  | wpIdle (k : WK) (th : Option Nat)        -- store flag := IDLE                  release
  | wpUnpark (k : WK) (th : Nat)             -- unpark th
  -- clone / close / drop of a receiver handle
  | cCur                                     -- clone: load parent's cursor         acquire
  | mLock (k : MK)                                     -- lock tails_mutex
  | mMod (k : MK) (p : LPC)                            -- inside `tails_writer.modify`
  | mUnlock (k : MK)                                   -- unlock tails_mutex
  | xFlag (isDrop : Bool)                    -- close: CAS closed; drop: swap
  -- receiver probes
  | qDrop                                    -- is_closed: load producer_dropped    acquire
  | qHead (p : RProbe)                       -- load head                           acquire
  | qCur (p : RProbe) (h : Nat)              -- load own cursor                     acquire
deriving DecidableEq, Repr

inductive PC where
  | idle
  | ret (res : Res)
  | snd (p : SPC)               -- inside an operation on the sender handle
  | rcv (r : Nat) (p : RPC)     -- inside an operation on the receiver handle whose cursor cell is r
deriving DecidableEq, Repr

inductive Op where
  | send (v : Nat) | trySend (v : Nat)
  | sendBatch (vs : List Nat) (blk : Bool)             -- send_batch / try_send_batch and their `_mut` forms
  | sClose | sDrop | sProbe (p : SProbe) | sConv
  | recv (r : Nat) (kind : RKind) (max : Option Nat)   -- (try_)recv, recv_timeout(0), (try_)recv_batch(_mut)
  | clone (r : Nat) | rClose (r : Nat) | rDrop (r : Nat) | rProbe (r : Nat) (p : RProbe) | rConv (r : Nat)
deriving DecidableEq, Repr

structure State where
  cap : Nat
  head : Nat
  seq : Nat → Nat
  val : Nat → Nat
  wk : Nat → List Nat            -- per-slot waker list (thread ids)
  wkLock : Nat → Option Nat      -- per-slot waker mutex
  cur : Nat → Nat                -- cursor cells
  nextCell : Nat
  lr : LSh                       -- tails_reader / tails_writer
  tailsMx : Option Nat
  flag : Nat                     -- 0 IDLE, 1 PARKED, 2 CONSUMING
  pthread : Option Nat           -- producer_thread_sync
  pdropped : Bool
  sclosed : Bool                 -- the sender handle's `closed`
  rclosed : Nat → Bool           -- receiver handles' `closed`
  token : Nat → Bool             -- park tokens
  pc : Nat → PC
  sAlive : Bool
  rAlive : Nat → Bool
  sOwner : Option Nat
  rOwner : Nat → Option Nat
  sent : List Nat
  got : Nat → List Nat
  c0 : Nat → Nat
  dropped : List Nat
  /-- ghost: cell allocated by a `clone` (of that thread) that has not returned yet -/
  resv : Nat → Option Nat
  /-- ghost: consumer threads between their cursor store / unregistration and their test of the park flag -/
  wq : List Nat
  /-- ghost: `(u, p)`: thread `u` is about to unpark the producer thread `p` -/
  upk : List (Nat × Nat)
  /-- ghost: the consumer that moved the park flag to CONSUMING -/
  csm : Option Nat
  /-- ghost: the cell whose cursor is the current minimum of the producer's scan -/
  argm : Nat
  /-- ghost: the producer may publish indices below `lim` (`lim ≤ cursor + cap` for every registered cursor) -/
  lim : Nat
  /-- ghost: the slot of the next index has been overwritten but its sequence number not yet stored -/
  dirty : Bool
  taint : Bool
  torn : Bool

def init (cap : Nat) : State :=
  { cap := cap, head := 0, seq := fun j => 2 * j, val := fun _ => 0, wk := fun _ => [],
    wkLock := fun _ => none, cur := fun _ => 0, nextCell := 1,
    -- `new_channel` has already run `modify(push cell 0)` once: live_idx = 1, both copies `[0]`
    lr := { live := 1, readers := fun _ => 0, data := fun _ => [0], wlock := none, rset := fun _ => [] },
    tailsMx := none, flag := 0, pthread := none, pdropped := false, sclosed := false,
    rclosed := fun _ => false, token := fun _ => false, pc := fun _ => .idle,
    sAlive := true, rAlive := fun r => r == 0, sOwner := none, rOwner := fun _ => none,
    sent := [], got := fun _ => [], c0 := fun _ => 0, dropped := [], resv := fun _ => none, wq := [], upk := [], csm := none, argm := 0,
    lim := 0, dirty := false,
    taint := false, torn := false }

/-- the published cursor list (what a reader that commits now dereferences) -/
def State.pub (s : State) : List Nat := s.lr.data s.lr.live

def isRet : PC → Bool
  | .ret _ => true
  | _ => false

/-- continue a sender operation at `p` (returning releases the handle) -/
def State.goS (s : State) (t : Nat) (p : PC) : State :=
  { s with pc := upd s.pc t p, sOwner := if isRet p then none else s.sOwner }

/-- continue an operation on receiver handle `r` at `p` -/
def State.goR (s : State) (t r : Nat) (p : PC) : State :=
  { s with pc := upd s.pc t p, rOwner := if isRet p then upd s.rOwner r none else s.rOwner }

def omin (m : Option Nat) (v : Nat) : Nat :=
  match m with
  | none => v
  | some x => min x v

/-- ghost: which cell holds the running minimum after loading `v` from cell `r` -/
def newArg (m : Option Nat) (v r old : Nat) : Nat :=
  match m with
  | none => r
  | some mv => if v < mv then r else old

def probeLen (h : Nat) : Option Nat → Nat
  | none => 0
  | some mv => h - mv

def probeRes (p : SProbe) (cap h : Nat) (L : List Nat) (m : Option Nat) : Res :=
  match p with
  | .len => .num (probeLen h m)
  | .isEmpty => .bool (probeLen h m == 0)
  | .isFull => .bool (probeLen h m == cap)
  | .isClosed => .bool L.isEmpty

/-- retry of the send loop -/
def retryPC (x : SCtx) : PC := if x.batch then .snd (.sHead (.space x)) else .snd (.sHead (.trySend x))

/-- `producer_space` capped by the number of items still to send -/
def spaceK (cap h mv n : Nat) : Nat := min (cap - min (h - mv) cap) n

/-- where the sender goes once the read guard is dropped -/
def afterScan (cap : Nat) (k : ScanK) (h : Nat) (L : List Nat) (m : Option Nat) : PC :=
  match k, m with
  | .trySend _, none => .ret .sClosed
  | .trySend x, some mv =>
    if h - mv ≥ cap then (if x.blk then .snd (.slHead x) else .ret .sFull) else .snd (.wSeqLd x h 0 1)
  | .space x, none => .ret (.sBatch x.done true)
  | .space x, some mv =>
    if spaceK cap h mv x.items.length = 0 then (if x.blk then .snd (.aStore x) else .ret (.sBatch x.done false))
    else .snd (.bHead x (spaceK cap h mv x.items.length))
  | .recheck x, none => .snd (.dCas (.closed x))
  | .recheck x, some mv => if h - mv ≥ cap then .snd (.pPark x) else .snd (.dCas (.retry x))
  | .recheckB x, none => .snd (.dCas (.bClosed x))
  | .recheckB x, some mv => if h - mv ≥ cap then .snd (.pPark x) else .snd (.dCas (.bRetry x))
  | .probe p, m => .ret (probeRes p cap h L m)

def headAfter : ScanK → Bool
  | .recheck _ | .recheckB _ => true
  | _ => false

def dkCont : DK → PC
  | .closed _ => .ret .sClosed
  | .retry x => retryPC x
  | .bClosed x => .ret (.sBatch x.done true)
  | .bRetry x => retryPC x

/-- after the written slots' waker lists are drained and the wakers woken: finish the write -/
def restCtx (x : SCtx) (k : Nat) : SCtx := { x with items := x.items.drop k, done := x.done + k }

def afterWrite (x : SCtx) (k : Nat) : PC :=
  if x.batch then
    if (x.items.drop k).isEmpty then .ret (.sBatch (x.done + k) false)
    else if x.blk then .snd (.aStore (restCtx x k)) else .ret (.sBatch (x.done + k) false)
  else .ret .sOk

def wakeOr (x : SCtx) (k : Nat) (acc : List Nat) : PC :=
  match acc with
  | [] => afterWrite x k
  | _ => .snd (.wWake x k acc)

def onEmpty (r : Nat) (x : RCtx) : PC :=
  match x.kind with
  | .try => .ret .rEmpty
  | .tmo => .ret .rTimeout
  | .blk => if x.reg then .rcv r (.eDrop x) else .rcv r (.gCur x)

def wkDone : WK → PC
  | .recv vs => .ret (.rOk vs)
  | .unreg => .ret .unit

def mkOp (r : Nat) : MK → LOp
  | .clone n => .push n
  | .unreg => .remove r

def lrLabel : LPC → Option (LeftRightB.Label LOp)
  | .rLoad => some .rLoad
  | .rInc _ => some .rInc
  | .rChk _ => some .rChk
  | .rBack _ => some .rBack
  | .wLock _ => some .wLock
  | .wLoad _ => some .wLoad
  | .wMut1 _ _ => some .wMut1
  | .wPub _ _ => some .wPub
  | .wWait _ _ => some .wWait
  | .wSpin _ _ => some .wSpin
  | .wMut2 _ _ => some .wMut2
  | .wUnlock => some .wUnlock
  | _ => none

def lrpcS : SPC → LPC
  | .sEnter _ _ p => p
  | .sScan _ _ i done todo _ => .rHold i (done ++ todo)
  | .sHead2 _ i L _ => .rHold i L
  | .sExit _ _ i L _ => .rHold i L
  | _ => .idle

def lrpcR : RPC → LPC
  | .mMod _ p => p
  | _ => .idle

/-- the embedded left-right control state of a thread -/
def lrpc : PC → LPC
  | .snd p => lrpcS p
  | .rcv _ p => lrpcR p
  | _ => .idle

def rProbeRes (p : RProbe) (cap h c : Nat) : Res :=
  match p with
  | .len => .num (h - c)
  | .isEmpty => .bool (decide (c ≥ h))
  | .isFull => .bool (h - c == cap)
  | .isClosed => .bool (decide (c ≥ h))

/-! ### one function per control state -/

def stepSFlag (s : State) (t : Nat) (x : SCtx) : State :=
  if s.sclosed then s.goS t (.ret (if x.batch then .sBatch 0 true else .sClosed))
  else s.goS t (retryPC x)

def stepSHead (s : State) (t : Nat) (k : ScanK) : State :=
  s.goS t (.snd (.sEnter k s.head .rLoad))

/-- the guard has just been obtained on copy `i` with contents `L` -/
def commitPC (k : ScanK) (h i : Nat) (L : List Nat) : PC :=
  match k with
  | .probe .isClosed => .snd (.sExit k h i L none)
  | _ => if L.isEmpty then .snd (.sExit k h i L none) else .snd (.sScan k h i [] L none)

def stepSEnter (s : State) (t : Nat) (k : ScanK) (h : Nat) (p : LPC) : Option State :=
  match lrLabel p with
  | none => none
  | some l =>
    match LeftRightB.step apL s.lr t p l with
    | none => none
    | some (lr', p') =>
      match p' with
      | .rHold i L => some { s.goS t (commitPC k h i L) with lr := lr' }
      | _ => some { s.goS t (.snd (.sEnter k h p')) with lr := lr' }

def stepSScan (s : State) (t : Nat) (k : ScanK) (h i : Nat) (done todo : List Nat) (m : Option Nat) : Option State :=
  match todo with
  | [] => none
  | r :: rest =>
    match rest with
    | [] => if headAfter k then
              some { s.goS t (.snd (.sHead2 k i (done ++ [r]) (omin m (s.cur r)))) with
                     lim := max s.lim (omin m (s.cur r) + s.cap), argm := newArg m (s.cur r) r s.argm }
            else some { s.goS t (.snd (.sExit k h i (done ++ [r]) (some (omin m (s.cur r))))) with
                        lim := max s.lim (omin m (s.cur r) + s.cap), argm := newArg m (s.cur r) r s.argm }
    | _ => some { s.goS t (.snd (.sScan k h i (done ++ [r]) rest (some (omin m (s.cur r))))) with
                  argm := newArg m (s.cur r) r s.argm }

def stepSHead2 (s : State) (t : Nat) (k : ScanK) (i : Nat) (L : List Nat) (m : Nat) : State :=
  s.goS t (.snd (.sExit k s.head i L (some m)))

def stepSExit (s : State) (t : Nat) (k : ScanK) (h i : Nat) (L : List Nat) (m : Option Nat) : Option State :=
  match LeftRightB.step apL s.lr t (.rHold i L) .rExit with
  | none => none
  | some (lr', _) => some { s.goS t (afterScan s.cap k h L m) with lr := lr' }

def stepBHead (s : State) (t : Nat) (x : SCtx) (k : Nat) : State :=
  s.goS t (.snd (.wSeqLd x s.head 0 k))

def stepWSeqLd (s : State) (t : Nat) (x : SCtx) (h j k : Nat) : State :=
  s.goS t (.snd (.wVal x h j k (s.seq ((h + j) % s.cap))))

def stepWVal (s : State) (t : Nat) (x : SCtx) (h j k q : Nat) : State :=
  { s.goS t (.snd (.wSeqSt x h j k)) with
    val := upd s.val ((h + j) % s.cap) (x.items.getD j 0),
    dropped := if q % 2 = 1 then s.dropped ++ [q / 2] else s.dropped, dirty := true }

def stepWSeqSt (s : State) (t : Nat) (x : SCtx) (h j k : Nat) : State :=
  { s.goS t (if j + 1 < k then .snd (.wSeqLd x h (j + 1) k) else .snd (.wHeadSt x h k)) with
    seq := upd s.seq ((h + j) % s.cap) (2 * (h + j) + 1),
    sent := s.sent ++ [x.items.getD j 0], dirty := false }

def stepWHeadSt (s : State) (t : Nat) (x : SCtx) (h k : Nat) : State :=
  { s.goS t (.snd (.wLockW x h 0 k [])) with head := h + k }

def stepWLockW (s : State) (t : Nat) (x : SCtx) (h j k : Nat) (acc : List Nat) : Option State :=
  if s.wkLock ((h + j) % s.cap) = none then
    some { s.goS t (.snd (.wUnlockW x h j k (acc ++ s.wk ((h + j) % s.cap)))) with
           wkLock := upd s.wkLock ((h + j) % s.cap) (some t), wk := upd s.wk ((h + j) % s.cap) [] }
  else none

def stepWUnlockW (s : State) (t : Nat) (x : SCtx) (h j k : Nat) (acc : List Nat) : State :=
  { s.goS t (if j + 1 < k then .snd (.wLockW x h (j + 1) k acc) else wakeOr x k acc) with
    wkLock := upd s.wkLock ((h + j) % s.cap) none }

def stepWWake (s : State) (t : Nat) (x : SCtx) (k : Nat) (acc : List Nat) : Option State :=
  match acc with
  | [] => none
  | w :: rest => some { s.goS t (wakeOr x k rest) with token := upd s.token w true }

def stepSlHead (s : State) (t : Nat) (x : SCtx) : State := s.goS t (.snd (.aStore x))

def stepAStore (s : State) (t : Nat) (x : SCtx) : State :=
  { s.goS t (.snd (.aFence x)) with flag := 1, pthread := some t }

def stepAFence (s : State) (t : Nat) (x : SCtx) : State :=
  s.goS t (.snd (.sEnter (if x.batch then .recheckB x else .recheck x) 0 .rLoad))

def stepDCas (s : State) (t : Nat) (d : DK) : State :=
  if s.flag = 1 then { s.goS t (dkCont d) with flag := 0, pthread := none }
  else if s.flag = 2 then
    match d with
    | .retry x => s.goS t (.snd (.dLoad x))
    | _ => s.goS t (.snd (.dSpin d))
  else s.goS t (dkCont d)

def stepDSpin (s : State) (t : Nat) (d : DK) : State := s.goS t (.snd (.dCas d))

def stepDLoad (s : State) (t : Nat) (x : SCtx) : State :=
  if s.flag = 0 then s.goS t (retryPC x) else s.goS t (.snd (.dSpin2 x))

def stepDSpin2 (s : State) (t : Nat) (x : SCtx) : State := s.goS t (.snd (.dLoad x))

def afterPark (x : SCtx) : PC := if x.batch then .snd (.pLoad x) else .snd (.pHead x)

def stepPPark (s : State) (t : Nat) (x : SCtx) : Option State :=
  if s.token t then some { s.goS t (afterPark x) with token := upd s.token t false } else none

def stepPHead (s : State) (t : Nat) (x : SCtx) : State := s.goS t (.snd (.pLoad x))

def stepPLoad (s : State) (t : Nat) (x : SCtx) : State :=
  if s.flag = 1 then s.goS t (.snd (.pCas x))
  else if s.flag = 2 then s.goS t (.snd (.pSpin x))
  else s.goS t (retryPC x)

def stepPCas (s : State) (t : Nat) (x : SCtx) : State :=
  if s.flag = 1 then { s.goS t (retryPC x) with flag := 0, pthread := none }
  else s.goS t (.snd (.pSpin x))

def stepPSpin (s : State) (t : Nat) (x : SCtx) : State := s.goS t (.snd (.pLoad x))

def stepCFlag (s : State) (t : Nat) (isDrop : Bool) : State :=
  if s.sclosed then s.goS t (.ret (if isDrop then .unit else .closeErr))
  else { s.goS t (.snd .cStore) with sclosed := true }

def stepCStore (s : State) (t : Nat) : State :=
  { s.goS t (.snd (.cLock 0)) with pdropped := true }

def stepCLock (s : State) (t : Nat) (j : Nat) : Option State :=
  if s.wkLock j = none then
    some { s.goS t (match s.wk j with | [] => .snd (.cUnlock j) | ws => .snd (.cWake j ws)) with
           wkLock := upd s.wkLock j (some t), wk := upd s.wk j [] }
  else none

def stepCWake (s : State) (t : Nat) (j : Nat) (ws : List Nat) : Option State :=
  match ws with
  | [] => none
  | w :: rest =>
    some { s.goS t (match rest with | [] => .snd (.cUnlock j) | _ => .snd (.cWake j rest)) with
           token := upd s.token w true }

def stepCUnlock (s : State) (t : Nat) (j : Nat) : State :=
  { s.goS t (if j + 1 < s.cap then .snd (.cLock (j + 1)) else .ret .unit) with wkLock := upd s.wkLock j none }

/-- the next action of a thread inside a sender operation -/
def actS (s : State) (t : Nat) : SPC → Option State
  | .sFlag x => some (stepSFlag s t x)
  | .sHead k => some (stepSHead s t k)
  | .sEnter k h p => stepSEnter s t k h p
  | .sScan k h i done todo m => stepSScan s t k h i done todo m
  | .sHead2 k i L m => some (stepSHead2 s t k i L m)
  | .sExit k h i L m => stepSExit s t k h i L m
  | .bHead x k => some (stepBHead s t x k)
  | .wSeqLd x h j k => some (stepWSeqLd s t x h j k)
  | .wVal x h j k q => some (stepWVal s t x h j k q)
  | .wSeqSt x h j k => some (stepWSeqSt s t x h j k)
  | .wHeadSt x h k => some (stepWHeadSt s t x h k)
  | .wLockW x h j k acc => stepWLockW s t x h j k acc
  | .wUnlockW x h j k acc => some (stepWUnlockW s t x h j k acc)
  | .wWake x k acc => stepWWake s t x k acc
  | .slHead x => some (stepSlHead s t x)
  | .aStore x => some (stepAStore s t x)
  | .aFence x => some (stepAFence s t x)
  | .dCas d => some (stepDCas s t d)
  | .dSpin d => some (stepDSpin s t d)
  | .dLoad x => some (stepDLoad s t x)
  | .dSpin2 x => some (stepDSpin2 s t x)
  | .pPark x => stepPPark s t x
  | .pHead x => some (stepPHead s t x)
  | .pLoad x => some (stepPLoad s t x)
  | .pCas x => some (stepPCas s t x)
  | .pSpin x => some (stepPSpin s t x)
  | .cFlag d => some (stepCFlag s t d)
  | .cStore => some (stepCStore s t)
  | .cLock j => stepCLock s t j
  | .cWake j ws => stepCWake s t j ws
  | .cUnlock j => some (stepCUnlock s t j)

def stepRFlag (s : State) (t r : Nat) (x : RCtx) : State :=
  if s.rclosed r then s.goR t r (.ret .rDisc) else s.goR t r (.rcv r (.rCur x))

def stepRCur (s : State) (t r : Nat) (x : RCtx) : State :=
  match x.max with
  | none => s.goR t r (.rcv r (.rSeq x (s.cur r)))
  | some _ => s.goR t r (.rcv r (.bHd x (s.cur r)))

def stepRSeq (s : State) (t r : Nat) (x : RCtx) (c : Nat) : State :=
  if s.seq (c % s.cap) = 2 * c + 1 then s.goR t r (.rcv r (.rVal x c)) else s.goR t r (.rcv r (.rDrop x c))

def stepRVal (s : State) (t r : Nat) (x : RCtx) (c : Nat) : State :=
  s.goR t r (.rcv r (.rSt x c [s.val (c % s.cap)]))

def stepRSt (s : State) (t r : Nat) (c : Nat) (vs : List Nat) : State :=
  { s.goR t r (.rcv r (.wpFence (.recv vs))) with
    cur := upd s.cur r (c + vs.length), got := upd s.got r (s.got r ++ vs), wq := t :: s.wq }

def stepRDrop (s : State) (t r : Nat) (x : RCtx) (c : Nat) : State :=
  if s.pdropped then s.goR t r (.rcv r (.rHead x c)) else s.goR t r (onEmpty r x)

def stepRHead (s : State) (t r : Nat) (x : RCtx) (c : Nat) : State :=
  if c ≥ s.head then s.goR t r (.ret .rDisc) else s.goR t r (onEmpty r x)

def stepBHd (s : State) (t r : Nat) (x : RCtx) (c : Nat) : State :=
  if s.head ≤ c then s.goR t r (.rcv r (.bDrop x c))
  else s.goR t r (.rcv r (.bVals x c (min (s.head - c) (x.max.getD 1))))

def stepBDrop (s : State) (t r : Nat) (x : RCtx) (c : Nat) : State :=
  if s.pdropped then s.goR t r (.rcv r (.bHd2 x c)) else s.goR t r (onEmpty r x)

def stepBHd2 (s : State) (t r : Nat) (x : RCtx) (c : Nat) : State :=
  if c ≥ s.head then s.goR t r (.ret .rDisc)
  else s.goR t r (.rcv r (.bVals x c (min (s.head - c) (x.max.getD 1))))

def stepBVals (s : State) (t r : Nat) (x : RCtx) (c k : Nat) : State :=
  s.goR t r (.rcv r (.rSt x c ((List.range k).map (fun i => s.val ((c + i) % s.cap)))))

def stepGCur (s : State) (t r : Nat) (x : RCtx) : State := s.goR t r (.rcv r (.gLock x (s.cur r)))

def stepGLock (s : State) (t r : Nat) (x : RCtx) (c : Nat) : Option State :=
  if s.wkLock (c % s.cap) = none then
    some { s.goR t r (.rcv r (.gUnlock x c)) with
           wkLock := upd s.wkLock (c % s.cap) (some t), wk := upd s.wk (c % s.cap) (s.wk (c % s.cap) ++ [t]) }
  else none

def stepGUnlock (s : State) (t r : Nat) (x : RCtx) (c : Nat) : State :=
  { s.goR t r (.rcv r (.rCur { x with reg := true })) with wkLock := upd s.wkLock (c % s.cap) none }

def stepEDrop (s : State) (t r : Nat) (x : RCtx) : State :=
  if s.pdropped then s.goR t r (.rcv r (.eHead x)) else s.goR t r (.rcv r (.kPark x))

def stepEHead (s : State) (t r : Nat) (x : RCtx) : State := s.goR t r (.rcv r (.eCur x s.head))

def stepECur (s : State) (t r : Nat) (x : RCtx) (h : Nat) : State :=
  if s.cur r ≥ h then (match x.max with
                       | none => s.goR t r (.rcv r (.eLock x (s.cur r)))
                       | some _ => s.goR t r (.ret .rDisc))
  else s.goR t r (.rcv r (.kPark x))

def stepELock (s : State) (t r : Nat) (x : RCtx) (c : Nat) : Option State :=
  if s.wkLock (c % s.cap) = none then
    some { s.goR t r (.rcv r (.eUnlock x c)) with wkLock := upd s.wkLock (c % s.cap) (some t) }
  else none

def stepEUnlock (s : State) (t r : Nat) (c : Nat) : State :=
  { s.goR t r (.ret .rDisc) with wkLock := upd s.wkLock (c % s.cap) none }

def afterRPark (r : Nat) (x : RCtx) : PC :=
  match x.max with
  | none => .rcv r (.kCur x)
  | some _ => .rcv r (.rCur { x with reg := false })

def stepKPark (s : State) (t r : Nat) (x : RCtx) : Option State :=
  if s.token t then some { s.goR t r (afterRPark r x) with token := upd s.token t false } else none

def stepKCur (s : State) (t r : Nat) (x : RCtx) : State := s.goR t r (.rcv r (.rCur { x with reg := false }))

def stepWpFence (s : State) (t r : Nat) (k : WK) : State := s.goR t r (.rcv r (.wpLoad k))

def stepWpLoad (s : State) (t r : Nat) (k : WK) : State :=
  if s.flag = 1 then s.goR t r (.rcv r (.wpCas k)) else { s.goR t r (wkDone k) with wq := s.wq.erase t }

def stepWpCas (s : State) (t r : Nat) (k : WK) : State :=
  if s.flag = 1 then
    { s.goR t r (.rcv r (.wpIdle k s.pthread)) with flag := 2, pthread := none, csm := some t, wq := s.wq.erase t }
  else { s.goR t r (wkDone k) with wq := s.wq.erase t }

def stepWpIdle (s : State) (t r : Nat) (k : WK) (th : Option Nat) : State :=
  match th with
  | some p => { s.goR t r (.rcv r (.wpUnpark k p)) with flag := 0, csm := none, upk := (t, p) :: s.upk }
  | none => { s.goR t r (wkDone k) with flag := 0, csm := none }

def stepWpUnpark (s : State) (t r : Nat) (k : WK) (th : Nat) : State :=
  { s.goR t r (wkDone k) with token := upd s.token th true, upk := s.upk.erase (t, th) }

def stepCCur (s : State) (t r : Nat) : State :=
  { s.goR t r (.rcv r (.mLock (.clone s.nextCell))) with
    nextCell := s.nextCell + 1, cur := upd s.cur s.nextCell (s.cur r), c0 := upd s.c0 s.nextCell (s.cur r),
    rclosed := upd s.rclosed s.nextCell false, got := upd s.got s.nextCell [],
    resv := upd s.resv s.nextCell (some t) }

/-- the step of `modify` that publishes the removal of a cursor -/
def isUnregPub (k : MK) (p : LPC) : Bool :=
  match k, p with
  | .unreg, .wPub _ _ => true
  | _, _ => false

def stepMLock (s : State) (t r : Nat) (k : MK) : Option State :=
  if s.tailsMx = none then some { s.goR t r (.rcv r (.mMod k (.wLock (mkOp r k)))) with tailsMx := some t }
  else none

def stepMMod (s : State) (t r : Nat) (k : MK) (p : LPC) : Option State :=
  match lrLabel p with
  | none => none
  | some l =>
    match LeftRightB.step apL s.lr t p l with
    | none => none
    | some (lr', p') =>
      match p' with
      | .idle => some { s.goR t r (.rcv r (.mUnlock k)) with lr := lr' }
      | _ => some { s.goR t r (.rcv r (.mMod k p')) with lr := lr', wq := if isUnregPub k p then t :: s.wq else s.wq }

def stepMUnlock (s : State) (t r : Nat) (k : MK) : State :=
  match k with
  | .clone n => { s.goR t r (.ret .unit) with tailsMx := none, rAlive := upd s.rAlive n true,
                                                resv := upd s.resv n none }
  | .unreg => { s.goR t r (.rcv r (.wpFence .unreg)) with tailsMx := none }

def stepXFlag (s : State) (t r : Nat) (isDrop : Bool) : State :=
  if s.rclosed r then s.goR t r (.ret (if isDrop then .unit else .closeErr))
  else { s.goR t r (.rcv r (.mLock .unreg)) with rclosed := upd s.rclosed r true }

def stepQDrop (s : State) (t r : Nat) : State :=
  if s.pdropped then s.goR t r (.rcv r (.qHead .isClosed)) else s.goR t r (.ret (.bool false))

def stepQHead (s : State) (t r : Nat) (p : RProbe) : State := s.goR t r (.rcv r (.qCur p s.head))

def stepQCur (s : State) (t r : Nat) (p : RProbe) (h : Nat) : State :=
  s.goR t r (.ret (rProbeRes p s.cap h (s.cur r)))

/-- the next action of a thread inside an operation on the receiver handle with cell `r` -/
def actR (s : State) (t r : Nat) : RPC → Option State
  | .rFlag x => some (stepRFlag s t r x)
  | .rCur x => some (stepRCur s t r x)
  | .rSeq x c => some (stepRSeq s t r x c)
  | .rVal x c => some (stepRVal s t r x c)
  | .rSt _ c vs => some (stepRSt s t r c vs)
  | .rDrop x c => some (stepRDrop s t r x c)
  | .rHead x c => some (stepRHead s t r x c)
  | .bHd x c => some (stepBHd s t r x c)
  | .bDrop x c => some (stepBDrop s t r x c)
  | .bHd2 x c => some (stepBHd2 s t r x c)
  | .bVals x c k => some (stepBVals s t r x c k)
  | .gCur x => some (stepGCur s t r x)
  | .gLock x c => stepGLock s t r x c
  | .gUnlock x c => some (stepGUnlock s t r x c)
  | .eDrop x => some (stepEDrop s t r x)
  | .eHead x => some (stepEHead s t r x)
  | .eCur x h => some (stepECur s t r x h)
  | .eLock x c => stepELock s t r x c
  | .eUnlock _ c => some (stepEUnlock s t r c)
  | .kPark x => stepKPark s t r x
  | .kCur x => some (stepKCur s t r x)
  | .wpFence k => some (stepWpFence s t r k)
  | .wpLoad k => some (stepWpLoad s t r k)
  | .wpCas k => some (stepWpCas s t r k)
  | .wpIdle k th => some (stepWpIdle s t r k th)
  | .wpUnpark k th => some (stepWpUnpark s t r k th)
  | .cCur => some (stepCCur s t r)
  | .mLock k => stepMLock s t r k
  | .mMod k p => stepMMod s t r k p
  | .mUnlock k => some (stepMUnlock s t r k)
  | .xFlag d => some (stepXFlag s t r d)
  | .qDrop => some (stepQDrop s t r)
  | .qHead p => some (stepQHead s t r p)
  | .qCur p h => some (stepQCur s t r p h)

/-- the next action of thread `t` -/
def act (s : State) (t : Nat) : Option State :=
  match s.pc t with
  | .idle => none
  | .ret _ => none
  | .snd p => actS s t p
  | .rcv r p => actR s t r p

/-! ### the visible action of each control state (kind, object, memory ordering, values)

Compared line by line with the implementation's action log by `Fv.Driver.SpmcB`. Orderings are the
ones the code passes (`src/spmc/ring_buffer.rs`, `src/internal/left_right.rs`); they carry no
semantics here. `none` = the step is one of the non-atomic (silent) accesses. -/

inductive Obj where
  | seq (j : Nat) | head | live | readers (i : Nat) | flag | pdropped | cell (r : Nat)
  | sclosed | rclosed (r : Nat) | wkMx (j : Nat) | wlock | tailsMx | thread (t : Nat) | none
deriving DecidableEq, Repr

inductive AK where
  | load | store | swap | cas | fadd | fsub | fence | lock | unlock | park | unpark | spin
deriving DecidableEq, Repr

inductive Ord where
  | rlx | acq | rel | acqrel | sc | na
deriving DecidableEq, Repr

structure Act where
  kind : AK
  obj : Obj := .none
  ord : Ord := .na
  ordF : Ord := .na          -- failure ordering of a CAS
  old : Nat := 0
  new : Nat := 0
  ok : Bool := true
deriving DecidableEq, Repr

def b2n (b : Bool) : Nat := if b then 1 else 0

/-- the action of an embedded left-right control state -/
def lrAct (sh : LSh) : LPC → Option Act
  | .rLoad => some { kind := .load, obj := .live, ord := .sc, old := sh.live, new := sh.live }
  | .rInc i => some { kind := .fadd, obj := .readers i, ord := .sc, old := sh.readers i, new := sh.readers i + 1 }
  | .rChk _ => some { kind := .load, obj := .live, ord := .sc, old := sh.live, new := sh.live }
  | .rBack i => some { kind := .fsub, obj := .readers i, ord := .sc, old := sh.readers i, new := sh.readers i - 1 }
  | .rHold i _ => some { kind := .fsub, obj := .readers i, ord := .sc, old := sh.readers i, new := sh.readers i - 1 }
  | .wLock _ => some { kind := .lock, obj := .wlock }
  | .wLoad _ => some { kind := .load, obj := .live, ord := .sc, old := sh.live, new := sh.live }
  | .wPub _ l => some { kind := .store, obj := .live, ord := .sc, old := sh.live, new := 1 - l }
  | .wWait _ l => some { kind := .load, obj := .readers l, ord := .sc, old := sh.readers l, new := sh.readers l }
  | .wSpin _ _ => some { kind := .spin }
  | .wUnlock => some { kind := .unlock, obj := .wlock }
  | _ => none

def casAct (obj : Obj) (cur exp new : Nat) (ordS ordF : Ord) : Act :=
  if cur = exp then { kind := .cas, obj := obj, ord := ordS, ordF := ordF, old := cur, new := new, ok := true }
  else { kind := .cas, obj := obj, ord := ordS, ordF := ordF, old := cur, new := cur, ok := false }

def actInfoS (s : State) : SPC → Option Act
  | .sFlag _ => some { kind := .load, obj := .sclosed, ord := .rlx, old := b2n s.sclosed, new := b2n s.sclosed }
  | .sHead _ => some { kind := .load, obj := .head, ord := .rlx, old := s.head, new := s.head }
  | .sEnter _ _ p => lrAct s.lr p
  | .sScan _ _ _ _ todo _ =>
    match todo with
    | r :: _ => some { kind := .load, obj := .cell r, ord := .acq, old := s.cur r, new := s.cur r }
    | [] => none
  | .sHead2 _ _ _ _ => some { kind := .load, obj := .head, ord := .rlx, old := s.head, new := s.head }
  | .sExit _ _ i L _ => lrAct s.lr (.rHold i L)
  | .bHead _ _ => some { kind := .load, obj := .head, ord := .rlx, old := s.head, new := s.head }
  | .wSeqLd _ h j _ => some { kind := .load, obj := .seq ((h + j) % s.cap), ord := .rlx,
                              old := s.seq ((h + j) % s.cap), new := s.seq ((h + j) % s.cap) }
  | .wVal _ _ _ _ _ => none
  | .wSeqSt _ h j _ => some { kind := .store, obj := .seq ((h + j) % s.cap), ord := .rel,
                              old := s.seq ((h + j) % s.cap), new := 2 * (h + j) + 1 }
  | .wHeadSt _ h k => some { kind := .store, obj := .head, ord := .rel, old := s.head, new := h + k }
  | .wLockW _ h j _ _ => some { kind := .lock, obj := .wkMx ((h + j) % s.cap) }
  | .wUnlockW _ h j _ _ => some { kind := .unlock, obj := .wkMx ((h + j) % s.cap) }
  | .wWake _ _ acc =>
    match acc with
    | w :: _ => some { kind := .unpark, obj := .thread w, old := b2n (s.token w), new := 1 }
    | [] => none
  | .slHead _ => some { kind := .load, obj := .head, ord := .rlx, old := s.head, new := s.head }
  | .aStore _ => some { kind := .store, obj := .flag, ord := .rel, old := s.flag, new := 1 }
  | .aFence _ => some { kind := .fence, ord := .sc }
  | .dCas _ => some (casAct .flag s.flag 1 0 .acqrel .acq)
  | .dSpin _ => some { kind := .spin }
  | .dLoad _ => some { kind := .load, obj := .flag, ord := .acq, old := s.flag, new := s.flag }
  | .dSpin2 _ => some { kind := .spin }
  | .pPark _ => some { kind := .park, old := 1, new := 0 }
  | .pHead _ => some { kind := .load, obj := .head, ord := .rlx, old := s.head, new := s.head }
  | .pLoad _ => some { kind := .load, obj := .flag, ord := .acq, old := s.flag, new := s.flag }
  | .pCas _ => some (casAct .flag s.flag 1 0 .acqrel .acq)
  | .pSpin _ => some { kind := .spin }
  | .cFlag isDrop =>
    if isDrop then some { kind := .swap, obj := .sclosed, ord := .acqrel, old := b2n s.sclosed, new := 1 }
    else some (casAct .sclosed (b2n s.sclosed) 0 1 .acqrel .rlx)
  | .cStore => some { kind := .store, obj := .pdropped, ord := .rel, old := b2n s.pdropped, new := 1 }
  | .cLock j => some { kind := .lock, obj := .wkMx j }
  | .cWake _ ws =>
    match ws with
    | w :: _ => some { kind := .unpark, obj := .thread w, old := b2n (s.token w), new := 1 }
    | [] => none
  | .cUnlock j => some { kind := .unlock, obj := .wkMx j }

def actInfoR (s : State) (r : Nat) : RPC → Option Act
  | .rFlag _ => some { kind := .load, obj := .rclosed r, ord := .rlx, old := b2n (s.rclosed r), new := b2n (s.rclosed r) }
  | .rCur _ => some { kind := .load, obj := .cell r, ord := .rlx, old := s.cur r, new := s.cur r }
  | .rSeq _ c => some { kind := .load, obj := .seq (c % s.cap), ord := .acq, old := s.seq (c % s.cap), new := s.seq (c % s.cap) }
  | .rVal _ _ => none
  | .rSt _ c vs => some { kind := .store, obj := .cell r, ord := .rel, old := s.cur r, new := c + vs.length }
  | .rDrop _ _ => some { kind := .load, obj := .pdropped, ord := .acq, old := b2n s.pdropped, new := b2n s.pdropped }
  | .rHead _ _ => some { kind := .load, obj := .head, ord := .acq, old := s.head, new := s.head }
  | .bHd _ _ => some { kind := .load, obj := .head, ord := .acq, old := s.head, new := s.head }
  | .bDrop _ _ => some { kind := .load, obj := .pdropped, ord := .acq, old := b2n s.pdropped, new := b2n s.pdropped }
  | .bHd2 _ _ => some { kind := .load, obj := .head, ord := .acq, old := s.head, new := s.head }
  | .bVals _ _ _ => none
  | .gCur _ => some { kind := .load, obj := .cell r, ord := .rlx, old := s.cur r, new := s.cur r }
  | .gLock _ c => some { kind := .lock, obj := .wkMx (c % s.cap) }
  | .gUnlock _ c => some { kind := .unlock, obj := .wkMx (c % s.cap) }
  | .eDrop _ => some { kind := .load, obj := .pdropped, ord := .acq, old := b2n s.pdropped, new := b2n s.pdropped }
  | .eHead _ => some { kind := .load, obj := .head, ord := .acq, old := s.head, new := s.head }
  | .eCur _ _ => some { kind := .load, obj := .cell r, ord := .rlx, old := s.cur r, new := s.cur r }
  | .eLock _ c => some { kind := .lock, obj := .wkMx (c % s.cap) }
  | .eUnlock _ c => some { kind := .unlock, obj := .wkMx (c % s.cap) }
  | .kPark _ => some { kind := .park, old := 1, new := 0 }
  | .kCur _ => some { kind := .load, obj := .cell r, ord := .rlx, old := s.cur r, new := s.cur r }
  | .wpFence _ => some { kind := .fence, ord := .sc }
  | .wpLoad _ => some { kind := .load, obj := .flag, ord := .acq, old := s.flag, new := s.flag }
  | .wpCas _ => some (casAct .flag s.flag 1 2 .acqrel .acq)
  | .wpIdle _ _ => some { kind := .store, obj := .flag, ord := .rel, old := s.flag, new := 0 }
  | .wpUnpark _ th => some { kind := .unpark, obj := .thread th, old := b2n (s.token th), new := 1 }
  | .cCur => some { kind := .load, obj := .cell r, ord := .acq, old := s.cur r, new := s.cur r }
  | .mLock _ => some { kind := .lock, obj := .tailsMx }
  | .mMod _ p => lrAct s.lr p
  | .mUnlock _ => some { kind := .unlock, obj := .tailsMx }
  | .xFlag isDrop =>
    if isDrop then some { kind := .swap, obj := .rclosed r, ord := .acqrel, old := b2n (s.rclosed r), new := 1 }
    else some (casAct (.rclosed r) (b2n (s.rclosed r)) 0 1 .acqrel .rlx)
  | .qDrop => some { kind := .load, obj := .pdropped, ord := .acq, old := b2n s.pdropped, new := b2n s.pdropped }
  | .qHead _ => some { kind := .load, obj := .head, ord := .acq, old := s.head, new := s.head }
  | .qCur _ _ => some { kind := .load, obj := .cell r, ord := .acq, old := s.cur r, new := s.cur r }

/-- the visible action thread `t` performs next (`none`: silent step, or not inside an operation) -/
def actInfo (s : State) (t : Nat) : Option Act :=
  match s.pc t with
  | .snd p => actInfoS s p
  | .rcv r p => actInfoR s r p
  | _ => none

/-- a thread that is not inside an operation -/
def isFree : PC → Bool
  | .idle => true
  | .ret _ => true
  | _ => false

def sendCtx (items : List Nat) (batch blk : Bool) : SCtx := { items := items, done := 0, batch := batch, blk := blk }

/-- the environment starts an operation of the sender handle on thread `t` -/
def callS (s : State) (t : Nat) (p : PC) : State := { s with sOwner := some t, pc := upd s.pc t p }

def callR (s : State) (t r : Nat) (p : RPC) : State :=
  { s with rOwner := upd s.rOwner r (some t), pc := upd s.pc t (.rcv r p) }

def sFreeH (s : State) : Bool := s.sAlive && s.sOwner.isNone
def rFreeH (s : State) (r : Nat) : Bool := s.rAlive r && (s.rOwner r).isNone

def stepCall (s : State) (t : Nat) (op : Op) : Option State :=
  if isFree (s.pc t) && !s.torn then
    match op with
    | .send v => if sFreeH s then some (callS s t (.snd (.sFlag (sendCtx [v] false true)))) else none
    | .trySend v => if sFreeH s then some (callS s t (.snd (.sFlag (sendCtx [v] false false)))) else none
    | .sendBatch vs blk =>
      if sFreeH s then
        if vs.isEmpty then some { s with pc := upd s.pc t (.ret (.sBatch 0 false)) }
        else some (callS s t (.snd (.sFlag (sendCtx vs true blk))))
      else none
    | .sClose => if sFreeH s then some (callS s t (.snd (.cFlag false))) else none
    | .sDrop => if sFreeH s then some { callS s t (.snd (.cFlag true)) with sAlive := false } else none
    | .sProbe p =>
      if sFreeH s then
        some (callS s t (if p = .isClosed then .snd (.sEnter (.probe p) 0 .rLoad) else .snd (.sHead (.probe p))))
      else none
    | .sConv =>
      if sFreeH s then
        some { s with sclosed := false, taint := s.taint || s.sclosed, pc := upd s.pc t (.ret .unit) }
      else none
    | .recv r kind max =>
      if rFreeH s r then
        if max = some 0 then some { s with pc := upd s.pc t (.ret (.rOk [])) }
        else some (callR s t r (.rFlag { kind := kind, max := max, reg := false }))
      else none
    | .clone r =>
      if rFreeH s r then some { callR s t r .cCur with taint := s.taint || s.rclosed r } else none
    | .rClose r => if rFreeH s r then some (callR s t r (.xFlag false)) else none
    | .rDrop r =>
      if rFreeH s r then some { callR s t r (.xFlag true) with rAlive := upd s.rAlive r false } else none
    | .rProbe r p =>
      if rFreeH s r then some (callR s t r (if p = .isClosed then .qDrop else .qHead p)) else none
    | .rConv r =>
      if rFreeH s r then
        some { s with rclosed := upd s.rclosed r false, taint := s.taint || s.rclosed r, pc := upd s.pc t (.ret .unit) }
      else none
  else none

/-- `park` returns without a token (std permits it; the shim never does it) -/
def stepSpurious (s : State) (t : Nat) : Option State :=
  match s.pc t with
  | .snd (.pPark x) => some (s.goS t (afterPark x))
  | .rcv r (.kPark x) => some (s.goR t r (afterRPark r x))
  | _ => none

/-- indices dropped by `Slot::drop` for slots `j, j+1, …` (`fuel` slots) -/
def slotDrops (seq : Nat → Nat) (j : Nat) : Nat → List Nat
  | 0 => []
  | fuel + 1 => (if seq j % 2 = 1 then [seq j / 2] else []) ++ slotDrops seq (j + 1) fuel

/-- the last `Arc<SpmcShared>` goes away: every handle is dropped and no operation is running -/
def stepTeardown (s : State) : Option State :=
  if !s.torn && !s.sAlive && s.sOwner.isNone
      && (List.range s.nextCell).all (fun r => !s.rAlive r && (s.rOwner r).isNone) then
    some { s with torn := true, dropped := s.dropped ++ slotDrops s.seq 0 s.cap }
  else none

inductive Label where
  | call (op : Op)
  | act
  | spurious
  | teardown
deriving DecidableEq, Repr

def step (s : State) (t : Nat) : Label → Option State
  | .call op => stepCall s t op
  | .act => act s t
  | .spurious => stepSpurious s t
  | .teardown => stepTeardown s

def run (s : State) : List (Nat × Label) → Option State
  | [] => some s
  | (t, l) :: rest => (step s t l).bind (fun s' => run s' rest)

inductive Reach (cap : Nat) : State → Prop where
  | init : Reach cap (init cap)
  | step {s s' t l} : Reach cap s → step s t l = some s' → Reach cap s'

end Fv.Chan.SpmcB
