import Fv.Cache.Conc
/-! Basic lemmas for the concurrent cache model `Fv.Cache.Conc`: function update, finite sums,
the register replay, `removeKeys`. -/
namespace Fv.Cache.Conc

@[simp] theorem upd_same {α} (f : Nat → α) (i : Nat) (a : α) : upd f i a i = a := by simp [upd]
theorem upd_other {α} (f : Nat → α) (i j : Nat) (a : α) (h : j ≠ i) : upd f i a j = f j := by simp [upd, h]
theorem upd_apply {α} (f : Nat → α) (i j : Nat) (a : α) : upd f i a j = if j = i then a else f j := rfl

theorem step_step0 {c : Cfg} {s s' : State} {t : Nat} {l : Label} (h : step c s t l = some s') :
    step0 c s t l = some s' := by
  unfold step at h
  split at h
  · simp at h
  · exact h

/-! ### sums -/

@[simp] theorem sumF_nil (f : Nat → Int) : sumF [] f = 0 := rfl
@[simp] theorem sumF_cons (a : Nat) (l : List Nat) (f : Nat → Int) : sumF (a :: l) f = f a + sumF l f := rfl

theorem sumF_congr {l : List Nat} {f g : Nat → Int} (h : ∀ i ∈ l, f i = g i) : sumF l f = sumF l g := by
  induction l with
  | nil => rfl
  | cons a l ih =>
    simp only [sumF_cons]
    rw [h a (by simp), ih (fun i hi => h i (by simp [hi]))]

theorem sumF_upd_of_not_mem {l : List Nat} {f : Nat → Int} {i : Nat} {a : Int} (h : i ∉ l) :
    sumF l (upd f i a) = sumF l f := by
  apply sumF_congr
  intro j hj
  have : j ≠ i := fun e => h (e ▸ hj)
  simp [upd, this]

theorem sumF_upd_of_mem {l : List Nat} {f : Nat → Int} {i : Nat} {a : Int} (hn : l.Nodup) (h : i ∈ l) :
    sumF l (upd f i a) = sumF l f - f i + a := by
  induction l with
  | nil => simp at h
  | cons b l ih =>
    simp only [sumF_cons]
    rw [List.nodup_cons] at hn
    by_cases hb : i = b
    · subst hb
      rw [sumF_upd_of_not_mem hn.1]; simp [upd]; omega
    · have hi : i ∈ l := by simpa [hb] using h
      rw [ih hn.2 hi]
      have : b ≠ i := fun e => hb e.symm
      simp [upd, this]; omega

theorem sumF_zero {l : List Nat} {f : Nat → Int} (h : ∀ i ∈ l, f i = 0) : sumF l f = 0 := by
  induction l with
  | nil => rfl
  | cons a l ih => simp only [sumF_cons]; rw [h a (by simp), ih (fun i hi => h i (by simp [hi]))]; rfl

theorem nodup_range (n : Nat) : (List.range n).Nodup := List.nodup_range

/-! ### register replay -/

theorem regOf_append (r : Reg) (h1 h2 : List HEv) : regOf r (h1 ++ h2) = regOf (regOf r h1) h2 := by
  simp [regOf, List.foldl_append]

@[simp] theorem regOf_nil (r : Reg) : regOf r [] = r := rfl
@[simp] theorem regOf_cons (r : Reg) (e : HEv) (h : List HEv) : regOf r (e :: h) = regOf (applyEv r e) h := rfl

theorem histOk_append (r : Reg) (h1 h2 : List HEv) :
    histOk r (h1 ++ h2) = (histOk r h1 && histOk (regOf r h1) h2) := by
  induction h1 generalizing r with
  | nil => simp [histOk]
  | cons e es ih => simp [histOk, ih, Bool.and_assoc]

theorem vals_upd (m : Nat → Option Entry) (k : Nat) (e : Option Entry) :
    vals (upd m k e) = upd (vals m) k (e.map (·.val)) := by
  funext j; simp only [vals, upd]; split <;> rfl

theorem vals_none : vals (fun _ => none) = fun _ => none := rfl

/-! ### removeKeys -/

theorem removeKeys_spec (nsh sh t : Nat) (ks : List Nat) (m : Nat → Option Entry) :
    histOk (vals m) (forgetEvs t (removeKeys nsh sh m ks).2) = true ∧
    regOf (vals m) (forgetEvs t (removeKeys nsh sh m ks).2) = vals (removeKeys nsh sh m ks).1 := by
  induction ks generalizing m with
  | nil => simp [removeKeys, forgetEvs, histOk]
  | cons k ks ih =>
    simp only [removeKeys]
    split
    · rename_i e he
      have hk : m k = some e := by
        split at he
        · exact he
        · simp at he
      obtain ⟨i1, i2⟩ := ih (upd m k none)
      simp only [forgetEvs, List.map_cons, histOk, regOf_cons, applyEv, evOk] at *
      rw [vals_upd] at i1 i2
      simp only [Option.map_none] at i1 i2
      refine ⟨?_, i2⟩
      simp [vals, hk]
      exact i1
    · exact ih m

theorem removeKeys_none (nsh sh : Nat) (ks : List Nat) (m : Nat → Option Entry) (j : Nat) (h : m j = none) :
    (removeKeys nsh sh m ks).1 j = none := by
  induction ks generalizing m with
  | nil => simpa [removeKeys]
  | cons k ks ih =>
    simp only [removeKeys]
    split
    · apply ih; simp [upd_apply]; intro _; exact h
    · exact ih m h

/-- accounting effect of `removeKeys` on a sum over a duplicate-free list covering the support -/
theorem removeKeys_cost (nsh sh : Nat) (ks : List Nat) (m : Nat → Option Entry) (dom : List Nat)
    (hn : dom.Nodup) (hd : ∀ k, m k ≠ none → k ∈ dom) :
    sumF dom (fun k => costAt ((removeKeys nsh sh m ks).1 k)) =
      sumF dom (fun k => costAt (m k)) - removedCost (removeKeys nsh sh m ks).2 := by
  induction ks generalizing m with
  | nil => simp [removeKeys, removedCost]
  | cons k ks ih =>
    simp only [removeKeys]
    split
    · rename_i e he
      have hk : m k = some e := by
        split at he
        · exact he
        · simp at he
      have hkd : k ∈ dom := hd k (by simp [hk])
      have := ih (upd m k none) (by
        intro j hj; apply hd; intro h0; apply hj; simp [upd_apply]; intro _; exact h0)
      simp only [removedCost]
      rw [this]
      have e1 : (fun j => costAt (upd m k none j)) = upd (fun j => costAt (m j)) k 0 := by
        funext j; simp only [upd]; split <;> rfl
      rw [e1, sumF_upd_of_mem hn hkd]
      simp [hk, costAt]; omega
    · exact ih m hd

theorem mkNotes_length (rid : Nat) (w : Reason) (r : List (Nat × Entry)) : (mkNotes rid w r).length = r.length := by
  induction r generalizing rid with
  | nil => rfl
  | cons p r ih => obtain ⟨k, e⟩ := p; simp [mkNotes, ih]

theorem mkNotes_rid (rid : Nat) (w : Reason) (r : List (Nat × Entry)) :
    ∀ n ∈ mkNotes rid w r, rid ≤ n.rid ∧ n.rid < rid + r.length := by
  induction r generalizing rid with
  | nil => simp [mkNotes]
  | cons p r ih =>
    obtain ⟨k, e⟩ := p
    intro n hn
    simp only [mkNotes, List.mem_cons] at hn
    rcases hn with rfl | hn
    · simp
    · have := ih (rid + 1) n hn; simp; omega

theorem mkNotes_nodup (rid : Nat) (w : Reason) (r : List (Nat × Entry)) :
    ((mkNotes rid w r).map (·.rid)).Nodup := by
  induction r generalizing rid with
  | nil => simp [mkNotes]
  | cons p r ih =>
    obtain ⟨k, e⟩ := p
    simp only [mkNotes, List.map_cons, List.nodup_cons]
    refine ⟨?_, ih (rid + 1)⟩
    intro hm
    rw [List.mem_map] at hm
    obtain ⟨n, hn, e⟩ := hm
    have := mkNotes_rid (rid + 1) w r n hn
    omega

end Fv.Cache.Conc
