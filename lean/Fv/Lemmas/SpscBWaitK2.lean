import Fv.Lemmas.SpscBWaitK
/-! Preservation of the handshake invariant `WK` (part 2). -/
namespace Fv.Chan.SpscB

attribute [local grind =] upd_apply
attribute [local grind] owesNf dropSec okAt inNotify isRet
attribute [local grind cases] Role

syntax "wk_step2 " ident ident ident ident ident ident ident " [" Lean.Parser.Tactic.simpLemma,* "]" : tactic
macro_rules
  | `(tactic| wk_step2 $hc $hr $ha $hw $hd $hi $h [$ls,*]) => `(tactic| (
  obtain ⟨kp1, kp2, kc1, kc2⟩ := $hi
  have ok := CInv.ok $hc
  have gq := CInv.goneQuiet $hc
  have dO := CInv.drnOther $hc
  have pLh := RInv.pushLh $hr
  have pLt := RInv.popLt $hr
  have b1 := WA.b1' $ha
  have c8 := WC.c8 $hw
  have d2 := WD.d2 $hd
  simp only [$ls,*, setLoc, afterWake, afterClose] at $h:ident
  repeat' split at $h:ident
  all_goals (first | (simp at $h:ident <;> try subst $h:ident) | skip)
  all_goals (refine ⟨?_, ?_, ?_, ?_⟩ <;>
    (dsimp only; (try simp only [afterNotify, afterUnreg, afterPush, afterPop, loopTop, waitStep]); grind))))

set_option maxHeartbeats 4000000 in
theorem wk_unpark {s s' : State} {r : Role} (hc : CInv s) (hr : RInv s) (ha : WA s) (hw : WC s) (hd : WD s) (hi : WK s)
    (h : stepUnpark s r = some s') : WK s' := by
  cases r <;> wk_step2 hc hr ha hw hd hi h [stepUnpark]

set_option maxHeartbeats 4000000 in
theorem wk_park {s s' : State} {r : Role} (hc : CInv s) (hr : RInv s) (ha : WA s) (hw : WC s) (hd : WD s) (hi : WK s)
    (h : stepPark s r = some s') : WK s' := by
  cases r <;> wk_step2 hc hr ha hw hd hi h [stepPark]

set_option maxHeartbeats 4000000 in
theorem wk_spurious {s s' : State} {r : Role} (hc : CInv s) (hr : RInv s) (ha : WA s) (hw : WC s) (hd : WD s) (hi : WK s)
    (h : stepSpurious s r = some s') : WK s' := by
  cases r <;> wk_step2 hc hr ha hw hd hi h [stepSpurious]

set_option maxHeartbeats 4000000 in
theorem wk_swapFlag {s s' : State} {r : Role} (hc : CInv s) (hr : RInv s) (ha : WA s) (hw : WC s) (hd : WD s) (hi : WK s)
    (h : stepSwapFlag s r = some s') : WK s' := by
  cases r <;> wk_step2 hc hr ha hw hd hi h [stepSwapFlag]

set_option maxHeartbeats 4000000 in
theorem wk_spin {s s' : State} {r : Role} (hc : CInv s) (hr : RInv s) (ha : WA s) (hw : WC s) (hd : WD s) (hi : WK s)
    (h : stepSpin s r = some s') : WK s' := by
  cases r <;> wk_step2 hc hr ha hw hd hi h [stepSpin]

set_option maxHeartbeats 4000000 in
theorem wk_deadline {s s' : State} {r : Role} (hc : CInv s) (hr : RInv s) (ha : WA s) (hw : WC s) (hd : WD s) (hi : WK s)
    (h : stepDeadline s r = some s') : WK s' := by
  cases r <;> wk_step2 hc hr ha hw hd hi h [stepDeadline]

set_option maxHeartbeats 4000000 in
theorem wk_ldClosed {s s' : State} {r : Role} (hc : CInv s) (hr : RInv s) (ha : WA s) (hw : WC s) (hd : WD s) (hi : WK s)
    (h : stepLdClosed s r = some s') : WK s' := by
  cases r <;> wk_step2 hc hr ha hw hd hi h [stepLdClosed]

set_option maxHeartbeats 4000000 in
theorem wk_ldDropped {s s' : State} {r : Role} (hc : CInv s) (hr : RInv s) (ha : WA s) (hw : WC s) (hd : WD s) (hi : WK s)
    (h : stepLdDropped s r = some s') : WK s' := by
  cases r <;> wk_step2 hc hr ha hw hd hi h [stepLdDropped]

set_option maxHeartbeats 4000000 in
theorem wk_ldCount {s s' : State} {r : Role} (hc : CInv s) (hr : RInv s) (ha : WA s) (hw : WC s) (hd : WD s) (hi : WK s)
    (h : stepLdCount s r = some s') : WK s' := by
  cases r <;> wk_step2 hc hr ha hw hd hi h [stepLdCount]

set_option maxHeartbeats 4000000 in
theorem wk_casClosed {s s' : State} {r : Role} (hc : CInv s) (hr : RInv s) (ha : WA s) (hw : WC s) (hd : WD s) (hi : WK s)
    (h : stepCasClosed s r = some s') : WK s' := by
  cases r <;> wk_step2 hc hr ha hw hd hi h [stepCasClosed]

set_option maxHeartbeats 4000000 in
theorem wk_swapClosed {s s' : State} {r : Role} (hc : CInv s) (hr : RInv s) (ha : WA s) (hw : WC s) (hd : WD s) (hi : WK s)
    (h : stepSwapClosed s r = some s') : WK s' := by
  cases r <;> wk_step2 hc hr ha hw hd hi h [stepSwapClosed]

set_option maxHeartbeats 4000000 in
theorem wk_stDropped {s s' : State} {r : Role} (hc : CInv s) (hr : RInv s) (ha : WA s) (hw : WC s) (hd : WD s) (hi : WK s)
    (h : stepStDropped s r = some s') : WK s' := by
  cases r <;> wk_step2 hc hr ha hw hd hi h [stepStDropped]

set_option maxHeartbeats 4000000 in
theorem wk_subCount {s s' : State} {r : Role} (hc : CInv s) (hr : RInv s) (ha : WA s) (hw : WC s) (hd : WD s) (hi : WK s)
    (h : stepSubCount s r = some s') : WK s' := by
  cases r <;> wk_step2 hc hr ha hw hd hi h [stepSubCount]

end Fv.Chan.SpscB
