import Fv.Lemmas.SpmcBSafe
/-! C09 for the broadcast ring: every payload written into the ring is dropped by the channel exactly
once — when its slot is overwritten a lap later, or by `Slot::drop` at teardown (odd sequence). -/
namespace Fv.Chan.SpmcB
open Fv.Chan.LeftRightB (upd upd_apply upd_same)

/-- indices whose payload the channel has dropped so far: everything more than a lap behind -/
def DropInv (s : State) : Prop :=
  s.torn = false → s.dropped = List.range (s.sent.length + (if s.dirty then 1 else 0) - s.cap)

/-- the fields `DropInv` reads -/
def dkey (s : State) : List Nat × Nat × Nat × Bool :=
  (s.dropped, s.sent.length + (if s.dirty then 1 else 0), s.cap, s.torn)

theorem dropInv_of_dkey {s s' : State} (h : DropInv s) (e : dkey s' = dkey s) : DropInv s' := by
  simp only [dkey, Prod.mk.injEq] at e
  obtain ⟨e1, e2, e3, e4⟩ := e
  intro ht; rw [e4] at ht; rw [e1, e2, e3]; exact h ht

theorem actS_dkey {s s' : State} {t : Nat} {p : SPC} (hs : Safe s) (hq : s.pc t = .snd p) (h : actS s t p = some s')
    (hnv : ∀ x h0 j k q, p ≠ .wVal x h0 j k q) : dkey s' = dkey s := by
  cases p <;> simp only [actS] at h
  case wVal x h0 j k q => exact absurd rfl (hnv x h0 j k q)
  case wSeqSt x h0 j k =>
    cases h
    have hf := hs.sf t _ hq
    simp only [sFact] at hf
    have hd : s.dirty = true := hf.2.2.2.2.1
    simp only [dkey, stepWSeqSt, State.goS, List.length_append, List.length_singleton, hd, if_true]
    simp
  case sEnter k h0 p => unfold stepSEnter at h; repeat' split at h
                        all_goals (cases h; try rfl)
  case sScan k h0 i done todo m => unfold stepSScan at h; repeat' split at h
                                   all_goals (cases h; try rfl)
  case sExit k h0 i L m => unfold stepSExit at h; repeat' split at h
                           all_goals (cases h; try rfl)
  case wLockW x h0 j k acc => unfold stepWLockW at h; split at h <;> cases h; rfl
  case wWake x k acc => unfold stepWWake at h; split at h <;> cases h; rfl
  case pPark x => unfold stepPPark at h; split at h <;> cases h; rfl
  case cLock j => unfold stepCLock at h; split at h <;> cases h; rfl
  case cWake j ws => unfold stepCWake at h; split at h <;> cases h; rfl
  case sFlag x => cases h; unfold stepSFlag; split <;> rfl
  case wUnlockW x h0 j k acc => cases h; rfl
  case dCas d => cases h; unfold stepDCas; repeat' split
                 all_goals rfl
  case dLoad x => cases h; unfold stepDLoad; split <;> rfl
  case pLoad x => cases h; unfold stepPLoad; repeat' split
                  all_goals rfl
  case pCas x => cases h; unfold stepPCas; split <;> rfl
  case cFlag d => cases h; unfold stepCFlag; split <;> rfl
  case cUnlock j => cases h; rfl
  all_goals (cases h; rfl)

theorem actR_dkey {s s' : State} {t r : Nat} {p : RPC} (h : actR s t r p = some s') : dkey s' = dkey s := by
  cases p <;> simp only [actR] at h
  case gLock x c => unfold stepGLock at h; split at h <;> cases h; rfl
  case eLock x c => unfold stepELock at h; split at h <;> cases h; rfl
  case kPark x => unfold stepKPark at h; split at h <;> cases h; rfl
  case mLock k => unfold stepMLock at h; split at h <;> cases h; rfl
  case mMod k p => unfold stepMMod at h; repeat' split at h
                   all_goals (cases h; try rfl)
  case rFlag x => cases h; unfold stepRFlag; split <;> rfl
  case rCur x => cases h; unfold stepRCur; split <;> rfl
  case rSeq x c => cases h; unfold stepRSeq; split <;> rfl
  case rDrop x c => cases h; unfold stepRDrop; split <;> rfl
  case rHead x c => cases h; unfold stepRHead; split <;> rfl
  case bHd x c => cases h; unfold stepBHd; split <;> rfl
  case bDrop x c => cases h; unfold stepBDrop; split <;> rfl
  case bHd2 x c => cases h; unfold stepBHd2; split <;> rfl
  case eDrop x => cases h; unfold stepEDrop; split <;> rfl
  case eCur x h0 => cases h; unfold stepECur; repeat' split
                    all_goals rfl
  case wpLoad k => cases h; unfold stepWpLoad; split <;> rfl
  case wpCas k => cases h; unfold stepWpCas; split <;> rfl
  case wpIdle k th => cases h; unfold stepWpIdle; split <;> rfl
  case mUnlock k => cases h; unfold stepMUnlock; split <;> rfl
  case xFlag d => cases h; unfold stepXFlag; split <;> rfl
  case qDrop => cases h; unfold stepQDrop; split <;> rfl
  all_goals (cases h; rfl)

/-- the slot write drops exactly the payload that is a lap behind (if there is one) -/
theorem dropInv_wVal {s : State} (hs : Safe s) (hd : DropInv s) {t : Nat} {x : SCtx} {h0 j k q : Nat}
    (hq : s.pc t = .snd (.wVal x h0 j k q)) : DropInv (stepWVal s t x h0 j k q) := by
  have hf := hs.sf t _ hq
  simp only [sFact] at hf
  obtain ⟨_, f2, _, _, f5, f6, _⟩ := hf
  have hcp : 0 < s.cap := hs.g.cap_pos
  have hN : s.sent.length = h0 + j := f2
  have hdf : s.dirty = false := f5
  have hq' : q = s.seq ((h0 + j) % s.cap) := f6
  intro ht
  have hold := hd ht
  rw [hdf] at hold; simp only [Bool.false_eq_true, if_false, Nat.add_zero] at hold
  show (if q % 2 = 1 then s.dropped ++ [q / 2] else s.dropped) = List.range (s.sent.length + (if true = true then 1 else 0) - s.cap)
  simp only [if_true]
  by_cases hge : s.cap ≤ s.sent.length
  · -- the slot holds index |sent| − cap
    have hi : s.sent.length - s.cap < s.sent.length := by omega
    have hseq := hs.g.b2s (s.sent.length - s.cap) hi (by show s.sent.length ≤ s.sent.length - s.cap + s.cap; omega)
    have hmod : (s.sent.length - s.cap) % s.cap = s.sent.length % s.cap := by
      have h1 : (s.sent.length - s.cap + s.cap) % s.cap = (s.sent.length - s.cap) % s.cap := Nat.add_mod_right _ _
      rw [Nat.sub_add_cancel hge] at h1; exact h1.symm
    have hqv : q = 2 * (s.sent.length - s.cap) + 1 := by
      rw [hq', ← hN, ← hmod]; exact hseq
    have hodd : q % 2 = 1 := by omega
    have hdiv : q / 2 = s.sent.length - s.cap := by omega
    rw [if_pos hodd, hold, hdiv]
    have : s.sent.length + 1 - s.cap = (s.sent.length - s.cap) + 1 := by omega
    rw [this, List.range_succ]
  · -- first lap: the slot is still uninitialised (even sequence)
    have hlt : s.sent.length < s.cap := by omega
    have hseq := hs.g.b2e s.sent.length hlt (Nat.le_refl _)
    have hmod : s.sent.length % s.cap = s.sent.length := Nat.mod_eq_of_lt hlt
    have hqv : q = 2 * s.sent.length := by
      rw [hq', ← hN, hmod]; exact hseq
    have heven : ¬ q % 2 = 1 := by omega
    rw [if_neg heven, hold]
    have e1 : s.sent.length - s.cap = 0 := by omega
    have e2 : s.sent.length + 1 - s.cap = 0 := by omega
    rw [e1, e2]

theorem dropInv_step {s s' : State} {t : Nat} {l : Label} (hs : Safe s) (hd : DropInv s)
    (h : step s t l = some s') : DropInv s' := by
  cases l <;> simp only [step] at h
  case call op =>
    unfold stepCall at h
    split at h
    · cases op <;> simp only [] at h
      all_goals (repeat' split at h)
      all_goals (cases h)
      all_goals exact dropInv_of_dkey hd rfl
    · cases h
  case act =>
    unfold act at h
    split at h
    · cases h
    · cases h
    · rename_i p hq
      by_cases hv : ∃ x h0 j k q, p = .wVal x h0 j k q
      · obtain ⟨x, h0, j, k, q, rfl⟩ := hv
        simp only [actS] at h; cases h
        exact dropInv_wVal hs hd hq
      · exact dropInv_of_dkey hd (actS_dkey hs hq h (fun x h0 j k q e => hv ⟨x, h0, j, k, q, e⟩))
    · exact dropInv_of_dkey hd (actR_dkey h)
  case spurious =>
    unfold stepSpurious at h
    split at h <;> cases h <;> exact dropInv_of_dkey hd rfl
  case teardown =>
    unfold stepTeardown at h
    split at h
    · cases h; intro ht; cases ht
    · cases h

theorem dropInv_reach {cap : Nat} (hc : 0 < cap) {s : State} (h : Reach cap s) (hnt : s.taint = false) : DropInv s := by
  induction h with
  | init => intro _; simp [init]
  | step hr hst ih =>
    have h0 := taint_mono hst hnt
    exact dropInv_step (safe_reach hc hr h0) (ih h0) hst


theorem mem_slotDrops (seq : Nat → Nat) (x : Nat) : ∀ (n a : Nat),
    x ∈ slotDrops seq a n ↔ ∃ j, a ≤ j ∧ j < a + n ∧ seq j % 2 = 1 ∧ seq j / 2 = x := by
  intro n
  induction n with
  | zero => intro a; simp [slotDrops]; intro j h1 h2; omega
  | succ n ih =>
    intro a
    simp only [slotDrops, List.mem_append, ih (a + 1)]
    constructor
    · rintro (h | ⟨j, h1, h2, h3, h4⟩)
      · split at h
        · rename_i ho; simp at h; exact ⟨a, Nat.le_refl _, by omega, ho, h.symm⟩
        · cases h
      · exact ⟨j, by omega, by omega, h3, h4⟩
    · rintro ⟨j, h1, h2, h3, h4⟩
      by_cases e : j = a
      · subst e; left; rw [if_pos h3]; simp [h4]
      · right; exact ⟨j, by omega, by omega, h3, h4⟩

theorem nodup_slotDrops (seq : Nat → Nat) (hinj : ∀ j1 j2, seq j1 % 2 = 1 → seq j2 % 2 = 1 → seq j1 / 2 = seq j2 / 2 → j1 = j2) :
    ∀ (n a : Nat), (slotDrops seq a n).Nodup := by
  intro n
  induction n with
  | zero => intro a; simp [slotDrops]
  | succ n ih =>
    intro a
    simp only [slotDrops]
    split
    · rename_i ho
      refine List.nodup_append.2 ⟨by simp, ih (a + 1), ?_⟩
      intro x hx y hy
      simp at hx; subst hx
      obtain ⟨j, h1, _, h3, h4⟩ := (mem_slotDrops seq y n (a + 1)).1 hy
      intro e
      have := hinj a j ho h3 (by rw [h4]; exact e)
      omega
    · simpa using ih (a + 1)

/-- **C09 (ring payloads): every value ever written into the ring is dropped by the channel exactly
once** — by the overwrite a lap later or by `Slot::drop` when the last handle goes away. After the
teardown step the list of dropped indices has no duplicate and is exactly `{0, …, |sent|-1}`. -/
theorem teardown_drops_each_once {cap : Nat} (hc : 0 < cap) {s s' : State} (h : Reach cap s) (hnt : s.taint = false)
    (ht : stepTeardown s = some s') : s'.dropped.Nodup ∧ ∀ i, i ∈ s'.dropped ↔ i < s'.sent.length := by
  have hs := safe_reach hc h hnt
  have hd := dropInv_reach hc h hnt
  unfold stepTeardown at ht
  split at ht
  · rename_i hcond
    cases ht
    simp only [Bool.and_eq_true, Bool.not_eq_true', Option.isNone_iff_eq_none] at hcond
    obtain ⟨⟨⟨htorn, _⟩, hown⟩, _⟩ := hcond
    have hidle := hs.idle hown
    have hdf : s.dirty = false := hidle.2
    have hdrop := hd htorn
    rw [hdf] at hdrop; simp only [Bool.false_eq_true, if_false, Nat.add_zero] at hdrop
    have hcp : 0 < s.cap := hs.g.cap_pos
    -- facts about odd slots
    have odd : ∀ j, j < s.cap → s.seq j % 2 = 1 →
        s.seq j / 2 < s.sent.length ∧ s.sent.length ≤ s.seq j / 2 + s.cap ∧ (s.seq j / 2) % s.cap = j := by
      intro j hj ho
      have e : s.core.seq j = s.seq j := rfl
      exact hs.g.b2r j (s.seq j / 2) hj (by rw [e]; omega)
    show (s.dropped ++ slotDrops s.seq 0 s.cap).Nodup ∧ ∀ i, i ∈ s.dropped ++ slotDrops s.seq 0 s.cap ↔ i < s.sent.length
    rw [hdrop]
    refine ⟨List.nodup_append.2 ⟨List.nodup_range, ?_, ?_⟩, ?_⟩
    · -- distinct slots hold distinct indices (restricted to slots < cap)
      have : slotDrops s.seq 0 s.cap = slotDrops (fun j => if j < s.cap then s.seq j else 0) 0 s.cap := by
        have gen : ∀ n a, a + n ≤ s.cap → slotDrops s.seq a n = slotDrops (fun j => if j < s.cap then s.seq j else 0) a n := by
          intro n; induction n with
          | zero => intro a _; rfl
          | succ n ih => intro a ha; simp only [slotDrops]; rw [ih (a + 1) (by omega), if_pos (show a < s.cap by omega)]
        exact gen s.cap 0 (by omega)
      rw [this]
      refine nodup_slotDrops _ ?_ _ _
      intro j1 j2 h1 h2 he
      by_cases c1 : j1 < s.cap
      · by_cases c2 : j2 < s.cap
        · simp only [if_pos c1, if_pos c2] at h1 h2 he
          have a1 := (odd j1 c1 h1).2.2
          have a2 := (odd j2 c2 h2).2.2
          rw [← a1, ← a2, he]
        · simp [c2] at h2
      · simp [c1] at h1
    · intro x hx y hy
      simp at hx
      obtain ⟨j, _, hj, ho, hv⟩ := (mem_slotDrops s.seq y s.cap 0).1 hy
      have := (odd j (by omega) ho).2.1
      omega
    · intro i
      simp only [List.mem_append, List.mem_range]
      constructor
      · rintro (hi | hi)
        · omega
        · obtain ⟨j, _, hj, ho, hv⟩ := (mem_slotDrops s.seq i s.cap 0).1 hi
          have := (odd j (by omega) ho).1
          omega
      · intro hi
        by_cases hw : i < s.sent.length - s.cap
        · exact Or.inl hw
        · right
          have hseq := hs.g.b2s i hi (by show s.sent.length ≤ i + s.cap; omega)
          exact (mem_slotDrops s.seq i s.cap 0).2
            ⟨i % s.cap, Nat.zero_le _, by have := Nat.mod_lt i hcp; omega, by show s.seq (i % s.cap) % 2 = 1; rw [show s.seq (i % s.cap) = 2 * i + 1 from hseq]; omega,
             by show s.seq (i % s.cap) / 2 = i; rw [show s.seq (i % s.cap) = 2 * i + 1 from hseq]; omega⟩
  · cases ht

end Fv.Chan.SpmcB
