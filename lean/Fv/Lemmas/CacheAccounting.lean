import Fv.Lemmas.CacheFrame
/-
Cost accounting of the cache model (C13): the invariant "the keys of the map are pairwise
distinct and `current_cost` equals the cost sum of the resident entries modulo 2^64" and its
preservation by every state transformer the API calls are made of.

`InvD s d` is the invariant "in progress": `current_cost = (costSum s + d) mod 2^64` — `d` is
the cost of entries that already left the map but has not been subtracted yet (the victims of an
admission-driven eviction are removed one by one, their cost is subtracted once at the end).
-/
namespace Fv.Cache
variable {P : Type}

/-! ### association lists: keys and cost sums -/
def keys (m : List (Nat × Entry)) : List Nat := m.map (·.1)
def costOf (m : List (Nat × Entry)) : Nat := (m.map (·.2.cost)).sum

@[simp] theorem keys_nil : keys [] = [] := rfl
@[simp] theorem keys_cons (p : Nat × Entry) (m : List (Nat × Entry)) : keys (p :: m) = p.1 :: keys m := rfl
@[simp] theorem costOf_nil : costOf [] = 0 := rfl
@[simp] theorem costOf_cons (p : Nat × Entry) (m : List (Nat × Entry)) : costOf (p :: m) = p.2.cost + costOf m := by
  simp [costOf]

theorem lookup_none_of_not_mem {m : List (Nat × Entry)} {k : Nat} (h : k ∉ keys m) : lookup m k = none := by
  induction m with
  | nil => rfl
  | cons p rest ih =>
    obtain ⟨k', e'⟩ := p
    simp only [keys_cons, List.mem_cons, not_or] at h
    unfold lookup
    rw [if_neg (fun hk => h.1 hk.symm)]
    exact ih h.2

theorem mem_keys_of_lookup {m : List (Nat × Entry)} {k : Nat} {e : Entry} (h : lookup m k = some e) : k ∈ keys m := by
  have := lookup_mem h
  exact List.mem_map.2 ⟨(k, e), this, rfl⟩

theorem lookup_none_iff {m : List (Nat × Entry)} {k : Nat} : lookup m k = none ↔ k ∉ keys m := by
  constructor
  · intro h hk
    induction m with
    | nil => simp at hk
    | cons p rest ih =>
      obtain ⟨k', e'⟩ := p
      unfold lookup at h
      split at h
      · cases h
      · next hne =>
        simp only [keys_cons, List.mem_cons] at hk
        rcases hk with hk | hk
        · exact hne hk.symm
        · exact ih h hk
  · exact lookup_none_of_not_mem

theorem erase_of_lookup_none {m : List (Nat × Entry)} {k : Nat} (h : lookup m k = none) : erase m k = m := by
  have hk := lookup_none_iff.1 h
  unfold erase
  apply List.filter_eq_self.2
  intro p hp
  have : p.1 ∈ keys m := List.mem_map.2 ⟨p, hp, rfl⟩
  simp only [bne_iff_ne, ne_eq]
  intro heq
  exact hk (heq ▸ this)

theorem keys_erase_sublist (m : List (Nat × Entry)) (k : Nat) : (keys (erase m k)).Sublist (keys m) := by
  unfold keys erase
  exact (List.filter_sublist).map _

theorem nodup_keys_erase {m : List (Nat × Entry)} (k : Nat) (h : (keys m).Nodup) : (keys (erase m k)).Nodup :=
  h.sublist (keys_erase_sublist m k)

theorem not_mem_keys_erase (m : List (Nat × Entry)) (k : Nat) : k ∉ keys (erase m k) := by
  intro h
  obtain ⟨p, hp, hk⟩ := List.mem_map.1 h
  unfold erase at hp
  have := (List.mem_filter.1 hp).2
  simp only [bne_iff_ne, ne_eq] at this
  exact this hk

theorem nodup_keys_put {m : List (Nat × Entry)} (k : Nat) (e : Entry) (h : (keys m).Nodup) : (keys (put m k e)).Nodup := by
  unfold put
  simp only [keys_cons]
  exact List.nodup_cons.2 ⟨not_mem_keys_erase m k, nodup_keys_erase k h⟩

theorem costOf_erase_le (m : List (Nat × Entry)) (k : Nat) : costOf (erase m k) ≤ costOf m := by
  induction m with
  | nil => exact Nat.le_refl _
  | cons p rest ih =>
    unfold erase at ih ⊢
    rw [List.filter_cons]
    split
    · simp only [costOf_cons]; omega
    · simp only [costOf_cons]; omega

/-- with distinct keys, erasing a bound key takes out exactly that entry's cost -/
theorem costOf_erase_some {m : List (Nat × Entry)} {k : Nat} {e : Entry} (hn : (keys m).Nodup)
    (hl : lookup m k = some e) : costOf (erase m k) + e.cost = costOf m := by
  induction m with
  | nil => simp [lookup] at hl
  | cons p rest ih =>
    obtain ⟨k', e'⟩ := p
    simp only [keys_cons] at hn
    have hn' := List.nodup_cons.1 hn
    unfold lookup at hl
    split at hl
    · next hk =>
      cases hl
      subst hk
      have hr : erase rest k' = rest := erase_of_lookup_none (lookup_none_of_not_mem hn'.1)
      have : erase ((k', e) :: rest) k' = erase rest k' := by
        unfold erase; rw [List.filter_cons]; simp
      rw [this, hr]; simp only [costOf_cons]; omega
    · next hk =>
      have : erase ((k', e') :: rest) k = (k', e') :: erase rest k := by
        unfold erase; rw [List.filter_cons]; simp [hk]
      rw [this]; simp only [costOf_cons]
      have := ih hn'.2 hl
      omega

theorem costOf_put_none {m : List (Nat × Entry)} {k : Nat} (e : Entry) (hl : lookup m k = none) :
    costOf (put m k e) = e.cost + costOf m := by
  unfold put; rw [erase_of_lookup_none hl]; simp

theorem costOf_put_some {m : List (Nat × Entry)} {k : Nat} {o : Entry} (e : Entry) (hn : (keys m).Nodup)
    (hl : lookup m k = some o) : costOf (put m k e) + o.cost = e.cost + costOf m := by
  unfold put; simp only [costOf_cons]
  have := costOf_erase_some hn hl
  omega

/-- rewriting a bound key with an entry of the same cost does not change the cost sum -/
theorem costOf_put_same {m : List (Nat × Entry)} {k : Nat} {o : Entry} (e : Entry) (hn : (keys m).Nodup)
    (hl : lookup m k = some o) (hc : e.cost = o.cost) : costOf (put m k e) = costOf m := by
  have := costOf_put_some e hn hl
  omega

theorem lookup_erase (m : List (Nat × Entry)) (k k' : Nat) :
    lookup (erase m k) k' = if k' = k then none else lookup m k' := by
  induction m with
  | nil => simp [erase, lookup]
  | cons p rest ih =>
    obtain ⟨a, e⟩ := p
    unfold erase at ih ⊢
    rw [List.filter_cons]
    by_cases ha : a = k
    · subst ha
      simp only [bne_self_eq_false, Bool.false_eq_true, if_false]
      rw [ih]
      by_cases hk : k' = a
      · simp [hk]
      · simp only [hk, if_false]
        conv => rhs; unfold lookup
        rw [if_neg (fun h => hk h.symm)]
    · have : ((a, e).1 != k) = true := by simp [ha]
      rw [if_pos this]
      unfold lookup
      by_cases hak : a = k'
      · subst hak; simp [ha]
      · simp only [hak, if_false]; exact ih

theorem lookup_cons (a : Nat) (e : Entry) (m : List (Nat × Entry)) (k : Nat) :
    lookup ((a, e) :: m) k = if a = k then some e else lookup m k := by
  conv => lhs; unfold lookup

theorem lookup_put (m : List (Nat × Entry)) (k k' : Nat) (e : Entry) :
    lookup (put m k e) k' = if k = k' then some e else lookup m k' := by
  unfold put
  rw [lookup_cons]
  by_cases h : k = k'
  · simp [h]
  · simp only [h, if_false]
    rw [lookup_erase, if_neg (fun hh => h hh.symm)]


theorem put_facts {m : List (Nat × Entry)} (k : Nat) (e : Entry) (hn : (keys m).Nodup) :
    (keys (put m k e)).Nodup ∧
      costOf (put m k e) + (match lookup m k with | some o => o.cost | none => 0) = e.cost + costOf m := by
  refine ⟨nodup_keys_put k e hn, ?_⟩
  cases hl : lookup m k with
  | none => simp only; rw [costOf_put_none e hl]; omega
  | some o => simp only; exact costOf_put_some e hn hl

/-! ### the invariant -/
/-- well-formedness: the map binds every key at most once; so does the stored snapshot -/
def WF (s : State P) : Prop :=
  (keys s.map).Nodup ∧ ∀ sn, s.snap = some sn → (sn.entries.map (·.key)).Nodup

/-- the cost sum of the resident entries -/
def costSum (s : State P) : Nat := costOf s.map

/-- `current_cost` is the resident cost (as a wrapping u64 counter) -/
def Acc (s : State P) : Prop := s.met.currentCost = costSum s % U64
def AccD (s : State P) (d : Nat) : Prop := s.met.currentCost = (costSum s + d) % U64
def Inv (s : State P) : Prop := WF s ∧ Acc s
def InvD (s : State P) (d : Nat) : Prop := WF s ∧ AccD s d

theorem inv_iff (s : State P) : Inv s ↔ InvD s 0 := by simp [Inv, InvD, Acc, AccD]

/-- the components the accounting invariant reads -/
def Same (s' s : State P) : Prop :=
  s'.map = s.map ∧ s'.met.currentCost = s.met.currentCost ∧ s'.snap = s.snap

theorem Same.refl (s : State P) : Same s s := ⟨rfl, rfl, rfl⟩
theorem Same.trans {a b c : State P} (h1 : Same a b) (h2 : Same b c) : Same a c :=
  ⟨h1.1.trans h2.1, h1.2.1.trans h2.2.1, h1.2.2.trans h2.2.2⟩
theorem Same.invD {s' s : State P} {d : Nat} (h : Same s' s) (hi : InvD s d) : InvD s' d := by
  obtain ⟨hm, hc, hs⟩ := h
  unfold InvD WF AccD costSum at *
  rw [hm, hc, hs]; exact hi
theorem Same.inv {s' s : State P} (h : Same s' s) (hi : Inv s) : Inv s' :=
  (inv_iff _).2 (h.invD ((inv_iff _).1 hi))
theorem Same.wf {s' s : State P} (h : Same s' s) (hi : WF s) : WF s' := by
  obtain ⟨hm, _, hs⟩ := h
  unfold WF at *
  rw [hm, hs]; exact hi

theorem foldl_same {α} (f : State P → α → State P) (hf : ∀ s a, Same (f s a) s) :
    ∀ (l : List α) (s : State P), Same (l.foldl f s) s := by
  intro l
  induction l with
  | nil => intro s; exact Same.refl s
  | cons a rest ih => intro s; exact (ih (f s a)).trans (hf s a)

theorem foldl_inv {α} (f : State P → α → State P) (hf : ∀ s a, Inv s → Inv (f s a)) :
    ∀ (l : List α) (s : State P), Inv s → Inv (l.foldl f s) := by
  intro l
  induction l with
  | nil => intro s h; exact h
  | cons a rest ih => intro s h; exact ih (f s a) (hf s a h)

/-! ### primitives that do not touch map / cost / snapshot -/
theorem same_modAux (s : State P) (i : Nat) (f : Aux P → Aux P) : Same (s.modAux i f) s := ⟨rfl, rfl, rfl⟩
theorem same_cancelTimer (s : State P) (i : Nat) (h : Option Nat) : Same (s.cancelTimer i h) s := ⟨rfl, rfl, rfl⟩
theorem same_logRemoved (s : State P) (k : Nat) (e : Entry) (r : Reason) : Same (s.logRemoved k e r) s := ⟨rfl, rfl, rfl⟩
theorem same_pushEvent (cfg : Cfg) (s : State P) (k c : Nat) : Same (s.pushEvent cfg k c) s := ⟨rfl, rfl, rfl⟩
theorem same_polAccess (ops : PolicyOps P) (s : State P) (i k c : Nat) : Same (s.polAccess ops i k c) s := ⟨rfl, rfl, rfl⟩
theorem same_polRemove (ops : PolicyOps P) (s : State P) (i k : Nat) : Same (s.polRemove ops i k) s := ⟨rfl, rfl, rfl⟩
theorem same_polClear (ops : PolicyOps P) (s : State P) (i : Nat) : Same (s.polClear ops i) s := ⟨rfl, rfl, rfl⟩
theorem same_hit (s : State P) (n : Nat) : Same (s.hit n) s := ⟨rfl, rfl, rfl⟩
theorem same_miss (s : State P) (n : Nat) : Same (s.miss n) s := ⟨rfl, rfl, rfl⟩
theorem same_resetLogs (s : State P) : Same s.resetLogs s := ⟨rfl, rfl, rfl⟩

theorem same_notify (cfg : Cfg) (s : State P) (n : Notif) : Same (s.notify cfg n) s := by
  unfold State.notify; dsimp only; (repeat' split) <;> exact ⟨rfl, rfl, rfl⟩
theorem same_polAdmit (ops : PolicyOps P) (s : State P) (i k c : Nat) : Same (s.polAdmit ops i k c).1 s := by
  unfold State.polAdmit; split <;> exact ⟨rfl, rfl, rfl⟩
theorem same_polEvict (ops : PolicyOps P) (s : State P) (i n : Nat) (h : List Nat) : Same (s.polEvict ops i n h).1 s := by
  unfold State.polEvict; dsimp only; (repeat' split) <;> exact ⟨rfl, rfl, rfl⟩

theorem same_notifyAll (cfg : Cfg) : ∀ (ns : List Notif) (s : State P), Same (State.notifyAll cfg s ns) s := by
  intro ns
  induction ns with
  | nil => intro s; exact Same.refl s
  | cons n rest ih => intro s; exact (ih _).trans (same_notify cfg s n)

theorem same_applyAccesses (ops : PolicyOps P) (i : Nat) :
    ∀ (l : List (Nat × Nat)) (s : State P), Same (State.applyAccesses ops i s l) s := by
  intro l
  induction l with
  | nil => intro s; exact Same.refl s
  | cons a rest ih =>
    intro s
    obtain ⟨k, c⟩ := a
    exact (ih _).trans (same_polAccess ops s i k c)

/-! ### generic steps -/
/-- a bound key leaves the map, the counter is not (yet) adjusted -/
theorem invD_erase {s s' : State P} {k : Nat} {e : Entry} {d : Nat} (hi : InvD s d)
    (hl : lookup s.map k = some e) (hm : s'.map = erase s.map k)
    (hc : s'.met.currentCost = s.met.currentCost) (hs : s'.snap = s.snap) : InvD s' (d + e.cost) := by
  obtain ⟨⟨hn, hsn⟩, ha⟩ := hi
  refine ⟨⟨?_, ?_⟩, ?_⟩
  · rw [hm]; exact nodup_keys_erase k hn
  · rw [hs]; exact hsn
  · unfold AccD costSum at *
    rw [hc, hm, ha]
    have := costOf_erase_some hn hl
    rw [← this]
    congr 1; omega

theorem invD_subCost {s : State P} {d : Nat} (hi : InvD s d) : Inv (s.subCost d) := by
  obtain ⟨hw, ha⟩ := hi
  refine ⟨hw, ?_⟩
  unfold Acc AccD costSum at *
  show subW s.met.currentCost d = costOf s.map % U64
  rw [ha]
  generalize costOf s.map = c
  unfold subW U64
  omega

/-- a bound key leaves the map and its cost is subtracted -/
theorem inv_erase_sub {s s' : State P} {k : Nat} {e : Entry} (hi : Inv s)
    (hl : lookup s.map k = some e) (hm : s'.map = erase s.map k)
    (hc : s'.met.currentCost = subW s.met.currentCost e.cost) (hs : s'.snap = s.snap) : Inv s' := by
  have h1 : InvD ({ s with map := erase s.map k }) (0 + e.cost) := invD_erase ((inv_iff _).1 hi) hl rfl rfl rfl
  have h2 := invD_subCost h1
  have hsame : Same s' (({ s with map := erase s.map k } : State P).subCost (0 + e.cost)) :=
    ⟨hm, by rw [hc, Nat.zero_add]; rfl, hs⟩
  exact hsame.inv h2

/-- a bound key is rewritten with an entry of the same cost -/
theorem inv_put_same {s s' : State P} {k : Nat} {o e : Entry} (hi : Inv s)
    (hl : lookup s.map k = some o) (hce : e.cost = o.cost) (hm : s'.map = put s.map k e)
    (hc : s'.met.currentCost = s.met.currentCost) (hs : s'.snap = s.snap) : Inv s' := by
  obtain ⟨⟨hn, hsn⟩, ha⟩ := hi
  refine ⟨⟨?_, ?_⟩, ?_⟩
  · rw [hm]; exact nodup_keys_put k e hn
  · rw [hs]; exact hsn
  · unfold Acc costSum at *
    rw [hc, hm, ha, costOf_put_same e hn hl hce]

/-! ### admission-driven eviction -/
theorem evictVictim_invD (cfg : Cfg) (ops : PolicyOps P) (s : State P) (v d : Nat) (hi : InvD s d) :
    InvD (s.evictVictim cfg ops v).1 (d + (s.evictVictim cfg ops v).2.1) := by
  unfold State.evictVictim
  split
  · next e he => exact invD_erase hi he rfl rfl rfl
  · exact hi

theorem evictVictims_invD (cfg : Cfg) (ops : PolicyOps P) :
    ∀ (vs : List Nat) (s : State P) (rel : Nat) (ns : List Notif), InvD s rel →
      InvD (State.evictVictims cfg ops s vs rel ns).1 (State.evictVictims cfg ops s vs rel ns).2.1 := by
  intro vs
  induction vs with
  | nil => intro s rel ns hi; exact hi
  | cons v rest ih =>
    intro s rel ns hi
    have hv := evictVictim_invD cfg ops s v rel hi
    unfold State.evictVictims
    split
    · next s' c n heq => rw [heq] at hv; exact ih _ _ _ hv
    · next s' c heq => rw [heq] at hv; exact ih _ _ _ hv

theorem applyWrite_inv (cfg : Cfg) (ops : PolicyOps P) (s : State P) (i : Nat) (w : Nat × Nat) (hi : Inv s) :
    Inv (s.applyWrite cfg ops i w) := by
  have ha : Inv (s.polAdmit ops i w.1 w.2).1 := (same_polAdmit ..).inv hi
  unfold State.applyWrite
  generalize s.polAdmit ops i w.1 w.2 = r at ha
  obtain ⟨s1, d⟩ := r
  cases d with
  | admit => exact ha
  | reject => exact ha
  | admitAndEvict vs =>
    simp only
    have hv := evictVictims_invD cfg ops vs s1 0 [] ((inv_iff _).1 ha)
    generalize State.evictVictims cfg ops s1 vs 0 [] = r at hv
    obtain ⟨s2, rel, ns⟩ := r
    exact (same_notifyAll cfg ns _).inv (invD_subCost hv)

theorem applyWrites_inv (cfg : Cfg) (ops : PolicyOps P) (i : Nat) :
    ∀ (ws : List (Nat × Nat)) (s : State P), Inv s → Inv (State.applyWrites cfg ops i s ws) := by
  intro ws
  induction ws with
  | nil => intro s h; exact h
  | cons w rest ih => intro s h; exact ih _ (applyWrite_inv cfg ops s i w h)

theorem performShard_inv (cfg : Cfg) (ops : PolicyOps P) (o : Oracle) (s : State P) (i limit : Nat) (hi : Inv s) :
    Inv (s.performShard cfg ops o i limit) := by
  unfold State.performShard
  split
  · exact hi
  · next a _ =>
    refine (same_applyAccesses ops i _ _).inv ?_
    refine applyWrites_inv cfg ops i _ _ ?_
    exact ((same_applyAccesses ops i _ _).trans (same_modAux s i _)).inv hi

/-! ### expiry cleanup -/
theorem notify_cc (cfg : Cfg) (s : State P) (n : Notif) : (s.notify cfg n).met.currentCost = s.met.currentCost :=
  (same_notify cfg s n).2.1
theorem notify_snap (cfg : Cfg) (s : State P) (n : Notif) : (s.notify cfg n).snap = s.snap :=
  (same_notify cfg s n).2.2

theorem ttlRemove_inv (cfg : Cfg) (ops : PolicyOps P) (i : Nat) (s : State P) (k : Nat) (hi : Inv s) :
    Inv (State.ttlRemove cfg ops i s k) := by
  unfold State.ttlRemove
  split
  · next e he =>
    refine inv_erase_sub hi he ?_ ?_ ?_
    · simp only [logRemoved_map, notify_map, subCost_map, polRemove_map]
    · exact (notify_cc cfg _ _).trans rfl
    · exact (notify_snap cfg _ _).trans rfl
  · exact hi

theorem cleanupTtl_inv (cfg : Cfg) (ops : PolicyOps P) (o : Oracle) (s : State P) (i : Nat) (hi : Inv s) :
    Inv (s.cleanupTtl cfg ops o i) := by
  unfold State.cleanupTtl
  split
  · exact hi
  · exact foldl_inv _ (ttlRemove_inv cfg ops i) _ _ ((same_modAux s i _).inv hi)

theorem ttiRemove_inv (cfg : Cfg) (ops : PolicyOps P) (i : Nat) (s : State P) (k : Nat) (hi : Inv s) :
    Inv (State.ttiRemove cfg ops i s k) := by
  unfold State.ttiRemove
  split
  · next e he => exact (same_notify cfg _ _).inv (inv_erase_sub hi he rfl rfl rfl)
  · exact hi

theorem cleanupTti_inv (cfg : Cfg) (ops : PolicyOps P) (o : Oracle) (s : State P) (i : Nat) (hi : Inv s) :
    Inv (s.cleanupTti cfg ops o i) := by
  unfold State.cleanupTti
  split
  · exact hi
  · exact foldl_inv _ (ttiRemove_inv cfg ops i) _ _ hi


/-! ### capacity pass -/
theorem capRemove_props (cfg : Cfg) (i : Nat) (s : State P) (k : Nat) (hw : WF s) :
    WF (State.capRemove cfg i s k) ∧ (State.capRemove cfg i s k).met.currentCost = s.met.currentCost ∧
      costSum (State.capRemove cfg i s k) ≤ costSum s := by
  unfold State.capRemove
  split
  · split
    · next e he =>
      refine ⟨(same_notify cfg _ _).wf ⟨nodup_keys_erase k hw.1, hw.2⟩, notify_cc cfg _ _, ?_⟩
      unfold costSum
      rw [notify_map]
      exact costOf_erase_le _ _
    · exact ⟨hw, rfl, Nat.le_refl _⟩
  · exact ⟨hw, rfl, Nat.le_refl _⟩

theorem capRemoves_props (cfg : Cfg) (i : Nat) : ∀ (vs : List Nat) (s : State P), WF s →
    WF (vs.foldl (State.capRemove cfg i) s) ∧ (vs.foldl (State.capRemove cfg i) s).met.currentCost = s.met.currentCost ∧
      costSum (vs.foldl (State.capRemove cfg i) s) ≤ costSum s := by
  intro vs
  induction vs with
  | nil => intro s hw; exact ⟨hw, rfl, Nat.le_refl _⟩
  | cons v rest ih =>
    intro s hw
    obtain ⟨h1, h2, h3⟩ := capRemove_props cfg i s v hw
    obtain ⟨g1, g2, g3⟩ := ih _ h1
    exact ⟨g1, g2.trans h2, Nat.le_trans g3 h3⟩

/-- the cost that really leaves the map when `capRemove` is folded over the victims `vs` -/
def capRemovedCost (cfg : Cfg) (i : Nat) (s : State P) (vs : List Nat) : Nat :=
  costSum s - costSum (vs.foldl (State.capRemove cfg i) s)

/-- one capacity pass (shard `i`, started in state `s1`) is *honest*: the amount the policy reports
    as released equals (mod 2^64) the cost of the entries `capRemove` really takes out of the map. -/
def CapHonest (cfg : Cfg) (ops : PolicyOps P) (o : Oracle) (s1 : State P) (i : Nat) : Prop :=
  (s1.polEvict ops i (s1.met.currentCost - cfg.capacity) (o.evictHint.getD i [])).2.2 % U64 =
    capRemovedCost cfg i (s1.polEvict ops i (s1.met.currentCost - cfg.capacity) (o.evictHint.getD i [])).1
      (s1.polEvict ops i (s1.met.currentCost - cfg.capacity) (o.evictHint.getD i [])).2.1 % U64

theorem cleanupCapacity_inv (cfg : Cfg) (ops : PolicyOps P) (o : Oracle) (s : State P) (i : Nat) (hi : Inv s)
    (hh : CapHonest cfg ops o s i) : Inv (s.cleanupCapacity cfg ops o i) := by
  unfold CapHonest at hh
  unfold State.cleanupCapacity
  simp only
  split
  · exact hi
  · have he : Inv (s.polEvict ops i (s.met.currentCost - cfg.capacity) (o.evictHint.getD i [])).1 :=
      (same_polEvict ..).inv hi
    generalize s.polEvict ops i (s.met.currentCost - cfg.capacity) (o.evictHint.getD i []) = r at he hh
    obtain ⟨s1, victims, released⟩ := r
    simp only at hh he ⊢
    split
    · exact he
    · obtain ⟨g1, g2, g3⟩ := capRemoves_props cfg i victims s1 he.1
      refine ⟨g1, ?_⟩
      have ha := he.2
      unfold capRemovedCost at hh
      unfold Acc at ha ⊢
      show subW (victims.foldl (State.capRemove cfg i) s1).met.currentCost released =
        costSum (victims.foldl (State.capRemove cfg i) s1) % U64
      rw [g2, ha]
      revert hh g3
      generalize costSum (victims.foldl (State.capRemove cfg i) s1) = b
      generalize costSum s1 = a
      intro hh g3
      unfold subW U64 at *
      omega

theorem runMaintenance_inv (cfg : Cfg) (ops : PolicyOps P) (o : Oracle) (s : State P) (hi : Inv s)
    (hh : ∀ (s1 : State P) (i : Nat), WF s1 → CapHonest cfg ops o s1 i) : Inv (s.runMaintenance cfg ops o) := by
  unfold State.runMaintenance
  refine foldl_inv _ ?_ _ _ hi
  intro s i h
  have h3 := cleanupTti_inv cfg ops o _ i (cleanupTtl_inv cfg ops o _ i (performShard_inv cfg ops o s i cfg.drainLimit h))
  exact cleanupCapacity_inv cfg ops o _ i h3 (hh _ i h3.1)

theorem flush_inv (cfg : Cfg) (ops : PolicyOps P) (o : Oracle) (s : State P) (hi : Inv s) : Inv (s.flush cfg ops o) := by
  unfold State.flush
  split
  · exact foldl_inv _ (fun s i h => performShard_inv cfg ops o s i U64 h) _ _ hi
  · exact hi

theorem opportunistic_inv (cfg : Cfg) (ops : PolicyOps P) (o : Oracle) (s : State P) (k : Nat) (hi : Inv s) :
    Inv (s.opportunistic cfg ops o k) := by
  unfold State.opportunistic
  split
  · exact performShard_inv cfg ops o s _ _ hi
  · exact hi

/-! ### reads -/
theorem touch_cost (e : Entry) (now : Nat) (tti : Option Nat) : (e.touch now tti).cost = e.cost := by
  unfold Entry.touch; split <;> rfl
theorem touch_vid (e : Entry) (now : Nat) (tti : Option Nat) : (e.touch now tti).vid = e.vid := by
  unfold Entry.touch; split <;> rfl

theorem onHit_inv (cfg : Cfg) (s : State P) (k : Nat) (e : Entry) (hi : Inv s) (hl : lookup s.map k = some e) :
    Inv (s.onHit cfg k e) := by
  have h1 : Inv ({ s with map := put s.map k (e.touch s.now cfg.tti) } : State P) :=
    inv_put_same hi hl (touch_cost e s.now cfg.tti) rfl rfl rfl
  unfold State.onHit
  dsimp only
  split
  · exact (same_modAux _ _ _).inv h1
  · exact h1

theorem get_inv (cfg : Cfg) (s : State P) (k : Nat) (hi : Inv s) : Inv (s.get cfg k).1 := by
  unfold State.get
  split
  · next e he =>
    split
    · exact (same_miss s 1).inv hi
    · exact (same_hit _ 1).inv (onHit_inv cfg s k e hi he)
  · exact (same_miss s 1).inv hi

/-! ### writes -/
/-- what `insertCore` does to the components the cache properties read -/
theorem insertCore_spec (cfg : Cfg) (s : State P) (k : Nat) (e : Entry) (td : Option Nat) (full : Bool) :
    ∃ e' : Entry, e'.cost = e.cost ∧ e'.vid = e.vid ∧
      (s.insertCore cfg k e td full).map = put s.map k e' ∧
      (s.insertCore cfg k e td full).met.currentCost =
        addW (match lookup s.map k with | some o => subW s.met.currentCost o.cost | none => s.met.currentCost) e.cost ∧
      (s.insertCore cfg k e td full).snap = s.snap ∧
      (s.insertCore cfg k e td full).sent = s.sent ∧
      (s.insertCore cfg k e td full).removed = s.removed ∧
      (s.insertCore cfg k e td full).delivered = s.delivered ∧
      (s.insertCore cfg k e td full).lis = s.lis := by
  unfold State.insertCore
  dsimp only
  generalize (s.aux[cfg.shardOf k]?.bind fun x => x.wheel) = ow
  rcases ow with _ | w <;> rcases td with _ | d <;> dsimp only [modAux_map] <;>
    cases lookup s.map k <;> cases full <;>
    (refine ⟨_, ?_, ?_, rfl, rfl, rfl, rfl, rfl, rfl, rfl⟩ <;> rfl)

theorem insertCore_inv (cfg : Cfg) (s : State P) (k : Nat) (e : Entry) (td : Option Nat) (full : Bool) (hi : Inv s) :
    Inv (s.insertCore cfg k e td full) := by
  obtain ⟨e', hc, _, hm, hcc, hs, _⟩ := insertCore_spec cfg s k e td full
  obtain ⟨⟨hn, hsn⟩, ha⟩ := hi
  obtain ⟨p1, p2⟩ := put_facts k e' hn
  refine ⟨⟨?_, ?_⟩, ?_⟩
  · rw [hm]; exact p1
  · rw [hs]; exact hsn
  · unfold Acc costSum at *
    rw [hcc, hm, ha]
    revert p2
    generalize costOf (put s.map k e') = a
    generalize costOf s.map = b
    rw [hc]
    cases lookup s.map k with
    | none => simp only; intro p2; unfold addW U64; omega
    | some o => simp only; intro p2; unfold addW subW U64; omega

theorem removeKey_inv (cfg : Cfg) (ops : PolicyOps P) (s : State P) (k : Nat) (hi : Inv s) :
    Inv (s.removeKey cfg ops k).1 := by
  unfold State.removeKey
  split
  · next e he => exact (same_notify cfg _ _).inv (inv_erase_sub hi he rfl rfl rfl)
  · exact hi

theorem multiRemoveLoop_inv (cfg : Cfg) (ops : PolicyOps P) :
    ∀ (ks : List Nat) (s : State P) (acc : List (Nat × Nat)), Inv s → Inv (multiRemoveLoop cfg ops s ks acc).1 := by
  intro ks
  induction ks with
  | nil => intro s acc hi; exact hi
  | cons k rest ih =>
    intro s acc hi
    have hk := removeKey_inv cfg ops s k hi
    unfold multiRemoveLoop
    split
    · next s' v heq => rw [heq] at hk; exact ih _ _ hk
    · next s' heq => rw [heq] at hk; exact ih _ _ hk

theorem logClearedAll_same : ∀ (l : List (Nat × Entry)) (s : State P), Same (logClearedAll s l) s := by
  intro l
  induction l with
  | nil => intro s; exact Same.refl s
  | cons p rest ih =>
    intro s
    obtain ⟨k, e⟩ := p
    exact (ih _).trans (same_logRemoved s k e .cleared)

/-- `clear` subtracts exactly what it removed (`fetch_sub`, /repo 7e5c084): well-formedness needs
nothing, the accounting equation is preserved (it is no longer re-established from scratch). -/
theorem clearAll_invD (cfg : Cfg) (ops : PolicyOps P) (o : Oracle) (s : State P) (hw : WF s) :
    WF (s.clearAll cfg ops o) ∧ (Acc s → Acc (s.clearAll cfg ops o)) := by
  have h1 : Same ((List.range cfg.nshards).foldl
      (fun s i => (s.shardKeys cfg o.remHint i).foldl (fun s k => s.polRemove ops i k) s) s) s :=
    foldl_same _ (fun s i => foldl_same _ (fun s k => same_polRemove ops s i k) _ s) _ s
  unfold State.clearAll
  dsimp only
  generalize (List.range cfg.nshards).foldl
      (fun s i => (s.shardKeys cfg o.remHint i).foldl (fun s k => s.polRemove ops i k) s) s = s1 at h1
  have h2 := (logClearedAll_same s1.map s1).trans h1
  generalize logClearedAll s1 s1.map = s2 at h2
  have h3 : Same ((List.range cfg.nshards).foldl (fun s i => s.polClear ops i) ({ s2 with map := [] } : State P))
      ({ s2 with map := [] } : State P) := foldl_same _ (fun s i => same_polClear ops s i) _ _
  generalize (List.range cfg.nshards).foldl (fun s i => s.polClear ops i) ({ s2 with map := [] } : State P) = s3 at h3
  obtain ⟨m3, c3, n3⟩ := h3
  refine ⟨⟨?_, ?_⟩, ?_⟩
  · show (keys s3.map).Nodup
    rw [m3]; exact List.nodup_nil
  · show ∀ sn, s3.snap = some sn → _
    rw [n3]; show ∀ sn, s2.snap = some sn → _
    rw [h2.2.2]; exact hw.2
  · intro ha
    show subW s3.met.currentCost (costOf s.map) = costOf s3.map % U64
    rw [m3, c3]
    show subW s2.met.currentCost (costOf s.map) = costOf [] % U64
    rw [h2.2.1, ha]
    show subW (costOf s.map % U64) (costOf s.map) = 0 % U64
    generalize costOf s.map = c
    unfold subW U64; omega

theorem clearAll_inv (cfg : Cfg) (ops : PolicyOps P) (o : Oracle) (s : State P) (hi : Inv s) :
    Inv (s.clearAll cfg ops o) :=
  ⟨(clearAll_invD cfg ops o s hi.1).1, (clearAll_invD cfg ops o s hi.1).2 hi.2⟩


/-- a key is (re)written: `map := put …`, the counter gets `+ new cost` and `- old cost` in either order -/
theorem inv_put {s s' : State P} {k : Nat} {e : Entry} (hi : Inv s) (hm : s'.map = put s.map k e)
    (hs : s'.snap = s.snap)
    (hc : s'.met.currentCost =
        subW (addW s.met.currentCost e.cost) (match lookup s.map k with | some o => o.cost | none => 0)) : Inv s' := by
  obtain ⟨⟨hn, hsn⟩, ha⟩ := hi
  obtain ⟨p1, p2⟩ := put_facts k e hn
  refine ⟨⟨?_, ?_⟩, ?_⟩
  · rw [hm]; exact p1
  · rw [hs]; exact hsn
  · unfold Acc costSum at *
    rw [hc, hm, ha]
    revert p2
    generalize costOf (put s.map k e) = a
    generalize costOf s.map = b
    generalize (match lookup s.map k with | some o => o.cost | none => 0) = c
    intro p2; unfold addW subW U64; omega

theorem loadInsert_inv (cfg : Cfg) (s : State P) (k vid cost : Nat) (hi : Inv s) :
    Inv (s.loadInsert cfg k vid cost) :=
  inv_put (e := Entry.mk' vid cost s.now cfg.ttl cfg.tti) hi rfl rfl rfl

theorem fetchWith_inv (cfg : Cfg) (s : State P) (k vid cost : Nat) (hi : Inv s) :
    Inv (s.fetchWith cfg k vid cost).1 := by
  have hload : Inv ((s.miss 1).loadInsert cfg k vid cost) := loadInsert_inv cfg _ k vid cost ((same_miss s 1).inv hi)
  unfold State.fetchWith
  dsimp only
  split
  · exact hload
  · next e he =>
    split
    · split
      · exact hload
      · exact (same_hit _ 1).inv (onHit_inv cfg s k e hi he)
    · split
      · split
        · exact loadInsert_inv cfg s k vid cost hi
        · exact hload
      · exact hload

theorem orInsert_inv (cfg : Cfg) (s : State P) (k vid cost : Nat) (hi : Inv s) : Inv (s.orInsert cfg k vid cost).1 := by
  unfold State.orInsert
  split
  · exact hi
  · next hl =>
    refine inv_put (k := k) (e := Entry.mk' vid cost s.now cfg.ttl cfg.tti) hi rfl rfl ?_
    rw [hl]
    show addW s.met.currentCost cost = subW (addW s.met.currentCost cost) 0
    unfold subW addW U64; omega

theorem compute_inv (s : State P) (k vid : Nat) (hi : Inv s) : Inv (s.compute k vid).1 := by
  unfold State.compute
  split
  · exact hi
  · next e he =>
    split
    · exact hi
    · exact inv_put_same (e := { e with vid := vid }) hi he rfl rfl rfl rfl

theorem multigetSync_inv (cfg : Cfg) : ∀ (ks : List Nat) (s : State P) (found : List (Nat × Nat)),
    Inv s → Inv (multigetSync cfg s ks found).1 := by
  intro ks
  induction ks with
  | nil => intro s found hi; exact hi
  | cons k rest ih =>
    intro s found hi
    unfold multigetSync
    split
    · next e he =>
      split
      · exact ih _ _ hi
      · exact ih _ _ (onHit_inv cfg s k e hi he)
    · exact ih _ _ hi

theorem multigetAsync_inv (cfg : Cfg) (ops : PolicyOps P) : ∀ (ks : List Nat) (s : State P) (found : List (Nat × Nat)),
    Inv s → Inv (multigetAsync cfg ops s ks found).1 := by
  intro ks
  induction ks with
  | nil => intro s found hi; exact hi
  | cons k rest ih =>
    intro s found hi
    unfold multigetAsync
    split
    · next e he =>
      split
      · exact ih _ _ hi
      · refine ih _ _ ((same_polAccess ops _ _ _ _).inv ?_)
        exact inv_put_same (e := e.touch s.now cfg.tti) hi he (touch_cost e s.now cfg.tti) rfl rfl rfl
    · exact ih _ _ hi

/-! ### iteration, snapshots -/
theorem iterAll_inv (cfg : Cfg) (ops : PolicyOps P) (o : Oracle) (s : State P) (batch : Nat) (inter : Option (Nat × Nat))
    (hi : Inv s) : Inv (s.iterAll cfg ops o batch inter).1 := by
  have h : Same (s.iterAll cfg ops o batch inter).1 (s.flush cfg ops o) := ⟨rfl, rfl, rfl⟩
  exact h.inv (flush_inv cfg ops o s hi)

theorem snapDrive_inv (cfg : Cfg) : ∀ (ks : List Nat) (s : State P) (inter : Option (Nat × Nat)) (acc : List (Nat × Nat)),
    Inv s → Inv (snapDrive cfg s ks inter acc).1 := by
  intro ks
  induction ks with
  | nil =>
    intro s inter acc hi
    unfold snapDrive
    split
    · split
      · exact Same.inv ⟨rfl, rfl, rfl⟩ hi
      · exact hi
    · exact hi
  | cons k rest ih =>
    intro s inter acc hi
    unfold snapDrive
    -- the scripted clock advance leaves map, counter and snapshot alone
    have key : ∀ (s1 : State P) (inter1 : Option (Nat × Nat)), Inv s1 →
        Inv (match s1.get cfg k with
          | (s, some v) => snapDrive cfg s rest inter1 (acc ++ [(k, v)])
          | (s, none) => snapDrive cfg s rest inter1 acc).1 := by
      intro s1 inter1 h1
      have hg := get_inv cfg s1 k h1
      split
      · next s2 v heq => rw [heq] at hg; exact ih _ _ _ hg
      · next s2 heq => rw [heq] at hg; exact ih _ _ _ hg
    rcases inter with _ | ⟨after, d⟩
    · exact key s none hi
    · dsimp only
      by_cases hlen : acc.length = after
      · rw [if_pos hlen]; exact key _ none (Same.inv ⟨rfl, rfl, rfl⟩ hi)
      · rw [if_neg hlen]; exact key s (some (after, d)) hi

theorem iterSnapshotAll_inv (cfg : Cfg) (ops : PolicyOps P) (o : Oracle) (s : State P) (inter : Option (Nat × Nat))
    (hi : Inv s) : Inv (s.iterSnapshotAll cfg ops o inter).1 :=
  snapDrive_inv cfg _ _ _ _ (flush_inv cfg ops o s hi)

theorem snapshotOf_keys_sublist (cfg : Cfg) (now : Nat) : ∀ (m : List (Nat × Entry)),
    ((snapshotOf cfg m now).entries.map (·.key)).Sublist (keys m) := by
  intro m
  induction m with
  | nil => exact List.Sublist.refl _
  | cons p rest ih =>
    obtain ⟨k, e⟩ := p
    unfold snapshotOf at ih ⊢
    simp only [List.filterMap_cons]
    split
    · next h => exact List.Sublist.cons _ ih
    · next x h =>
      split at h
      · cases h
      · cases h
        simp only [List.map_cons, keys_cons]
        exact List.Sublist.cons_cons _ ih

theorem toSnapshot_inv (cfg : Cfg) (ops : PolicyOps P) (o : Oracle) (s : State P) (hi : Inv s) :
    Inv (s.toSnapshot cfg ops o).1 := by
  have hf := flush_inv cfg ops o s hi
  obtain ⟨⟨hn, _⟩, ha⟩ := hf
  refine ⟨⟨hn, ?_⟩, ha⟩
  intro sn hsn
  have : sn = snapshotOf cfg (s.flush cfg ops o).map (s.flush cfg ops o).now := by
    have h2 : (s.toSnapshot cfg ops o).1.snap = some (snapshotOf cfg (s.flush cfg ops o).map (s.flush cfg ops o).now) := rfl
    rw [h2] at hsn; exact (Option.some.inj hsn).symm
  rw [this]
  exact hn.sublist (snapshotOf_keys_sublist cfg _ _)

theorem restoreMap_facts (cfg : Cfg) (now : Nat) : ∀ (ps : List SnapEntry) (m : List (Nat × Entry)),
    (ps.map (·.key)).Nodup → (∀ p, p ∈ ps → p.key ∉ keys m) → (keys m).Nodup →
      (keys (restoreMap cfg now ps m)).Nodup ∧ costOf (restoreMap cfg now ps m) = costOf m + (ps.map (·.cost)).sum := by
  intro ps
  induction ps with
  | nil => intro m _ _ hn; exact ⟨hn, by simp [restoreMap]⟩
  | cons p rest ih =>
    intro m hps hdis hn
    simp only [List.map_cons] at hps
    obtain ⟨hp1, hp2⟩ := List.nodup_cons.1 hps
    have hk : p.key ∉ keys m := hdis p (List.mem_cons_self ..)
    have hl : lookup m p.key = none := lookup_none_of_not_mem hk
    unfold restoreMap
    have hdis' : ∀ q, q ∈ rest → q.key ∉ keys (put m p.key (restoredEntry cfg now p).2) := by
      intro q hq hmem
      unfold put at hmem
      simp only [keys_cons, List.mem_cons] at hmem
      rcases hmem with h | h
      · exact hp1 (List.mem_map.2 ⟨q, hq, h⟩)
      · rw [erase_of_lookup_none hl] at h
        exact hdis q (List.mem_cons_of_mem _ hq) h
    obtain ⟨g1, g2⟩ := ih (put m p.key (restoredEntry cfg now p).2) hp2 hdis' (nodup_keys_put _ _ hn)
    refine ⟨g1, ?_⟩
    rw [g2, costOf_put_none _ hl]
    simp only [List.map_cons, List.sum_cons]
    show p.cost + costOf m + _ = _
    omega

theorem foldl_addW (ps : List SnapEntry) : ∀ (a : Nat),
    ps.foldl (fun a p => addW a p.cost) a % U64 = (a + (ps.map (·.cost)).sum) % U64 := by
  induction ps with
  | nil => intro a; simp
  | cons p rest ih =>
    intro a
    simp only [List.foldl_cons, List.map_cons, List.sum_cons]
    rw [ih]
    unfold addW U64
    omega

theorem foldl_addW_lt (ps : List SnapEntry) : ∀ (a : Nat), a < U64 →
    ps.foldl (fun a p => addW a p.cost) a < U64 := by
  induction ps with
  | nil => intro a h; exact h
  | cons p rest ih =>
    intro a _
    simp only [List.foldl_cons]
    apply ih
    unfold addW U64
    omega

theorem restore_inv (cfg : Cfg) (p0 : P) (now : Nat) (sn : Snapshot) (hsn : (sn.entries.map (·.key)).Nodup) :
    Inv (State.restore cfg p0 now sn) := by
  obtain ⟨g1, g2⟩ := restoreMap_facts cfg now sn.entries [] hsn (fun _ _ h => by simp at h) List.nodup_nil
  refine ⟨⟨g1, ?_⟩, ?_⟩
  · intro sn' h
    have : sn' = sn := (Option.some.inj h).symm
    rw [this]; exact hsn
  · show sn.entries.foldl (fun a p => addW a p.cost) 0 = costOf (restoreMap cfg now sn.entries []) % U64
    rw [g2]
    have h1 := foldl_addW sn.entries 0
    have h2 := foldl_addW_lt sn.entries 0 (by unfold U64; omega)
    simp only [costOf_nil] at *
    rw [← h1]
    exact (Nat.mod_eq_of_lt h2).symm

theorem release_inv (s : State P) (hi : Inv s) :
    Inv ({ s with map := s.map.map (fun (k, e) => (k, { e with pinned := false })) } : State P) := by
  have hk : ∀ m : List (Nat × Entry), keys (m.map (fun (k, e) => (k, { e with pinned := false }))) = keys m := by
    intro m; induction m with
    | nil => rfl
    | cons p rest ih => obtain ⟨k, e⟩ := p; simp only [List.map_cons, keys_cons, ih]
  have hc : ∀ m : List (Nat × Entry), costOf (m.map (fun (k, e) => (k, { e with pinned := false }))) = costOf m := by
    intro m; induction m with
    | nil => rfl
    | cons p rest ih => obtain ⟨k, e⟩ := p; simp only [List.map_cons, costOf_cons, ih]
  obtain ⟨⟨hn, hsn⟩, ha⟩ := hi
  refine ⟨⟨?_, hsn⟩, ?_⟩
  · show (keys (s.map.map _)).Nodup
    rw [hk]; exact hn
  · show s.met.currentCost = costOf (s.map.map _) % U64
    rw [hc]; exact ha

theorem hold_inv (cfg : Cfg) (s : State P) (k : Nat) (hi : Inv s) :
    Inv (match s.get cfg k with
      | (s, some v) =>
        ((match lookup s.map k with
         | some e => { s with map := put s.map k { e with pinned := true } }
         | none => s), Ret.val (some v))
      | (s, none) => (s, Ret.val none)).1 := by
  have hg := get_inv cfg s k hi
  split
  · next s1 v heq =>
    rw [heq] at hg
    dsimp only
    split
    · next e he => exact inv_put_same (e := { e with pinned := true }) hg he rfl rfl rfl rfl
    · exact hg
  · next s1 heq => rw [heq] at hg; exact hg

/-! ### the lossy write-event buffer (F8b) -/
theorem modAt_getElem? {α} (f : α → α) : ∀ (l : List α) (i j : Nat),
    (modAt l i f)[j]? = if j = i then l[j]?.map f else l[j]? := by
  intro l
  induction l with
  | nil => intro i j; simp [modAt]
  | cons a rest ih =>
    intro i j
    cases i with
    | zero => cases j <;> simp [modAt]
    | succ i => cases j <;> simp [modAt, ih]

/-- `try_send` on a full write-event buffer drops the event: the state does not change at all
    (so the inserted entry stays resident but no policy will ever hear of it). -/
theorem pushEvent_full (cfg : Cfg) (s : State P) (k c : Nat) (a : Aux P)
    (ha : s.aux[cfg.shardOf k]? = some a) (hfull : cfg.eventCap ≤ a.events.length) :
    (s.pushEvent cfg k c).aux = s.aux := by
  unfold State.pushEvent State.modAux
  dsimp only
  apply List.ext_getElem?
  intro j
  rw [modAt_getElem?]
  split
  · next hj =>
    subst hj
    rw [ha]
    simp only [Option.map_some]
    rw [if_neg (by omega)]
  · rfl


/-! ### the capacity pass never adds cost -/
theorem cleanupCapacity_costSum_le (cfg : Cfg) (ops : PolicyOps P) (o : Oracle) (s : State P) (i : Nat) (hw : WF s) :
    costSum (s.cleanupCapacity cfg ops o i) ≤ costSum s := by
  unfold State.cleanupCapacity
  simp only
  split
  · exact Nat.le_refl _
  · have he : Same (s.polEvict ops i (s.met.currentCost - cfg.capacity) (o.evictHint.getD i [])).1 s := same_polEvict ..
    generalize s.polEvict ops i (s.met.currentCost - cfg.capacity) (o.evictHint.getD i []) = r at he
    obtain ⟨s1, victims, released⟩ := r
    simp only at he ⊢
    have hcs : costSum s1 = costSum s := by unfold costSum; rw [he.1]
    split
    · exact Nat.le_of_eq hcs
    · have := (capRemoves_props cfg i victims s1 (he.wf hw)).2.2
      show costSum (victims.foldl (State.capRemove cfg i) s1) ≤ costSum s
      omega

end Fv.Cache
