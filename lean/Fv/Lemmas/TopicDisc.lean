import Fv.Lemmas.TopicRouteStep
/-! Disconnected: where the `is_disconnected` flag comes from, that it is sticky, and what the
receive forms answer. -/
namespace Fv.Chan.Topic

/-! ### generic "every entry is related to its old version" lemmas -/

theorem rel_modAt (R : Rx → Rx → Prop) (hr : ∀ x, R x x) (l : List Rx) (i : Nat) (f : Rx → Rx)
    (hf : ∀ x, R x (f x)) (r : Nat) (y : Rx) (hy : (modAt l i f)[r]? = some y) : ∃ x, l[r]? = some x ∧ R x y := by
  rw [getElem?_modAt] at hy
  by_cases h : i = r
  · simp only [h, if_true] at hy
    cases hl : l[r]? with
    | none => simp [hl] at hy
    | some x => simp only [hl, Option.map_some, Option.some.injEq] at hy; subst hy; exact ⟨x, rfl, hf x⟩
  · simp only [h, if_false] at hy; exact ⟨y, hy, hr y⟩

theorem rel_deliverTo (R : Rx → Rx → Prop) (hr : ∀ x, R x x) (ht : ∀ x y z, R x y → R y z → R x z)
    (hd : ∀ m x, R x (deliver m x)) (m : Msg) (rxs : List Rx) (is : List Nat) (r : Nat) (y : Rx)
    (hy : (deliverTo m rxs is)[r]? = some y) : ∃ x, rxs[r]? = some x ∧ R x y := by
  fun_induction deliverTo m rxs is with
  | case1 => exact ⟨y, hy, hr y⟩
  | case2 rxs i is ih =>
    obtain ⟨x1, hx1, hc1⟩ := ih hy
    obtain ⟨x, hx, hc⟩ := rel_modAt R hr rxs i _ (fun x => by
      by_cases hl : x.live = true
      · rw [if_pos hl]; exact hd m x
      · rw [if_neg hl]; exact hr x) r x1 hx1
    exact ⟨x, hx, ht _ _ _ hc hc1⟩

theorem rel_disconnectTo (R : Rx → Rx → Prop) (hr : ∀ x, R x x) (ht : ∀ x y z, R x y → R y z → R x z)
    (hd : ∀ x, R x (disconnect x)) (rxs : List Rx) (is : List Nat) (r : Nat) (y : Rx)
    (hy : (disconnectTo rxs is)[r]? = some y) : ∃ x, rxs[r]? = some x ∧ R x y := by
  fun_induction disconnectTo rxs is with
  | case1 => exact ⟨y, hy, hr y⟩
  | case2 rxs i is ih =>
    obtain ⟨x1, hx1, hc1⟩ := ih hy
    obtain ⟨x, hx, hc⟩ := rel_modAt R hr rxs i _ (fun x => by
      by_cases hl : x.live = true
      · rw [if_pos hl]; exact hd x
      · rw [if_neg hl]; exact hr x) r x1 hx1
    exact ⟨x, hx, ht _ _ _ hc hc1⟩

theorem rel_subscribeCore (R : Rx → Rx → Prop) (hr : ∀ x, R x x) (hs : ∀ x l, R x { x with subs := l })
    (s : St) (q : Nat) (t : Topic) (r : Nat) (y : Rx) (hy : (subscribeCore s q t).rxs[r]? = some y) :
    ∃ x, s.rxs[r]? = some x ∧ R x y := by
  rcases subscribeCore_rxs s q t with h | h <;> rw [h] at hy
  · exact ⟨y, hy, hr y⟩
  · exact rel_modAt R hr _ _ _ (fun x => hs x _) r y hy

theorem rel_unsubscribeCore (R : Rx → Rx → Prop) (hr : ∀ x, R x x) (hs : ∀ x l, R x { x with subs := l })
    (s : St) (q : Nat) (t : Topic) (r : Nat) (y : Rx) (hy : (unsubscribeCore s q t).rxs[r]? = some y) :
    ∃ x, s.rxs[r]? = some x ∧ R x y := by
  rcases unsubscribeCore_rxs s q t with h | h <;> rw [h] at hy
  · exact ⟨y, hy, hr y⟩
  · exact rel_modAt R hr _ _ _ (fun x => hs x _) r y hy

theorem rel_foldl_subscribeCore (R : Rx → Rx → Prop) (hr : ∀ x, R x x) (ht : ∀ x y z, R x y → R y z → R x z)
    (hs : ∀ x l, R x { x with subs := l }) (l : List Topic) (s : St) (q : Nat) (r : Nat) (y : Rx)
    (hy : (l.foldl (fun s t => subscribeCore s q t) s).rxs[r]? = some y) : ∃ x, s.rxs[r]? = some x ∧ R x y := by
  induction l generalizing s with
  | nil => exact ⟨y, hy, hr y⟩
  | cons t l ih =>
    simp only [List.foldl_cons] at hy
    obtain ⟨x1, hx1, hc1⟩ := ih _ hy
    obtain ⟨x, hx, hc⟩ := rel_subscribeCore R hr hs s q t r x1 hx1
    exact ⟨x, hx, ht _ _ _ hc hc1⟩

theorem rel_foldl_unsubscribeCore (R : Rx → Rx → Prop) (hr : ∀ x, R x x) (ht : ∀ x y z, R x y → R y z → R x z)
    (hs : ∀ x l, R x { x with subs := l }) (l : List Topic) (s : St) (q : Nat) (r : Nat) (y : Rx)
    (hy : (l.foldl (fun s t => unsubscribeCore s q t) s).rxs[r]? = some y) : ∃ x, s.rxs[r]? = some x ∧ R x y := by
  induction l generalizing s with
  | nil => exact ⟨y, hy, hr y⟩
  | cons t l ih =>
    simp only [List.foldl_cons] at hy
    obtain ⟨x1, hx1, hc1⟩ := ih _ hy
    obtain ⟨x, hx, hc⟩ := rel_unsubscribeCore R hr hs s q t r x1 hx1
    exact ⟨x, hx, ht _ _ _ hc hc1⟩

theorem rel_rxCloseInternal (R : Rx → Rx → Prop) (hr : ∀ x, R x x) (ht : ∀ x y z, R x y → R y z → R x z)
    (hs : ∀ x l, R x { x with subs := l })
    (s : St) (q : Nat) (r : Nat) (y : Rx) (hy : (rxCloseInternal s q).rxs[r]? = some y) :
    ∃ x, s.rxs[r]? = some x ∧ R x y := by
  cases hx : s.rxs[q]? with
  | none => rw [rxCloseInternal_none s q hx] at hy; exact ⟨y, hy, hr y⟩
  | some x =>
    rw [rxCloseInternal_eq s q x hx] at hy
    split at hy
    · exact rel_foldl_unsubscribeCore R hr ht hs _ _ _ r y hy
    · exact ⟨y, hy, hr y⟩

def Op.isSenderEnd : Op → Bool
  | .sClose _ | .sDrop _ => true
  | _ => false

/-- an entry present before is present after every step, related by `R`, for any reflexive
transitive `R` that tolerates every field update an operation can make -/
theorem rel_step (R : Rx → Rx → Prop) (hr : ∀ x, R x x) (ht : ∀ x y z, R x y → R y z → R x z)
    (hdel : ∀ m x, R x (deliver m x))
    (hsubs : ∀ x l, R x { x with subs := l }) (hclosed : ∀ x b, R x { x with closed := b })
    (hdrop : ∀ x, R x { x with live := false, disc := true })
    (hconv : ∀ x, R x { x with kind := x.kind.flip, closed := false })
    (hbuf : ∀ x l, R x { x with buf := l })
    (s : St) (op : Op) (hdis : op.isSenderEnd = true → ∀ x, R x (disconnect x))
    (r : Nat) (y : Rx) (hy : (step s op).1.rxs[r]? = some y) (hlt : r < s.rxs.length) :
    ∃ x, s.rxs[r]? = some x ∧ R x y := by
  have recvW : ∀ (q : Nat) (x : Rx) (d e : Res), (recvWith s q x d e).1.rxs[r]? = some y →
      ∃ x, s.rxs[r]? = some x ∧ R x y := by
    intro q x d e hy
    unfold recvWith at hy
    split at hy
    · exact rel_modAt R hr _ _ _ (fun x => hbuf x _) r y hy
    · split at hy <;> exact ⟨y, hy, hr y⟩
  have sCl : (∀ x, R x (disconnect x)) → ∀ h, (sClose s h).1.rxs[r]? = some y → ∃ x, s.rxs[r]? = some x ∧ R x y := by
    intro hdis h hy
    unfold sClose at hy
    split at hy
    · exact ⟨y, hy, hr y⟩
    · split at hy
      · exact ⟨y, hy, hr y⟩
      · exact rel_disconnectTo R hr ht hdis _ _ r y hy
  cases op with
  | send h t v =>
    simp only [step] at hy
    rcases send_cases s h t v with ⟨x, _, _, _, he⟩ | ⟨h1, _⟩
    · rw [he] at hy; exact rel_deliverTo R hr ht hdel _ _ _ r y hy
    · rw [h1] at hy; exact ⟨y, hy, hr y⟩
  | sClone h =>
    simp only [step, sClone] at hy; split at hy
    · exact ⟨y, hy, hr y⟩
    · split at hy <;> exact ⟨y, hy, hr y⟩
  | sClose h => exact sCl (hdis rfl) h hy
  | sDrop h =>
    simp only [step, sDrop] at hy; split at hy
    · exact ⟨y, hy, hr y⟩
    · exact sCl (hdis rfl) h hy
  | sConv h => simp only [step, sConv] at hy; split at hy <;> exact ⟨y, hy, hr y⟩
  | sIsClosed h => simp only [step, sIsClosed] at hy; split at hy <;> exact ⟨y, hy, hr y⟩
  | subscribe q t =>
    simp only [step, subscribe] at hy; split at hy
    · exact ⟨y, hy, hr y⟩
    · exact rel_subscribeCore R hr hsubs s q t r y hy
  | unsubscribe q t =>
    simp only [step, unsubscribe] at hy; split at hy
    · exact ⟨y, hy, hr y⟩
    · exact rel_unsubscribeCore R hr hsubs s q t r y hy
  | rClone q =>
    simp only [step, rClone] at hy; split at hy
    · exact ⟨y, hy, hr y⟩
    · split at hy
      · obtain ⟨x1, hx1, hc1⟩ := rel_foldl_subscribeCore R hr ht hsubs _ _ _ r y hy
        simp only [List.getElem?_append_left hlt] at hx1
        exact ⟨x1, hx1, hc1⟩
      · simp only [List.getElem?_append_left hlt] at hy
        exact ⟨y, hy, hr y⟩
  | rClose q =>
    simp only [step, rClose] at hy; split at hy
    · exact ⟨y, hy, hr y⟩
    · split at hy
      · exact ⟨y, hy, hr y⟩
      · obtain ⟨x1, hx1, hc1⟩ := rel_rxCloseInternal R hr ht hsubs _ q r y hy
        obtain ⟨x, hx, hc⟩ := rel_modAt R hr _ _ _ (fun x => hclosed x true) r x1 hx1
        exact ⟨x, hx, ht _ _ _ hc hc1⟩
  | rDrop q =>
    simp only [step, rDrop] at hy; split at hy
    · exact ⟨y, hy, hr y⟩
    · obtain ⟨x1, hx1, hc1⟩ := rel_modAt R hr _ _ _ (fun x => hdrop x) r y hy
      split at hx1
      · exact ⟨x1, hx1, hc1⟩
      · obtain ⟨x2, hx2, hc2⟩ := rel_rxCloseInternal R hr ht hsubs _ q r x1 hx1
        obtain ⟨x, hx, hc⟩ := rel_modAt R hr _ _ _ (fun x => hclosed x true) r x2 hx2
        exact ⟨x, hx, ht _ _ _ hc (ht _ _ _ hc2 hc1)⟩
  | rConv q =>
    simp only [step, rConv] at hy; split at hy
    · exact ⟨y, hy, hr y⟩
    · exact rel_modAt R hr _ _ _ (fun x => hconv x) r y hy
  | tryRecv q =>
    simp only [step, tryRecv] at hy; split at hy
    · exact ⟨y, hy, hr y⟩
    · exact recvW _ _ _ _ hy
  | recv q =>
    simp only [step, recv] at hy; split at hy
    · exact ⟨y, hy, hr y⟩
    · split at hy <;> exact recvW _ _ _ _ hy
  | recvTimeout0 q =>
    simp only [step, recvTimeout0] at hy; split at hy
    · exact ⟨y, hy, hr y⟩
    · split at hy
      · exact ⟨y, hy, hr y⟩
      · split at hy <;> exact recvW _ _ _ _ hy
  | pollNext q =>
    simp only [step, pollNext] at hy; split at hy
    · exact ⟨y, hy, hr y⟩
    · split at hy
      · exact ⟨y, hy, hr y⟩
      · exact recvW _ _ _ _ hy
  | rIsClosed q => simp only [step, rIsClosed] at hy; split at hy <;> exact ⟨y, hy, hr y⟩
  | isEmpty q => simp only [step, isEmpty] at hy; split at hy <;> exact ⟨y, hy, hr y⟩
  | capacity q => simp only [step, capacity] at hy; split at hy <;> exact ⟨y, hy, hr y⟩


/-! ### lengths -/

theorem subscribeCore_length (s : St) (q : Nat) (t : Topic) : (subscribeCore s q t).rxs.length = s.rxs.length := by
  rcases subscribeCore_rxs s q t with h | h <;> rw [h]; exact length_modAt _ _ _

theorem unsubscribeCore_length (s : St) (q : Nat) (t : Topic) : (unsubscribeCore s q t).rxs.length = s.rxs.length := by
  rcases unsubscribeCore_rxs s q t with h | h <;> rw [h]; exact length_modAt _ _ _

theorem foldl_subscribeCore_length (l : List Topic) (s : St) (q : Nat) :
    (l.foldl (fun s t => subscribeCore s q t) s).rxs.length = s.rxs.length := by
  induction l generalizing s with
  | nil => rfl
  | cons t l ih => simp only [List.foldl_cons]; rw [ih, subscribeCore_length]

theorem sClose_length (s : St) (h : Nat) : (sClose s h).1.rxs.length = s.rxs.length := by
  unfold sClose; split <;> (try rfl); split <;> (try rfl)
  simp [senderCloseInternal, length_disconnectTo]

theorem recvWith_length (s : St) (q : Nat) (x : Rx) (d e : Res) : (recvWith s q x d e).1.rxs.length = s.rxs.length := by
  unfold recvWith; split
  · simp [length_modAt]
  · split <;> rfl

theorem step_rxs_length (s : St) (op : Op) :
    (step s op).1.rxs.length = s.rxs.length ∨
      ((∃ q, op = .rClone q) ∧ (step s op).1.rxs.length = s.rxs.length + 1) := by
  cases op with
  | send h t v =>
    left; simp only [step]
    rcases send_cases s h t v with ⟨x, _, _, _, he⟩ | ⟨h1, _⟩
    · rw [he]; simp [length_deliverTo]
    · rw [h1]
  | sClone h => left; simp only [step, sClone]; split <;> (try rfl); split <;> rfl
  | sClose h => left; exact sClose_length s h
  | sDrop h => left; simp only [step, sDrop]; split <;> (try rfl); exact sClose_length s h
  | sConv h => left; simp only [step, sConv]; split <;> rfl
  | sIsClosed h => left; simp only [step, sIsClosed]; split <;> rfl
  | subscribe q t => left; simp only [step, subscribe]; split <;> (try rfl); exact subscribeCore_length s q t
  | unsubscribe q t => left; simp only [step, unsubscribe]; split <;> (try rfl); exact unsubscribeCore_length s q t
  | rClone q =>
    simp only [step, rClone]; split
    · left; rfl
    · right; refine ⟨⟨q, rfl⟩, ?_⟩; split
      · rw [foldl_subscribeCore_length]; simp
      · simp
  | rClose q =>
    left; simp only [step, rClose]; split <;> (try rfl); split <;> (try rfl)
    rw [rxCloseInternal_length]; simp [length_modAt]
  | rDrop q =>
    left; simp only [step, rDrop]; split <;> (try rfl)
    simp only [length_modAt]
    split
    · rfl
    · rw [rxCloseInternal_length]; simp [length_modAt]
  | rConv q => left; simp only [step, rConv]; split <;> (try rfl); simp [length_modAt]
  | tryRecv q => left; simp only [step, tryRecv]; split <;> (try rfl); exact recvWith_length ..
  | recv q => left; simp only [step, recv]; split <;> (try rfl); split <;> exact recvWith_length ..
  | recvTimeout0 q =>
    left; simp only [step, recvTimeout0]; split <;> (try rfl); split <;> (try rfl)
    split <;> exact recvWith_length ..
  | pollNext q =>
    left; simp only [step, pollNext]; split <;> (try rfl); split <;> (try rfl)
    exact recvWith_length ..
  | rIsClosed q => left; simp only [step, rIsClosed]; split <;> rfl
  | isEmpty q => left; simp only [step, isEmpty]; split <;> rfl
  | capacity q => left; simp only [step, capacity]; split <;> rfl

theorem step_rxs_length_le (s : St) (op : Op) : s.rxs.length ≤ (step s op).1.rxs.length := by
  rcases step_rxs_length s op with h | ⟨_, h⟩ <;> omega

/-- a receiver created by this very step starts with a connected, empty mailbox -/
theorem step_new_entry (s : St) (op : Op) (r : Nat) (y : Rx) (hy : (step s op).1.rxs[r]? = some y)
    (hge : ¬ r < s.rxs.length) : y.disc = false ∧ y.buf = [] := by
  have h1 := (List.getElem?_eq_some_iff.1 hy).1
  rcases step_rxs_length s op with h2 | ⟨⟨q, rfl⟩, h2⟩
  · omega
  · have hr : r = s.rxs.length := by omega
    subst hr
    simp only [step, rClone] at hy
    split at hy
    · exact absurd (List.getElem?_eq_some_iff.1 hy).1 hge
    · split at hy
      · obtain ⟨x1, hx1, hc1⟩ := rel_foldl_subscribeCore (fun x y => y.disc = x.disc ∧ y.buf = x.buf)
          (fun _ => ⟨rfl, rfl⟩) (fun _ _ _ h1 h2 => ⟨h2.1.trans h1.1, h2.2.trans h1.2⟩) (fun _ _ => ⟨rfl, rfl⟩) _ _ _ _ y hy
        simp only [List.getElem?_concat_length, Option.some.injEq] at hx1
        subst hx1; exact hc1
      · simp only [List.getElem?_concat_length, Option.some.injEq] at hy
        subst hy; exact ⟨rfl, rfl⟩

end Fv.Chan.Topic
