import Fv.Lemmas.SyncRwWakeL2
/-!
Local (stepping-thread) lemmas for the no-lost-wakeup proof of the rwlock model, part 2: loss of
`WOKEN`, unlinking while holding a guard, `is_writer` of queued nodes.
-/
namespace Fv.Sync.RwLock
open Fv.Sync
variable {cfg : Cfg} {s s' : State} {t : Tid} {l : Lbl}

set_option maxHeartbeats 16000000 in
/-- a queued node loses `WOKEN` only by its owner's re-arm, which leaves the owner active -/
theorem woken_clear_local (hi : Inv s) (h : Step cfg s t l s') :
    ∀ n, (s.wl.node n).woken = true → (s'.wl.node n).woken = false → (s'.wl.node n).linked = true →
      me t (s'.th t) = n ∧ activePc (s'.th t).pc = true := by
  have a1 := hi.syncCur t; have a2 := hi.asyncCur t; have a5 := hi.ffOk t
  have a4 := hi.thrNode t
  have c := hi.futNode
  have b6 := hi.phFresh t; have b7 := hi.phStarted t
  unfold PFutNode at c
  clear hi
  step_cases h
  all_goals (intro n h1 h2 h3)
  all_goals (try norm_state)
  all_goals wg

set_option maxHeartbeats 16000000 in
/-- unlinking steps of a thread that is not dropping a future leave it holding a guard -/
theorem unlink_holds (hi : Inv s) (hw : WInv s) (h : Step cfg s t l s')
    (hpc : (s.th t).pc = .qCas ∨ (s.th t).pc = .llSwap .spinUnlink ∨ (s.th t).pc = .llSwap .finish) :
    s'.wl.queue ≠ s.wl.queue → (t, (s.th t).wr) ∈ s'.holders := by
  have a3 := hw.hl t
  clear hi hw
  step_cases h
  all_goals (try norm_state)
  all_goals wg

set_option maxHeartbeats 16000000 in
/-- the `is_writer` field of a queued node is never written -/
theorem step_isWriter_linked (hi : Inv s) (h : Step cfg s t l s') :
    ∀ n, (s.wl.node n).linked = true → (s'.wl.node n).isWriter = (s.wl.node n).isWriter := by
  have a1 := hi.syncCur t; have a2 := hi.asyncCur t
  have a4 := hi.thrNode t
  have c := hi.futNode
  have b6 := hi.phFresh t
  unfold PFutNode at c
  clear hi
  step_cases h
  all_goals (intro n h1)
  all_goals (try norm_state)
  all_goals (first | rfl | wg)

end Fv.Sync.RwLock
