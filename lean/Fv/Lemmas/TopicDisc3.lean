import Fv.Lemmas.TopicDisc2
/-! Single-sender invariant, what the receive forms answer, disconnect at shutdown. -/
namespace Fv.Chan.Topic

/-- programs that never clone a sender keep exactly one sender handle, and then a disconnected
live mailbox implies that this handle is gone -/
structure DI (s : St) : Prop where
  one : s.txs.length = 1
  sound : ∀ (r : Nat) (x : Rx), s.rxs[r]? = some x → x.live = true → x.disc = true → sendersGone s = true

theorem DI_init (cap : Nat) (k : Kind) : DI (init cap k) := by
  refine ⟨rfl, ?_⟩
  intro r x hx _ hd
  cases r with
  | zero => simp only [init, List.getElem?_cons_zero, Option.some.injEq] at hx; subst hx; simp at hd
  | succ n => simp [init] at hx

theorem single_tx (s : St) (h : Nat) (x : Tx) (hone : s.txs.length = 1) (hx : s.txs[h]? = some x) :
    h = 0 ∧ s.txs = [x] := by
  match hs : s.txs, hone with
  | [a], _ =>
    rw [hs] at hx
    cases h with
    | zero => simp at hx; subst hx; exact ⟨rfl, rfl⟩
    | succ n => simp at hx

theorem sendersGone_after_sClose (s : St) (h : Nat) (x : Tx) (hone : s.txs.length = 1) (hx : txLive s h = some x) :
    sendersGone (sClose s h).1 = true := by
  obtain ⟨hx1, _⟩ := txLive_some s h x hx
  obtain ⟨h0, htx⟩ := single_tx s h x hone hx1
  subst h0
  unfold sClose
  simp only [hx]
  by_cases hc : x.closed = true
  · simp only [hc, if_true]
    simp [sendersGone, htx, hc]
  · simp only [hc]
    simp [sendersGone, senderCloseInternal, htx, modAt]

theorem DI_step (s : St) (op : Op) (hop : ∀ h, op ≠ .sClone h) (hd : DI s) : DI (step s op).1 := by
  refine ⟨by rw [txs_length_step s op hop]; exact hd.one, ?_⟩
  intro r y hy hl hdisc
  by_cases hend : op.isSenderEnd = true
  · -- the only sender handle is closed / dropped (or the op was invalid)
    have key : ∀ h, (op = .sClose h ∨ op = .sDrop h) → sendersGone (step s op).1 = true := by
      intro h hop'
      cases htx : txLive s h with
      | none =>
        -- nothing executed
        have : (step s op).1 = s := by
          rcases hop' with rfl | rfl
          · simp [step, sClose, htx]
          · simp [step, sDrop, htx]
        rw [this] at hy ⊢
        exact hd.sound r y hy hl hdisc
      | some x =>
        have h1 := sendersGone_after_sClose s h x hd.one htx
        rcases hop' with rfl | rfl
        · exact h1
        · simp only [step, sDrop, htx]
          rw [sendersGone_eq] at h1 ⊢
          exact all_modAt _ _ _ _ (fun x _ => by simp [gonePred]) h1
    cases op with
    | sClose h => exact key h (Or.inl rfl)
    | sDrop h => exact key h (Or.inr rfl)
    | _ => simp [Op.isSenderEnd] at hend
  · by_cases hlt : r < s.rxs.length
    · obtain ⟨x, hx, hR⟩ := rel_step (fun x y => y.live = true → y.disc = true → x.live = true ∧ x.disc = true)
        (fun _ h1 h2 => ⟨h1, h2⟩) (fun _ _ _ h1 h2 h3 h4 => h1 (h2 h3 h4).1 (h2 h3 h4).2)
        (fun m x => by unfold deliver; split <;> exact fun h1 h2 => ⟨h1, h2⟩)
        (fun _ _ h1 h2 => ⟨h1, h2⟩) (fun _ _ h1 h2 => ⟨h1, h2⟩) (fun _ h => by simp at h)
        (fun _ h1 h2 => ⟨h1, h2⟩) (fun _ _ h1 h2 => ⟨h1, h2⟩)
        s op (fun h => absurd h hend) r y hy hlt
      obtain ⟨h1, h2⟩ := hR hl hdisc
      exact sendersGone_step s op hop (hd.sound r x hx h1 h2)
    · have := (step_new_entry s op r y hy hlt).1
      rw [this] at hdisc; cases hdisc

/-! ### what the receive forms answer -/

theorem recvWith_res (s : St) (r : Nat) (x : Rx) (d e : Res) :
    (recvWith s r x d e).2 =
      match x.buf with
      | (t, v) :: _ => .msg t v
      | [] => if x.disc then d else e := by
  unfold recvWith
  cases hb : x.buf with
  | nil => simp only []; split <;> rfl
  | cons m rest => obtain ⟨t, v⟩ := m; rfl

/-- a receive form answers Disconnected only on an empty mailbox whose flag is set (or, for
`recv_timeout` alone, on an empty mailbox of a handle that was itself closed) -/
theorem recv_disc_cases (s : St) (op : Op) (r : Nat) (ht : recvTarget op = some r)
    (hres : (step s op).2 = .disc ∨ (step s op).2 = .none) :
    ∃ x, s.rxs[r]? = some x ∧ x.live = true ∧ x.buf = [] ∧
      (x.disc = true ∨ (x.closed = true ∧ op = .recvTimeout0 r)) := by
  have key : ∀ (x : Rx) (d e : Res), rxLive s r = some x →
      ((recvWith s r x d e).2 = .disc ∨ (recvWith s r x d e).2 = .none) →
      (e = .disc ∨ e = .none → x.closed = true ∧ op = .recvTimeout0 r) →
      ∃ x, s.rxs[r]? = some x ∧ x.live = true ∧ x.buf = [] ∧ (x.disc = true ∨ (x.closed = true ∧ op = .recvTimeout0 r)) := by
    intro x d e hx hr he
    obtain ⟨h1, h2⟩ := rxLive_some s r x hx
    rw [recvWith_res] at hr
    refine ⟨x, h1, h2, ?_⟩
    cases hb : x.buf with
    | cons m rest => obtain ⟨t, v⟩ := m; simp [hb] at hr
    | nil =>
      refine ⟨rfl, ?_⟩
      simp only [hb] at hr
      by_cases hd : x.disc = true
      · exact Or.inl hd
      · simp only [hd] at hr; exact Or.inr (he hr)
  cases op with
  | tryRecv q =>
    simp only [recvTarget, Option.some.injEq] at ht; subst ht
    simp only [step, tryRecv] at hres
    split at hres
    · simp at hres
    · rename_i x hx; exact key x _ _ hx hres (by simp)
  | recv q =>
    simp only [recvTarget, Option.some.injEq] at ht; subst ht
    simp only [step, recv] at hres
    split at hres
    · simp at hres
    · rename_i x hx
      split at hres
      · exact key x _ _ hx hres (by simp)
      · exact key x _ _ hx hres (by simp)
  | recvTimeout0 q =>
    simp only [recvTarget, Option.some.injEq] at ht; subst ht
    simp only [step, recvTimeout0] at hres
    split at hres
    · simp at hres
    · rename_i x hx
      split at hres
      · simp at hres
      · split at hres
        · rename_i hc; exact key x _ _ hx hres (fun _ => ⟨hc, rfl⟩)
        · exact key x _ _ hx hres (by simp)
  | pollNext q =>
    simp only [recvTarget, Option.some.injEq] at ht; subst ht
    simp only [step, pollNext] at hres
    split at hres
    · simp at hres
    · rename_i x hx
      split at hres
      · simp at hres
      · exact key x _ _ hx hres (by simp)
  | _ => simp [recvTarget] at ht

/-- on an empty mailbox whose flag is set every receive form answers Disconnected (the stream
form: end of stream) — never Empty / Timeout / Pending / would park -/
theorem recv_when_disc (s : St) (op : Op) (r : Nat) (x : Rx) (ht : recvTarget op = some r)
    (hx : s.rxs[r]? = some x) (hl : x.live = true) (hb : x.buf = []) (hd : x.disc = true) :
    (step s op).2 = .disc ∨ (step s op).2 = .none ∨ (step s op).2 = .invalid := by
  have hlive : rxLive s r = some x := by simp [rxLive, hx, hl]
  have key : ∀ d e, (recvWith s r x d e).2 = d := by
    intro d e; rw [recvWith_res]; simp [hb, hd]
  cases op with
  | tryRecv q =>
    simp only [recvTarget, Option.some.injEq] at ht; subst ht
    left; simp only [step, tryRecv, hlive, key]
  | recv q =>
    simp only [recvTarget, Option.some.injEq] at ht; subst ht
    left; simp only [step, recv, hlive]
    split <;> exact key _ _
  | recvTimeout0 q =>
    simp only [recvTarget, Option.some.injEq] at ht; subst ht
    simp only [step, recvTimeout0, hlive]
    split
    · right; right; rfl
    · left; split <;> exact key _ _
  | pollNext q =>
    simp only [recvTarget, Option.some.injEq] at ht; subst ht
    simp only [step, pollNext, hlive]
    split
    · right; right; rfl
    · right; left; exact key _ _
  | _ => simp [recvTarget] at ht

/-! ### shutdown pushes the flag to every subscribed mailbox -/

/-- a sender handle that is open right now is closed or dropped by `op` -/
def IsShutdownOf (s : St) (op : Op) (h : Nat) : Prop :=
  (op = .sClose h ∨ op = .sDrop h) ∧ ∃ tx, txLive s h = some tx ∧ tx.closed = false

theorem shutdown_rxs (s : St) (op : Op) (h : Nat) (hsd : IsShutdownOf s op h) :
    (step s op).1.rxs = disconnectTo s.rxs (s.regs.map (fun p => p.2)) := by
  obtain ⟨hop, tx, htx, hc⟩ := hsd
  rcases hop with rfl | rfl
  · simp [step, sClose, htx, hc, senderCloseInternal]
  · simp [step, sDrop, sClose, htx, hc, senderCloseInternal]

theorem shutdown_disc (s : St) (op : Op) (h : Nat) (hsd : IsShutdownOf s op h) {P : Prop} (hri : RI P s)
    (r : Nat) (x : Rx) (hx : s.rxs[r]? = some x) (hl : x.live = true) (hs : x.subs ≠ []) :
    ∃ y, (step s op).1.rxs[r]? = some y ∧ y.disc = true ∧ y.live = true := by
  obtain ⟨_, tx, htx, _⟩ := id hsd
  have hda := dispAlive_of_txLive s h tx htx
  obtain ⟨a, _, _, d⟩ := hri.ok r x hx hl
  have hh : x.hasDisp = true := by
    cases hh : x.hasDisp with
    | true => rfl
    | false => rw [a hh] at hda; cases hda
  obtain ⟨t, ht⟩ := List.exists_mem_of_ne_nil _ hs
  have hm : r ∈ s.regs.map (fun p => p.2) := List.mem_map.2 ⟨(t, r), d hh hda t ht, rfl⟩
  rw [shutdown_rxs s op h hsd, getElem?_disconnectTo, if_pos hm, hx]
  exact ⟨_, rfl, by simp [hl, disconnect], by simp [hl, disconnect]⟩

end Fv.Chan.Topic
