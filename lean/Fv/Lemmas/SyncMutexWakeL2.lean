import Fv.Lemmas.SyncMutexWakeL
/-!
Wake invariant of the mutex model: the per-thread conjuncts are preserved (other threads via
frames).
-/
namespace Fv.Sync.Mutex
open Fv.Sync
variable {cfg : Cfg} {s s' : State} {t : Tid} {l : Lbl}

theorem NodeKept.linked {n : Nid} (h : NodeKept s s' t n) : (s'.wl.node n).linked = (s.wl.node n).linked := by
  rcases h with h | ⟨_, _, h⟩ <;> rw [h]

theorem NodeKept.eq_of_not_wnStore {n : Nid} (h : NodeKept s s' t n) (hp : (s.th t).pc ≠ .wnStore) :
    s'.wl.node n = s.wl.node n := by
  rcases h with h | ⟨h1, _, _⟩
  · exact h
  · exact absurd h1 hp

theorem inLL_wnStore : inLL Pc.wnStore = true := rfl

/-- the own node of another thread `u` that is inside its acquisition -/
theorem node_other (hi : Inv s) (h : Step cfg s t l s') {u : Tid} (hu : u ≠ t)
    (hown : (s.th u).cur = none ∨ futPc (s.th u).pc = true) : NodeKept s s' t (me u (s.th u)) := by
  cases hc : (s.th u).cur with
  | none => simp only [me, hc]; exact step_node_thr h u hu
  | some f =>
    simp only [me, hc]
    have hp : futPc (s.th u).pc = true := by
      rcases hown with h0 | h0
      · rw [hc] at h0; cases h0
      · exact h0
    obtain ⟨hb, huniq⟩ := hi.busy u f hc hp
    exact step_node_fut h (hi.syncCur t) (hi.asyncCur t) f hb (fun ⟨h1, h2⟩ => hu (huniq t h1 h2).symm)

/-- … and is untouched if `u` holds the list lock -/
theorem node_other_inLL (hi : Inv s) (h : Step cfg s t l s') {u : Tid} (hu : u ≠ t)
    (hll : inLL (s.th u).pc = true)
    (hown : (s.th u).cur = none ∨ futPc (s.th u).pc = true) :
    s'.wl.node (me u (s.th u)) = s.wl.node (me u (s.th u)) := by
  refine (node_other hi h hu hown).eq_of_not_wnStore ?_
  intro hp
  have := (hi.ll u hll).2 t (by rw [hp]; rfl)
  exact hu this.symm

theorem armed_inLL {pc : Pc} (h : armedPc pc = true) : inLL pc = true := by
  cases pc <;> first | rfl | cases h
theorem armed_own {pc : Pc} (h : armedPc pc = true) : syncOnly pc = true ∨ futPc pc = true := by
  cases pc with
  | llRel a => cases a <;> first | (left; rfl) | (right; rfl) | cases h
  | qFetchOr => right; rfl
  | qLoad => right; rfl
  | qCas => right; rfl
  | _ => cases h

/-- the queue is frozen while another thread holds the list lock -/
theorem queue_frozen (hi : Inv s) (h : Step cfg s t l s') {u : Tid} (hu : u ≠ t)
    (hll : inLL (s.th u).pc = true) : s'.wl.queue = s.wl.queue := by
  obtain ⟨hlk, huniq⟩ := hi.ll u hll
  have hnt : ∀ pc, (s.th t).pc = pc → inLL pc = true → False := by
    intro pc hp hin; exact hu (huniq t (by rw [hp]; exact hin)).symm
  rcases step_queue h with hq | ⟨hp, -⟩ | ⟨-, -, hp | ⟨hl, -⟩⟩
  · exact hq
  · exact (hnt _ hp rfl).elim
  · exact (hnt _ hp rfl).elim
  · rw [hlk] at hl; cases hl

theorem perthread_step (hi : Inv s) (hw : WInv s) (h : Step cfg s t l s') :
    PBoc s' ∧ PBoPark s' ∧ PQw s' ∧ PQz s' ∧ PPk s' ∧ PT1 s' ∧ PHl s' := by
  obtain ⟨k0, k1, k2, k3, k4, k5, k6⟩ := wake_local hi hw h
  have ho := step_th_other h
  have hfo := step_fut_other h (hi.syncCur t) (hi.asyncCur t)
  refine ⟨?_, ?_, ?_, ?_, ?_, ?_, ?_⟩
  · intro u f hc hp
    by_cases hu : u = t
    · subst hu; exact k0 f hc hp
    · rw [ho u hu] at hc hp ⊢
      obtain ⟨hb, huniq⟩ := hi.busy u f hc hp
      rw [(hfo f hb (fun ⟨h1, h2⟩ => hu (huniq t h1 h2).symm)).1]
      exact hw.boc u f hc hp
  · intro u hp
    by_cases hu : u = t
    · subst hu; exact k1 hp
    · rw [ho u hu] at hp ⊢; exact hw.boPark u hp
  · intro u hp
    by_cases hu : u = t
    · subst hu; exact k2 hp
    · rw [ho u hu] at hp ⊢
      have hown : (s.th u).cur = none ∨ futPc (s.th u).pc = true := Or.inr (by rw [hp]; rfl)
      rw [node_other_inLL hi h hu (by rw [hp]; rfl) hown]
      exact hw.qw u hp
  · intro u hp
    by_cases hu : u = t
    · subst hu; exact k3 hp
    · rw [ho u hu] at hp ⊢
      have hown : (s.th u).cur = none ∨ futPc (s.th u).pc = true := by
        rcases armed_own hp with h1 | h1
        · exact Or.inl (hi.syncCur u h1)
        · exact Or.inr h1
      rw [node_other_inLL hi h hu (armed_inLL hp) hown]
      exact hw.qz u hp
  · intro u hp
    by_cases hu : u = t
    · subst hu; exact k4 hp
    · rw [ho u hu] at hp ⊢
      have hown : (s.th u).cur = none ∨ futPc (s.th u).pc = true := by
        rcases hp with hp | hp | hp
        · exact Or.inl (hi.syncCur u (by rw [hp]; rfl))
        · exact Or.inl (hi.syncCur u (by rw [hp]; rfl))
        · exact Or.inr (by rw [hp]; rfl)
      rw [(node_other hi h hu hown).linked]
      exact hw.pk u hp
  · intro u hp
    by_cases hu : u = t
    · subst hu; exact k5 hp
    · rw [ho u hu] at hp ⊢
      rw [queue_frozen hi h hu (by rw [hp]; rfl)]
      exact hw.t1 u hp
  · intro u hp
    by_cases hu : u = t
    · subst hu; exact k6 hp
    · rw [ho u hu] at hp
      exact step_holders_other h u true hu (hw.hl u hp)

end Fv.Sync.Mutex
