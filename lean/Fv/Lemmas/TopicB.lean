import Fv.Chan.TopicB
import Fv.Lemmas.TopicStep
/-! Invariants of model B (send at mailbox-lock granularity) under every schedule. -/
namespace Fv.Chan.TopicB
open Fv.Chan.Topic

def snapshotAt (pubs : List BPub) (i : Nat) : List Nat :=
  match pubs[i]? with
  | some p => p.snapshot
  | none => []

structure FlightOk (b : BSt) (f : Flight) : Prop where
  lt : f.pid < b.pubs.length
  tid : tidAt b.pubs f.pid = f.tid
  msg : msgAtB b.pubs f.pid = (f.t, f.v)
  nodup : f.rem.Nodup
  fresh : ∀ m, f.pid ∈ b.acc m → m ∉ f.rem
  sub : ∀ m, m ∈ f.rem → m ∈ snapshotAt b.pubs f.pid
  latest : ∀ i, i < b.pubs.length → tidAt b.pubs i = f.tid → i ≤ f.pid

structure BI (b : BSt) : Prop where
  nd : b.q.regs.Nodup
  hist : ∀ m, b.got m ++ bufOf b.q m = (b.acc m).map (msgAtB b.pubs)
  bnd : ∀ m i, i ∈ b.acc m → i < b.pubs.length
  fl : ∀ f, f ∈ b.flights → FlightOk b f
  tids : b.flights.Pairwise (fun f g => f.tid ≠ g.tid)
  order : ∀ m, (b.acc m).Pairwise (fun i j => tidAt b.pubs i = tidAt b.pubs j → i < j)
  once : ∀ m, (b.acc m).Nodup
  window : ∀ m i, i ∈ b.acc m → m ∈ snapshotAt b.pubs i

theorem BI_binit (cap : Nat) (k : Kind) : BI (binit cap k) := by
  refine ⟨by simp [binit, init], ?_, by simp [binit], by simp [binit], by simp [binit], by simp [binit],
    by simp [binit], by simp [binit]⟩
  intro m
  simp only [binit, init, bufOf, List.nil_append, List.map_nil]
  cases m <;> simp

theorem flightOf_some (fs : List Flight) (tid : Nat) (f : Flight) (h : flightOf fs tid = some f) :
    f ∈ fs ∧ f.tid = tid := by
  unfold flightOf at h
  exact ⟨List.mem_of_find?_eq_some h, by simpa using List.find?_some h⟩

theorem flightOf_none (fs : List Flight) (tid : Nat) (h : flightOf fs tid = none) : ∀ f, f ∈ fs → f.tid ≠ tid := by
  unfold flightOf at h
  intro f hf
  have := List.find?_eq_none.1 h f hf
  simpa using this

/-! ### lookups in an extended log -/

theorem tidAt_append_lt (pubs : List BPub) (p : BPub) (i : Nat) (h : i < pubs.length) :
    tidAt (pubs ++ [p]) i = tidAt pubs i := by
  unfold tidAt; rw [List.getElem?_append_left h]

theorem msgAtB_append_lt (pubs : List BPub) (p : BPub) (i : Nat) (h : i < pubs.length) :
    msgAtB (pubs ++ [p]) i = msgAtB pubs i := by
  unfold msgAtB; rw [List.getElem?_append_left h]

theorem snapshotAt_append_lt (pubs : List BPub) (p : BPub) (i : Nat) (h : i < pubs.length) :
    snapshotAt (pubs ++ [p]) i = snapshotAt pubs i := by
  unfold snapshotAt; rw [List.getElem?_append_left h]

theorem tidAt_append_last (pubs : List BPub) (p : BPub) : tidAt (pubs ++ [p]) pubs.length = p.tid := by
  unfold tidAt; simp

theorem msgAtB_append_last (pubs : List BPub) (p : BPub) : msgAtB (pubs ++ [p]) pubs.length = (p.t, p.v) := by
  unfold msgAtB; simp

theorem snapshotAt_append_last (pubs : List BPub) (p : BPub) : snapshotAt (pubs ++ [p]) pubs.length = p.snapshot := by
  unfold snapshotAt; simp

/-! ### api steps -/

theorem BI_bapi (b : BSt) (op : Op) (hb : BI b) : BI (bapi b op) := by
  unfold bapi
  by_cases hs : isSend op = true
  · simp only [hs, if_true]; exact hb
  · simp only [hs]
    have hnd := step_regs_nodup b.q op hb.nd
    -- flights / pubs / acc are untouched in both branches
    have mk : ∀ (got' : Nat → List Msg),
        (∀ m, got' m ++ bufOf (step b.q op).1 m = (b.acc m).map (msgAtB b.pubs)) →
        BI { b with q := (step b.q op).1, got := got' } := by
      intro got' hh
      exact ⟨hnd, hh, hb.bnd, fun f hf => ⟨(hb.fl f hf).lt, (hb.fl f hf).tid, (hb.fl f hf).msg, (hb.fl f hf).nodup,
        (hb.fl f hf).fresh, (hb.fl f hf).sub, (hb.fl f hf).latest⟩, hb.tids, hb.order, hb.once, hb.window⟩
    have notSend : ∀ h t v, op ≠ .send h t v := by
      intro h t v he; subst he; simp [isSend] at hs
    apply mk
    intro m
    cases htgt : recvTarget op with
    | none =>
      have hq : op.isQuiet = true := by
        cases op <;> simp_all [Op.isQuiet, recvTarget, isSend]
      simp only [recordGot]
      rw [quiet_buf b.q op hq m]; exact hb.hist m
    | some r =>
      rcases recv_forms_buf b.q op r htgt with ⟨t, v, h1, h2, h3⟩ | ⟨h1, h2⟩
      · rw [h1]
        simp only [recordGot]
        by_cases hm : m = r
        · subst hm; rw [if_pos rfl, ← hb.hist m, h2]; simp
        · rw [if_neg hm, h3 m hm]; exact hb.hist m
      · have : recordGot b.got (some r) (step b.q op).2 = b.got := by
          cases hres : (step b.q op).2 with
          | msg t v => exact absurd hres (h1 t v)
          | _ => rfl
        rw [this, h2]; exact hb.hist m

/-! ### begin -/

theorem BI_bbegin (b : BSt) (tid h : Nat) (t : Topic) (v : Val) (hb : BI b) : BI (bbegin b tid h t v) := by
  unfold bbegin
  cases hfo : flightOf b.flights tid with
  | some f => exact hb
  | none =>
    simp only []
    cases htx : txLive b.q h with
    | none => exact hb
    | some x =>
      simp only []
      split
      · exact hb
      · have hfresh := flightOf_none b.flights tid hfo
        refine ⟨hb.nd, ?_, ?_, ?_, ?_, ?_, hb.once, ?_⟩
        · intro m
          simp only []
          rw [hb.hist m]
          apply List.map_congr_left
          intro i hi; exact (msgAtB_append_lt _ _ i (hb.bnd m i hi)).symm
        · intro m i hi
          simp only [List.length_append, List.length_cons, List.length_nil]
          have := hb.bnd m i hi; omega
        · intro f hf
          simp only [List.mem_append, List.mem_singleton] at hf
          rcases hf with hf | hf
          · have ok := hb.fl f hf
            refine ⟨by simp only [List.length_append, List.length_cons, List.length_nil]; have := ok.lt; omega,
              by rw [tidAt_append_lt _ _ _ ok.lt]; exact ok.tid, by rw [msgAtB_append_lt _ _ _ ok.lt]; exact ok.msg,
              ok.nodup, ok.fresh, ?_, ?_⟩
            · intro m hm; rw [snapshotAt_append_lt _ _ _ ok.lt]; exact ok.sub m hm
            · intro i hi hti
              simp only [List.length_append, List.length_cons, List.length_nil] at hi
              by_cases hlt : i < b.pubs.length
              · rw [tidAt_append_lt _ _ _ hlt] at hti; exact ok.latest i hlt hti
              · have : i = b.pubs.length := by omega
                subst this
                rw [tidAt_append_last] at hti
                exact absurd hti.symm (hfresh f hf)
          · subst hf
            refine ⟨by simp, by simp only []; rw [tidAt_append_last], by simp only []; rw [msgAtB_append_last],
              nodup_subsOf b.q t hb.nd, ?_, ?_, ?_⟩
            · intro m hm
              have := hb.bnd m _ hm
              simp at this
            · intro m hm; simp only []; rw [snapshotAt_append_last]; exact hm
            · intro i hi _
              simp only [List.length_append, List.length_cons, List.length_nil] at hi
              simp only []; omega
        · rw [List.pairwise_append]
          refine ⟨hb.tids, by simp, ?_⟩
          intro f hf g hg
          simp only [List.mem_singleton] at hg
          subst hg
          exact hfresh f hf
        · intro m
          refine (hb.order m).imp_of_mem ?_
          intro i j hi hj hij
          rw [tidAt_append_lt _ _ _ (hb.bnd m i hi), tidAt_append_lt _ _ _ (hb.bnd m j hj)]
          exact hij
        · intro m i hi
          rw [snapshotAt_append_lt _ _ _ (hb.bnd m i hi)]; exact hb.window m i hi

/-! ### deliver -/

theorem tid_inj (fs : List Flight) (hp : fs.Pairwise (fun f g => f.tid ≠ g.tid)) (f g : Flight)
    (hf : f ∈ fs) (hg : g ∈ fs) (h : f.tid = g.tid) : f = g := by
  induction fs with
  | nil => simp at hf
  | cons a l ih =>
    rw [List.pairwise_cons] at hp
    simp only [List.mem_cons] at hf hg
    rcases hf with rfl | hf <;> rcases hg with rfl | hg
    · rfl
    · exact absurd h (hp.1 g hg)
    · exact absurd h.symm (hp.1 f hf)
    · exact ih hp.2 hf hg

/-- one visit: the visited mailbox gets the message iff its owner is alive and it has room -/
theorem bufOf_visit (q : St) (m : Nat) (msg : Msg) (x : Nat) :
    bufOf (visitQ q m msg) x =
      match q.rxs[x]? with
      | some y => if x = m ∧ y.live = true ∧ y.buf.length < y.cap then y.buf ++ [msg] else y.buf
      | none => [] := by
  have := bufL_deliverTo msg q.rxs [m] (by simp) x
  simp only [deliverTo, List.mem_singleton] at this
  exact this

theorem BI_bdeliver (b : BSt) (tid : Nat) (hb : BI b) : BI (bdeliver b tid) := by
  unfold bdeliver
  cases hfo : flightOf b.flights tid with
  | none => exact hb
  | some f =>
    obtain ⟨hfm, hft⟩ := flightOf_some b.flights tid f hfo
    have okf := hb.fl f hfm
    simp only []
    cases hrem : f.rem with
    | nil =>
      -- the send returns: the flight disappears
      simp only []
      exact ⟨hb.nd, hb.hist, hb.bnd,
        fun g hg => by
          have hg' := (List.mem_filter.1 hg).1
          exact ⟨(hb.fl g hg').lt, (hb.fl g hg').tid, (hb.fl g hg').msg, (hb.fl g hg').nodup, (hb.fl g hg').fresh,
            (hb.fl g hg').sub, (hb.fl g hg').latest⟩,
        hb.tids.sublist List.filter_sublist, hb.order, hb.once, hb.window⟩
    | cons m rest =>
      simp only []
      by_cases hheld : b.held.contains m = true
      · simp only [hheld, if_true]; exact hb
      have hheld' : b.held.contains m = false := by cases hc : b.held.contains m with | true => exact absurd hc hheld | false => rfl
      simp only [hheld', Bool.false_eq_true, if_false]
      have hnd : (m :: rest).Nodup := hrem ▸ okf.nodup
      rw [List.nodup_cons] at hnd
      have hmrem : m ∈ f.rem := by rw [hrem]; exact List.mem_cons_self ..
      have hpid_not : f.pid ∉ b.acc m := fun hc => okf.fresh m hc hmrem
      -- buffers
      have hbuf := bufOf_visit b.q m (f.t, f.v)
      have hother : ∀ x, x ≠ m → bufOf (visitQ b.q m (f.t, f.v)) x = bufOf b.q x := by
        intro x hx
        rw [hbuf x]; unfold bufOf
        cases b.q.rxs[x]? with
        | none => rfl
        | some y => simp [hx]
      have hm_cases : bufOf (visitQ b.q m (f.t, f.v)) m = bufOf b.q m ++ [(f.t, f.v)] ∨
          bufOf (visitQ b.q m (f.t, f.v)) m = bufOf b.q m := by
        rw [hbuf m]; unfold bufOf
        cases b.q.rxs[m]? with
        | none => right; rfl
        | some y =>
          simp only [true_and]
          split
          · left; rfl
          · right; rfl
      -- the new acc, case by case
      have hacc : ∀ x, bumpAcc b.acc m f.pid (grewAt b.q (visitQ b.q m (f.t, f.v)) m) x = b.acc x ∨
          (x = m ∧ bufOf (visitQ b.q m (f.t, f.v)) m = bufOf b.q m ++ [(f.t, f.v)] ∧
            bumpAcc b.acc m f.pid (grewAt b.q (visitQ b.q m (f.t, f.v)) m) x = b.acc x ++ [f.pid]) := by
        intro x
        unfold bumpAcc grewAt
        by_cases hx : x = m
        · rcases hm_cases with h1 | h1
          · right; refine ⟨hx, h1, ?_⟩
            rw [if_pos ⟨hx, by rw [h1]; simp⟩]
          · left; rw [if_neg]; rw [h1]; intro hc; simp at hc
        · left; rw [if_neg (fun hc => hx hc.1)]
      have hgrow_acc : bufOf (visitQ b.q m (f.t, f.v)) m = bufOf b.q m ++ [(f.t, f.v)] →
          bumpAcc b.acc m f.pid (grewAt b.q (visitQ b.q m (f.t, f.v)) m) m = b.acc m ++ [f.pid] := by
        intro h4
        unfold bumpAcc grewAt
        rw [if_pos ⟨rfl, by rw [h4]; simp⟩]
      refine ⟨hb.nd, ?_, ?_, ?_, ?_, ?_, ?_, ?_⟩
      · -- hist
        intro x
        show b.got x ++ bufOf (visitQ b.q m (f.t, f.v)) x =
          (bumpAcc b.acc m f.pid (grewAt b.q (visitQ b.q m (f.t, f.v)) m) x).map (msgAtB b.pubs)
        rcases hacc x with h1 | ⟨hx, h2, h3⟩
        · rw [h1]
          by_cases hx : x = m
          · subst hx
            rcases hm_cases with h4 | h4
            · -- grew but acc unchanged: impossible
              exfalso
              rw [hgrow_acc h4] at h1
              have := congrArg List.length h1
              simp at this
            · rw [h4]; exact hb.hist x
          · rw [hother x hx]; exact hb.hist x
        · subst hx
          rw [h3, h2, List.map_append, ← hb.hist x]
          simp [okf.msg]
      · -- bnd
        intro x i hi
        change i ∈ bumpAcc b.acc m f.pid (grewAt b.q (visitQ b.q m (f.t, f.v)) m) x at hi
        show i < b.pubs.length
        rcases hacc x with h1 | ⟨_, _, h3⟩
        · rw [h1] at hi; exact hb.bnd x i hi
        · rw [h3, List.mem_append] at hi
          rcases hi with hi | hi
          · exact hb.bnd x i hi
          · simp only [List.mem_singleton] at hi; subst hi; exact okf.lt
      · -- flights
        intro g hg
        obtain ⟨g0, hg0, rfl⟩ := List.mem_map.1 hg
        have ok0 := hb.fl g0 hg0
        by_cases hgt : (g0.tid == tid) = true
        · have hg0f : g0 = f := tid_inj b.flights hb.tids g0 f hg0 hfm (by rw [hft]; simpa using hgt)
          subst hg0f
          simp only [hgt, if_true]
          refine ⟨ok0.lt, ok0.tid, ok0.msg, hnd.2, ?_, ?_, ok0.latest⟩
          · intro x hx
            change g0.pid ∈ bumpAcc b.acc m g0.pid (grewAt b.q (visitQ b.q m (g0.t, g0.v)) m) x at hx
            rcases hacc x with h1 | ⟨hxm, _, h3⟩
            · rw [h1] at hx
              have := ok0.fresh x hx
              rw [hrem] at this
              exact fun hc => this (List.mem_cons_of_mem _ hc)
            · subst hxm; exact hnd.1
          · intro x hx; exact ok0.sub x (by rw [hrem]; exact List.mem_cons_of_mem _ hx)
        · simp only [hgt]
          have hne : g0.pid ≠ f.pid := by
            intro hc
            have h1 := ok0.tid; rw [hc, okf.tid] at h1
            exact hgt (by rw [← h1, hft]; simp)
          refine ⟨ok0.lt, ok0.tid, ok0.msg, ok0.nodup, ?_, ok0.sub, ok0.latest⟩
          intro x hx
          change g0.pid ∈ bumpAcc b.acc m f.pid (grewAt b.q (visitQ b.q m (f.t, f.v)) m) x at hx
          rcases hacc x with h1 | ⟨_, _, h3⟩
          · rw [h1] at hx; exact ok0.fresh x hx
          · rw [h3, List.mem_append] at hx
            rcases hx with hx | hx
            · exact ok0.fresh x hx
            · simp only [List.mem_singleton] at hx; exact absurd hx hne
      · -- tids
        rw [List.pairwise_map]
        refine hb.tids.imp ?_
        intro g1 g2 h12
        by_cases h1 : (g1.tid == tid) = true <;> by_cases h2 : (g2.tid == tid) = true <;> simp [h1, h2] <;> exact h12
      · -- order
        intro x
        show (bumpAcc b.acc m f.pid (grewAt b.q (visitQ b.q m (f.t, f.v)) m) x).Pairwise
          (fun i j => tidAt b.pubs i = tidAt b.pubs j → i < j)
        rcases hacc x with h1 | ⟨hxm, _, h3⟩
        · rw [h1]; exact hb.order x
        · subst hxm
          rw [h3, List.pairwise_append]
          refine ⟨hb.order x, by simp, ?_⟩
          intro i hi j hj hij
          simp only [List.mem_singleton] at hj; subst hj
          have h1 := okf.latest i (hb.bnd x i hi) (by rw [hij, okf.tid])
          have h2 : i ≠ f.pid := fun hc => hpid_not (hc ▸ hi)
          omega
      · -- once
        intro x
        show (bumpAcc b.acc m f.pid (grewAt b.q (visitQ b.q m (f.t, f.v)) m) x).Nodup
        rcases hacc x with h1 | ⟨hxm, _, h3⟩
        · rw [h1]; exact hb.once x
        · subst hxm
          rw [h3, List.nodup_append]
          refine ⟨hb.once x, by simp, ?_⟩
          intro i hi j hj
          simp only [List.mem_singleton] at hj; subst hj
          exact fun hc => hpid_not (hc ▸ hi)
      · -- window
        intro x i hi
        change i ∈ bumpAcc b.acc m f.pid (grewAt b.q (visitQ b.q m (f.t, f.v)) m) x at hi
        show x ∈ snapshotAt b.pubs i
        rcases hacc x with h1 | ⟨hxm, _, h3⟩
        · rw [h1] at hi; exact hb.window x i hi
        · subst hxm
          rw [h3, List.mem_append] at hi
          rcases hi with hi | hi
          · exact hb.window x i hi
          · simp only [List.mem_singleton] at hi; subst hi; exact okf.sub x hmrem

/-- parking / waking touch neither the channel state nor the history variables -/
theorem BI_of_same (b b' : BSt) (h1 : b'.q = b.q) (h2 : b'.flights = b.flights) (h3 : b'.pubs = b.pubs)
    (h4 : b'.acc = b.acc) (h5 : b'.got = b.got) (hb : BI b) : BI b' := by
  refine ⟨h1 ▸ hb.nd, fun m => by rw [h1, h3, h4, h5]; exact hb.hist m, fun m i hi => by rw [h3]; rw [h4] at hi; exact hb.bnd m i hi,
    ?_, h2 ▸ hb.tids, fun m => by rw [h3, h4]; exact hb.order m, fun m => by rw [h4]; exact hb.once m,
    fun m i hi => by rw [h3]; rw [h4] at hi; exact hb.window m i hi⟩
  intro f hf
  rw [h2] at hf
  have ok := hb.fl f hf
  exact ⟨h3 ▸ ok.lt, h3 ▸ ok.tid, h3 ▸ ok.msg, ok.nodup, fun m hm => ok.fresh m (h4 ▸ hm), fun m hm => h3 ▸ ok.sub m hm,
    fun i hi ht => ok.latest i (h3 ▸ hi) (h3 ▸ ht)⟩

theorem bpark_same (b : BSt) (r : Nat) (h : Bool) :
    (bpark b r h).q = b.q ∧ (bpark b r h).flights = b.flights ∧ (bpark b r h).pubs = b.pubs ∧
    (bpark b r h).acc = b.acc ∧ (bpark b r h).got = b.got := by
  unfold bpark; split
  · exact ⟨rfl, rfl, rfl, rfl, rfl⟩
  · split <;> exact ⟨rfl, rfl, rfl, rfl, rfl⟩

theorem BI_bstep (b : BSt) (o : BOp) (hb : BI b) : BI (bstep b o) := by
  cases o with
  | api op => exact BI_bapi b op hb
  | begin tid h t v => exact BI_bbegin b tid h t v hb
  | deliver tid => exact BI_bdeliver b tid hb
  | park r => obtain ⟨h1, h2, h3, h4, h5⟩ := bpark_same b r false; exact BI_of_same b _ h1 h2 h3 h4 h5 hb
  | wake r => exact BI_of_same b _ rfl rfl rfl rfl rfl hb
  | parkHolding r => obtain ⟨h1, h2, h3, h4, h5⟩ := bpark_same b r true; exact BI_of_same b _ h1 h2 h3 h4 h5 hb

theorem BI_brun (b : BSt) (os : List BOp) (hb : BI b) : BI (brun b os) := by
  induction os generalizing b with
  | nil => exact hb
  | cons o os ih => exact ih _ (BI_bstep b o hb)

end Fv.Chan.TopicB
