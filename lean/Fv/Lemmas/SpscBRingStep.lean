import Fv.Lemmas.SpscBCtl3
/-! Preservation of the ring invariant `RInv` by every step; `Reach → CInv ∧ RInv`. -/
namespace Fv.Chan.SpscB

attribute [local grind =] upd_apply updN_apply
attribute [local grind] isPush isPop constrained
attribute [local grind cases] Role

/-! continuation results are never at a constrained position -/
@[simp] theorem afterNotify_nc (l : Loc) : constrained (afterNotify l).m = false := by
  unfold afterNotify; split <;> rfl
@[simp] theorem afterUnreg_nc (l : Loc) : constrained (afterUnreg l).m = false := by
  unfold afterUnreg; split <;> rfl
@[simp] theorem loopTop_nc (l : Loc) : constrained (loopTop l).m = false := by
  unfold loopTop; split <;> rfl
@[simp] theorem waitStep_nc (l : Loc) : constrained (waitStep l).m = false := by
  obtain ⟨k, m, reg, spun, v, t, h, tm⟩ := l
  cases reg <;> cases spun <;> cases tm <;> rfl
@[simp] theorem afterPush_nc (l : Loc) (b : Bool) : constrained (afterPush l b).m = false := by
  obtain ⟨k, m, reg, spun, v, t, h, tm⟩ := l
  cases k <;> cases b <;> cases reg <;> cases spun <;> cases tm <;> rfl
@[simp] theorem afterPop_nc (l : Loc) (x : Option Nat) : constrained (afterPop l x).m = false := by
  obtain ⟨k, m, reg, spun, v, t, h⟩ := l
  cases k <;> cases x <;> cases reg <;> rfl

/-- non-ring step: frame rule -/
syntax "rinv_nonring " ident ident ident " [" Lean.Parser.Tactic.simpLemma,* "]" : tactic
macro_rules
  | `(tactic| rinv_nonring $hi $h $r [$ls,*]) => `(tactic| (
  simp only [$ls,*, setLoc, afterWake, afterClose] at $h:ident
  repeat' split at $h:ident
  all_goals (first | (simp at $h:ident <;> try subst $h:ident) | skip)
  all_goals (
    refine rinv_frame $hi rfl ?_
    intro q hq
    dsimp only at hq ⊢
    simp only [upd_apply] at hq ⊢
    split
    · next e =>
      simp only [e, ↓reduceIte] at hq
      first | (simp at hq; done) | (simp [constrained] at hq; done) | (split at hq <;> simp [constrained] at hq)
    · rfl)))

theorem rinv_call {s s' : State} {r : Role} (hi : RInv s) (h : stepCall s r = some s') : RInv s' := by
  rinv_nonring hi h r [stepCall]
theorem rinv_ret {s s' : State} {r : Role} (hi : RInv s) (h : stepRet s r = some s') : RInv s' := by
  rinv_nonring hi h r [stepRet]
theorem rinv_fence {s s' : State} {r : Role} (hi : RInv s) (h : stepFence s r = some s') : RInv s' := by
  rinv_nonring hi h r [stepFence]
theorem rinv_ldGate {s s' : State} {r : Role} (hi : RInv s) (h : stepLdGate s r = some s') : RInv s' := by
  rinv_nonring hi h r [stepLdGate]
theorem rinv_lock {s s' : State} {r : Role} (hi : RInv s) (h : stepLock s r = some s') : RInv s' := by
  rinv_nonring hi h r [stepLock]
theorem rinv_stGate {s s' : State} {r : Role} (hi : RInv s) (h : stepStGate s r = some s') : RInv s' := by
  rinv_nonring hi h r [stepStGate]
theorem rinv_stFlag {s s' : State} {r : Role} (hi : RInv s) (h : stepStFlag s r = some s') : RInv s' := by
  rinv_nonring hi h r [stepStFlag]
theorem rinv_unlock {s s' : State} {r : Role} (hi : RInv s) (h : stepUnlock s r = some s') : RInv s' := by
  rinv_nonring hi h r [stepUnlock]
theorem rinv_unpark {s s' : State} {r : Role} (hi : RInv s) (h : stepUnpark s r = some s') : RInv s' := by
  rinv_nonring hi h r [stepUnpark]
theorem rinv_park {s s' : State} {r : Role} (hi : RInv s) (h : stepPark s r = some s') : RInv s' := by
  rinv_nonring hi h r [stepPark]
theorem rinv_spurious {s s' : State} {r : Role} (hi : RInv s) (h : stepSpurious s r = some s') : RInv s' := by
  rinv_nonring hi h r [stepSpurious]
theorem rinv_swapFlag {s s' : State} {r : Role} (hi : RInv s) (h : stepSwapFlag s r = some s') : RInv s' := by
  rinv_nonring hi h r [stepSwapFlag]
theorem rinv_spin {s s' : State} {r : Role} (hi : RInv s) (h : stepSpin s r = some s') : RInv s' := by
  rinv_nonring hi h r [stepSpin]
theorem rinv_deadline {s s' : State} {r : Role} (hi : RInv s) (h : stepDeadline s r = some s') : RInv s' := by
  rinv_nonring hi h r [stepDeadline]
theorem rinv_ldClosed {s s' : State} {r : Role} (hi : RInv s) (h : stepLdClosed s r = some s') : RInv s' := by
  rinv_nonring hi h r [stepLdClosed]
theorem rinv_ldDropped {s s' : State} {r : Role} (hi : RInv s) (h : stepLdDropped s r = some s') : RInv s' := by
  rinv_nonring hi h r [stepLdDropped]
theorem rinv_ldCount {s s' : State} {r : Role} (hi : RInv s) (h : stepLdCount s r = some s') : RInv s' := by
  rinv_nonring hi h r [stepLdCount]
theorem rinv_casClosed {s s' : State} {r : Role} (hi : RInv s) (h : stepCasClosed s r = some s') : RInv s' := by
  rinv_nonring hi h r [stepCasClosed]
theorem rinv_swapClosed {s s' : State} {r : Role} (hi : RInv s) (h : stepSwapClosed s r = some s') : RInv s' := by
  rinv_nonring hi h r [stepSwapClosed]
theorem rinv_stDropped {s s' : State} {r : Role} (hi : RInv s) (h : stepStDropped s r = some s') : RInv s' := by
  rinv_nonring hi h r [stepStDropped]
theorem rinv_subCount {s s' : State} {r : Role} (hi : RInv s) (h : stepSubCount s r = some s') : RInv s' := by
  rinv_nonring hi h r [stepSubCount]

end Fv.Chan.SpscB
