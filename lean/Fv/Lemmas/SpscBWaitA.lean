import Fv.Lemmas.SpscBWait
/-! Preservation of the lock / gate / slot discipline `WA`. -/
namespace Fv.Chan.SpscB

attribute [local grind =] upd_apply
attribute [local grind] holdsSelf holdsW
attribute [local grind cases] Role

syntax "wa_step " ident ident " [" Lean.Parser.Tactic.simpLemma,* "]" : tactic
macro_rules
  | `(tactic| wa_step $hi $h [$ls,*]) => `(tactic| (
  obtain ⟨a1, a2, a3, a4, b1, b2, b3, b4, b5, b6⟩ := $hi
  simp only [$ls,*, setLoc, afterWake, afterClose] at $h:ident
  repeat' split at $h:ident
  all_goals (first | (simp at $h:ident <;> try subst $h:ident) | skip)
  all_goals (refine ⟨?_, ?_, ?_, ?_, ?_, ?_, ?_, ?_, ?_, ?_⟩ <;>
    (dsimp only; (try simp only [afterNotify, afterUnreg, afterPush, afterPop, loopTop, waitStep]); grind))))

set_option maxHeartbeats 2000000 in
theorem wa_lock {s s' : State} {r : Role} (hi : WA s) (h : stepLock s r = some s') : WA s' := by
  wa_step hi h [stepLock]

set_option maxHeartbeats 2000000 in
theorem wa_stGate {s s' : State} {r : Role} (hi : WA s) (h : stepStGate s r = some s') : WA s' := by
  wa_step hi h [stepStGate]

set_option maxHeartbeats 2000000 in
theorem wa_stFlag {s s' : State} {r : Role} (hi : WA s) (h : stepStFlag s r = some s') : WA s' := by
  wa_step hi h [stepStFlag]

set_option maxHeartbeats 2000000 in
theorem wa_unlock {s s' : State} {r : Role} (hi : WA s) (h : stepUnlock s r = some s') : WA s' := by
  wa_step hi h [stepUnlock]

/-- micro positions the lock discipline talks about -/
def lockMic : Mic → Bool
  | .rgStGate | .rgUnlock | .urStGate | .urUnlock | .wkStGate _ | .wkStFlag | .wkUnlock _ => true
  | _ => false

theorem holdsSelf_lockMic {m : Mic} (h : holdsSelf m = true) : lockMic m = true := by
  cases m <;> simp_all [holdsSelf, lockMic]
theorem holdsW_lockMic {m : Mic} (h : holdsW m = true) : lockMic m = true := by
  cases m <;> simp_all [holdsW, lockMic]

/-- **Frame rule** for `WA`: a step that leaves gates, slots and mutexes alone and neither enters
nor leaves a lock-holding position preserves the discipline. -/
theorem wa_frame {s s' : State} (hi : WA s) (hg : s'.gate = s.gate) (hs : s'.slot = s.slot) (hl : s'.locked = s.locked)
    (hm : ∀ q, (s'.loc q).m = (s.loc q).m ∨ (lockMic (s'.loc q).m = false ∧ lockMic (s.loc q).m = false)) : WA s' := by
  obtain ⟨a1, a2, a3, a4, b1, b2, b3, b4, b5, b6⟩ := hi
  have hS : ∀ q, holdsSelf (s'.loc q).m = holdsSelf (s.loc q).m := by
    intro q
    rcases hm q with h | ⟨h1, h2⟩
    · rw [h]
    · cases e1 : holdsSelf (s'.loc q).m <;> cases e2 : holdsSelf (s.loc q).m <;> try rfl
      · have := holdsSelf_lockMic e2; simp_all
      · have := holdsSelf_lockMic e1; simp_all
  have hW : ∀ q, holdsW (s'.loc q).m = holdsW (s.loc q).m := by
    intro q
    rcases hm q with h | ⟨h1, h2⟩
    · rw [h]
    · cases e1 : holdsW (s'.loc q).m <;> cases e2 : holdsW (s.loc q).m <;> try rfl
      · have := holdsW_lockMic e2; simp_all
      · have := holdsW_lockMic e1; simp_all
  have hE : ∀ q m, lockMic m = true → ((s'.loc q).m = m ↔ (s.loc q).m = m) := by
    intro q m hlm
    rcases hm q with h | ⟨h1, h2⟩
    · rw [h]
    · constructor
      · intro h; rw [h] at h1; simp_all
      · intro h; rw [h] at h2; simp_all
  refine ⟨?_, ?_, ?_, ?_, ?_, ?_, ?_, ?_, ?_, ?_⟩
  · intro q; rw [hS, hl]; exact a1 q
  · intro q; rw [hW, hl]; exact a2 q
  · intro q; rw [hS, hW, hl]; exact a3 q
  · intro q; rw [hS, hW]; exact a4 q
  · intro q f; rw [hs, hg, hE q _ rfl]; exact b1 q f
  · intro q; rw [hs, hg, hE q _ rfl, hE (other q) _ rfl, hE (other q) _ rfl]; exact b2 q
  · intro q; rw [hs, hE q _ rfl, hE q _ rfl]; exact b3 q
  · intro q; rw [hW, hs]; exact b4 q
  · intro q f; rw [hs]; exact b5 q f
  · intro q; rw [hs, hE q _ rfl, hE q _ rfl]; exact b6 q

@[simp] theorem afterNotify_nl (l : Loc) : lockMic (afterNotify l).m = false := by
  unfold afterNotify; split <;> rfl
@[simp] theorem loopTop_nl (l : Loc) : lockMic (loopTop l).m = false := by
  unfold loopTop; split <;> rfl
@[simp] theorem waitStep_nl (l : Loc) : lockMic (waitStep l).m = false := by
  obtain ⟨k, m, reg, spun, v, t, h, tm⟩ := l
  cases reg <;> cases spun <;> cases tm <;> rfl
@[simp] theorem afterPush_nl (l : Loc) (b : Bool) : lockMic (afterPush l b).m = false := by
  obtain ⟨k, m, reg, spun, v, t, h, tm⟩ := l
  cases k <;> cases b <;> cases reg <;> cases spun <;> cases tm <;> rfl
@[simp] theorem afterPop_nl (l : Loc) (x : Option Nat) : lockMic (afterPop l x).m = false := by
  obtain ⟨k, m, reg, spun, v, t, h⟩ := l
  cases k <;> cases x <;> cases reg <;> rfl

/-- step outside the lock-holding positions: frame rule -/
syntax "wa_nonlock " ident ident " [" Lean.Parser.Tactic.simpLemma,* "]" : tactic
macro_rules
  | `(tactic| wa_nonlock $hi $h [$ls,*]) => `(tactic| (
  simp only [$ls,*, setLoc, afterWake, afterClose] at $h:ident
  repeat' split at $h:ident
  all_goals (first | (simp at $h:ident <;> try subst $h:ident) | skip)
  all_goals (
    refine wa_frame $hi rfl rfl rfl ?_
    intro q
    dsimp only
    simp only [upd_apply]
    split
    · next e =>
      right
      refine ⟨?_, ?_⟩
      · first | (simp; done) | (simp [lockMic]; done) | (split <;> simp [lockMic])
      · simp [*, lockMic]
    · left; rfl)))

theorem wa_call {s s' : State} {r : Role} (hi : WA s) (h : stepCall s r = some s') : WA s' := by
  wa_nonlock hi h [stepCall]
theorem wa_ret {s s' : State} {r : Role} (hi : WA s) (h : stepRet s r = some s') : WA s' := by
  wa_nonlock hi h [stepRet]
theorem wa_ldTail {s s' : State} {r : Role} (hi : WA s) (h : stepLdTail s r = some s') : WA s' := by
  wa_nonlock hi h [stepLdTail]
theorem wa_ldHead {s s' : State} {r : Role} (hi : WA s) (h : stepLdHead s r = some s') : WA s' := by
  wa_nonlock hi h [stepLdHead]
theorem wa_stTail {s s' : State} {r : Role} (hi : WA s) (h : stepStTail s r = some s') : WA s' := by
  wa_nonlock hi h [stepStTail]
theorem wa_stHead {s s' : State} {r : Role} (hi : WA s) (h : stepStHead s r = some s') : WA s' := by
  wa_nonlock hi h [stepStHead]
theorem wa_fence {s s' : State} {r : Role} (hi : WA s) (h : stepFence s r = some s') : WA s' := by
  wa_nonlock hi h [stepFence]
theorem wa_ldGate {s s' : State} {r : Role} (hi : WA s) (h : stepLdGate s r = some s') : WA s' := by
  wa_nonlock hi h [stepLdGate]
theorem wa_unpark {s s' : State} {r : Role} (hi : WA s) (h : stepUnpark s r = some s') : WA s' := by
  wa_nonlock hi h [stepUnpark]
theorem wa_park {s s' : State} {r : Role} (hi : WA s) (h : stepPark s r = some s') : WA s' := by
  wa_nonlock hi h [stepPark]
theorem wa_spurious {s s' : State} {r : Role} (hi : WA s) (h : stepSpurious s r = some s') : WA s' := by
  wa_nonlock hi h [stepSpurious]
theorem wa_swapFlag {s s' : State} {r : Role} (hi : WA s) (h : stepSwapFlag s r = some s') : WA s' := by
  wa_nonlock hi h [stepSwapFlag]
theorem wa_spin {s s' : State} {r : Role} (hi : WA s) (h : stepSpin s r = some s') : WA s' := by
  wa_nonlock hi h [stepSpin]
theorem wa_deadline {s s' : State} {r : Role} (hi : WA s) (h : stepDeadline s r = some s') : WA s' := by
  wa_nonlock hi h [stepDeadline]
theorem wa_ldClosed {s s' : State} {r : Role} (hi : WA s) (h : stepLdClosed s r = some s') : WA s' := by
  wa_nonlock hi h [stepLdClosed]
theorem wa_ldDropped {s s' : State} {r : Role} (hi : WA s) (h : stepLdDropped s r = some s') : WA s' := by
  wa_nonlock hi h [stepLdDropped]
theorem wa_ldCount {s s' : State} {r : Role} (hi : WA s) (h : stepLdCount s r = some s') : WA s' := by
  wa_nonlock hi h [stepLdCount]
theorem wa_casClosed {s s' : State} {r : Role} (hi : WA s) (h : stepCasClosed s r = some s') : WA s' := by
  wa_nonlock hi h [stepCasClosed]
theorem wa_swapClosed {s s' : State} {r : Role} (hi : WA s) (h : stepSwapClosed s r = some s') : WA s' := by
  wa_nonlock hi h [stepSwapClosed]
theorem wa_stDropped {s s' : State} {r : Role} (hi : WA s) (h : stepStDropped s r = some s') : WA s' := by
  wa_nonlock hi h [stepStDropped]
theorem wa_subCount {s s' : State} {r : Role} (hi : WA s) (h : stepSubCount s r = some s') : WA s' := by
  wa_nonlock hi h [stepSubCount]

end Fv.Chan.SpscB
