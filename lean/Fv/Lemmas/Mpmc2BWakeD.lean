import Fv.Lemmas.Mpmc2BWakeK
/-! **No dangling waiter record** (`InvD`) of the mpmc v2 B-model — the invariant whose failure was finding F17.
Every record queued in `waiting_async_receivers` belongs to a LIVE `RecvFuture` of its owner: the owner's control
state is inside a poll of that future (`arTry` / `arReg`), Pending on it (`arPend`), about to unlink it after a close
(`arUnl`) or inside its `Drop` (`fdUnlR`). Hence the raw state pointer of a queued record never outlives the future
(the memory a sender CASes / wakes through is alive), on EVERY reachable state: no hypothesis on the environment's
`poll` / `dropFut` labels (spurious polls, drops of woken futures included).
Before fix cd494c8 the locked section `stepArTry` returned Ready without unlinking (`C06_fails_F17_…`).
One lemma per step function (same boilerplate as the other groups). -/
namespace Fv.Chan.Mpmc2B
set_option linter.unusedVariables false

/-- control states of an agent whose `RecvFuture` on record `r` is alive and may have its record queued -/
def liveFutR : PC → Option Nat
  | .arTry r => some r | .arReg r => some r | .arPend r => some r | .arUnl r => some r | .fdUnlR r => some r
  | .idle => none | .done _ => none | .sTry _ _ => none | .sReg _ _ => none | .sWait _ _ => none | .sPark _ _ => none
  | .sUnl _ _ _ => none | .tsTry _ => none
  | .rTry _ => none | .rReg _ => none | .rWait _ => none | .rPark _ => none | .rUnl _ => none | .trTry => none
  | .toTry _ => none | .toReg _ => none | .toRetry _ => none | .toCas _ => none | .toUnl _ => none | .toFin _ => none
  | .asNew _ _ => none | .asTry _ _ => none | .asReg _ _ => none | .asPend _ _ => none | .asUnl _ _ _ => none
  | .asRef _ _ => none | .fdUnlS _ _ => none
  | .arNew _ => none
  | .hCloneS => none | .hCloneR => none | .hCloseS => none | .hCloseR => none | .hProbe => none | .hWake _ => none

theorem liveFutR_recOf {p : PC} {r : Nat} (h : liveFutR p = some r) : recOf p = some r := by
  cases p <;> simp_all [liveFutR, recOf]

structure InvD (s : State) : Prop where
  live_war : ∀ r, r ∈ s.war → liveFutR (s.pc (s.owner r)) = some r

theorem invD_init (cap : Nat) : InvD (init cap) := by
  constructor <;> simp [init]

attribute [local grind] recOf sendSide recvFutRec liveFutR
attribute [local grind =] nodup_snoc upd_apply bump_apply List.Nodup.mem_erase_iff List.mem_filter
attribute [local grind →] firstW_some firstW_none' frontW_some List.mem_of_mem_erase recvFutRec_recOf liveFutR_recOf
attribute [local grind ←] List.Nodup.erase nodup_filter
attribute [local grind cases] WS

theorem invD_sTry {s : State} {t : Nat} {v : Nat} {r : Nat} (hk : InvK s) (hi : InvD s) (hpc : s.pc t = .sTry v r) : InvD (stepSTry s t v r) := by
  obtain ⟨hk1, hk2, hk3, hk4, hk5, hk6, hk7, hk8⟩ := hk
  obtain ⟨h1⟩ := hi
  unfold stepSTry
  repeat' split
  wk_close

theorem invD_sReg {s : State} {t : Nat} {v : Nat} {r : Nat} (hk : InvK s) (hi : InvD s) (hpc : s.pc t = .sReg v r) : InvD (stepSReg s t v r) := by
  obtain ⟨hk1, hk2, hk3, hk4, hk5, hk6, hk7, hk8⟩ := hk
  obtain ⟨h1⟩ := hi
  unfold stepSReg
  repeat' split
  wk_close

theorem invD_sWait {s : State} {t : Nat} {v : Nat} {r : Nat} (hk : InvK s) (hi : InvD s) (hpc : s.pc t = .sWait v r) : InvD (stepSWait s t v r) := by
  obtain ⟨hk1, hk2, hk3, hk4, hk5, hk6, hk7, hk8⟩ := hk
  obtain ⟨h1⟩ := hi
  unfold stepSWait
  repeat' split
  wk_close

theorem invD_sUnl {s : State} {t : Nat} {v : Nat} {r : Nat} {c : Bool} (hk : InvK s) (hi : InvD s) (hpc : s.pc t = .sUnl v r c) : InvD (stepSUnl s t v r c) := by
  obtain ⟨hk1, hk2, hk3, hk4, hk5, hk6, hk7, hk8⟩ := hk
  obtain ⟨h1⟩ := hi
  unfold stepSUnl
  repeat' split
  wk_close

theorem invD_tsTry {s : State} {t : Nat} {v : Nat} (hk : InvK s) (hi : InvD s) (hpc : s.pc t = .tsTry v) : InvD (stepTsTry s t v) := by
  obtain ⟨hk1, hk2, hk3, hk4, hk5, hk6, hk7, hk8⟩ := hk
  obtain ⟨h1⟩ := hi
  unfold stepTsTry
  repeat' split
  wk_close

theorem invD_rTry {s : State} {t : Nat} {r : Nat} (hk : InvK s) (hi : InvD s) (hpc : s.pc t = .rTry r) : InvD (stepRTry s t r) := by
  obtain ⟨hk1, hk2, hk3, hk4, hk5, hk6, hk7, hk8⟩ := hk
  obtain ⟨h1⟩ := hi
  unfold stepRTry
  repeat' split
  wk_close

theorem invD_rReg {s : State} {t : Nat} {r : Nat} (hk : InvK s) (hi : InvD s) (hpc : s.pc t = .rReg r) : InvD (stepRReg s t r) := by
  obtain ⟨hk1, hk2, hk3, hk4, hk5, hk6, hk7, hk8⟩ := hk
  obtain ⟨h1⟩ := hi
  unfold stepRReg
  repeat' split
  wk_close

theorem invD_rWait {s : State} {t : Nat} {r : Nat} (hk : InvK s) (hi : InvD s) (hpc : s.pc t = .rWait r) : InvD (stepRWait s t r) := by
  obtain ⟨hk1, hk2, hk3, hk4, hk5, hk6, hk7, hk8⟩ := hk
  obtain ⟨h1⟩ := hi
  unfold stepRWait
  repeat' split
  wk_close

theorem invD_rUnl {s : State} {t : Nat} {r : Nat} (hk : InvK s) (hi : InvD s) (hpc : s.pc t = .rUnl r) : InvD (stepRUnl s t r) := by
  obtain ⟨hk1, hk2, hk3, hk4, hk5, hk6, hk7, hk8⟩ := hk
  obtain ⟨h1⟩ := hi
  unfold stepRUnl
  repeat' split
  wk_close

theorem invD_trTry {s : State} {t : Nat} (hk : InvK s) (hi : InvD s) (hpc : s.pc t = .trTry) : InvD (stepTrTry s t ) := by
  obtain ⟨hk1, hk2, hk3, hk4, hk5, hk6, hk7, hk8⟩ := hk
  obtain ⟨h1⟩ := hi
  unfold stepTrTry
  repeat' split
  wk_close

theorem invD_toTry {s : State} {t : Nat} {r : Nat} (hk : InvK s) (hi : InvD s) (hpc : s.pc t = .toTry r) : InvD (stepToTry s t r) := by
  obtain ⟨hk1, hk2, hk3, hk4, hk5, hk6, hk7, hk8⟩ := hk
  obtain ⟨h1⟩ := hi
  unfold stepToTry
  repeat' split
  wk_close

theorem invD_toReg {s : State} {t : Nat} {r : Nat} (hk : InvK s) (hi : InvD s) (hpc : s.pc t = .toReg r) : InvD (stepToReg s t r) := by
  obtain ⟨hk1, hk2, hk3, hk4, hk5, hk6, hk7, hk8⟩ := hk
  obtain ⟨h1⟩ := hi
  unfold stepToReg
  repeat' split
  wk_close

theorem invD_toRetry {s : State} {t : Nat} {r : Nat} (hk : InvK s) (hi : InvD s) (hpc : s.pc t = .toRetry r) : InvD (stepToRetry s t r) := by
  obtain ⟨hk1, hk2, hk3, hk4, hk5, hk6, hk7, hk8⟩ := hk
  obtain ⟨h1⟩ := hi
  unfold stepToRetry
  repeat' split
  wk_close

theorem invD_toCas {s : State} {t : Nat} {r : Nat} (hk : InvK s) (hi : InvD s) (hpc : s.pc t = .toCas r) : InvD (stepToCas s t r) := by
  obtain ⟨hk1, hk2, hk3, hk4, hk5, hk6, hk7, hk8⟩ := hk
  obtain ⟨h1⟩ := hi
  unfold stepToCas
  repeat' split
  wk_close

theorem invD_toUnl {s : State} {t : Nat} {r : Nat} (hk : InvK s) (hi : InvD s) (hpc : s.pc t = .toUnl r) : InvD (stepToUnl s t r) := by
  obtain ⟨hk1, hk2, hk3, hk4, hk5, hk6, hk7, hk8⟩ := hk
  obtain ⟨h1⟩ := hi
  unfold stepToUnl
  repeat' split
  wk_close

theorem invD_toFin {s : State} {t : Nat} {r : Nat} (hk : InvK s) (hi : InvD s) (hpc : s.pc t = .toFin r) : InvD (stepToFin s t r) := by
  obtain ⟨hk1, hk2, hk3, hk4, hk5, hk6, hk7, hk8⟩ := hk
  obtain ⟨h1⟩ := hi
  unfold stepToFin
  repeat' split
  wk_close

theorem invD_asTry {s : State} {t : Nat} {v : Nat} {r : Nat} (hk : InvK s) (hi : InvD s) (hpc : s.pc t = .asTry v r) : InvD (stepAsTry s t v r) := by
  obtain ⟨hk1, hk2, hk3, hk4, hk5, hk6, hk7, hk8⟩ := hk
  obtain ⟨h1⟩ := hi
  unfold stepAsTry
  repeat' split
  wk_close

theorem invD_asReg {s : State} {t : Nat} {v : Nat} {r : Nat} (hk : InvK s) (hi : InvD s) (hpc : s.pc t = .asReg v r) : InvD (stepAsReg s t v r) := by
  obtain ⟨hk1, hk2, hk3, hk4, hk5, hk6, hk7, hk8⟩ := hk
  obtain ⟨h1⟩ := hi
  unfold stepAsReg
  repeat' split
  wk_close

theorem invD_asUnl {s : State} {t : Nat} {v : Nat} {r : Nat} {c : Bool} (hk : InvK s) (hi : InvD s) (hpc : s.pc t = .asUnl v r c) : InvD (stepAsUnl s t v r c) := by
  obtain ⟨hk1, hk2, hk3, hk4, hk5, hk6, hk7, hk8⟩ := hk
  obtain ⟨h1⟩ := hi
  unfold stepAsUnl
  repeat' split
  wk_close

theorem invD_asRef {s : State} {t : Nat} {v : Nat} {r : Nat} (hk : InvK s) (hi : InvD s) (hpc : s.pc t = .asRef v r) : InvD (stepAsRef s t v r) := by
  obtain ⟨hk1, hk2, hk3, hk4, hk5, hk6, hk7, hk8⟩ := hk
  obtain ⟨h1⟩ := hi
  unfold stepAsRef
  repeat' split
  wk_close

theorem invD_fdUnlS {s : State} {t : Nat} {v : Nat} {r : Nat} (hk : InvK s) (hi : InvD s) (hpc : s.pc t = .fdUnlS v r) : InvD (stepFdUnlS s t v r) := by
  obtain ⟨hk1, hk2, hk3, hk4, hk5, hk6, hk7, hk8⟩ := hk
  obtain ⟨h1⟩ := hi
  unfold stepFdUnlS
  repeat' split
  wk_close

theorem invD_arTry {s : State} {t : Nat} {r : Nat} (hk : InvK s) (hi : InvD s) (hpc : s.pc t = .arTry r) : InvD (stepArTry s t r) := by
  obtain ⟨hk1, hk2, hk3, hk4, hk5, hk6, hk7, hk8⟩ := hk
  obtain ⟨h1⟩ := hi
  unfold stepArTry
  repeat' split
  wk_close

theorem invD_arReg {s : State} {t : Nat} {r : Nat} (hk : InvK s) (hi : InvD s) (hpc : s.pc t = .arReg r) : InvD (stepArReg s t r) := by
  obtain ⟨hk1, hk2, hk3, hk4, hk5, hk6, hk7, hk8⟩ := hk
  obtain ⟨h1⟩ := hi
  unfold stepArReg
  repeat' split
  wk_close

theorem invD_arUnl {s : State} {t : Nat} {r : Nat} (hk : InvK s) (hi : InvD s) (hpc : s.pc t = .arUnl r) : InvD (stepArUnl s t r) := by
  obtain ⟨hk1, hk2, hk3, hk4, hk5, hk6, hk7, hk8⟩ := hk
  obtain ⟨h1⟩ := hi
  unfold stepArUnl
  repeat' split
  wk_close

theorem invD_fdUnlR {s : State} {t : Nat} {r : Nat} (hk : InvK s) (hi : InvD s) (hpc : s.pc t = .fdUnlR r) : InvD (stepFdUnlR s t r) := by
  obtain ⟨hk1, hk2, hk3, hk4, hk5, hk6, hk7, hk8⟩ := hk
  obtain ⟨h1⟩ := hi
  unfold stepFdUnlR
  repeat' split
  wk_close

theorem invD_hWake {s : State} {t : Nat} {ws : List Nat} (hk : InvK s) (hi : InvD s) (hpc : s.pc t = .hWake ws) : InvD (stepHWake s t ws) := by
  obtain ⟨hk1, hk2, hk3, hk4, hk5, hk6, hk7, hk8⟩ := hk
  obtain ⟨h1⟩ := hi
  unfold stepHWake
  repeat' split
  wk_close

theorem invD_sPark {s s' : State} {t : Nat} {v : Nat} {r : Nat} (hk : InvK s) (hi : InvD s) (hpc : s.pc t = .sPark v r) (h : stepSPark s t v r = some s') : InvD s' := by
  obtain ⟨hk1, hk2, hk3, hk4, hk5, hk6, hk7, hk8⟩ := hk
  obtain ⟨h1⟩ := hi
  unfold stepSPark at h
  repeat' split at h
  all_goals (simp at h; try subst h)
  wk_close

theorem invD_rPark {s s' : State} {t : Nat} {r : Nat} (hk : InvK s) (hi : InvD s) (hpc : s.pc t = .rPark r) (h : stepRPark s t r = some s') : InvD s' := by
  obtain ⟨hk1, hk2, hk3, hk4, hk5, hk6, hk7, hk8⟩ := hk
  obtain ⟨h1⟩ := hi
  unfold stepRPark at h
  repeat' split at h
  all_goals (simp at h; try subst h)
  wk_close

theorem invD_closeS {s s' : State} {t : Nat} (hk : InvK s) (hi : InvD s) (hpc : s.pc t = .hCloseS) (h : stepCloseS s t  = some s') : InvD s' := by
  obtain ⟨hk1, hk2, hk3, hk4, hk5, hk6, hk7, hk8⟩ := hk
  obtain ⟨h1⟩ := hi
  unfold stepCloseS at h
  repeat' split at h
  all_goals (simp at h; try subst h)
  wk_close

theorem invD_closeR {s s' : State} {t : Nat} (hk : InvK s) (hi : InvD s) (hpc : s.pc t = .hCloseR) (h : stepCloseR s t  = some s') : InvD s' := by
  obtain ⟨hk1, hk2, hk3, hk4, hk5, hk6, hk7, hk8⟩ := hk
  obtain ⟨h1⟩ := hi
  unfold stepCloseR at h
  repeat' split at h
  all_goals (simp at h; try subst h)
  wk_close

theorem invD_adv {s s' : State} {t : Nat} (hk : InvK s) (hi : InvD s) (h : stepAdv s t = some s') : InvD s' := by
  unfold stepAdv at h
  split at h
  all_goals (first | (simp at h; done) | skip)
  all_goals rename_i hpc
  case h_1 => simp at h; subst h; exact invD_sTry hk hi hpc
  case h_2 => simp at h; subst h; exact invD_sReg hk hi hpc
  case h_3 => simp at h; subst h; exact invD_sWait hk hi hpc
  case h_4 => exact invD_sPark hk hi hpc h
  case h_5 => simp at h; subst h; exact invD_sUnl hk hi hpc
  case h_6 => simp at h; subst h; exact invD_tsTry hk hi hpc
  case h_7 => simp at h; subst h; exact invD_rTry hk hi hpc
  case h_8 => simp at h; subst h; exact invD_rReg hk hi hpc
  case h_9 => simp at h; subst h; exact invD_rWait hk hi hpc
  case h_10 => exact invD_rPark hk hi hpc h
  case h_11 => simp at h; subst h; exact invD_rUnl hk hi hpc
  case h_12 => simp at h; subst h; exact invD_trTry hk hi hpc
  case h_13 => simp at h; subst h; exact invD_toTry hk hi hpc
  case h_14 => simp at h; subst h; exact invD_toReg hk hi hpc
  case h_15 => simp at h; subst h; exact invD_toRetry hk hi hpc
  case h_16 => simp at h; subst h; exact invD_toCas hk hi hpc
  case h_17 => simp at h; subst h; exact invD_toUnl hk hi hpc
  case h_18 => simp at h; subst h; exact invD_toFin hk hi hpc
  case h_19 => simp at h; subst h; exact invD_asTry hk hi hpc
  case h_20 => simp at h; subst h; exact invD_asReg hk hi hpc
  case h_21 => simp at h; subst h; exact invD_asUnl hk hi hpc
  case h_22 => simp at h; subst h; exact invD_asRef hk hi hpc
  case h_23 => simp at h; subst h; exact invD_fdUnlS hk hi hpc
  case h_24 => simp at h; subst h; exact invD_arTry hk hi hpc
  case h_25 => simp at h; subst h; exact invD_arReg hk hi hpc
  case h_26 => simp at h; subst h; exact invD_arUnl hk hi hpc
  case h_27 => simp at h; subst h; exact invD_fdUnlR hk hi hpc
  case h_28 =>
    simp at h; subst h
    obtain ⟨hk1, hk2, hk3, hk4, hk5, hk6, hk7, hk8⟩ := hk
    obtain ⟨h1⟩ := hi
    wk_close
  case h_29 =>
    simp at h; subst h
    obtain ⟨hk1, hk2, hk3, hk4, hk5, hk6, hk7, hk8⟩ := hk
    obtain ⟨h1⟩ := hi
    wk_close
  case h_30 => exact invD_closeS hk hi hpc h
  case h_31 => exact invD_closeR hk hi hpc h
  case h_32 =>
    simp at h; subst h
    obtain ⟨hk1, hk2, hk3, hk4, hk5, hk6, hk7, hk8⟩ := hk
    obtain ⟨h1⟩ := hi
    wk_close
  case h_33 => simp at h; subst h; exact invD_hWake hk hi hpc

set_option maxHeartbeats 1000000 in
theorem invD_call {s s' : State} {t : Nat} {op : Op} (hk : InvK s) (hi : InvD s) (h : stepCall s t op = some s') : InvD s' := by
  obtain ⟨hk1, hk2, hk3, hk4, hk5, hk6, hk7, hk8⟩ := hk
  obtain ⟨h1⟩ := hi
  unfold stepCall at h
  split at h
  · rename_i hr
    have hr' : s.pc t = .idle ∨ ∃ x, s.pc t = .done x := by
      cases hp : s.pc t <;> simp_all [PC.atRest]
    cases op <;> simp only [] at h
    all_goals (repeat' split at h)
    all_goals (simp at h; try subst h)
    wk_close
  · simp at h

theorem invD_poll {s s' : State} {t : Nat} (hk : InvK s) (hi : InvD s) (h : stepPoll s t = some s') : InvD s' := by
  obtain ⟨hk1, hk2, hk3, hk4, hk5, hk6, hk7, hk8⟩ := hk
  obtain ⟨h1⟩ := hi
  unfold stepPoll at h
  repeat' split at h
  all_goals (simp at h; try subst h)
  wk_close

theorem invD_dropFut {s s' : State} {t : Nat} (hk : InvK s) (hi : InvD s) (h : stepDropFut s t = some s') : InvD s' := by
  obtain ⟨hk1, hk2, hk3, hk4, hk5, hk6, hk7, hk8⟩ := hk
  obtain ⟨h1⟩ := hi
  unfold stepDropFut at h
  repeat' split at h
  all_goals (simp at h; try subst h)
  wk_close

theorem invD_spurious {s s' : State} {t : Nat} (hk : InvK s) (hi : InvD s) (h : stepSpurious s t = some s') : InvD s' := by
  obtain ⟨hk1, hk2, hk3, hk4, hk5, hk6, hk7, hk8⟩ := hk
  obtain ⟨h1⟩ := hi
  unfold stepSpurious at h
  repeat' split at h
  all_goals (simp at h; try subst h)
  wk_close

theorem invD_step {s s' : State} {t : Nat} {l : Label} (hk : InvK s) (hi : InvD s) (h : step s t l = some s') : InvD s' := by
  cases l <;> simp only [step] at h
  · exact invD_call hk hi h
  · exact invD_adv hk hi h
  · exact invD_poll hk hi h
  · exact invD_dropFut hk hi h
  · exact invD_spurious hk hi h



theorem invD_reach {cap : Nat} {s : State} (h : Reach cap s) : InvD s := by
  induction h with
  | init => exact invD_init cap
  | step hr hs ih => exact invD_step (invK_reach hr) ih hs

end Fv.Chan.Mpmc2B
