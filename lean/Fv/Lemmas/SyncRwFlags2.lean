import Fv.Lemmas.SyncRwFlags
/-!
Second invariant of the `HybridRwLock` model, continued: `HAS_QUEUED ⇔ 0 < len` outside its
windows; assembly of `Inv2_step`, `Inv2_init`, `Inv2_reach`.
-/
namespace Fv.Sync.RwLock
open Fv.Sync
variable {cfg : Cfg} {s s' : State} {t : Tid} {l : Lbl}

set_option maxHeartbeats 16000000 in
theorem hq_local (hi : Inv s) (h2 : Inv2 s) (h : Step cfg s t l s') :
    (s'.wl.locked = false → (s'.word.hq = true ↔ 0 < s'.wl.len))
    ∧ (inLL (s'.th t).pc = true → hqWin (s'.th t).pc = false → (s'.word.hq = true ↔ 0 < s'.wl.len))
    ∧ ((s'.th t).pc = .qFetchOr → 0 < s'.wl.len) := by
  have c1 := h2.hqFree; have c2 := h2.hqIn t; have c3 := h2.hqFo t
  have a : inLL (s.th t).pc = true → s.wl.locked = true := fun ht => (hi.ll t ht).1
  have g1 : ∀ n, (s.wl.node n).linked = true → 0 < s.wl.len := fun n hl => hi.wf.len_pos hl
  have e5 := hi.syncLinked t
  unfold PHqFree at c1
  clear hi h2
  step_cases h
  all_goals (try norm_state)
  all_goals grind [inLL, hqWin, slowL]

theorem Inv2_step (hi : Inv s) (h2 : Inv2 s) (h : Step cfg s t l s') : Inv2 s' := by
  obtain ⟨w1, w2, w3⟩ := wp_local hi h2 h
  obtain ⟨q1, q2, q3⟩ := hq_local hi h2 h
  have ho := step_th_other h
  have frozen : ∀ u, u ≠ t → inLL (s.th u).pc = true →
      s'.word.wp = s.word.wp ∧ s'.word.hq = s.word.hq ∧ s'.wl.writers = s.wl.writers ∧ s'.wl.len = s.wl.len := by
    intro u hu hin
    obtain ⟨hl, huniq⟩ := hi.ll u hin
    have htn : inLL (s.th t).pc = false := by
      cases hc : inLL (s.th t).pc
      · rfl
      · exact absurd (huniq t hc).symm hu
    obtain ⟨f1, f2, f3⟩ := step_flags_frozen h htn
    exact ⟨f1, f2, (f3 hl).1, (f3 hl).2⟩
  refine ⟨w1, ?_, ?_, q1, ?_, ?_⟩ <;> intro u <;> by_cases hu : u = t
  · subst hu; exact w2
  · rw [ho u hu]; intro hin hw
    obtain ⟨f1, -, f3, -⟩ := frozen u hu hin
    rw [f1, f3]; exact h2.wpIn u hin hw
  · subst hu; exact w3
  · rw [ho u hu]; intro hp
    obtain ⟨f1, -, f3, -⟩ := frozen u hu (by rw [hp]; rfl)
    rw [f1, f3]; exact h2.wpFo u hp
  · subst hu; exact q2
  · rw [ho u hu]; intro hin hw
    obtain ⟨-, f2, -, f4⟩ := frozen u hu hin
    rw [f2, f4]; exact h2.hqIn u hin hw
  · subst hu; exact q3
  · rw [ho u hu]; intro hp
    obtain ⟨-, -, -, f4⟩ := frozen u hu (by rw [hp]; rfl)
    rw [f4]; exact h2.hqFo u hp

theorem Inv2_init (prog : Tid → List ROp) : Inv2 (init prog) := by
  constructor <;> simp [init, PWpFree, PWpIn, PWpFo, PHqFree, PHqIn, PHqFo, inLL]

/-- the flag invariant holds in every reachable state -/
theorem Inv2_reach {s : State} (h : Reach cfg s) : Inv2 s := by
  have : Inv s ∧ Inv2 s := by
    refine ReachOf.inv (fun s => Inv s ∧ Inv2 s) ?_ ?_ s h
    · rintro s ⟨prog, rfl⟩; exact ⟨Inv_init prog, Inv2_init prog⟩
    · intro s t l s' hi hm
      exact ⟨Inv_step hi.1 (step_of_mem hm), Inv2_step hi.1 hi.2 (step_of_mem hm)⟩
  exact this.2

end Fv.Sync.RwLock
