import Fv.Lemmas.SyncRwWakeG
import Fv.Lemmas.SyncRwWakeG2
import Fv.Lemmas.SyncRwWakeG3
import Fv.Lemmas.SyncRwWakeN3
import Fv.Lemmas.SyncRwWakeK3
/-!
Assembly of the wake invariant of the rwlock model: `WInv_step`, `WInv_init`, `WInv_reach`.
-/
namespace Fv.Sync.RwLock
open Fv.Sync
variable {cfg : Cfg} {s s' : State} {t : Tid} {l : Lbl}

theorem w1_step (hi : Inv s) (hw : WInv s) (h : Step cfg s t l s') : PW1 s' := by
  intro n w hl hwt
  cases n with
  | thr u =>
    have := w1_thr hi hw h u w hl hwt
    subst this; simp [Targets]
  | fut f => exact w1_fut hi hw h f w hl hwt

theorem WInv_step (hi : Inv s) (h2 : Inv2 s) (hw : WInv s) (h : Step cfg s t l s') : WInv s' := by
  obtain ⟨p0, p1, p2, p3, p6⟩ := perthread_step hi hw h
  exact { boc := p0, boPark := p1, bb := bb_step hi hw h, w1 := w1_step hi hw h, w2 := w2_step hi hw h,
          qw := p2, qz := p3, pk := pk_step hi hw h, fl := fl_step hi hw h, tw := tw_step hi hw h,
          m2 := m2_step hi hw h, hl := p6, wk := wk_step hi hw h, nlw := nlw_step hi h2 hw h }

theorem WInv_init (prog : Tid → List ROp) : WInv (init prog) := by
  constructor
  all_goals
    simp [init, PBoc, PBoPark, PBb, PW1, PW2, PQw, PQz, PPk, PFl, PTw, PM2, PHl, PWk, PNlw, futPc, armedPc,
      holdUnlinkPc]

/-- the basic, the flag and the wake invariant hold in every reachable state -/
theorem WInv_reach {s : State} (h : Reach cfg s) : Inv s ∧ Inv2 s ∧ WInv s := by
  refine ReachOf.inv (fun s => Inv s ∧ Inv2 s ∧ WInv s) ?_ ?_ s h
  · rintro s ⟨prog, rfl⟩; exact ⟨Inv_init prog, Inv2_init prog, WInv_init prog⟩
  · intro s t l s' ⟨hi, h2, hw⟩ hm
    have hs := step_of_mem hm
    exact ⟨Inv_step hi hs, Inv2_step hi h2 hs, WInv_step hi h2 hw hs⟩

end Fv.Sync.RwLock
