import Fv.Lemmas.ChanMicro
import Fv.Lemmas.ChanLinCore
/-!
History-level accounting: along any linearization (`LinCore.Lin` instantiated with the channel
semantics) the ghost accounts of the model state, the operations still pending and the results
already returned add up.  From this the raw-history properties follow (`Fv/Props/C01.lean` …).
-/
namespace Fv.Chan
open List LinCore

/-! ### observables of a raw history -/

/-- every value passed to a send form that was *called* -/
def offered : History → List Val
  | [] => []
  | .call _ op :: r => op.vals ++ offered r
  | .ret _ _ :: r => offered r

/-- completed operations (operation, observed result) in order of return; `open_` = calls not yet returned -/
def completedFrom : List (Nat × Op) → History → List (Op × Res)
  | _, [] => []
  | open_, .call t op :: r => completedFrom ((t, op) :: open_) r
  | open_, .ret t res :: r =>
    match LinCore.lookup t open_ with
    | some op => (op, res) :: completedFrom (LinCore.erase t open_) r
    | none => completedFrom open_ r

def completed (h : History) : List (Op × Res) := completedFrom [] h

def isRecvOp : Op → Bool
  | .rcv _ _ _ => true
  | _ => false

def isSendOp : Op → Bool
  | .snd _ _ _ => true
  | _ => false

/-- values a completed operation reports as received -/
def recvVals (x : Op × Res) : List Val := if isRecvOp x.1 then x.2.vals else []
/-- values a completed send form handed back (error payload / unsent / left) -/
def backVals (x : Op × Res) : List Val := if isSendOp x.1 then x.2.vals else []
/-- values a completed send form reports as accepted: the first `cnt` of its input -/
def acceptedVals (x : Op × Res) : List Val := if isSendOp x.1 then x.1.vals.take x.2.cnt else []

def received (h : History) : List Val := (completed h).flatMap recvVals
def handedBack (h : History) : List Val := (completed h).flatMap backVals
def accepted (h : History) : List Val := (completed h).flatMap acceptedVals

/-! ### sums over the pending operations -/

def pendSum (f : P → List Val) (v : Val) : Pend PL → Nat
  | [] => 0
  | x :: r => count v (f x.2.2) + pendSum f v r

theorem pendSum_setP (f : P → List Val) (v : Val) {pend : Pend PL} {u : Nat} {op : Op} {p p' : P}
    (h : LinCore.lookup u pend = some (op, p)) :
    pendSum f v (setP u (op, p') pend) + count v (f p) = pendSum f v pend + count v (f p') := by
  induction pend with
  | nil => simp [LinCore.lookup] at h
  | cons a r ih =>
    obtain ⟨w, q⟩ := a
    simp only [LinCore.lookup] at h
    simp only [setP]
    split
    · rename_i hw
      simp only [hw, if_true] at h
      cases h
      simp only [pendSum]; omega
    · rename_i hw
      simp only [hw, if_false] at h
      have := ih h
      simp only [pendSum]; omega

theorem pendSum_erase (f : P → List Val) (v : Val) {pend : Pend PL} {u : Nat} {x : PL}
    (h : LinCore.lookup u pend = some x) :
    pendSum f v (LinCore.erase u pend) + count v (f x.2) = pendSum f v pend := by
  induction pend with
  | nil => simp [LinCore.lookup] at h
  | cons a r ih =>
    obtain ⟨w, q⟩ := a
    simp only [LinCore.lookup] at h
    simp only [LinCore.erase]
    split
    · rename_i hw
      simp only [hw, if_true] at h
      cases h
      simp only [pendSum]; omega
    · rename_i hw
      simp only [hw, if_false] at h
      have := ih h
      simp only [pendSum]; omega

/-! ### shape of an operation in progress w.r.t. the operation it belongs to -/

/-- `p` is a legal progress state of `op`: in particular a send form has partitioned its input
into `sent ++ rest`, and a finished send form satisfies `sent ++ back ++ lost = input`. -/
def PInv (op : Op) : P → Prop
  | .fresh _ op' => op' = op
  | .bsend _ _ _ sent rest _ => op.vals = sent ++ rest ∧ isSendOp op = true
  | .bsendEnd _ _ sent rest => op.vals = sent ++ rest ∧ isSendOp op = true
  | .brecv _ _ _ _ _ => isRecvOp op = true
  | .rvSend _ v => op.vals = [v] ∧ isSendOp op = true
  | .rvRecv _ => isRecvOp op = true
  | .rvTo _ _ => isRecvOp op = true
  | .osRecv _ _ => isRecvOp op = true
  | .stg _ _ _ sent rest => op.vals = sent ++ rest ∧ isRecvOp op = false
  | .fin o =>
    (isSendOp op = true →
      (op.vals = o.sent ++ o.back ++ o.lost ∨
        ((o.tag = .noHandle ∨ o.tag = .unsupported) ∧ o.sent = [] ∧ o.back = [] ∧ o.lost = [])) ∧ o.got = []) ∧
    (isRecvOp op = true → o.sent = [] ∧ o.back = [] ∧ o.lost = []) ∧
    (isSendOp op = false → isRecvOp op = false → o.sent = [] ∧ o.back = [] ∧ o.lost = [] ∧ o.got = [])


theorem PInv.fin_tag (op : Op) (tag : Tag) (val : PVal)
    (h : isSendOp op = false ∨ op.vals = [] ∨ tag = .noHandle ∨ tag = .unsupported) :
    PInv op (.fin { tag := tag, val := val }) := by
  unfold PInv
  refine ⟨fun hs => ⟨?_, rfl⟩, fun _ => ⟨rfl, rfl, rfl⟩, fun _ _ => ⟨rfl, rfl, rfl, rfl⟩⟩
  rcases h with h | h | h | h
  · simp [hs] at h
  · left; simp [h]
  · right; exact ⟨Or.inl h, rfl, rfl, rfl⟩
  · right; exact ⟨Or.inr h, rfl, rfl, rfl⟩

theorem failSend_pinv {op : Op} {fl s f tag sent rest} (h : op.vals = sent ++ rest) (hs : isSendOp op = true) :
    PInv op (failSend fl s f tag sent rest).2 := by
  unfold failSend
  split <;> simp [PInv, h, hs] <;> (cases op <;> simp_all [isSendOp, isRecvOp])

theorem trySendEnd_pinv {op : Op} {fl cfg s t f sent rest} (h : op.vals = sent ++ rest) (hs : isSendOp op = true) :
    PInv op (trySendEnd fl cfg s t f sent rest).2 := by
  unfold trySendEnd
  split
  · simp [PInv, h, hs]; cases op <;> simp_all [isSendOp, isRecvOp]
  · split
    · exact ⟨h, hs⟩
    · exact failSend_pinv h hs

theorem sendStep_pinv {op : Op} {fl cfg s t f h sent rest q spur s' p'}
    (hv : op.vals = sent ++ rest) (hso : isSendOp op = true)
    (hs : sendStep fl cfg s t f h sent rest q spur = some (s', p')) : PInv op p' := by
  have hr : isRecvOp op = false := by cases op <;> simp_all [isSendOp, isRecvOp]
  unfold sendStep at hs
  generalize sendK fl cfg s f rest q spur = k at hs
  split at hs
  · split at hs
    · cases hs; simp [PInv, hv, hso, hr]
    · obtain ⟨_, rfl⟩ := of_some_eq hs; exact failSend_pinv hv hso
  · split at hs
    · cases hs; exact ⟨hv, hso⟩
    · split at hs
      · cases hs; simp [PInv, hv, hso, hr]
      · have hv' : op.vals = (sent ++ take k rest) ++ drop k rest := by simp [hv]
        split at hs
        · split at hs
          · cases hs
          · obtain ⟨_, rfl⟩ := of_some_eq hs; exact trySendEnd_pinv hv hso
        · simp only [] at hs
          split at hs
          · cases hs; exact ⟨hv', hso⟩
          · obtain ⟨_, rfl⟩ := of_some_eq hs; exact trySendEnd_pinv hv' hso


theorem rvSendStep_pinv {op : Op} {fl s t f h v} (hv : op.vals = [v]) (hso : isSendOp op = true) :
    PInv op (rvSendStep fl s t f h v).2 := by
  have hr : isRecvOp op = false := by cases op <;> simp_all [isSendOp, isRecvOp]
  unfold rvSendStep
  split
  · exact failSend_pinv (by simpa using hv) hso
  · split
    · split <;> simp [PInv, hv, hso, hr]
    · split
      · exact ⟨hv, hso⟩
      · exact failSend_pinv (by simpa using hv) hso

theorem osSendStep_pinv {op : Op} {s h hd v} (hv : op.vals = [v]) (hso : isSendOp op = true) :
    PInv op (osSendStep s h hd v).2 := by
  have hr : isRecvOp op = false := by cases op <;> simp_all [isSendOp, isRecvOp]
  unfold osSendStep
  split
  · simp [PInv, hv, hso, hr]
  · split <;> simp [PInv, hv, hso, hr]

theorem osSendStart_pinv {op : Op} {cfg s t h hd v} (hv : op.vals = [v]) (hso : isSendOp op = true) :
    PInv op (osSendStart cfg s t h hd v).2 := by
  have hr : isRecvOp op = false := by cases op <;> simp_all [isSendOp, isRecvOp]
  unfold osSendStart
  split
  · split
    · simp [osSendFail, PInv, hv, hso, hr]
    · simp [PInv, hv, hr]
  · exact osSendStep_pinv hv hso

theorem stgStep_pinv {op : Op} {fl s t k h sent rest s' p'} (hp : PInv op (.stg t k h sent rest))
    (hs : stgStep fl s t k h sent rest = some (s', p')) : PInv op p' := by
  obtain ⟨hv, hr⟩ := hp
  have hn : isSendOp op = false → sent = [] ∧ rest = [] := by
    intro h0
    have : op.vals = [] := by cases op <;> simp_all [isSendOp, Op.vals]
    rw [this] at hv
    exact List.append_eq_nil_iff.mp hv.symm
  unfold stgStep at hs
  split at hs
  · split at hs
    · cases hs
      refine ⟨fun _ => ⟨Or.inl (by simp [hv]), rfl⟩, fun h1 => by simp [hr] at h1, fun h0 _ => ?_⟩
      obtain ⟨a, b⟩ := hn h0
      exact ⟨a, b, rfl, rfl⟩
    · cases hs; exact ⟨hv, hr⟩
  · split at hs
    · split at hs
      · split at hs
        · cases hs; exact ⟨by simp [hv], hr⟩
        · cases hs
      · cases hs
    · split at hs
      · rename_i hk
        cases hs
        obtain ⟨_, _, hrest⟩ := hk
        subst hrest
        refine ⟨fun _ => ⟨Or.inl (by simp [hv]), rfl⟩, fun h1 => by simp [hr] at h1, fun h0 _ => ?_⟩
        exact ⟨(hn h0).1, rfl, rfl, rfl⟩
      · split at hs
        · rename_i hk
          cases hs
          exact PInv.fin_tag _ _ _ (Or.inr (Or.inl (by simp [hv, hk.2.1, hk.2.2])))
        · split at hs
          · rename_i hk
            cases hs
            exact PInv.fin_tag _ _ _ (Or.inr (Or.inl (by simp [hv, hk.2.1, hk.2.2])))
          · cases hs

theorem startSend_pinv (fl cfg s t f h vs) : PInv (.snd f h vs) (startSend fl cfg s t f h vs).2 := by
  have hso : isSendOp (.snd f h vs) = true := rfl
  have hv : (Op.snd f h vs).vals = [] ++ vs := rfl
  unfold startSend
  split
  · exact PInv.fin_tag _ _ _ (Or.inr (Or.inr (Or.inl rfl)))
  · split
    · exact PInv.fin_tag _ _ _ (Or.inr (Or.inr (Or.inr rfl)))
    · split
      · split
        · exact osSendStart_pinv rfl hso
        · exact PInv.fin_tag _ _ _ (Or.inr (Or.inr (Or.inr rfl)))
      · split
        · split
          · exact failSend_pinv rfl hso
          · exact rvSendStep_pinv rfl hso
        · exact PInv.fin_tag _ _ _ (Or.inr (Or.inr (Or.inr rfl)))
      · unfold startSendBuf
        split
        · rename_i he
          have hv0 : vs = [] := by simpa using firstHit_E he
          exact PInv.fin_tag _ _ _ (Or.inr (Or.inl (by simp [Op.vals, hv0])))
        · exact failSend_pinv hv hso
        · split
          · rename_i he
            have hv0 : vs = [] := by simpa using he
            exact PInv.fin_tag _ _ _ (Or.inr (Or.inl (by simp [Op.vals, hv0])))
          · split
            · exact ⟨hv, hso⟩
            · split
              · rename_i r hr
                exact sendStep_pinv hv hso (by rw [hr] : _ = some (r.1, r.2))
              · exact ⟨hv, hso⟩

theorem recvStep_pinv {op : Op} (hro : isRecvOp op = true) {fl cfg s t f hd n got s' p'}
    (hs : recvStep fl cfg s t f hd n got = some (s', p')) : PInv op p' := by
  have hso : isSendOp op = false := by cases op <;> simp_all [isSendOp, isRecvOp]
  unfold recvStep at hs
  split at hs
  · split at hs
    · unfold emptyOutcome at hs
      simp only [] at hs
      split at hs
      · cases hs; simp [PInv, hso, hro]
      · split at hs <;> first | (cases hs; simp [PInv, hso, hro]) | cases hs
    · cases hs; simp [PInv, hso, hro]
  · split at hs
    · cases hs; simp [PInv, hso, hro]
    · cases hs; exact hro

theorem osTryRecv_pinv {op : Op} (hro : isRecvOp op = true) (s hd) : PInv op (.fin (osTryRecv s hd).2) := by
  have hso : isSendOp op = false := by cases op <;> simp_all [isSendOp, isRecvOp]
  unfold osTryRecv
  split <;> (try split) <;> simp [PInv, hso, hro]

theorem osRecvStep_pinv {op : Op} (hro : isRecvOp op = true) {s hd s' p'}
    (hs : osRecvStep s hd = some (s', p')) : PInv op p' := by
  have hso : isSendOp op = false := by cases op <;> simp_all [isSendOp, isRecvOp]
  unfold osRecvStep at hs
  split at hs
  · cases hs; exact osTryRecv_pinv hro s hd
  · split at hs
    · cases hs; simp [PInv, hso, hro]
    · cases hs

theorem startRecv_pinv (fl cfg s t f h n) : PInv (.rcv f h n) (startRecv fl cfg s t f h n).2 := by
  have hro : isRecvOp (.rcv f h n) = true := rfl
  have hso : isSendOp (.rcv f h n) = false := rfl
  have ft : ∀ tag val, PInv (.rcv f h n) (.fin { tag := tag, val := val }) :=
    fun tag val => PInv.fin_tag _ tag val (Or.inl rfl)
  unfold startRecv
  split
  · exact ft _ _
  · split
    · exact ft _ _
    · split
      · exact ft _ _
      · exact ft _ _
      · split
        · split
          · exact osTryRecv_pinv hro ..
          · split
            · rename_i r hr
              exact osRecvStep_pinv hro (by rw [hr] : _ = some (r.1, r.2))
            · exact hro
        · unfold rvRecvStart
          split
          · simp [PInv, hso, hro]
          · split
            · exact ft _ _
            · split <;> first | exact ft _ _ | exact hro
        · split
          · rename_i r hr
            exact recvStep_pinv hro (by rw [hr] : _ = some (r.1, r.2))
          · exact hro

theorem start_pinv (fl cfg s t op) : PInv op (start fl cfg s t op).2 := by
  cases op with
  | snd f h vs => exact startSend_pinv ..
  | rcv f h n => exact startRecv_pinv ..
  | clone h h' =>
    simp only [start]; unfold startClone
    split <;> (try split) <;> exact PInv.fin_tag _ _ _ (Or.inl rfl)
  | close h =>
    simp only [start]
    split
    · unfold startCloseSb
      split
      · exact PInv.fin_tag _ _ _ (Or.inl rfl)
      · split
        · exact PInv.fin_tag _ _ _ (Or.inl rfl)
        · exact ⟨rfl, rfl⟩
    · unfold startClose
      split <;> (try split) <;> exact PInv.fin_tag _ _ _ (Or.inl rfl)
  | drop h =>
    simp only [start]
    split
    · unfold startDropSb
      split
      · exact PInv.fin_tag _ _ _ (Or.inl rfl)
      · split
        · exact PInv.fin_tag _ _ _ (Or.inl rfl)
        · exact ⟨rfl, rfl⟩
    · unfold startDrop
      split <;> exact PInv.fin_tag _ _ _ (Or.inl rfl)
  | probe p h =>
    simp only [start]; unfold startProbe
    split <;> (try split) <;> exact PInv.fin_tag _ _ _ (Or.inl rfl)
  | toAsync h =>
    simp only [start]; unfold startConvert
    split <;> (try split) <;> exact PInv.fin_tag _ _ _ (Or.inl rfl)
  | toSync h =>
    simp only [start]; unfold startConvert
    split <;> (try split) <;> exact PInv.fin_tag _ _ _ (Or.inl rfl)


theorem micro_pinv {op : Op} {fl cfg s p s' p'} (hp : PInv op p) (hs : (s', p') ∈ micro fl cfg s p) : PInv op p' := by
  unfold micro at hs
  rw [mem_append] at hs
  rcases hs with hs | hs
  · rw [Option.mem_toList] at hs
    cases p with
    | fresh t op' =>
      simp only [PInv] at hp; subst hp
      simp only [microDet] at hs
      obtain ⟨_, rfl⟩ := of_some_eq hs
      exact start_pinv ..
    | bsend t f h sent rest q => exact sendStep_pinv hp.1 hp.2 hs
    | bsendEnd t f sent rest =>
      simp only [microDet] at hs
      obtain ⟨_, rfl⟩ := of_some_eq hs
      exact failSend_pinv hp.1 hp.2
    | brecv t f h n got =>
      simp only [microDet] at hs
      split at hs
      · cases hs
      · split at hs
        · rename_i hr; cases hs; exact recvStep_pinv hp hr
        · split at hs
          · cases hs; exact hp
          · cases hs
    | rvSend t v =>
      have hr : isRecvOp op = false := by cases op <;> simp_all [isSendOp, isRecvOp, PInv]
      simp only [microDet] at hs
      split at hs
      · cases hs; simp [PInv, hp.1, hp.2, hr]
      · split at hs
        · cases hs; simp [PInv, hp.1, hp.2, hr]
        · cases hs
    | rvRecv t =>
      have hso : isSendOp op = false := by cases op <;> simp_all [isSendOp, isRecvOp, PInv]
      simp only [PInv] at hp
      simp only [microDet] at hs
      split at hs
      · cases hs; simp [PInv, hso, hp]
      · split at hs <;> cases hs; simp [PInv, hso, hp]
    | rvTo t stage =>
      have hso : isSendOp op = false := by cases op <;> simp_all [isSendOp, isRecvOp, PInv]
      simp only [PInv] at hp
      simp only [microDet] at hs
      split at hs
      · split at hs
        · cases hs; simp [PInv, hso, hp]
        · split at hs <;> cases hs
          · simp [PInv, hso, hp]
          · exact hp
      · cases hs; simp [PInv, hso, hp]
    | osRecv t h =>
      simp only [microDet] at hs
      split at hs
      · cases hs
      · exact osRecvStep_pinv hp hs
    | stg t k h sent rest => exact stgStep_pinv hp hs
    | fin o => simp [microDet] at hs
  · split at hs
    · cases p with
      | fresh t op' =>
        simp only [PInv] at hp; subst hp
        cases op' with
        | rcv f h n =>
          simp only [microSpur] at hs
          split at hs
          · split at hs
            · split at hs
              · simp only [mem_singleton, Prod.mk.injEq] at hs
                obtain ⟨_, rfl⟩ := hs; exact PInv.fin_tag _ _ _ (Or.inl rfl)
              · simp at hs
            · split at hs
              · simp only [mem_singleton, Prod.mk.injEq] at hs
                obtain ⟨_, rfl⟩ := hs; exact PInv.fin_tag _ _ _ (Or.inl rfl)
              · simp at hs
            · simp at hs
          · simp at hs
        | _ => simp [microSpur] at hs
      | bsend t f h sent rest q =>
        simp only [microSpur, mem_append] at hs
        rcases hs with hs | hs
        · split at hs
          · rw [Option.mem_toList] at hs
            exact sendStep_pinv hp.1 hp.2 hs
          · simp at hs
        · split at hs
          · simp only [mem_singleton] at hs
            have e2 : p' = (failSend fl s f .closed sent rest).2 := by rw [← hs]
            subst e2
            exact failSend_pinv hp.1 hp.2
          · simp at hs
      | brecv t f h n got =>
        have hso : isSendOp op = false := by cases op <;> simp_all [isSendOp, isRecvOp, PInv]
        simp only [PInv] at hp
        simp only [microSpur, mem_append] at hs
        rcases hs with hs | hs
        · split at hs
          · simp only [mem_singleton, Prod.mk.injEq] at hs
            obtain ⟨_, rfl⟩ := hs; simp [PInv, hso, hp]
          · simp at hs
        · split at hs
          · split at hs
            · simp only [mem_singleton, Prod.mk.injEq] at hs
              obtain ⟨_, rfl⟩ := hs; simp [PInv, hso, hp]
            · simp at hs
          · simp at hs
      | _ => simp [microSpur] at hs
    · simp at hs

end Fv.Chan
