import Fv.Lemmas.SpmcBWake3S
/-! Wake-up invariants, part 3: the steps of the receiver operations. -/
namespace Fv.Chan.SpmcB
open Fv.Chan.LeftRightB (upd upd_apply upd_same)

/-- a step of a receiver-side thread leaves the control state of the sender-side thread alone -/
theorem snd_kept {s s' : State} {t r : Nat} {q : RPC} {p' : PC} (hq : s.pc t = .rcv r q) (hpc : s'.pc = upd s.pc t p') :
    ∀ p q0, s.pc p = .snd q0 → s'.pc p = .snd q0 := by
  intro p q0 hp0
  rw [hpc]; simp only [upd_apply]; rw [if_neg]; exact hp0
  intro e; subst e; rw [hq] at hp0; cases hp0

theorem OwedL_move {s s' : State} {u : Nat} (h : OwedL s u) (htok : s.token u = true → s'.token u = true)
    (hsnd : ∀ p q0, s.pc p = .snd q0 → s'.pc p = .snd q0) : OwedL s' u := by
  rcases h with a | ⟨p, q0, hp0, hm⟩
  · exact Or.inl (htok a)
  · exact Or.inr ⟨p, q0, hsnd p q0 hp0, hm⟩

theorem W3thread_none {s : State} {t r : Nat} {q : RPC} (h : wstage q = none) : W3thread s t r q := by
  refine ⟨?_, ?_, ?_⟩
  · intro n hn; rw [h] at hn; cases hn
  · intro n hn; rw [h] at hn; cases hn
  · intro hn; rw [h] at hn; cases hn

/-- the facts are downward closed in the stage, and only read these components -/
theorem W3thread_move {s s' : State} {t r : Nat} {q q' : RPC} (h : W3thread s t r q)
    (hst : ∀ n, wstage q' = some n → ∃ m, wstage q = some m ∧ n ≤ m)
    (hcap : s'.cap = s.cap) (hcur : s'.cur r = s.cur r) (hsent : s'.sent = s.sent) (hpd : s'.pdropped = s.pdropped)
    (hwk : ∀ j, t ∈ s.wk j → t ∈ s'.wk j) (htok : s.token t = true → s'.token t = true)
    (hsnd : ∀ p q0, s.pc p = .snd q0 → s'.pc p = .snd q0) : W3thread s' t r q' := by
  obtain ⟨h1, h2, h3⟩ := h
  have howed : OwedL s t → OwedL s' t := by
    rintro (a | ⟨p, q0, hp0, hm⟩)
    · exact Or.inl (htok a)
    · exact Or.inr ⟨p, q0, hsnd p q0 hp0, hm⟩
  refine ⟨?_, ?_, ?_⟩
  · intro n hn; rw [hcap, hcur]
    obtain ⟨m, hm, _⟩ := hst n hn
    rcases h1 m hm with a | a
    · exact Or.inl (hwk _ a)
    · exact Or.inr (howed a)
  · intro n hn h1n hlt; rw [hcap, hcur] at *; rw [hsent] at hlt
    obtain ⟨m, hm, hle⟩ := hst n hn
    rcases h2 m hm (by omega) hlt with a | ⟨a, p, q0, hp0, hd⟩
    · exact Or.inl (howed a)
    · exact Or.inr ⟨hwk _ a, p, q0, hsnd p q0 hp0, hd⟩
  · intro hn hp; rw [hcap, hcur] at *; rw [hpd] at hp
    obtain ⟨m, hm, hle⟩ := hst 2 hn
    have : m = 2 := by
      cases q <;> simp only [wstage] at hm <;> (try split at hm) <;> simp_all <;> omega
    subst this
    rcases h3 hm hp with a | ⟨a, p, q0, hp0, hd⟩
    · exact Or.inl (howed a)
    · exact Or.inr ⟨hwk _ a, p, q0, hsnd p q0 hp0, hd⟩


/-- receiver step that changes nothing the waiters read, to a control state of no higher stage -/
theorem invW3_R_move {s s' : State} {t r : Nat} {q : RPC} {p' : PC} (ha : InvA s) (hs : Safe s) (h3 : InvW3 s)
    (hq : s.pc t = .rcv r q) (hpc : s'.pc = upd s.pc t p') (hp : okR r p')
    (hcap : s'.cap = s.cap) (hsent : s'.sent = s.sent) (hpd : s'.pdropped = s.pdropped) (hcur : s'.cur = s.cur)
    (hwk : s'.wk = s.wk) (htok : s'.token = s.token)
    (hst : ∀ q' n, p' = .rcv r q' → wstage q' = some n → ∃ m, wstage q = some m ∧ n ≤ m)
    (hfresh : ∀ r' x, p' = .rcv r' (.rFlag x) → x.reg = false) : InvW3 s' := by
  refine invW3_R ha hs h3 hq hpc hp hcap hsent hpd (fun r' _ _ => by rw [hcur]) (fun j u a => by rw [hwk]; exact a)
    (fun u _ a => by rw [htok]; exact a) ?_ hfresh
  intro q' e
  refine W3thread_move (h3.all t r q hq) (fun n hn => hst q' n e hn) hcap (by rw [hcur]) hsent hpd
    (fun j a => by rw [hwk]; exact a) (fun a => by rw [htok]; exact a) ?_
  intro p q0 hp0
  rw [hpc]; simp only [upd_apply]; rw [if_neg]; exact hp0
  intro e'; subst e'; rw [hq] at hp0; cases hp0

theorem stage_onEmpty {r : Nat} {x : RCtx} {q' : RPC} {n : Nat} (e : onEmpty r x = .rcv r q') (hn : wstage q' = some n) :
    x.reg = true ∧ n = 2 := by
  unfold onEmpty at e
  split at e
  · cases e
  · cases e
  · split at e
    · rename_i hreg; cases e; simp only [wstage] at hn; exact ⟨hreg, (Option.some.inj hn).symm⟩
    · cases e; simp only [wstage] at hn; cases hn

theorem stage_wkDone {r : Nat} {k : WK} {q' : RPC} (e : wkDone k = .rcv r q') : False := by
  unfold wkDone at e; split at e <;> cases e

theorem stage_afterRPark {r : Nat} {x : RCtx} {q' : RPC} {n : Nat} (e : afterRPark r x = .rcv r q') (hn : wstage q' = some n) :
    False := by
  unfold afterRPark at e
  split at e <;> cases e <;> simp [wstage] at hn

theorem notFlag_onEmpty {r r' : Nat} {x y : RCtx} (e : onEmpty r x = .rcv r' (.rFlag y)) : y.reg = false := by
  unfold onEmpty at e; repeat' split at e
  all_goals cases e
theorem notFlag_wkDone {k : WK} {r' : Nat} {y : RCtx} (e : wkDone k = .rcv r' (.rFlag y)) : y.reg = false := by
  unfold wkDone at e; split at e <;> cases e
theorem notFlag_afterRPark {r r' : Nat} {x y : RCtx} (e : afterRPark r x = .rcv r' (.rFlag y)) : y.reg = false := by
  unfold afterRPark at e; split at e <;> cases e

syntax "nf_tac" : tactic
macro_rules | `(tactic| nf_tac) => `(tactic|
  (intro r' y e; first | cases e | exact notFlag_onEmpty e | exact notFlag_wkDone e | exact notFlag_afterRPark e))

/-- steps whose target has no stage -/
syntax "none3 " ident ident ident ident : tactic
macro_rules | `(tactic| none3 $ha $hs $h3 $hq) => `(tactic|
  exact invW3_R_move $ha $hs $h3 $hq rfl (by okR_tac) rfl rfl rfl rfl rfl rfl
    (fun q' n e hn => by
      first
        | (cases e; simp [wstage] at hn; done)
        | exact absurd e (by simp)
        | exact (stage_wkDone e).elim
        | exact (stage_afterRPark e hn).elim)
    (by nf_tac))


/-- stage-preserving plain step -/
syntax "same3 " ident ident ident ident : tactic
macro_rules | `(tactic| same3 $ha $hs $h3 $hq) => `(tactic|
  exact invW3_R_move $ha $hs $h3 $hq rfl (by okR_tac) rfl rfl rfl rfl rfl rfl
    (fun q' n e hn => by cases e; exact ⟨n, hn, Nat.le_refl _⟩) (by nf_tac))

/-- while `producer_dropped` is set nothing is being written -/
theorem no_drain_when_dropped {s : State} (hs : Safe s) (hp : s.pdropped = true) {p : Nat} {q0 : SPC} {c : Nat}
    (hp0 : s.pc p = .snd q0) (hd : willDrain q0 c) : False := by
  have hcl : s.core.sclosed = true := hs.g.pd_closed hp
  have hf := hs.sf p q0 hp0
  cases q0 <;> simp only [willDrain] at hd <;> simp only [sFact] at hf
  case wSeqLd => rw [hf.2.2.2.2.2] at hcl; cases hcl
  case wVal => rw [hf.2.2.2.2.2.2] at hcl; cases hcl
  case wSeqSt => rw [hf.2.2.2.2.2.2] at hcl; cases hcl
  case wHeadSt => rw [hf.2.2.2] at hcl; cases hcl
  case wLockW => rw [hf.2] at hcl; cases hcl
  case wUnlockW => rw [hf.2] at hcl; cases hcl

theorem wake3_actR {s s' : State} {t r : Nat} {p : RPC} (ha : InvA s) (hl : LRI s) (hs : Safe s) (hw : InvW s)
    (hq : s.pc t = .rcv r p) (h : actR s t r p = some s') : InvW3 s' := by
  have h3 := hw.w3
  have hme := h3.all t r p hq
  have hf := hs.rf t r p hq
  cases p <;> simp only [actR] at h
  case rFlag x =>
    cases h; unfold stepRFlag
    have hreg := h3.fresh t r x hq
    split
    · none3 ha hs h3 hq
    · exact invW3_R_move ha hs h3 hq rfl (by okR_tac) rfl rfl rfl rfl rfl rfl
        (fun q' n e hn => by cases e; simp [wstage, hreg] at hn) (by nf_tac)
  case rCur x =>
    cases h; unfold stepRCur
    split <;> exact invW3_R_move ha hs h3 hq rfl (by okR_tac) rfl rfl rfl rfl rfl rfl
      (fun q' n e hn => by cases e; exact ⟨n, hn, Nat.le_refl _⟩) (by nf_tac)
  case rSeq x c =>
    cases h; unfold stepRSeq
    split
    · none3 ha hs h3 hq
    · rename_i hne
      -- the re-check found nothing: index `c` is not published yet
      simp only [rFact] at hf
      obtain ⟨hb, hc⟩ := hf
      have hnot : ¬ s.cur r < s.sent.length := by
        intro hlt
        have hmem := mem_pub_of_base hl hs hb
        have h1 := hs.g.lim_pub r hmem
        have h2 := hs.g.n_le_lim
        have := hs.g.b2s c (by rw [hc]; exact hlt) (by rw [hc]; show s.core.sent.length ≤ s.core.cur r + s.core.cap; omega)
        exact hne this
      refine invW3_R ha hs h3 hq rfl (by okR_tac) rfl rfl rfl (fun _ _ _ => rfl) (fun _ _ a => a) (fun _ _ a => a) ?_
      intro q' e; cases e
      obtain ⟨m1, m2, m3⟩ := hme
      refine ⟨?_, ?_, ?_⟩
      · intro n hn
        simp only [wstage] at hn
        split at hn
        · rename_i hreg
          rcases m1 0 (by simp only [wstage, hreg, if_true]) with a | a
          · exact Or.inl a
          · exact Or.inr (OwedL_move a (fun a => a) (snd_kept hq rfl))
        · cases hn
      · intro n _ _ hlt; exact absurd hlt hnot
      · intro hn; simp only [wstage] at hn; split at hn <;> cases hn
  case rVal x c => cases h; none3 ha hs h3 hq
  case rSt x c vs =>
    cases h
    refine invW3_R ha hs h3 hq rfl (by okR_tac) rfl rfl rfl ?_ (fun _ _ a => a) (fun _ _ a => a) ?_
    · intro r' hne _; show upd s.cur r (c + vs.length) r' = s.cur r'; simp only [upd_apply, if_neg hne]
    · intro q' e; cases e; exact W3thread_none rfl
  case rDrop x c =>
    cases h; unfold stepRDrop
    split
    · exact invW3_R_move ha hs h3 hq rfl (by okR_tac) rfl rfl rfl rfl rfl rfl
        (fun q' n e hn => by cases e; exact ⟨n, hn, Nat.le_refl _⟩) (by nf_tac)
    · rename_i hnd
      -- `producer_dropped` read false: stage 1 → 2, the `gone` clause is vacuous
      refine invW3_R ha hs h3 hq rfl (by okR_tac) rfl rfl rfl (fun _ _ _ => rfl) (fun _ _ a => a) (fun _ _ a => a) ?_ (by nf_tac)
      intro q' e
      obtain ⟨m1, m2, m3⟩ := hme
      have hk := snd_kept hq (s' := s.goR t r (onEmpty r x)) rfl
      refine ⟨?_, ?_, ?_⟩
      · intro n hn
        obtain ⟨hreg, _⟩ := stage_onEmpty e hn
        rcases m1 1 (by simp only [wstage, hreg, if_true]) with a | a
        · exact Or.inl a
        · exact Or.inr (OwedL_move a (fun a => a) hk)
      · intro n hn _ hlt
        obtain ⟨hreg, _⟩ := stage_onEmpty e hn
        rcases m2 1 (by simp only [wstage, hreg, if_true]) (Nat.le_refl _) hlt with a | ⟨a, p0, q0, hp0, hd⟩
        · exact Or.inl (OwedL_move a (fun a => a) hk)
        · exact Or.inr ⟨a, p0, q0, hk p0 q0 hp0, hd⟩
      · intro _ hp
        have : s.pdropped = true := hp
        rw [this] at hnd; exact absurd rfl hnd
  case rHead x c =>
    cases h; unfold stepRHead
    split
    · none3 ha hs h3 hq
    · rename_i hlt
      simp only [rFact] at hf
      obtain ⟨hb, hc, hp⟩ := hf
      refine invW3_R ha hs h3 hq rfl (by okR_tac) rfl rfl rfl (fun _ _ _ => rfl) (fun _ _ a => a) (fun _ _ a => a) ?_ (by nf_tac)
      intro q' e
      obtain ⟨m1, m2, m3⟩ := hme
      have hk := snd_kept hq (s' := s.goR t r (onEmpty r x)) rfl
      have hcN : s.cur r < s.sent.length := by
        have := hs.g.head_le
        have e1 : s.core.head = s.head := rfl
        have e2 : s.core.sent.length = s.sent.length := rfl
        have e3 : c = s.cur r := hc
        omega
      have howed : ∀ n, wstage q' = some n → OwedL (s.goR t r (onEmpty r x)) t := by
        intro n hn
        obtain ⟨hreg, _⟩ := stage_onEmpty e hn
        rcases m2 1 (by simp only [wstage, hreg, if_true]) (Nat.le_refl _) hcN with a | ⟨_, p0, q0, hp0, hd⟩
        · exact OwedL_move a (fun a => a) hk
        · exact (no_drain_when_dropped hs hp hp0 hd).elim
      exact ⟨fun n hn => Or.inr (howed n hn), fun n hn _ _ => Or.inl (howed n hn), fun hn _ => Or.inl (howed 2 hn)⟩
  case bHd x c =>
    cases h; unfold stepBHd
    split
    · rename_i hle
      simp only [rFact] at hf
      obtain ⟨hb, hc⟩ := hf
      refine invW3_R ha hs h3 hq rfl (by okR_tac) rfl rfl rfl (fun _ _ _ => rfl) (fun _ _ a => a) (fun _ _ a => a) ?_
      intro q' e; cases e
      obtain ⟨m1, m2, m3⟩ := hme
      have hk := snd_kept hq (s' := s.goR t r (.rcv r (.bDrop x c))) rfl
      refine ⟨?_, ?_, ?_⟩
      · intro n hn
        simp only [wstage] at hn
        split at hn
        · rename_i hreg
          rcases m1 0 (by simp only [wstage, hreg, if_true]) with a | a
          · exact Or.inl a
          · exact Or.inr (OwedL_move a (fun a => a) hk)
        · cases hn
      · intro n hn _ hlt
        simp only [wstage] at hn
        split at hn
        · rename_i hreg
          -- head ≤ c < |sent|: the producer is between its sequence stores and the head store
          have hltN : s.head < s.sent.length := by
            have e3 : c = s.cur r := hc
            have : s.cur r < s.sent.length := hlt
            omega
          have hown : s.sOwner ≠ none := by
            intro hno; have := (hs.idle hno).1; omega
          obtain ⟨p0, hp0⟩ := Option.ne_none_iff_exists'.1 hown
          have hsp := (ha.sown p0).1 hp0
          cases hq0 : s.pc p0 with
          | snd q0 =>
            have hf0 := hs.sf p0 q0 hq0
            have hdr : willDrain q0 (s.cur r) := by
              have e3 : c = s.cur r := hc
              have e1 : s.core.head = s.head := rfl
              have e2 : s.core.sent.length = s.sent.length := rfl
              have hlt' : s.cur r < s.sent.length := hlt
              by_cases hwq : inWr q0 = true
              · cases q0 <;> simp only [inWr] at hwq <;> (first | cases hwq | skip) <;> simp only [sFact] at hf0 <;>
                  simp only [willDrain] <;> omega
              · have := (idle_of_sFact hf0 (by simpa using hwq)).1; omega
            rcases m1 0 (by simp only [wstage, hreg, if_true]) with a | a
            · exact Or.inr ⟨a, p0, q0, hk p0 q0 hq0, hdr⟩
            · exact Or.inl (OwedL_move a (fun a => a) hk)
          | idle => rw [hq0] at hsp; cases hsp
          | ret res => rw [hq0] at hsp; cases hsp
          | rcv r2 q2 => rw [hq0] at hsp; cases hsp
        · cases hn
      · intro hn; simp only [wstage] at hn; split at hn <;> cases hn
    · none3 ha hs h3 hq
  case bDrop x c =>
    cases h; unfold stepBDrop
    split
    · exact invW3_R_move ha hs h3 hq rfl (by okR_tac) rfl rfl rfl rfl rfl rfl
        (fun q' n e hn => by cases e; exact ⟨n, hn, Nat.le_refl _⟩) (by nf_tac)
    · rename_i hnd
      refine invW3_R ha hs h3 hq rfl (by okR_tac) rfl rfl rfl (fun _ _ _ => rfl) (fun _ _ a => a) (fun _ _ a => a) ?_ (by nf_tac)
      intro q' e
      obtain ⟨m1, m2, m3⟩ := hme
      have hk := snd_kept hq (s' := s.goR t r (onEmpty r x)) rfl
      refine ⟨?_, ?_, ?_⟩
      · intro n hn
        obtain ⟨hreg, _⟩ := stage_onEmpty e hn
        rcases m1 1 (by simp only [wstage, hreg, if_true]) with a | a
        · exact Or.inl a
        · exact Or.inr (OwedL_move a (fun a => a) hk)
      · intro n hn _ hlt
        obtain ⟨hreg, _⟩ := stage_onEmpty e hn
        rcases m2 1 (by simp only [wstage, hreg, if_true]) (Nat.le_refl _) hlt with a | ⟨a, p0, q0, hp0, hd⟩
        · exact Or.inl (OwedL_move a (fun a => a) hk)
        · exact Or.inr ⟨a, p0, q0, hk p0 q0 hp0, hd⟩
      · intro _ hp
        have : s.pdropped = true := hp
        rw [this] at hnd; exact absurd rfl hnd
  case bHd2 x c => cases h; unfold stepBHd2; split <;> none3 ha hs h3 hq
  case bVals x c k => cases h; none3 ha hs h3 hq
  case gCur x => cases h; none3 ha hs h3 hq
  case gLock x c =>
    unfold stepGLock at h; split at h
    · cases h
      simp only [rFact] at hf
      obtain ⟨hb, hc⟩ := hf
      refine invW3_R ha hs h3 hq rfl (by okR_tac) rfl rfl rfl (fun _ _ _ => rfl) ?_ (fun _ _ a => a) ?_
      · intro j u a; show u ∈ upd s.wk (c % s.cap) (s.wk (c % s.cap) ++ [t]) j
        simp only [upd_apply]; split
        · rename_i e; subst e; exact List.mem_append_left _ a
        · exact a
      · intro q' e; cases e
        refine ⟨?_, ?_, ?_⟩
        · intro n _; left
          show t ∈ upd s.wk (c % s.cap) (s.wk (c % s.cap) ++ [t]) (s.cur r % s.cap)
          have e3 : c = s.cur r := hc
          rw [← e3]; simp
        · intro n hn h1n; simp only [wstage] at hn; cases hn; omega
        · intro hn; simp only [wstage] at hn; cases hn
    · cases h
  case gUnlock x c =>
    cases h
    exact invW3_R_move ha hs h3 hq rfl (by okR_tac) rfl rfl rfl rfl rfl rfl
      (fun q' n e hn => by cases e; simp only [wstage] at hn ⊢; exact ⟨0, rfl, by simp at hn; omega⟩) (by nf_tac)
  case eDrop x => cases h; unfold stepEDrop; split <;> same3 ha hs h3 hq
  case eHead x => cases h; same3 ha hs h3 hq
  case eCur x h0 =>
    cases h; unfold stepECur; repeat' split
    · none3 ha hs h3 hq
    · none3 ha hs h3 hq
    · same3 ha hs h3 hq
  case eLock x c =>
    unfold stepELock at h; split at h
    · cases h; none3 ha hs h3 hq
    · cases h
  case eUnlock x c => cases h; none3 ha hs h3 hq
  case kPark x =>
    unfold stepKPark at h; split at h
    · cases h
      refine invW3_R ha hs h3 hq rfl (by okR_tac) rfl rfl rfl (fun _ _ _ => rfl) (fun _ _ a => a) ?_ ?_ (by nf_tac)
      · intro u hut a; show upd s.token t false u = true; simp only [upd_apply, if_neg hut]; exact a
      · intro q' e; exact W3thread_none (by
          cases hn : wstage q' with
          | none => rfl
          | some n => exact (stage_afterRPark e hn).elim)
    · cases h
  case kCur x =>
    cases h
    exact invW3_R_move ha hs h3 hq rfl (by okR_tac) rfl rfl rfl rfl rfl rfl
      (fun q' n e hn => by cases e; simp [wstage] at hn) (by nf_tac)
  case wpFence k => cases h; none3 ha hs h3 hq
  case wpLoad k => cases h; unfold stepWpLoad; split <;> none3 ha hs h3 hq
  case wpCas k => cases h; unfold stepWpCas; split <;> none3 ha hs h3 hq
  case wpIdle k th => cases h; unfold stepWpIdle; split <;> none3 ha hs h3 hq
  case wpUnpark k th =>
    cases h
    refine invW3_R ha hs h3 hq rfl (by okR_tac) rfl rfl rfl (fun _ _ _ => rfl) (fun _ _ a => a) ?_ ?_ (by nf_tac)
    · intro u _ a; show upd s.token th true u = true; simp only [upd_apply]; split <;> simp [a]
    · intro q' e; exact (stage_wkDone e).elim
  case cCur =>
    cases h
    refine invW3_R ha hs h3 hq rfl (by okR_tac) rfl rfl rfl ?_ (fun _ _ a => a) (fun _ _ a => a) ?_
    · intro r' _ hlt; show upd s.cur s.nextCell (s.cur r) r' = s.cur r'
      simp only [upd_apply]; rw [if_neg]; exact Nat.ne_of_lt hlt
    · intro q' e; cases e; exact W3thread_none rfl
  case mLock k =>
    unfold stepMLock at h; split at h
    · cases h; none3 ha hs h3 hq
    · cases h
  case mMod k p =>
    unfold stepMMod at h
    repeat' split at h
    all_goals (cases h)
    all_goals first
      | (refine invW3_R ha hs h3 hq rfl (by okR_tac) rfl rfl rfl (fun _ _ _ => rfl) (fun _ _ a => a) (fun _ _ a => a) ?_
         intro q' e; cases e; exact W3thread_none rfl)
      | skip
  case mUnlock k => cases h; unfold stepMUnlock; split <;> none3 ha hs h3 hq
  case xFlag d => cases h; unfold stepXFlag; split <;> none3 ha hs h3 hq
  case qDrop => cases h; unfold stepQDrop; split <;> none3 ha hs h3 hq
  case qHead p => cases h; none3 ha hs h3 hq
  case qCur p h0 => cases h; none3 ha hs h3 hq

theorem wake3_act {s s' : State} {t : Nat} (ha : InvA s) (hl : LRI s) (hs : Safe s) (hw : InvW s)
    (h : act s t = some s') : InvW s' := by
  unfold act at h
  split at h
  · cases h
  · cases h
  · rename_i p hpc
    have ⟨a, b⟩ := wakeP_actS ha hl hs hw hpc h
    exact ⟨a, b, wake3_actS ha hs hw hpc h⟩
  · rename_i r p hpc
    have ⟨a, b⟩ := wakeP_actR ha hl hs hw hpc h
    exact ⟨a, b, wake3_actR ha hl hs hw hpc h⟩

end Fv.Chan.SpmcB
