import Fv.Lemmas.TopicOps
/-! How every operation changes the mailbox buffers. -/
namespace Fv.Chan.Topic

def bufL (rxs : List Rx) (r : Nat) : List Msg :=
  match rxs[r]? with
  | some x => x.buf
  | none => []

theorem bufOf_eq (s : St) (r : Nat) : bufOf s r = bufL s.rxs r := rfl

theorem bufL_modAt_preserve (l : List Rx) (i : Nat) (f : Rx → Rx) (h : ∀ x, (f x).buf = x.buf) (r : Nat) :
    bufL (modAt l i f) r = bufL l r := by
  unfold bufL; rw [getElem?_modAt]
  by_cases hir : i = r <;> cases hl : l[r]? <;> simp [hir, h]

theorem bufL_disconnectTo (rxs : List Rx) (is : List Nat) (r : Nat) : bufL (disconnectTo rxs is) r = bufL rxs r := by
  unfold bufL; rw [getElem?_disconnectTo]
  by_cases hm : r ∈ is <;> cases hx : rxs[r]? with
  | none => simp [hm]
  | some x => by_cases hl : x.live <;> simp [hm, hl, disconnect]

theorem bufL_append (l : List Rx) (x : Rx) (h : x.buf = []) (r : Nat) : bufL (l ++ [x]) r = bufL l r := by
  unfold bufL
  by_cases h1 : r < l.length
  · rw [List.getElem?_append_left h1]
  · have h2 : l[r]? = none := by simp; omega
    rw [h2]
    by_cases h3 : r = l.length
    · subst h3; simp [h]
    · have : (l ++ [x])[r]? = none := by simp; omega
      rw [this]

theorem bufL_subscribeCore (s : St) (q : Nat) (t : Topic) (r : Nat) :
    bufL (subscribeCore s q t).rxs r = bufL s.rxs r := by
  rcases subscribeCore_rxs s q t with h | h <;> rw [h]
  apply bufL_modAt_preserve; intro x; rfl

theorem bufL_unsubscribeCore (s : St) (q : Nat) (t : Topic) (r : Nat) :
    bufL (unsubscribeCore s q t).rxs r = bufL s.rxs r := by
  rcases unsubscribeCore_rxs s q t with h | h <;> rw [h]
  apply bufL_modAt_preserve; intro x; rfl

theorem bufL_foldl_subscribeCore (l : List Topic) (s : St) (q : Nat) (r : Nat) :
    bufL (l.foldl (fun s t => subscribeCore s q t) s).rxs r = bufL s.rxs r := by
  induction l generalizing s with
  | nil => rfl
  | cons t l ih => simp only [List.foldl_cons]; rw [ih, bufL_subscribeCore]

theorem bufL_foldl_unsubscribeCore (l : List Topic) (s : St) (q : Nat) (r : Nat) :
    bufL (l.foldl (fun s t => unsubscribeCore s q t) s).rxs r = bufL s.rxs r := by
  induction l generalizing s with
  | nil => rfl
  | cons t l ih => simp only [List.foldl_cons]; rw [ih, bufL_unsubscribeCore]

theorem bufL_rxCloseInternal (s : St) (q : Nat) (r : Nat) : bufL (rxCloseInternal s q).rxs r = bufL s.rxs r := by
  cases hx : s.rxs[q]? with
  | none => rw [rxCloseInternal_none s q hx]
  | some x =>
    rw [rxCloseInternal_eq s q x hx]
    split
    · exact bufL_foldl_unsubscribeCore _ _ _ r
    · rfl

/-- one `send` on a duplicate-free subscriber list: each live, non-full target gets the message
appended; nothing else changes -/
theorem bufL_deliverTo (m : Msg) (rxs : List Rx) (is : List Nat) (nd : is.Nodup) (r : Nat) :
    bufL (deliverTo m rxs is) r =
      match rxs[r]? with
      | some x => if r ∈ is ∧ x.live = true ∧ x.buf.length < x.cap then x.buf ++ [m] else x.buf
      | none => [] := by
  unfold bufL
  by_cases hm : r ∈ is
  · rw [getElem?_deliverTo_mem m rxs is r hm nd]
    cases rxs[r]? with
    | none => rfl
    | some x =>
      by_cases hl : x.live <;> by_cases hc : x.buf.length < x.cap
      · have : ¬ x.buf.length ≥ x.cap := by omega
        simp [hm, hl, hc, deliver, this]
      · have : x.buf.length ≥ x.cap := by omega
        simp [hm, hl, hc, deliver, this]
      · simp [hl]
      · simp [hl]
  · rw [getElem?_deliverTo_not_mem m rxs is r hm]
    cases rxs[r]? with
    | none => rfl
    | some x => simp [hm]

theorem mem_subsOfL (l : List (Topic × Nat)) (t : Topic) (r : Nat) :
    r ∈ (l.filter (fun p => p.1 == t)).map (fun p => p.2) ↔ (t, r) ∈ l := by
  simp only [List.mem_map, List.mem_filter, beq_iff_eq]
  constructor
  · rintro ⟨⟨a, b⟩, ⟨h1, h2⟩, h3⟩
    simp only at h2 h3; subst h2; subst h3; exact h1
  · intro h; exact ⟨(t, r), ⟨h, rfl⟩, rfl⟩

theorem nodup_subsOfL (l : List (Topic × Nat)) (t : Topic) (nd : l.Nodup) :
    ((l.filter (fun p => p.1 == t)).map (fun p => p.2)).Nodup := by
  induction l with
  | nil => simp
  | cons a l ih =>
    rw [List.nodup_cons] at nd
    obtain ⟨a1, a2⟩ := a
    by_cases h : a1 = t
    · subst h
      simp only [List.filter_cons, beq_self_eq_true, if_true, List.map_cons, List.nodup_cons]
      refine ⟨?_, ih nd.2⟩
      rw [mem_subsOfL]; exact nd.1
    · have : (a1 == t) = false := by simp [h]
      simp only [List.filter_cons, this]
      exact ih nd.2

theorem nodup_subsOf (s : St) (t : Topic) (nd : s.regs.Nodup) : (subsOf s t).Nodup :=
  nodup_subsOfL s.regs t nd

theorem mem_subsOf (s : St) (t : Topic) (r : Nat) : r ∈ subsOf s t ↔ (t, r) ∈ s.regs :=
  mem_subsOfL s.regs t r

end Fv.Chan.Topic
