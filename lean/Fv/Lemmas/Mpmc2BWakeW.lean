import Fv.Lemmas.Mpmc2BWakeR
/-! Wake-delivery group `InvW` of the mpmc v2 wake-up invariants: an agent that blocks / is Pending on a
record whose state byte is already terminal has a park token / a counted wake, or a closing agent still
holds its deferred wake. Generated boilerplate, one lemma per step function. -/
namespace Fv.Chan.Mpmc2B
set_option linter.unusedVariables false

/-- wait states of senders and of blocking receivers (their records are never CANCELLED) -/
def liveWait : PC → Option Nat
  | .sWait _ r => some r | .sPark _ r => some r | .rWait r => some r | .rPark r => some r
  | .asPend _ r => some r | .asRef _ r => some r
  | .idle => none | .done _ => none | .sTry _ _ => none | .sReg _ _ => none | .sUnl _ _ _ => none | .tsTry _ => none
  | .rTry _ => none | .rReg _ => none | .rUnl _ => none | .trTry => none
  | .toTry _ => none | .toReg _ => none | .toRetry _ => none | .toCas _ => none | .toUnl _ => none | .toFin _ => none
  | .asNew _ _ => none | .asTry _ _ => none | .asReg _ _ => none | .asUnl _ _ _ => none | .fdUnlS _ _ => none
  | .arNew _ => none | .arTry _ => none | .arReg _ => none | .arPend _ => none | .arUnl _ => none | .fdUnlR _ => none
  | .hCloneS => none | .hCloneR => none | .hCloseS => none | .hCloseR => none | .hProbe => none | .hWake _ => none

theorem liveWait_recOf {p : PC} {r : Nat} (h : liveWait p = some r) : recOf p = some r := by
  cases p <;> simp_all [liveWait, recOf]

structure InvW (s : State) : Prop where
  k3 : ∀ t r, waitish (s.pc t) = some r → (s.st r = .success ∨ s.st r = .closed) → s.wakes t = 0 →
        t ∈ wl (s.pc (s.wakeBy r))
  k5 : ∀ t r, liveWait (s.pc t) = some r → s.st r ≠ .cancelled
  /-- a `RecvFuture` that is inside `poll` while still registered (it was polled again although WAITING) and whose
  record is CASed to CLOSED meanwhile is owed that wake as well: it may return Pending from this poll -/
  k3c : ∀ t r, (s.pc t = .arTry r ∨ s.pc t = .arReg r) → r ∈ s.war → s.st r = .closed → s.wakes t = 0 →
        t ∈ wl (s.pc (s.wakeBy r))

theorem invW_init (cap : Nat) : InvW (init cap) := by
  constructor <;> simp [init, waitish, liveWait]

attribute [local grind] recOf sendSide recvFutRec unregA waitish wl liveWait
attribute [local grind =] nodup_snoc upd_apply bump_apply List.Nodup.mem_erase_iff List.mem_map List.mem_filter
attribute [local grind →] firstW_some firstW_none' frontW_some List.mem_of_mem_erase recvFutRec_recOf unregA_recOf
  waitish_recOf liveWait_recOf
attribute [local grind ←] List.Nodup.erase nodup_filter

theorem invW_sTry {s : State} {t : Nat} {v : Nat} {r : Nat} (hk : InvK s) (hr : InvR s) (hi : InvW s) (hpc : s.pc t = .sTry v r) : InvW (stepSTry s t v r) := by
  obtain ⟨hk1, hk2, hk3, hk4, hk5, hk6, hk7, hk8⟩ := hk
  obtain ⟨hr1, hr2, hr3, hr4, hr5, hr6, hr7, hr8⟩ := hr
  obtain ⟨h1, h2, h3⟩ := hi
  unfold stepSTry
  repeat' split
  wk_close

theorem invW_sReg {s : State} {t : Nat} {v : Nat} {r : Nat} (hk : InvK s) (hr : InvR s) (hi : InvW s) (hpc : s.pc t = .sReg v r) : InvW (stepSReg s t v r) := by
  obtain ⟨hk1, hk2, hk3, hk4, hk5, hk6, hk7, hk8⟩ := hk
  obtain ⟨hr1, hr2, hr3, hr4, hr5, hr6, hr7, hr8⟩ := hr
  obtain ⟨h1, h2, h3⟩ := hi
  unfold stepSReg
  repeat' split
  wk_close

theorem invW_sWait {s : State} {t : Nat} {v : Nat} {r : Nat} (hk : InvK s) (hr : InvR s) (hi : InvW s) (hpc : s.pc t = .sWait v r) : InvW (stepSWait s t v r) := by
  obtain ⟨hk1, hk2, hk3, hk4, hk5, hk6, hk7, hk8⟩ := hk
  obtain ⟨hr1, hr2, hr3, hr4, hr5, hr6, hr7, hr8⟩ := hr
  obtain ⟨h1, h2, h3⟩ := hi
  unfold stepSWait
  repeat' split
  wk_close

theorem invW_sUnl {s : State} {t : Nat} {v : Nat} {r : Nat} {c : Bool} (hk : InvK s) (hr : InvR s) (hi : InvW s) (hpc : s.pc t = .sUnl v r c) : InvW (stepSUnl s t v r c) := by
  obtain ⟨hk1, hk2, hk3, hk4, hk5, hk6, hk7, hk8⟩ := hk
  obtain ⟨hr1, hr2, hr3, hr4, hr5, hr6, hr7, hr8⟩ := hr
  obtain ⟨h1, h2, h3⟩ := hi
  unfold stepSUnl
  repeat' split
  wk_close

theorem invW_tsTry {s : State} {t : Nat} {v : Nat} (hk : InvK s) (hr : InvR s) (hi : InvW s) (hpc : s.pc t = .tsTry v) : InvW (stepTsTry s t v) := by
  obtain ⟨hk1, hk2, hk3, hk4, hk5, hk6, hk7, hk8⟩ := hk
  obtain ⟨hr1, hr2, hr3, hr4, hr5, hr6, hr7, hr8⟩ := hr
  obtain ⟨h1, h2, h3⟩ := hi
  unfold stepTsTry
  repeat' split
  wk_close

theorem invW_rTry {s : State} {t : Nat} {r : Nat} (hk : InvK s) (hr : InvR s) (hi : InvW s) (hpc : s.pc t = .rTry r) : InvW (stepRTry s t r) := by
  obtain ⟨hk1, hk2, hk3, hk4, hk5, hk6, hk7, hk8⟩ := hk
  obtain ⟨hr1, hr2, hr3, hr4, hr5, hr6, hr7, hr8⟩ := hr
  obtain ⟨h1, h2, h3⟩ := hi
  unfold stepRTry
  repeat' split
  wk_close

theorem invW_rReg {s : State} {t : Nat} {r : Nat} (hk : InvK s) (hr : InvR s) (hi : InvW s) (hpc : s.pc t = .rReg r) : InvW (stepRReg s t r) := by
  obtain ⟨hk1, hk2, hk3, hk4, hk5, hk6, hk7, hk8⟩ := hk
  obtain ⟨hr1, hr2, hr3, hr4, hr5, hr6, hr7, hr8⟩ := hr
  obtain ⟨h1, h2, h3⟩ := hi
  unfold stepRReg
  repeat' split
  wk_close

theorem invW_rWait {s : State} {t : Nat} {r : Nat} (hk : InvK s) (hr : InvR s) (hi : InvW s) (hpc : s.pc t = .rWait r) : InvW (stepRWait s t r) := by
  obtain ⟨hk1, hk2, hk3, hk4, hk5, hk6, hk7, hk8⟩ := hk
  obtain ⟨hr1, hr2, hr3, hr4, hr5, hr6, hr7, hr8⟩ := hr
  obtain ⟨h1, h2, h3⟩ := hi
  unfold stepRWait
  repeat' split
  wk_close

theorem invW_rUnl {s : State} {t : Nat} {r : Nat} (hk : InvK s) (hr : InvR s) (hi : InvW s) (hpc : s.pc t = .rUnl r) : InvW (stepRUnl s t r) := by
  obtain ⟨hk1, hk2, hk3, hk4, hk5, hk6, hk7, hk8⟩ := hk
  obtain ⟨hr1, hr2, hr3, hr4, hr5, hr6, hr7, hr8⟩ := hr
  obtain ⟨h1, h2, h3⟩ := hi
  unfold stepRUnl
  repeat' split
  wk_close

theorem invW_trTry {s : State} {t : Nat} (hk : InvK s) (hr : InvR s) (hi : InvW s) (hpc : s.pc t = .trTry) : InvW (stepTrTry s t ) := by
  obtain ⟨hk1, hk2, hk3, hk4, hk5, hk6, hk7, hk8⟩ := hk
  obtain ⟨hr1, hr2, hr3, hr4, hr5, hr6, hr7, hr8⟩ := hr
  obtain ⟨h1, h2, h3⟩ := hi
  unfold stepTrTry
  repeat' split
  wk_close

theorem invW_toTry {s : State} {t : Nat} {r : Nat} (hk : InvK s) (hr : InvR s) (hi : InvW s) (hpc : s.pc t = .toTry r) : InvW (stepToTry s t r) := by
  obtain ⟨hk1, hk2, hk3, hk4, hk5, hk6, hk7, hk8⟩ := hk
  obtain ⟨hr1, hr2, hr3, hr4, hr5, hr6, hr7, hr8⟩ := hr
  obtain ⟨h1, h2, h3⟩ := hi
  unfold stepToTry
  repeat' split
  wk_close

theorem invW_toReg {s : State} {t : Nat} {r : Nat} (hk : InvK s) (hr : InvR s) (hi : InvW s) (hpc : s.pc t = .toReg r) : InvW (stepToReg s t r) := by
  obtain ⟨hk1, hk2, hk3, hk4, hk5, hk6, hk7, hk8⟩ := hk
  obtain ⟨hr1, hr2, hr3, hr4, hr5, hr6, hr7, hr8⟩ := hr
  obtain ⟨h1, h2, h3⟩ := hi
  unfold stepToReg
  repeat' split
  wk_close

theorem invW_toRetry {s : State} {t : Nat} {r : Nat} (hk : InvK s) (hr : InvR s) (hi : InvW s) (hpc : s.pc t = .toRetry r) : InvW (stepToRetry s t r) := by
  obtain ⟨hk1, hk2, hk3, hk4, hk5, hk6, hk7, hk8⟩ := hk
  obtain ⟨hr1, hr2, hr3, hr4, hr5, hr6, hr7, hr8⟩ := hr
  obtain ⟨h1, h2, h3⟩ := hi
  unfold stepToRetry
  repeat' split
  wk_close

theorem invW_toCas {s : State} {t : Nat} {r : Nat} (hk : InvK s) (hr : InvR s) (hi : InvW s) (hpc : s.pc t = .toCas r) : InvW (stepToCas s t r) := by
  obtain ⟨hk1, hk2, hk3, hk4, hk5, hk6, hk7, hk8⟩ := hk
  obtain ⟨hr1, hr2, hr3, hr4, hr5, hr6, hr7, hr8⟩ := hr
  obtain ⟨h1, h2, h3⟩ := hi
  unfold stepToCas
  repeat' split
  wk_close

theorem invW_toUnl {s : State} {t : Nat} {r : Nat} (hk : InvK s) (hr : InvR s) (hi : InvW s) (hpc : s.pc t = .toUnl r) : InvW (stepToUnl s t r) := by
  obtain ⟨hk1, hk2, hk3, hk4, hk5, hk6, hk7, hk8⟩ := hk
  obtain ⟨hr1, hr2, hr3, hr4, hr5, hr6, hr7, hr8⟩ := hr
  obtain ⟨h1, h2, h3⟩ := hi
  unfold stepToUnl
  repeat' split
  wk_close

theorem invW_toFin {s : State} {t : Nat} {r : Nat} (hk : InvK s) (hr : InvR s) (hi : InvW s) (hpc : s.pc t = .toFin r) : InvW (stepToFin s t r) := by
  obtain ⟨hk1, hk2, hk3, hk4, hk5, hk6, hk7, hk8⟩ := hk
  obtain ⟨hr1, hr2, hr3, hr4, hr5, hr6, hr7, hr8⟩ := hr
  obtain ⟨h1, h2, h3⟩ := hi
  unfold stepToFin
  repeat' split
  wk_close

theorem invW_asTry {s : State} {t : Nat} {v : Nat} {r : Nat} (hk : InvK s) (hr : InvR s) (hi : InvW s) (hpc : s.pc t = .asTry v r) : InvW (stepAsTry s t v r) := by
  obtain ⟨hk1, hk2, hk3, hk4, hk5, hk6, hk7, hk8⟩ := hk
  obtain ⟨hr1, hr2, hr3, hr4, hr5, hr6, hr7, hr8⟩ := hr
  obtain ⟨h1, h2, h3⟩ := hi
  unfold stepAsTry
  repeat' split
  wk_close

theorem invW_asReg {s : State} {t : Nat} {v : Nat} {r : Nat} (hk : InvK s) (hr : InvR s) (hi : InvW s) (hpc : s.pc t = .asReg v r) : InvW (stepAsReg s t v r) := by
  obtain ⟨hk1, hk2, hk3, hk4, hk5, hk6, hk7, hk8⟩ := hk
  obtain ⟨hr1, hr2, hr3, hr4, hr5, hr6, hr7, hr8⟩ := hr
  obtain ⟨h1, h2, h3⟩ := hi
  unfold stepAsReg
  repeat' split
  wk_close

theorem invW_asUnl {s : State} {t : Nat} {v : Nat} {r : Nat} {c : Bool} (hk : InvK s) (hr : InvR s) (hi : InvW s) (hpc : s.pc t = .asUnl v r c) : InvW (stepAsUnl s t v r c) := by
  obtain ⟨hk1, hk2, hk3, hk4, hk5, hk6, hk7, hk8⟩ := hk
  obtain ⟨hr1, hr2, hr3, hr4, hr5, hr6, hr7, hr8⟩ := hr
  obtain ⟨h1, h2, h3⟩ := hi
  unfold stepAsUnl
  repeat' split
  wk_close

theorem invW_asRef {s : State} {t : Nat} {v : Nat} {r : Nat} (hk : InvK s) (hr : InvR s) (hi : InvW s) (hpc : s.pc t = .asRef v r) : InvW (stepAsRef s t v r) := by
  obtain ⟨hk1, hk2, hk3, hk4, hk5, hk6, hk7, hk8⟩ := hk
  obtain ⟨hr1, hr2, hr3, hr4, hr5, hr6, hr7, hr8⟩ := hr
  obtain ⟨h1, h2, h3⟩ := hi
  unfold stepAsRef
  repeat' split
  wk_close

theorem invW_fdUnlS {s : State} {t : Nat} {v : Nat} {r : Nat} (hk : InvK s) (hr : InvR s) (hi : InvW s) (hpc : s.pc t = .fdUnlS v r) : InvW (stepFdUnlS s t v r) := by
  obtain ⟨hk1, hk2, hk3, hk4, hk5, hk6, hk7, hk8⟩ := hk
  obtain ⟨hr1, hr2, hr3, hr4, hr5, hr6, hr7, hr8⟩ := hr
  obtain ⟨h1, h2, h3⟩ := hi
  unfold stepFdUnlS
  repeat' split
  wk_close

theorem invW_arTry {s : State} {t : Nat} {r : Nat} (hk : InvK s) (hr : InvR s) (hi : InvW s) (hpc : s.pc t = .arTry r) : InvW (stepArTry s t r) := by
  obtain ⟨hk1, hk2, hk3, hk4, hk5, hk6, hk7, hk8⟩ := hk
  obtain ⟨hr1, hr2, hr3, hr4, hr5, hr6, hr7, hr8⟩ := hr
  obtain ⟨h1, h2, h3⟩ := hi
  unfold stepArTry
  repeat' split
  wk_close

theorem invW_arReg {s : State} {t : Nat} {r : Nat} (hk : InvK s) (hr : InvR s) (hi : InvW s) (hpc : s.pc t = .arReg r) : InvW (stepArReg s t r) := by
  obtain ⟨hk1, hk2, hk3, hk4, hk5, hk6, hk7, hk8⟩ := hk
  obtain ⟨hr1, hr2, hr3, hr4, hr5, hr6, hr7, hr8⟩ := hr
  obtain ⟨h1, h2, h3⟩ := hi
  unfold stepArReg
  repeat' split
  wk_close

theorem invW_arUnl {s : State} {t : Nat} {r : Nat} (hk : InvK s) (hr : InvR s) (hi : InvW s) (hpc : s.pc t = .arUnl r) : InvW (stepArUnl s t r) := by
  obtain ⟨hk1, hk2, hk3, hk4, hk5, hk6, hk7, hk8⟩ := hk
  obtain ⟨hr1, hr2, hr3, hr4, hr5, hr6, hr7, hr8⟩ := hr
  obtain ⟨h1, h2, h3⟩ := hi
  unfold stepArUnl
  repeat' split
  wk_close

theorem invW_fdUnlR {s : State} {t : Nat} {r : Nat} (hk : InvK s) (hr : InvR s) (hi : InvW s) (hpc : s.pc t = .fdUnlR r) : InvW (stepFdUnlR s t r) := by
  obtain ⟨hk1, hk2, hk3, hk4, hk5, hk6, hk7, hk8⟩ := hk
  obtain ⟨hr1, hr2, hr3, hr4, hr5, hr6, hr7, hr8⟩ := hr
  obtain ⟨h1, h2, h3⟩ := hi
  unfold stepFdUnlR
  repeat' split
  wk_close

theorem invW_hWake {s : State} {t : Nat} {ws : List Nat} (hk : InvK s) (hr : InvR s) (hi : InvW s) (hpc : s.pc t = .hWake ws) : InvW (stepHWake s t ws) := by
  obtain ⟨hk1, hk2, hk3, hk4, hk5, hk6, hk7, hk8⟩ := hk
  obtain ⟨hr1, hr2, hr3, hr4, hr5, hr6, hr7, hr8⟩ := hr
  obtain ⟨h1, h2, h3⟩ := hi
  unfold stepHWake
  repeat' split
  wk_close

theorem invW_sPark {s s' : State} {t : Nat} {v : Nat} {r : Nat} (hk : InvK s) (hr : InvR s) (hi : InvW s) (hpc : s.pc t = .sPark v r) (h : stepSPark s t v r = some s') : InvW s' := by
  obtain ⟨hk1, hk2, hk3, hk4, hk5, hk6, hk7, hk8⟩ := hk
  obtain ⟨hr1, hr2, hr3, hr4, hr5, hr6, hr7, hr8⟩ := hr
  obtain ⟨h1, h2, h3⟩ := hi
  unfold stepSPark at h
  repeat' split at h
  all_goals (simp at h; try subst h)
  wk_close

theorem invW_rPark {s s' : State} {t : Nat} {r : Nat} (hk : InvK s) (hr : InvR s) (hi : InvW s) (hpc : s.pc t = .rPark r) (h : stepRPark s t r = some s') : InvW s' := by
  obtain ⟨hk1, hk2, hk3, hk4, hk5, hk6, hk7, hk8⟩ := hk
  obtain ⟨hr1, hr2, hr3, hr4, hr5, hr6, hr7, hr8⟩ := hr
  obtain ⟨h1, h2, h3⟩ := hi
  unfold stepRPark at h
  repeat' split at h
  all_goals (simp at h; try subst h)
  wk_close

theorem invW_closeS {s s' : State} {t : Nat} (hk : InvK s) (hr : InvR s) (hi : InvW s) (hpc : s.pc t = .hCloseS) (h : stepCloseS s t  = some s') : InvW s' := by
  obtain ⟨hk1, hk2, hk3, hk4, hk5, hk6, hk7, hk8⟩ := hk
  obtain ⟨hr1, hr2, hr3, hr4, hr5, hr6, hr7, hr8⟩ := hr
  obtain ⟨h1, h2, h3⟩ := hi
  unfold stepCloseS at h
  repeat' split at h
  all_goals (simp at h; try subst h)
  wk_close

theorem invW_closeR {s s' : State} {t : Nat} (hk : InvK s) (hr : InvR s) (hi : InvW s) (hpc : s.pc t = .hCloseR) (h : stepCloseR s t  = some s') : InvW s' := by
  obtain ⟨hk1, hk2, hk3, hk4, hk5, hk6, hk7, hk8⟩ := hk
  obtain ⟨hr1, hr2, hr3, hr4, hr5, hr6, hr7, hr8⟩ := hr
  obtain ⟨h1, h2, h3⟩ := hi
  unfold stepCloseR at h
  repeat' split at h
  all_goals (simp at h; try subst h)
  wk_close

theorem invW_adv {s s' : State} {t : Nat} (hk : InvK s) (hr : InvR s) (hi : InvW s) (h : stepAdv s t = some s') : InvW s' := by
  unfold stepAdv at h
  split at h
  all_goals (first | (simp at h; done) | skip)
  all_goals rename_i hpc
  case h_1 => simp at h; subst h; exact invW_sTry hk hr hi hpc
  case h_2 => simp at h; subst h; exact invW_sReg hk hr hi hpc
  case h_3 => simp at h; subst h; exact invW_sWait hk hr hi hpc
  case h_4 => exact invW_sPark hk hr hi hpc h
  case h_5 => simp at h; subst h; exact invW_sUnl hk hr hi hpc
  case h_6 => simp at h; subst h; exact invW_tsTry hk hr hi hpc
  case h_7 => simp at h; subst h; exact invW_rTry hk hr hi hpc
  case h_8 => simp at h; subst h; exact invW_rReg hk hr hi hpc
  case h_9 => simp at h; subst h; exact invW_rWait hk hr hi hpc
  case h_10 => exact invW_rPark hk hr hi hpc h
  case h_11 => simp at h; subst h; exact invW_rUnl hk hr hi hpc
  case h_12 => simp at h; subst h; exact invW_trTry hk hr hi hpc
  case h_13 => simp at h; subst h; exact invW_toTry hk hr hi hpc
  case h_14 => simp at h; subst h; exact invW_toReg hk hr hi hpc
  case h_15 => simp at h; subst h; exact invW_toRetry hk hr hi hpc
  case h_16 => simp at h; subst h; exact invW_toCas hk hr hi hpc
  case h_17 => simp at h; subst h; exact invW_toUnl hk hr hi hpc
  case h_18 => simp at h; subst h; exact invW_toFin hk hr hi hpc
  case h_19 => simp at h; subst h; exact invW_asTry hk hr hi hpc
  case h_20 => simp at h; subst h; exact invW_asReg hk hr hi hpc
  case h_21 => simp at h; subst h; exact invW_asUnl hk hr hi hpc
  case h_22 => simp at h; subst h; exact invW_asRef hk hr hi hpc
  case h_23 => simp at h; subst h; exact invW_fdUnlS hk hr hi hpc
  case h_24 => simp at h; subst h; exact invW_arTry hk hr hi hpc
  case h_25 => simp at h; subst h; exact invW_arReg hk hr hi hpc
  case h_26 => simp at h; subst h; exact invW_arUnl hk hr hi hpc
  case h_27 => simp at h; subst h; exact invW_fdUnlR hk hr hi hpc
  case h_28 =>
    simp at h; subst h
    obtain ⟨hk1, hk2, hk3, hk4, hk5, hk6, hk7, hk8⟩ := hk
    obtain ⟨hr1, hr2, hr3, hr4, hr5, hr6, hr7, hr8⟩ := hr
    obtain ⟨h1, h2, h3⟩ := hi
    wk_close
  case h_29 =>
    simp at h; subst h
    obtain ⟨hk1, hk2, hk3, hk4, hk5, hk6, hk7, hk8⟩ := hk
    obtain ⟨hr1, hr2, hr3, hr4, hr5, hr6, hr7, hr8⟩ := hr
    obtain ⟨h1, h2, h3⟩ := hi
    wk_close
  case h_30 => exact invW_closeS hk hr hi hpc h
  case h_31 => exact invW_closeR hk hr hi hpc h
  case h_32 =>
    simp at h; subst h
    obtain ⟨hk1, hk2, hk3, hk4, hk5, hk6, hk7, hk8⟩ := hk
    obtain ⟨hr1, hr2, hr3, hr4, hr5, hr6, hr7, hr8⟩ := hr
    obtain ⟨h1, h2, h3⟩ := hi
    wk_close
  case h_33 => simp at h; subst h; exact invW_hWake hk hr hi hpc

set_option maxHeartbeats 1600000 in
theorem invW_call {s s' : State} {t : Nat} {op : Op} (hk : InvK s) (hr : InvR s) (hi : InvW s) (h : stepCall s t op = some s') : InvW s' := by
  obtain ⟨hk1, hk2, hk3, hk4, hk5, hk6, hk7, hk8⟩ := hk
  obtain ⟨hr1, hr2, hr3, hr4, hr5, hr6, hr7, hr8⟩ := hr
  obtain ⟨h1, h2, h3⟩ := hi
  unfold stepCall at h
  split at h
  · rename_i hr
    have hr' : s.pc t = .idle ∨ ∃ x, s.pc t = .done x := by
      cases hp : s.pc t <;> simp_all [PC.atRest]
    cases op <;> simp only [] at h
    all_goals (repeat' split at h)
    all_goals (simp at h; try subst h)
    wk_close
  · simp at h

theorem invW_poll {s s' : State} {t : Nat} (hk : InvK s) (hr : InvR s) (hi : InvW s) (hb : Benign s t .poll) (h : stepPoll s t = some s') : InvW s' := by
  obtain ⟨hk1, hk2, hk3, hk4, hk5, hk6, hk7, hk8⟩ := hk
  obtain ⟨hr1, hr2, hr3, hr4, hr5, hr6, hr7, hr8⟩ := hr
  obtain ⟨h1, h2, h3⟩ := hi
  unfold stepPoll at h
  repeat' split at h
  all_goals (simp at h; try subst h)
  all_goals (try simp only [Benign, *] at hb)
  wk_close

theorem invW_dropFut {s s' : State} {t : Nat} (hk : InvK s) (hr : InvR s) (hi : InvW s) (hb : Benign s t .dropFut) (h : stepDropFut s t = some s') : InvW s' := by
  obtain ⟨hk1, hk2, hk3, hk4, hk5, hk6, hk7, hk8⟩ := hk
  obtain ⟨hr1, hr2, hr3, hr4, hr5, hr6, hr7, hr8⟩ := hr
  obtain ⟨h1, h2, h3⟩ := hi
  unfold stepDropFut at h
  repeat' split at h
  all_goals (simp at h; try subst h)
  all_goals (try simp only [Benign, *] at hb)
  wk_close

theorem invW_spurious {s s' : State} {t : Nat} (hk : InvK s) (hr : InvR s) (hi : InvW s) (h : stepSpurious s t = some s') : InvW s' := by
  obtain ⟨hk1, hk2, hk3, hk4, hk5, hk6, hk7, hk8⟩ := hk
  obtain ⟨hr1, hr2, hr3, hr4, hr5, hr6, hr7, hr8⟩ := hr
  obtain ⟨h1, h2, h3⟩ := hi
  unfold stepSpurious at h
  repeat' split at h
  all_goals (simp at h; try subst h)
  wk_close

theorem invW_step {s s' : State} {t : Nat} {l : Label} (hk : InvK s) (hr : InvR s) (hi : InvW s) (hb : Benign s t l) (h : step s t l = some s') : InvW s' := by
  cases l <;> simp only [step] at h
  · exact invW_call hk hr hi h
  · exact invW_adv hk hr hi h
  · exact invW_poll hk hr hi hb h
  · exact invW_dropFut hk hr hi hb h
  · exact invW_spurious hk hr hi h


theorem invW_reach {cap : Nat} {s : State} (h : ReachB cap s) : InvW s := by
  induction h with
  | init => exact invW_init cap
  | step hr hb hs ih => exact invW_step (invK_reach hr.reach) (invR_reach hr) ih hb hs

end Fv.Chan.Mpmc2B
