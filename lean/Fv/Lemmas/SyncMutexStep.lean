import Fv.Sync.Mutex
/-!
Case analysis of `Mutex.next`: `Step cfg s t l s'` lists every primitive transition once, at the
granularity of the helper functions of the model (`callStep`, `taFail`, `taSucc`, `llEnter`,
`afterRel`, …).  `step_of_mem` is the only fact the invariant proofs need about `next`.
-/
namespace Fv.Sync.Mutex
open Fv.Sync

/-! projections through `if` (so that `upd` applications simplify to field-level conditionals) -/
section ite
variable (c : Prop) [Decidable c]
@[simp] theorem Thread.ite_pc (a b : Thread) : (if c then a else b).pc = if c then a.pc else b.pc := by split <;> rfl
@[simp] theorem Thread.ite_sv (a b : Thread) : (if c then a else b).sv = if c then a.sv else b.sv := by split <;> rfl
@[simp] theorem Thread.ite_linked (a b : Thread) : (if c then a else b).linked = if c then a.linked else b.linked := by split <;> rfl
@[simp] theorem Thread.ite_i (a b : Thread) : (if c then a else b).i = if c then a.i else b.i := by split <;> rfl
@[simp] theorem Thread.ite_cur (a b : Thread) : (if c then a else b).cur = if c then a.cur else b.cur := by split <;> rfl
@[simp] theorem Thread.ite_blockOn (a b : Thread) : (if c then a else b).blockOn = if c then a.blockOn else b.blockOn := by split <;> rfl
@[simp] theorem Thread.ite_tgt (a b : Thread) : (if c then a else b).tgt = if c then a.tgt else b.tgt := by split <;> rfl
@[simp] theorem Thread.ite_w (a b : Thread) : (if c then a else b).w = if c then a.w else b.w := by split <;> rfl
@[simp] theorem Fut.ite_phase (a b : Fut) : (if c then a else b).phase = if c then a.phase else b.phase := by split <;> rfl
@[simp] theorem Fut.ite_busy (a b : Fut) : (if c then a else b).busy = if c then a.busy else b.busy := by split <;> rfl
@[simp] theorem Fut.ite_bo (a b : Fut) : (if c then a else b).bo = if c then a.bo else b.bo := by split <;> rfl
end ite

inductive Step (cfg : Cfg) (s : State) (t : Tid) : Lbl → State → Prop
  | call {op rest} (hpc : (s.th t).pc = .idle) (hp : s.prog t = op :: rest) :
      Step cfg s t (.call op) (callStep cfg s t op)
  | ret {r} (hpc : (s.th t).pc = .ret r) :
      Step cfg s t (.ret r)
        { s with th := upd s.th t { s.th t with pc := .idle }, prog := upd s.prog t (s.prog t).tail }
  | taLoadLocked {k} (hpc : (s.th t).pc = .taLoad k) (hl : s.word.locked = true) :
      Step cfg s t (.load .state .relaxed s.word.toNat) (taFail cfg s t k)
  | taLoadFree {k} (hpc : (s.th t).pc = .taLoad k) (hl : ¬ s.word.locked = true) :
      Step cfg s t (.load .state .relaxed s.word.toNat)
        (setTh s t { s.th t with pc := .taCas k, sv := s.word })
  | taCasOk {k} (hpc : (s.th t).pc = .taCas k) (he : s.word = (s.th t).sv) :
      Step cfg s t
        (.cas .state false .acquire .relaxed s.word.toNat ({ (s.th t).sv with locked := true } : MWord).toNat true)
        (taSucc { s with word := { (s.th t).sv with locked := true }, holders := (t, true) :: s.holders } t k)
  | taCasFail {k} (hpc : (s.th t).pc = .taCas k) (he : ¬ s.word = (s.th t).sv) :
      Step cfg s t (.cas .state false .acquire .relaxed s.word.toNat s.word.toNat false) (taFail cfg s t k)
  | spinYield (hpc : (s.th t).pc = .spinYield) :
      Step cfg s t .yield (spinHead cfg (setTh s t { s.th t with i := (s.th t).i + 1 }) t)
  | llSwapBusy {k} (hpc : (s.th t).pc = .llSwap k) (hl : s.wl.locked = true) :
      Step cfg s t (.rmw .listLock .swap .acquire (b2n s.wl.locked) 1) (withPc s t (.llLoad k))
  | llSwapOk {k} (hpc : (s.th t).pc = .llSwap k) (hl : ¬ s.wl.locked = true) :
      Step cfg s t (.rmw .listLock .swap .acquire (b2n s.wl.locked) 1)
        (llEnter { s with wl := s.wl.setLocked true } t k)
  | llLoadBusy {k} (hpc : (s.th t).pc = .llLoad k) (hl : s.wl.locked = true) :
      Step cfg s t (.load .listLock .relaxed (b2n s.wl.locked)) (withPc s t (.llSpin k))
  | llLoadFree {k} (hpc : (s.th t).pc = .llLoad k) (hl : ¬ s.wl.locked = true) :
      Step cfg s t (.load .listLock .relaxed (b2n s.wl.locked)) (withPc s t (.llSwap k))
  | llSpin {k} (hpc : (s.th t).pc = .llSpin k) :
      Step cfg s t .spin (withPc s t (.llLoad k))
  | qRearmSyncLinked (hpc : (s.th t).pc = .qRearm) (hc : (s.th t).cur = none) (hl : (s.th t).linked = true) :
      Step cfg s t (.store (.nodeState (me t (s.th t))) .relaxed 0)
        { s with wl := s.wl.setWoken (me t (s.th t)) false
                 th := upd s.th t { s.th t with pc := .qFetchOr, linked := true } }
  | qRearmSyncLink (hpc : (s.th t).pc = .qRearm) (hc : (s.th t).cur = none) (hl : ¬ (s.th t).linked = true) :
      Step cfg s t (.store (.nodeState (me t (s.th t))) .relaxed 0)
        { s with wl := (s.wl.setWoken (me t (s.th t)) false).linkBack (me t (s.th t))
                 th := upd s.th t { s.th t with pc := .qFetchOr, linked := true } }
  | qRearmAsyncLinked {f} (hpc : (s.th t).pc = .qRearm) (hc : (s.th t).cur = some f)
      (hl : (s.wl.setWoken (me t (s.th t)) false).wasLinked (me t (s.th t)) = true) :
      Step cfg s t (.store (.nodeState (me t (s.th t))) .relaxed 0)
        { s with wl := s.wl.setWoken (me t (s.th t)) false
                 th := upd s.th t { s.th t with pc := .qFetchOr, linked := true } }
  | qRearmAsyncLink {f} (hpc : (s.th t).pc = .qRearm) (hc : (s.th t).cur = some f)
      (hl : ¬ (s.wl.setWoken (me t (s.th t)) false).wasLinked (me t (s.th t)) = true) :
      Step cfg s t (.store (.nodeState (me t (s.th t))) .relaxed 0)
        { s with wl := (s.wl.setWoken (me t (s.th t)) false).linkBack (me t (s.th t))
                 th := upd s.th t { s.th t with pc := .qFetchOr, linked := true } }
  | qFetchOr (hpc : (s.th t).pc = .qFetchOr) :
      Step cfg s t (.rmw .state .or .relaxed s.word.toNat ({ s.word with hq := true } : MWord).toNat)
        (withPc { s with word := { s.word with hq := true } } t .qLoad)
  | qLoadLockedSync (hpc : (s.th t).pc = .qLoad) (hl : s.word.locked = true) (hc : (s.th t).cur = none) :
      Step cfg s t (.load .state .relaxed s.word.toNat) (withPc s t (.llRel .parkLoad))
  | qLoadLockedAsync {f} (hpc : (s.th t).pc = .qLoad) (hl : s.word.locked = true) (hc : (s.th t).cur = some f) :
      Step cfg s t (.load .state .relaxed s.word.toNat) (withPc s t (.llRel .pending))
  | qLoadFree (hpc : (s.th t).pc = .qLoad) (hl : ¬ s.word.locked = true) :
      Step cfg s t (.load .state .relaxed s.word.toNat) (setTh s t { s.th t with pc := .qCas, sv := s.word })
  | qCasOkSync (hpc : (s.th t).pc = .qCas) (he : s.word = (s.th t).sv) (hc : (s.th t).cur = none) :
      Step cfg s t
        (.cas .state false .acquire .relaxed s.word.toNat ({ (s.th t).sv with locked := true } : MWord).toNat true)
        (withPc { s with word := { (s.th t).sv with locked := true }, holders := (t, true) :: s.holders,
                         wl := s.wl.unlink (me t (s.th t)) } t (.ff .retOk))
  | qCasOkAsync {f} (hpc : (s.th t).pc = .qCas) (he : s.word = (s.th t).sv) (hc : (s.th t).cur = some f) :
      Step cfg s t
        (.cas .state false .acquire .relaxed s.word.toNat ({ (s.th t).sv with locked := true } : MWord).toNat true)
        (withPc { s with word := { (s.th t).sv with locked := true }, holders := (t, true) :: s.holders,
                         wl := s.wl.unlink (me t (s.th t)) } t (.ff .retReady))
  | qCasFail (hpc : (s.th t).pc = .qCas) (he : ¬ s.word = (s.th t).sv) :
      Step cfg s t (.cas .state false .acquire .relaxed s.word.toNat s.word.toNat false) (withPc s t .qLoad)
  | ffEmpty {a} (hpc : (s.th t).pc = .ff a) (he : s.wl.len = 0) :
      Step cfg s t (.rmw .state .and .relaxed s.word.toNat ({ s.word with hq := false } : MWord).toNat)
        (withPc { s with word := { s.word with hq := false } } t (.llRel a))
  | ffNonempty {a} (hpc : (s.th t).pc = .ff a) (he : ¬ s.wl.len = 0) :
      Step cfg s t (.rmw .state .or .relaxed s.word.toNat ({ s.word with hq := true } : MWord).toNat)
        (withPc { s with word := { s.word with hq := true } } t (.llRel a))
  | llRel {a} (hpc : (s.th t).pc = .llRel a) :
      Step cfg s t (.store .listLock .release 0) (afterRel { s with wl := s.wl.setLocked false } t a)
  | wLoadWoken (hpc : (s.th t).pc = .wLoad) (hw : (s.wl.node (me t (s.th t))).woken = true) :
      Step cfg s t (.load (.nodeState (me t (s.th t))) .acquire (b2n (s.wl.node (me t (s.th t))).woken))
        (spinHead cfg (setTh s t { s.th t with i := 0 }) t)
  | wLoadWaiting (hpc : (s.th t).pc = .wLoad) (hw : ¬ (s.wl.node (me t (s.th t))).woken = true) :
      Step cfg s t (.load (.nodeState (me t (s.th t))) .acquire (b2n (s.wl.node (me t (s.th t))).woken))
        (withPc s t .wPark)
  | wPark (hpc : (s.th t).pc = .wPark) (htok : s.token t = true) :
      Step cfg s t .park (withPc { s with token := upd s.token t false } t .wLoad)
  | wParkSpur (hpc : (s.th t).pc = .wPark) :
      Step cfg s t .parkSpur (withPc s t .wLoad)
  | relAndQueued (hpc : (s.th t).pc = .relAnd) (hq : s.word.hq = true) :
      Step cfg s t (.rmw .state .and .release s.word.toNat ({ s.word with locked := false } : MWord).toNat)
        (withPc { s with word := { s.word with locked := false }, holders := s.holders.erase (t, true) } t
          (.llSwap .wakeNext))
  | relAndPlain (hpc : (s.th t).pc = .relAnd) (hq : ¬ s.word.hq = true) :
      Step cfg s t (.rmw .state .and .release s.word.toNat ({ s.word with locked := false } : MWord).toNat)
        (withPc { s with word := { s.word with locked := false }, holders := s.holders.erase (t, true) } t
          (.ret .ok))
  | wnStore (hpc : (s.th t).pc = .wnStore) :
      Step cfg s t (.store (.nodeState (s.th t).tgt) .release 1)
        { s with wl := s.wl.takeAndMark (s.th t).tgt
                 th := upd s.th t { s.th t with pc := .llRel .wake, w := (s.wl.node (s.th t).tgt).waiter } }
  | wnWake {u} (hpc : (s.th t).pc = .wnWake) (hw : (s.th t).w = some (.thread u)) :
      Step cfg s t (.unpark u) (withPc { s with token := upd s.token u true } t (.ret .ok))
  | dLoadWoken (hpc : (s.th t).pc = .dLoad) (hw : (s.wl.node (.fut (curF (s.th t)))).woken = true) :
      Step cfg s t (.load (.nodeState (.fut (curF (s.th t)))) .acquire (b2n (s.wl.node (.fut (curF (s.th t)))).woken))
        (withPc { s with fut := upd s.fut (curF (s.th t)) { s.fut (curF (s.th t)) with phase := .absent, busy := false } } t (.llSwap .wakeNext))
  | dLoadWaiting (hpc : (s.th t).pc = .dLoad) (hw : ¬ (s.wl.node (.fut (curF (s.th t)))).woken = true) :
      Step cfg s t (.load (.nodeState (.fut (curF (s.th t)))) .acquire (b2n (s.wl.node (.fut (curF (s.th t)))).woken))
        (withPc { s with fut := upd s.fut (curF (s.th t)) { s.fut (curF (s.th t)) with phase := .absent, busy := false } } t (.ret .ok))
  | boPark (hpc : (s.th t).pc = .boPark) (htok : s.token t = true) :
      Step cfg s t .park
        (pollHead cfg { s with token := upd s.token t false, th := upd s.th t { s.th t with i := 0 } } t)
  | boParkSpur (hpc : (s.th t).pc = .boPark) :
      Step cfg s t .parkSpur (pollHead cfg (setTh s t { s.th t with i := 0 }) t)

macro "unfold_next" h:ident : tactic => `(tactic| (
  unfold next at $h:ident
  split at $h:ident
  all_goals simp only [nIdle, nRet, nTaLoad, nTaCas, nSpinYield, nLlSwap, nLlLoad, nLlSpin, nQRearm, nQFetchOr,
    nQLoad, nQCas, nFf, nLlRel, nWLoad, nWPark, nRelAnd, nWnStore, nWnWake, nDLoad, nBoPark] at $h:ident))

theorem step_of_mem {cfg : Cfg} {s s' : State} {t : Tid} {l : Lbl} (h : (l, s') ∈ next cfg s t) :
    Step cfg s t l s' := by
  unfold_next h
  all_goals (repeat' split at h)
  all_goals simp only [List.mem_cons, List.not_mem_nil, Prod.mk.injEq, or_false,
    false_or, List.mem_append] at h
  all_goals first
    | (rcases h with ⟨rfl, rfl⟩ | ⟨rfl, rfl⟩ <;>
        first
          | exact Step.wPark (by assumption) (by assumption)
          | exact Step.wParkSpur (by assumption)
          | exact Step.boPark (by assumption) (by assumption)
          | exact Step.boParkSpur (by assumption))
    | (obtain ⟨rfl, rfl⟩ : _ ∧ _ := h
       first
        | exact Step.call (by assumption) (by assumption)
        | exact Step.ret (by assumption)
        | exact Step.taLoadLocked (by assumption) (by assumption)
        | exact Step.taLoadFree (by assumption) (by assumption)
        | exact Step.taCasOk (by assumption) (by assumption)
        | exact Step.taCasFail (by assumption) (by assumption)
        | exact Step.spinYield (by assumption)
        | exact Step.llSwapBusy (by assumption) (by assumption)
        | exact Step.llSwapOk (by assumption) (by assumption)
        | exact Step.llLoadBusy (by assumption) (by assumption)
        | exact Step.llLoadFree (by assumption) (by assumption)
        | exact Step.llSpin (by assumption)
        | exact Step.qRearmSyncLinked (by assumption) (by assumption) (by assumption)
        | exact Step.qRearmSyncLink (by assumption) (by assumption) (by assumption)
        | exact Step.qRearmAsyncLinked (by assumption) (by assumption) (by assumption)
        | exact Step.qRearmAsyncLink (by assumption) (by assumption) (by assumption)
        | exact Step.qFetchOr (by assumption)
        | exact Step.qLoadLockedSync (by assumption) (by assumption) (by assumption)
        | exact Step.qLoadLockedAsync (by assumption) (by assumption) (by assumption)
        | exact Step.qLoadFree (by assumption) (by assumption)
        | exact Step.qCasOkSync (by assumption) (by assumption) (by assumption)
        | exact Step.qCasOkAsync (by assumption) (by assumption) (by assumption)
        | exact Step.qCasFail (by assumption) (by assumption)
        | exact Step.ffEmpty (by assumption) (by assumption)
        | exact Step.ffNonempty (by assumption) (by assumption)
        | exact Step.llRel (by assumption)
        | exact Step.wLoadWoken (by assumption) (by assumption)
        | exact Step.wLoadWaiting (by assumption) (by assumption)
        | exact Step.wParkSpur (by assumption)
        | exact Step.boParkSpur (by assumption)
        | exact Step.relAndQueued (by assumption) (by assumption)
        | exact Step.relAndPlain (by assumption) (by assumption)
        | exact Step.wnStore (by assumption)
        | exact Step.wnWake (by assumption) (by assumption)
        | exact Step.dLoadWoken (by assumption) (by assumption)
        | exact Step.dLoadWaiting (by assumption) (by assumption))

end Fv.Sync.Mutex
