import Fv.Log.Route
/-!
Helper lemmas for C19 (routing): prefix matching, `max_by_key`, the per-appender rule lookup and
the "globally most specific logger" loop, all related to the logger list of the configuration.
-/
namespace Fv.Log

/-! ### prefix matching -/

theorem stripPrefix_eq_some {t p rest : Name} : stripPrefix t p = some rest ↔ t = p ++ rest := by
  induction p generalizing t with
  | nil => cases t <;> simp [stripPrefix, eq_comm]
  | cons d p ih =>
    cases t with
    | nil => simp [stripPrefix]
    | cons c t =>
      simp only [stripPrefix]
      by_cases h : c = d
      · subst h; simp [ih]
      · simp only [h, if_false, List.cons_append, List.cons.injEq, false_and, reduceCtorEq]

theorem stripPrefix_eq_none {t p : Name} : stripPrefix t p = none ↔ ¬ ∃ rest, t = p ++ rest := by
  constructor
  · intro h ⟨rest, hr⟩
    have := (stripPrefix_eq_some (t := t) (p := p) (rest := rest)).2 hr
    rw [h] at this; cases this
  · intro h
    cases hs : stripPrefix t p with
    | none => rfl
    | some rest => exact absurd ⟨rest, stripPrefix_eq_some.1 hs⟩ h

theorem startsWithColons_iff {r : Name} : startsWithColons r = true ↔ ∃ rest, r = ':' :: ':' :: rest := by
  fun_cases startsWithColons r
  · simp
  · rename_i h
    simp
    intro rest hr
    exact h rest hr

/-- `target_matches_prefix` is the module-path prefix relation. -/
theorem targetMatchesPrefix_iff {t p : Name} :
    targetMatchesPrefix t p = true ↔ (p = t ∨ ∃ rest, t = p ++ ':' :: ':' :: rest) := by
  unfold targetMatchesPrefix
  cases hs : stripPrefix t p with
  | none =>
    have hn := stripPrefix_eq_none.1 hs
    simp only [Bool.false_eq_true, false_iff]
    rintro (h | ⟨rest, h⟩)
    · exact hn ⟨[], by simp [h]⟩
    · exact hn ⟨_, h⟩
  | some r =>
    have hr := stripPrefix_eq_some.1 hs
    simp only [Bool.or_eq_true, List.isEmpty_iff, startsWithColons_iff]
    constructor
    · rintro (h | ⟨rest, h⟩)
      · left; simp [hr, h]
      · right; exact ⟨rest, by rw [hr, h]⟩
    · rintro (h | ⟨rest, h⟩)
      · left
        have : p ++ r = p ++ [] := by rw [← hr, h]; simp
        exact List.append_cancel_left this
      · right
        exact ⟨rest, List.append_cancel_left (hr.symm.trans h)⟩

theorem matchesB_iff {l : Logger} {ev : Event} : matchesB l ev = true ↔ Matches l ev := by
  unfold matchesB Matches
  simp only [Bool.or_eq_true, beq_iff_eq, List.isPrefixOf_iff_prefix]
  constructor
  · rintro (h | ⟨r, h⟩)
    · exact Or.inl h
    · exact Or.inr ⟨r, by simpa using h.symm⟩
  · rintro (h | ⟨r, h⟩)
    · exact Or.inl h
    · exact Or.inr ⟨r, by simpa using h.symm⟩

/-- the spec-side matcher and the code's matcher are the same relation. -/
theorem matchesB_eq_target (l : Logger) (ev : Event) :
    matchesB l ev = targetMatchesPrefix ev.target l.name := by
  rw [Bool.eq_iff_iff, matchesB_iff, targetMatchesPrefix_iff]; rfl

/-- a matching name is a list prefix of the target -/
theorem matches_prefix {t p : Name} (h : targetMatchesPrefix t p = true) : ∃ r, t = p ++ r := by
  rcases targetMatchesPrefix_iff.1 h with h | ⟨rest, h⟩
  · exact ⟨[], by simp [h]⟩
  · exact ⟨_, h⟩

/-- two names matching the same target with the same length are equal -/
theorem matches_same_length {t p q : Name} (hp : targetMatchesPrefix t p = true)
    (hq : targetMatchesPrefix t q = true) (hl : p.length = q.length) : p = q := by
  obtain ⟨r1, h1⟩ := matches_prefix hp
  obtain ⟨r2, h2⟩ := matches_prefix hq
  exact List.append_inj_left (h1.symm.trans h2) hl

/-! ### `max_by_key` -/

theorem maxByLen_eq_none {rs : List Rule} : maxByLen rs = none ↔ rs = [] := by
  cases rs with
  | nil => simp [maxByLen]
  | cons r rs =>
    simp only [maxByLen, reduceCtorEq, iff_false]
    cases maxByLen rs with
    | none => simp
    | some m => simp only; split <;> simp

theorem maxByLen_some {rs : List Rule} {m : Rule} (h : maxByLen rs = some m) :
    m ∈ rs ∧ ∀ r ∈ rs, r.1.length ≤ m.1.length := by
  induction rs generalizing m with
  | nil => simp [maxByLen] at h
  | cons r rs ih =>
    simp only [maxByLen] at h
    cases hm : maxByLen rs with
    | none =>
      rw [hm] at h
      have : rs = [] := maxByLen_eq_none.1 hm
      simp at h; subst h; subst this; simp
    | some m' =>
      rw [hm] at h
      obtain ⟨hmem, hall⟩ := ih hm
      simp only at h
      split at h
      · rename_i hle
        simp at h; subst h
        refine ⟨List.mem_cons_of_mem _ hmem, ?_⟩
        intro x hx
        rcases List.mem_cons.1 hx with rfl | hx
        · exact hle
        · exact hall x hx
      · rename_i hnle
        simp at h; subst h
        refine ⟨List.mem_cons_self, ?_⟩
        intro x hx
        rcases List.mem_cons.1 hx with rfl | hx
        · exact Nat.le_refl _
        · have := hall x hx; omega

/-! ### generic list facts -/

theorem eq_of_nodup_map {α β} (f : α → β) {l : List α} (h : (l.map f).Nodup) {x y : α}
    (hx : x ∈ l) (hy : y ∈ l) (hf : f x = f y) : x = y := by
  induction l with
  | nil => cases hx
  | cons a l ih =>
    simp only [List.map_cons, List.nodup_cons, List.mem_map, not_exists, not_and] at h
    rcases List.mem_cons.1 hx with hxa | hxl
    · rcases List.mem_cons.1 hy with hya | hyl
      · rw [hxa, hya]
      · exact absurd (by rw [← hxa]; exact hf.symm) (h.1 y hyl)
    · rcases List.mem_cons.1 hy with hya | hyl
      · exact absurd (by rw [← hya]; exact hf) (h.1 x hxl)
      · exact ih h.2 hxl hyl

/-- a non-empty finite set of loggers has a member of maximal name length -/
theorem exists_longest (P : Logger → Prop) (ls : List Logger) (h : ∃ l ∈ ls, P l) :
    ∃ w ∈ ls, P w ∧ ∀ l' ∈ ls, P l' → l'.name.length ≤ w.name.length := by
  induction ls with
  | nil => obtain ⟨l, hl, _⟩ := h; cases hl
  | cons a ls ih =>
    by_cases hex : ∃ l ∈ ls, P l
    · obtain ⟨w, hw, hPw, hmax⟩ := ih hex
      by_cases hPa : P a
      · by_cases hlen : a.name.length ≤ w.name.length
        · refine ⟨w, List.mem_cons_of_mem _ hw, hPw, ?_⟩
          intro l' hl' hP'
          rcases List.mem_cons.1 hl' with rfl | hl'
          · exact hlen
          · exact hmax l' hl' hP'
        · refine ⟨a, List.mem_cons_self, hPa, ?_⟩
          intro l' hl' hP'
          rcases List.mem_cons.1 hl' with rfl | hl'
          · exact Nat.le_refl _
          · have := hmax l' hl' hP'; omega
      · refine ⟨w, List.mem_cons_of_mem _ hw, hPw, ?_⟩
        intro l' hl' hP'
        rcases List.mem_cons.1 hl' with rfl | hl'
        · exact absurd hP' hPa
        · exact hmax l' hl' hP'
    · obtain ⟨l, hl, hPl⟩ := h
      rcases List.mem_cons.1 hl with rfl | hl
      · refine ⟨l, List.mem_cons_self, hPl, ?_⟩
        intro l' hl' hP'
        rcases List.mem_cons.1 hl' with rfl | hl'
        · exact Nat.le_refl _
        · exact absurd ⟨l', hl', hP'⟩ hex
      · exact absurd ⟨l, hl, hPl⟩ hex

/-! ### the per-appender rule lookup in terms of the logger list -/

def ruleOfLogger (l : Logger) : Rule := (l.name, l.level, l.additive)

/-- the rule `process_event` looks up for appender `a` -/
def ruleOf (cfg : Config) (ev : Event) (a : Appender) : Option Rule :=
  findMostSpecificRule (buildFilter cfg a) ev.target

theorem mem_buildFilter_rules {cfg : Config} {a : Appender} {r : Rule} :
    r ∈ (buildFilter cfg a).rules ↔ ∃ l ∈ cfg.loggers, a ∈ l.appenders ∧ r = ruleOfLogger l := by
  simp only [buildFilter, List.mem_map, List.mem_filter, List.contains_iff_mem, ruleOfLogger]
  constructor
  · rintro ⟨l, ⟨hl, ha⟩, rfl⟩; exact ⟨l, hl, ha, rfl⟩
  · rintro ⟨l, hl, ha, rfl⟩; exact ⟨l, ⟨hl, ha⟩, rfl⟩

/-- `l` is the most specific matching logger that names appender `a` -/
def MostSpecificNaming (cfg : Config) (ev : Event) (a : Appender) (l : Logger) : Prop :=
  l ∈ cfg.loggers ∧ matchesB l ev = true ∧ a ∈ l.appenders ∧
    ∀ l' ∈ cfg.loggers, matchesB l' ev = true → a ∈ l'.appenders → l'.name.length ≤ l.name.length

theorem ruleOf_some {cfg : Config} {ev : Event} {a : Appender} {r : Rule}
    (h : ruleOf cfg ev a = some r) : ∃ l, MostSpecificNaming cfg ev a l ∧ r = ruleOfLogger l := by
  unfold ruleOf findMostSpecificRule at h
  obtain ⟨hmem, hmax⟩ := maxByLen_some h
  rw [List.mem_filter] at hmem
  obtain ⟨l, hl, ha, rfl⟩ := mem_buildFilter_rules.1 hmem.1
  refine ⟨l, ⟨hl, ?_, ha, ?_⟩, rfl⟩
  · rw [matchesB_eq_target]; exact hmem.2
  · intro l' hl' hm' ha'
    have : ruleOfLogger l' ∈ (buildFilter cfg a).rules.filter (fun r => targetMatchesPrefix ev.target r.1) := by
      rw [List.mem_filter]
      refine ⟨mem_buildFilter_rules.2 ⟨l', hl', ha', rfl⟩, ?_⟩
      rw [matchesB_eq_target] at hm'; exact hm'
    exact hmax _ this

theorem ruleOf_none {cfg : Config} {ev : Event} {a : Appender} :
    ruleOf cfg ev a = none ↔ ∀ l ∈ cfg.loggers, matchesB l ev = true → a ∉ l.appenders := by
  unfold ruleOf findMostSpecificRule
  rw [maxByLen_eq_none, List.filter_eq_nil_iff]
  constructor
  · intro h l hl hm ha
    have := h (ruleOfLogger l) (mem_buildFilter_rules.2 ⟨l, hl, ha, rfl⟩)
    rw [matchesB_eq_target] at hm
    exact this hm
  · intro h r hr
    obtain ⟨l, hl, ha, rfl⟩ := mem_buildFilter_rules.1 hr
    intro hm
    have hm' : matchesB l ev = true := by rw [matchesB_eq_target]; exact hm
    exact h l hl hm' ha

/-- two matching loggers of the same name length are the same logger -/
theorem logger_unique {cfg : Config} (wf : cfg.WF) {ev : Event} {l l' : Logger}
    (hl : l ∈ cfg.loggers) (hl' : l' ∈ cfg.loggers)
    (hm : matchesB l ev = true) (hm' : matchesB l' ev = true)
    (hlen : l.name.length = l'.name.length) : l = l' := by
  rw [matchesB_eq_target] at hm hm'
  exact eq_of_nodup_map (·.name) wf.names_nodup hl hl' (matches_same_length hm hm' hlen)

theorem ruleOf_of_mostSpecificNaming {cfg : Config} (wf : cfg.WF) {ev : Event} {a : Appender} {l : Logger}
    (h : MostSpecificNaming cfg ev a l) : ruleOf cfg ev a = some (ruleOfLogger l) := by
  obtain ⟨hl, hm, ha, hmax⟩ := h
  cases hr : ruleOf cfg ev a with
  | none => exact absurd ha (ruleOf_none.1 hr l hl hm)
  | some r =>
    obtain ⟨l0, ⟨hl0, hm0, ha0, hmax0⟩, rfl⟩ := ruleOf_some hr
    have h1 := hmax l0 hl0 hm0 ha0
    have h2 := hmax0 l hl hm ha
    have : l0 = l := logger_unique wf hl0 hl hm0 hm (by omega)
    rw [this]

/-! ### the winner loop -/

theorem foldl_winner_none {rs : List (Option Rule)} {w : Option (Name × Bool)} :
    rs.foldl winnerStep w = none ↔ w = none ∧ ∀ r ∈ rs, r = none := by
  induction rs generalizing w with
  | nil => simp
  | cons r rs ih =>
    rw [List.foldl_cons, ih]
    cases r with
    | none => simp [winnerStep]
    | some q =>
      obtain ⟨p, lvl, add⟩ := q
      cases w with
      | none => simp [winnerStep]
      | some wp =>
        obtain ⟨wn, wb⟩ := wp
        simp only [winnerStep]
        split <;> simp

theorem foldl_winner_some {rs : List (Option Rule)} {w : Option (Name × Bool)} {p : Name} {add : Bool}
    (h : rs.foldl winnerStep w = some (p, add)) :
    (w = some (p, add) ∨ ∃ lvl, some (p, lvl, add) ∈ rs) ∧
    (∀ q b, w = some (q, b) → q.length ≤ p.length) ∧
    (∀ q lvl b, some (q, lvl, b) ∈ rs → q.length ≤ p.length) := by
  induction rs generalizing w with
  | nil =>
    simp only [List.foldl_nil] at h
    subst h
    refine ⟨Or.inl rfl, ?_, ?_⟩
    · intro q b hq; simp at hq; rw [hq.1]; exact Nat.le_refl _
    · intro q lvl b hq; cases hq
  | cons r rs ih =>
    rw [List.foldl_cons] at h
    obtain ⟨hsrc, hw, hrs⟩ := ih h
    cases r with
    | none =>
      simp only [winnerStep] at hsrc hw
      refine ⟨?_, hw, ?_⟩
      · rcases hsrc with h1 | ⟨lvl, h1⟩
        · exact Or.inl h1
        · exact Or.inr ⟨lvl, List.mem_cons_of_mem _ h1⟩
      · intro q lvl b hq
        rcases List.mem_cons.1 hq with h1 | h1
        · cases h1
        · exact hrs q lvl b h1
    | some rr =>
      obtain ⟨rp, rl, rb⟩ := rr
      cases w with
      | none =>
        simp only [winnerStep] at hsrc hw
        refine ⟨?_, ?_, ?_⟩
        · rcases hsrc with h1 | ⟨lvl, h1⟩
          · simp at h1; right; exact ⟨rl, by rw [h1.1, h1.2]; exact List.mem_cons_self⟩
          · exact Or.inr ⟨lvl, List.mem_cons_of_mem _ h1⟩
        · intro q b hq; cases hq
        · intro q lvl b hq
          rcases List.mem_cons.1 hq with h1 | h1
          · simp at h1; rw [h1.1]; exact hw rp rb rfl
          · exact hrs q lvl b h1
      | some wp =>
        obtain ⟨wn, wb⟩ := wp
        simp only [winnerStep] at hsrc hw
        by_cases hlt : wn.length < rp.length
        · simp only [hlt, if_true] at hsrc hw
          refine ⟨?_, ?_, ?_⟩
          · rcases hsrc with h1 | ⟨lvl, h1⟩
            · simp at h1; right; exact ⟨rl, by rw [h1.1, h1.2]; exact List.mem_cons_self⟩
            · exact Or.inr ⟨lvl, List.mem_cons_of_mem _ h1⟩
          · intro q b hq
            simp at hq
            have := hw rp rb rfl
            rw [← hq.1]; omega
          · intro q lvl b hq
            rcases List.mem_cons.1 hq with h1 | h1
            · simp at h1; rw [h1.1]; exact hw rp rb rfl
            · exact hrs q lvl b h1
        · simp only [hlt, if_false] at hsrc hw
          refine ⟨?_, ?_, ?_⟩
          · rcases hsrc with h1 | ⟨lvl, h1⟩
            · exact Or.inl h1
            · exact Or.inr ⟨lvl, List.mem_cons_of_mem _ h1⟩
          · exact hw
          · intro q lvl b hq
            rcases List.mem_cons.1 hq with h1 | h1
            · simp at h1
              have := hw wn wb rfl
              rw [h1.1]; omega
            · exact hrs q lvl b h1

/-- the winner `process_event` computes for `(cfg, ev)` -/
def winnerOf (cfg : Config) (ev : Event) : Option (Name × Bool) :=
  pickWinner (cfg.appenders.map (ruleOf cfg ev))

/-- a logger the code can see: it names at least one appender -/
def Wired (l : Logger) : Prop := l.appenders ≠ []

theorem wired_has_defined_appender {cfg : Config} (wf : cfg.WF) {l : Logger} (hl : l ∈ cfg.loggers)
    (hw : Wired l) : ∃ b ∈ l.appenders, b ∈ cfg.appenders := by
  unfold Wired at hw
  cases hap : l.appenders with
  | nil => exact absurd hap hw
  | cons b bs =>
    exact ⟨b, List.mem_cons_self, wf.named_defined l hl b (by rw [hap]; exact List.mem_cons_self)⟩

/-- the code's winner is the most specific matching *wired* logger -/
theorem winnerOf_some {cfg : Config} (wf : cfg.WF) {ev : Event} {p : Name} {add : Bool}
    (h : winnerOf cfg ev = some (p, add)) :
    ∃ l ∈ cfg.loggers, matchesB l ev = true ∧ Wired l ∧ l.name = p ∧ l.additive = add ∧
      ∀ l' ∈ cfg.loggers, matchesB l' ev = true → Wired l' → l'.name.length ≤ p.length := by
  unfold winnerOf pickWinner at h
  obtain ⟨hsrc, _, hmax⟩ := foldl_winner_some h
  rcases hsrc with h1 | ⟨lvl, h1⟩
  · cases h1
  · rw [List.mem_map] at h1
    obtain ⟨a, ha, hr⟩ := h1
    obtain ⟨l, ⟨hl, hm, hal, _⟩, hrl⟩ := ruleOf_some hr
    simp only [ruleOfLogger, Prod.mk.injEq] at hrl
    have hlw : Wired l := fun hnil => by rw [hnil] at hal; cases hal
    refine ⟨l, hl, hm, hlw, hrl.1.symm, hrl.2.2.symm, ?_⟩
    intro l' hl' hm' hw'
    obtain ⟨b, hbl, hb⟩ := wired_has_defined_appender wf hl' hw'
    obtain ⟨l2, hl2, ⟨hm2, hb2⟩, hmax2⟩ :=
      exists_longest (fun x => matchesB x ev = true ∧ b ∈ x.appenders) cfg.loggers ⟨l', hl', hm', hbl⟩
    have hmsn : MostSpecificNaming cfg ev b l2 :=
      ⟨hl2, hm2, hb2, fun x hx hxm hxb => hmax2 x hx ⟨hxm, hxb⟩⟩
    have hrule := ruleOf_of_mostSpecificNaming wf hmsn
    have hin : some (l2.name, l2.level, l2.additive) ∈ cfg.appenders.map (ruleOf cfg ev) := by
      rw [List.mem_map]; exact ⟨b, hb, hrule⟩
    have h3 := hmax _ _ _ hin
    have h4 := hmax2 l' hl' ⟨hm', hbl⟩
    omega

theorem winnerOf_none {cfg : Config} (wf : cfg.WF) {ev : Event} (h : winnerOf cfg ev = none) :
    ∀ l ∈ cfg.loggers, matchesB l ev = true → ¬ Wired l := by
  unfold winnerOf pickWinner at h
  obtain ⟨_, hall⟩ := foldl_winner_none.1 h
  intro l hl hm hw
  obtain ⟨b, hbl, hb⟩ := wired_has_defined_appender wf hl hw
  have : ruleOf cfg ev b = none := hall _ (List.mem_map.2 ⟨b, hb, rfl⟩)
  exact ruleOf_none.1 this l hl hm hbl

/-- if the most specific matching logger overall is wired, it is the code's winner -/
theorem winnerOf_of_overall {cfg : Config} (wf : cfg.WF) {ev : Event} {w : Logger}
    (hw : MostSpecificOverall cfg ev w) (hwired : Wired w) :
    winnerOf cfg ev = some (w.name, w.additive) := by
  obtain ⟨hwl, hwm, hwmax⟩ := hw
  cases hwin : winnerOf cfg ev with
  | none => exact absurd hwired (winnerOf_none wf hwin w hwl hwm)
  | some pa =>
    obtain ⟨p, add⟩ := pa
    obtain ⟨l, hl, hm, _, hn, hadd, hmax⟩ := winnerOf_some wf hwin
    have h1 := hmax w hwl hwm hwired
    have h2 := hwmax l hl hm
    have : l = w := logger_unique wf hl hwl hm hwm (by rw [hn] at h2 ⊢; omega)
    subst this
    rw [hn, hadd]

/-- in general (F12a included): the code's winner is the most specific matching logger among
those that name at least one appender -/
theorem winnerOf_of_wiredMost {cfg : Config} (wf : cfg.WF) {ev : Event} {w : Logger}
    (hwl : w ∈ cfg.loggers) (hwm : matchesB w ev = true) (hwired : Wired w)
    (hwmax : ∀ l' ∈ cfg.loggers, matchesB l' ev = true → Wired l' → l'.name.length ≤ w.name.length) :
    winnerOf cfg ev = some (w.name, w.additive) := by
  cases hwin : winnerOf cfg ev with
  | none => exact absurd hwired (winnerOf_none wf hwin w hwl hwm)
  | some pa =>
    obtain ⟨p, add⟩ := pa
    obtain ⟨l, hl, hm, hlw, hn, hadd, hmax⟩ := winnerOf_some wf hwin
    have h1 := hmax w hwl hwm hwired
    have h2 := hwmax l hl hm hlw
    have : l = w := logger_unique wf hl hwl hm hwm (by rw [hn] at h2 ⊢; omega)
    subst this
    rw [hn, hadd]

theorem winnerOf_none_of_no_wired_match {cfg : Config} (wf : cfg.WF) {ev : Event}
    (h : ∀ l ∈ cfg.loggers, matchesB l ev = true → ¬ Wired l) : winnerOf cfg ev = none := by
  cases hwin : winnerOf cfg ev with
  | none => rfl
  | some pa =>
    obtain ⟨p, add⟩ := pa
    obtain ⟨l, hl, hm, hlw, _⟩ := winnerOf_some wf hwin
    exact absurd hlw (h l hl hm)

theorem winnerOf_none_of_no_match {cfg : Config} (wf : cfg.WF) {ev : Event}
    (h : ∀ l ∈ cfg.loggers, matchesB l ev = false) : winnerOf cfg ev = none := by
  cases hwin : winnerOf cfg ev with
  | none => rfl
  | some pa =>
    obtain ⟨p, add⟩ := pa
    obtain ⟨l, hl, hm, _⟩ := winnerOf_some wf hwin
    rw [h l hl] at hm; cases hm

end Fv.Log
