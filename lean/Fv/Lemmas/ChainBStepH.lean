import Fv.Lemmas.ChainBInv
/-! Preservation of `InvH` by every step of the slab-chain model (generated skeleton + hand proofs). -/
namespace Fv.Chan.ChainB
set_option maxHeartbeats 1000000
attribute [local grind =] upd_apply upd2_apply publishNodes_apply sealNodes_apply freeNodes_apply freeNodes_nd freeNodes_stub sealNodes_nd sealNodes_stub

macro "closeH " hH:ident : tactic => `(tactic| first | exact ($hH).cnt | exact ($hH).nodup | exact ($hH).live | exact ($hH).active | exact ($hH).slab_live | exact ($hH).no_slab | exact ($hH).has_slab | exact ($hH).fin_live | exact ($hH).fin_pc | exact ($hH).gone_pc | exact ($hH).gone_fin | grind)

theorem invH_pStart {cfg : Cfg} {s s' : State} {h : Nat} {vals : List Nat} (hN : 0 < cfg.N) (hi : Inv cfg s)
    (hs : stepPStart s h vals = some s') : InvH s' := by
  obtain ⟨hH, hP, hC, hS⟩ := hi
  have _ := hN
  unfold stepPStart at hs
  step_elim hs
  all_goals clear hP hC hS
  all_goals (constructor <;> simp only [] <;> closeH hH)

theorem invH_pBump {cfg : Cfg} {s s' : State} {h : Nat} (hN : 0 < cfg.N) (hi : Inv cfg s)
    (hs : stepPBump cfg s h = some s') : InvH s' := by
  obtain ⟨hH, hP, hC, hS⟩ := hi
  have _ := hN
  unfold stepPBump at hs
  step_elim hs
  all_goals clear hP hC hS
  all_goals (constructor <;> simp only [] <;> closeH hH)

theorem invH_pSealDec {cfg : Cfg} {s s' : State} {h : Nat} (hN : 0 < cfg.N) (hi : Inv cfg s)
    (hs : stepPSealDec cfg s h = some s') : InvH s' := by
  obtain ⟨hH, hP, hC, hS⟩ := hi
  have _ := hN
  unfold stepPSealDec sealDec at hs
  step_elim hs
  all_goals clear hP hC hS
  all_goals (constructor <;> simp only [] <;> closeH hH)

theorem invH_pRelFence {cfg : Cfg} {s s' : State} {h : Nat} (hN : 0 < cfg.N) (hi : Inv cfg s)
    (hs : stepPRelFence s h = some s') : InvH s' := by
  obtain ⟨hH, hP, hC, hS⟩ := hi
  have _ := hN
  unfold stepPRelFence at hs
  step_elim hs
  all_goals clear hP hC hS
  all_goals (constructor <;> simp only [] <;> closeH hH)

theorem invH_pRelLock {cfg : Cfg} {s s' : State} {h : Nat} (hN : 0 < cfg.N) (hi : Inv cfg s)
    (hs : stepPRelLock s h = some s') : InvH s' := by
  obtain ⟨hH, hP, hC, hS⟩ := hi
  have _ := hN
  unfold stepPRelLock at hs
  step_elim hs
  all_goals clear hP hC hS
  all_goals (constructor <;> simp only [] <;> closeH hH)

theorem invH_pRelUnlock {cfg : Cfg} {s s' : State} {h : Nat} (hN : 0 < cfg.N) (hi : Inv cfg s)
    (hs : stepPRelUnlock cfg s h = some s') : InvH s' := by
  obtain ⟨hH, hP, hC, hS⟩ := hi
  have _ := hN
  unfold stepPRelUnlock at hs
  step_elim hs
  all_goals clear hP hC hS
  all_goals (constructor <;> simp only [] <;> closeH hH)

theorem invH_pAcqLock {cfg : Cfg} {s s' : State} {h : Nat} (hN : 0 < cfg.N) (hi : Inv cfg s)
    (hs : stepPAcqLock s h = some s') : InvH s' := by
  obtain ⟨hH, hP, hC, hS⟩ := hi
  have _ := hN
  unfold stepPAcqLock at hs
  step_elim hs
  all_goals clear hP hC hS
  all_goals (constructor <;> simp only [] <;> closeH hH)

theorem invH_pAcqUnlock {cfg : Cfg} {s s' : State} {h : Nat} (hN : 0 < cfg.N) (hi : Inv cfg s)
    (hs : stepPAcqUnlock s h = some s') : InvH s' := by
  obtain ⟨hH, hP, hC, hS⟩ := hi
  have _ := hN
  unfold stepPAcqUnlock at hs
  step_elim hs
  all_goals clear hP hC hS
  all_goals (constructor <;> simp only [] <;> closeH hH)

theorem invH_pRearmRem {cfg : Cfg} {s s' : State} {h : Nat} (hN : 0 < cfg.N) (hi : Inv cfg s)
    (hs : stepPRearmRem cfg s h = some s') : InvH s' := by
  obtain ⟨hH, hP, hC, hS⟩ := hi
  have _ := hN
  unfold stepPRearmRem at hs
  step_elim hs
  all_goals clear hP hC hS
  all_goals (constructor <;> simp only [] <;> closeH hH)

theorem invH_pRearmNode {cfg : Cfg} {s s' : State} {h : Nat} (hN : 0 < cfg.N) (hi : Inv cfg s)
    (hs : stepPRearmNode cfg s h = some s') : InvH s' := by
  obtain ⟨hH, hP, hC, hS⟩ := hi
  have _ := hN
  unfold stepPRearmNode at hs
  step_elim hs
  all_goals clear hP hC hS
  all_goals (constructor <;> simp only [] <;> closeH hH)

theorem invH_pAlloc {cfg : Cfg} {s s' : State} {h : Nat} (hN : 0 < cfg.N) (hi : Inv cfg s)
    (hs : stepPAlloc cfg s h = some s') : InvH s' := by
  obtain ⟨hH, hP, hC, hS⟩ := hi
  have _ := hN
  unfold stepPAlloc at hs
  step_elim hs
  all_goals clear hP hC hS
  all_goals (constructor <;> simp only [] <;> closeH hH)

theorem invH_pPrelink {cfg : Cfg} {s s' : State} {h : Nat} (hN : 0 < cfg.N) (hi : Inv cfg s)
    (hs : stepPPrelink s h = some s') : InvH s' := by
  obtain ⟨hH, hP, hC, hS⟩ := hi
  have _ := hN
  unfold stepPPrelink at hs
  step_elim hs
  all_goals clear hP hC hS
  all_goals (constructor <;> simp only [] <;> closeH hH)

theorem invH_pSwap {cfg : Cfg} {s s' : State} {h : Nat} (hN : 0 < cfg.N) (hi : Inv cfg s)
    (hs : stepPSwap s h = some s') : InvH s' := by
  obtain ⟨hH, hP, hC, hS⟩ := hi
  have _ := hN
  unfold stepPSwap at hs
  step_elim hs
  all_goals clear hP hC hS
  all_goals (constructor <;> simp only [] <;> closeH hH)

theorem invH_pLink {cfg : Cfg} {s s' : State} {h : Nat} (hN : 0 < cfg.N) (hi : Inv cfg s)
    (hs : stepPLink s h = some s') : InvH s' := by
  obtain ⟨hH, hP, hC, hS⟩ := hi
  have _ := hN
  unfold stepPLink at hs
  step_elim hs
  all_goals clear hP hC hS
  all_goals (constructor <;> simp only [] <;> closeH hH)

theorem invH_pClose {cfg : Cfg} {s s' : State} {h : Nat} (hN : 0 < cfg.N) (hi : Inv cfg s)
    (hs : stepPClose s h = some s') : InvH s' := by
  obtain ⟨hH, hP, hC, hS⟩ := hi
  have _ := hN
  unfold stepPClose at hs
  step_elim hs
  all_goals clear hP hC hS
  all_goals (constructor <;> simp only [] <;> closeH hH)

theorem invH_pDropDec {cfg : Cfg} {s s' : State} {h : Nat} (hN : 0 < cfg.N) (hi : Inv cfg s)
    (hs : stepPDropDec s h = some s') : InvH s' := by
  obtain ⟨hH, hP, hC, hS⟩ := hi
  have _ := hN
  unfold stepPDropDec at hs
  step_elim hs
  rename_i b hpc
  have hmem : h ∈ s.liveS := (hH.live h).1 |> fun _ => (hH.live h).2 (hH.active h (by simp [hpc]))
  constructor <;> simp only []
  case cnt => rw [List.length_erase_of_mem hmem, hH.cnt]
  case nodup => exact hH.nodup.erase h
  case live => intro h'; rw [hH.nodup.mem_erase_iff]; have := hH.live h'; grind
  case fin_live => intro hf; simp [hH.fin_live hf]
  all_goals closeH hH

theorem invH_pClone {cfg : Cfg} {s s' : State} {h h' : Nat} (hN : 0 < cfg.N) (hi : Inv cfg s)
    (hs : stepPClone s h h' = some s') : InvH s' := by
  obtain ⟨hH, hP, hC, hS⟩ := hi
  have _ := hN
  unfold stepPClone at hs
  step_elim hs
  rename_i hc
  constructor <;> simp only []
  case cnt => simp [hH.cnt]
  case nodup =>
    have : h' ∉ s.liveS := fun hm => by have := (hH.live h').1 hm; simp_all
    exact List.nodup_append.2 ⟨hH.nodup, by simp, by intro a ha b hb; simp at hb; subst hb; intro e; subst e; exact this ha⟩
  case live => intro h2; have := hH.live h2; simp [List.mem_append]; grind
  case fin_live => intro hf; rw [hc.2.2] at hf; simp at hf
  all_goals closeH hH

theorem invH_cPopLoad {cfg : Cfg} {s s' : State}  (hN : 0 < cfg.N) (hi : Inv cfg s)
    (hs : stepCPopLoad s = some s') : InvH s' := by
  obtain ⟨hH, hP, hC, hS⟩ := hi
  have _ := hN
  unfold stepCPopLoad leaveNode at hs
  step_elim hs
  all_goals clear hP hC hS
  all_goals (constructor <;> simp only [] <;> closeH hH)

theorem invH_cRetDec {cfg : Cfg} {s s' : State}  (hN : 0 < cfg.N) (hi : Inv cfg s)
    (hs : stepCRetDec s = some s') : InvH s' := by
  obtain ⟨hH, hP, hC, hS⟩ := hi
  have _ := hN
  unfold stepCRetDec at hs
  step_elim hs
  all_goals clear hP hC hS
  all_goals (constructor <;> simp only [] <;> closeH hH)

theorem invH_cRelFence {cfg : Cfg} {s s' : State}  (hN : 0 < cfg.N) (hi : Inv cfg s)
    (hs : stepCRelFence s = some s') : InvH s' := by
  obtain ⟨hH, hP, hC, hS⟩ := hi
  have _ := hN
  unfold stepCRelFence at hs
  step_elim hs
  all_goals clear hP hC hS
  all_goals (constructor <;> simp only [] <;> closeH hH)

theorem invH_cRelLock {cfg : Cfg} {s s' : State}  (hN : 0 < cfg.N) (hi : Inv cfg s)
    (hs : stepCRelLock s = some s') : InvH s' := by
  obtain ⟨hH, hP, hC, hS⟩ := hi
  have _ := hN
  unfold stepCRelLock at hs
  step_elim hs
  all_goals clear hP hC hS
  all_goals (constructor <;> simp only [] <;> closeH hH)

theorem invH_cRelUnlock {cfg : Cfg} {s s' : State}  (hN : 0 < cfg.N) (hi : Inv cfg s)
    (hs : stepCRelUnlock cfg s = some s') : InvH s' := by
  obtain ⟨hH, hP, hC, hS⟩ := hi
  have _ := hN
  unfold stepCRelUnlock at hs
  step_elim hs
  all_goals clear hP hC hS
  all_goals (constructor <;> simp only [] <;> closeH hH)

theorem invH_cRet {cfg : Cfg} {s s' : State}  (hN : 0 < cfg.N) (hi : Inv cfg s)
    (hs : stepCRet s = some s') : InvH s' := by
  obtain ⟨hH, hP, hC, hS⟩ := hi
  have _ := hN
  unfold stepCRet at hs
  step_elim hs
  all_goals clear hP hC hS
  all_goals (constructor <;> simp only [] <;> closeH hH)

theorem invH_cFinStart {cfg : Cfg} {s s' : State}  (hN : 0 < cfg.N) (hi : Inv cfg s)
    (hs : stepCFinStart s = some s') : InvH s' := by
  obtain ⟨hH, hP, hC, hS⟩ := hi
  have _ := hN
  unfold stepCFinStart at hs
  step_elim hs
  all_goals clear hP hC hS
  all_goals (constructor <;> simp only [] <;> closeH hH)

theorem invH_cFinLoad {cfg : Cfg} {s s' : State}  (hN : 0 < cfg.N) (hi : Inv cfg s)
    (hs : stepCFinLoad s = some s') : InvH s' := by
  obtain ⟨hH, hP, hC, hS⟩ := hi
  have _ := hN
  unfold stepCFinLoad leaveNode at hs
  step_elim hs
  all_goals clear hP hC hS
  all_goals (constructor <;> simp only [] <;> closeH hH)

end Fv.Chan.ChainB
