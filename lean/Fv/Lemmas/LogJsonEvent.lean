import Fv.Lemmas.LogJsonObj
/-! C20 helper lemmas: what `format_event` puts into the map, and what a reader finds there. -/
namespace Fv.Log.Json
open Fv.Log

/-! ### `insertKV` / `lookup` -/

theorem lookup_insertKV {α} (k k' : Text) (v : α) (m : List (Text × α)) :
    lookup k (insertKV k' v m) = if k = k' then some v else lookup k m := by
  induction m with
  | nil => simp [insertKV, lookup]
  | cons e rest ih =>
    obtain ⟨k2, v2⟩ := e
    simp only [insertKV]
    by_cases hlt : ltText k' k2 = true
    · simp only [hlt, if_true, lookup]
    · simp only [hlt, Bool.false_eq_true, if_false]
      by_cases heq : k' = k2
      · subst heq
        simp only [if_true, lookup]
        by_cases hk : k = k' <;> simp [hk]
      · simp only [heq, if_false, lookup, ih]
        by_cases hk2 : k = k2
        · subst hk2
          have : k ≠ k' := fun h => heq h.symm
          simp [this]
        · simp [hk2]

theorem mem_insertKV {α} {k : Text} {v : α} {m : List (Text × α)} {e : Text × α} (h : e ∈ insertKV k v m) :
    e = (k, v) ∨ e ∈ m := by
  induction m with
  | nil => simp [insertKV] at h; exact Or.inl h
  | cons e2 rest ih =>
    obtain ⟨k2, v2⟩ := e2
    simp only [insertKV] at h
    split at h
    · simp only [List.mem_cons] at h ⊢
      rcases h with h | h | h
      · exact Or.inl h
      · exact Or.inr (Or.inl h)
      · exact Or.inr (Or.inr h)
    · split at h
      · simp only [List.mem_cons] at h ⊢
        rcases h with h | h
        · exact Or.inl h
        · exact Or.inr (Or.inr h)
      · simp only [List.mem_cons] at h ⊢
        rcases h with h | h
        · exact Or.inr (Or.inl h)
        · rcases ih h with h | h
          · exact Or.inl h
          · exact Or.inr (Or.inr h)

theorem containsKey_eq_lookup {α} (k : Text) (m : List (Text × α)) : containsKey k m = (lookup k m).isSome := by
  induction m with
  | nil => rfl
  | cons e rest ih =>
    obtain ⟨k2, v2⟩ := e
    simp only [containsKey, lookup, ih]
    by_cases h : k = k2 <;> simp [h]

theorem lookup_eq_none_of_not_mem {α} (k : Text) (m : List (Text × α)) (h : k ∉ m.map (·.1)) : lookup k m = none := by
  induction m with
  | nil => rfl
  | cons e rest ih =>
    obtain ⟨k2, v2⟩ := e
    simp only [List.map_cons, List.mem_cons, not_or] at h
    simp only [lookup, h.1, if_false]
    exact ih h.2

theorem lookup_of_mem_nodup {α} (m : List (Text × α)) (hnd : (m.map (·.1)).Nodup) {k : Text} {v : α} (h : (k, v) ∈ m) :
    lookup k m = some v := by
  induction m with
  | nil => simp at h
  | cons e rest ih =>
    obtain ⟨k2, v2⟩ := e
    simp only [List.map_cons, List.nodup_cons] at hnd
    simp only [List.mem_cons, Prod.mk.injEq] at h
    rcases h with ⟨rfl, rfl⟩ | h
    · simp [lookup]
    · have : k ≠ k2 := by
        intro hk; subst hk
        exact hnd.1 (List.mem_map.mpr ⟨(k, v), h, rfl⟩)
      simp only [lookup, this, if_false]
      exact ih hnd.2 h

/-! ### nested fields -/

theorem lookup_nestedFields_not_mem (l : List (Text × LogValue)) (acc : List (Text × Scalar)) (k : Text)
    (h : k ∉ l.map (·.1)) : lookup k (nestedFields l acc) = lookup k acc := by
  induction l generalizing acc with
  | nil => rfl
  | cons e rest ih =>
    obtain ⟨k2, v2⟩ := e
    simp only [List.map_cons, List.mem_cons, not_or] at h
    simp only [nestedFields]
    rw [ih _ h.2, lookup_insertKV]
    simp [h.1]

theorem lookup_nestedFields (l : List (Text × LogValue)) (hnd : (l.map (·.1)).Nodup) (acc : List (Text × Scalar)) (k : Text) :
    lookup k (nestedFields l acc) = match lookup k l with | some v => some (toJson v) | none => lookup k acc := by
  induction l generalizing acc with
  | nil => rfl
  | cons e rest ih =>
    obtain ⟨k2, v2⟩ := e
    simp only [List.map_cons, List.nodup_cons] at hnd
    simp only [nestedFields, lookup]
    by_cases hk : k = k2
    · subst hk
      simp only [if_true]
      rw [lookup_nestedFields_not_mem _ _ _ hnd.1, lookup_insertKV]
      simp
    · simp only [hk, if_false]
      rw [ih hnd.2, lookup_insertKV]
      simp [hk]

theorem mem_nestedFields {l : List (Text × LogValue)} {acc : List (Text × Scalar)} {e : Text × Scalar}
    (h : e ∈ nestedFields l acc) : e ∈ acc ∨ ∃ k v, (k, v) ∈ l ∧ e = (k, toJson v) := by
  induction l generalizing acc with
  | nil => exact Or.inl h
  | cons e2 rest ih =>
    obtain ⟨k2, v2⟩ := e2
    simp only [nestedFields] at h
    rcases ih h with h | ⟨k, v, hm, he⟩
    · rcases mem_insertKV h with h | h
      · exact Or.inr ⟨k2, v2, by simp, h⟩
      · exact Or.inl h
    · exact Or.inr ⟨k, v, by simp [hm], he⟩

/-! ### flattening -/

theorem lookup_flattenInto_of_contains (l : List (Text × LogValue)) (m : List (Text × Value)) (k : Text)
    (h : containsKey k m = true) : lookup k (flattenInto m l) = lookup k m := by
  induction l generalizing m with
  | nil => rfl
  | cons e rest ih =>
    obtain ⟨k2, v2⟩ := e
    simp only [flattenInto]
    by_cases hc : containsKey k2 m = true
    · simp only [hc, if_true]; exact ih m h
    · simp only [hc, Bool.false_eq_true, if_false]
      have hne : k ≠ k2 := by intro hk; subst hk; exact hc h
      have h' : containsKey k (insertKV k2 (Value.scalar (toJson v2)) m) = true := by
        rw [containsKey_eq_lookup, lookup_insertKV] at *
        simp [hne, h]
      rw [ih _ h', lookup_insertKV]
      simp [hne]

theorem lookup_flattenInto_not_mem (l : List (Text × LogValue)) (m : List (Text × Value)) (k : Text)
    (h : k ∉ l.map (·.1)) : lookup k (flattenInto m l) = lookup k m := by
  induction l generalizing m with
  | nil => rfl
  | cons e rest ih =>
    obtain ⟨k2, v2⟩ := e
    simp only [List.map_cons, List.mem_cons, not_or] at h
    simp only [flattenInto]
    rw [ih _ h.2]
    split
    · rfl
    · rw [lookup_insertKV]; simp [h.1]

/-- a custom field that does not collide with a key already in the map is found under its own name -/
theorem lookup_flattenInto (l : List (Text × LogValue)) (hnd : (l.map (·.1)).Nodup) (m : List (Text × Value)) (k : Text)
    (hk : containsKey k m = false) :
    lookup k (flattenInto m l) = match lookup k l with | some v => some (.scalar (toJson v)) | none => none := by
  induction l generalizing m with
  | nil => simp only [flattenInto, lookup]; rw [containsKey_eq_lookup] at hk; simpa using hk
  | cons e rest ih =>
    obtain ⟨k2, v2⟩ := e
    simp only [List.map_cons, List.nodup_cons] at hnd
    simp only [flattenInto, lookup]
    by_cases hkk : k = k2
    · subst hkk
      simp only [hk, Bool.false_eq_true, if_false, if_true]
      rw [lookup_flattenInto_not_mem _ _ _ hnd.1, lookup_insertKV]
      simp
    · simp only [hkk, if_false]
      apply ih hnd.2
      split
      · exact hk
      · rw [containsKey_eq_lookup, lookup_insertKV] at *
        simp [hkk]; simpa using hk

theorem mem_flattenInto {l : List (Text × LogValue)} {m : List (Text × Value)} {e : Text × Value}
    (h : e ∈ flattenInto m l) : e ∈ m ∨ ∃ k v, (k, v) ∈ l ∧ e = (k, .scalar (toJson v)) := by
  induction l generalizing m with
  | nil => exact Or.inl h
  | cons e2 rest ih =>
    obtain ⟨k2, v2⟩ := e2
    simp only [flattenInto] at h
    rcases ih h with h | ⟨k, v, hm, he⟩
    · split at h
      · exact Or.inl h
      · rcases mem_insertKV h with h | h
        · exact Or.inr ⟨k2, v2, by simp, h⟩
        · exact Or.inl h
    · exact Or.inr ⟨k, v, by simp [hm], he⟩

/-! ### the core map -/

theorem mem_insertOpt {k : Text} {v : Option Text} {m : List (Text × Value)} {e : Text × Value} (h : e ∈ insertOpt k v m) :
    (∃ s, e = (k, .scalar (.str s))) ∨ e ∈ m := by
  cases v with
  | none => exact Or.inr h
  | some s =>
    rcases mem_insertKV h with h | h
    · exact Or.inl ⟨s, h⟩
    · exact Or.inr h

theorem lookup_insertOpt (k k' : Text) (v : Option Text) (m : List (Text × Value)) :
    lookup k (insertOpt k' v m) = if k = k' then (match v with | some s => some (.scalar (.str s)) | none => lookup k m) else lookup k m := by
  cases v with
  | none => simp only [insertOpt]; split <;> rfl
  | some s => simp only [insertOpt, lookup_insertKV]

/-- every entry of the core map is a string scalar under one of the nine core keys -/
theorem mem_coreMap {ev : Event} {e : Text × Value} (h : e ∈ coreMap ev) : e.1 ∈ coreKeys ∧ ∃ s, e.2 = .scalar (.str s) := by
  simp only [coreMap] at h
  rcases mem_insertOpt h with ⟨s, rfl⟩ | h
  · exact ⟨by simp [coreKeys], s, rfl⟩
  rcases mem_insertOpt h with ⟨s, rfl⟩ | h
  · exact ⟨by simp [coreKeys], s, rfl⟩
  rcases mem_insertOpt h with ⟨s, rfl⟩ | h
  · exact ⟨by simp [coreKeys], s, rfl⟩
  rcases mem_insertOpt h with ⟨s, rfl⟩ | h
  · exact ⟨by simp [coreKeys], s, rfl⟩
  rcases mem_insertKV h with rfl | h
  · exact ⟨by simp [coreKeys], _, rfl⟩
  rcases mem_insertOpt h with ⟨s, rfl⟩ | h
  · exact ⟨by simp [coreKeys], s, rfl⟩
  rcases mem_insertKV h with rfl | h
  · exact ⟨by simp [coreKeys], _, rfl⟩
  rcases mem_insertKV h with rfl | h
  · exact ⟨by simp [coreKeys], _, rfl⟩
  rcases mem_insertKV h with rfl | h
  · exact ⟨by simp [coreKeys], _, rfl⟩
  simp at h

theorem lookup_coreMap_level (ev : Event) : lookup kLevel (coreMap ev) = some (.scalar (.str ev.level.text)) := by
  simp only [coreMap, lookup_insertOpt, lookup_insertKV]
  simp (decide := true)

theorem lookup_coreMap_target (ev : Event) : lookup kTarget (coreMap ev) = some (.scalar (.str ev.target)) := by
  simp only [coreMap, lookup_insertOpt, lookup_insertKV]
  simp (decide := true)

theorem lookup_coreMap_message (ev : Event) :
    lookup kMessage (coreMap ev) = ev.message.map (fun s => .scalar (.str s)) := by
  simp only [coreMap, lookup_insertOpt, lookup_insertKV]
  cases ev.message <;> simp (decide := true) [lookup]

theorem lookup_coreMap_fields (ev : Event) : lookup kFields (coreMap ev) = none := by
  apply lookup_eq_none_of_not_mem
  intro h
  obtain ⟨e, he, hk⟩ := List.mem_map.mp h
  have := (mem_coreMap he).1
  rw [hk] at this
  revert this; decide

end Fv.Log.Json
