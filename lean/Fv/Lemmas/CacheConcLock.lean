import Fv.Lemmas.CacheConc
/-! Maintenance-lock invariant of the concurrent cache model: a thread is inside a maintenance pass
of shard `sh` iff it holds `maintenance_lock[sh]`; hence at most one thread at a time drains a shard's
write-event buffer (the discipline `store.rs` relies on for its `unsafe impl Sync for Shard`).
Also: removal ids in the removal log are unique. -/
namespace Fv.Cache.Conc

/-- the shard whose maintenance pass the thread is in -/
def holds : PC → Option Nat
  | .mDrain m _ _ => some m.sh
  | .mAdmit m _ => some m.sh
  | .mVictim m _ _ _ _ => some m.sh
  | .mSub m _ _ _ => some m.sh
  | .mNote m _ _ => some m.sh
  | .mTtl m => some m.sh
  | .mTtlMap m _ => some m.sh
  | .mTti m => some m.sh
  | .mCapLoad m => some m.sh
  | .mCapEvict m _ => some m.sh
  | .mCapMap m _ _ => some m.sh
  | .mCapSub m _ => some m.sh
  | .mUnlock m => some m.sh
  | _ => none

structure InvL (s : State) : Prop where
  held : ∀ t sh, holds (s.pc t) = some sh → s.mlock sh = some t
  owner : ∀ t sh, s.mlock sh = some t → holds (s.pc t) = some sh

theorem invL_init : InvL init := by constructor <;> simp [init, holds]

@[simp] theorem holds_idle  : holds (.idle ) = none := rfl
@[simp] theorem holds_done {r} : holds (.done r) = none := rfl
@[simp] theorem holds_rd {k p} : holds (.rd k p) = none := rfl
@[simp] theorem holds_ins {k v c e l} : holds (.ins k v c e l) = none := rfl
@[simp] theorem holds_insSub {k} {c} {old} : holds (.insSub k c old) = none := rfl
@[simp] theorem holds_insEv {k} {c} : holds (.insEv k c) = none := rfl
@[simp] theorem holds_insAdd {k} {c} : holds (.insAdd k c) = none := rfl
@[simp] theorem holds_insMaint {k} : holds (.insMaint k) = none := rfl
@[simp] theorem holds_rm {k} : holds (.rm k) = none := rfl
@[simp] theorem holds_rmPol {k} {v} {c} {rid} : holds (.rmPol k v c rid) = none := rfl
@[simp] theorem holds_rmSub {k} {v} {c} {rid} : holds (.rmSub k v c rid) = none := rfl
@[simp] theorem holds_rmNote {k} {v} {rid} : holds (.rmNote k v rid) = none := rfl
@[simp] theorem holds_cmp {k} {d} {l} : holds (.cmp k d l) = none := rfl
@[simp] theorem holds_oi {k} {v} {c} : holds (.oi k v c) = none := rfl
@[simp] theorem holds_oiEv {k} {v} {c} : holds (.oiEv k v c) = none := rfl
@[simp] theorem holds_oiAdd {k} {v} {c} : holds (.oiAdd k v c) = none := rfl
@[simp] theorem holds_clr {a p} : holds (.clr a p) = none := rfl
@[simp] theorem holds_mLock {a} {b} {f} : holds (.mLock a b f) = none := rfl
@[simp] theorem holds_mDrain {m} {l} {a} : holds (.mDrain m l a) = some m.sh := rfl
@[simp] theorem holds_mAdmit {m} {ws} : holds (.mAdmit m ws) = some m.sh := rfl
@[simp] theorem holds_mVictim {m} {ws} {vs} {tot} {ns} : holds (.mVictim m ws vs tot ns) = some m.sh := rfl
@[simp] theorem holds_mSub {m} {ws} {tot} {ns} : holds (.mSub m ws tot ns) = some m.sh := rfl
@[simp] theorem holds_mNote {m} {ws} {ns} : holds (.mNote m ws ns) = some m.sh := rfl
@[simp] theorem holds_mTtl {m} : holds (.mTtl m) = some m.sh := rfl
@[simp] theorem holds_mTtlMap {m} {e} : holds (.mTtlMap m e) = some m.sh := rfl
@[simp] theorem holds_mTti {m} : holds (.mTti m) = some m.sh := rfl
@[simp] theorem holds_mCapLoad {m} : holds (.mCapLoad m) = some m.sh := rfl
@[simp] theorem holds_mCapEvict {m} {n} : holds (.mCapEvict m n) = some m.sh := rfl
@[simp] theorem holds_mCapMap {m} {v} {r} : holds (.mCapMap m v r) = some m.sh := rfl
@[simp] theorem holds_mCapSub {m} {r} : holds (.mCapSub m r) = some m.sh := rfl
@[simp] theorem holds_mUnlock {m} : holds (.mUnlock m) = some m.sh := rfl
theorem holds_afterWrites (m : MCtx) : holds (afterWrites m) = some m.sh := by unfold afterWrites; split <;> rfl
theorem holds_nextAdmit (m : MCtx) (ws) : holds (nextAdmit m ws) = some m.sh := by
  unfold nextAdmit; split <;> first | exact holds_afterWrites _ | rfl
theorem holds_startDrain (m : MCtx) (l) : holds (startDrain m l) = some m.sh := by
  unfold startDrain; split <;> first | exact holds_nextAdmit _ _ | rfl
theorem holds_afterSub (m : MCtx) (ws ns) : holds (afterSub m ws ns) = some m.sh := by
  unfold afterSub; split <;> first | exact holds_nextAdmit _ _ | rfl
theorem holds_afterVictim (m : MCtx) (ws vs tot ns) : holds (afterVictim m ws vs tot ns) = some m.sh := by
  unfold afterVictim; split <;> rfl
theorem holds_startPC (c : Cfg) (n : Nat) (op : Op) : holds (startPC c n op) = none := by cases op <;> rfl

/-- `pc t` changes to a PC with the same lock footprint; locks unchanged -/
theorem invL_frame {s s' : State} (hi : InvL s) (t : Nat) (x : PC) (hpc : s'.pc = upd s.pc t x)
    (hh : holds x = holds (s.pc t)) (hl : s'.mlock = s.mlock) : InvL s' := by
  obtain ⟨h1, h2⟩ := hi
  have key : ∀ u, holds (s'.pc u) = holds (s.pc u) := by
    intro u; rw [hpc, upd_apply]; split
    · rename_i e; rw [e, hh]
    · rfl
  exact ⟨fun u sh h => by rw [hl]; exact h1 u sh (by rw [← key]; exact h),
         fun u sh h => by rw [key]; exact h2 u sh (by rw [← hl]; exact h)⟩

theorem invL_lock {s s' : State} (hi : InvL s) (t sh : Nat) (x : PC) (hpc : s'.pc = upd s.pc t x)
    (h0 : holds (s.pc t) = none) (hh : holds x = some sh) (hf : s.mlock sh = none)
    (hl : s'.mlock = upd s.mlock sh (some t)) : InvL s' := by
  obtain ⟨h1, h2⟩ := hi
  constructor
  · intro u sh' h
    rw [hpc, upd_apply] at h; rw [hl, upd_apply]
    split at h
    · rename_i e; subst e; rw [hh] at h; simp at h; subst h; simp
    · have := h1 u sh' h
      split
      · rename_i e; subst e; rw [hf] at this; simp at this
      · exact this
  · intro u sh' h
    rw [hl, upd_apply] at h; rw [hpc, upd_apply]
    split at h
    · rename_i e; subst e; simp at h; subst h; simp [hh]
    · have := h2 u sh' h
      split
      · rename_i e; subst e; rw [h0] at this; simp at this
      · exact this

theorem invL_unlock {s s' : State} (hi : InvL s) (t sh : Nat) (x : PC) (hpc : s'.pc = upd s.pc t x)
    (h0 : holds (s.pc t) = some sh) (hh : holds x = none)
    (hl : s'.mlock = upd s.mlock sh none) : InvL s' := by
  obtain ⟨h1, h2⟩ := hi
  constructor
  · intro u sh' h
    rw [hpc, upd_apply] at h; rw [hl, upd_apply]
    split at h
    · rw [hh] at h; simp at h
    · rename_i hne
      have := h1 u sh' h
      split
      · rename_i e; subst e
        have := h1 t sh' h0
        simp_all
      · exact this
  · intro u sh' h
    rw [hl, upd_apply] at h; rw [hpc, upd_apply]
    split at h
    · simp at h
    · rename_i hne
      have hu := h2 u sh' h
      split
      · rename_i e; subst e; rw [h0] at hu; simp at hu; exact absurd hu.symm hne
      · exact hu

attribute [local simp] holds_afterWrites holds_nextAdmit holds_startDrain holds_afterSub holds_afterVictim holds_startPC

syntax "invl_close " ident : tactic
macro_rules | `(tactic| invl_close $hi) => `(tactic|
  first
  | exact $hi
  | (refine invL_frame $hi _ _ rfl ?_ rfl
     simp_all
     done)
  | (refine invL_lock $hi _ _ _ rfl ?_ ?_ (by assumption) rfl <;> simp_all <;> done)
  | (refine invL_unlock $hi _ _ _ rfl ?_ ?_ rfl <;> simp_all <;> done))

syntax "invl_step " ident ident ident : tactic
macro_rules | `(tactic| invl_step $hi $h $f) => `(tactic|
  (unfold $f at $h:ident
   repeat' split at $h:ident
   all_goals (simp at $h:ident; try subst $h:ident)
   all_goals invl_close $hi))

theorem invL_step {c : Cfg} {s s' : State} {t : Nat} {l : Label} (hi : InvL s) (h : step c s t l = some s') :
    InvL s' := by
  replace h := step_step0 h
  cases l <;> simp only [step0] at h
  case call op a => invl_step hi h stepCall
  case advance d => simp at h; subst h; exact ⟨hi.held, hi.owner⟩
  case read => invl_step hi h stepRead
  case insMap => invl_step hi h stepInsMap
  case insSub => invl_step hi h stepInsSub
  case insEv => invl_step hi h stepInsEv
  case insAdd => invl_step hi h stepInsAdd
  case coopSkip => invl_step hi h stepCoopSkip
  case coopLock => invl_step hi h stepCoopLock
  case rmMap => invl_step hi h stepRmMap
  case rmPol => invl_step hi h stepRmPol
  case rmSub => invl_step hi h stepRmSub
  case rmNote sent => invl_step hi h stepRmNote
  case compute fail => invl_step hi h stepCompute
  case oiMap => invl_step hi h stepOiMap
  case oiEv => invl_step hi h stepOiEv
  case oiAdd => invl_step hi h stepOiAdd
  case clear => invl_step hi h stepClear
  case clrAcq i => invl_step hi h stepClrAcq
  case clrGet i => invl_step hi h stepClrGet
  case mLock => invl_step hi h stepMLock
  case recv => invl_step hi h stepRecv
  case admit d => invl_step hi h stepAdmit
  case victim => invl_step hi h stepVictim
  case evSub => invl_step hi h stepEvSub
  case evNote sent => invl_step hi h stepEvNote
  case ttlAdvance e => invl_step hi h stepTtlAdvance
  case ttlMap sent => invl_step hi h stepTtlMap
  case ttiMap vs sent => invl_step hi h stepTtiMap
  case capLoad => invl_step hi h stepCapLoad
  case capEvict v r => invl_step hi h stepCapEvict
  case capMap sent => invl_step hi h stepCapMap
  case capSub => invl_step hi h stepCapSub
  case unlock => invl_step hi h stepUnlock

theorem invL_reach {c : Cfg} {s : State} (h : Reach c s) : InvL s := by
  induction h with
  | init => exact invL_init
  | step _ hs ih => exact invL_step ih hs


/-! ### removal ids are unique -/

structure InvM (s : State) : Prop where
  lt : ∀ n ∈ s.removed, n.rid < s.nextRid
  nodup : (s.removed.map (·.rid)).Nodup

theorem invM_init : InvM init := by constructor <;> simp [init]

theorem invM_same {s s' : State} (hi : InvM s) (hr : s'.removed = s.removed) (hn : s'.nextRid = s.nextRid) : InvM s' :=
  ⟨by rw [hr, hn]; exact hi.lt, by rw [hr]; exact hi.nodup⟩

theorem invM_bulk {s s' : State} (hi : InvM s) (w : Reason) (r : List (Nat × Entry))
    (hr : s'.removed = s.removed ++ mkNotes s.nextRid w r) (hn : s'.nextRid = s.nextRid + r.length) : InvM s' := by
  obtain ⟨h1, h2⟩ := hi
  have hk := mkNotes_rid s.nextRid w r
  constructor
  · intro a ha; rw [hr, List.mem_append] at ha; rw [hn]
    rcases ha with ha | ha
    · have := h1 a ha; omega
    · exact (hk a ha).2
  · rw [hr, List.map_append, List.nodup_append]
    refine ⟨h2, mkNotes_nodup _ _ _, ?_⟩
    intro a ha b hb
    rw [List.mem_map] at ha hb
    obtain ⟨a', ha', rfl⟩ := ha
    obtain ⟨b', hb', rfl⟩ := hb
    have := h1 a' ha'; have := (hk b' hb').1; omega

theorem invM_one {s s' : State} (hi : InvM s) (k v : Nat) (w : Reason)
    (hr : s'.removed = s.removed ++ [⟨s.nextRid, k, v, w⟩]) (hn : s'.nextRid = s.nextRid + 1) : InvM s' :=
  invM_bulk hi w [(k, ⟨v, 0, 0, 0⟩)] (by simpa [mkNotes] using hr) (by simpa using hn)

syntax "invm_step " ident ident ident : tactic
macro_rules | `(tactic| invm_step $hi $h $f) => `(tactic|
  (unfold $f at $h:ident
   repeat' split at $h:ident
   all_goals (simp at $h:ident; try subst $h:ident)
   all_goals first
     | exact $hi
     | exact invM_same $hi rfl rfl
     | exact invM_one $hi _ _ _ rfl rfl
     | exact invM_bulk $hi _ _ rfl rfl))

theorem invM_step {c : Cfg} {s s' : State} {t : Nat} {l : Label} (hi : InvM s) (h : step c s t l = some s') :
    InvM s' := by
  replace h := step_step0 h
  cases l <;> simp only [step0] at h
  case call op a => invm_step hi h stepCall
  case advance d => simp at h; subst h; exact ⟨hi.lt, hi.nodup⟩
  case read => invm_step hi h stepRead
  case insMap => invm_step hi h stepInsMap
  case insSub => invm_step hi h stepInsSub
  case insEv => invm_step hi h stepInsEv
  case insAdd => invm_step hi h stepInsAdd
  case coopSkip => invm_step hi h stepCoopSkip
  case coopLock => invm_step hi h stepCoopLock
  case rmMap => invm_step hi h stepRmMap
  case rmPol => invm_step hi h stepRmPol
  case rmSub => invm_step hi h stepRmSub
  case rmNote sent => invm_step hi h stepRmNote
  case compute fail => invm_step hi h stepCompute
  case oiMap => invm_step hi h stepOiMap
  case oiEv => invm_step hi h stepOiEv
  case oiAdd => invm_step hi h stepOiAdd
  case clear => invm_step hi h stepClear
  case clrAcq i => invm_step hi h stepClrAcq
  case clrGet i => invm_step hi h stepClrGet
  case mLock => invm_step hi h stepMLock
  case recv => invm_step hi h stepRecv
  case admit d => invm_step hi h stepAdmit
  case victim => invm_step hi h stepVictim
  case evSub => invm_step hi h stepEvSub
  case evNote sent => invm_step hi h stepEvNote
  case ttlAdvance e => invm_step hi h stepTtlAdvance
  case ttlMap sent => invm_step hi h stepTtlMap
  case ttiMap vs sent => invm_step hi h stepTtiMap
  case capLoad => invm_step hi h stepCapLoad
  case capEvict v r => invm_step hi h stepCapEvict
  case capMap sent => invm_step hi h stepCapMap
  case capSub => invm_step hi h stepCapSub
  case unlock => invm_step hi h stepUnlock

theorem invM_reach {c : Cfg} {s : State} (h : Reach c s) : InvM s := by
  induction h with
  | init => exact invM_init
  | step _ hs ih => exact invM_step ih hs


/-! ### shard locks held by `clear` across its acquisitions -/

/-- the shards whose map write lock the thread holds between steps (only `clear` does) -/
def holdsShards : PC → List Nat
  | .clr acq _ => acq
  | _ => []

structure InvS (s : State) : Prop where
  held : ∀ t i, i ∈ holdsShards (s.pc t) → s.sheld i = some t
  owner : ∀ t i, s.sheld i = some t → i ∈ holdsShards (s.pc t)

theorem invS_init : InvS init := by constructor <;> simp [init, holdsShards]

@[simp] theorem hsh_clr {a p} : holdsShards (.clr a p) = a := rfl
@[simp] theorem hsh_idle  : holdsShards (.idle ) = [] := rfl
@[simp] theorem hsh_done {r} : holdsShards (.done r) = [] := rfl
@[simp] theorem hsh_rd {k} {p} : holdsShards (.rd k p) = [] := rfl
@[simp] theorem hsh_ins {k} {v} {c} {e} {l} : holdsShards (.ins k v c e l) = [] := rfl
@[simp] theorem hsh_insSub {k} {c} {old} : holdsShards (.insSub k c old) = [] := rfl
@[simp] theorem hsh_insEv {k} {c} : holdsShards (.insEv k c) = [] := rfl
@[simp] theorem hsh_insAdd {k} {c} : holdsShards (.insAdd k c) = [] := rfl
@[simp] theorem hsh_insMaint {k} : holdsShards (.insMaint k) = [] := rfl
@[simp] theorem hsh_rm {k} : holdsShards (.rm k) = [] := rfl
@[simp] theorem hsh_rmPol {k} {v} {c} {rid} : holdsShards (.rmPol k v c rid) = [] := rfl
@[simp] theorem hsh_rmSub {k} {v} {c} {rid} : holdsShards (.rmSub k v c rid) = [] := rfl
@[simp] theorem hsh_rmNote {k} {v} {rid} : holdsShards (.rmNote k v rid) = [] := rfl
@[simp] theorem hsh_cmp {k} {d} {l} : holdsShards (.cmp k d l) = [] := rfl
@[simp] theorem hsh_oi {k} {v} {c} : holdsShards (.oi k v c) = [] := rfl
@[simp] theorem hsh_oiEv {k} {v} {c} : holdsShards (.oiEv k v c) = [] := rfl
@[simp] theorem hsh_oiAdd {k} {v} {c} : holdsShards (.oiAdd k v c) = [] := rfl
@[simp] theorem hsh_mLock {a} {b} {f} : holdsShards (.mLock a b f) = [] := rfl
@[simp] theorem hsh_mDrain {m} {l} {a} : holdsShards (.mDrain m l a) = [] := rfl
@[simp] theorem hsh_mAdmit {m} {ws} : holdsShards (.mAdmit m ws) = [] := rfl
@[simp] theorem hsh_mVictim {m} {ws} {vs} {tot} {ns} : holdsShards (.mVictim m ws vs tot ns) = [] := rfl
@[simp] theorem hsh_mSub {m} {ws} {tot} {ns} : holdsShards (.mSub m ws tot ns) = [] := rfl
@[simp] theorem hsh_mNote {m} {ws} {ns} : holdsShards (.mNote m ws ns) = [] := rfl
@[simp] theorem hsh_mTtl {m} : holdsShards (.mTtl m) = [] := rfl
@[simp] theorem hsh_mTtlMap {m} {e} : holdsShards (.mTtlMap m e) = [] := rfl
@[simp] theorem hsh_mTti {m} : holdsShards (.mTti m) = [] := rfl
@[simp] theorem hsh_mCapLoad {m} : holdsShards (.mCapLoad m) = [] := rfl
@[simp] theorem hsh_mCapEvict {m} {n} : holdsShards (.mCapEvict m n) = [] := rfl
@[simp] theorem hsh_mCapMap {m} {v} {r} : holdsShards (.mCapMap m v r) = [] := rfl
@[simp] theorem hsh_mCapSub {m} {r} : holdsShards (.mCapSub m r) = [] := rfl
@[simp] theorem hsh_mUnlock {m} : holdsShards (.mUnlock m) = [] := rfl
@[simp] theorem hsh_afterWrites (m : MCtx) : holdsShards (afterWrites m) = [] := by unfold afterWrites; split <;> rfl
@[simp] theorem hsh_nextAdmit (m : MCtx) (ws) : holdsShards (nextAdmit m ws) = [] := by
  unfold nextAdmit; split <;> first | exact hsh_afterWrites _ | rfl
@[simp] theorem hsh_startDrain (m : MCtx) (l) : holdsShards (startDrain m l) = [] := by
  unfold startDrain; split <;> first | exact hsh_nextAdmit _ _ | rfl
@[simp] theorem hsh_afterSub (m : MCtx) (ws ns) : holdsShards (afterSub m ws ns) = [] := by
  unfold afterSub; split <;> first | exact hsh_nextAdmit _ _ | rfl
@[simp] theorem hsh_afterVictim (m : MCtx) (ws vs tot ns) : holdsShards (afterVictim m ws vs tot ns) = [] := by
  unfold afterVictim; split <;> rfl
@[simp] theorem hsh_startPC (c : Cfg) (n : Nat) (op : Op) : holdsShards (startPC c n op) = [] := by cases op <;> rfl

theorem invS_frame {s s' : State} (hi : InvS s) (t : Nat) (x : PC) (hpc : s'.pc = upd s.pc t x)
    (hh : holdsShards x = holdsShards (s.pc t)) (hl : s'.sheld = s.sheld) : InvS s' := by
  obtain ⟨h1, h2⟩ := hi
  have key : ∀ u, holdsShards (s'.pc u) = holdsShards (s.pc u) := by
    intro u; rw [hpc, upd_apply]; split
    · rename_i e; rw [e, hh]
    · rfl
  exact ⟨fun u i h => by rw [hl]; exact h1 u i (by rw [← key]; exact h),
         fun u i h => by rw [key]; exact h2 u i (by rw [← hl]; exact h)⟩

/-- thread `t` acquires shard `i`, which nobody holds -/
theorem invS_acquire {s s' : State} (hi : InvS s) (t i : Nat) (x : PC) (hpc : s'.pc = upd s.pc t x)
    (hh : holdsShards x = holdsShards (s.pc t) ++ [i]) (hf : s.sheld i = none)
    (hl : s'.sheld = upd s.sheld i (some t)) : InvS s' := by
  obtain ⟨h1, h2⟩ := hi
  constructor
  · intro u j h
    rw [hpc, upd_apply] at h; rw [hl, upd_apply]
    split at h
    · rename_i e; subst e
      rw [hh, List.mem_append] at h
      rcases h with h | h
      · have := h1 u j h
        split
        · rename_i e; subst e; simp_all
        · exact this
      · simp at h; subst h; simp
    · have := h1 u j h
      split
      · rename_i e; subst e; simp_all
      · exact this
  · intro u j h
    rw [hl, upd_apply] at h; rw [hpc, upd_apply]
    split at h
    · rename_i e; subst e; simp at h; subst h; simp [hh]
    · have := h2 u j h
      split
      · rename_i e; subst e; rw [hh]; exact List.mem_append_left _ this
      · exact this

/-- thread `t` releases every shard it holds -/
theorem invS_release {s s' : State} (hi : InvS s) (t : Nat) (x : PC) (hpc : s'.pc = upd s.pc t x)
    (hh : holdsShards x = [])
    (hl : s'.sheld = fun i => if s.sheld i = some t then none else s.sheld i) : InvS s' := by
  obtain ⟨h1, h2⟩ := hi
  constructor
  · intro u j h
    rw [hpc, upd_apply] at h; rw [hl]
    split at h
    · rw [hh] at h; simp at h
    · rename_i hne
      have := h1 u j h
      simp only [this]
      split
      · rename_i e; exact absurd (Option.some.inj e) hne
      · rfl
  · intro u j h
    rw [hl] at h; simp only at h
    split at h
    · simp at h
    · rename_i hne
      have hu := h2 u j h
      rw [hpc, upd_apply]
      split
      · rename_i e; subst e; exact absurd h hne
      · exact hu

syntax "invs_step " ident ident ident : tactic
macro_rules | `(tactic| invs_step $hi $h $f) => `(tactic|
  (unfold $f at $h:ident
   repeat' split at $h:ident
   all_goals (simp at $h:ident; try subst $h:ident)
   all_goals first
     | exact $hi
     | (refine invS_frame $hi _ _ rfl ?_ rfl
        simp_all
        done)
     | (refine invS_acquire $hi _ _ _ rfl ?_ (by assumption) rfl
        simp_all
        done)
     | (refine invS_release $hi _ _ rfl ?_ rfl
        simp_all
        done)))

theorem invS_step {c : Cfg} {s s' : State} {t : Nat} {l : Label} (hi : InvS s) (h : step c s t l = some s') :
    InvS s' := by
  replace h := step_step0 h
  cases l <;> simp only [step0] at h
  case call op a => invs_step hi h stepCall
  case advance d => simp at h; subst h; exact ⟨hi.held, hi.owner⟩
  case read => invs_step hi h stepRead
  case insMap => invs_step hi h stepInsMap
  case insSub => invs_step hi h stepInsSub
  case insEv => invs_step hi h stepInsEv
  case insAdd => invs_step hi h stepInsAdd
  case coopSkip => invs_step hi h stepCoopSkip
  case coopLock => invs_step hi h stepCoopLock
  case rmMap => invs_step hi h stepRmMap
  case rmPol => invs_step hi h stepRmPol
  case rmSub => invs_step hi h stepRmSub
  case rmNote sent => invs_step hi h stepRmNote
  case compute fail => invs_step hi h stepCompute
  case oiMap => invs_step hi h stepOiMap
  case oiEv => invs_step hi h stepOiEv
  case oiAdd => invs_step hi h stepOiAdd
  case clrAcq i => invs_step hi h stepClrAcq
  case clrGet i => invs_step hi h stepClrGet
  case clear => invs_step hi h stepClear
  case mLock => invs_step hi h stepMLock
  case recv => invs_step hi h stepRecv
  case admit d => invs_step hi h stepAdmit
  case victim => invs_step hi h stepVictim
  case evSub => invs_step hi h stepEvSub
  case evNote sent => invs_step hi h stepEvNote
  case ttlAdvance e => invs_step hi h stepTtlAdvance
  case ttlMap sent => invs_step hi h stepTtlMap
  case ttiMap vs sent => invs_step hi h stepTtiMap
  case capLoad => invs_step hi h stepCapLoad
  case capEvict v r => invs_step hi h stepCapEvict
  case capMap sent => invs_step hi h stepCapMap
  case capSub => invs_step hi h stepCapSub
  case unlock => invs_step hi h stepUnlock

theorem invS_reach {c : Cfg} {s : State} (h : Reach c s) : InvS s := by
  induction h with
  | init => exact invS_init
  | step _ hs ih => exact invS_step ih hs

end Fv.Cache.Conc
