import Fv.Lemmas.SyncRwWakeN
import Fv.Lemmas.SyncRwWakeN2
/-!
NO LOST WAKEUP for the rwlock model: `PNlw` is preserved.

With the lock free and the queue non-empty there is a thread inside `wake_waiters` (`PreWake`) or a
covering node `Cov`: a queued writer (any queued node if no writer is queued) that is `WOKEN` or
whose owner is in its acquisition / re-check phase.
-/
namespace Fv.Sync.RwLock
open Fv.Sync
variable {cfg : Cfg} {s s' : State} {t : Tid} {l : Lbl}

theorem activePc_own {pc : Pc} (h : activePc pc = true) : syncOnly pc = true ∨ futPc pc = true := by
  cases pc with
  | taLoad k => cases k <;> first | (left; rfl) | (right; rfl) | cases h
  | taCas k => cases k <;> first | (left; rfl) | (right; rfl) | cases h
  | llSwap k => cases k <;> first | (left; rfl) | (right; rfl) | cases h
  | llLoad k => cases k <;> first | (left; rfl) | (right; rfl) | cases h
  | llSpin k => cases k <;> first | (left; rfl) | (right; rfl) | cases h
  | spinYield => left; rfl
  | qRearm => right; rfl
  | qFetchOr => right; rfl
  | qLoad => right; rfl
  | qCas => right; rfl
  | _ => cases h

theorem dropPc_futPc {pc : Pc} (h : dropPc pc = true) : futPc pc = true ∧ asyncOnly pc = true := by
  cases pc with
  | llSwap k => cases k <;> first | exact ⟨rfl, rfl⟩ | cases h
  | llLoad k => cases k <;> first | exact ⟨rfl, rfl⟩ | cases h
  | llSpin k => cases k <;> first | exact ⟨rfl, rfl⟩ | cases h
  | ff1 a => cases a <;> first | exact ⟨rfl, rfl⟩ | cases h
  | ff2 a => cases a <;> first | exact ⟨rfl, rfl⟩ | cases h
  | llRel a => cases a <;> first | exact ⟨rfl, rfl⟩ | cases h
  | dLoad => exact ⟨rfl, rfl⟩
  | _ => cases h

/-- `PreWake` of another thread is stable -/
theorem prewake_other (hi : Inv s) (h : Step cfg s t l s') {u : Tid} (hu : u ≠ t) (hp : PreWake s u) :
    PreWake s' u := by
  unfold PreWake at hp ⊢
  rw [step_th_other h u hu]
  rcases hp with hp | ⟨hd, hwk⟩
  · exact Or.inl hp
  · right
    refine ⟨hd, ?_⟩
    obtain ⟨-, -, k3⟩ := node_other hi h hu (Or.inr (dropPc_futPc hd).1)
    rcases k3 with ⟨-, k3⟩ | ⟨-, -, k3⟩
    · rw [k3]; exact hwk
    · exact k3

/-- the node a thread queues in its re-check is a writer node iff the acquisition is a write -/
theorem own_isWriter (hi : Inv s) (hp : (s.th t).pc = .qLoad) :
    (s.wl.node (me t (s.th t))).isWriter = (s.th t).wr := by
  cases hc : (s.th t).cur with
  | none => simp only [me, hc]; exact hi.thrWr t hc (by rw [hp]; rfl)
  | some f =>
    simp only [me, hc]
    rw [hi.futNodeWr f (hi.phNode t f hc (by rw [hp]; rfl)), hi.futWr t f hc (by rw [hp]; rfl)]

theorem not_free_of_holds (hi : Inv s) {u : Tid} {b : Bool} (hm : (u, b) ∈ s.holders) (hf : LockFree s) : False := by
  have := holders_nil hi.free hf.1 hf.2
  rw [this] at hm; cases hm

/-- a one-element queue: its node is a writer node or no writer is queued -/
theorem single_cov (hwf : s.wl.WF) {n : Nid} (hq : s.wl.queue = [n]) :
    (s.wl.node n).isWriter = true ∨ s.wl.writers = 0 := by
  have := hwf.writers
  rw [hq] at this
  cases hiw : (s.wl.node n).isWriter with
  | true => exact Or.inl rfl
  | false => right; rw [this]; simp [hiw]

/-- a `PreWake` thread keeps covering the queue, or has just marked the first queued writer -/
theorem pre_step (hi : Inv s) (h : Step cfg s t l s') {u : Tid} (hp : PreWake s u)
    (hq' : s'.wl.queue ≠ []) : (∃ u, PreWake s' u) ∨ ∃ n, Cov s' n := by
  by_cases hut : u = t
  · subst hut
    rcases prewake_local hi h hp with h1 | h1 | ⟨hpc, hq, hiw, hwk⟩
    · exact Or.inl ⟨u, h1⟩
    · exact absurd h1 hq'
    · obtain ⟨hl, hwr⟩ := hi.wnTgt u hpc
      right
      exact ⟨(s.th u).tgt, by rw [hq]; exact (hi.wf.linked _).1 hl, Or.inl (by rw [hiw]; exact hwr), Or.inl hwk⟩
  · exact Or.inl ⟨u, prewake_other hi h hut hp⟩

/-- a covering node keeps covering, or is replaced -/
theorem cov_step (hi : Inv s) (h2 : Inv2 s) (hw : WInv s) (hi' : Inv s') (h : Step cfg s t l s') {n : Nid}
    (hc : Cov s n) (hf' : LockFree s') (hq' : s'.wl.queue ≠ []) : (∃ u, PreWake s' u) ∨ ∃ n, Cov s' n := by
  obtain ⟨hmem, hwz, hcov⟩ := hc
  have hl : (s.wl.node n).linked = true := (hi.wf.linked n).2 hmem
  have ho := step_th_other h
  -- is `n` still queued?
  have hmem' : n ∈ s'.wl.queue ∨ (∃ u, PreWake s' u) := by
    rcases step_queue h with hq | ⟨-, -, -, hq⟩ | ⟨hq, hlk, hpc⟩ | ⟨m, hun, -, -⟩
    · left; rw [hq]; exact hmem
    · left; rw [hq]; exact List.mem_append_left _ hmem
    · by_cases hne : n = me t (s.th t)
      · -- the stepping thread unlinks `n`, its own node
        have hqne : s'.wl.queue ≠ s.wl.queue := by
          intro he
          have : n ∈ s'.wl.queue := by rw [he]; exact hmem
          rw [hq, hne] at this
          exact ((List.Nodup.mem_erase_iff hi.wf.nodup).1 this).1 rfl
        have hdrop : (s.th t).pc = .llSwap .drop := by
          rcases hpc with hp | ⟨_, k, hp, hk | hk | hk⟩
          · exact (not_free_of_holds hi' (unlink_holds hi hw h (Or.inl hp) hqne) hf').elim
          · subst hk
            exact (not_free_of_holds hi' (unlink_holds hi hw h (Or.inr (Or.inl hp)) hqne) hf').elim
          · subst hk
            exact (not_free_of_holds hi' (unlink_holds hi hw h (Or.inr (Or.inr hp)) hqne) hf').elim
          · rw [hk] at hp; exact hp
        right
        rcases hcov with hwk | ⟨u, hme, hact⟩
        · have hpt : PreWake s t := Or.inr ⟨by rw [hdrop]; rfl, by rw [← hne]; exact hwk⟩
          rcases prewake_local hi h hpt with h1 | h1 | ⟨hp1, -⟩
          · exact ⟨t, h1⟩
          · exact absurd h1 hq'
          · rw [hdrop] at hp1; cases hp1
        · exfalso
          obtain ⟨f, hf⟩ : ∃ f, (s.th t).cur = some f :=
            Option.ne_none_iff_exists'.1 (hi.asyncCur t (by rw [hdrop]; rfl))
          have hmet : me t (s.th t) = .fut f := by simp [me, hf]
          have hcu : (s.th u).cur = some f := by
            rw [hne, hmet] at hme
            cases hcu : (s.th u).cur with
            | none => simp [me, hcu] at hme
            | some g => simp [me, hcu] at hme; rw [hme]
          have hfu : futPc (s.th u).pc = true := by
            rcases activePc_own hact with h1 | h1
            · have := hi.syncCur u h1; rw [hcu] at this; cases this
            · exact h1
          have := (hi.busy t f hf (by rw [hdrop]; rfl)).2 u hcu hfu
          subst this
          rw [hdrop] at hact; cases hact
      · left; rw [hq]; exact (List.mem_erase_of_ne hne).2 hmem
    · right; exact ⟨t, Or.inl (by rw [hun.2.1]; rfl)⟩
  by_cases hpre : ∃ u, PreWake s' u
  · exact Or.inl hpre
  replace hmem' : n ∈ s'.wl.queue := hmem'.resolve_right hpre
  have hl' : (s'.wl.node n).linked = true := (hi'.wf.linked n).2 hmem'
  have hiw : (s'.wl.node n).isWriter = (s.wl.node n).isWriter := step_isWriter_linked hi h n hl
  -- `WOKEN` / owner active
  have hthird : ((s'.wl.node n).woken = true ∨ OwnerActive s' n)
      ∨ ((s.wl.node n).isWriter = false ∧ 0 < s.wl.writers) := by
    rcases hcov with hwk | ⟨u, hme, hact⟩
    · left
      cases hwk' : (s'.wl.node n).woken with
      | true => exact Or.inl rfl
      | false =>
        obtain ⟨hme, hact⟩ := woken_clear_local hi h n hwk hwk' hl'
        exact Or.inr ⟨t, hme, hact⟩
    · by_cases hut : u = t
      · subst hut
        rcases active_local hi h hact with ⟨hme', hact'⟩ | hnf | ⟨hpq, hwr, hwp⟩
        · exact Or.inl (Or.inr ⟨u, by rw [hme', hme], hact'⟩)
        · exfalso
          rcases hnf with h1 | h1
          · rw [hf'.1] at h1; cases h1
          · exact h1 hf'.2
        · right
          refine ⟨by rw [← hme, own_isWriter hi hpq]; exact hwr, ?_⟩
          exact (h2.wpIn u (by rw [hpq]; rfl) (by rw [hpq]; rfl)).1 hwp
      · exact Or.inl (Or.inr ⟨u, by rw [ho u hut]; exact hme, by rw [ho u hut]; exact hact⟩)
  replace hthird : (s'.wl.node n).woken = true ∨ OwnerActive s' n := by
    refine hthird.resolve_right ?_
    rintro ⟨hr, hpos⟩
    rcases hwz with h1 | h1
    · rw [hr] at h1; cases h1
    · omega
  by_cases hsec : (s'.wl.node n).isWriter = true ∨ s'.wl.writers = 0
  · exact Or.inr ⟨n, hmem', hsec, hthird⟩
  · -- a writer has been linked behind the reader node `n`: it covers
    have hnw := not_or.1 hsec
    have hw0 : s.wl.writers = 0 := by
      rcases hwz with h1 | h1
      · rw [← hiw] at h1; exact absurd h1 hnw.1
      · exact h1
    have hpos' : 0 < s'.wl.writers := Nat.pos_of_ne_zero hnw.2
    rw [hi'.wf.writers] at hpos'
    obtain ⟨m, hm', hmw'⟩ := List.countP_pos_iff.1 hpos'
    have hold : m ∈ s.wl.queue → False := by
      intro hm
      have hlm := (hi.wf.linked m).2 hm
      have := hi.wf.writers_pos hlm (by rw [← step_isWriter_linked hi h m hlm]; exact hmw')
      omega
    rcases step_queue h with hq | ⟨-, hp', hme, hq⟩ | ⟨hq, -, -⟩ | ⟨k, -, -, hq⟩
    · exact (hold (by rw [← hq]; exact hm')).elim
    · have hm'' := hm'
      rw [hq] at hm''
      rcases List.mem_append.1 hm'' with h1 | h1
      · exact (hold h1).elim
      · have hmm : m = me t (s.th t) := by simpa using h1
        right
        exact ⟨m, hm', Or.inl hmw', Or.inr ⟨t, by rw [hme, hmm], by rw [hp']; rfl⟩⟩
    · exact (hold (List.mem_of_mem_erase (by rw [← hq]; exact hm'))).elim
    · exact (hold (List.mem_of_mem_erase (by rw [← hq]; exact hm'))).elim

/-- the lock has just been released: the releaser read `HAS_QUEUED` and is on its way into
`wake_waiters`, or the only queued node is still in its re-check -/
theorem release_cover (hi : Inv s) (hw : WInv s) (h : Step cfg s t l s') (hwl : s'.wl = s.wl)
    (hq' : s'.wl.queue ≠ []) (hnext : s.word.hq = true → (s'.th t).pc = .llSwap .wake)
    (hpr : (s.th t).pc = .relAnd ∨ (s.th t).pc = .relSub) : (∃ u, PreWake s' u) ∨ ∃ n, Cov s' n := by
  have ho := step_th_other h
  cases hq0 : s.word.hq with
  | true => exact Or.inl ⟨t, Or.inl (by rw [hnext hq0]; rfl)⟩
  | false =>
    rcases hw.m2 hq0 with he | ⟨u, hu, hqu⟩
    · rw [hwl] at hq'; exact absurd he hq'
    · have hut : u ≠ t := by
        intro he; subst he; rw [hu] at hpr
        rcases hpr with h0 | h0 <;> cases h0
      right
      refine ⟨me u (s.th u), by rw [hwl, hqu]; exact List.mem_singleton.2 rfl, ?_,
        Or.inr ⟨u, by rw [ho u hut], by rw [ho u hut, hu]; rfl⟩⟩
      rw [hwl]
      exact single_cov hi.wf hqu

theorem nlw_step (hi : Inv s) (h2 : Inv2 s) (hw : WInv s) (h : Step cfg s t l s') : PNlw s' := by
  have hi' := Inv_step hi h
  intro hf' hq'
  by_cases hf : LockFree s
  · by_cases hqe : s.wl.queue = []
    · -- the queue was empty: the stepping thread has just linked its node
      rcases step_queue h with hq | ⟨-, hp', hme, hq⟩ | ⟨hq, -, -⟩ | ⟨k, -, -, hq⟩
      · rw [hq] at hq'; exact absurd hqe hq'
      · right
        have hq1 : s'.wl.queue = [me t (s.th t)] := by rw [hq, hqe]; rfl
        exact ⟨me t (s.th t), by rw [hq1]; exact List.mem_singleton.2 rfl, single_cov hi'.wf hq1,
          Or.inr ⟨t, hme, by rw [hp']; rfl⟩⟩
      · rw [hq, hqe] at hq'; exact absurd rfl hq'
      · rw [hq, hqe] at hq'; exact absurd rfl hq'
    · rcases hw.nlw hf hqe with ⟨u, hu⟩ | ⟨n, hn⟩
      · exact pre_step hi h hu hq'
      · exact cov_step hi h2 hw hi' h hn hf' hq'
  · -- the lock has just been released
    rcases step_word h with ⟨e1, e2⟩ | ⟨-, e1, -⟩ | ⟨-, e1, -⟩ | ⟨-, -, -, hpr, hwl, -, -, hnext⟩
      | ⟨e1, e2, hpr, hwl, -, -, hnext⟩
    · exact absurd ⟨by rw [← e1]; exact hf'.1, by rw [← e2]; exact hf'.2⟩ hf
    · rw [hf'.1] at e1; cases e1
    · have := hf'.2; rw [e1] at this; omega
    · exact release_cover hi hw h hwl hq' hnext (Or.inl hpr)
    · have hr1 : s.word.readers = 1 := by
        have h0 := hf'.2
        rw [e2] at h0
        have hwl0 : s.word.wl = false := by rw [← e1]; exact hf'.1
        have : s.word.readers ≠ 0 := fun hz => hf ⟨hwl0, hz⟩
        omega
      exact release_cover hi hw h hwl hq' (hnext hr1) (Or.inr hpr)

end Fv.Sync.RwLock
