import Fv.Sync.WaitList
/-!
Lemmas about the wait-list operations: field projections (simp set) and preservation of the list
invariant `WaitList.WF` (C10(d)).
-/
namespace Fv.Sync.WaitList
open Fv.Sync

/-! ### projections -/

section ite
variable (c : Prop) [Decidable c]
@[simp] theorem _root_.Fv.Sync.Node.ite_woken (a b : Node) : (if c then a else b).woken = if c then a.woken else b.woken := by split <;> rfl
@[simp] theorem _root_.Fv.Sync.Node.ite_waiter (a b : Node) : (if c then a else b).waiter = if c then a.waiter else b.waiter := by split <;> rfl
@[simp] theorem _root_.Fv.Sync.Node.ite_isWriter (a b : Node) : (if c then a else b).isWriter = if c then a.isWriter else b.isWriter := by split <;> rfl
@[simp] theorem _root_.Fv.Sync.Node.ite_linked (a b : Node) : (if c then a else b).linked = if c then a.linked else b.linked := by split <;> rfl
end ite


@[simp] theorem setLocked_locked (wl : WaitList) (b : Bool) : (wl.setLocked b).locked = b := rfl
@[simp] theorem setLocked_queue (wl : WaitList) (b : Bool) : (wl.setLocked b).queue = wl.queue := rfl
@[simp] theorem setLocked_writers (wl : WaitList) (b : Bool) : (wl.setLocked b).writers = wl.writers := rfl
@[simp] theorem setLocked_len (wl : WaitList) (b : Bool) : (wl.setLocked b).len = wl.len := rfl
@[simp] theorem setLocked_node (wl : WaitList) (b : Bool) : (wl.setLocked b).node = wl.node := rfl

@[simp] theorem putNode_locked (wl : WaitList) (n : Nid) (nd : Node) : (wl.putNode n nd).locked = wl.locked := rfl
@[simp] theorem putNode_queue (wl : WaitList) (n : Nid) (nd : Node) : (wl.putNode n nd).queue = wl.queue := rfl
@[simp] theorem putNode_writers (wl : WaitList) (n : Nid) (nd : Node) : (wl.putNode n nd).writers = wl.writers := rfl
@[simp] theorem putNode_len (wl : WaitList) (n : Nid) (nd : Node) : (wl.putNode n nd).len = wl.len := rfl
@[simp] theorem putNode_node (wl : WaitList) (n : Nid) (nd : Node) : (wl.putNode n nd).node = upd wl.node n nd := rfl

@[simp] theorem setWaiter_locked (wl : WaitList) (n : Nid) (w : Waiter) : (wl.setWaiter n w).locked = wl.locked := rfl
@[simp] theorem setWaiter_queue (wl : WaitList) (n : Nid) (w : Waiter) : (wl.setWaiter n w).queue = wl.queue := rfl
@[simp] theorem setWaiter_writers (wl : WaitList) (n : Nid) (w : Waiter) : (wl.setWaiter n w).writers = wl.writers := rfl
@[simp] theorem setWaiter_len (wl : WaitList) (n : Nid) (w : Waiter) : (wl.setWaiter n w).len = wl.len := rfl
@[simp] theorem setWaiter_node (wl : WaitList) (n : Nid) (w : Waiter) :
    (wl.setWaiter n w).node = upd wl.node n { wl.node n with waiter := some w } := rfl

@[simp] theorem setWoken_locked (wl : WaitList) (n : Nid) (b : Bool) : (wl.setWoken n b).locked = wl.locked := rfl
@[simp] theorem setWoken_queue (wl : WaitList) (n : Nid) (b : Bool) : (wl.setWoken n b).queue = wl.queue := rfl
@[simp] theorem setWoken_writers (wl : WaitList) (n : Nid) (b : Bool) : (wl.setWoken n b).writers = wl.writers := rfl
@[simp] theorem setWoken_len (wl : WaitList) (n : Nid) (b : Bool) : (wl.setWoken n b).len = wl.len := rfl
@[simp] theorem setWoken_node (wl : WaitList) (n : Nid) (b : Bool) :
    (wl.setWoken n b).node = upd wl.node n { wl.node n with woken := b } := rfl

@[simp] theorem takeAndMark_locked (wl : WaitList) (n : Nid) : (wl.takeAndMark n).locked = wl.locked := rfl
@[simp] theorem takeAndMark_queue (wl : WaitList) (n : Nid) : (wl.takeAndMark n).queue = wl.queue := rfl
@[simp] theorem takeAndMark_writers (wl : WaitList) (n : Nid) : (wl.takeAndMark n).writers = wl.writers := rfl
@[simp] theorem takeAndMark_len (wl : WaitList) (n : Nid) : (wl.takeAndMark n).len = wl.len := rfl
@[simp] theorem takeAndMark_node (wl : WaitList) (n : Nid) :
    (wl.takeAndMark n).node = upd wl.node n { wl.node n with waiter := none, woken := true } := rfl

@[simp] theorem linkBack_locked (wl : WaitList) (n : Nid) : (wl.linkBack n).locked = wl.locked := rfl
@[simp] theorem linkBack_queue (wl : WaitList) (n : Nid) : (wl.linkBack n).queue = wl.queue ++ [n] := rfl
@[simp] theorem linkBack_len (wl : WaitList) (n : Nid) : (wl.linkBack n).len = wl.len + 1 := rfl
@[simp] theorem linkBack_node (wl : WaitList) (n : Nid) :
    (wl.linkBack n).node = upd wl.node n { wl.node n with linked := true } := rfl
@[simp] theorem linkBack_writers (wl : WaitList) (n : Nid) :
    (wl.linkBack n).writers = if (wl.node n).isWriter then wl.writers + 1 else wl.writers := rfl

@[simp] theorem unlink_locked (wl : WaitList) (n : Nid) : (wl.unlink n).locked = wl.locked := by
  unfold unlink; split <;> rfl
@[simp] theorem unlink_queue (wl : WaitList) (n : Nid) :
    (wl.unlink n).queue = if (wl.node n).linked then wl.queue.erase n else wl.queue := by
  unfold unlink; split <;> rfl
@[simp] theorem unlink_len (wl : WaitList) (n : Nid) :
    (wl.unlink n).len = if (wl.node n).linked then wl.len - 1 else wl.len := by
  unfold unlink; split <;> rfl
@[simp] theorem unlink_writers (wl : WaitList) (n : Nid) :
    (wl.unlink n).writers = if (wl.node n).linked ∧ (wl.node n).isWriter then wl.writers - 1 else wl.writers := by
  unfold unlink; split <;> simp_all
/-- `unlink` only clears the `linked` flag of `n` -/
@[simp] theorem unlink_node (wl : WaitList) (n : Nid) :
    (wl.unlink n).node = upd wl.node n { wl.node n with linked := false } := by
  unfold unlink
  split
  · rfl
  · funext x
    simp only [upd_apply]
    split
    · next h => subst h; cases hn : wl.node x; simp_all
    · rfl

@[simp] theorem wasLinked_eq (wl : WaitList) (n : Nid) : wl.wasLinked n = (wl.node n).linked := rfl

/-! ### the list invariant is preserved by every operation -/

theorem WF.init : WF {} := by
  constructor <;> simp

theorem WF.setLocked {wl : WaitList} (h : wl.WF) (b : Bool) : (wl.setLocked b).WF :=
  ⟨h.nodup, h.linked, h.len, h.writers⟩

/-- changing `waiter`/`woken` of any node keeps the invariant -/
theorem WF.of_node_eq {wl wl' : WaitList} (h : wl.WF) (hq : wl'.queue = wl.queue) (hl : wl'.len = wl.len)
    (hw : wl'.writers = wl.writers)
    (hn : ∀ n, (wl'.node n).linked = (wl.node n).linked ∧ (wl'.node n).isWriter = (wl.node n).isWriter) :
    wl'.WF := by
  constructor
  · rw [hq]; exact h.nodup
  · intro n; rw [hq, (hn n).1]; exact h.linked n
  · rw [hl, hq]; exact h.len
  · rw [hw, hq, h.writers]
    congr 1; funext n; rw [(hn n).2]

theorem WF.setWaiter {wl : WaitList} (h : wl.WF) (n : Nid) (w : Waiter) : (wl.setWaiter n w).WF := by
  refine h.of_node_eq rfl rfl rfl ?_
  intro m; simp only [setWaiter_node, upd_apply]; split <;> simp_all

theorem WF.setWoken {wl : WaitList} (h : wl.WF) (n : Nid) (b : Bool) : (wl.setWoken n b).WF := by
  refine h.of_node_eq rfl rfl rfl ?_
  intro m; simp only [setWoken_node, upd_apply]; split <;> simp_all

theorem WF.takeAndMark {wl : WaitList} (h : wl.WF) (n : Nid) : (wl.takeAndMark n).WF := by
  refine h.of_node_eq rfl rfl rfl ?_
  intro m; simp only [takeAndMark_node, upd_apply]; split <;> simp_all

theorem countP_congr_mem {α : Type} {p q : α → Bool} {l : List α} (h : ∀ x ∈ l, p x = q x) :
    l.countP p = l.countP q := by
  induction l with
  | nil => rfl
  | cons a t ih =>
    have ha := h a (List.mem_cons_self)
    have ht := ih (fun x hx => h x (List.mem_cons_of_mem _ hx))
    simp [List.countP_cons, ha, ht]

theorem countP_erase_mem {α : Type} [DecidableEq α] (p : α → Bool) :
    ∀ (l : List α) (a : α), a ∈ l → (l.erase a).countP p = l.countP p - (if p a then 1 else 0) := by
  intro l
  induction l with
  | nil => intro a h; simp at h
  | cons b t ih =>
    intro a h
    by_cases hab : b = a
    · subst hab
      simp only [List.erase_cons_head, List.countP_cons]
      cases p b <;> simp
    · have hat : a ∈ t := by
        rcases List.mem_cons.1 h with h | h
        · exact absurd h.symm hab
        · exact h
      have hne : (b == a) = false := by simpa using hab
      rw [List.erase_cons_tail (by simp [hne])]
      simp only [List.countP_cons, ih a hat]
      have hpos : p a = true → 0 < t.countP p := fun hp => List.countP_pos_iff.2 ⟨a, hat, hp⟩
      cases hpa : p a <;> cases hpb : p b <;> simp
      have := hpos hpa
      omega

/-- writing a node that is not queued (and stays unlinked) keeps the invariant -/
theorem WF.putNode {wl : WaitList} (h : wl.WF) (n : Nid) (nd : Node) (hn : (wl.node n).linked = false)
    (hnd : nd.linked = false) : (wl.putNode n nd).WF := by
  have hnq : n ∉ wl.queue := by
    intro hm; have := (h.linked n).2 hm; simp_all
  constructor
  · exact h.nodup
  · intro m
    simp only [putNode_node, putNode_queue, upd_apply]
    split
    · next hm => subst hm; simp [hnd, hnq]
    · exact h.linked m
  · exact h.len
  · simp only [putNode_writers, putNode_queue, putNode_node]
    rw [h.writers]
    apply countP_congr_mem
    intro x hx
    have : x ≠ n := fun hxn => hnq (hxn ▸ hx)
    simp [upd_apply, this]

theorem WF.linkBack {wl : WaitList} (h : wl.WF) (n : Nid) (hn : (wl.node n).linked = false) : (wl.linkBack n).WF := by
  have hnq : n ∉ wl.queue := by
    intro hm; have := (h.linked n).2 hm; simp_all
  constructor
  · simp only [linkBack_queue]
    exact List.nodup_append.2 ⟨h.nodup, by simp, by intro a ha b hb; simp at hb; subst hb; intro hab; subst hab; exact hnq ha⟩
  · intro m
    simp only [linkBack_node, linkBack_queue, upd_apply, List.mem_append, List.mem_singleton]
    split
    · next hm => subst hm; simp
    · next hm => simp [hm, h.linked m]
  · simp [h.len]
  · simp only [linkBack_writers, linkBack_queue, linkBack_node, List.countP_append, List.countP_cons,
      List.countP_nil, upd_same]
    have hc : wl.queue.countP (fun x => (upd wl.node n { wl.node n with linked := true } x).isWriter)
        = wl.queue.countP (fun x => (wl.node x).isWriter) := by
      apply countP_congr_mem
      intro x hx
      have : x ≠ n := fun hxn => hnq (hxn ▸ hx)
      simp [upd_apply, this]
    rw [hc, ← h.writers]
    cases (wl.node n).isWriter <;> simp

theorem WF.unlink {wl : WaitList} (h : wl.WF) (n : Nid) : (wl.unlink n).WF := by
  by_cases hl : (wl.node n).linked = true
  · have hmem : n ∈ wl.queue := (h.linked n).1 hl
    constructor
    · simp only [unlink_queue, hl, if_true]; exact h.nodup.erase n
    · intro m
      simp only [unlink_node, unlink_queue, hl, if_true, upd_apply]
      split
      · next hm => subst hm; simp [h.nodup.mem_erase_iff]
      · next hm => rw [h.nodup.mem_erase_iff]; simp [hm, h.linked m]
    · simp only [unlink_len, unlink_queue, hl, if_true, h.len, List.length_erase_of_mem hmem]
    · simp only [unlink_writers, unlink_queue, unlink_node, hl, true_and, if_true]
      have hc : (wl.queue.erase n).countP (fun x => (upd wl.node n { wl.node n with linked := false } x).isWriter)
          = (wl.queue.erase n).countP (fun x => (wl.node x).isWriter) := by
        apply countP_congr_mem
        intro x hx
        have : x ≠ n := fun hxn => by subst hxn; exact (h.nodup.mem_erase_iff.1 hx).1 rfl
        simp [upd_apply, this]
      rw [hc, h.writers, countP_erase_mem _ _ _ hmem]
      cases (wl.node n).isWriter <;> simp
  · have hl' : (wl.node n).linked = false := by simpa using hl
    have : wl.unlink n = wl := by unfold WaitList.unlink; simp [hl']
    rw [this]; exact h

end Fv.Sync.WaitList
