import Fv.Lemmas.SpmcBSafeS
/-! `GFact` across the core-changing steps of the receiver operations. -/
namespace Fv.Chan.SpmcB
open Fv.Chan.LeftRightB (upd upd_apply upd_same)

/-- `rSt`: a receiver advances its cursor by the items it read -/
theorem gfact_rSt {c : Core} (hg : GFact c) {r k : Nat} {vs : List Nat} (hk : k = c.cur r)
    (hle : k + vs.length ≤ c.sent.length) (hvs : vs = (c.sent.drop k).take vs.length) :
    GFact { c with cur := upd c.cur r (k + vs.length), got := upd c.got r (c.got r ++ vs) } := by
  obtain ⟨g1, g2, g3, g4, g5, g6, g7, g8, g9, g10, g11, g12, g13, g14, g15, g16⟩ := hg
  refine ⟨g1, ?_, g3, g4, g5, ?_, g7, g8, g9, g10, ?_, g12, g13, g14, g15, g16⟩
  · intro x hx; simp only [upd_apply]; have := g2 x hx
    split
    · rename_i e; subst e; simp only [Core.pub] at *; omega
    · exact this
  · intro x; simp only [upd_apply]; split
    · exact hle
    · exact g6 x
  · intro x; simp only [upd_apply]
    split
    · rename_i e; subst e
      have ⟨a, b⟩ := g11 x
      refine ⟨by omega, ?_⟩
      rw [b, hvs]
      subst hk
      rw [List.length_take, List.length_drop, Nat.min_eq_left (by omega)]
      have e1 : c.cur x + vs.length - c.c0 x = (c.cur x - c.c0 x) + vs.length := by omega
      rw [e1]
      have e2 : List.drop (c.cur x) c.sent = List.drop (c.cur x - c.c0 x) (List.drop (c.c0 x) c.sent) := by
        rw [List.drop_drop]; congr 1; omega
      rw [e2, ← List.take_add]
    · exact g11 x


/-- `cCur`: `clone` allocates a cell holding the parent's cursor -/
theorem gfact_cCur {c : Core} (hg : GFact c) {t r : Nat} :
    GFact { c with nextCell := c.nextCell + 1, cur := upd c.cur c.nextCell (c.cur r),
                   c0 := upd c.c0 c.nextCell (c.cur r), rclosed := upd c.rclosed c.nextCell false,
                   got := upd c.got c.nextCell [], resv := upd c.resv c.nextCell (some t) } := by
  obtain ⟨g1, g2, g3, g4, g5, g6, g7, g8, g9, g10, g11, g12, g13, g14, g15, g16⟩ := hg
  refine ⟨g1, ?_, g3, g4, g5, ?_, g7, g8, g9, g10, ?_, ?_, ?_, ?_, ?_, g16⟩
  · intro x hx; simp only [upd_apply]
    have := g12 c.live x hx
    rw [if_neg (by omega)]; exact g2 x hx
  · intro x; simp only [upd_apply]; split
    · exact g6 r
    · exact g6 x
  · intro x; simp only [upd_apply]; split
    · simp
    · exact g11 x
  · intro i x hx; have := g12 i x hx; simp only []; omega
  · intro x hx; have := g13 x hx; simp only []; omega
  · intro n u hn; simp only [upd_apply] at hn ⊢
    split at hn
    · rename_i e; subst e
      refine ⟨by omega, ?_⟩
      cases ha : c.rAlive c.nextCell
      · rfl
      · have := g13 _ ha; omega
    · have := g14 n u hn; exact ⟨by omega, this.2⟩
  · intro x hx hcl hrv
    simp only [upd_apply] at hx hcl hrv ⊢
    by_cases e : x = c.nextCell
    · subst e; simp at hrv
    · rw [if_neg e] at hcl hrv
      exact g15 x (by omega) hcl hrv

/-- `xFlag`: the handle's `closed` flag is set -/
theorem gfact_close {c : Core} (hg : GFact c) {r : Nat} : GFact { c with rclosed := upd c.rclosed r true } := by
  obtain ⟨g1, g2, g3, g4, g5, g6, g7, g8, g9, g10, g11, g12, g13, g14, g15, g16⟩ := hg
  refine ⟨g1, g2, g3, g4, g5, g6, g7, g8, g9, g10, g11, g12, g13, g14, ?_, g16⟩
  intro x hx hcl hrv
  simp only [upd_apply] at hcl
  split at hcl
  · cases hcl
  · exact g15 x hx hcl hrv

/-- `mUnlock (clone n)`: the new handle comes into existence -/
theorem gfact_born {c : Core} (hg : GFact c) {n t : Nat} (hrv : c.resv n = some t)
    (hm : n ∈ c.data 0 ∧ n ∈ c.data 1) :
    GFact { c with rAlive := upd c.rAlive n true, resv := upd c.resv n none } := by
  obtain ⟨g1, g2, g3, g4, g5, g6, g7, g8, g9, g10, g11, g12, g13, g14, g15, g16⟩ := hg
  refine ⟨g1, g2, g3, g4, g5, g6, g7, g8, g9, g10, g11, g12, ?_, ?_, ?_, g16⟩
  · intro x hx; simp only [upd_apply] at hx
    split at hx
    · rename_i e; subst e; exact (g14 x t hrv).1
    · exact g13 x hx
  · intro x u hx; simp only [upd_apply] at hx ⊢
    split at hx
    · cases hx
    · rename_i e; rw [if_neg e]; exact g14 x u hx
  · intro x hx hcl hr
    simp only [upd_apply] at hr
    split at hr
    · rename_i e; subst e; exact hm
    · exact g15 x hx hcl hr

/-- `wMut1` / `wMut2`: `modify` applies the mutation to the copy that is not published -/
theorem gfact_mut {c : Core} (hg : GFact c) {i r : Nat} {o : LOp} (hi : i ≠ c.live)
    (ho : (∃ n t, o = .push n ∧ c.resv n = some t) ∨ (o = .remove r ∧ c.rclosed r = true)) :
    GFact { c with data := upd c.data i (apL o (c.data i)) } := by
  obtain ⟨g1, g2, g3, g4, g5, g6, g7, g8, g9, g10, g11, g12, g13, g14, g15, g16⟩ := hg
  refine ⟨g1, ?_, g3, g4, g5, g6, g7, g8, g9, g10, g11, ?_, g13, g14, ?_, g16⟩
  · intro x hx
    simp only [Core.pub, upd_apply] at hx
    rw [if_neg (Ne.symm hi)] at hx
    exact g2 x hx
  · intro j x hx
    simp only [upd_apply] at hx
    split at hx
    · rename_i e; subst e
      rcases ho with ⟨n, t, rfl, hn⟩ | ⟨rfl, _⟩
      · simp only [apL, List.mem_append, List.mem_singleton] at hx
        rcases hx with hx | hx
        · exact g12 j x hx
        · subst hx; exact (g14 x t hn).1
      · simp only [apL, List.mem_filter] at hx; exact g12 j x hx.1
    · exact g12 j x hx
  · intro x hx hcl hrv
    have ⟨a, b⟩ := g15 x hx hcl hrv
    have key : ∀ j, x ∈ c.data j → x ∈ upd c.data i (apL o (c.data i)) j := by
      intro j hj
      simp only [upd_apply]
      split
      · rename_i e; subst e
        rcases ho with ⟨n, t, rfl, hn⟩ | ⟨rfl, hr⟩
        · simp only [apL, List.mem_append]; exact Or.inl hj
        · simp only [apL, List.mem_filter]
          refine ⟨hj, ?_⟩
          have : x ≠ r := by intro e; subst e; rw [hr] at hcl; cases hcl
          simpa using this
      · exact hj
    exact ⟨key 0 a, key 1 b⟩

/-- `wPub`: the mutated copy is published -/
theorem gfact_pub {c : Core} (hg : GFact c) {l r : Nat} {o : LOp} (hl : l = c.live) (hl2 : l < 2)
    (hd : c.data (1 - l) = apL o (c.data l))
    (ho : (∃ n, o = .push n ∧ c.cur n = c.cur r ∧ r < c.nextCell ∧ c.rclosed r = false ∧ c.resv r = none)
          ∨ o = .remove r) :
    GFact { c with live := 1 - l } := by
  obtain ⟨g1, g2, g3, g4, g5, g6, g7, g8, g9, g10, g11, g12, g13, g14, g15, g16⟩ := hg
  refine ⟨g1, ?_, g3, g4, g5, g6, g7, g8, g9, g10, g11, g12, g13, g14, g15, g16⟩
  intro x hx
  simp only [Core.pub] at hx g2
  rw [hd] at hx
  subst hl
  rcases ho with ⟨n, rfl, hcn, hr1, hr2, hr3⟩ | rfl
  · simp only [apL, List.mem_append, List.mem_singleton] at hx
    rcases hx with hx | hx
    · exact g2 x hx
    · subst hx
      have hreg := g15 r hr1 hr2 hr3
      have hmem : r ∈ c.data c.live := by
        have : c.live = 0 ∨ c.live = 1 := by omega
        rcases this with e | e <;> rw [e]
        · exact hreg.1
        · exact hreg.2
      have := g2 r hmem
      simp only []; omega
  · simp only [apL, List.mem_filter] at hx
    exact g2 x hx.1

end Fv.Chan.SpmcB
