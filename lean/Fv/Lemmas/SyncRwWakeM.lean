import Fv.Lemmas.SyncRwWakeL2
/-!
Wake invariant of the rwlock model: frame lemmas for the "unlinked, about to be marked" window of
the reader loop of `wake_waiters` (`MarkPending`): the marking store, and what a thread outside the
list lock can do to nodes while somebody else holds it.
-/
namespace Fv.Sync.RwLock
open Fv.Sync
variable {cfg : Cfg} {s s' : State} {t : Tid} {l : Lbl}

set_option maxHeartbeats 16000000 in
/-- `take_and_mark_woken`: the handle is taken and `WOKEN` stored -/
theorem step_marks (h : Step cfg s t l s') (hp : (s.th t).pc = .wnStore ∨ (s.th t).pc = .wrStore) :
    (s'.wl.node (s.th t).tgt).woken = true ∧ (s'.wl.node (s.th t).tgt).waiter = none := by
  step_cases h
  all_goals (try norm_state)
  all_goals grind

set_option maxHeartbeats 16000000 in
/-- while somebody else holds the list lock, the only node writes are the initialisation of the own
stack node on entry to the slow path and of a heap node not yet allocated -/
theorem step_node_frozen (hi : Inv s) (h : Step cfg s t l s') (hl : s.wl.locked = true)
    (hn : inLL (s.th t).pc = false) :
    ∀ n, s'.wl.node n = s.wl.node n
      ∨ (n = .thr t ∧ ((s.th t).pc = .taLoad .fast ∨ (s.th t).pc = .taCas .fast))
      ∨ (∃ f, n = .fut f ∧ (s.fut f).phase ≠ .startedNode) := by
  have a2 := hi.asyncCur t; have b6 := hi.phFresh t
  clear hi
  step_cases h
  all_goals (intro n)
  all_goals (try norm_state)
  all_goals (first | exact Or.inl rfl | grind [inLL, asyncOnly, TaK.sync])

set_option maxHeartbeats 16000000 in
/-- the heap node of a future with an allocated node that the stepping thread is not operating on -/
theorem step_node_fut2 (h : Step cfg s t l s')
    (a1 : syncOnly (s.th t).pc = true → (s.th t).cur = none)
    (a2 : asyncOnly (s.th t).pc = true → (s.th t).cur ≠ none) :
    ∀ f, (s.fut f).phase = .startedNode → ¬ opOn s t f → NodeKept s s' t (.fut f) := by
  unfold NodeKept UnlinksHead Marks opOn
  step_cases h
  all_goals (intro f hb hop)
  all_goals (try norm_state)
  all_goals first
    | exact ⟨rfl, Or.inl rfl, Or.inl ⟨rfl, rfl⟩⟩
    | grind [syncOnly, asyncOnly, futPc, TaK.sync, After.sync, After.async]

end Fv.Sync.RwLock
