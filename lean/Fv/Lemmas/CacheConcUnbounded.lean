import Fv.Lemmas.CacheConc
/-! With `capacity = u64::MAX` (an unbounded cache) the capacity pass never gets past its load of
`current_cost`, so no step ever changes `drift`: accounting holds unconditionally. -/
namespace Fv.Cache.Conc

def capPC : PC → Bool
  | .mCapEvict _ _ => true
  | .mCapMap _ _ _ => true
  | .mCapSub _ _ => true
  | _ => false

structure InvU (s : State) : Prop where
  nocap : ∀ t, capPC (s.pc t) = false
  clean : s.dirty = false

theorem invU_init : InvU init := ⟨fun _ => rfl, rfl⟩

theorem obs_lt (s : State) : obs s < 18446744073709551616 := by
  unfold obs two64
  have h1 : (0 : Int) ≤ s.cur % 18446744073709551616 := Int.emod_nonneg _ (by decide)
  have h2 : s.cur % 18446744073709551616 < 18446744073709551616 := Int.emod_lt_of_pos _ (by decide)
  omega

theorem invU_frame {s s' : State} (hi : InvU s) (t : Nat) (x : PC) (hpc : s'.pc = upd s.pc t x)
    (hx : capPC x = false) (hd : s'.dirty = s.dirty) : InvU s' := by
  refine ⟨?_, by rw [hd]; exact hi.clean⟩
  intro u; rw [hpc, upd_apply]; split
  · exact hx
  · exact hi.nocap u

theorem capPC_afterWrites (m : MCtx) : capPC (afterWrites m) = false := by unfold afterWrites; split <;> rfl
theorem capPC_nextAdmit (m : MCtx) (ws) : capPC (nextAdmit m ws) = false := by
  unfold nextAdmit; split <;> first | exact capPC_afterWrites _ | rfl
theorem capPC_startDrain (m : MCtx) (l) : capPC (startDrain m l) = false := by
  unfold startDrain; split <;> first | exact capPC_nextAdmit _ _ | rfl
theorem capPC_afterSub (m : MCtx) (ws ns) : capPC (afterSub m ws ns) = false := by
  unfold afterSub; split <;> first | exact capPC_nextAdmit _ _ | rfl
theorem capPC_afterVictim (m : MCtx) (ws vs tot ns) : capPC (afterVictim m ws vs tot ns) = false := by
  unfold afterVictim; split <;> rfl
theorem capPC_startPC (c : Cfg) (n : Nat) (op : Op) : capPC (startPC c n op) = false := by cases op <;> rfl

syntax "invu_step " ident ident ident : tactic
macro_rules | `(tactic| invu_step $hi $h $f) => `(tactic|
  (unfold $f at $h:ident
   repeat' split at $h:ident
   all_goals (simp at $h:ident; try subst $h:ident)
   all_goals first
     | exact $hi
     | exact invU_frame $hi _ _ rfl rfl rfl
     | exact invU_frame $hi _ _ rfl (capPC_nextAdmit _ _) rfl
     | exact invU_frame $hi _ _ rfl (capPC_startDrain _ _) rfl
     | exact invU_frame $hi _ _ rfl (capPC_afterSub _ _ _) rfl
     | exact invU_frame $hi _ _ rfl (capPC_afterVictim _ _ _ _ _) rfl
     | exact invU_frame $hi _ _ rfl (capPC_startPC _ _ _) rfl))

theorem invU_step {c : Cfg} (hc : 18446744073709551615 ≤ c.capacity) {s s' : State} {t : Nat} {l : Label}
    (hi : InvU s) (h : step c s t l = some s') : InvU s' := by
  replace h := step_step0 h
  cases l <;> simp only [step0] at h
  case call op a => invu_step hi h stepCall
  case advance d => simp at h; subst h; exact ⟨hi.nocap, hi.clean⟩
  case read => invu_step hi h stepRead
  case insMap => invu_step hi h stepInsMap
  case insSub => invu_step hi h stepInsSub
  case insEv => invu_step hi h stepInsEv
  case insAdd => invu_step hi h stepInsAdd
  case coopSkip => invu_step hi h stepCoopSkip
  case coopLock => invu_step hi h stepCoopLock
  case rmMap => invu_step hi h stepRmMap
  case rmPol => invu_step hi h stepRmPol
  case rmSub => invu_step hi h stepRmSub
  case rmNote sent => invu_step hi h stepRmNote
  case compute fail => invu_step hi h stepCompute
  case oiMap => invu_step hi h stepOiMap
  case oiEv => invu_step hi h stepOiEv
  case oiAdd => invu_step hi h stepOiAdd
  case clear => invu_step hi h stepClear
  case clrAcq i => invu_step hi h stepClrAcq
  case clrGet i => invu_step hi h stepClrGet
  case mLock => invu_step hi h stepMLock
  case recv => invu_step hi h stepRecv
  case admit d => invu_step hi h stepAdmit
  case victim => invu_step hi h stepVictim
  case evSub => invu_step hi h stepEvSub
  case evNote sent => invu_step hi h stepEvNote
  case ttlAdvance e => invu_step hi h stepTtlAdvance
  case ttlMap sent => invu_step hi h stepTtlMap
  case ttiMap vs sent => invu_step hi h stepTtiMap
  case capLoad =>
    unfold stepCapLoad at h
    split at h
    · simp at h; subst h
      have := obs_lt s
      have hle : obs s ≤ c.capacity := by omega
      simp only [hle, if_true]
      exact invU_frame hi _ _ rfl rfl rfl
    · simp at h
  case capEvict v r =>
    unfold stepCapEvict at h
    split at h
    · rename_i hpc; have := hi.nocap t; rw [hpc] at this; simp [capPC] at this
    · simp at h
  case capMap sent =>
    unfold stepCapMap at h
    split at h
    · rename_i hpc; have := hi.nocap t; rw [hpc] at this; simp [capPC] at this
    · simp at h
  case capSub =>
    unfold stepCapSub at h
    split at h
    · rename_i hpc; have := hi.nocap t; rw [hpc] at this; simp [capPC] at this
    · simp at h
  case unlock => invu_step hi h stepUnlock

theorem invU_reach {c : Cfg} (hc : 18446744073709551615 ≤ c.capacity) {s : State} (h : Reach c s) : InvU s := by
  induction h with
  | init => exact invU_init
  | step _ hs ih => exact invU_step hc ih hs

end Fv.Cache.Conc
