import Fv.Lemmas.SyncMutexNlwL
/-!
NO LOST WAKEUP for the mutex model (`PNlw`), accounting of `WOKEN` nodes (`PWk`), assembly of the
wake invariant `WInv` and `WInv_reach`.
-/
namespace Fv.Sync.Mutex
open Fv.Sync
variable {cfg : Cfg} {s s' : State} {t : Tid} {l : Lbl}

theorem activePc_own {pc : Pc} (h : activePc pc = true) : syncOnly pc = true ∨ futPc pc = true := by
  cases pc with
  | taLoad k => cases k <;> first | (left; rfl) | (right; rfl) | cases h
  | taCas k => cases k <;> first | (left; rfl) | (right; rfl) | cases h
  | llSwap k => cases k <;> first | (left; rfl) | (right; rfl) | cases h
  | llLoad k => cases k <;> first | (left; rfl) | (right; rfl) | cases h
  | llSpin k => cases k <;> first | (left; rfl) | (right; rfl) | cases h
  | spinYield => left; rfl
  | qRearm => right; rfl
  | qFetchOr => right; rfl
  | qLoad => right; rfl
  | qCas => right; rfl
  | _ => cases h

theorem dropPc_futPc {pc : Pc} (h : dropPc pc = true) : futPc pc = true ∧ asyncOnly pc = true := by
  cases pc with
  | llSwap k => cases k <;> first | exact ⟨rfl, rfl⟩ | cases h
  | llLoad k => cases k <;> first | exact ⟨rfl, rfl⟩ | cases h
  | llSpin k => cases k <;> first | exact ⟨rfl, rfl⟩ | cases h
  | ff a => cases a <;> first | exact ⟨rfl, rfl⟩ | cases h
  | llRel a => cases a <;> first | exact ⟨rfl, rfl⟩ | cases h
  | dLoad => exact ⟨rfl, rfl⟩
  | _ => cases h

/-- `PreWake` of another thread is stable -/
theorem prewake_other (hi : Inv s) (h : Step cfg s t l s') {u : Tid} (hu : u ≠ t) (hp : PreWake s u) :
    PreWake s' u := by
  unfold PreWake at hp ⊢
  rw [step_th_other h u hu]
  rcases hp with hp | ⟨hd, hwk⟩
  · exact Or.inl hp
  · right
    refine ⟨hd, ?_⟩
    have hk := node_other hi h hu (Or.inr (dropPc_futPc hd).1)
    rcases hk with hk | ⟨_, _, hk⟩ <;> rw [hk]
    exact hwk

/-- the covering of a head that stays the head -/
theorem cover_same (hi : Inv s) (hw : WInv s) (h : Step cfg s t l s') (hL' : s'.word.locked = false)
    {hd : Nid} (hh' : s'.wl.queue.head? = some hd)
    (hc : (∃ u, PreWake s u) ∨ (s.wl.node hd).woken = true ∨ OwnerActive s hd) :
    (∃ u, PreWake s' u) ∨ (s'.wl.node hd).woken = true ∨ OwnerActive s' hd := by
  have hlk' : (s'.wl.node hd).linked = true :=
    ((wf_step hi h).linked hd).2 (List.mem_of_mem_head? hh')
  rcases hc with ⟨u, hu⟩ | hwk | ⟨u, hme, hact⟩
  · by_cases hut : u = t
    · subst hut
      rcases prewake_local hi hw h hu with hp | hq | ⟨h2, hh2, hw2⟩
      · exact Or.inl ⟨u, hp⟩
      · rw [hq] at hh'; cases hh'
      · rw [hh'] at hh2; cases hh2; exact Or.inr (Or.inl hw2)
    · exact Or.inl ⟨u, prewake_other hi h hut hu⟩
  · cases hwk' : (s'.wl.node hd).woken
    · obtain ⟨hme, hact⟩ := woken_clear_local hi hw h hd hwk hwk' hlk'
      exact Or.inr (Or.inr ⟨t, hme, hact⟩)
    · exact Or.inr (Or.inl rfl)
  · by_cases hut : u = t
    · subst hut
      rcases active_local hi h hact with ⟨hme', hact'⟩ | hl
      · exact Or.inr (Or.inr ⟨u, by rw [hme', hme], hact'⟩)
      · rw [hl] at hL'; cases hL'
    · exact Or.inr (Or.inr ⟨u, by rw [step_th_other h u hut]; exact hme, by rw [step_th_other h u hut]; exact hact⟩)

theorem head?_erase_ne {α : Type} [DecidableEq α] {q : List α} {a m : α} (h : q.head? = some a) (hne : a ≠ m) :
    (q.erase m).head? = some a := by
  cases q with
  | nil => cases h
  | cons b r =>
    simp only [List.head?_cons, Option.some.injEq] at h
    subst h
    rw [List.erase_cons_tail (by simpa using hne)]
    rfl

theorem nlw_step (hi : Inv s) (hw : WInv s) (h : Step cfg s t l s') : PNlw s' := by
  intro hL' hd hh'
  rcases step_locked h with hl | ⟨_, hl1⟩ | ⟨_, _, hpr, hwl, hhq, hnext⟩
  · -- the lock bit did not change: it was free before
    have hL : s.word.locked = false := by rw [← hl]; exact hL'
    rcases step_queue h with hq | ⟨hp, hp', hme, hq⟩ | ⟨hq, hlk, hpc⟩
    · exact cover_same hi hw h hL' hh' (hw.nlw hL hd (by rw [← hq]; exact hh'))
    · -- a node was linked at the tail
      cases hqe : s.wl.queue with
      | nil =>
        rw [hq, hqe] at hh'
        simp only [List.nil_append, List.head?_cons, Option.some.injEq] at hh'
        exact Or.inr (Or.inr ⟨t, by rw [hme]; exact hh', by rw [hp']; rfl⟩)
      | cons a r =>
        have hha : s.wl.queue.head? = some a := by rw [hqe]; rfl
        have : hd = a := by
          rw [hq, hqe] at hh'; simp at hh'; exact hh'.symm
        subst this
        exact cover_same hi hw h hL' hh' (hw.nlw hL hd hha)
    · -- the stepping thread unlinked its own node
      have hne : s'.wl.queue ≠ s.wl.queue := by
        intro he
        have hmem : me t (s.th t) ∈ s.wl.queue := (hi.wf.linked _).1 hlk
        have : me t (s.th t) ∈ s'.wl.queue := by rw [he]; exact hmem
        rw [hq] at this
        exact (List.Nodup.mem_erase_iff hi.wf.nodup).1 this |>.1 rfl
      have hdrop : (s.th t).pc = .llSwap .drop := by
        rcases hpc with hp | ⟨_, k, hp, hk | hk | hk⟩
        · have := unlink_holds hi hw h (Or.inl hp) hne; rw [this] at hL'; cases hL'
        · have := unlink_holds hi hw h (Or.inr ⟨k, hp, Or.inl hk⟩) hne; rw [this] at hL'; cases hL'
        · have := unlink_holds hi hw h (Or.inr ⟨k, hp, Or.inr hk⟩) hne; rw [this] at hL'; cases hL'
        · rw [hk] at hp; exact hp
      cases hqe : s.wl.queue with
      | nil => rw [hq, hqe] at hh'; cases hh'
      | cons a r =>
        have hha : s.wl.queue.head? = some a := by rw [hqe]; rfl
        by_cases hae : a = me t (s.th t)
        · -- the head itself was dropped: the dropper forwards, or somebody else is waking
          have hcov := hw.nlw hL a hha
          have tpre : (s.wl.node a).woken = true → PreWake s t := by
            intro hwk; right; rw [hdrop]; exact ⟨rfl, by rw [← hae]; exact hwk⟩
          have hfin : PreWake s t → (∃ u, PreWake s' u) ∨ (s'.wl.node hd).woken = true ∨ OwnerActive s' hd := by
            intro hpt
            rcases prewake_local hi hw h hpt with hp | hq0 | ⟨h2, hh2, hw2⟩
            · exact Or.inl ⟨t, hp⟩
            · rw [hq0] at hh'; cases hh'
            · rw [hh'] at hh2; cases hh2; exact Or.inr (Or.inl hw2)
          rcases hcov with ⟨u, hu⟩ | hwk | ⟨u, hme, hact⟩
          · by_cases hut : u = t
            · subst hut; exact hfin hu
            · exact Or.inl ⟨u, prewake_other hi h hut hu⟩
          · exact hfin (tpre hwk)
          · exfalso
            have hcur : ∃ f, (s.th t).cur = some f :=
              Option.ne_none_iff_exists'.1 (hi.asyncCur t (by rw [hdrop]; rfl))
            obtain ⟨f, hf⟩ := hcur
            have hmet : me t (s.th t) = .fut f := by simp [me, hf]
            have hcu : (s.th u).cur = some f := by
              rw [hae, hmet] at hme
              cases hcu : (s.th u).cur with
              | none => simp [me, hcu] at hme
              | some g => simp [me, hcu] at hme; rw [hme]
            have hfu : futPc (s.th u).pc = true := by
              rcases activePc_own hact with h1 | h1
              · have := hi.syncCur u h1; rw [hcu] at this; cases this
              · exact h1
            have := (hi.busy t f hf (by rw [hdrop]; rfl)).2 u hcu hfu
            subst this
            rw [hdrop] at hact; cases hact
        · have hh2 : s'.wl.queue.head? = some a := by rw [hq]; exact head?_erase_ne hha hae
          rw [hh'] at hh2; cases hh2
          exact cover_same hi hw h hL' hh' (hw.nlw hL hd hha)
  · rw [hl1] at hL'; cases hL'
  · -- release: the releaser read HAS_QUEUED, or the only queued node is still in its re-check
    have hqs : s.wl.queue.head? = some hd := by rw [← hwl]; exact hh'
    cases hq0 : s.word.hq with
    | true => exact Or.inl ⟨t, Or.inl (by rw [hnext hq0]; rfl)⟩
    | false =>
      rcases hw.m2 hq0 with he | ⟨u, hu, hqu⟩
      · rw [he] at hqs; cases hqs
      · have hut : u ≠ t := by intro he; subst he; rw [hu] at hpr; cases hpr
        rw [hqu] at hqs
        simp only [List.head?_cons, Option.some.injEq] at hqs
        exact Or.inr (Or.inr ⟨u, by rw [step_th_other h u hut]; exact hqs,
          by rw [step_th_other h u hut, hu]; rfl⟩)

end Fv.Sync.Mutex
