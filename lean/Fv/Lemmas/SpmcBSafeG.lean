import Fv.Lemmas.SpmcBSafeFrame
namespace Fv.Chan.SpmcB
open Fv.Chan.LeftRightB (upd upd_apply upd_same)

/-- two indices less than a lap apart live in different slots -/
theorem mod_ne_of_lt {a b m : Nat} (h1 : a < b) (h2 : b < a + m) : a % m ≠ b % m := by
  intro h
  have h3 : (b - a) % m = 0 := Nat.sub_mod_eq_zero_of_mod_eq h.symm
  have h4 : (b - a) % m = b - a := Nat.mod_eq_of_lt (by omega)
  omega

/-- `wVal`: the producer overwrites the slot of the next index -/
theorem gfact_wVal {c : Core} (hg : GFact c) {v : Nat} (hlim : c.sent.length < c.lim) :
    GFact { c with val := upd c.val (c.sent.length % c.cap) v, dirty := true } := by
  obtain ⟨g1, g2, g3, g4, g5, g6, g7, g8, g9, g10, g11, g12, g13, g14, g15, g16⟩ := hg
  refine ⟨g1, g2, g3, g4, fun _ => hlim, g6, g7, ?_, g9, g10, g11, g12, g13, g14, g15, g16⟩
  intro i hi hw hd
  simp only [] at *
  have hne : c.sent.length ≠ i + c.cap := fun e => by simpa using hd e
  have : i % c.cap ≠ c.sent.length % c.cap := mod_ne_of_lt hi (by omega)
  simp only [upd_apply, if_neg this]
  exact g8 i hi hw (fun e => absurd e hne)

/-- `wSeqSt`: the sequence number of the next index is published -/
theorem gfact_wSeqSt {c : Core} (hg : GFact c) {v : Nat} (hd : c.dirty = true)
    (hv : c.val (c.sent.length % c.cap) = v) :
    GFact { c with seq := upd c.seq (c.sent.length % c.cap) (2 * c.sent.length + 1), sent := c.sent ++ [v], dirty := false } := by
  obtain ⟨g1, g2, g3, g4, g5, g6, g7, g8, g9, g10, g11, g12, g13, g14, g15, g16⟩ := hg
  have hlt := g5 hd
  refine ⟨g1, g2, ?_, ?_, ?_, ?_, ?_, ?_, ?_, ?_, ?_, g12, g13, g14, g15, g16⟩
  · simp only [List.length_append, List.length_singleton]; omega
  · simp only [List.length_append, List.length_singleton]; omega
  · intro h; simp at h
  · intro r; simp only [List.length_append, List.length_singleton]; have := g6 r; omega
  · intro i hi hw
    simp only [List.length_append, List.length_singleton] at hi hw
    simp only [upd_apply]
    by_cases e : i = c.sent.length
    · subst e; simp
    · have : i % c.cap ≠ c.sent.length % c.cap := mod_ne_of_lt (by omega) (by omega)
      rw [if_neg this]; exact g7 i (by omega) (by omega)
  · intro i hi hw _
    simp only [List.length_append, List.length_singleton] at hi hw
    simp only []
    by_cases e : i = c.sent.length
    · subst e; rw [hv]; simp
    · have hi' : i < c.sent.length := by omega
      rw [g8 i hi' (by omega) (fun e' => by omega)]
      simp [List.getD, List.getElem?_append_left hi']
  · intro j hj hw
    simp only [List.length_append, List.length_singleton] at hw
    simp only [upd_apply]
    have : j ≠ c.sent.length % c.cap := by
      have := Nat.mod_le c.sent.length c.cap; omega
    rw [if_neg this]; exact g9 j hj (by omega)
  · intro j i hj hs
    simp only [List.length_append, List.length_singleton]
    simp only [upd_apply] at hs
    split at hs
    · rename_i e
      have : i = c.sent.length := by omega
      subst this; exact ⟨by omega, by omega, e.symm⟩
    · rename_i e
      have ⟨a, b, d⟩ := g10 j i hj hs
      refine ⟨by omega, ?_, d⟩
      -- the oldest index of the window lives in the slot that is being overwritten
      by_cases hb : c.sent.length = i + c.cap
      · exfalso; apply e; rw [← d, hb]; simp
      · omega
  · intro r
    have ⟨a, b⟩ := g11 r
    refine ⟨a, ?_⟩
    simp only []
    have := g6 r
    rw [List.drop_append_of_le_length (by omega), List.take_append_of_le_length (by simp; omega)]
    exact b


theorem omin_le_left {m : Option Nat} {v x : Nat} (h : m = some x) : omin m v ≤ x := by
  subst h; simp only [omin]; omega
theorem omin_le_right (m : Option Nat) (v : Nat) : omin m v ≤ v := by
  cases m <;> simp only [omin] <;> omega

/-- a writer-phase control state is only ever embedded in an `mMod` -/
theorem writer_is_mMod {s : State} (hs : Safe s) {w : Nat} {i : Nat}
    (hw : LeftRightB.waitingOn i (lrpc (s.pc w))) :
    ∃ rw kw p, s.pc w = .rcv rw (.mMod kw p) ∧ LeftRightB.waitingOn i p := by
  cases hq : s.pc w with
  | idle => rw [hq] at hw; simp [lrpc, LeftRightB.waitingOn] at hw
  | ret res => rw [hq] at hw; simp [lrpc, LeftRightB.waitingOn] at hw
  | snd q =>
    rw [hq] at hw
    have hf := hs.sf w q hq
    cases q <;> simp only [lrpc, lrpcS, LeftRightB.waitingOn] at hw
    case sEnter k h p =>
      simp only [sFact] at hf
      have := hf.2.2.2
      cases p <;> simp_all [isRd]
  | rcv r q =>
    rw [hq] at hw
    cases q <;> simp only [lrpc, lrpcR, LeftRightB.waitingOn] at hw
    case mMod k p => exact ⟨r, k, p, rfl, hw⟩

/-- **The minimum over a snapshot of the cursor list is a lower bound of every published cursor**:
when the producer loads the last cursor of its snapshot, the running minimum bounds the cursor of
every cell in the list published *now* (a cell pushed since the snapshot was taken belongs to a
`clone` that is still waiting for this very reader, and equals its parent's cursor). -/
theorem lb_all {s : State} (hl : LRI s) (hs : Safe s) {t : Nat} {k : ScanK} {h i : Nat} {done : List Nat}
    {r : Nat} {m : Option Nat} (hpc : s.pc t = .snd (.sScan k h i done [r] m)) :
    ∀ x, x ∈ s.core.pub → omin m (s.cur r) ≤ s.cur x := by
  have hst := hl.stage t
  simp only [hpc, lrpc, lrpcS, LeftRightB.stageOK] at hst
  obtain ⟨hi2, hdata⟩ := hst
  have hf := hs.sf t _ hpc
  simp only [sFact] at hf
  obtain ⟨_, _, _, _, hlb, hnone⟩ := hf
  -- every cell of the snapshot is bounded
  have hsnap : ∀ x, x ∈ s.lr.data i → omin m (s.cur r) ≤ s.cur x := by
    intro x hx
    rw [hdata] at hx
    rcases List.mem_append.1 hx with hx | hx
    · cases hm : m with
      | none => rw [hnone hm] at hx; simp at hx
      | some v => subst hm; have := (hlb v rfl).1 x hx; have := omin_le_left (m := some v) (v := s.cur r) rfl; simp only [State.core] at *; omega
    · simp at hx; subst hx; exact omin_le_right _ _
  intro x hx
  simp only [Core.pub, State.core] at hx
  by_cases hlive : i = s.lr.live
  · rw [← hlive] at hx; exact hsnap x hx
  · obtain ⟨w, hw⟩ := hl.view t i (done ++ [r]) (by simp only [hpc, lrpc, lrpcS]) hlive
    obtain ⟨rw, kw, p, hpw, hwp⟩ := writer_is_mMod hs hw
    have hstw := hl.stage w
    simp only [hpw, lrpc, lrpcR] at hstw
    have hfw := hs.rf w rw _ hpw
    -- p = wWait o i or wSpin o i
    have key : ∃ o, s.lr.live = 1 - i ∧ s.lr.data (1 - i) = apL o (s.lr.data i) ∧ opOf p = some o := by
      cases p <;> simp only [LeftRightB.waitingOn] at hwp
      · subst hwp; simp only [LeftRightB.stageOK] at hstw; exact ⟨_, hstw.1, hstw.2.2, rfl⟩
      · subst hwp; simp only [LeftRightB.stageOK] at hstw; exact ⟨_, hstw.1, hstw.2.2, rfl⟩
    obtain ⟨o, hlv, hd, hop⟩ := key
    rw [hlv, hd] at hx
    cases kw with
    | clone n =>
      simp only [rFact, rBase, cloneFact] at hfw
      obtain ⟨⟨hb1, hb2, hb3⟩, ⟨_, _, hcn, _⟩, hopn, _⟩ := hfw
      have := hopn o hop; subst this
      simp only [apL, List.mem_append, List.mem_singleton] at hx
      rcases hx with hx | hx
      · exact hsnap x hx
      · subst hx
        have hreg := hs.g.regd rw hb1 hb3 hb2
        have hmem : rw ∈ s.lr.data i := by
          have : i = 0 ∨ i = 1 := by omega
          rcases this with rfl | rfl
          · exact hreg.1
          · exact hreg.2
        have := hsnap rw hmem
        simp only [State.core] at hcn; omega
    | unreg =>
      simp only [rFact] at hfw
      have := hfw.2.2.2.1 o hop; subst this
      simp only [apL, List.mem_filter] at hx
      exact hsnap x hx.1


/-- the scan's result raises the producer's credit -/
theorem gfact_lim {c : Core} (hg : GFact c) {v : Nat} (hlb : ∀ x, x ∈ c.pub → v ≤ c.cur x) :
    GFact { c with lim := max c.lim (v + c.cap) } := by
  obtain ⟨g1, g2, g3, g4, g5, g6, g7, g8, g9, g10, g11, g12, g13, g14, g15, g16⟩ := hg
  refine ⟨g1, ?_, ?_, g4, ?_, g6, g7, g8, g9, g10, g11, g12, g13, g14, g15, g16⟩
  · intro r hr; simp only []; have := g2 r hr; have := hlb r hr; omega
  · simp only []; omega
  · intro h; simp only []; have := g5 h; omega

theorem gfact_head {c : Core} (hg : GFact c) {h : Nat} (hh : h ≤ c.sent.length) : GFact { c with head := h } := by
  obtain ⟨g1, g2, g3, g4, g5, g6, g7, g8, g9, g10, g11, g12, g13, g14, g15, g16⟩ := hg
  exact ⟨g1, g2, g3, hh, g5, g6, g7, g8, g9, g10, g11, g12, g13, g14, g15, g16⟩

theorem gfact_sclosed {c : Core} (hg : GFact c) : GFact { c with sclosed := true } := by
  obtain ⟨g1, g2, g3, g4, g5, g6, g7, g8, g9, g10, g11, g12, g13, g14, g15, g16⟩ := hg
  exact ⟨g1, g2, g3, g4, g5, g6, g7, g8, g9, g10, g11, g12, g13, g14, g15, fun _ => rfl⟩

theorem gfact_pdropped {c : Core} (hg : GFact c) (h : c.sclosed = true) : GFact { c with pdropped := true } := by
  obtain ⟨g1, g2, g3, g4, g5, g6, g7, g8, g9, g10, g11, g12, g13, g14, g15, g16⟩ := hg
  exact ⟨g1, g2, g3, g4, g5, g6, g7, g8, g9, g10, g11, g12, g13, g14, g15, fun _ => h⟩

end Fv.Chan.SpmcB
