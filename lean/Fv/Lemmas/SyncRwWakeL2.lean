import Fv.Lemmas.SyncRwWakeL
/-!
Wake invariant of the rwlock model: frames for nodes of other threads, and preservation of the
per-thread conjuncts `PBoc`, `PBoPark`, `PQw`, `PQz`, `PHl`.
-/
namespace Fv.Sync.RwLock
open Fv.Sync
variable {cfg : Cfg} {s s' : State} {t : Tid} {l : Lbl}

theorem not_inLL_of_other (hi : Inv s) {u : Tid} (hu : u ≠ t) (hll : inLL (s.th u).pc = true) :
    s.wl.locked = true ∧ inLL (s.th t).pc = false := by
  obtain ⟨hl, huniq⟩ := hi.ll u hll
  refine ⟨hl, ?_⟩
  cases hc : inLL (s.th t).pc
  · rfl
  · exact absurd (huniq t hc).symm hu

/-- a node not owned by the stepping thread is not touched at all while somebody else holds the
list lock -/
theorem NodeKept.frozen {n : Nid} (hk : NodeKept s s' t n) (hl : s.wl.locked = true)
    (hn : inLL (s.th t).pc = false) :
    (s'.wl.node n).linked = (s.wl.node n).linked ∧ (s'.wl.node n).waiter = (s.wl.node n).waiter
    ∧ (s'.wl.node n).woken = (s.wl.node n).woken ∧ (s'.wl.node n).isWriter = (s.wl.node n).isWriter := by
  obtain ⟨k1, k2, k3⟩ := hk
  have e2 : (s'.wl.node n).linked = (s.wl.node n).linked := by
    rcases k2 with k2 | ⟨⟨_, _, _, hp | ⟨_, hl', _⟩⟩, _⟩
    · exact k2
    · rw [hp] at hn; cases hn
    · rw [hl] at hl'; cases hl'
  have e3 : (s'.wl.node n).waiter = (s.wl.node n).waiter ∧ (s'.wl.node n).woken = (s.wl.node n).woken := by
    rcases k3 with k3 | ⟨⟨hp | hp, _⟩, _⟩
    · exact k3
    · rw [hp] at hn; cases hn
    · rw [hp] at hn; cases hn
  exact ⟨e2, e3.1, e3.2, k1⟩

/-- the own node of another thread `u` that is inside its acquisition -/
theorem node_other (hi : Inv s) (h : Step cfg s t l s') {u : Tid} (hu : u ≠ t)
    (hown : (s.th u).cur = none ∨ futPc (s.th u).pc = true) : NodeKept s s' t (me u (s.th u)) := by
  cases hc : (s.th u).cur with
  | none => simp only [me, hc]; exact step_node_thr h u hu
  | some f =>
    simp only [me, hc]
    have hp : futPc (s.th u).pc = true := by
      rcases hown with h0 | h0
      · rw [hc] at h0; cases h0
      · exact h0
    obtain ⟨hb, huniq⟩ := hi.busy u f hc hp
    exact step_node_fut h (hi.syncCur t) (hi.asyncCur t) f hb (fun ⟨h1, h2⟩ => hu (huniq t h1 h2).symm)

/-- … and is untouched if `u` holds the list lock -/
theorem node_other_inLL (hi : Inv s) (h : Step cfg s t l s') {u : Tid} (hu : u ≠ t)
    (hll : inLL (s.th u).pc = true)
    (hown : (s.th u).cur = none ∨ futPc (s.th u).pc = true) :
    (s'.wl.node (me u (s.th u))).linked = (s.wl.node (me u (s.th u))).linked
    ∧ (s'.wl.node (me u (s.th u))).waiter = (s.wl.node (me u (s.th u))).waiter
    ∧ (s'.wl.node (me u (s.th u))).woken = (s.wl.node (me u (s.th u))).woken
    ∧ (s'.wl.node (me u (s.th u))).isWriter = (s.wl.node (me u (s.th u))).isWriter := by
  obtain ⟨hl, hn⟩ := not_inLL_of_other hi hu hll
  exact (node_other hi h hu hown).frozen hl hn

theorem armed_inLL {pc : Pc} (h : armedPc pc = true) : inLL pc = true := by
  cases pc <;> first | rfl | cases h
theorem armed_own {pc : Pc} (h : armedPc pc = true) : syncOnly pc = true ∨ futPc pc = true := by
  cases pc with
  | llRel a => cases a <;> first | (left; rfl) | (right; rfl) | cases h
  | qFetchOr => right; rfl
  | qLoad => right; rfl
  | qCas => right; rfl
  | _ => cases h

/-- the queue is frozen while another thread holds the list lock -/
theorem queue_frozen (hi : Inv s) (h : Step cfg s t l s') {u : Tid} (hu : u ≠ t)
    (hll : inLL (s.th u).pc = true) : s'.wl.queue = s.wl.queue := by
  obtain ⟨hlk, hnt0⟩ := not_inLL_of_other hi hu hll
  have hnt : ∀ pc, (s.th t).pc = pc → inLL pc = true → False := by
    intro pc hp hin; rw [hp, hin] at hnt0; cases hnt0
  rcases step_queue h with hq | ⟨hp, -⟩ | ⟨-, -, hp | ⟨hl, -⟩⟩ | ⟨n, ⟨-, -, -, hp | ⟨-, hl, -⟩⟩, -⟩
  · exact hq
  · exact (hnt _ hp rfl).elim
  · exact (hnt _ hp rfl).elim
  · rw [hlk] at hl; cases hl
  · exact (hnt _ hp rfl).elim
  · rw [hlk] at hl; cases hl

theorem perthread_step (hi : Inv s) (hw : WInv s) (h : Step cfg s t l s') :
    PBoc s' ∧ PBoPark s' ∧ PQw s' ∧ PQz s' ∧ PHl s' := by
  obtain ⟨k0, k1, k2, k3, k6⟩ := wake_local hi hw h
  have ho := step_th_other h
  have hfo := step_fut_other h (hi.syncCur t) (hi.asyncCur t)
  refine ⟨?_, ?_, ?_, ?_, ?_⟩
  · intro u f hc hp
    by_cases hu : u = t
    · subst hu; exact k0 f hc hp
    · rw [ho u hu] at hc hp ⊢
      obtain ⟨hb, huniq⟩ := hi.busy u f hc hp
      rw [(hfo f hb (fun ⟨h1, h2⟩ => hu (huniq t h1 h2).symm)).1]
      exact hw.boc u f hc hp
  · intro u hp
    by_cases hu : u = t
    · subst hu; exact k1 hp
    · rw [ho u hu] at hp ⊢
      refine ⟨(hw.boPark u hp).1, ?_⟩
      intro f hc
      have hfp : futPc (s.th u).pc = true := by rw [hp]; rfl
      obtain ⟨hb, huniq⟩ := hi.busy u f hc hfp
      rw [(hfo f hb (fun ⟨h1, h2⟩ => hu (huniq t h1 h2).symm)).1]
      exact (hw.boPark u hp).2 f hc
  · intro u hp
    by_cases hu : u = t
    · subst hu; exact k2 hp
    · rw [ho u hu] at hp ⊢
      have hown : (s.th u).cur = none ∨ futPc (s.th u).pc = true := Or.inr (by rw [hp]; rfl)
      rw [(node_other_inLL hi h hu (by rw [hp]; rfl) hown).2.1]
      exact hw.qw u hp
  · intro u hp
    by_cases hu : u = t
    · subst hu; exact k3 hp
    · rw [ho u hu] at hp ⊢
      have hown : (s.th u).cur = none ∨ futPc (s.th u).pc = true := by
        rcases armed_own hp with h1 | h1
        · exact Or.inl (hi.syncCur u h1)
        · exact Or.inr h1
      obtain ⟨e1, -, e3, -⟩ := node_other_inLL hi h hu (armed_inLL hp) hown
      rw [e1, e3]
      exact hw.qz u hp
  · intro u hp
    by_cases hu : u = t
    · subst hu; exact k6 hp
    · rw [ho u hu] at hp ⊢
      exact step_holders_other h u _ hu (hw.hl u hp)

end Fv.Sync.RwLock
