import Fv.Lemmas.TopicRoute
/-! The routing invariant is preserved by every operation except a receiver `close()`. -/
namespace Fv.Chan.Topic

/-- fields that only receiver-handle operations change -/
def SameCore (x y : Rx) : Prop :=
  y.live = x.live ∧ y.hasDisp = x.hasDisp ∧ y.subs = x.subs ∧ y.closed = x.closed ∧ y.kind = x.kind ∧ y.cap = x.cap

theorem SameCore.refl (x : Rx) : SameCore x x := ⟨rfl, rfl, rfl, rfl, rfl, rfl⟩

theorem SameCore.trans {x y z : Rx} (h1 : SameCore x y) (h2 : SameCore y z) : SameCore x z := by
  obtain ⟨a1, a2, a3, a4, a5, a6⟩ := h1
  obtain ⟨b1, b2, b3, b4, b5, b6⟩ := h2
  exact ⟨b1.trans a1, b2.trans a2, b3.trans a3, b4.trans a4, b5.trans a5, b6.trans a6⟩

theorem core_modAt (l : List Rx) (i : Nat) (f : Rx → Rx) (hf : ∀ x, SameCore x (f x)) (r : Nat) (y : Rx)
    (hy : (modAt l i f)[r]? = some y) : ∃ x, l[r]? = some x ∧ SameCore x y := by
  rw [getElem?_modAt] at hy
  by_cases h : i = r
  · simp only [h, if_true] at hy
    cases hl : l[r]? with
    | none => simp [hl] at hy
    | some x => simp only [hl, Option.map_some, Option.some.injEq] at hy; subst hy; exact ⟨x, rfl, hf x⟩
  · simp only [h, if_false] at hy; exact ⟨y, hy, SameCore.refl y⟩

theorem core_deliverTo (m : Msg) (rxs : List Rx) (is : List Nat) (r : Nat) (y : Rx)
    (hy : (deliverTo m rxs is)[r]? = some y) : ∃ x, rxs[r]? = some x ∧ SameCore x y := by
  fun_induction deliverTo m rxs is with
  | case1 => exact ⟨y, hy, SameCore.refl y⟩
  | case2 rxs i is ih =>
    obtain ⟨x1, hx1, hc1⟩ := ih hy
    obtain ⟨x, hx, hc⟩ := core_modAt rxs i _ (fun x => by
      by_cases hl : x.live = true
      · rw [if_pos hl]; unfold deliver; split <;> exact ⟨rfl, rfl, rfl, rfl, rfl, rfl⟩
      · rw [if_neg hl]; exact SameCore.refl _) r x1 hx1
    exact ⟨x, hx, hc.trans hc1⟩

theorem core_disconnectTo (rxs : List Rx) (is : List Nat) (r : Nat) (y : Rx)
    (hy : (disconnectTo rxs is)[r]? = some y) : ∃ x, rxs[r]? = some x ∧ SameCore x y := by
  fun_induction disconnectTo rxs is with
  | case1 => exact ⟨y, hy, SameCore.refl y⟩
  | case2 rxs i is ih =>
    obtain ⟨x1, hx1, hc1⟩ := ih hy
    obtain ⟨x, hx, hc⟩ := core_modAt rxs i _ (fun x => by
      by_cases hl : x.live = true
      · rw [if_pos hl]; exact ⟨rfl, rfl, rfl, rfl, rfl, rfl⟩
      · rw [if_neg hl]; exact SameCore.refl _) r x1 hx1
    exact ⟨x, hx, hc.trans hc1⟩

theorem RI_frame_core (s s' : St) (hr : s'.regs = s.regs) (hlen : s.rxs.length ≤ s'.rxs.length)
    (hd : dispAlive s' = true → dispAlive s = true)
    (hx : ∀ (r : Nat) (y : Rx), s'.rxs[r]? = some y → y.live = true → ∃ x, s.rxs[r]? = some x ∧ SameCore x y)
    {P : Prop} (h : RI P s) : RI P s' := by
  apply RI_frame s s' hr hlen hd _ h
  intro r y hy hl
  obtain ⟨x, hx1, c1, c2, c3, c4, _, _⟩ := hx r y hy hl
  exact ⟨x, hx1, c1 ▸ hl, c2, c3, fun hc => c4 ▸ hc⟩

theorem any_live_modAt (l : List Tx) (i : Nat) (f : Tx → Tx) (hf : ∀ x, (f x).live = true → x.live = true) :
    (modAt l i f).any (fun x => x.live) = true → l.any (fun x => x.live) = true := by
  fun_induction modAt l i f with
  | case1 => exact id
  | case2 a l f =>
    simp only [List.any_cons, Bool.or_eq_true]
    rintro (h | h)
    · exact Or.inl (hf a h)
    · exact Or.inr h
  | case3 a l n f ih =>
    simp only [List.any_cons, Bool.or_eq_true]
    rintro (h | h)
    · exact Or.inl h
    · exact Or.inr (ih hf h)

theorem rxLive_some (s : St) (r : Nat) (x : Rx) (h : rxLive s r = some x) : s.rxs[r]? = some x ∧ x.live = true := by
  unfold rxLive at h
  cases hx : s.rxs[r]? with
  | none => simp [hx] at h
  | some y =>
    simp only [hx] at h
    by_cases hl : y.live
    · simp only [hl, if_true, Option.some.injEq] at h; subst h; exact ⟨rfl, hl⟩
    · simp [hl] at h

theorem txLive_some (s : St) (h : Nat) (x : Tx) (hx : txLive s h = some x) : s.txs[h]? = some x ∧ x.live = true := by
  unfold txLive at hx
  cases hy : s.txs[h]? with
  | none => simp [hy] at hx
  | some y =>
    simp only [hy] at hx
    by_cases hl : y.live
    · simp only [hl, if_true, Option.some.injEq] at hx; subst hx; exact ⟨rfl, hl⟩
    · simp [hl] at hx

theorem dispAlive_of_txLive (s : St) (h : Nat) (x : Tx) (hx : txLive s h = some x) : dispAlive s = true := by
  obtain ⟨h1, h2⟩ := txLive_some s h x hx
  unfold dispAlive
  rw [List.any_eq_true]
  exact ⟨x, List.mem_of_getElem? h1, h2⟩

/-- `sClose` as seen by the routing invariant -/
theorem RI_sClose (s : St) (h : Nat) {P : Prop} (hri : RI P s) : RI P (sClose s h).1 := by
  unfold sClose
  split
  · exact hri
  · split
    · exact hri
    · refine RI_frame_core s _ ?_ ?_ ?_ ?_ hri
      · rfl
      · simp [senderCloseInternal, length_disconnectTo]
      · simp only [senderCloseInternal, dispAlive]
        exact any_live_modAt _ _ _ (fun x hx => hx)
      · intro r y hy _
        simp only [senderCloseInternal] at hy
        exact core_disconnectTo _ _ r y hy

theorem RI_recvWith (s : St) (r : Nat) (x : Rx) (d e : Res) {P : Prop} (hri : RI P s) : RI P (recvWith s r x d e).1 := by
  unfold recvWith
  split
  · refine RI_frame_core s _ ?_ ?_ ?_ ?_ hri
    · rfl
    · simp [length_modAt]
    · exact fun h => h
    intro q y hy _
    refine core_modAt _ _ _ ?_ q y hy
    intro x; exact ⟨rfl, rfl, rfl, rfl, rfl, rfl⟩
  · split <;> exact hri

theorem rxCloseInternal_txs (s : St) (r : Nat) : (rxCloseInternal s r).txs = s.txs := by
  cases hx : s.rxs[r]? with
  | none => rw [rxCloseInternal_none s r hx]
  | some x => rw [rxCloseInternal_eq s r x hx]; split <;> rfl

theorem rxCloseInternal_length (s : St) (r : Nat) : (rxCloseInternal s r).rxs.length = s.rxs.length := by
  cases hx : s.rxs[r]? with
  | none => rw [rxCloseInternal_none s r hx]
  | some x => rw [rxCloseInternal_eq s r x hx]; split <;> simp [length_modAt]

theorem rxCloseInternal_rxs_ne (s : St) (r q : Nat) (hq : r ≠ q) : (rxCloseInternal s r).rxs[q]? = s.rxs[q]? := by
  cases hx : s.rxs[r]? with
  | none => rw [rxCloseInternal_none s r hx]
  | some x =>
    rw [rxCloseInternal_eq s r x hx]; split
    · simp [getElem?_modAt_ne _ _ _ _ hq]
    · rfl

/-- entries after a receiver's `close_internal`: unchanged or `subs := []` -/
theorem rel_rxCloseInternal' (R : Rx → Rx → Prop) (hr : ∀ x, R x x) (hs : ∀ x, R x { x with subs := [] })
    (s : St) (q : Nat) (r : Nat) (y : Rx) (hy : (rxCloseInternal s q).rxs[r]? = some y) :
    ∃ x, s.rxs[r]? = some x ∧ R x y := by
  cases hx : s.rxs[q]? with
  | none => rw [rxCloseInternal_none s q hx] at hy; exact ⟨y, hy, hr y⟩
  | some x =>
    rw [rxCloseInternal_eq s q x hx] at hy
    split at hy
    · simp only [] at hy
      rw [getElem?_modAt] at hy
      by_cases h : q = r
      · simp only [h, if_true] at hy
        cases hl : s.rxs[r]? with
        | none => simp [hl] at hy
        | some z => simp only [hl, Option.map_some, Option.some.injEq] at hy; subst hy; exact ⟨z, rfl, hs z⟩
      · simp only [h, if_false] at hy; exact ⟨y, hy, hr y⟩
    · exact ⟨y, hy, hr y⟩

theorem RI_foldl_subscribeCore (l : List Topic) (s : St) (n : Nat) (x0 : Rx) (hx0 : s.rxs[n]? = some x0)
    (hl0 : x0.live = true) {P : Prop} (h : RI P s) : RI P (l.foldl (fun s t => subscribeCore s n t) s) := by
  induction l generalizing s x0 with
  | nil => exact h
  | cons t l ih =>
    simp only [List.foldl_cons]
    have h1 := RI_subscribeCore s n t x0 hx0 hl0 h
    -- the entry of `n` after the step is still live
    rcases subscribeCore_rxs s n t with he | he
    · exact ih _ x0 (by rw [he]; exact hx0) hl0 h1
    · exact ih _ { x0 with subs := x0.subs ++ [t] } (by rw [he, getElem?_modAt_self, hx0]; rfl) hl0 h1

/-- for arbitrary histories (`¬P`): only "no dispatcher ⇒ dispatcher dead" and "own subscription
⇒ registered" are claimed, so an operation may also shrink a subscription set or set `closed` -/
theorem RI_weak_frame (s s' : St) (hr : s'.regs = s.regs) (hlen : s.rxs.length ≤ s'.rxs.length)
    (hd : dispAlive s' = true → dispAlive s = true)
    (hx : ∀ (r : Nat) (y : Rx), s'.rxs[r]? = some y → y.live = true →
      ∃ x, s.rxs[r]? = some x ∧ x.live = true ∧ y.hasDisp = x.hasDisp ∧ ∀ t, t ∈ y.subs → t ∈ x.subs)
    {P : Prop} (hP : ¬ P) (h : RI P s) : RI P s' := by
  refine ⟨fun t r hm => Nat.lt_of_lt_of_le (h.inRange t r (hr ▸ hm)) hlen, ?_⟩
  intro r y hy hl
  obtain ⟨x, hx1, hxl, hxd, hxs⟩ := hx r y hy hl
  obtain ⟨a, _, _, d⟩ := h.ok r x hx1 hxl
  refine ⟨?_, fun h' => absurd h' hP, fun h' => absurd h' hP, ?_⟩
  · intro h1
    cases hda : dispAlive s' with
    | false => rfl
    | true => rw [hxd] at h1; rw [a h1] at hd; exact absurd (hd hda) (by simp)
  · intro h1 h2 t ht; rw [hr]; rw [hxd] at h1; exact d h1 (hd h2) t (hxs t ht)

theorem RI_step (s : St) (op : Op) {P : Prop} (hop : P → ∀ r, op ≠ .rClose r) (hri : RI P s) : RI P (step s op).1 := by
  cases op with
  | rClose r =>
    by_cases hP : P
    · exact absurd rfl (hop hP r)
    · simp only [step, rClose]; split
      · exact hri
      · split
        · exact hri
        · refine RI_weak_frame s _ ?_ ?_ ?_ ?_ hP hri
          · rw [regs_rxCloseInternal]
          · rw [rxCloseInternal_length]; simp [length_modAt]
          · rw [dispAlive_congr _ _ (rxCloseInternal_txs _ r)]; exact id
          · intro q y hy hl
            obtain ⟨x1, hx1, hc1⟩ := rel_rxCloseInternal'
              (fun x y => y.live = x.live ∧ y.hasDisp = x.hasDisp ∧ ∀ t, t ∈ y.subs → t ∈ x.subs)
              (fun _ => ⟨rfl, rfl, fun _ h => h⟩) (fun _ => ⟨rfl, rfl, fun _ h => by simp at h⟩) _ r q y hy
            rw [getElem?_modAt] at hx1
            by_cases hq : r = q
            · subst hq
              simp only [if_true] at hx1
              cases h0 : s.rxs[r]? with
              | none => simp [h0] at hx1
              | some z =>
                simp only [h0, Option.map_some, Option.some.injEq] at hx1; subst hx1
                exact ⟨z, rfl, by rw [← hc1.1]; exact hl, hc1.2.1, hc1.2.2⟩
            · simp only [hq, if_false] at hx1
              exact ⟨x1, hx1, by rw [← hc1.1]; exact hl, hc1.2.1, hc1.2.2⟩
  | send h t v =>
    simp only [step]
    rcases send_cases s h t v with ⟨x, _, _, _, he⟩ | ⟨h1, _⟩
    · rw [he]
      refine RI_frame_core s _ ?_ ?_ ?_ ?_ hri
      · rfl
      · simp [length_deliverTo]
      · exact fun h => h
      intro r y hy _; exact core_deliverTo _ _ _ r y hy
    · rw [h1]; exact hri
  | sClone h =>
    simp only [step, sClone]; split
    · exact hri
    · rename_i x hx
      split
      · exact hri
      · refine RI_frame_core s _ ?_ ?_ (fun _ => dispAlive_of_txLive s h x hx) ?_ hri
        · rfl
        · exact Nat.le_refl _
        intro r y hy _; exact ⟨y, hy, SameCore.refl y⟩
  | sClose h => exact RI_sClose s h hri
  | sDrop h =>
    simp only [step, sDrop]; split
    · exact hri
    · have h1 := RI_sClose s h hri
      refine RI_frame_core _ _ ?_ ?_ ?_ ?_ h1
      · rfl
      · exact Nat.le_refl _
      · simp only [dispAlive]; exact any_live_modAt _ _ _ (fun x hx => by simp at hx)
      · intro r y hy _; exact ⟨y, hy, SameCore.refl y⟩
  | sConv h =>
    simp only [step, sConv]; split
    · exact hri
    · refine RI_frame_core s _ ?_ ?_ ?_ ?_ hri
      · rfl
      · exact Nat.le_refl _
      · simp only [dispAlive]; exact any_live_modAt _ _ _ (fun x hx => hx)
      · intro r y hy _; exact ⟨y, hy, SameCore.refl y⟩
  | sIsClosed h => simp only [step, sIsClosed]; split <;> exact hri
  | subscribe r t =>
    simp only [step, subscribe]; split
    · exact hri
    · rename_i x hx
      obtain ⟨h1, h2⟩ := rxLive_some s r x hx
      exact RI_subscribeCore s r t x h1 h2 hri
  | unsubscribe r t =>
    simp only [step, unsubscribe]; split
    · exact hri
    · rename_i x hx
      obtain ⟨h1, h2⟩ := rxLive_some s r x hx
      exact RI_unsubscribeCore s r t x h1 h2 hri
  | rClone r =>
    simp only [step, rClone]; split
    · exact hri
    · rename_i x hx
      obtain ⟨hx1, hxl⟩ := rxLive_some s r x hx
      obtain ⟨a0, b0, c0, d0⟩ := hri.ok r x hx1 hxl
      split
      · -- live clone: append a fresh entry, then subscribe it
        apply RI_foldl_subscribeCore _ _ s.rxs.length (freshRx x) (by simp) rfl
        refine ⟨fun t q hq => by simp only [List.length_append, List.length_cons, List.length_nil]; have := hri.inRange t q hq; omega, ?_⟩
        intro q y hy hl
        by_cases hq : q < s.rxs.length
        · simp only [List.getElem?_append_left hq] at hy
          exact hri.ok q y hy hl
        · have hq' : q = s.rxs.length := by
            have : q < (s.rxs ++ [freshRx x]).length := (List.getElem?_eq_some_iff.1 hy).1
            simp at this; omega
          subst hq'
          simp only [List.getElem?_concat_length, Option.some.injEq] at hy
          subst hy
          refine ⟨fun h1 => by simp [freshRx] at h1, fun _ _ => rfl, ?_, fun _ _ t ht => by simp [freshRx] at ht⟩
          intro _ _ t ht
          have := hri.inRange t _ ht; omega
      · -- dead clone
        rename_i hu
        have hda : dispAlive s = false := by
          cases hd : dispAlive s with
          | false => rfl
          | true =>
            cases hh : x.hasDisp with
            | false => rw [a0 hh] at hd; cases hd
            | true => exact absurd ((upgradable_iff s x).2 ⟨hh, hd⟩) hu
        refine ⟨fun t q hq => by simp only [List.length_append, List.length_cons, List.length_nil]; have := hri.inRange t q hq; omega, ?_⟩
        intro q y hy hl
        by_cases hq : q < s.rxs.length
        · simp only [List.getElem?_append_left hq] at hy
          exact hri.ok q y hy hl
        · have hq' : q = s.rxs.length := by
            have : q < (s.rxs ++ [deadRx x]).length := (List.getElem?_eq_some_iff.1 hy).1
            simp at this; omega
          subst hq'
          simp only [List.getElem?_concat_length, Option.some.injEq] at hy
          subst hy
          refine ⟨fun _ => hda, fun _ h1 => by simp [deadRx] at h1, ?_, fun h1 => by simp [deadRx] at h1⟩
          intro _ h2; have h3 : dispAlive s = true := h2; rw [hda] at h3; cases h3
  | rDrop r =>
    simp only [step, rDrop]; split
    · exact hri
    · rename_i x hx
      -- whatever the close part did, regs/txs are unchanged and only entry `r` changed; `r` ends dead
      have key : ∀ s1 : St, s1.regs = s.regs → s1.txs = s.txs → s1.rxs.length = s.rxs.length →
          (∀ q, r ≠ q → s1.rxs[q]? = s.rxs[q]?) →
          RI P { s1 with rxs := modAt s1.rxs r (fun x => { x with live := false, disc := true }) } := by
        intro s1 hr ht hlen hne
        refine RI_frame_core s _ ?_ ?_ ?_ ?_ hri
        · exact hr
        · simp [length_modAt, hlen]
        · simp only [dispAlive, ht]; exact id
        intro q y hy hl
        by_cases hq : r = q
        · subst hq
          rw [getElem?_modAt_self] at hy
          cases h1 : s1.rxs[r]? with
          | none => simp [h1] at hy
          | some z => simp only [h1, Option.map_some, Option.some.injEq] at hy; subst hy; simp at hl
        · rw [getElem?_modAt_ne _ _ _ _ hq, hne q hq] at hy
          exact ⟨y, hy, SameCore.refl y⟩
      split
      · split
        · exact key s rfl rfl rfl (fun _ _ => rfl)
        · apply key
          · rw [regs_rxCloseInternal]
          · rw [rxCloseInternal_txs]
          · rw [rxCloseInternal_length]; simp [length_modAt]
          · intro q hq; rw [rxCloseInternal_rxs_ne _ _ _ hq]; simp [getElem?_modAt_ne _ _ _ _ hq]
      · apply key
        · rw [regs_rxCloseInternal]
        · rw [rxCloseInternal_txs]
        · rw [rxCloseInternal_length]
        · intro q hq; rw [rxCloseInternal_rxs_ne _ _ _ hq]
  | rConv r =>
    simp only [step, rConv]; split
    · exact hri
    · refine RI_frame s _ ?_ ?_ ?_ ?_ hri
      · rfl
      · simp [length_modAt]
      · exact fun h => h
      intro q y hy hl
      rw [getElem?_modAt] at hy
      by_cases hq : r = q
      · subst hq
        simp only [if_true] at hy
        cases h1 : s.rxs[r]? with
        | none => simp [h1] at hy
        | some z =>
          simp only [h1, Option.map_some, Option.some.injEq] at hy; subst hy
          exact ⟨z, rfl, hl, rfl, rfl, fun hc => by simp at hc⟩
      · simp only [hq, if_false] at hy
        exact ⟨y, hy, hl, rfl, rfl, fun hc => hc⟩
  | tryRecv r =>
    simp only [step, tryRecv]; split
    · exact hri
    · exact RI_recvWith _ _ _ _ _ hri
  | recv r =>
    simp only [step, recv]; split
    · exact hri
    · split <;> exact RI_recvWith _ _ _ _ _ hri
  | recvTimeout0 r =>
    simp only [step, recvTimeout0]; split
    · exact hri
    · split
      · exact hri
      · split <;> exact RI_recvWith _ _ _ _ _ hri
  | pollNext r =>
    simp only [step, pollNext]; split
    · exact hri
    · split
      · exact hri
      · exact RI_recvWith _ _ _ _ _ hri
  | rIsClosed r => simp only [step, rIsClosed]; split <;> exact hri
  | isEmpty r => simp only [step, isEmpty]; split <;> exact hri
  | capacity r => simp only [step, capacity]; split <;> exact hri

theorem RI_init (cap : Nat) (k : Kind) (P : Prop) : RI P (init cap k) := by
  refine ⟨by simp [init], ?_⟩
  intro r x hx _
  cases r with
  | zero =>
    simp only [init, List.getElem?_cons_zero, Option.some.injEq] at hx
    subst hx
    exact ⟨fun h => by simp at h, fun _ _ => rfl, fun _ _ t ht => by simp [init] at ht, fun _ _ t ht => by simp at ht⟩
  | succ n => simp [init] at hx

end Fv.Chan.Topic
