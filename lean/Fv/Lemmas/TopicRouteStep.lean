import Fv.Lemmas.TopicRoute
/-! The routing invariant is preserved by every operation except a receiver `close()`. -/
namespace Fv.Chan.Topic

/-- fields that only receiver-handle operations change -/
def SameCore (x y : Rx) : Prop :=
  y.live = x.live ∧ y.hasDisp = x.hasDisp ∧ y.subs = x.subs ∧ y.closed = x.closed ∧ y.kind = x.kind ∧ y.cap = x.cap

theorem SameCore.refl (x : Rx) : SameCore x x := ⟨rfl, rfl, rfl, rfl, rfl, rfl⟩

theorem SameCore.trans {x y z : Rx} (h1 : SameCore x y) (h2 : SameCore y z) : SameCore x z := by
  obtain ⟨a1, a2, a3, a4, a5, a6⟩ := h1
  obtain ⟨b1, b2, b3, b4, b5, b6⟩ := h2
  exact ⟨b1.trans a1, b2.trans a2, b3.trans a3, b4.trans a4, b5.trans a5, b6.trans a6⟩

theorem core_modAt (l : List Rx) (i : Nat) (f : Rx → Rx) (hf : ∀ x, SameCore x (f x)) (r : Nat) (y : Rx)
    (hy : (modAt l i f)[r]? = some y) : ∃ x, l[r]? = some x ∧ SameCore x y := by
  rw [getElem?_modAt] at hy
  by_cases h : i = r
  · simp only [h, if_true] at hy
    cases hl : l[r]? with
    | none => simp [hl] at hy
    | some x => simp only [hl, Option.map_some, Option.some.injEq] at hy; subst hy; exact ⟨x, rfl, hf x⟩
  · simp only [h, if_false] at hy; exact ⟨y, hy, SameCore.refl y⟩

theorem core_deliverTo (m : Msg) (rxs : List Rx) (is : List Nat) (r : Nat) (y : Rx)
    (hy : (deliverTo m rxs is)[r]? = some y) : ∃ x, rxs[r]? = some x ∧ SameCore x y := by
  fun_induction deliverTo m rxs is with
  | case1 => exact ⟨y, hy, SameCore.refl y⟩
  | case2 rxs i is ih =>
    obtain ⟨x1, hx1, hc1⟩ := ih hy
    obtain ⟨x, hx, hc⟩ := core_modAt rxs i _ (fun x => by
      by_cases hl : x.live = true
      · rw [if_pos hl]; unfold deliver; split <;> exact ⟨rfl, rfl, rfl, rfl, rfl, rfl⟩
      · rw [if_neg hl]; exact SameCore.refl _) r x1 hx1
    exact ⟨x, hx, hc.trans hc1⟩

theorem core_disconnectTo (rxs : List Rx) (is : List Nat) (r : Nat) (y : Rx)
    (hy : (disconnectTo rxs is)[r]? = some y) : ∃ x, rxs[r]? = some x ∧ SameCore x y := by
  fun_induction disconnectTo rxs is with
  | case1 => exact ⟨y, hy, SameCore.refl y⟩
  | case2 rxs i is ih =>
    obtain ⟨x1, hx1, hc1⟩ := ih hy
    obtain ⟨x, hx, hc⟩ := core_modAt rxs i _ (fun x => by
      by_cases hl : x.live = true
      · rw [if_pos hl]; exact ⟨rfl, rfl, rfl, rfl, rfl, rfl⟩
      · rw [if_neg hl]; exact SameCore.refl _) r x1 hx1
    exact ⟨x, hx, hc.trans hc1⟩

theorem RI_frame_core (s s' : St) (hr : s'.regs = s.regs) (hlen : s.rxs.length ≤ s'.rxs.length)
    (hd : dispAlive s' = true → dispAlive s = true)
    (hx : ∀ (r : Nat) (y : Rx), s'.rxs[r]? = some y → y.live = true → ∃ x, s.rxs[r]? = some x ∧ SameCore x y)
    {P : Prop} (h : RI P s) : RI P s' := by
  apply RI_frame s s' hr hlen hd _ h
  intro r y hy hl
  obtain ⟨x, hx1, c1, c2, c3, c4, _, _⟩ := hx r y hy hl
  exact ⟨x, hx1, c1 ▸ hl, c2, c3, fun hc => c4 ▸ hc⟩

theorem any_live_modAt (l : List Tx) (i : Nat) (f : Tx → Tx) (hf : ∀ x, (f x).live = true → x.live = true) :
    (modAt l i f).any (fun x => x.live) = true → l.any (fun x => x.live) = true := by
  fun_induction modAt l i f with
  | case1 => exact id
  | case2 a l f =>
    simp only [List.any_cons, Bool.or_eq_true]
    rintro (h | h)
    · exact Or.inl (hf a h)
    · exact Or.inr h
  | case3 a l n f ih =>
    simp only [List.any_cons, Bool.or_eq_true]
    rintro (h | h)
    · exact Or.inl h
    · exact Or.inr (ih hf h)

theorem rxLive_some (s : St) (r : Nat) (x : Rx) (h : rxLive s r = some x) : s.rxs[r]? = some x ∧ x.live = true := by
  unfold rxLive at h
  cases hx : s.rxs[r]? with
  | none => simp [hx] at h
  | some y =>
    simp only [hx] at h
    by_cases hl : y.live
    · simp only [hl, if_true, Option.some.injEq] at h; subst h; exact ⟨rfl, hl⟩
    · simp [hl] at h

theorem txLive_some (s : St) (h : Nat) (x : Tx) (hx : txLive s h = some x) : s.txs[h]? = some x ∧ x.live = true := by
  unfold txLive at hx
  cases hy : s.txs[h]? with
  | none => simp [hy] at hx
  | some y =>
    simp only [hy] at hx
    by_cases hl : y.live
    · simp only [hl, if_true, Option.some.injEq] at hx; subst hx; exact ⟨rfl, hl⟩
    · simp [hl] at hx

theorem dispAlive_of_txLive (s : St) (h : Nat) (x : Tx) (hx : txLive s h = some x) : dispAlive s = true := by
  obtain ⟨h1, h2⟩ := txLive_some s h x hx
  unfold dispAlive
  rw [List.any_eq_true]
  exact ⟨x, List.mem_of_getElem? h1, h2⟩

/-- `sClose` as seen by the routing invariant -/
theorem RI_sClose (s : St) (h : Nat) {P : Prop} (hri : RI P s) : RI P (sClose s h).1 := by
  unfold sClose
  split
  · exact hri
  · split
    · exact hri
    · refine RI_frame_core s _ ?_ ?_ ?_ ?_ hri
      · rfl
      · simp [senderCloseInternal, length_disconnectTo]
      · simp only [senderCloseInternal, dispAlive]
        exact any_live_modAt _ _ _ (fun x hx => hx)
      · intro r y hy _
        simp only [senderCloseInternal] at hy
        exact core_disconnectTo _ _ r y hy

theorem RI_recvWith (s : St) (r : Nat) (x : Rx) (d e : Res) {P : Prop} (hri : RI P s) : RI P (recvWith s r x d e).1 := by
  unfold recvWith
  split
  · refine RI_frame_core s _ ?_ ?_ ?_ ?_ hri
    · rfl
    · simp [length_modAt]
    · exact fun h => h
    intro q y hy _
    refine core_modAt _ _ _ ?_ q y hy
    intro x; exact ⟨rfl, rfl, rfl, rfl, rfl, rfl⟩
  · split <;> exact hri

theorem rxCloseInternal_txs (s : St) (r : Nat) : (rxCloseInternal s r).txs = s.txs := by
  cases hx : s.rxs[r]? with
  | none => rw [rxCloseInternal_none s r hx]
  | some x =>
    rw [rxCloseInternal_eq s r x hx]; split
    · exact foldl_unsubscribeCore_txs _ _ _
    · rfl

theorem rxCloseInternal_length (s : St) (r : Nat) : (rxCloseInternal s r).rxs.length = s.rxs.length := by
  cases hx : s.rxs[r]? with
  | none => rw [rxCloseInternal_none s r hx]
  | some x =>
    rw [rxCloseInternal_eq s r x hx]; split
    · exact foldl_unsubscribeCore_length _ _ _
    · rfl

theorem rxCloseInternal_rxs_ne (s : St) (r q : Nat) (hq : r ≠ q) : (rxCloseInternal s r).rxs[q]? = s.rxs[q]? := by
  cases hx : s.rxs[r]? with
  | none => rw [rxCloseInternal_none s r hx]
  | some x =>
    rw [rxCloseInternal_eq s r x hx]; split
    · exact foldl_unsubscribeCore_rxs_ne _ _ _ _ hq
    · rfl

theorem RI_foldl_subscribeCore (l : List Topic) (s : St) (n : Nat) (x0 : Rx) (hx0 : s.rxs[n]? = some x0)
    (hl0 : x0.live = true) {P : Prop} (hc0 : P → x0.closed = false) (h : RI P s) :
    RI P (l.foldl (fun s t => subscribeCore s n t) s) := by
  induction l generalizing s x0 with
  | nil => exact h
  | cons t l ih =>
    simp only [List.foldl_cons]
    have h1 := RI_subscribeCore s n t x0 hx0 hl0 hc0 h
    -- the entry of `n` after the step is still live and as closed as before
    rcases subscribeCore_rxs s n t with he | he
    · exact ih _ x0 (by rw [he]; exact hx0) hl0 hc0 h1
    · exact ih _ { x0 with subs := x0.subs ++ [t] } (by rw [he, getElem?_modAt_self, hx0]; rfl) hl0 hc0 h1

theorem RI_foldl_unsubscribeCore (l : List Topic) (s : St) (n : Nat) (x0 : Rx) (hx0 : s.rxs[n]? = some x0)
    (hl0 : x0.live = true) {P : Prop} (h : RI P s) : RI P (l.foldl (fun s t => unsubscribeCore s n t) s) := by
  induction l generalizing s x0 with
  | nil => exact h
  | cons t l ih =>
    simp only [List.foldl_cons]
    have h1 := RI_unsubscribeCore s n t x0 hx0 hl0 h
    rcases unsubscribeCore_rxs s n t with he | he
    · exact ih _ x0 (by rw [he]; exact hx0) hl0 h1
    · exact ih _ { x0 with subs := x0.subs.filter (fun u => u != t) } (by rw [he, getElem?_modAt_self, hx0]; rfl) hl0 h1

/-- the close part of `close()` / of dropping an open receiver: set the flag, run
`close_internal`. The receiver ends up with an empty subscription set (if the dispatcher is
reachable), everybody else is untouched. -/
theorem RI_closePart (s : St) (r : Nat) (x : Rx) (hx : s.rxs[r]? = some x) (hl : x.live = true)
    {P : Prop} (hri : RI P s) :
    RI P (rxCloseInternal { s with rxs := modAt s.rxs r (fun x => { x with closed := true }) } r) := by
  -- without the P-guarded clause the flag does not matter
  have hw : RI False s := RI_weaken s (fun hf => absurd hf id) hri
  have hw1 : RI False { s with rxs := modAt s.rxs r (fun x => { x with closed := true }) } := by
    refine ⟨fun t q hm => by simp only [length_modAt]; exact hw.inRange t q hm, ?_⟩
    intro q y hy hly
    rw [getElem?_modAt] at hy
    by_cases hq : r = q
    · subst hq
      simp only [if_true, hx, Option.map_some, Option.some.injEq] at hy; subst hy
      obtain ⟨a, _, c, d⟩ := hw.ok r x hx hl
      exact ⟨a, fun hf => absurd hf id, c, d⟩
    · simp only [hq, if_false] at hy
      obtain ⟨a, _, c, d⟩ := hw.ok q y hy hly
      exact ⟨a, fun hf => absurd hf id, c, d⟩
  have hx1 : ({ s with rxs := modAt s.rxs r (fun x => { x with closed := true }) } : St).rxs[r]? =
      some { x with closed := true } := by simp [getElem?_modAt_self, hx]
  -- weak invariant after close_internal
  have hw2 : RI False (rxCloseInternal { s with rxs := modAt s.rxs r (fun x => { x with closed := true }) } r) := by
    rw [rxCloseInternal_eq _ r _ hx1]
    split
    · have h3 := RI_foldl_unsubscribeCore x.subs _ r _ hx1 hl hw1
      exact ⟨h3.inRange, fun q y hy hly => h3.ok q y hy hly⟩
    · exact hw1
  -- and the guarded clause, entry by entry
  refine ⟨hw2.inRange, ?_⟩
  intro q y hy hly
  obtain ⟨a, _, c, d⟩ := hw2.ok q y hy hly
  refine ⟨a, ?_, c, d⟩
  intro hP hda hcl
  have hda' : dispAlive s = true := by
    rw [dispAlive_congr _ _ (rxCloseInternal_txs _ r)] at hda; exact hda
  by_cases hq : r = q
  · subst hq
    rw [rxCloseInternal_eq _ r _ hx1] at hy
    split at hy
    · rw [foldl_unsubscribeCore_self _ _ r _ hx1] at hy
      simp only [Option.some.injEq] at hy; subst hy
      simp only [List.filter_eq_nil_iff]
      intro u hu; simp [hu]
    · rename_i hu
      -- dispatcher reachable for everybody but this handle has none: contradiction with `a`
      rw [hx1] at hy; simp only [Option.some.injEq] at hy; subst hy
      have hh : x.hasDisp = false := by
        cases hh : x.hasDisp with
        | false => rfl
        | true => exact absurd ((upgradable_iff _ _).2 ⟨hh, hda'⟩) hu
      have := (hw.ok r x hx hl).1 hh
      rw [this] at hda'; cases hda'
  · rw [rxCloseInternal_rxs_ne _ _ _ hq, getElem?_modAt_ne _ _ _ _ hq] at hy
    exact (hri.ok q y hy hly).2.1 hP hda' hcl

/-- `subscribe` is not called on a closed handle -/
def OkSub (s : St) (op : Op) : Prop :=
  ∀ r t x, op = .subscribe r t → s.rxs[r]? = some x → x.closed = false

theorem RI_step (s : St) (op : Op) {P : Prop} (hop : P → OkSub s op) (hri : RI P s) : RI P (step s op).1 := by
  cases op with
  | rClose r =>
    simp only [step, rClose]; split
    · exact hri
    · rename_i x hx
      obtain ⟨h1, h2⟩ := rxLive_some s r x hx
      split
      · exact hri
      · exact RI_closePart s r x h1 h2 hri
  | send h t v =>
    simp only [step]
    rcases send_cases s h t v with ⟨x, _, _, _, he⟩ | ⟨h1, _⟩
    · rw [he]
      refine RI_frame_core s _ ?_ ?_ ?_ ?_ hri
      · rfl
      · simp [length_deliverTo]
      · exact fun h => h
      intro r y hy _; exact core_deliverTo _ _ _ r y hy
    · rw [h1]; exact hri
  | sClone h =>
    simp only [step, sClone]; split
    · exact hri
    · rename_i x hx
      split
      · exact hri
      · refine RI_frame_core s _ ?_ ?_ (fun _ => dispAlive_of_txLive s h x hx) ?_ hri
        · rfl
        · exact Nat.le_refl _
        intro r y hy _; exact ⟨y, hy, SameCore.refl y⟩
  | sClose h => exact RI_sClose s h hri
  | sDrop h =>
    simp only [step, sDrop]; split
    · exact hri
    · have h1 := RI_sClose s h hri
      refine RI_frame_core _ _ ?_ ?_ ?_ ?_ h1
      · rfl
      · exact Nat.le_refl _
      · simp only [dispAlive]; exact any_live_modAt _ _ _ (fun x hx => by simp at hx)
      · intro r y hy _; exact ⟨y, hy, SameCore.refl y⟩
  | sConv h =>
    simp only [step, sConv]; split
    · exact hri
    · refine RI_frame_core s _ ?_ ?_ ?_ ?_ hri
      · rfl
      · exact Nat.le_refl _
      · simp only [dispAlive]; exact any_live_modAt _ _ _ (fun x hx => hx)
      · intro r y hy _; exact ⟨y, hy, SameCore.refl y⟩
  | sIsClosed h => simp only [step, sIsClosed]; split <;> exact hri
  | subscribe r t =>
    simp only [step, subscribe]; split
    · exact hri
    · rename_i x hx
      obtain ⟨h1, h2⟩ := rxLive_some s r x hx
      exact RI_subscribeCore s r t x h1 h2 (fun hP => hop hP r t x rfl h1) hri
  | unsubscribe r t =>
    simp only [step, unsubscribe]; split
    · exact hri
    · rename_i x hx
      obtain ⟨h1, h2⟩ := rxLive_some s r x hx
      exact RI_unsubscribeCore s r t x h1 h2 hri
  | rClone r =>
    simp only [step, rClone]; split
    · exact hri
    · rename_i x hx
      obtain ⟨hx1, hxl⟩ := rxLive_some s r x hx
      obtain ⟨a0, b0, c0, d0⟩ := hri.ok r x hx1 hxl
      split
      · -- live clone: append a fresh entry, then subscribe it
        apply RI_foldl_subscribeCore _ _ s.rxs.length (freshRx x) (by simp) rfl (fun _ => rfl)
        refine ⟨fun t q hq => by simp only [List.length_append, List.length_cons, List.length_nil]; have := hri.inRange t q hq; omega, ?_⟩
        intro q y hy hl
        by_cases hq : q < s.rxs.length
        · simp only [List.getElem?_append_left hq] at hy
          exact hri.ok q y hy hl
        · have hq' : q = s.rxs.length := by
            have : q < (s.rxs ++ [freshRx x]).length := (List.getElem?_eq_some_iff.1 hy).1
            simp at this; omega
          subst hq'
          simp only [List.getElem?_concat_length, Option.some.injEq] at hy
          subst hy
          refine ⟨fun h1 => by simp [freshRx] at h1, fun _ _ hc => by simp [freshRx] at hc, ?_, fun _ _ t ht => by simp [freshRx] at ht⟩
          intro _ t ht
          have := hri.inRange t _ ht; omega
      · -- dead clone
        rename_i hu
        have hda : dispAlive s = false := by
          cases hd : dispAlive s with
          | false => rfl
          | true =>
            cases hh : x.hasDisp with
            | false => rw [a0 hh] at hd; cases hd
            | true => exact absurd ((upgradable_iff s x).2 ⟨hh, hd⟩) hu
        refine ⟨fun t q hq => by simp only [List.length_append, List.length_cons, List.length_nil]; have := hri.inRange t q hq; omega, ?_⟩
        intro q y hy hl
        by_cases hq : q < s.rxs.length
        · simp only [List.getElem?_append_left hq] at hy
          exact hri.ok q y hy hl
        · have hq' : q = s.rxs.length := by
            have : q < (s.rxs ++ [deadRx x]).length := (List.getElem?_eq_some_iff.1 hy).1
            simp at this; omega
          subst hq'
          simp only [List.getElem?_concat_length, Option.some.injEq] at hy
          subst hy
          refine ⟨fun _ => hda, fun _ _ _ => rfl, ?_, fun h1 => by simp [deadRx] at h1⟩
          intro h2; have h3 : dispAlive s = true := h2; rw [hda] at h3; cases h3
  | rDrop r =>
    simp only [step, rDrop]; split
    · exact hri
    · rename_i x hx
      obtain ⟨hx1, hxl⟩ := rxLive_some s r x hx
      -- after the close part (if any) the invariant holds; then entry `r` stops being live
      have key : ∀ s1 : St, RI P s1 →
          RI P { s1 with rxs := modAt s1.rxs r (fun x => { x with live := false, disc := true }) } := by
        intro s1 h1
        refine RI_frame_core s1 _ ?_ ?_ ?_ ?_ h1
        · rfl
        · simp [length_modAt]
        · exact fun h => h
        intro q y hy hl
        by_cases hq : r = q
        · subst hq
          rw [getElem?_modAt_self] at hy
          cases h0 : s1.rxs[r]? with
          | none => simp [h0] at hy
          | some z => simp only [h0, Option.map_some, Option.some.injEq] at hy; subst hy; simp at hl
        · rw [getElem?_modAt_ne _ _ _ _ hq] at hy
          exact ⟨y, hy, SameCore.refl y⟩
      split
      · exact key s hri
      · exact key _ (RI_closePart s r x hx1 hxl hri)
  | rConv r =>
    simp only [step, rConv]; split
    · exact hri
    · refine RI_frame s _ ?_ ?_ ?_ ?_ hri
      · rfl
      · simp [length_modAt]
      · exact fun h => h
      intro q y hy hl
      rw [getElem?_modAt] at hy
      by_cases hq : r = q
      · subst hq
        simp only [if_true] at hy
        cases h1 : s.rxs[r]? with
        | none => simp [h1] at hy
        | some z =>
          simp only [h1, Option.map_some, Option.some.injEq] at hy; subst hy
          exact ⟨z, rfl, hl, rfl, rfl, fun hc => by simp at hc⟩
      · simp only [hq, if_false] at hy
        exact ⟨y, hy, hl, rfl, rfl, fun hc => hc⟩
  | tryRecv r =>
    simp only [step, tryRecv]; split
    · exact hri
    · exact RI_recvWith _ _ _ _ _ hri
  | recv r =>
    simp only [step, recv]; split
    · exact hri
    · split <;> exact RI_recvWith _ _ _ _ _ hri
  | recvTimeout0 r =>
    simp only [step, recvTimeout0]; split
    · exact hri
    · split
      · exact hri
      · split <;> exact RI_recvWith _ _ _ _ _ hri
  | pollNext r =>
    simp only [step, pollNext]; split
    · exact hri
    · split
      · exact hri
      · exact RI_recvWith _ _ _ _ _ hri
  | rIsClosed r => simp only [step, rIsClosed]; split <;> exact hri
  | isEmpty r => simp only [step, isEmpty]; split <;> exact hri
  | capacity r => simp only [step, capacity]; split <;> exact hri

theorem RI_init (cap : Nat) (k : Kind) (P : Prop) : RI P (init cap k) := by
  refine ⟨by simp [init], ?_⟩
  intro r x hx _
  cases r with
  | zero =>
    simp only [init, List.getElem?_cons_zero, Option.some.injEq] at hx
    subst hx
    exact ⟨fun h => by simp at h, fun _ _ hc => by simp at hc, fun _ t ht => by simp [init] at ht, fun _ _ t ht => by simp at ht⟩
  | succ n => simp [init] at hx

end Fv.Chan.Topic
