import Fv.Lemmas.OneshotBI1
import Fv.Lemmas.OneshotBI2
import Fv.Lemmas.OneshotBI3
import Fv.Lemmas.OneshotBI4
/-! The safety invariants `I1 … I4` of the step-level oneshot model hold in every reachable state. -/
namespace Fv.Chan.OneshotB

structure AInv (s : State) : Prop where
  i1 : I1 s
  i2 : I2 s
  i3 : I3 s
  i4 : I4 s

theorem ainv_act {s s' : State} {a : Ag} (hi : AInv s) (h : stepAct s a = some s') : AInv s' := by
  obtain ⟨h1, h2, h3, h4⟩ := hi
  rcases stepAct_cases h with h | h | h | h | h | h | h | h
  · exact ⟨i1_send h1 h, i2_send h1 h2 h, i3_send h1 h2 h3 h, i4_send h1 h2 h3 h4 h⟩
  · exact ⟨i1_wk h1 h, i2_wk h1 h2 h, i3_wk h1 h2 h3 h, i4_wk h1 h2 h3 h4 h⟩
  · exact ⟨i1_cl h1 h, i2_cl h1 h2 h, i3_cl h1 h2 h3 h, i4_cl h1 h2 h3 h4 h⟩
  · exact ⟨i1_x h1 h, i2_x h1 h2 h, i3_x h1 h2 h3 h, i4_x h1 h2 h3 h4 h⟩
  · exact ⟨i1_pb h1 h, i2_pb h1 h2 h, i3_pb h1 h2 h3 h, i4_pb h1 h2 h3 h4 h⟩
  · exact ⟨i1_try h1 h, i2_try h1 h3.dead1 h2 h, i3_try h1 h2 h3 h, i4_try h1 h2 h3 h4 h⟩
  · exact ⟨i1_try2 h1 h, i2_try2 h1 h2 h, i3_try2 h1 h2 h3 h, i4_try2 h1 h2 h3 h4 h⟩
  · exact ⟨i1_poll h1 h, i2_poll h1 h2 h, i3_poll h1 h2 h3 h, i4_poll h1 h2 h3 h4 h⟩

theorem ainv_step {s s' : State} {a : Ag} {l : Label} (hi : AInv s) (h : step s a l = some s') : AInv s' := by
  cases l with
  | call =>
    obtain ⟨h1, h2, h3, h4⟩ := hi
    exact ⟨i1_call h1 h, i2_call h1 h2 h, i3_call h1 h2 h3 h, i4_call h1 h2 h3 h4 h⟩
  | ret =>
    obtain ⟨h1, h2, h3, h4⟩ := hi
    exact ⟨i1_ret h1 h, i2_ret h1 h2 h, i3_ret h1 h2 h3 h, i4_ret h1 h2 h3 h4 h⟩
  | act => exact ainv_act hi h
  | spurious =>
    obtain ⟨h1, h2, h3, h4⟩ := hi
    exact ⟨i1_spur h1 h, i2_spur h1 h2 h, i3_spur h1 h2 h3 h, i4_spur h1 h2 h3 h4 h⟩

theorem reach_ainv {progS : Nat → List Op} {progR : List Op} {s : State} (h : Reach progS progR s) : AInv s := by
  induction h with
  | init => exact ⟨i1_init _ _, i2_init _ _, i3_init _ _, i4_init _ _⟩
  | step _ hs ih => exact ainv_step ih hs

end Fv.Chan.OneshotB
