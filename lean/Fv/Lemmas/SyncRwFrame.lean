import Fv.Lemmas.SyncRw
/-!
Frame (stability) facts about one step of thread `t` of the `HybridRwLock` model: what it leaves
unchanged for the other threads.  Each lemma is one pass over the step cases with ground facts.
Unlike the mutex, a step of `wake_waiters` (readers branch) unlinks nodes of OTHER waiters - but only
reader nodes, and only while holding the list spinlock.
-/
namespace Fv.Sync.RwLock
open Fv.Sync
variable {cfg : Cfg} {s s' : State} {t : Tid} {l : Lbl}

/-- `t` is polling or dropping future `f` -/
def opOn (s : State) (t : Tid) (f : Fid) : Prop := (s.th t).cur = some f ∧ futPc (s.th t).pc = true

set_option maxHeartbeats 4000000 in
/-- a step changes the local state of the stepping thread only -/
theorem step_th_other (h : Step cfg s t l s') : ∀ u, u ≠ t → s'.th u = s.th u := by
  intro u hu
  cases h
  all_goals (try simp only [taFail, taSucc, llEnter, afterRel, callStep, spinHead, pollHead, pollDone,
    wakeAllNext, wakeRest])
  all_goals (repeat' split)
  all_goals simp only [withPc, setTh, upd_ne _ _ hu]

set_option maxHeartbeats 4000000 in
/-- a step removes or gives away only guards of the stepping thread -/
theorem step_holders_other (h : Step cfg s t l s') :
    ∀ u b, u ≠ t → (u, b) ∈ s.holders → (u, b) ∈ s'.holders := by
  intro u b hu hm
  cases h
  all_goals (try simp only [taFail, taSucc, llEnter, afterRel, callStep, spinHead, pollHead, pollDone,
    wakeAllNext, wakeRest])
  all_goals (repeat' split)
  all_goals (try norm_goal)
  all_goals (first | exact hm | grind)

set_option maxHeartbeats 8000000 in
/-- the stack node of another thread: `is_writer` is not touched, the node is never linked, and it
is unlinked only if it is a reader node -/
theorem step_node_thr_other (h : Step cfg s t l s')
    (hd : ∀ n, s.wl.queue.head? = some n → s.wl.writers = 0 → (s.wl.node n).isWriter = false)
    (hwr : (s.th t).pc = .wrStore → s.wl.writers = 0) :
    ∀ u, u ≠ t →
      (s'.wl.node (.thr u)).isWriter = (s.wl.node (.thr u)).isWriter
      ∧ ((s'.wl.node (.thr u)).linked = true → (s.wl.node (.thr u)).linked = true)
      ∧ ((s.wl.node (.thr u)).isWriter = true → (s'.wl.node (.thr u)).linked = (s.wl.node (.thr u)).linked) := by
  intro u hu
  step_cases h
  all_goals (try norm_state)
  all_goals (first | exact ⟨rfl, id, fun _ => rfl⟩ | grind)

set_option maxHeartbeats 8000000 in
/-- a busy future that `t` is not operating on is not touched; its node is not written and not linked
(it may be unlinked by a waker) -/
theorem step_fut_other (h : Step cfg s t l s')
    (a1 : syncOnly (s.th t).pc = true → (s.th t).cur = none)
    (a2 : asyncOnly (s.th t).pc = true → (s.th t).cur ≠ none) :
    ∀ f, (s.fut f).busy = true → ¬ opOn s t f →
      s'.fut f = s.fut f
      ∧ ((s'.wl.node (.fut f)).linked = true → (s.wl.node (.fut f)).linked = true)
      ∧ (s'.wl.node (.fut f)).isWriter = (s.wl.node (.fut f)).isWriter := by
  intro f hb hop
  unfold opOn at hop
  step_cases h
  all_goals (try norm_state)
  all_goals (first | exact ⟨rfl, id, rfl⟩ | grind [syncOnly, asyncOnly, futPc, TaK.sync, After.sync, After.async])

set_option maxHeartbeats 8000000 in
/-- how the list spinlock bit moves with the stepping thread's critical-section status -/
theorem step_ll (h : Step cfg s t l s') (a : inLL (s.th t).pc = true → s.wl.locked = true) :
    (inLL (s'.th t).pc = true → s'.wl.locked = true ∧ (inLL (s.th t).pc = true ∨ s.wl.locked = false))
    ∧ (inLL (s.th t).pc = false → s.wl.locked = true → s'.wl.locked = true ∧ inLL (s'.th t).pc = false) := by
  step_cases h
  all_goals (try norm_goal)
  all_goals grind [inLL]

set_option maxHeartbeats 8000000 in
/-- while somebody else holds the list spinlock, a step leaves the queue alone: the only nodes it
writes are unlinked nodes of the stepping thread (a fresh stack node, a fresh heap node) -/
theorem step_wl_frozen (h : Step cfg s t l s') (hl : s.wl.locked = true) (hn : inLL (s.th t).pc = false)
    (a2 : asyncOnly (s.th t).pc = true → (s.th t).cur ≠ none)
    (a3 : (s.wl.node (.thr t)).linked = true → slowL (s.th t).pc = true)
    (a4 : ∀ f, (s.wl.node (.fut f)).linked = true → (s.fut f).phase = .startedNode)
    (a5 : ∀ f, (s.th t).cur = some f →
      ((s.th t).pc = .taLoad .asyncFirst ∨ (s.th t).pc = .taCas .asyncFirst) → (s.fut f).phase = .fresh) :
    s'.wl.writers = s.wl.writers
    ∧ ∀ n, (s'.wl.node n).linked = (s.wl.node n).linked
        ∧ ((s.wl.node n).linked = true → (s'.wl.node n).isWriter = (s.wl.node n).isWriter) := by
  refine ⟨?_, ?_⟩
  · step_cases h
    all_goals (try norm_state)
    all_goals (first | rfl | grind [inLL])
  · intro n
    step_cases h
    all_goals (try norm_state)
    all_goals (first | exact ⟨rfl, fun _ => rfl⟩ | grind [inLL, slowL, syncOnly, asyncOnly, TaK.sync])

end Fv.Sync.RwLock
