import Fv.Lemmas.TopicStep
/-! History invariant: what a receiver obtained plus what is still buffered is the image of an
increasing list of publish indices. -/
namespace Fv.Chan.Topic

structure GI (g : TopicSpec) : Prop where
  nd : g.st.regs.Nodup
  hist : ∀ r, g.got r ++ bufOf g.st r = (g.acc r).map (msgAt g.pubs)
  inc : ∀ r, (g.acc r).Pairwise (· < ·)
  bnd : ∀ r, ∀ i ∈ g.acc r, i < g.pubs.length

theorem msgAt_append_lt (pubs : List Pub) (p : Pub) (i : Nat) (h : i < pubs.length) :
    msgAt (pubs ++ [p]) i = msgAt pubs i := by
  unfold msgAt; rw [List.getElem?_append_left h]

theorem msgAt_append_last (pubs : List Pub) (p : Pub) : msgAt (pubs ++ [p]) pubs.length = (p.t, p.v) := by
  unfold msgAt; simp

theorem map_msgAt_append (pubs : List Pub) (p : Pub) (l : List Nat) (h : ∀ i ∈ l, i < pubs.length) :
    l.map (msgAt (pubs ++ [p])) = l.map (msgAt pubs) := by
  apply List.map_congr_left
  intro i hi; exact msgAt_append_lt pubs p i (h i hi)

theorem GI_ginit (cap : Nat) (k : Kind) : GI (ginit cap k) := by
  refine ⟨by simp [ginit, init], ?_, by simp [ginit], by simp [ginit]⟩
  intro r
  simp only [ginit, init, bufOf, List.nil_append, List.map_nil]
  cases r <;> simp

theorem GI_gstep (g : TopicSpec) (op : Op) (hg : GI g) : GI (gstep g op).1 := by
  have hnd := step_regs_nodup g.st op hg.nd
  show GI (gnext g op (step g.st op).1 (step g.st op).2)
  generalize hs' : (step g.st op).1 = s' at *
  generalize hres : (step g.st op).2 = res
  unfold gnext
  split
  · -- accepted publish
    rename_i h t v
    have hok : (step g.st (.send h t v)).2 = .ok := hres
    subst hs'
    refine ⟨hnd, ?_, ?_, ?_⟩
    · intro r
      have hb := send_ok_buf g.st h t v hg.nd r hok
      simp only []
      split at hb
      · rw [hb]
        have : (bufOf g.st r ++ [(t, v)]).length = (bufOf g.st r).length + 1 := by simp
        rw [if_pos this, List.map_append, map_msgAt_append _ _ _ (hg.bnd r), ← hg.hist r]
        simp [msgAt_append_last]
      · rw [hb]
        have : ¬ (bufOf g.st r).length = (bufOf g.st r).length + 1 := by omega
        rw [if_neg this, map_msgAt_append _ _ _ (hg.bnd r)]
        exact hg.hist r
    · intro r
      simp only []
      split
      · rw [List.pairwise_append]
        refine ⟨hg.inc r, by simp, ?_⟩
        intro a ha b hb
        simp only [List.mem_singleton] at hb; subst hb
        exact hg.bnd r a ha
      · exact hg.inc r
    · intro r i hi
      simp only [List.length_append, List.length_cons, List.length_nil] at hi ⊢
      split at hi
      · rw [List.mem_append] at hi
        rcases hi with hi | hi
        · have := hg.bnd r i hi; omega
        · simp only [List.mem_singleton] at hi; omega
      · have := hg.bnd r i hi; omega
  · -- some receive form returned a message (or, vacuously, another op did)
    rename_i t v
    subst hs'
    split
    · rename_i r htgt
      rcases recv_forms_buf g.st op r htgt with ⟨t', v', h1, h2, h3⟩ | ⟨h1, _⟩
      · rw [hres] at h1
        simp only [Res.msg.injEq] at h1
        obtain ⟨rfl, rfl⟩ := h1
        refine ⟨hnd, ?_, hg.inc, hg.bnd⟩
        intro q
        simp only []
        by_cases hq : q = r
        · subst hq
          rw [if_pos rfl, ← hg.hist q, h2]; simp
        · rw [if_neg hq, h3 q hq]; exact hg.hist q
      · exact absurd hres (h1 t v)
    · -- not a receive form: cannot return a message
      rename_i htgt
      have hq : op.isQuiet = true ∨ ∃ h t v, op = .send h t v := by
        cases op <;> simp_all [Op.isQuiet, recvTarget]
      rcases hq with hq | ⟨h, t', v', rfl⟩
      · exact ⟨hnd, fun r => by simp only []; rw [quiet_buf g.st op hq r]; exact hg.hist r, hg.inc, hg.bnd⟩
      · simp only [step] at hres
        rcases send_cases g.st h t' v' with ⟨x, _, _, _, he⟩ | ⟨_, h2⟩
        · rw [he] at hres; cases hres
        · rcases h2 with h2 | h2 <;> rw [h2] at hres <;> cases hres
  · -- everything else: no buffer changes, or a receive form that returned no message
    rename_i hne1 hne2
    subst hs'
    refine ⟨hnd, ?_, hg.inc, hg.bnd⟩
    intro r
    simp only []
    cases hq : op.isQuiet with
    | true => rw [quiet_buf g.st op hq r]; exact hg.hist r
    | false =>
      cases op with
      | send h t v =>
        have : (step g.st (.send h t v)).2 ≠ .ok := by
          intro hc; exact hne2 h t v rfl (by rw [← hres, hc])
        rw [send_not_ok g.st h t v this]; exact hg.hist r
      | tryRecv q =>
        rcases recv_forms_buf g.st (.tryRecv q) q rfl with ⟨t', v', h1, _, _⟩ | ⟨_, h2⟩
        · exact absurd (by rw [← hres, h1]) (hne1 t' v')
        · rw [h2]; exact hg.hist r
      | recv q =>
        rcases recv_forms_buf g.st (.recv q) q rfl with ⟨t', v', h1, _, _⟩ | ⟨_, h2⟩
        · exact absurd (by rw [← hres, h1]) (hne1 t' v')
        · rw [h2]; exact hg.hist r
      | recvTimeout0 q =>
        rcases recv_forms_buf g.st (.recvTimeout0 q) q rfl with ⟨t', v', h1, _, _⟩ | ⟨_, h2⟩
        · exact absurd (by rw [← hres, h1]) (hne1 t' v')
        · rw [h2]; exact hg.hist r
      | pollNext q =>
        rcases recv_forms_buf g.st (.pollNext q) q rfl with ⟨t', v', h1, _, _⟩ | ⟨_, h2⟩
        · exact absurd (by rw [← hres, h1]) (hne1 t' v')
        · rw [h2]; exact hg.hist r
      | _ => simp [Op.isQuiet] at hq

theorem GI_grun (g : TopicSpec) (ops : List Op) (hg : GI g) : GI (grun g ops) := by
  induction ops generalizing g with
  | nil => exact hg
  | cons op ops ih => exact ih _ (GI_gstep g op hg)

end Fv.Chan.Topic
