import Fv.Chan.MpscUB
import Fv.Lemmas.ChainBAll
/-!
`MpscUB` embeds `ChainB`: every step of the channel model leaves the chain component unchanged
or performs exactly one step of the chain model on it.  Hence every reachable channel state has a
reachable chain state, and every chain invariant / theorem applies.
-/
namespace Fv.Chan.MpscUB
set_option maxHeartbeats 1000000

/-- one-step relation on the chain component -/
def ChainMove (cfg : Cfg) (s s' : State) : Prop :=
  s'.ch = s.ch ∨ ∃ a cl, ChainB.step cfg.chain s.ch a cl = some s'.ch

syntax "proj_close " ident : tactic
macro_rules | `(tactic| proj_close $h) => `(tactic|
  first
    | (exfalso; simp at $h:ident; done)
    | (cases $h:ident; exact Or.inl rfl)
    | (obtain ⟨c, hc, he⟩ := Option.map_eq_some_iff.1 $h:ident
       first
         | (subst he; exact Or.inr ⟨_, _, hc⟩)
         | (split at he <;> subst he <;> exact Or.inr ⟨_, _, hc⟩))
    | (obtain ⟨c, hc, he⟩ := Option.bind_eq_some_iff.1 $h:ident
       first
         | (cases he; exact Or.inr ⟨_, _, hc⟩)
         | (split at he <;> first | (exfalso; simp at he; done) | (cases he; exact Or.inr ⟨_, _, hc⟩))))

theorem callS_chain {cfg : Cfg} {s s' : State} {t h : Nat} {op : SOp}
    (hs : stepCallS cfg s t h op = some s') : ChainMove cfg s s' := by
  unfold stepCallS at hs
  dsimp only [sArcRelease] at hs
  repeat' split at hs
  all_goals proj_close hs

theorem callR_chain {cfg : Cfg} {s s' : State} {t : Nat} {op : ROp}
    (hs : stepCallR s t op = some s') : ChainMove cfg s s' := by
  unfold stepCallR at hs
  repeat' split at hs
  all_goals proj_close hs

theorem ret_chain {cfg : Cfg} {s s' : State} {t : Nat} (hs : stepRet s t = some s') : ChainMove cfg s s' := by
  unfold stepRet at hs
  repeat' split at hs
  all_goals proj_close hs

theorem triDone_ch {s s' : State} {res : TRes} (hs : triDone s res = some s') : s'.ch = s.ch := by
  unfold triDone at hs
  dsimp only [rTry] at hs
  repeat' split at hs
  all_goals (first | (exfalso; simp at hs; done) | (cases hs; rfl))

theorem stepS_chain' {cfg : Cfg} {s s' : State} {h : Nat} (hs : stepS cfg s h = some s') : ChainMove cfg s s' := by
  unfold stepS stepS_chk stepS_chain stepS_rec stepS_nLoadS stepS_nLockS stepS_nUnlockS stepS_nUnparkS stepS_nLoadA
    stepS_nLockA stepS_nUnlockA stepS_wakeA stepS_unparkA stepS_closeChain stepS_wLockS stepS_wUnparkS stepS_wLockA
    stepS_fin at hs
  dsimp only [sArcRelease, sAfterClose] at hs
  repeat' split at hs
  all_goals proj_close hs

theorem stepR_chain' {cfg : Cfg} {s s' : State} (hs : stepR cfg s = some s') : ChainMove cfg s s' := by
  unfold stepR at hs
  split at hs
  all_goals (try (exfalso; simp at hs; done))
  case _ => unfold stepR_closedLoad at hs; dsimp only [rTry] at hs; repeat' split at hs
            all_goals proj_close hs
  case _ => unfold stepR_pop at hs; proj_close hs
  case _ =>
    unfold stepR_inPop at hs
    repeat' split at hs
    all_goals first
      | (exfalso; simp at hs; done)
      | (obtain ⟨c, hc, he⟩ := Option.map_eq_some_iff.1 hs; subst he; exact Or.inr ⟨_, _, hc⟩)
      | (obtain ⟨c, hc, he⟩ := Option.bind_eq_some_iff.1 hs
         first
           | (cases he; exact Or.inr ⟨_, _, hc⟩)
           | (have := triDone_ch he; exact Or.inr ⟨_, _, by rw [this]; exact hc⟩)
           | (repeat' split at he
              all_goals first
                | (cases he; exact Or.inr ⟨_, _, hc⟩)
                | (have := triDone_ch he; exact Or.inr ⟨_, _, by rw [this]; exact hc⟩)))
  case _ => unfold stepR_cons at hs; repeat' split at hs
            all_goals first | proj_close hs | (have := triDone_ch hs; exact Or.inl this)
  case _ => unfold stepR_senders at hs; repeat' split at hs
            all_goals first | proj_close hs | (have := triDone_ch hs; exact Or.inl this)
  all_goals (try unfold stepR_park at hs)
  all_goals (try unfold stepR_swapFlag at hs)
  all_goals (try unfold stepR_uCntA at hs)
  all_goals (try unfold stepR_closeCas at hs)
  all_goals (try unfold stepR_closeSwap at hs)
  all_goals (try unfold stepR_dropStore at hs)
  all_goals (try unfold stepR_emptyLoad at hs)
  all_goals (try unfold stepR_fin at hs)
  all_goals (try dsimp only [rTry, rArcRelease] at hs)
  all_goals (try (repeat' split at hs))
  all_goals (first | proj_close hs)


end Fv.Chan.MpscUB

namespace Fv.Chan.MpscUB

theorem step_chain {cfg : Cfg} {s s' : State} {t : Nat} {l : Label} (hs : step cfg s t l = some s') :
    ChainMove cfg s s' := by
  cases l <;> simp only [step] at hs
  · exact callS_chain hs
  · exact callR_chain hs
  · unfold stepAdv at hs
    repeat' split at hs
    all_goals first | (exfalso; simp at hs; done) | exact stepS_chain' hs | exact stepR_chain' hs
  · exact ret_chain hs

/-- **Embedding.** The chain component of every reachable channel state is a reachable state of
the chain model. -/
theorem reach_chain {cfg : Cfg} {s : State} (h : Reach cfg s) : ChainB.Reach cfg.chain s.ch := by
  induction h with
  | init => exact ChainB.Reach.init
  | step _ hs ih =>
    rcases step_chain hs with e | ⟨a, cl, hc⟩
    · rw [e]; exact ih
    · exact ChainB.Reach.step ih hc

theorem chain_inv {cfg : Cfg} {s : State} (hN : 0 < cfg.chain.N) (h : Reach cfg s) : ChainB.Inv cfg.chain s.ch :=
  ChainB.inv_reach hN (reach_chain h)

theorem reach_run {cfg : Cfg} (tr : List (Nat × Label)) (s0 s : State) (h0 : Reach cfg s0)
    (h : run cfg s0 tr = some s) : Reach cfg s := by
  induction tr generalizing s0 with
  | nil => simp [run] at h; subst h; exact h0
  | cons x rest ih =>
    obtain ⟨a, l⟩ := x
    simp only [run, Option.bind] at h
    split at h
    · simp at h
    · rename_i s1 hs1; exact ih s1 (Reach.step h0 hs1) h

end Fv.Chan.MpscUB
