import Fv.Chan.SpmcB
import Fv.Lemmas.SpmcBLeftRight
/-! Ownership invariant of `Fv.Chan.SpmcB` (a handle is used by one thread at a time) and the
shape lemmas (`okS`/`okR`) for the continuation helpers. -/
namespace Fv.Chan.SpmcB
open Fv.Chan.LeftRightB (upd upd_apply upd_same)

def isS : PC → Bool
  | .snd _ => true
  | _ => false

def rOf : PC → Option Nat
  | .rcv r _ => some r
  | _ => none

/-- ownership: a handle is used by at most one thread at a time, and exactly by the thread recorded -/
structure InvA (s : State) : Prop where
  sown : ∀ t, s.sOwner = some t ↔ isS (s.pc t) = true
  rown : ∀ t r, s.rOwner r = some t ↔ rOf (s.pc t) = some r
  flag2 : s.flag ≤ 2

/-- shape of the control state a sender step may move to -/
def okS (p : PC) : Prop := (∃ res, p = .ret res) ∨ (∃ q, p = .snd q)
def okR (r : Nat) (p : PC) : Prop := (∃ res, p = .ret res) ∨ (∃ q, p = .rcv r q)

theorem invA_S {s s' : State} {t : Nat} {p : PC} {q : SPC} (hi : InvA s) (ht : s.pc t = .snd q)
    (hpc : s'.pc = upd s.pc t p) (hso : s'.sOwner = if isRet p then none else s.sOwner)
    (hro : s'.rOwner = s.rOwner) (hf : s'.flag ≤ 2) (hp : okS p) : InvA s' := by
  obtain ⟨h1, h2, h3⟩ := hi
  have hown := (h1 t).2 (by rw [ht]; rfl)
  refine ⟨?_, ?_, hf⟩
  · intro u
    rw [hpc, hso]
    by_cases hut : u = t
    · subst hut; simp only [upd_same]
      rcases hp with ⟨res, rfl⟩ | ⟨q', rfl⟩ <;> simp [isRet, isS, hown]
    · simp only [upd_apply, if_neg hut]
      have hu := h1 u
      have hne : s.sOwner ≠ some u := by rw [hown]; intro h; exact hut (Option.some.inj h).symm
      rcases hp with ⟨res, rfl⟩ | ⟨q', rfl⟩ <;> simp only [isRet] <;> simp_all
  · intro u r
    rw [hpc, hro]
    by_cases hut : u = t
    · subst hut; simp only [upd_same]
      have := h2 u r; rw [ht] at this
      rcases hp with ⟨res, rfl⟩ | ⟨q', rfl⟩ <;> simp_all [rOf]
    · simp only [upd_apply, if_neg hut]; exact h2 u r

theorem invA_R {s s' : State} {t r : Nat} {p : PC} {q : RPC} (hi : InvA s) (ht : s.pc t = .rcv r q)
    (hpc : s'.pc = upd s.pc t p) (hso : s'.sOwner = s.sOwner)
    (hro : s'.rOwner = if isRet p then upd s.rOwner r none else s.rOwner) (hf : s'.flag ≤ 2) (hp : okR r p) : InvA s' := by
  obtain ⟨h1, h2, h3⟩ := hi
  have hown := (h2 t r).2 (by rw [ht]; rfl)
  refine ⟨?_, ?_, hf⟩
  · intro u
    rw [hpc, hso]
    by_cases hut : u = t
    · subst hut; simp only [upd_same]
      have := h1 u; rw [ht] at this
      rcases hp with ⟨res, rfl⟩ | ⟨q', rfl⟩ <;> simp_all [isS]
    · simp only [upd_apply, if_neg hut]; exact h1 u
  · intro u r'
    rw [hpc, hro]
    by_cases hut : u = t
    · subst hut; simp only [upd_same]
      rcases hp with ⟨res, rfl⟩ | ⟨q', rfl⟩
      · simp only [isRet, ↓reduceIte, rOf, upd_apply]
        have := h2 u r'; rw [ht] at this; simp only [rOf] at this
        split <;> simp_all <;> omega
      · simp only [isRet, rOf]
        have := h2 u r'; rw [ht] at this; simp only [rOf] at this
        simpa using this
    · simp only [upd_apply, if_neg hut]
      have hu := h2 u r'
      rcases hp with ⟨res, rfl⟩ | ⟨q', rfl⟩
      · simp only [isRet, ↓reduceIte, upd_apply]
        split
        · rename_i e; subst e
          have : s.rOwner r' ≠ some u := by rw [hown]; intro h; exact hut (Option.some.inj h).symm
          simp_all
        · exact hu
      · simpa [isRet] using hu


theorem okS_ret (res : Res) : okS (.ret res) := Or.inl ⟨res, rfl⟩
theorem okS_snd (q : SPC) : okS (.snd q) := Or.inr ⟨q, rfl⟩
theorem okR_ret (r : Nat) (res : Res) : okR r (.ret res) := Or.inl ⟨res, rfl⟩
theorem okR_rcv (r : Nat) (q : RPC) : okR r (.rcv r q) := Or.inr ⟨q, rfl⟩

theorem okS_retryPC (x : SCtx) : okS (retryPC x) := by unfold retryPC; split <;> first | apply okS_ret | apply okS_snd
theorem okS_afterScan (cap k h L m) : okS (afterScan cap k h L m) := by
  unfold afterScan; repeat' split
  all_goals first | apply okS_ret | apply okS_snd
theorem okS_dkCont (d) : okS (dkCont d) := by
  unfold dkCont; split <;> first | apply okS_ret | apply okS_snd | apply okS_retryPC
theorem okS_afterWrite (x k) : okS (afterWrite x k) := by
  unfold afterWrite; repeat' split
  all_goals first | apply okS_ret | apply okS_snd
theorem okS_wakeOr (x k acc) : okS (wakeOr x k acc) := by
  unfold wakeOr; split <;> first | apply okS_afterWrite | apply okS_snd
theorem okS_afterPark (x) : okS (afterPark x) := by unfold afterPark; split <;> apply okS_snd
theorem okS_commitPC (k h i L) : okS (commitPC k h i L) := by
  unfold commitPC; repeat' split
  all_goals apply okS_snd

syntax "okS_tac" : tactic
macro_rules | `(tactic| okS_tac) => `(tactic|
  first | apply okS_ret | apply okS_snd | apply okS_retryPC | apply okS_afterScan | apply okS_dkCont
        | apply okS_afterWrite | apply okS_wakeOr | apply okS_afterPark | apply okS_commitPC)


theorem okR_onEmpty (r x) : okR r (onEmpty r x) := by
  unfold onEmpty; repeat' split
  all_goals first | apply okR_ret | apply okR_rcv
theorem okR_wkDone (r k) : okR r (wkDone k) := by unfold wkDone; split <;> apply okR_ret
theorem okR_afterRPark (r x) : okR r (afterRPark r x) := by unfold afterRPark; split <;> apply okR_rcv

syntax "okR_tac" : tactic
macro_rules | `(tactic| okR_tac) => `(tactic|
  first | apply okR_ret | apply okR_rcv | apply okR_onEmpty | apply okR_wkDone | apply okR_afterRPark)

/-- open a step hypothesis `h : stepX … = some s'` / `some (stepX …) = some s'` -/
syntax "open_step " ident : tactic
macro_rules | `(tactic| open_step $h) => `(tactic| cases $h:ident)

theorem invA_actS {s s' : State} {t : Nat} {p : SPC} (hi : InvA s) (hpc : s.pc t = .snd p)
    (h : actS s t p = some s') : InvA s' := by
  have hf := hi.flag2
  cases p <;> simp only [actS] at h
  case sFlag x => open_step h; unfold stepSFlag; split <;> exact invA_S hi hpc rfl rfl rfl hf (by okS_tac)
  case sHead k => open_step h; exact invA_S hi hpc rfl rfl rfl hf (by okS_tac)
  case sEnter k h0 p =>
    unfold stepSEnter at h
    repeat' split at h
    all_goals (cases h; try exact invA_S hi hpc rfl rfl rfl hf (by okS_tac))
  case sScan k h0 i done todo m =>
    unfold stepSScan at h
    repeat' split at h
    all_goals (cases h; try exact invA_S hi hpc rfl rfl rfl hf (by okS_tac))
  case sHead2 k i L m => open_step h; exact invA_S hi hpc rfl rfl rfl hf (by okS_tac)
  case sExit k h0 i L m =>
    unfold stepSExit at h
    repeat' split at h
    all_goals (cases h; try exact invA_S hi hpc rfl rfl rfl hf (by okS_tac))
  case bHead x k => open_step h; exact invA_S hi hpc rfl rfl rfl hf (by okS_tac)
  case wSeqLd x h0 j k => open_step h; exact invA_S hi hpc rfl rfl rfl hf (by okS_tac)
  case wVal x h0 j k q => open_step h; exact invA_S hi hpc rfl rfl rfl hf (by okS_tac)
  case wSeqSt x h0 j k => open_step h; unfold stepWSeqSt; split <;> exact invA_S hi hpc rfl rfl rfl hf (by okS_tac)
  case wHeadSt x h0 k => open_step h; exact invA_S hi hpc rfl rfl rfl hf (by okS_tac)
  case wLockW x h0 j k acc =>
    unfold stepWLockW at h
    split at h
    · open_step h; exact invA_S hi hpc rfl rfl rfl hf (by okS_tac)
    · cases h
  case wUnlockW x h0 j k acc => open_step h; unfold stepWUnlockW; split <;> exact invA_S hi hpc rfl rfl rfl hf (by okS_tac)
  case wWake x k acc =>
    unfold stepWWake at h
    split at h
    · cases h
    · open_step h; exact invA_S hi hpc rfl rfl rfl hf (by okS_tac)
  case slHead x => open_step h; exact invA_S hi hpc rfl rfl rfl hf (by okS_tac)
  case aStore x => open_step h; exact invA_S hi hpc rfl rfl rfl (by simp [stepAStore]) (by okS_tac)
  case aFence x => open_step h; exact invA_S hi hpc rfl rfl rfl hf (by okS_tac)
  case dCas d =>
    open_step h; unfold stepDCas
    repeat' split
    all_goals first | exact invA_S hi hpc rfl rfl rfl hf (by okS_tac) | exact invA_S hi hpc rfl rfl rfl (by simp) (by okS_tac)
  case dSpin d => open_step h; exact invA_S hi hpc rfl rfl rfl hf (by okS_tac)
  case dLoad x => open_step h; unfold stepDLoad; split <;> exact invA_S hi hpc rfl rfl rfl hf (by okS_tac)
  case dSpin2 x => open_step h; exact invA_S hi hpc rfl rfl rfl hf (by okS_tac)
  case pPark x =>
    unfold stepPPark at h
    split at h
    · open_step h; exact invA_S hi hpc rfl rfl rfl hf (by okS_tac)
    · cases h
  case pHead x => open_step h; exact invA_S hi hpc rfl rfl rfl hf (by okS_tac)
  case pLoad x => open_step h; unfold stepPLoad; repeat' split
                  all_goals exact invA_S hi hpc rfl rfl rfl hf (by okS_tac)
  case pCas x => open_step h; unfold stepPCas; split
                 · exact invA_S hi hpc rfl rfl rfl (by simp) (by okS_tac)
                 · exact invA_S hi hpc rfl rfl rfl hf (by okS_tac)
  case pSpin x => open_step h; exact invA_S hi hpc rfl rfl rfl hf (by okS_tac)
  case cFlag d => open_step h; unfold stepCFlag; split <;> exact invA_S hi hpc rfl rfl rfl hf (by okS_tac)
  case cStore => open_step h; exact invA_S hi hpc rfl rfl rfl hf (by okS_tac)
  case cLock j =>
    unfold stepCLock at h
    split at h
    · open_step h; split <;> exact invA_S hi hpc rfl rfl rfl hf (by okS_tac)
    · cases h
  case cWake j ws =>
    unfold stepCWake at h
    split at h
    · cases h
    · open_step h; split <;> exact invA_S hi hpc rfl rfl rfl hf (by okS_tac)
  case cUnlock j => open_step h; unfold stepCUnlock; split <;> exact invA_S hi hpc rfl rfl rfl hf (by okS_tac)

theorem invA_actR {s s' : State} {t r : Nat} {p : RPC} (hi : InvA s) (hpc : s.pc t = .rcv r p)
    (h : actR s t r p = some s') : InvA s' := by
  have hf := hi.flag2
  cases p <;> simp only [actR] at h
  case rFlag x => cases h; unfold stepRFlag; split <;> exact invA_R hi hpc rfl rfl rfl hf (by okR_tac)
  case rCur x => cases h; unfold stepRCur; split <;> exact invA_R hi hpc rfl rfl rfl hf (by okR_tac)
  case rSeq x c => cases h; unfold stepRSeq; split <;> exact invA_R hi hpc rfl rfl rfl hf (by okR_tac)
  case rVal x c => cases h; exact invA_R hi hpc rfl rfl rfl hf (by okR_tac)
  case rSt x c vs => cases h; exact invA_R hi hpc rfl rfl rfl hf (by okR_tac)
  case rDrop x c => cases h; unfold stepRDrop; split <;> exact invA_R hi hpc rfl rfl rfl hf (by okR_tac)
  case rHead x c => cases h; unfold stepRHead; split <;> exact invA_R hi hpc rfl rfl rfl hf (by okR_tac)
  case bHd x c => cases h; unfold stepBHd; split <;> exact invA_R hi hpc rfl rfl rfl hf (by okR_tac)
  case bDrop x c => cases h; unfold stepBDrop; split <;> exact invA_R hi hpc rfl rfl rfl hf (by okR_tac)
  case bHd2 x c => cases h; unfold stepBHd2; split <;> exact invA_R hi hpc rfl rfl rfl hf (by okR_tac)
  case bVals x c k => cases h; exact invA_R hi hpc rfl rfl rfl hf (by okR_tac)
  case gCur x => cases h; exact invA_R hi hpc rfl rfl rfl hf (by okR_tac)
  case gLock x c =>
    unfold stepGLock at h; split at h
    · cases h; exact invA_R hi hpc rfl rfl rfl hf (by okR_tac)
    · cases h
  case gUnlock x c => cases h; exact invA_R hi hpc rfl rfl rfl hf (by okR_tac)
  case eDrop x => cases h; unfold stepEDrop; split <;> exact invA_R hi hpc rfl rfl rfl hf (by okR_tac)
  case eHead x => cases h; exact invA_R hi hpc rfl rfl rfl hf (by okR_tac)
  case eCur x h0 =>
    cases h; unfold stepECur; repeat' split
    all_goals exact invA_R hi hpc rfl rfl rfl hf (by okR_tac)
  case eLock x c =>
    unfold stepELock at h; split at h
    · cases h; exact invA_R hi hpc rfl rfl rfl hf (by okR_tac)
    · cases h
  case eUnlock x c => cases h; exact invA_R hi hpc rfl rfl rfl hf (by okR_tac)
  case kPark x =>
    unfold stepKPark at h; split at h
    · cases h; exact invA_R hi hpc rfl rfl rfl hf (by okR_tac)
    · cases h
  case kCur x => cases h; exact invA_R hi hpc rfl rfl rfl hf (by okR_tac)
  case wpFence k => cases h; exact invA_R hi hpc rfl rfl rfl hf (by okR_tac)
  case wpLoad k => cases h; unfold stepWpLoad; split <;> exact invA_R hi hpc rfl rfl rfl hf (by okR_tac)
  case wpCas k =>
    cases h; unfold stepWpCas; split
    · exact invA_R hi hpc rfl rfl rfl (by simp) (by okR_tac)
    · exact invA_R hi hpc rfl rfl rfl hf (by okR_tac)
  case wpIdle k th => cases h; unfold stepWpIdle; split <;> exact invA_R hi hpc rfl rfl rfl (by simp) (by okR_tac)
  case wpUnpark k th => cases h; exact invA_R hi hpc rfl rfl rfl hf (by okR_tac)
  case cCur => cases h; exact invA_R hi hpc rfl rfl rfl hf (by okR_tac)
  case mLock k =>
    unfold stepMLock at h; split at h
    · cases h; exact invA_R hi hpc rfl rfl rfl hf (by okR_tac)
    · cases h
  case mMod k p =>
    unfold stepMMod at h
    repeat' split at h
    all_goals (cases h; try exact invA_R hi hpc rfl rfl rfl hf (by okR_tac))
  case mUnlock k => cases h; unfold stepMUnlock; split <;> exact invA_R hi hpc rfl rfl rfl hf (by okR_tac)
  case xFlag d => cases h; unfold stepXFlag; split <;> exact invA_R hi hpc rfl rfl rfl hf (by okR_tac)
  case qDrop => cases h; unfold stepQDrop; split <;> exact invA_R hi hpc rfl rfl rfl hf (by okR_tac)
  case qHead p => cases h; exact invA_R hi hpc rfl rfl rfl hf (by okR_tac)
  case qCur p h0 => cases h; exact invA_R hi hpc rfl rfl rfl hf (by okR_tac)

theorem invA_act {s s' : State} {t : Nat} (hi : InvA s) (h : act s t = some s') : InvA s' := by
  unfold act at h
  split at h
  · cases h
  · cases h
  · rename_i p hpc; exact invA_actS hi hpc h
  · rename_i r p hpc; exact invA_actR hi hpc h

/-- a free thread starts using the sender handle -/
theorem invA_callS {s : State} {t : Nat} {q : SPC} (hi : InvA s) (hfree : isFree (s.pc t) = true)
    (hno : s.sOwner = none) {s' : State} (hpc : s'.pc = upd s.pc t (.snd q)) (hso : s'.sOwner = some t)
    (hro : s'.rOwner = s.rOwner) (hf : s'.flag = s.flag) : InvA s' := by
  obtain ⟨h1, h2, h3⟩ := hi
  refine ⟨?_, ?_, hf ▸ h3⟩
  · intro u; rw [hpc, hso]
    by_cases hut : u = t
    · subst hut; simp [isS]
    · simp only [upd_apply, if_neg hut]
      have := h1 u; rw [hno] at this
      constructor
      · intro h; exact absurd (Option.some.inj h).symm hut
      · intro h; exact absurd (this.2 h) (by simp)
  · intro u r; rw [hpc, hro]
    by_cases hut : u = t
    · subst hut; simp only [upd_same, rOf]
      have := h2 u r
      cases hq : s.pc u <;> simp_all [isFree, rOf]
    · simp only [upd_apply, if_neg hut]; exact h2 u r

theorem invA_callR {s : State} {t r : Nat} {q : RPC} (hi : InvA s) (hfree : isFree (s.pc t) = true)
    (hno : s.rOwner r = none) {s' : State} (hpc : s'.pc = upd s.pc t (.rcv r q)) (hso : s'.sOwner = s.sOwner)
    (hro : s'.rOwner = upd s.rOwner r (some t)) (hf : s'.flag = s.flag) : InvA s' := by
  obtain ⟨h1, h2, h3⟩ := hi
  refine ⟨?_, ?_, hf ▸ h3⟩
  · intro u; rw [hpc, hso]
    by_cases hut : u = t
    · subst hut; simp only [upd_same, isS]
      have := h1 u
      cases hq : s.pc u <;> simp_all [isFree, isS]
    · simp only [upd_apply, if_neg hut]; exact h1 u
  · intro u r'; rw [hpc, hro]
    by_cases hut : u = t
    · subst hut; simp only [upd_same, rOf, upd_apply]
      by_cases hr : r' = r
      · subst hr; simp
      · simp only [if_neg hr]
        have := h2 u r'
        have hn : rOf (s.pc u) = none := by cases hq : s.pc u <;> simp_all [isFree, rOf]
        rw [hn] at this
        constructor
        · intro h; exact absurd (this.1 h) (by simp)
        · intro h; exact absurd (Option.some.inj h).symm hr
    · simp only [upd_apply, if_neg hut]
      by_cases hr : r' = r
      · subst hr; simp only [if_true]
        have := h2 u r'; rw [hno] at this
        constructor
        · intro h; exact absurd (Option.some.inj h).symm hut
        · intro h; exact absurd (this.2 h) (by simp)
      · simp only [if_neg hr]; exact h2 u r'

/-- a free thread performs a zero-action operation (or the environment does) -/
theorem invA_free {s : State} {t : Nat} {res : Res} (hi : InvA s) (hfree : isFree (s.pc t) = true)
    {s' : State} (hpc : s'.pc = upd s.pc t (.ret res)) (hso : s'.sOwner = s.sOwner)
    (hro : s'.rOwner = s.rOwner) (hf : s'.flag = s.flag) : InvA s' := by
  obtain ⟨h1, h2, h3⟩ := hi
  refine ⟨?_, ?_, hf ▸ h3⟩
  · intro u; rw [hpc, hso]
    by_cases hut : u = t
    · subst hut; simp only [upd_same, isS]
      have := h1 u
      cases hq : s.pc u <;> simp_all [isFree, isS]
    · simp only [upd_apply, if_neg hut]; exact h1 u
  · intro u r; rw [hpc, hro]
    by_cases hut : u = t
    · subst hut; simp only [upd_same, rOf]
      have := h2 u r
      cases hq : s.pc u <;> simp_all [isFree, rOf]
    · simp only [upd_apply, if_neg hut]; exact h2 u r

theorem invA_call {s s' : State} {t : Nat} {op : Op} (hi : InvA s) (h : stepCall s t op = some s') : InvA s' := by
  unfold stepCall at h
  split at h
  · rename_i hc
    simp only [Bool.and_eq_true] at hc
    obtain ⟨hfree, _⟩ := hc
    cases op <;> simp only [] at h
    all_goals (repeat' split at h)
    all_goals (cases h)
    all_goals first
      | exact invA_callS hi hfree (by simp_all [sFreeH]) rfl rfl rfl rfl
      | exact invA_callR hi hfree (by simp_all [rFreeH]) rfl rfl rfl rfl
      | exact invA_free hi hfree rfl rfl rfl rfl
  · cases h

theorem invA_spurious {s s' : State} {t : Nat} (hi : InvA s) (h : stepSpurious s t = some s') : InvA s' := by
  unfold stepSpurious at h
  split at h
  · rename_i x hpc; cases h; exact invA_S hi hpc rfl rfl rfl hi.flag2 (by okS_tac)
  · rename_i r x hpc; cases h; exact invA_R hi hpc rfl rfl rfl hi.flag2 (by okR_tac)
  · cases h

theorem invA_teardown {s s' : State} (hi : InvA s) (h : stepTeardown s = some s') : InvA s' := by
  unfold stepTeardown at h
  split at h
  · cases h; exact ⟨hi.1, hi.2, hi.3⟩
  · cases h

theorem invA_init (cap : Nat) : InvA (init cap) := by
  constructor <;> simp [init, isS, rOf]

theorem invA_step {s s' : State} {t : Nat} {l : Label} (hi : InvA s) (h : step s t l = some s') : InvA s' := by
  cases l <;> simp only [step] at h
  · exact invA_call hi h
  · exact invA_act hi h
  · exact invA_spurious hi h
  · exact invA_teardown hi h

theorem invA_reach {cap : Nat} {s : State} (h : Reach cap s) : InvA s := by
  induction h with
  | init => exact invA_init cap
  | step _ hs ih => exact invA_step ih hs

end Fv.Chan.SpmcB
