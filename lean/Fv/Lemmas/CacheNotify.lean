import Fv.Lemmas.CacheAccounting
/-
Eviction-listener bookkeeping of the cache model (C16).

`nview s` is the part of the state the listener sees (`sent`, `delivered`, the notifier queue).
`Eff cfg Q s s' rs ns` says what a maintenance / removal function did between `s` and `s'`:
it logged exactly the removals `rs` (each one the binding `lookup s.map` showed, none of them
still bound in `s'`, no key twice), it handed exactly the notifications `ns` to the notifier, and
otherwise only took bindings out of the map.  Every function of `Maint.lean` and `removeKey`
satisfy `Eff … rs rs`: one notification per removal, same key / value id / reason, in order.
-/
namespace Fv.Cache
variable {P : Type}

/-! ### the listener's view -/
structure NView where
  sent : List Notif
  delivered : List Notif
  lis : Listener

def nview (s : State P) : NView := ⟨s.sent, s.delivered, s.lis⟩

/-- `State.notify` on the view -/
def NView.notify (cfg : Cfg) (v : NView) (n : Notif) : NView :=
  if !cfg.hasListener then v
  else
    let v := { v with sent := v.sent ++ [n] }
    if v.lis.gateClosed then
      match v.lis.inFlight with
      | none => { v with lis := { v.lis with inFlight := some n } }
      | some _ =>
        if v.lis.queue.length < cfg.queueCap then { v with lis := { v.lis with queue := v.lis.queue ++ [n] } }
        else v
    else { v with delivered := v.delivered ++ [n] }

def NView.notifyAll (cfg : Cfg) (v : NView) (ns : List Notif) : NView := ns.foldl (NView.notify cfg) v

theorem nview_notify (cfg : Cfg) (s : State P) (n : Notif) : nview (s.notify cfg n) = (nview s).notify cfg n := by
  unfold State.notify NView.notify nview
  dsimp only
  cases cfg.hasListener <;> cases s.lis.gateClosed <;> cases s.lis.inFlight <;> simp <;> split <;> rfl

theorem NView.notifyAll_nil (cfg : Cfg) (v : NView) : NView.notifyAll cfg v [] = v := rfl
theorem NView.notifyAll_cons (cfg : Cfg) (v : NView) (n : Notif) (ns : List Notif) :
    NView.notifyAll cfg v (n :: ns) = NView.notifyAll cfg (v.notify cfg n) ns := rfl
theorem NView.notifyAll_append (cfg : Cfg) (v : NView) (a b : List Notif) :
    NView.notifyAll cfg v (a ++ b) = NView.notifyAll cfg (NView.notifyAll cfg v a) b := by
  unfold NView.notifyAll; rw [List.foldl_append]

theorem nview_notifyAll (cfg : Cfg) : ∀ (ns : List Notif) (s : State P),
    nview (State.notifyAll cfg s ns) = (nview s).notifyAll cfg ns := by
  intro ns
  induction ns with
  | nil => intro s; rfl
  | cons n rest ih =>
    intro s
    show nview (State.notifyAll cfg (s.notify cfg n) rest) = _
    rw [ih, nview_notify]; rfl

/-! ### log-quiet steps -/
/-- nothing logged, nothing notified -/
def LQ (s' s : State P) : Prop := s'.removed = s.removed ∧ nview s' = nview s

theorem LQ.refl (s : State P) : LQ s s := ⟨rfl, rfl⟩
theorem LQ.trans {a b c : State P} (h1 : LQ a b) (h2 : LQ b c) : LQ a c := ⟨h1.1.trans h2.1, h1.2.trans h2.2⟩

theorem foldl_lq {α} (f : State P → α → State P) (hf : ∀ s a, LQ (f s a) s) :
    ∀ (l : List α) (s : State P), LQ (l.foldl f s) s := by
  intro l
  induction l with
  | nil => intro s; exact LQ.refl s
  | cons a rest ih => intro s; exact (ih (f s a)).trans (hf s a)

theorem lq_polAdmit (ops : PolicyOps P) (s : State P) (i k c : Nat) : LQ (s.polAdmit ops i k c).1 s := by
  unfold State.polAdmit; split <;> exact ⟨rfl, rfl⟩
theorem lq_polEvict (ops : PolicyOps P) (s : State P) (i n : Nat) (h : List Nat) : LQ (s.polEvict ops i n h).1 s := by
  unfold State.polEvict; dsimp only; (repeat' split) <;> exact ⟨rfl, rfl⟩
theorem lq_applyAccesses (ops : PolicyOps P) (i : Nat) :
    ∀ (l : List (Nat × Nat)) (s : State P), LQ (State.applyAccesses ops i s l) s := by
  intro l
  induction l with
  | nil => intro s; exact LQ.refl s
  | cons a rest ih =>
    intro s
    obtain ⟨k, c⟩ := a
    exact (ih _).trans ⟨rfl, rfl⟩
theorem applyAccesses_map (ops : PolicyOps P) (i : Nat) (l : List (Nat × Nat)) (s : State P) :
    (State.applyAccesses ops i s l).map = s.map := (same_applyAccesses ops i l s).1

/-! ### removal effects -/
/-- `m'` is `m` with some keys taken out -/
def MapRes (m' m : List (Nat × Entry)) : Prop := ∀ k, lookup m' k = none ∨ lookup m' k = lookup m k

theorem MapRes.refl (m : List (Nat × Entry)) : MapRes m m := fun _ => Or.inr rfl
theorem MapRes.trans {a b c : List (Nat × Entry)} (h1 : MapRes a b) (h2 : MapRes b c) : MapRes a c := by
  intro k
  rcases h1 k with h | h
  · exact Or.inl h
  · rcases h2 k with g | g
    · exact Or.inl (h.trans g)
    · exact Or.inr (h.trans g)
theorem MapRes.erase (m : List (Nat × Entry)) (k : Nat) : MapRes (erase m k) m := by
  intro k'
  rw [lookup_erase]
  split
  · exact Or.inl rfl
  · exact Or.inr rfl
theorem MapRes.of_eq {m' m : List (Nat × Entry)} (h : m' = m) : MapRes m' m := h ▸ MapRes.refl m

structure Eff (cfg : Cfg) (Q : Notif → Entry → Prop) (s s' : State P) (rs ns : List Notif) : Prop where
  removed : s'.removed = s.removed ++ rs
  view : nview s' = (nview s).notifyAll cfg ns
  res : MapRes s'.map s.map
  was : ∀ n, n ∈ rs → ∃ e, lookup s.map n.key = some e ∧ e.vid = n.vid ∧ Q n e
  gone : ∀ n, n ∈ rs → lookup s'.map n.key = none
  nodup : (rs.map (·.key)).Nodup

/-- the usual case: every removal is notified, in order -/
def EffE (cfg : Cfg) (Q : Notif → Entry → Prop) (s s' : State P) : Prop := ∃ rs, Eff cfg Q s s' rs rs

theorem Eff.of_quiet {cfg : Cfg} {Q : Notif → Entry → Prop} {s s' : State P} (hm : s'.map = s.map) (h : LQ s' s) :
    Eff cfg Q s s' [] [] :=
  { removed := by rw [h.1, List.append_nil]
    view := h.2
    res := MapRes.of_eq hm
    was := fun _ hn => by cases hn
    gone := fun _ hn => by cases hn
    nodup := List.nodup_nil }

theorem Eff.refl (cfg : Cfg) (Q : Notif → Entry → Prop) (s : State P) : Eff cfg Q s s [] [] :=
  Eff.of_quiet rfl (LQ.refl s)

theorem Eff.trans {cfg : Cfg} {Q : Notif → Entry → Prop} {s s' s'' : State P} {rs1 ns1 rs2 ns2 : List Notif}
    (h1 : Eff cfg Q s s' rs1 ns1) (h2 : Eff cfg Q s' s'' rs2 ns2) : Eff cfg Q s s'' (rs1 ++ rs2) (ns1 ++ ns2) := by
  refine ⟨?_, ?_, h2.res.trans h1.res, ?_, ?_, ?_⟩
  · rw [h2.removed, h1.removed, List.append_assoc]
  · rw [h2.view, h1.view, NView.notifyAll_append]
  · intro n hn
    rcases List.mem_append.1 hn with hn | hn
    · exact h1.was n hn
    · obtain ⟨e, he, hv, hq⟩ := h2.was n hn
      rcases h1.res n.key with h | h
      · rw [h] at he; cases he
      · exact ⟨e, h ▸ he, hv, hq⟩
  · intro n hn
    rcases List.mem_append.1 hn with hn | hn
    · have := h1.gone n hn
      rcases h2.res n.key with h | h
      · exact h
      · exact h.trans this
    · exact h2.gone n hn
  · rw [List.map_append]
    refine List.nodup_append.2 ⟨h1.nodup, h2.nodup, ?_⟩
    intro a ha b hb hab
    obtain ⟨n1, hn1, rfl⟩ := List.mem_map.1 ha
    obtain ⟨n2, hn2, rfl⟩ := List.mem_map.1 hb
    have g1 := h1.gone n1 hn1
    obtain ⟨e, he, _⟩ := h2.was n2 hn2
    rw [← hab, g1] at he
    cases he

theorem Eff.mono {cfg : Cfg} {Q Q' : Notif → Entry → Prop} {s s' : State P} {rs ns : List Notif}
    (h : Eff cfg Q s s' rs ns) (hq : ∀ n e, Q n e → Q' n e) : Eff cfg Q' s s' rs ns :=
  { removed := h.removed, view := h.view, res := h.res, gone := h.gone, nodup := h.nodup
    was := fun n hn => by
      obtain ⟨e, he, hv, hqq⟩ := h.was n hn
      exact ⟨e, he, hv, hq n e hqq⟩ }

theorem EffE.refl (cfg : Cfg) (Q : Notif → Entry → Prop) (s : State P) : EffE cfg Q s s := ⟨[], Eff.refl cfg Q s⟩
theorem EffE.trans {cfg : Cfg} {Q : Notif → Entry → Prop} {s s' s'' : State P}
    (h1 : EffE cfg Q s s') (h2 : EffE cfg Q s' s'') : EffE cfg Q s s'' := by
  obtain ⟨r1, e1⟩ := h1
  obtain ⟨r2, e2⟩ := h2
  exact ⟨r1 ++ r2, e1.trans e2⟩
theorem EffE.mono {cfg : Cfg} {Q Q' : Notif → Entry → Prop} {s s' : State P}
    (h : EffE cfg Q s s') (hq : ∀ n e, Q n e → Q' n e) : EffE cfg Q' s s' := by
  obtain ⟨r, e⟩ := h
  exact ⟨r, e.mono hq⟩
theorem EffE.of_quiet {cfg : Cfg} {Q : Notif → Entry → Prop} {s s' : State P} (hm : s'.map = s.map) (h : LQ s' s) :
    EffE cfg Q s s' := ⟨[], Eff.of_quiet hm h⟩

theorem EffE.foldl {α} {cfg : Cfg} {Q : Notif → Entry → Prop} (f : State P → α → State P) :
    ∀ (l : List α), (∀ s a, a ∈ l → EffE cfg Q s (f s a)) → ∀ (s : State P), EffE cfg Q s (l.foldl f s) := by
  intro l
  induction l with
  | nil => intro _ s; exact EffE.refl cfg Q s
  | cons a rest ih =>
    intro hf s
    exact (hf s a (List.mem_cons_self ..)).trans
      (ih (fun s b hb => hf s b (List.mem_cons_of_mem _ hb)) (f s a))

/-- one bound key leaves the map and is logged; `notified` says whether the notifier was told now -/
theorem Eff.leaf {cfg : Cfg} {Q : Notif → Entry → Prop} {s s' : State P} {k : Nat} {e : Entry} {r : Reason}
    (hl : lookup s.map k = some e) (hm : s'.map = erase s.map k)
    (hr : s'.removed = s.removed ++ [{ key := k, vid := e.vid, reason := r }])
    (hv : nview s' = (nview s).notify cfg { key := k, vid := e.vid, reason := r })
    (hq : Q { key := k, vid := e.vid, reason := r } e) :
    Eff cfg Q s s' [{ key := k, vid := e.vid, reason := r }] [{ key := k, vid := e.vid, reason := r }] :=
  { removed := hr
    view := hv
    res := hm ▸ MapRes.erase s.map k
    was := fun n hn => by
      have : n = { key := k, vid := e.vid, reason := r } := by simpa using hn
      subst this
      exact ⟨e, hl, rfl, hq⟩
    gone := fun n hn => by
      have : n = { key := k, vid := e.vid, reason := r } := by simpa using hn
      subst this
      rw [hm, lookup_erase]; simp
    nodup := by simp }

theorem Eff.leaf_silent {cfg : Cfg} {Q : Notif → Entry → Prop} {s s' : State P} {k : Nat} {e : Entry} {r : Reason}
    (hl : lookup s.map k = some e) (hm : s'.map = erase s.map k)
    (hr : s'.removed = s.removed ++ [{ key := k, vid := e.vid, reason := r }])
    (hv : nview s' = nview s)
    (hq : Q { key := k, vid := e.vid, reason := r } e) :
    Eff cfg Q s s' [{ key := k, vid := e.vid, reason := r }] [] :=
  { removed := hr
    view := hv
    res := hm ▸ MapRes.erase s.map k
    was := fun n hn => by
      have : n = { key := k, vid := e.vid, reason := r } := by simpa using hn
      subst this
      exact ⟨e, hl, rfl, hq⟩
    gone := fun n hn => by
      have : n = { key := k, vid := e.vid, reason := r } := by simpa using hn
      subst this
      rw [hm, lookup_erase]; simp
    nodup := by simp }

theorem notifyAll_removed (cfg : Cfg) (ns : List Notif) (s : State P) :
    (State.notifyAll cfg s ns).removed = s.removed := by
  induction ns generalizing s with
  | nil => rfl
  | cons n rest ih =>
    show (State.notifyAll cfg (s.notify cfg n) rest).removed = _
    rw [ih]
    unfold State.notify; dsimp only; (repeat' split) <;> rfl

theorem Eff.notifyAll (cfg : Cfg) (Q : Notif → Entry → Prop) (s : State P) (ns : List Notif) :
    Eff cfg Q s (State.notifyAll cfg s ns) [] ns :=
  { removed := by rw [notifyAll_removed, List.append_nil]
    view := nview_notifyAll cfg ns s
    res := MapRes.of_eq (same_notifyAll cfg ns s).1
    was := fun _ hn => by cases hn
    gone := fun _ hn => by cases hn
    nodup := List.nodup_nil }

/-! ### admission-driven eviction -/
def QCap (n : Notif) (_ : Entry) : Prop := n.reason = .capacity

theorem evictVictim_eff (cfg : Cfg) (ops : PolicyOps P) (s : State P) (v : Nat) :
    Eff cfg QCap s (s.evictVictim cfg ops v).1 (s.evictVictim cfg ops v).2.2.toList [] := by
  unfold State.evictVictim
  split
  · next e he => exact Eff.leaf_silent he rfl rfl rfl rfl
  · exact Eff.refl cfg QCap s

theorem evictVictims_eff (cfg : Cfg) (ops : PolicyOps P) :
    ∀ (vs : List Nat) (s : State P) (rel : Nat) (ns : List Notif),
      ∃ rs, Eff cfg QCap s (State.evictVictims cfg ops s vs rel ns).1 rs [] ∧
        (State.evictVictims cfg ops s vs rel ns).2.2 = ns ++ rs := by
  intro vs
  induction vs with
  | nil => intro s rel ns; exact ⟨[], Eff.refl cfg QCap s, (List.append_nil _).symm⟩
  | cons v rest ih =>
    intro s rel ns
    have hv := evictVictim_eff cfg ops s v
    unfold State.evictVictims
    split
    · next s' c n heq =>
      rw [heq] at hv
      obtain ⟨rs, h1, h2⟩ := ih s' (rel + c) (ns ++ [n])
      refine ⟨[n] ++ rs, hv.trans h1, ?_⟩
      rw [h2, List.append_assoc]
    · next s' c heq =>
      rw [heq] at hv
      obtain ⟨rs, h1, h2⟩ := ih s' (rel + c) ns
      exact ⟨[] ++ rs, hv.trans h1, by rw [h2]; rfl⟩

theorem applyWrite_eff (cfg : Cfg) (ops : PolicyOps P) (s : State P) (i : Nat) (w : Nat × Nat) :
    EffE cfg QCap s (s.applyWrite cfg ops i w) := by
  have ha : EffE cfg QCap s (s.polAdmit ops i w.1 w.2).1 :=
    EffE.of_quiet (same_polAdmit ..).1 (lq_polAdmit ..)
  unfold State.applyWrite
  generalize s.polAdmit ops i w.1 w.2 = r at ha
  obtain ⟨s1, d⟩ := r
  cases d with
  | admit => exact ha
  | reject => exact ha
  | admitAndEvict vs =>
    simp only
    obtain ⟨rs, h1, h2⟩ := evictVictims_eff cfg ops vs s1 0 []
    generalize State.evictVictims cfg ops s1 vs 0 [] = r at h1 h2
    obtain ⟨s2, rel, ns⟩ := r
    simp only [List.nil_append] at h2
    subst h2
    have h3 : Eff cfg QCap s2 (s2.subCost rel) [] [] := Eff.of_quiet rfl ⟨rfl, rfl⟩
    have h4 := (h1.trans h3).trans (Eff.notifyAll cfg QCap (s2.subCost rel) ns)
    simp only [List.append_nil, List.nil_append] at h4
    exact ha.trans ⟨ns, h4⟩

theorem applyWrites_eff (cfg : Cfg) (ops : PolicyOps P) (i : Nat) :
    ∀ (ws : List (Nat × Nat)) (s : State P), EffE cfg QCap s (State.applyWrites cfg ops i s ws) := by
  intro ws
  induction ws with
  | nil => intro s; exact EffE.refl cfg QCap s
  | cons w rest ih => intro s; exact (applyWrite_eff cfg ops s i w).trans (ih _)

theorem performShard_eff (cfg : Cfg) (ops : PolicyOps P) (o : Oracle) (s : State P) (i limit : Nat) :
    EffE cfg QCap s (s.performShard cfg ops o i limit) := by
  unfold State.performShard
  split
  · exact EffE.refl cfg QCap s
  · next a _ =>
    dsimp only
    refine EffE.trans ?_ (EffE.of_quiet (applyAccesses_map ..) (lq_applyAccesses ..))
    refine EffE.trans ?_ (applyWrites_eff cfg ops i _ _)
    refine EffE.trans ?_ (EffE.of_quiet (applyAccesses_map ..) (lq_applyAccesses ..))
    exact EffE.of_quiet rfl ⟨rfl, rfl⟩

/-! ### expiry cleanup -/
def QExp (n : Notif) (_ : Entry) : Prop := n.reason = .expired

theorem notify_removed (cfg : Cfg) (s : State P) (n : Notif) : (s.notify cfg n).removed = s.removed := by
  unfold State.notify; dsimp only; (repeat' split) <;> rfl

theorem ttlRemove_eff (cfg : Cfg) (ops : PolicyOps P) (i : Nat) (s : State P) (k : Nat) :
    EffE cfg (fun n e => QExp n e ∧ n.key = k) s (State.ttlRemove cfg ops i s k) := by
  unfold State.ttlRemove
  split
  · next e he =>
    refine ⟨_, Eff.leaf he ?_ ?_ ?_ ⟨rfl, rfl⟩⟩
    · simp only [logRemoved_map, notify_map, subCost_map, polRemove_map]
    · show (State.notify cfg _ _).removed ++ _ = _
      rw [notify_removed]; rfl
    · exact nview_notify cfg _ _
  · exact EffE.refl _ _ s

theorem ttiRemove_eff (cfg : Cfg) (ops : PolicyOps P) (i : Nat) (s : State P) (k : Nat) :
    EffE cfg (fun n e => QExp n e ∧ n.key = k) s (State.ttiRemove cfg ops i s k) := by
  unfold State.ttiRemove
  split
  · next e he =>
    refine ⟨_, Eff.leaf he ?_ ?_ ?_ ⟨rfl, rfl⟩⟩
    · exact (notify_map cfg _ _).trans rfl
    · exact (notify_removed cfg _ _).trans rfl
    · exact nview_notify cfg _ _
  · exact EffE.refl _ _ s

theorem cleanupTtl_eff (cfg : Cfg) (ops : PolicyOps P) (o : Oracle) (s : State P) (i : Nat) :
    EffE cfg QExp s (s.cleanupTtl cfg ops o i) := by
  unfold State.cleanupTtl
  split
  · exact EffE.refl _ _ s
  · next w _ =>
    have h0 : EffE cfg QExp s (s.modAux i (fun a => { a with wheel := some w.advance.1 })) :=
      EffE.of_quiet rfl ⟨rfl, rfl⟩
    refine h0.trans ?_
    exact EffE.foldl _ _ (fun s k _ => (ttlRemove_eff cfg ops i s k).mono (fun _ _ h => h.1)) _

/-- `cleanup_tti_for_shard` with the set of keys it may remove made explicit -/
theorem cleanupTti_eff_mem (cfg : Cfg) (ops : PolicyOps P) (o : Oracle) (s : State P) (i : Nat) :
    EffE cfg (fun n e => QExp n e ∧ e.isExpired s.now cfg.tti = true) s (s.cleanupTti cfg ops o i) := by
  unfold State.cleanupTti
  split
  · exact EffE.refl _ _ s
  · next d hd =>
    dsimp only
    generalize hvs : (List.filter (fun k => match lookup s.map k with
        | some e => e.isExpired s.now cfg.tti
        | none => false) (List.take cfg.sampleSize (s.shardKeys cfg o.ord i))) = victims
    have hmem : ∀ k, k ∈ orderBy o.remHint victims → k ∈ victims := by
      intro k hk
      unfold orderBy at hk
      rcases List.mem_append.1 hk with h | h
      · have := List.mem_eraseDups.1 h
        have := (List.mem_filter.1 this).2
        simpa using this
      · exact (List.mem_filter.1 h).1
    have h1 : EffE cfg (fun n e => QExp n e ∧ n.key ∈ victims) s
        ((orderBy o.remHint victims).foldl (State.ttiRemove cfg ops i) s) :=
      EffE.foldl _ _ (fun s k hk => (ttiRemove_eff cfg ops i s k).mono
        (fun n _ h => ⟨h.1, h.2 ▸ hmem k hk⟩)) s
    obtain ⟨rs, h1⟩ := h1
    refine ⟨rs, { removed := h1.removed, view := h1.view, res := h1.res, gone := h1.gone, nodup := h1.nodup, was := ?_ }⟩
    intro n hn
    obtain ⟨e, he, hv, hq, hk⟩ := h1.was n hn
    refine ⟨e, he, hv, hq, ?_⟩
    rw [← hvs] at hk
    have := (List.mem_filter.1 hk).2
    rw [he] at this
    exact this

theorem cleanupTti_eff (cfg : Cfg) (ops : PolicyOps P) (o : Oracle) (s : State P) (i : Nat) :
    EffE cfg QExp s (s.cleanupTti cfg ops o i) :=
  (cleanupTti_eff_mem cfg ops o s i).mono (fun _ _ h => h.1)

/-! ### capacity pass -/
theorem capRemove_eff (cfg : Cfg) (i : Nat) (s : State P) (k : Nat) :
    EffE cfg QCap s (State.capRemove cfg i s k) := by
  unfold State.capRemove
  split
  · split
    · next e he =>
      refine ⟨_, Eff.leaf he ?_ ?_ ?_ rfl⟩
      · exact (notify_map cfg _ _).trans rfl
      · exact (notify_removed cfg _ _).trans rfl
      · exact nview_notify cfg _ _
    · exact EffE.refl _ _ s
  · exact EffE.refl _ _ s

theorem cleanupCapacity_eff (cfg : Cfg) (ops : PolicyOps P) (o : Oracle) (s : State P) (i : Nat) :
    EffE cfg QCap s (s.cleanupCapacity cfg ops o i) := by
  unfold State.cleanupCapacity
  simp only
  split
  · exact EffE.refl _ _ s
  · have he : EffE cfg QCap s (s.polEvict ops i (s.met.currentCost - cfg.capacity) (o.evictHint.getD i [])).1 :=
      EffE.of_quiet (same_polEvict ..).1 (lq_polEvict ..)
    generalize s.polEvict ops i (s.met.currentCost - cfg.capacity) (o.evictHint.getD i []) = r at he
    obtain ⟨s1, victims, released⟩ := r
    simp only
    split
    · exact he
    · refine he.trans ?_
      refine EffE.trans (s' := victims.foldl (State.capRemove cfg i) s1) ?_ (EffE.of_quiet rfl ⟨rfl, rfl⟩)
      exact EffE.foldl _ _ (fun s k _ => capRemove_eff cfg i s k) s1

/-! ### maintenance entry points -/
def QMaint (n : Notif) (_ : Entry) : Prop := n.reason = .capacity ∨ n.reason = .expired

theorem runMaintenance_eff (cfg : Cfg) (ops : PolicyOps P) (o : Oracle) (s : State P) :
    EffE cfg QMaint s (s.runMaintenance cfg ops o) := by
  unfold State.runMaintenance
  refine EffE.foldl _ _ (fun s i _ => ?_) s
  have h1 := (performShard_eff cfg ops o s i cfg.drainLimit).mono (Q' := QMaint) (fun _ _ h => Or.inl h)
  have h2 := (cleanupTtl_eff cfg ops o (s.performShard cfg ops o i cfg.drainLimit) i).mono (Q' := QMaint) (fun _ _ h => Or.inr h)
  have h3 := (cleanupTti_eff cfg ops o ((s.performShard cfg ops o i cfg.drainLimit).cleanupTtl cfg ops o i) i).mono
    (Q' := QMaint) (fun _ _ h => Or.inr h)
  have h4 := (cleanupCapacity_eff cfg ops o
    (((s.performShard cfg ops o i cfg.drainLimit).cleanupTtl cfg ops o i).cleanupTti cfg ops o i) i).mono
    (Q' := QMaint) (fun _ _ h => Or.inl h)
  exact ((h1.trans h2).trans h3).trans h4

theorem flush_eff (cfg : Cfg) (ops : PolicyOps P) (o : Oracle) (s : State P) : EffE cfg QCap s (s.flush cfg ops o) := by
  unfold State.flush
  split
  · exact EffE.foldl _ _ (fun s i _ => performShard_eff cfg ops o s i U64) s
  · exact EffE.refl _ _ s

theorem opportunistic_eff (cfg : Cfg) (ops : PolicyOps P) (o : Oracle) (s : State P) (k : Nat) :
    EffE cfg QCap s (s.opportunistic cfg ops o k) := by
  unfold State.opportunistic
  split
  · exact performShard_eff ..
  · exact EffE.refl _ _ s

/-! ### explicit invalidation -/
def QInv (n : Notif) (_ : Entry) : Prop := n.reason = .invalidated

theorem removeKey_eff (cfg : Cfg) (ops : PolicyOps P) (s : State P) (k : Nat) :
    EffE cfg (fun n e => QInv n e ∧ n.key = k) s (s.removeKey cfg ops k).1 := by
  unfold State.removeKey
  split
  · next e he =>
    refine ⟨_, Eff.leaf he ?_ ?_ ?_ ⟨rfl, rfl⟩⟩
    · exact (notify_map cfg _ _).trans rfl
    · exact (notify_removed cfg _ _).trans rfl
    · exact nview_notify cfg _ _
  · exact EffE.refl _ _ s

theorem multiRemoveLoop_eff (cfg : Cfg) (ops : PolicyOps P) :
    ∀ (ks : List Nat) (s : State P) (acc : List (Nat × Nat)),
      EffE cfg (fun n e => QInv n e ∧ n.key ∈ ks) s (multiRemoveLoop cfg ops s ks acc).1 := by
  intro ks
  induction ks with
  | nil => intro s acc; exact EffE.refl _ _ s
  | cons k rest ih =>
    intro s acc
    have hk := (removeKey_eff cfg ops s k).mono (Q' := fun n e => QInv n e ∧ n.key ∈ k :: rest)
      (fun n _ h => ⟨h.1, h.2 ▸ List.mem_cons_self ..⟩)
    unfold multiRemoveLoop
    split
    · next s' v heq =>
      rw [heq] at hk
      exact hk.trans ((ih s' _).mono (fun n _ h => ⟨h.1, List.mem_cons_of_mem _ h.2⟩))
    · next s' heq =>
      rw [heq] at hk
      exact hk.trans ((ih s' _).mono (fun n _ h => ⟨h.1, List.mem_cons_of_mem _ h.2⟩))


/-! ### what the notifier does with a batch of notifications -/
def Listener.outstanding (l : Listener) : List Notif := l.inFlight.toList ++ l.queue
/-- the notifier thread takes from the queue whenever it holds nothing -/
def LisWF (l : Listener) : Prop := l.inFlight = none → l.queue = []

theorem NView.notify_nolistener (cfg : Cfg) (v : NView) (n : Notif) (h : cfg.hasListener = false) :
    v.notify cfg n = v := by
  unfold NView.notify; simp [h]

theorem NView.notify_sent (cfg : Cfg) (v : NView) (n : Notif) (h : cfg.hasListener = true) :
    (v.notify cfg n).sent = v.sent ++ [n] := by
  unfold NView.notify
  simp only [h, Bool.not_true, Bool.false_eq_true, if_false]
  (repeat' split) <;> rfl

theorem NView.notify_open (cfg : Cfg) (v : NView) (n : Notif) (h : cfg.hasListener = true)
    (hg : v.lis.gateClosed = false) :
    (v.notify cfg n).delivered = v.delivered ++ [n] ∧ (v.notify cfg n).lis = v.lis := by
  unfold NView.notify
  simp only [h, Bool.not_true, Bool.false_eq_true, if_false]
  rw [if_neg (by simp [hg])]
  exact ⟨rfl, rfl⟩

theorem NView.notify_queue (cfg : Cfg) (v : NView) (n : Notif) (hq : v.lis.queue.length ≤ cfg.queueCap) :
    (v.notify cfg n).lis.queue.length ≤ cfg.queueCap := by
  unfold NView.notify
  dsimp only
  split
  · exact hq
  · split
    · split
      · exact hq
      · split
        · next hlt => simp only [List.length_append, List.length_singleton]; omega
        · exact hq
    · exact hq

theorem NView.notify_gate (cfg : Cfg) (v : NView) (n : Notif) :
    (v.notify cfg n).lis.gateClosed = v.lis.gateClosed := by
  unfold NView.notify
  dsimp only
  (repeat' split) <;> rfl

theorem NView.notify_closed (cfg : Cfg) (v : NView) (n : Notif) (h : cfg.hasListener = true)
    (hg : v.lis.gateClosed = true) (hw : LisWF v.lis) (hlen : v.lis.outstanding.length ≤ cfg.queueCap) :
    (v.notify cfg n).lis.outstanding = v.lis.outstanding ++ [n] ∧ LisWF (v.notify cfg n).lis ∧
      (v.notify cfg n).delivered = v.delivered := by
  unfold NView.notify
  simp only [h, Bool.not_true, Bool.false_eq_true, if_false]
  rw [if_pos hg]
  unfold LisWF Listener.outstanding at *
  cases hin : v.lis.inFlight with
  | none =>
    have hq := hw hin
    simp [hq]
  | some m =>
    rw [hin] at hlen
    simp only [Option.toList_some, List.length_append, List.length_cons, List.length_nil] at hlen
    simp only
    rw [if_pos (by omega)]
    simp

theorem NView.notify_liswf (cfg : Cfg) (v : NView) (n : Notif) (hw : LisWF v.lis) : LisWF (v.notify cfg n).lis := by
  unfold NView.notify
  dsimp only
  split
  · exact hw
  · split
    · split
      · intro h; cases h
      · next m hm =>
        split
        · intro h; rw [hm] at h; cases h
        · exact hw
    · exact hw

theorem NView.notifyAll_liswf (cfg : Cfg) : ∀ (ns : List Notif) (v : NView), LisWF v.lis →
    LisWF (NView.notifyAll cfg v ns).lis := by
  intro ns
  induction ns with
  | nil => intro v h; exact h
  | cons n rest ih => intro v h; rw [NView.notifyAll_cons]; exact ih _ (NView.notify_liswf cfg v n h)

theorem NView.notifyAll_nolistener (cfg : Cfg) (h : cfg.hasListener = false) :
    ∀ (ns : List Notif) (v : NView), NView.notifyAll cfg v ns = v := by
  intro ns
  induction ns with
  | nil => intro v; rfl
  | cons n rest ih => intro v; rw [NView.notifyAll_cons, NView.notify_nolistener cfg v n h]; exact ih v

theorem NView.notifyAll_sent (cfg : Cfg) : ∀ (ns : List Notif) (v : NView),
    (NView.notifyAll cfg v ns).sent = v.sent ++ (if cfg.hasListener then ns else []) := by
  intro ns v
  cases h : cfg.hasListener with
  | false => rw [NView.notifyAll_nolistener cfg h]; simp
  | true =>
    simp only [if_true]
    induction ns generalizing v with
    | nil => simp [NView.notifyAll_nil]
    | cons n rest ih => rw [NView.notifyAll_cons, ih, NView.notify_sent cfg v n h]; simp

theorem NView.notifyAll_open (cfg : Cfg) : ∀ (ns : List Notif) (v : NView), v.lis.gateClosed = false →
    (NView.notifyAll cfg v ns).delivered = v.delivered ++ (if cfg.hasListener then ns else []) ∧
      (NView.notifyAll cfg v ns).lis = v.lis := by
  intro ns v hg
  cases h : cfg.hasListener with
  | false => rw [NView.notifyAll_nolistener cfg h]; simp
  | true =>
    simp only [if_true]
    induction ns generalizing v with
    | nil => simp [NView.notifyAll_nil]
    | cons n rest ih =>
      obtain ⟨h1, h2⟩ := NView.notify_open cfg v n h hg
      obtain ⟨g1, g2⟩ := ih (v.notify cfg n) (by rw [h2]; exact hg)
      rw [NView.notifyAll_cons, g1, g2, h1, h2]; simp

theorem NView.notifyAll_queue (cfg : Cfg) : ∀ (ns : List Notif) (v : NView), v.lis.queue.length ≤ cfg.queueCap →
    (NView.notifyAll cfg v ns).lis.queue.length ≤ cfg.queueCap := by
  intro ns
  induction ns with
  | nil => intro v h; exact h
  | cons n rest ih => intro v h; rw [NView.notifyAll_cons]; exact ih _ (NView.notify_queue cfg v n h)

theorem NView.notifyAll_gate (cfg : Cfg) : ∀ (ns : List Notif) (v : NView),
    (NView.notifyAll cfg v ns).lis.gateClosed = v.lis.gateClosed := by
  intro ns
  induction ns with
  | nil => intro v; rfl
  | cons n rest ih => intro v; rw [NView.notifyAll_cons, ih, NView.notify_gate]

theorem NView.notifyAll_closed (cfg : Cfg) (h : cfg.hasListener = true) : ∀ (ns : List Notif) (v : NView),
    v.lis.gateClosed = true → LisWF v.lis → v.lis.outstanding.length + ns.length ≤ cfg.queueCap + 1 →
      (NView.notifyAll cfg v ns).lis.outstanding = v.lis.outstanding ++ ns ∧ LisWF (NView.notifyAll cfg v ns).lis ∧
        (NView.notifyAll cfg v ns).delivered = v.delivered := by
  intro ns
  induction ns with
  | nil => intro v _ hw _; exact ⟨by simp [NView.notifyAll_nil], hw, rfl⟩
  | cons n rest ih =>
    intro v hg hw hlen
    simp only [List.length_cons] at hlen
    obtain ⟨h1, h2, h3⟩ := NView.notify_closed cfg v n h hg hw (by omega)
    have hg' : (v.notify cfg n).lis.gateClosed = true := by rw [NView.notify_gate]; exact hg
    obtain ⟨g1, g2, g3⟩ := ih (v.notify cfg n) hg' h2 (by rw [h1]; simp only [List.length_append, List.length_singleton]; omega)
    rw [NView.notifyAll_cons]
    exact ⟨by rw [g1, h1]; simp, g2, g3.trans h3⟩

/-! ### quiet API steps -/
/-- nothing logged or notified, and no key that was unbound became bound -/
def Keep (s' s : State P) : Prop := LQ s' s ∧ ∀ k, lookup s.map k = none → lookup s'.map k = none

theorem Keep.refl (s : State P) : Keep s s := ⟨LQ.refl s, fun _ h => h⟩
theorem Keep.trans {a b c : State P} (h1 : Keep a b) (h2 : Keep b c) : Keep a c :=
  ⟨h1.1.trans h2.1, fun k h => h1.2 k (h2.2 k h)⟩

theorem lq_onHit (cfg : Cfg) (s : State P) (k : Nat) (e : Entry) : LQ (s.onHit cfg k e) s := by
  unfold State.onHit; dsimp only; split <;> exact ⟨rfl, rfl⟩

theorem onHit_map (cfg : Cfg) (s : State P) (k : Nat) (e : Entry) :
    (s.onHit cfg k e).map = put s.map k (e.touch s.now cfg.tti) := by
  unfold State.onHit; dsimp only; split <;> rfl

theorem keep_onHit (cfg : Cfg) (s : State P) (k : Nat) (e : Entry) (he : lookup s.map k = some e) :
    Keep (s.onHit cfg k e) s := by
  refine ⟨lq_onHit cfg s k e, ?_⟩
  intro k' h
  rw [onHit_map, lookup_put]
  split
  · next hk => subst hk; rw [he] at h; cases h
  · exact h

theorem keep_get (cfg : Cfg) (s : State P) (k : Nat) : Keep (s.get cfg k).1 s := by
  unfold State.get
  split
  · next e he =>
    split
    · exact ⟨⟨rfl, rfl⟩, fun _ h => h⟩
    · exact Keep.trans ⟨⟨rfl, rfl⟩, fun _ h => h⟩ (keep_onHit cfg s k e he)
  · exact ⟨⟨rfl, rfl⟩, fun _ h => h⟩

theorem lq_insertCore (cfg : Cfg) (s : State P) (k : Nat) (e : Entry) (td : Option Nat) (full : Bool) :
    LQ (s.insertCore cfg k e td full) s := by
  obtain ⟨_, _, _, _, _, _, h1, h2, h3, h4⟩ := insertCore_spec cfg s k e td full
  exact ⟨h2, by unfold nview; rw [h1, h3, h4]⟩

theorem lq_fetchWith (cfg : Cfg) (s : State P) (k vid cost : Nat) : LQ (s.fetchWith cfg k vid cost).1 s := by
  unfold State.fetchWith
  dsimp only
  split
  · exact ⟨rfl, rfl⟩
  · next e he =>
    split
    · split
      · exact ⟨rfl, rfl⟩
      · exact LQ.trans ⟨rfl, rfl⟩ (lq_onHit cfg s k e)
    · split
      · split
        · exact ⟨rfl, rfl⟩
        · exact ⟨rfl, rfl⟩
      · exact ⟨rfl, rfl⟩

theorem lq_orInsert (cfg : Cfg) (s : State P) (k vid cost : Nat) : LQ (s.orInsert cfg k vid cost).1 s := by
  unfold State.orInsert; split <;> exact ⟨rfl, rfl⟩

theorem lq_compute (s : State P) (k vid : Nat) : LQ (s.compute k vid).1 s := by
  unfold State.compute
  split
  · exact ⟨rfl, rfl⟩
  · split <;> exact ⟨rfl, rfl⟩

theorem lq_multigetSync (cfg : Cfg) : ∀ (ks : List Nat) (s : State P) (found : List (Nat × Nat)),
    LQ (multigetSync cfg s ks found).1 s := by
  intro ks
  induction ks with
  | nil => intro s found; exact LQ.refl s
  | cons k rest ih =>
    intro s found
    unfold multigetSync
    split
    · next e he =>
      split
      · exact ih _ _
      · exact (ih _ _).trans (lq_onHit cfg s k e)
    · exact ih _ _

theorem lq_multigetAsync (cfg : Cfg) (ops : PolicyOps P) : ∀ (ks : List Nat) (s : State P) (found : List (Nat × Nat)),
    LQ (multigetAsync cfg ops s ks found).1 s := by
  intro ks
  induction ks with
  | nil => intro s found; exact LQ.refl s
  | cons k rest ih =>
    intro s found
    unfold multigetAsync
    split
    · next e he =>
      split
      · exact ih _ _
      · exact (ih _ _).trans ⟨rfl, rfl⟩
    · exact ih _ _

theorem keep_snapDrive (cfg : Cfg) : ∀ (ks : List Nat) (s : State P) (inter : Option (Nat × Nat)) (acc : List (Nat × Nat)),
    Keep (snapDrive cfg s ks inter acc).1 s := by
  intro ks
  induction ks with
  | nil =>
    intro s inter acc
    unfold snapDrive
    split
    · split
      · exact ⟨⟨rfl, rfl⟩, fun _ h => h⟩
      · exact Keep.refl s
    · exact Keep.refl s
  | cons k rest ih =>
    intro s inter acc
    unfold snapDrive
    have key : ∀ (s1 : State P) (inter1 : Option (Nat × Nat)), Keep s1 s →
        Keep (match s1.get cfg k with
          | (s, some v) => snapDrive cfg s rest inter1 (acc ++ [(k, v)])
          | (s, none) => snapDrive cfg s rest inter1 acc).1 s := by
      intro s1 inter1 h1
      have hg := keep_get cfg s1 k
      split
      · next s2 v heq => rw [heq] at hg; exact ((ih _ _ _).trans hg).trans h1
      · next s2 heq => rw [heq] at hg; exact ((ih _ _ _).trans hg).trans h1
    rcases inter with _ | ⟨after, d⟩
    · exact key s none (Keep.refl s)
    · dsimp only
      by_cases hlen : acc.length = after
      · rw [if_pos hlen]; exact key _ none ⟨⟨rfl, rfl⟩, fun _ h => h⟩
      · rw [if_neg hlen]; exact key s (some (after, d)) (Keep.refl s)

theorem lq_hold (cfg : Cfg) (s : State P) (k : Nat) :
    LQ (match s.get cfg k with
      | (s, some v) =>
        ((match lookup s.map k with
         | some e => { s with map := put s.map k { e with pinned := true } }
         | none => s), Ret.val (some v))
      | (s, none) => (s, Ret.val none)).1 s := by
  have hg := (keep_get cfg s k).1
  split
  · next s1 v heq =>
    rw [heq] at hg
    dsimp only
    split
    · exact LQ.trans ⟨rfl, rfl⟩ hg
    · exact hg
  · next s1 heq => rw [heq] at hg; exact hg

/-! ### `clear` -/
theorem logClearedAll_spec : ∀ (l : List (Nat × Entry)) (s : State P),
    (logClearedAll s l).removed = s.removed ++ l.map (fun p => { key := p.1, vid := p.2.vid, reason := .cleared }) ∧
      nview (logClearedAll s l) = nview s := by
  intro l
  induction l with
  | nil => intro s; exact ⟨by simp [logClearedAll], rfl⟩
  | cons p rest ih =>
    intro s
    obtain ⟨k, e⟩ := p
    obtain ⟨h1, h2⟩ := ih (s.logRemoved k e .cleared)
    unfold logClearedAll
    refine ⟨?_, h2⟩
    rw [h1]
    show s.removed ++ [_] ++ _ = _
    simp

theorem clearAll_spec (cfg : Cfg) (ops : PolicyOps P) (o : Oracle) (s : State P) :
    (s.clearAll cfg ops o).removed =
        s.removed ++ s.map.map (fun p => { key := p.1, vid := p.2.vid, reason := .cleared }) ∧
      nview (s.clearAll cfg ops o) = nview s ∧ (s.clearAll cfg ops o).map = [] := by
  have h1 : Same ((List.range cfg.nshards).foldl
      (fun s i => (s.shardKeys cfg o.remHint i).foldl (fun s k => s.polRemove ops i k) s) s) s :=
    foldl_same _ (fun s i => foldl_same _ (fun s k => same_polRemove ops s i k) _ s) _ s
  have l1 : LQ ((List.range cfg.nshards).foldl
      (fun s i => (s.shardKeys cfg o.remHint i).foldl (fun s k => s.polRemove ops i k) s) s) s :=
    foldl_lq _ (fun s i => foldl_lq (fun s k => s.polRemove ops i k) (fun s k => ⟨rfl, rfl⟩) _ s) _ s
  unfold State.clearAll
  dsimp only
  generalize (List.range cfg.nshards).foldl
      (fun s i => (s.shardKeys cfg o.remHint i).foldl (fun s k => s.polRemove ops i k) s) s = s1 at h1 l1
  obtain ⟨g1, g2⟩ := logClearedAll_spec s1.map s1
  have g3 := (logClearedAll_same s1.map s1).1
  generalize logClearedAll s1 s1.map = s2 at g1 g2 g3
  have h3 : Same ((List.range cfg.nshards).foldl (fun s i => s.polClear ops i) ({ s2 with map := [] } : State P))
      ({ s2 with map := [] } : State P) := foldl_same _ (fun s i => same_polClear ops s i) _ _
  have l3 : LQ ((List.range cfg.nshards).foldl (fun s i => s.polClear ops i) ({ s2 with map := [] } : State P))
      ({ s2 with map := [] } : State P) := foldl_lq (fun s i => s.polClear ops i) (fun s i => ⟨rfl, rfl⟩) _ _
  generalize (List.range cfg.nshards).foldl (fun s i => s.polClear ops i) ({ s2 with map := [] } : State P) = s3 at h3 l3
  refine ⟨?_, ?_, ?_⟩
  · show s3.removed = _
    rw [l3.1]; show s2.removed = _
    rw [g1, l1.1, h1.1]
  · show nview s3 = _
    rw [l3.2]; show nview s2 = _
    rw [g2, l1.2]
  · show s3.map = []
    rw [h3.1]


/-! ### one API call -/
/-- the call itself wrote value id `v` under key `k` before running its own opportunistic maintenance -/
def OpWrote (op : Op) (k v : Nat) : Prop :=
  (∃ c, op = .insert false k v c) ∨ (∃ c t, op = .insertTtl false k v c t)

/-- calls that run `perform_shard_maintenance` (admission-driven eviction) or the capacity pass -/
def OpDrains : Op → Prop
  | .insert false _ _ _ => True
  | .insertTtl false _ _ _ _ => True
  | .runMaintenance => True
  | .metrics => True
  | .iter _ _ => True
  | .iterSnapshot _ => True
  | .snapshot => True
  | _ => False

/-- which call may log a removal with which reason -/
def OpQ (op : Op) (n : Notif) : Prop :=
  match n.reason with
  | .invalidated => op = .remove n.key ∨ op = .invalidate n.key ∨ ∃ ks, op = .multiRemove ks ∧ n.key ∈ ks
  | .cleared => op = .clear
  | .expired => op = .runMaintenance
  | .capacity => OpDrains op

theorem opq_cap {op : Op} (h : OpDrains op) (n : Notif) (e : Entry) (hq : QCap n e) : OpQ op n := by
  unfold QCap at hq; unfold OpQ; rw [hq]; exact h

def Silent (s0 r : State P) : Prop := r.removed = [] ∧ nview r = ⟨[], [], s0.lis⟩

def Loud (cfg : Cfg) (op : Op) (s0 r : State P) : Prop :=
  ∃ (sm s' : State P) (rs : List Notif),
    sm.removed = [] ∧ nview sm = ⟨[], [], s0.lis⟩ ∧
    (∀ k e, lookup sm.map k = some e → lookup s0.map k = some e ∨ OpWrote op k e.vid) ∧
    Eff cfg (fun n _ => OpQ op n) sm s' rs rs ∧ Keep r s'

theorem silent_of_lq {s0 r : State P} (h : LQ r s0.resetLogs) : Silent s0 r := ⟨h.1, h.2⟩

theorem loud_of_eff {cfg : Cfg} {op : Op} {s0 s' r : State P} {Q : Notif → Entry → Prop}
    (he : EffE cfg Q s0.resetLogs s') (hq : ∀ n e, Q n e → OpQ op n) (hk : Keep r s') : Loud cfg op s0 r := by
  obtain ⟨rs, he⟩ := he
  exact ⟨s0.resetLogs, s', rs, rfl, rfl, fun _ _ h => Or.inl h, he.mono hq, hk⟩

theorem loud_insert {cfg : Cfg} {ops : PolicyOps P} {o : Oracle} {op : Op} {s0 : State P} {k vid : Nat} {e : Entry}
    {td : Option Nat} (hv : e.vid = vid) (hd : OpDrains op) (hw : OpWrote op k vid) :
    Loud cfg op s0 ((s0.resetLogs.insertCore cfg k e td true).opportunistic cfg ops o k) := by
  obtain ⟨rs, he⟩ := opportunistic_eff cfg ops o (s0.resetLogs.insertCore cfg k e td true) k
  have hl := lq_insertCore cfg s0.resetLogs k e td true
  obtain ⟨e', _, hv', hm, _⟩ := insertCore_spec cfg s0.resetLogs k e td true
  refine ⟨_, _, rs, hl.1, hl.2, ?_, he.mono (opq_cap hd), Keep.refl _⟩
  intro k' e1 h1
  rw [hm, lookup_put] at h1
  split at h1
  · next hk =>
    cases h1
    subst hk
    rw [hv', hv]
    exact Or.inr hw
  · exact Or.inl h1

theorem stepOp_shape (cfg : Cfg) (ops : PolicyOps P) (p0 : P) (o : Oracle) (s0 : State P) (op : Op)
    (hr : op ≠ .restore) (hg : ∀ c, op ≠ .gate c) (hc : op ≠ .clear) :
    Silent s0 (stepOp cfg ops p0 o s0 op).1 ∨ Loud cfg op s0 (stepOp cfg ops p0 o s0 op).1 := by
  cases op with
  | get k => exact Or.inl (silent_of_lq (keep_get cfg _ k).1)
  | peek k => exact Or.inl (silent_of_lq (LQ.refl _))
  | occupied k => exact Or.inl (silent_of_lq (LQ.refl _))
  | insert async k vid cost =>
    cases async
    · exact Or.inr (loud_insert (e := Entry.mk' vid cost s0.resetLogs.now cfg.ttl cfg.tti) rfl trivial (Or.inl ⟨cost, rfl⟩))
    · exact Or.inl (silent_of_lq (lq_insertCore cfg _ k _ _ true))
  | insertTtl async k vid cost ttl =>
    cases async
    · exact Or.inr (loud_insert (e := Entry.mkCustom vid cost s0.resetLogs.now (s0.resetLogs.now + ttl) cfg.tti)
        rfl trivial (Or.inr ⟨cost, ttl, rfl⟩))
    · exact Or.inl (silent_of_lq (lq_insertCore cfg _ k _ _ true))
  | remove k =>
    refine Or.inr (loud_of_eff (removeKey_eff cfg ops _ k) ?_ (Keep.refl _))
    intro n _ h
    unfold OpQ; rw [h.1, h.2]; exact Or.inl rfl
  | invalidate k =>
    refine Or.inr (loud_of_eff (removeKey_eff cfg ops _ k) ?_ (Keep.refl _))
    intro n _ h
    unfold OpQ; rw [h.1, h.2]; exact Or.inr (Or.inl rfl)
  | clear => exact absurd rfl hc
  | advance d => exact Or.inl (silent_of_lq ⟨rfl, rfl⟩)
  | runMaintenance =>
    refine Or.inr (loud_of_eff (runMaintenance_eff cfg ops o _) ?_ (Keep.refl _))
    intro n _ h
    unfold OpQ
    rcases h with h | h <;> rw [h]
    trivial
  | metrics => exact Or.inr (loud_of_eff (flush_eff cfg ops o _) (opq_cap trivial) (Keep.refl _))
  | orInsert k vid cost => exact Or.inl (silent_of_lq (lq_orInsert cfg _ k vid cost))
  | compute k vid => exact Or.inl (silent_of_lq (lq_compute _ k vid))
  | fetchWith k vid cost => exact Or.inl (silent_of_lq (lq_fetchWith cfg _ k vid cost))
  | multiget async ks =>
    have key : ∀ (q : State P × List (Nat × Nat)), LQ q.1 s0.resetLogs →
        LQ (if ks.length > q.2.length then (q.1.hit q.2.length).miss (ks.length - q.2.length)
             else q.1.hit q.2.length) s0.resetLogs := by
      intro q h
      split
      · exact LQ.trans ⟨rfl, rfl⟩ h
      · exact LQ.trans ⟨rfl, rfl⟩ h
    cases async
    · exact Or.inl (silent_of_lq (key _ (lq_multigetSync cfg ks _ [])))
    · exact Or.inl (silent_of_lq (key _ (lq_multigetAsync cfg ops _ _ [])))
  | multiInsert items =>
    exact Or.inl (silent_of_lq (foldl_lq
      (fun (s : State P) (x : Nat × Nat × Nat) =>
        s.insertCore cfg x.1 (Entry.mk' x.2.1 x.2.2 s.now cfg.ttl cfg.tti) cfg.ttl false)
      (fun s x => lq_insertCore cfg s x.1 _ _ false) items _))
  | multiRemove ks =>
    refine Or.inr (loud_of_eff (multiRemoveLoop_eff cfg ops ks _ []) ?_ (Keep.refl _))
    intro n _ h
    unfold OpQ; rw [h.1]; exact Or.inr (Or.inr ⟨ks, rfl, h.2⟩)
  | iter batch inter =>
    exact Or.inr (loud_of_eff (flush_eff cfg ops o _) (opq_cap trivial) ⟨⟨rfl, rfl⟩, fun _ h => h⟩)
  | iterSnapshot inter =>
    exact Or.inr (loud_of_eff (flush_eff cfg ops o _) (opq_cap trivial) (keep_snapDrive cfg _ _ _ _))
  | snapshot =>
    exact Or.inr (loud_of_eff (flush_eff cfg ops o _) (opq_cap trivial) ⟨⟨rfl, rfl⟩, fun _ h => h⟩)
  | restore => exact absurd rfl hr
  | hold k => exact Or.inl (silent_of_lq (lq_hold cfg _ k))
  | release => exact Or.inl (silent_of_lq ⟨rfl, rfl⟩)
  | gate closed => exact absurd rfl (hg closed)

def notCleared (n : Notif) : Bool := n.reason != .cleared

/-- every call except `restore` / `gate`: what the notifier saw is exactly the non-`clear`
    removals of the call, in order -/
theorem stepOp_view (cfg : Cfg) (ops : PolicyOps P) (p0 : P) (o : Oracle) (s0 : State P) (op : Op)
    (hr : op ≠ .restore) (hg : ∀ c, op ≠ .gate c) :
    nview (stepOp cfg ops p0 o s0 op).1 =
      NView.notifyAll cfg ⟨[], [], s0.lis⟩ ((stepOp cfg ops p0 o s0 op).1.removed.filter notCleared) := by
  by_cases hc : op = .clear
  · subst hc
    obtain ⟨h1, h2, _⟩ := clearAll_spec cfg ops o s0.resetLogs
    show nview (s0.resetLogs.clearAll cfg ops o) =
      NView.notifyAll cfg ⟨[], [], s0.lis⟩ ((s0.resetLogs.clearAll cfg ops o).removed.filter notCleared)
    rw [h1, h2]
    have : (([] : List Notif) ++ s0.resetLogs.map.map (fun p => ({ key := p.1, vid := p.2.vid, reason := .cleared } : Notif))).filter
        notCleared = [] := by
      apply List.filter_eq_nil_iff.2
      intro n hn
      simp only [List.nil_append, List.mem_map] at hn
      obtain ⟨p, _, rfl⟩ := hn
      simp [notCleared]
    show _ = NView.notifyAll cfg _ (List.filter notCleared ([] ++ _))
    rw [this]; rfl
  · rcases stepOp_shape cfg ops p0 o s0 op hr hg hc with h | h
    · rw [h.1, h.2]; rfl
    · obtain ⟨sm, s', rs, h1, h2, _, he, hk⟩ := h
      have hrem : (stepOp cfg ops p0 o s0 op).1.removed = rs := by
        rw [hk.1.1, he.removed, h1]; rfl
      rw [hrem, hk.1.2, he.view, h2]
      congr 1
      symm
      apply List.filter_eq_self.2
      intro n hn
      obtain ⟨e, _, _, hq⟩ := he.was n hn
      unfold notCleared
      unfold OpQ at hq
      cases hre : n.reason <;> simp
      rw [hre] at hq
      exact hc hq

/-- removal records of one call: where they come from, that they are gone, each key once, reasons -/
theorem stepOp_removed (cfg : Cfg) (ops : PolicyOps P) (p0 : P) (o : Oracle) (s0 : State P) (op : Op)
    (hwf : op = .clear → (keys s0.map).Nodup) :
    (∀ n, n ∈ (stepOp cfg ops p0 o s0 op).1.removed →
        ((∃ e, lookup s0.map n.key = some e ∧ e.vid = n.vid) ∨ OpWrote op n.key n.vid) ∧
        lookup (stepOp cfg ops p0 o s0 op).1.map n.key = none ∧ OpQ op n) ∧
      ((stepOp cfg ops p0 o s0 op).1.removed.map (·.key)).Nodup := by
  by_cases hc : op = .clear
  · subst hc
    obtain ⟨h1, _, h3⟩ := clearAll_spec cfg ops o s0.resetLogs
    have hn := hwf rfl
    have hrem : (stepOp cfg ops p0 o s0 .clear).1.removed =
        s0.map.map (fun p => ({ key := p.1, vid := p.2.vid, reason := .cleared } : Notif)) := by
      show (s0.resetLogs.clearAll cfg ops o).removed = _
      rw [h1]; rfl
    have hmap : (stepOp cfg ops p0 o s0 .clear).1.map = [] := h3
    rw [hrem, hmap]
    refine ⟨?_, ?_⟩
    · intro n hn'
      obtain ⟨p, hp, rfl⟩ := List.mem_map.1 hn'
      refine ⟨Or.inl ?_, rfl, rfl⟩
      -- with distinct keys the first binding of `p.1` is `p`
      have : ∀ (m : List (Nat × Entry)), (keys m).Nodup → p ∈ m → lookup m p.1 = some p.2 := by
        intro m
        induction m with
        | nil => intro _ h; cases h
        | cons q rest ih =>
          intro hnd hmem
          obtain ⟨a, b⟩ := q
          simp only [keys_cons] at hnd
          obtain ⟨hnot, hnd'⟩ := List.nodup_cons.1 hnd
          rw [lookup_cons]
          rcases List.mem_cons.1 hmem with h | h
          · subst h; simp
          · have : a ≠ p.1 := by
              intro heq; subst heq
              exact hnot (List.mem_map.2 ⟨p, h, rfl⟩)
            rw [if_neg this]; exact ih hnd' h
      exact ⟨p.2, this s0.map hn hp, rfl⟩
    · rw [List.map_map]
      exact hn
  · by_cases hr : op = .restore
    · subst hr
      have : (stepOp cfg ops p0 o s0 .restore).1.removed = [] := by
        show (match s0.resetLogs.snap with
          | some sn => (State.restore cfg p0 s0.resetLogs.now sn, Ret.unit)
          | none => (s0.resetLogs, Ret.unit)).1.removed = []
        split <;> rfl
      rw [this]; exact ⟨fun _ h => (nomatch h), List.nodup_nil⟩
    · by_cases hg : ∃ c, op = .gate c
      · obtain ⟨c, rfl⟩ := hg
        have : (stepOp cfg ops p0 o s0 (.gate c)).1.removed = [] := by cases c <;> rfl
        rw [this]; exact ⟨fun _ h => (nomatch h), List.nodup_nil⟩
      · have hg' : ∀ c, op ≠ .gate c := fun c h => hg ⟨c, h⟩
        rcases stepOp_shape cfg ops p0 o s0 op hr hg' hc with h | h
        · rw [h.1]; exact ⟨fun _ h => (nomatch h), List.nodup_nil⟩
        · obtain ⟨sm, s', rs, h1, _, h3, he, hk⟩ := h
          have hrem : (stepOp cfg ops p0 o s0 op).1.removed = rs := by
            rw [hk.1.1, he.removed, h1]; rfl
          rw [hrem]
          refine ⟨?_, he.nodup⟩
          intro n hn
          obtain ⟨e, h4, h5, h6⟩ := he.was n hn
          refine ⟨?_, hk.2 _ (he.gone n hn), h6⟩
          rcases h3 _ _ h4 with g | g
          · exact Or.inl ⟨e, g, h5⟩
          · exact Or.inr (h5 ▸ g)

end Fv.Cache
