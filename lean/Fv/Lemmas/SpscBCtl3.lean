import Fv.Lemmas.SpscBCtl2
/-! Preservation of the control invariant `CInv` by every step of the SPSC step-level model (part 3). -/
namespace Fv.Chan.SpscB

attribute [local grind =] upd_apply
attribute [local grind] okAt kSide isRet inNotify
attribute [local grind cases] Role

syntax "cinv_step3 " ident ident " [" Lean.Parser.Tactic.simpLemma,* "]" : tactic
macro_rules
  | `(tactic| cinv_step3 $hi $h [$ls,*]) => `(tactic| (
  obtain ⟨c1, c2, c3, c4, c5⟩ := $hi
  simp only [$ls,*, setLoc, afterWake, afterClose] at $h:ident
  repeat' split at $h:ident
  all_goals (first | (simp at $h:ident <;> try subst $h:ident) | skip)
  all_goals (refine ⟨?_, ?_, ?_, ?_, ?_⟩ <;>
    (dsimp only; (try simp only [afterNotify, afterUnreg, afterPush, afterPop, loopTop, waitStep]); grind))))

set_option maxHeartbeats 2000000 in
theorem cinv_spin {s s' : State} {r : Role} (hi : CInv s) (h : stepSpin s r = some s') : CInv s' := by
  cinv_step3 hi h [stepSpin]

set_option maxHeartbeats 2000000 in
theorem cinv_deadline {s s' : State} {r : Role} (hi : CInv s) (h : stepDeadline s r = some s') : CInv s' := by
  cinv_step3 hi h [stepDeadline]

set_option maxHeartbeats 2000000 in
theorem cinv_ldClosed {s s' : State} {r : Role} (hi : CInv s) (h : stepLdClosed s r = some s') : CInv s' := by
  cinv_step3 hi h [stepLdClosed]

set_option maxHeartbeats 2000000 in
theorem cinv_ldDropped {s s' : State} {r : Role} (hi : CInv s) (h : stepLdDropped s r = some s') : CInv s' := by
  cinv_step3 hi h [stepLdDropped]

set_option maxHeartbeats 2000000 in
theorem cinv_ldCount {s s' : State} {r : Role} (hi : CInv s) (h : stepLdCount s r = some s') : CInv s' := by
  cinv_step3 hi h [stepLdCount]

set_option maxHeartbeats 2000000 in
theorem cinv_casClosed {s s' : State} {r : Role} (hi : CInv s) (h : stepCasClosed s r = some s') : CInv s' := by
  cinv_step3 hi h [stepCasClosed]

set_option maxHeartbeats 2000000 in
theorem cinv_swapClosed {s s' : State} {r : Role} (hi : CInv s) (h : stepSwapClosed s r = some s') : CInv s' := by
  cinv_step3 hi h [stepSwapClosed]

set_option maxHeartbeats 2000000 in
theorem cinv_stDropped {s s' : State} {r : Role} (hi : CInv s) (h : stepStDropped s r = some s') : CInv s' := by
  cinv_step3 hi h [stepStDropped]

set_option maxHeartbeats 2000000 in
theorem cinv_subCount {s s' : State} {r : Role} (hi : CInv s) (h : stepSubCount s r = some s') : CInv s' := by
  cinv_step3 hi h [stepSubCount]

end Fv.Chan.SpscB
