import Fv.Lemmas.SyncRwStep
import Fv.Lemmas.SyncWaitList
/-!
Basic inductive invariant of the `HybridRwLock` model: reader/writer exclusion (ghost `holders` vs.
the `WRITE_LOCKED` bit and the reader count), exclusion of the list spinlock, the wait-list
invariant, node ownership (every queued node belongs to a live waiter; reader nodes may be unlinked
by a waker, writer nodes only by their owner), future bookkeeping.  This file: definitions and
proof macros; the preservation proofs are in `SyncRwInv*.lean`.

Region predicates are written without wildcard patterns so that their equation lemmas are
unconditional rewrite rules (cheap for `simp`/`grind`).
-/
namespace Fv.Sync.WaitList

@[simp] theorem firstWriter_setLocked (wl : WaitList) (b : Bool) : (wl.setLocked b).firstWriter = wl.firstWriter := rfl

/-- `first_writer` returns a queued writer node -/
theorem WF.firstWriter_spec {wl : WaitList} (h : wl.WF) {n : Nid} (hf : wl.firstWriter = some n) :
    (wl.node n).linked = true ∧ (wl.node n).isWriter = true := by
  unfold firstWriter at hf
  exact ⟨(h.linked n).2 (List.mem_of_find?_eq_some hf), by simpa using List.find?_some hf⟩

/-- without queued writers the head of the queue is a reader node -/
theorem WF.head_reader {wl : WaitList} (h : wl.WF) {n : Nid} (hh : wl.queue.head? = some n)
    (hw : wl.writers = 0) : (wl.node n).isWriter = false := by
  have hm : n ∈ wl.queue := List.mem_of_head? hh
  have hc := h.writers
  rw [hw] at hc
  have := List.countP_eq_zero.1 hc.symm n hm
  simpa using this

end Fv.Sync.WaitList

namespace Fv.Sync.RwLock
open Fv.Sync

def TaK.sync : TaK → Bool
  | .fast | .spin | .try_ => true
  | .asyncFirst | .pollTry => false

def After.sync : After → Bool
  | .retOk | .parkLoad => true
  | .retReady | .dropLoad | .pending | .wake => false

def After.async : After → Bool
  | .retReady | .dropLoad | .pending => true
  | .retOk | .parkLoad | .wake => false

/-- the thread holds the list spinlock -/
def inLL : Pc → Bool
  | .qRearm | .qFetchOr | .qLoad | .qCas | .ff1 _ | .ff2 _ | .llRel _ | .wnStore | .wrStore => true
  | .idle | .taLoad _ | .taCas _ | .spinYield | .llSwap _ | .llLoad _ | .llSpin _ | .wLoad | .wPark
  | .relSub | .relAnd | .wnWake | .dLoad | .boPark | .ret _ => false

/-- `read_slow` / `write_slow`, from the entry up to (not including) the unlink of the stack node
(meaningful when `cur = none`) -/
def slowL : Pc → Bool
  | .taLoad k | .taCas k => (match k with
      | .spin => true | .fast | .try_ | .asyncFirst | .pollTry => false)
  | .llSwap k | .llLoad k | .llSpin k => (match k with
      | .queue | .spinUnlink => true | .wake | .finish | .drop => false)
  | .llRel a => (match a with
      | .parkLoad => true | .retOk | .retReady | .dropLoad | .pending | .wake => false)
  | .spinYield | .qRearm | .qFetchOr | .qLoad | .qCas | .wLoad | .wPark => true
  | .idle | .ff1 _ | .ff2 _ | .relSub | .relAnd | .wnStore | .wrStore | .wnWake | .dLoad | .boPark | .ret _ => false

/-- the part of `read_slow` in which the reader's stack node can be linked: from the `link_back`
folded into `qRearm` to the end of the park loop -/
def rdL : Pc → Bool
  | .llRel a => (match a with
      | .parkLoad => true | .retOk | .retReady | .dropLoad | .pending | .wake => false)
  | .qFetchOr | .qLoad | .qCas | .wLoad | .wPark => true
  | .idle | .taLoad _ | .taCas _ | .spinYield | .llSwap _ | .llLoad _ | .llSpin _ | .qRearm | .ff1 _ | .ff2 _
  | .relSub | .relAnd | .wnStore | .wrStore | .wnWake | .dLoad | .boPark | .ret _ => false

/-- pcs that only occur on the sync path (`cur = none`) -/
def syncOnly : Pc → Bool
  | .taLoad k | .taCas k => k.sync
  | .llSwap k | .llLoad k | .llSpin k => (match k with
      | .spinUnlink => true | .queue | .wake | .finish | .drop => false)
  | .ff1 a | .ff2 a | .llRel a => a.sync
  | .spinYield | .wLoad | .wPark => true
  | .idle | .qRearm | .qFetchOr | .qLoad | .qCas | .relSub | .relAnd | .wnStore | .wrStore | .wnWake | .dLoad
  | .boPark | .ret _ => false

/-- pcs that only occur while polling / dropping a future (`cur = some f`) -/
def asyncOnly : Pc → Bool
  | .taLoad k | .taCas k => !k.sync
  | .llSwap k | .llLoad k | .llSpin k => (match k with
      | .finish | .drop => true | .queue | .wake | .spinUnlink => false)
  | .ff1 a | .ff2 a | .llRel a => a.async
  | .dLoad | .boPark => true
  | .idle | .spinYield | .qRearm | .qFetchOr | .qLoad | .qCas | .wLoad | .wPark | .relSub | .relAnd | .wnStore
  | .wrStore | .wnWake | .ret _ => false

/-- pcs at which a thread with `cur = some f` is operating on future `f` -/
def futPc : Pc → Bool
  | .taLoad k | .taCas k => !k.sync
  | .llSwap k | .llLoad k | .llSpin k => (match k with
      | .finish | .drop | .queue => true | .wake | .spinUnlink => false)
  | .ff1 a | .ff2 a | .llRel a => a.async
  | .qRearm | .qFetchOr | .qLoad | .qCas | .dLoad | .boPark => true
  | .idle | .spinYield | .wLoad | .wPark | .relSub | .relAnd | .wnStore | .wrStore | .wnWake | .ret _ => false

/-- … and the future's node exists (`node` non-null) -/
def futNodePc : Pc → Bool
  | .llSwap k | .llLoad k | .llSpin k => (match k with
      | .finish | .drop | .queue => true | .wake | .spinUnlink => false)
  | .ff1 a | .ff2 a | .llRel a => a.async
  | .qRearm | .qFetchOr | .qLoad | .qCas | .dLoad => true
  | .idle | .taLoad _ | .taCas _ | .spinYield | .wLoad | .wPark | .relSub | .relAnd | .wnStore | .wrStore
  | .wnWake | .boPark | .ret _ => false

/-- … and the node has just been unlinked by this thread -/
def futUnlPc : Pc → Bool
  | .ff1 a | .ff2 a | .llRel a => (match a with
      | .retReady | .dropLoad => true | .retOk | .parkLoad | .pending | .wake => false)
  | .dLoad => true
  | .idle | .taLoad _ | .taCas _ | .spinYield | .llSwap _ | .llLoad _ | .llSpin _ | .qRearm | .qFetchOr | .qLoad
  | .qCas | .wLoad | .wPark | .relSub | .relAnd | .wnStore | .wrStore | .wnWake | .boPark | .ret _ => false

def isCas : Pc → Bool
  | .taCas _ | .qCas => true
  | .idle | .taLoad _ | .spinYield | .llSwap _ | .llLoad _ | .llSpin _ | .qRearm | .qFetchOr | .qLoad
  | .ff1 _ | .ff2 _ | .llRel _ | .wLoad | .wPark | .relSub | .relAnd | .wnStore | .wrStore | .wnWake | .dLoad
  | .boPark | .ret _ => false

/-! ### the conjuncts -/

/-- (a) a write holder excludes every other holder (and the reader count is 0) -/
def PWlHeld (s : State) : Prop := s.word.wl = true → (∃ u, s.holders = [(u, true)]) ∧ s.word.readers = 0
/-- (a) without `WRITE_LOCKED` all guards are read guards and the reader count is their number -/
def PFree (s : State) : Prop :=
  s.word.wl = false → (∀ h ∈ s.holders, h.2 = false) ∧ s.holders.length = s.word.readers
def PSvOk (s : State) : Prop := ∀ t, isCas (s.th t).pc = true → (s.th t).sv.blocked (s.th t).wr = false
def PRelHolds (s : State) : Prop :=
  ∀ t, ((s.th t).pc = .relSub → (t, false) ∈ s.holders) ∧ ((s.th t).pc = .relAnd → (t, true) ∈ s.holders)
/-- (b) -/
def PLl (s : State) : Prop :=
  ∀ t, inLL (s.th t).pc = true → s.wl.locked = true ∧ ∀ u, inLL (s.th u).pc = true → u = t
/-- (f) -/
def PSyncCur (s : State) : Prop := ∀ t, syncOnly (s.th t).pc = true → (s.th t).cur = none
def PAsyncCur (s : State) : Prop := ∀ t, asyncOnly (s.th t).pc = true → (s.th t).cur ≠ none
def PFfOk (s : State) : Prop :=
  ∀ t, (s.th t).pc ≠ .ff1 .parkLoad ∧ (s.th t).pc ≠ .ff1 .pending
    ∧ (s.th t).pc ≠ .ff2 .parkLoad ∧ (s.th t).pc ≠ .ff2 .pending
/-- (d) `write_slow`'s local `linked` agrees with the stack node -/
def PSyncLinked (s : State) : Prop :=
  ∀ t, (s.th t).cur = none → slowL (s.th t).pc = true → (s.th t).wr = true →
    (s.th t).linked = (s.wl.node (.thr t)).linked
/-- (d) the stack node of a slow path is a writer node iff the acquisition is a write -/
def PThrWr (s : State) : Prop :=
  ∀ t, (s.th t).cur = none → slowL (s.th t).pc = true → (s.wl.node (.thr t)).isWriter = (s.th t).wr
/-- (d) a linked stack node belongs to a thread in its slow path; a reader's node is linked only
between its `link_back` and the end of the park loop -/
def PThrNode (s : State) : Prop :=
  ∀ t, (s.wl.node (.thr t)).linked = true →
    (s.th t).cur = none ∧ slowL (s.th t).pc = true ∧ ((s.th t).wr = false → rdL (s.th t).pc = true)
/-- (d) a reader node is marked `WOKEN` only after it has been unlinked -/
def PNodeWoken (s : State) : Prop :=
  ∀ n, (s.wl.node n).linked = true → (s.wl.node n).isWriter = false → (s.wl.node n).woken = false
/-- wake_waiters, writer branch: the node about to be marked is a queued writer node -/
def PWnTgt (s : State) : Prop :=
  ∀ t, (s.th t).pc = .wnStore → (s.wl.node (s.th t).tgt).linked = true ∧ (s.wl.node (s.th t).tgt).isWriter = true
/-- wake_waiters, readers branch: the node about to be marked has been unlinked; no writer is queued -/
def PWrTgt (s : State) : Prop :=
  ∀ t, (s.th t).pc = .wrStore → (s.wl.node (s.th t).tgt).linked = false ∧ s.wl.writers = 0
def PFutNode (s : State) : Prop := ∀ f, (s.wl.node (.fut f)).linked = true → (s.fut f).phase = .startedNode
/-- the heap node of a future is a writer node iff the future is a `WriteFuture` -/
def PFutNodeWr (s : State) : Prop :=
  ∀ f, (s.fut f).phase = .startedNode → (s.wl.node (.fut f)).isWriter = (s.fut f).wr
/-- (e) -/
def PBusy (s : State) : Prop :=
  ∀ t f, (s.th t).cur = some f → futPc (s.th t).pc = true →
    (s.fut f).busy = true ∧ ∀ u, (s.th u).cur = some f → futPc (s.th u).pc = true → u = t
def PFutWr (s : State) : Prop :=
  ∀ t f, (s.th t).cur = some f → futPc (s.th t).pc = true → (s.th t).wr = (s.fut f).wr
def PPhFresh (s : State) : Prop :=
  ∀ t f, (s.th t).cur = some f → ((s.th t).pc = .taLoad .asyncFirst ∨ (s.th t).pc = .taCas .asyncFirst) →
    (s.fut f).phase = .fresh
def PPhStarted (s : State) : Prop :=
  ∀ t f, (s.th t).cur = some f →
    ((s.th t).pc = .taLoad .pollTry ∨ (s.th t).pc = .taCas .pollTry ∨ (s.th t).pc = .boPark) →
    ((s.fut f).phase = .startedNoNode ∨ (s.fut f).phase = .startedNode)
def PPhNode (s : State) : Prop :=
  ∀ t f, (s.th t).cur = some f → futNodePc (s.th t).pc = true → (s.fut f).phase = .startedNode
def PFutUnl (s : State) : Prop :=
  ∀ t f, (s.th t).cur = some f → futUnlPc (s.th t).pc = true → (s.wl.node (.fut f)).linked = false

structure Inv (s : State) : Prop where
  wlHeld : PWlHeld s
  free : PFree s
  svOk : PSvOk s
  relHolds : PRelHolds s
  ll : PLl s
  wf : s.wl.WF
  syncCur : PSyncCur s
  asyncCur : PAsyncCur s
  ffOk : PFfOk s
  syncLinked : PSyncLinked s
  thrWr : PThrWr s
  thrNode : PThrNode s
  nodeWoken : PNodeWoken s
  wnTgt : PWnTgt s
  wrTgt : PWrTgt s
  futNode : PFutNode s
  futNodeWr : PFutNodeWr s
  busy : PBusy s
  futWr : PFutWr s
  phFresh : PPhFresh s
  phStarted : PPhStarted s
  phNode : PPhNode s
  futUnl : PFutUnl s

/-- case analysis of a step down to branch-free successor states -/
macro "step_rest" : tactic => `(tactic| (
  all_goals (try simp only [taFail, taSucc, llEnter, afterRel, callStep, spinHead, pollHead, pollDone,
    wakeAllNext, wakeRest])
  all_goals (repeat' split)
  all_goals (try clear ‹TaK›)
  all_goals (try clear ‹LlK›)
  all_goals (try clear ‹After›)
  all_goals (try cases ‹TaK›)
  all_goals (try cases ‹LlK›)
  all_goals (try cases ‹After›)))

macro "step_cases " h:ident : tactic => `(tactic| (cases $h:ident; step_rest))

/-- normalise the projections of an explicit successor state -/
macro "norm_state" : tactic => `(tactic| (
  simp only [withPc, setTh, upd_apply, me, curF, Option.getD, ↓reduceIte, if_true, if_false,
    Thread.ite_pc, Thread.ite_wr, Thread.ite_sv, Thread.ite_linked, Thread.ite_i, Thread.ite_cur,
    Thread.ite_blockOn, Thread.ite_tgt, Thread.ite_ws, Fut.ite_phase, Fut.ite_busy, Fut.ite_wr, Fut.ite_bo,
    Node.ite_woken, Node.ite_waiter, Node.ite_isWriter, Node.ite_linked,
    WaitList.setLocked_locked, WaitList.setLocked_queue, WaitList.setLocked_writers, WaitList.setLocked_len,
    WaitList.setLocked_node, WaitList.putNode_locked, WaitList.putNode_queue, WaitList.putNode_writers,
    WaitList.putNode_len, WaitList.putNode_node, WaitList.setWaiter_locked, WaitList.setWaiter_queue,
    WaitList.setWaiter_writers, WaitList.setWaiter_len, WaitList.setWaiter_node, WaitList.setWoken_locked,
    WaitList.setWoken_queue, WaitList.setWoken_writers, WaitList.setWoken_len, WaitList.setWoken_node,
    WaitList.takeAndMark_locked, WaitList.takeAndMark_queue, WaitList.takeAndMark_writers,
    WaitList.takeAndMark_len, WaitList.takeAndMark_node, WaitList.linkBack_locked, WaitList.linkBack_queue,
    WaitList.linkBack_len, WaitList.linkBack_node, WaitList.linkBack_writers, WaitList.unlink_locked,
    WaitList.unlink_queue, WaitList.unlink_len, WaitList.unlink_writers, WaitList.unlink_node,
    WaitList.wasLinked_eq, WaitList.firstWriter_setLocked, Node.fresh] at *))

/-- same, goal only -/
macro "norm_goal" : tactic => `(tactic| (
  simp only [withPc, setTh, upd_apply, me, curF, Option.getD, ↓reduceIte, if_true, if_false,
    Thread.ite_pc, Thread.ite_wr, Thread.ite_sv, Thread.ite_linked, Thread.ite_i, Thread.ite_cur,
    Thread.ite_blockOn, Thread.ite_tgt, Thread.ite_ws, Fut.ite_phase, Fut.ite_busy, Fut.ite_wr, Fut.ite_bo,
    Node.ite_woken, Node.ite_waiter, Node.ite_isWriter, Node.ite_linked,
    WaitList.setLocked_locked, WaitList.setLocked_queue, WaitList.setLocked_writers, WaitList.setLocked_len,
    WaitList.setLocked_node, WaitList.putNode_locked, WaitList.putNode_queue, WaitList.putNode_writers,
    WaitList.putNode_len, WaitList.putNode_node, WaitList.setWaiter_locked, WaitList.setWaiter_queue,
    WaitList.setWaiter_writers, WaitList.setWaiter_len, WaitList.setWaiter_node, WaitList.setWoken_locked,
    WaitList.setWoken_queue, WaitList.setWoken_writers, WaitList.setWoken_len, WaitList.setWoken_node,
    WaitList.takeAndMark_locked, WaitList.takeAndMark_queue, WaitList.takeAndMark_writers,
    WaitList.takeAndMark_len, WaitList.takeAndMark_node, WaitList.linkBack_locked, WaitList.linkBack_queue,
    WaitList.linkBack_len, WaitList.linkBack_node, WaitList.linkBack_writers, WaitList.unlink_locked,
    WaitList.unlink_queue, WaitList.unlink_len, WaitList.unlink_writers, WaitList.unlink_node,
    WaitList.wasLinked_eq, WaitList.firstWriter_setLocked, Node.fresh]))

/-- grind with the region predicates -/
macro "rg" : tactic => `(tactic| grind [isCas, inLL, slowL, rdL, syncOnly, asyncOnly, futPc, futNodePc, futUnlPc,
  TaK.sync, After.sync, After.async])

end Fv.Sync.RwLock
